#!/usr/bin/env python3
# Regenerates MANIFEST.json from meta/<Cxx>.json (one file per claimed property) and
# meta/not_applicable.json ({"Cxx": "reason"}). Every property of properties.jsonl is either
# claimed or listed under not_applicable.
import json, os, sys
ROOT = os.path.dirname(os.path.dirname(os.path.abspath(__file__)))
ids = [json.loads(l)["id"] for l in open(os.path.join(ROOT, "properties.jsonl")) if l.strip()]
na = {}
p = os.path.join(ROOT, "meta", "not_applicable.json")
if os.path.exists(p):
    na = json.load(open(p))
hooks = json.load(open(os.path.join(ROOT, "meta", "hooks.json")))
checks = []
napp = []
for i in ids:
    mp = os.path.join(ROOT, "meta", i + ".json")
    if os.path.exists(mp) and i not in na:
        m = json.load(open(mp))
        checks.append({
            "property_id": i,
            "quick_cmd": "./check %s --tier quick" % i,
            "thorough_cmd": "./check %s --tier thorough" % i,
            "evidence_file": "evidence/%s.json" % i,
            "replay_cmd_template": "./check %s --replay {path}" % i,
            "engine": "coq-model+differential",
            "level_claimed": {"category": "proof", "text": m["text"], "design_ref": m.get("design_ref", "DESIGN.md §6 " + i)},
            "level_note": m["note"],
            "technique": m["technique"],
        })
    else:
        napp.append({"property_id": i, "reason": na.get(i, "check not built yet (work in progress; see DESIGN.md §10 build order)")})
man = {
    "version": 1,
    "setup_cmd": "./setup.sh",
    "hooks": hooks,
    "engines": [{
        "name": "coq-model+differential", "path": "check",
        "serves_properties": [c["property_id"] for c in checks],
        "kind_free_text": "Coq 8.16 proofs over a hand-written executable Gallina model; model extracted to OCaml and run against the real crate on the same cases (correspondence); spec-side oracles judge the implementation's outputs"}],
    "checks": checks,
    "not_applicable": napp,
    "notes": "Technique family: machine-checked proof in Coq. See DESIGN.md.",
}
json.dump(man, open(os.path.join(ROOT, "MANIFEST.json"), "w"), indent=1)
try:
    import jsonschema
    jsonschema.validate(man, json.load(open("/root/.vp/MANIFEST.schema.json")))
    print("MANIFEST.json valid: %d checks, %d not claimed" % (len(checks), len(napp)))
except ImportError:
    print("MANIFEST.json written (jsonschema not available): %d checks" % len(checks))
