#!/bin/sh
# tools/try_mutant.sh <patch.diff> <Cxx> [<Cyy> ...] — applies a seeded change to /repo, runs the
# named checks (quick tier), and ALWAYS restores /repo afterwards.
patch="$1"; shift
cd /repo || exit 2
if ! git diff --quiet; then echo "/repo has uncommitted changes; refusing"; exit 2; fi
if ! git apply "$patch"; then echo "patch does not apply"; exit 2; fi
trap 'git -C /repo checkout -- . ' EXIT INT TERM
cd /verif
for p in "$@"; do
  ./check "$p" --tier quick 2>&1 | grep -E 'VIOLATION|KNOWN-FINDING|^C[0-9]+:' | cut -c1-250
done
