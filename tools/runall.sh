#!/bin/sh
# tools/runall.sh [quick|thorough] — runs every registered check in turn and prints one line each.
tier=${1:-quick}
cd "$(dirname "$0")/.."
for p in $(python3 -c "import json; print(' '.join(c['property_id'] for c in json.load(open('MANIFEST.json'))['checks']))"); do
  s=$(date +%s)
  out=$(./check $p --tier $tier 2>&1)
  rc=$?
  echo "$p rc=$rc $(($(date +%s)-s))s $(echo "$out" | grep -c '^VIOLATION') violation(s) $(echo "$out" | grep -c '^KNOWN-FINDING') known | $(echo "$out" | tail -1 | cut -c1-160)"
done
