#!/usr/bin/env python3
# tools/keep_mutant.py <src dir> <seeded id> <property> <confirm-log line file> "<needs>" "<caught by>"
import json, os, shutil, sys
src, sid, prop, logf, needs, caught = sys.argv[1:7]
d = os.path.join("/verif/seeded", sid)
os.makedirs(d, exist_ok=True)
shutil.copy(os.path.join(src, "patch.diff"), os.path.join(d, "patch.diff"))
shutil.copy(os.path.join(src, "demo.rs"), os.path.join(d, "demo.rs"))
notes = open(os.path.join(src, "notes.md")).read() if os.path.exists(os.path.join(src, "notes.md")) else ""
confirm = ""
for l in open(logf):
    if l.startswith(sid.split("_", 1)[-1] + ":") or l.startswith(sid + ":"):
        confirm = l.strip()
meta = {
    "id": sid, "property": prop, "breaks": notes.strip().split("\n")[0:3],
    "needs_to_manifest": needs,
    "confirmed_by_me": {
        "how": "tools/confirm_mutant.sh in a scratch worktree: demo passes without the patch, fails with it; "
               "cargo test --workspace --no-fail-fast --offline passes with the patch (47 = 38 tests + 9 doctests)",
        "result": confirm},
    "detected_by": caught,
    "author": "independent sub-agent given only the property text and a scratch worktree",
    "author_notes": notes,
}
json.dump(meta, open(os.path.join(d, "meta.json"), "w"), indent=1)
print("kept", sid)
