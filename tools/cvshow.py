#!/usr/bin/env python3
# tools/cvshow.py <dump file> [max] — decodes disagreeing cv cases for reading (development aid)
import sys
sys.path.insert(0, "/verif/lib")
from obs import parse_obs, unhex
txt = open(sys.argv[1]).read().strip().split("\n\n")
mx = int(sys.argv[2]) if len(sys.argv) > 2 else 5
for blk in txt[:mx]:
    ls = blk.split("\n")
    case = ls[0][6:]
    f = case.split(" ")
    print("=" * 100)
    print("CASE eof=%s cfg=%s script=%s %s" % (f[2], f[3], f[5], " ".join(f[6:])))
    print("STREAM", repr(unhex(f[4]))[:1500])
    for who, l in (("IMPL ", ls[1][7:]), ("MODEL", ls[2][7:])):
        o = parse_obs(l)
        if o.special:
            print(who, o.special[:300])
            continue
        print(who, "n=%d end=%s stray=%d" % (o.n, o.end, o.stray))
        for r in o.reqs:
            print("   ", r.method, r.url[:40], r.version, [(n, v[:30]) for n, v in r.headers][:6], "bl=", r.body_length, "rd=", len(r.read), repr(r.read[:40]), r.end)
        print("    WIRE", len(o.wire), repr(o.wire[:1200]))
