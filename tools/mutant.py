#!/usr/bin/env python3
# tools/mutant.py <worktree> <mutant dir> <seeded id> <check> [<check> ...]
# 1. confirms the mutant in the scratch worktree (existing suite passes with the patch; the demo fails with
#    it and passes without it), 2. applies it to /repo, runs the named checks (quick tier), restores /repo,
# 3. stores seeded/<id>/ (patch.diff, demo.rs, meta.json with what was run and what detected it).
import json, os, re, shutil, subprocess, sys
wt, mdir, sid = sys.argv[1:4]
checks = sys.argv[4:]
env = dict(os.environ, CARGO_NET_OFFLINE="true")


def sh(cmd, cwd=None, timeout=3600):
    p = subprocess.run(cmd, shell=True, cwd=cwd, stdout=subprocess.PIPE, stderr=subprocess.STDOUT, env=env, timeout=timeout)
    return p.returncode, p.stdout.decode("utf-8", "replace")


def results(out):
    return " | ".join(l for l in out.split("\n") if l.startswith("test result"))[:400]


sh("git checkout -q -- . ; rm -f tests/demo_mutant.rs", cwd=wt)
shutil.copy(os.path.join(mdir, "demo.rs"), os.path.join(wt, "tests", "demo_mutant.rs"))
rc0, out0 = sh("cargo test --offline --test demo_mutant 2>&1", cwd=wt)
rc, out = sh("git apply %s" % os.path.join(mdir, "patch.diff"), cwd=wt)
if rc != 0:
    print("PATCH DOES NOT APPLY", out)
    sys.exit(1)
rc1, out1 = sh("cargo test --offline --test demo_mutant 2>&1", cwd=wt)
os.remove(os.path.join(wt, "tests", "demo_mutant.rs"))
rc2, out2 = sh("cargo test --workspace --no-fail-fast --offline 2>&1", cwd=wt)
sh("git checkout -q -- .", cwd=wt)
passed = sum(int(m) for m in re.findall(r"test result: \w+\. (\d+) passed", out2))
failed = sum(int(m) for m in re.findall(r"test result: \w+\. \d+ passed; (\d+) failed", out2))
confirm = {"demo_without_patch": "rc=%d %s" % (rc0, results(out0)), "demo_with_patch": "rc=%d %s" % (rc1, results(out1)),
           "suite_with_patch": "rc=%d passed=%d failed=%d" % (rc2, passed, failed)}
ok = rc0 == 0 and rc1 != 0 and rc2 == 0 and failed == 0
print("confirm:", json.dumps(confirm), "OK" if ok else "NOT CONFIRMED")
# run the checks against /repo with the patch applied
rc, out = sh("git diff --quiet", cwd="/repo")
if rc != 0:
    print("/repo has uncommitted changes; refusing")
    sys.exit(2)
det = {}
try:
    rc, out = sh("git apply %s" % os.path.join(mdir, "patch.diff"), cwd="/repo")
    if rc != 0:
        print("patch does not apply to /repo", out)
        sys.exit(1)
    for c in checks:
        rc, out = sh("./check %s --tier quick 2>&1" % c, cwd="/verif", timeout=3000)
        lines = [l[:300] for l in out.split("\n") if re.match(r"VIOLATION|KNOWN-FINDING|C\d+:", l)]
        det[c] = {"exit": rc, "lines": lines[:4]}
        rp = re.search(r"replay=(\S+)", out)
        if rp and os.path.exists(rp.group(1)):
            head = open(rp.group(1)).read(700)
            det[c]["replay_head"] = head
        print(c, rc, lines[:3])
finally:
    sh("git checkout -- . ; git clean -fdq src tests", cwd="/repo")
d = os.path.join("/verif/seeded", sid)
os.makedirs(d, exist_ok=True)
shutil.copy(os.path.join(mdir, "patch.diff"), os.path.join(d, "patch.diff"))
shutil.copy(os.path.join(mdir, "demo.rs"), os.path.join(d, "demo.rs"))
am = {}
if os.path.exists(os.path.join(mdir, "meta.json")):
    try:
        am = json.load(open(os.path.join(mdir, "meta.json")))
    except Exception:
        am = {"raw": open(os.path.join(mdir, "meta.json")).read()}
meta = {"id": sid, "property": am.get("property", sid[:3]), "summary": am.get("summary"), "needs_to_manifest": am.get("needs"),
        "why_existing_tests_pass": am.get("why_tests_pass"),
        "author": "independent sub-agent given only the property text and a scratch worktree of /repo",
        "confirmed_by_me": dict(confirm, confirmed=ok, how="tools/mutant.py in the scratch worktree"),
        "checks_run_against_it": det,
        "detected": any(v["exit"] != 0 for v in det.values())}
json.dump(meta, open(os.path.join(d, "meta.json"), "w"), indent=1)
print("kept", sid, "detected" if meta["detected"] else "MISSED")
