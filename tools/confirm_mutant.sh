#!/bin/sh
# tools/confirm_mutant.sh <worktree> <mutant dir (patch.diff, demo.rs)> <name>
# Confirms in a scratch worktree: (1) existing suite passes with the patch, (2) demo fails with the
# patch, (3) demo passes without it. Prints one summary line. Leaves the worktree clean.
wt="$1"; dir="$2"; name="$3"
cd "$wt" || exit 2
git checkout -q -- . 2>/dev/null
demo="tests/demo_$(echo "$name" | tr 'A-Z-' 'a-z_').rs"
cp "$dir/demo.rs" "$demo"
t="$(basename "$demo" .rs)"
base_demo=$(cargo test --offline --test "$t" 2>&1 | grep -E '^test result' | head -1)
git apply "$dir/patch.diff" || { echo "$name: PATCH DOES NOT APPLY"; rm -f "$demo"; exit 1; }
mut_demo=$(cargo test --offline --test "$t" 2>&1 | grep -E '^test result|error\[' | head -1)
rm -f "$demo"
suite=$(cargo test --workspace --no-fail-fast --offline 2>&1 | grep -E '^test result' | awk '{p+=$4; f+=$6} END {print p" passed "f" failed"}')
git checkout -q -- .
echo "$name: demo(no patch)=[$base_demo] demo(patch)=[$mut_demo] suite(patch)=[$suite]"
