#!/bin/sh
# tools/coqshow.sh <file.v> <line> — prints the proof state just before <line> (development aid)
f="$1"; n="$2"
head -n $((n-1)) "$f" > /tmp/coqshow.v
echo "Show." >> /tmp/coqshow.v
cd /verif/coq && coqtop -Q theories TH -batch -l /tmp/coqshow.v 2>&1 | tail -${3:-40}
