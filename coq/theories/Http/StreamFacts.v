(* Http/StreamFacts.v — no body reader operation changes the flag "the client has closed its
   sending side" of the stream, and each leaves a suffix of the pending bytes (bytes are only
   ever consumed from the front, never invented or reordered). *)
From TH Require Import Base.Bytes Base.BytesFacts Http.Response Http.Request Http.Body Http.BodyFacts.
From Coq Require Import Lia.

(* st' is st with some bytes consumed from the front *)
Definition advanced (st st' : stream) : Prop :=
  seof st' = seof st /\ exists used, sbytes st = used ++ sbytes st'.

Lemma adv_refl st : advanced st st.
Proof. split; [reflexivity|]. now exists []. Qed.
Lemma adv_trans a b c : advanced a b -> advanced b c -> advanced a c.
Proof.
  intros [E1 [u1 H1]] [E2 [u2 H2]]. split; [congruence|]. exists (u1 ++ u2). now rewrite H1, H2, app_assoc.
Qed.

Lemma src_read_adv n st : advanced st (snd (src_read n st)).
Proof.
  unfold src_read. destruct n; [apply adv_refl|]. destruct (sbytes st) as [|b t] eqn:E.
  - destruct (seof st); apply adv_refl.
  - cbn [snd]. split; [reflexivity|]. cbn [sbytes]. exists (firstn (S n) (b :: t)). rewrite E. now rewrite firstn_skipn.
Qed.
Lemma src_byte_adv st : advanced st (snd (src_byte st)).
Proof.
  unfold src_byte. destruct (sbytes st) as [|b t] eqn:E.
  - destruct (seof st); apply adv_refl.
  - cbn [snd]. split; [reflexivity|]. cbn [sbytes]. exists [b]. now rewrite E.
Qed.
Lemma expect_byte_adv c st : advanced st (snd (expect_byte c st)).
Proof.
  unfold expect_byte. pose proof (src_byte_adv st) as H. destruct (src_byte st) as [[b| |] st']; cbn [snd] in *; auto.
  destruct (Ascii.eqb b c); exact H.
Qed.
Lemma size_bytes_adv : forall fuel ie acc st, advanced st (snd (size_bytes fuel ie acc st)).
Proof.
  induction fuel as [|f IH]; intros ie acc st; [apply adv_refl|]. cbn [size_bytes].
  pose proof (src_byte_adv st) as H. destruct (src_byte st) as [[b| |] st']; cbn [snd] in *; auto.
  destruct (Ascii.eqb b CR); [exact H|]. destruct ie; [eapply adv_trans; [exact H|apply IH]|].
  destruct (Ascii.eqb b ";"); (eapply adv_trans; [exact H|apply IH]).
Qed.
Lemma read_chunk_size_adv st : advanced st (snd (read_chunk_size st)).
Proof.
  unfold read_chunk_size. pose proof (size_bytes_adv (S (List.length (sbytes st))) false [] st) as H.
  destruct (size_bytes _ false [] st) as [[x| |] st1]; cbn [snd] in *; auto.
  pose proof (expect_byte_adv LF st1) as H1. destruct (expect_byte LF st1) as [[u| |] st2]; cbn [snd] in *;
    try (eapply adv_trans; eassumption).
  destruct (parse_chunk_size x); cbn [snd]; eapply adv_trans; eassumption.
Qed.
Lemma read_crlf_adv st : advanced st (snd (read_crlf st)).
Proof.
  unfold read_crlf. pose proof (expect_byte_adv CR st) as H. destruct (expect_byte CR st) as [[u| |] st1]; cbn [snd] in *; auto.
  eapply adv_trans; [exact H|apply expect_byte_adv].
Qed.

Lemma dgo_like_adv n (rem : option N) r st :
  advanced st (snd (
    if (N.of_nat n <? r)%N then
      match src_read n st with
      | (RData d, st1) => (RData d, Some (r - len d)%N, st1)
      | (REof, st1) => (REof, Some r, st1)
      | (x, st1) => (x, Some r, st1)
      end
    else
      match src_read (N.to_nat r) st with
      | (RData d, st1) =>
          if (len d =? r)%N then
            match read_crlf st1 with
            | (DOk _, st2) => (RData d, None, st2)
            | (DErr, st2) => (RErr, rem, st2)
            | (DBlock, st2) => (RBlock, rem, st2)
            end
          else (RData d, Some (r - len d)%N, st1)
      | (REof, st1) => (REof, Some r, st1)
      | (x, st1) => (x, Some r, st1)
      end)).
Proof.
  destruct (N.of_nat n <? r)%N.
  - pose proof (src_read_adv n st) as H. destruct (src_read n st) as [[d| | |] st1]; exact H.
  - pose proof (src_read_adv (N.to_nat r) st) as H. destruct (src_read (N.to_nat r) st) as [[d| | |] st1]; cbn [snd] in *; auto.
    destruct (len d =? r)%N; [|exact H]. pose proof (read_crlf_adv st1) as H1.
    destruct (read_crlf st1) as [[u| |] st2]; cbn [snd] in *; eapply adv_trans; eassumption.
Qed.

Lemma dec_read_adv n rem st : advanced st (snd (dec_read n rem st)).
Proof.
  destruct rem as [r|].
  - exact (dgo_like_adv n (Some r) r st).
  - unfold dec_read. pose proof (read_chunk_size_adv st) as H.
    destruct (read_chunk_size st) as [[sz| |] st1]; cbn [snd] in *; auto.
    destruct (sz =? 0)%N.
    + pose proof (read_crlf_adv st1) as H1. destruct (read_crlf st1) as [[u| |] st2]; cbn [snd] in *; eapply adv_trans; eassumption.
    + eapply adv_trans; [exact H|]. exact (dgo_like_adv n None sz st1).
Qed.

Lemma discard_adv c : forall fuel rem st al, advanced st (fst (discard c fuel rem st al)).
Proof.
  induction fuel as [|f IH]; intros rem st al; [apply adv_refl|]. cbn [discard].
  destruct (rem =? 0)%N; [apply adv_refl|].
  match goal with |- context [src_read ?k st] => pose proof (src_read_adv k st) as H; destruct (src_read k st) as [[d| | |] st1] end;
    cbn [snd fst] in *; auto.
  eapply adv_trans; [exact H|apply IH].
Qed.
Lemma drain_adv : forall fuel rem st, advanced st (drain_chunked fuel rem st).
Proof.
  induction fuel as [|f IH]; intros rem st; [apply adv_refl|]. cbn [drain_chunked].
  pose proof (dec_read_adv 1024 rem st) as H. destruct (dec_read 1024 rem st) as [[[d| | |] rem'] st1]; cbn [snd] in *; auto.
  eapply adv_trans; [exact H|apply IH].
Qed.

Theorem body_read_adv c n r st al x r' st' al' :
  body_read c n r st al = (x, r', st', al') -> advanced st st'.
Proof.
  destruct r as [|d|rem|rem fin|]; cbn [body_read].
  - intros [= <- <- <- <-]. apply adv_refl.
  - destruct d; intros [= <- <- <- <-]; apply adv_refl.
  - destruct (rem =? 0)%N; [intros [= <- <- <- <-]; apply adv_refl|].
    match goal with |- context [src_read ?k st] => pose proof (src_read_adv k st) as H; destruct (src_read k st) as [[d| | |] st1] end;
      cbn [snd] in H; try (intros [= <- <- <- <-]; exact H).
    pose proof (discard_adv c 1 rem st1 al) as H1. destruct (discard c 1 rem st1 al) as [st2 al2]. cbn [fst] in H1.
    intros [= <- <- <- <-]. eapply adv_trans; eassumption.
  - destruct fin; [intros [= <- <- <- <-]; apply adv_refl|].
    pose proof (dec_read_adv n rem st) as H. destruct (dec_read n rem st) as [[[d| | |] rem'] st1]; cbn [snd] in H;
      intros [= <- <- <- <-]; exact H.
  - pose proof (src_read_adv n st) as H. destruct (src_read n st) as [y st1]. intros [= <- <- <- <-]. exact H.
Qed.

Theorem body_read_any_adv c n r st al x r' st' al' :
  body_read_any c n r st al = (x, r', st', al') -> advanced st st'.
Proof.
  destruct n as [|n]; [|apply body_read_adv]. cbn [body_read_any]. unfold body_read_zero.
  destruct r as [|d|rem|rem fin|]; try (intros [= <- <- <- <-]; apply adv_refl).
  - destruct (rem =? 0)%N; [intros [= <- <- <- <-]; apply adv_refl|].
    destruct (sbytes st) as [|b t] eqn:Es.
    + destruct (seof st); [|intros [= <- <- <- <-]; apply adv_refl].
      pose proof (discard_adv c 1 rem st al) as H1. destruct (discard c 1 rem st al) as [st2 al2]. cbn [fst] in H1.
      intros [= <- <- <- <-]. exact H1.
    + pose proof (discard_adv c (S (List.length (b :: t))) rem st al) as H1.
      destruct (discard c (S (List.length (b :: t))) rem st al) as [st2 al2]. cbn [fst] in H1.
      intros [= <- <- <- <-]. exact H1.
  - destruct fin; [intros [= <- <- <- <-]; apply adv_refl|].
    destruct (fix_d4 c); [|apply body_read_adv].
    intros H. injection H as <- <- <- <-. exact (drain_adv (S (List.length (sbytes st))) rem st).
Qed.

Theorem body_drop_adv c r st al : advanced st (fst (body_drop c r st al)).
Proof.
  destruct r as [|d|rem|rem fin|]; cbn [body_drop fst]; try apply adv_refl.
  - apply discard_adv.
  - destruct (fix_d4 c && negb fin); cbn [fst]; [apply drain_adv|apply adv_refl].
Qed.

Theorem reads_adv c : forall ns r st al ps e r' st' al',
  reads c ns r st al = (ps, e, r', st', al') -> advanced st st'.
Proof.
  induction ns as [|n ns IH]; intros r st al ps e r' st' al'; cbn [reads].
  - intros [= <- <- <- <- <-]. apply adv_refl.
  - destruct (body_read c n r st al) as [[[x r1] st1] al1] eqn:E. apply body_read_adv in E.
    destruct x as [d| | |]; try (intros [= <- <- <- <- <-]; exact E).
    destruct (reads c ns r1 st1 al1) as [[[[ps2 e2] r2] st2] al2] eqn:E2. apply IH in E2.
    intros [= <- <- <- <- <-]. eapply adv_trans; eassumption.
Qed.

Theorem take_adv c : forall fuel m n r st al acc acc' e r' st' al',
  take c fuel m n r st al acc = (acc', e, r', st', al') -> advanced st st'.
Proof.
  induction fuel as [|f IH]; intros m n r st al acc acc' e r' st' al'; cbn [take].
  - intros [= <- <- <- <- <-]. apply adv_refl.
  - destruct (m =? 0)%N; [intros [= <- <- <- <- <-]; apply adv_refl|].
    match goal with |- context [body_read_any c ?k r st al] => destruct (body_read_any c k r st al) as [[[x r1] st1] al1] eqn:E end.
    apply body_read_any_adv in E. destruct x as [d| | |]; try (intros [= <- <- <- <- <-]; exact E).
    intros H. apply IH in H. eapply adv_trans; eassumption.
Qed.

(* with the pending bytes known: the new stream is determined by its pending bytes *)
Lemma advanced_eq x e st' y : advanced (mkS x e) st' -> sbytes st' = y -> st' = mkS y e.
Proof. intros [He _] Hy. destruct st' as [b f]. cbn [sbytes seof] in *. congruence. Qed.
