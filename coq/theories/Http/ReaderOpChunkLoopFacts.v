(* Http/ReaderOpChunkLoopFacts.v — the application's read loop over chunked_transfer::Decoder on
   the operational BufReader (C13). One Decoder::read may be short, so only loops are compared.
   dec_fn is the loop as a function of the logical stream. It has one INDETERMINATE case, DFTorn:
   a chunk whose payload is complete in the stream but is not followed by CR LF (or the stream
   pauses/ends right there). In that case Decoder::read returns Err after having consumed the last
   piece of the payload, which the application never sees, and how long that last piece is depends
   on the segmentation (see c13_chunked_torn_* in Props/C13.v). In every other case
   (dec_fn = DFOk F) the loop over any segmentation with any buffer-size policy yields F. *)
From TH Require Import Base.Bytes Base.BytesFacts Http.Response Http.Request Http.Body Http.ReaderOp
                       Http.ReaderOpFacts Http.ReaderOpLimitedFacts Http.ReaderOpChunkFacts.
From Coq Require Import Lia ZArith ZifyN ZifyBool ZifyNat.
Open Scope char_scope.

Record dtres := mkDT { dt_got : bytes; dt_end : read_end; dt_rem : option N; dt_rest : bytes }.
Inductive dfres := DFOk (F : dtres) | DFTorn | DFFuel.

Definition dprepend (d : bytes) (R : dfres) : dfres :=
  match R with
  | DFOk F => DFOk (mkDT (d ++ dt_got F) (dt_end F) (dt_rem F) (dt_rest F))
  | x => x
  end.

Fixpoint dec_fn (fuel : nat) (m : N) (rem : option N) (x : bytes) (e : bool) : dfres :=
  if (m =? 0)%N then DFOk (mkDT [] EndCount rem x) else
  match fuel with
  | O => DFFuel
  | S f =>
      match rem with
      | None =>
          match read_chunk_size (mkS x e) with
          | (DOk sz, st1) =>
              if (sz =? 0)%N then
                match read_crlf st1 with
                | (DOk _, st2) => DFOk (mkDT [] EndEof None (sbytes st2))
                | (DErr, st2) => DFOk (mkDT [] EndErr None (sbytes st2))
                | (DBlock, st2) => DFOk (mkDT [] EndBlock None (sbytes st2))
                end
              else dec_fn f m (Some sz) (sbytes st1) e
          | (DErr, st1) => DFOk (mkDT [] EndErr None (sbytes st1))
          | (DBlock, st1) => DFOk (mkDT [] EndBlock None (sbytes st1))
          end
      | Some r =>
          let t := N.min m r in
          if (len x <? t)%N then          (* the stream ends / pauses inside the chunk *)
            DFOk (mkDT x (if e then EndEof else EndBlock) (Some (r - len x)%N) [])
          else if (t <? r)%N then         (* the count is reached inside the chunk *)
            DFOk (mkDT (firstn (N.to_nat t) x) EndCount (Some (r - t)%N) (skipn (N.to_nat t) x))
          else                            (* the chunk is completed *)
            match read_crlf (mkS (skipn (N.to_nat r) x) e) with
            | (DOk _, st2) => dprepend (firstn (N.to_nat r) x) (dec_fn f (m - r)%N None (sbytes st2) e)
            | _ => DFTorn
            end
      end
  end.

Lemma dec_fn_unfold fuel m rem x e : dec_fn fuel m rem x e =
  if (m =? 0)%N then DFOk (mkDT [] EndCount rem x) else
  match fuel with
  | O => DFFuel
  | S f =>
      match rem with
      | None =>
          match read_chunk_size (mkS x e) with
          | (DOk sz, st1) =>
              if (sz =? 0)%N then
                match read_crlf st1 with
                | (DOk _, st2) => DFOk (mkDT [] EndEof None (sbytes st2))
                | (DErr, st2) => DFOk (mkDT [] EndErr None (sbytes st2))
                | (DBlock, st2) => DFOk (mkDT [] EndBlock None (sbytes st2))
                end
              else dec_fn f m (Some sz) (sbytes st1) e
          | (DErr, st1) => DFOk (mkDT [] EndErr None (sbytes st1))
          | (DBlock, st1) => DFOk (mkDT [] EndBlock None (sbytes st1))
          end
      | Some r =>
          let t := N.min m r in
          if (len x <? t)%N then
            DFOk (mkDT x (if e then EndEof else EndBlock) (Some (r - len x)%N) [])
          else if (t <? r)%N then
            DFOk (mkDT (firstn (N.to_nat t) x) EndCount (Some (r - t)%N) (skipn (N.to_nat t) x))
          else
            match read_crlf (mkS (skipn (N.to_nat r) x) e) with
            | (DOk _, st2) => dprepend (firstn (N.to_nat r) x) (dec_fn f (m - r)%N None (sbytes st2) e)
            | _ => DFTorn
            end
      end
  end.
Proof. destruct fuel; reflexivity. Qed.

Lemma dprepend_app a b R : dprepend (a ++ b) R = dprepend a (dprepend b R).
Proof. destruct R as [F| |]; cbn [dprepend dt_got dt_end dt_rem dt_rest]; [|reflexivity|reflexivity]. now rewrite app_assoc. Qed.

Lemma dprepend_ok d R F : dprepend d R = DFOk F ->
  exists F', R = DFOk F' /\ F = mkDT (d ++ dt_got F') (dt_end F') (dt_rem F') (dt_rest F').
Proof. destruct R as [F'| |]; cbn [dprepend]; intros H; inversion H. eauto. Qed.

(* ---------- step lemmas of dec_fn inside a chunk ---------- *)
Lemma dec_fn_Some_nil f m r e : m <> 0%N -> r <> 0%N ->
  dec_fn (S f) m (Some r) [] e = DFOk (mkDT [] (if e then EndEof else EndBlock) (Some r) []).
Proof.
  intros Hm Hr. rewrite dec_fn_unfold. destruct (m =? 0)%N eqn:Em; [lia|]. cbn zeta.
  unfold len. cbn [List.length]. destruct (N.of_nat 0 <? N.min m r)%N eqn:E; [|lia].
  do 3 f_equal. lia.
Qed.

(* a piece that does not complete the chunk *)
Lemma dec_fn_step_in f m r (d x : bytes) e : d <> [] -> (len d <= m)%N -> (len d < r)%N ->
  dec_fn (S f) m (Some r) (d ++ x) e = dprepend d (dec_fn (S f) (m - len d)%N (Some (r - len d)%N) x e).
Proof.
  intros Hd Hm Hr.
  assert (Hld : (0 < len d)%N) by (unfold len; destruct d; [congruence|cbn [List.length]; lia]).
  rewrite (dec_fn_unfold (S f) m), (dec_fn_unfold (S f) (m - len d)%N).
  destruct (m =? 0)%N eqn:Em; [lia|]. cbn zeta. unfold len in *. rewrite app_length.
  destruct (m - N.of_nat (List.length d) =? 0)%N eqn:Em'.
  - (* the count is reached by this very piece *)
    destruct (N.of_nat (List.length d + List.length x) <? N.min m r)%N eqn:E1; [lia|].
    destruct (N.min m r <? r)%N eqn:E2; [|lia]. cbn [dprepend dt_got dt_end dt_rem dt_rest].
    replace (N.to_nat (N.min m r)) with (List.length d + 0) by lia.
    rewrite firstn_app_2, skipn_app, (skipn_all2 d) by lia. cbn [firstn app].
    replace (List.length d + 0 - List.length d) with 0 by lia. cbn [skipn]. do 3 f_equal. lia.
  - replace (N.min (m - N.of_nat (List.length d)) (r - N.of_nat (List.length d)))
      with (N.min m r - N.of_nat (List.length d))%N by lia.
    destruct (N.of_nat (List.length d + List.length x) <? N.min m r)%N eqn:E1;
      destruct (N.of_nat (List.length x) <? N.min m r - N.of_nat (List.length d))%N eqn:E1'; try lia.
    + cbn [dprepend dt_got dt_end dt_rem dt_rest]. do 3 f_equal. lia.
    + destruct (N.min m r <? r)%N eqn:E2;
        destruct (N.min m r - N.of_nat (List.length d) <? r - N.of_nat (List.length d))%N eqn:E2'; try lia.
      * cbn [dprepend dt_got dt_end dt_rem dt_rest].
        replace (N.to_nat (N.min m r - N.of_nat (List.length d)))
          with (N.to_nat (N.min m r) - List.length d) by lia.
        rewrite firstn_app, skipn_app, (firstn_all2 d), (skipn_all2 d) by lia. cbn [app].
        do 3 f_equal. lia.
      * replace (N.to_nat (r - N.of_nat (List.length d))) with (N.to_nat r - List.length d) by lia.
        rewrite firstn_app, skipn_app, (firstn_all2 d), (skipn_all2 d) by lia. cbn [app].
        replace (m - N.of_nat (List.length d) - (r - N.of_nat (List.length d)))%N with (m - r)%N by lia.
        destruct (read_crlf (mkS (skipn (N.to_nat r - List.length d) x) e)) as [[u| |] st2];
          [|reflexivity|reflexivity].
        apply dprepend_app.
Qed.

(* the piece that completes the chunk *)
Lemma dec_fn_step_done f m r (d x : bytes) e : r <> 0%N -> len d = r -> (r <= m)%N ->
  dec_fn (S f) m (Some r) (d ++ x) e =
  match read_crlf (mkS x e) with
  | (DOk _, st2) => dprepend d (dec_fn f (m - r)%N None (sbytes st2) e)
  | _ => DFTorn
  end.
Proof.
  intros Hr Hd Hm. rewrite dec_fn_unfold. destruct (m =? 0)%N eqn:Em; [lia|]. cbn zeta.
  unfold len in *. rewrite app_length.
  destruct (N.of_nat (List.length d + List.length x) <? N.min m r)%N eqn:E1; [lia|].
  destruct (N.min m r <? r)%N eqn:E2; [lia|].
  replace (N.to_nat r) with (List.length d + 0) by lia.
  rewrite firstn_app_2, skipn_app, (skipn_all2 d) by lia. cbn [firstn app].
  replace (List.length d + 0 - List.length d) with 0 by lia. cbn [skipn]. rewrite app_nil_r. reflexivity.
Qed.

(* ---------- one Decoder::read against dec_fn ---------- *)
Definition dec_go (n : nat) (rem : option N) (r : N) (br0 : bufreader) : rres * option N * bufreader :=
  if (N.of_nat n <? r)%N then
    match br_read n br0 with
    | (OData d, br1) => (RData d, Some (r - len d)%N, br1)
    | (OEof, br1) => (REof, Some r, br1)
    | (OBlock, br1) => (RBlock, Some r, br1)
    end
  else
    match br_read (N.to_nat r) br0 with
    | (OData d, br1) =>
        if (len d =? r)%N then
          match read_crlf_op br1 with
          | (DOk _, br2) => (RData d, None, br2)
          | (DErr, br2) => (RErr, rem, br2)
          | (DBlock, br2) => (RBlock, rem, br2)
          end
        else (RData d, Some (r - len d)%N, br1)
    | (OEof, br1) => (REof, Some r, br1)
    | (OBlock, br1) => (RBlock, Some r, br1)
    end.

Lemma dec_read_op_eq n rem br : dec_read_op n rem br =
  match rem with
  | Some r => dec_go n rem r br
  | None =>
      match read_chunk_size_op br with
      | (DOk sz, br1) =>
          if (sz =? 0)%N then
            match read_crlf_op br1 with
            | (DOk _, br2) => (REof, None, br2)
            | (DErr, br2) => (RErr, None, br2)
            | (DBlock, br2) => (RBlock, None, br2)
            end
          else dec_go n rem sz br1
      | (DErr, br1) => (RErr, None, br1)
      | (DBlock, br1) => (RBlock, None, br1)
      end
  end.
Proof. reflexivity. Qed.

Definition end_of (r : rres) : read_end :=
  match r with RData _ => EndCount | REof => EndEof | RErr => EndErr | RBlock => EndBlock end.

(* what one read establishes, given that dec_fn says DFOk F for the state before it *)
Definition step_post (br : bufreader) (m : N) (F : dtres) (res : rres * option N * bufreader) : Prop :=
  let '(r, rem', br') := res in
  wf br' /\ br_eof br' = br_eof br /\
  match r with
  | RData d =>
      d <> [] /\ List.length (contents br') < List.length (contents br) /\ rem' <> Some 0%N /\
      exists f' F', dec_fn f' (m - len d)%N rem' (contents br') (br_eof br) = DFOk F' /\
                    F = mkDT (d ++ dt_got F') (dt_end F') (dt_rem F') (dt_rest F')
  | _ => F = mkDT [] (end_of r) rem' (contents br')
  end.

Lemma dec_go_step n rem0 r br f m F : wf br -> 0 < n -> (N.of_nat n <= m)%N -> r <> 0%N ->
  dec_fn (S f) m (Some r) (contents br) (br_eof br) = DFOk F ->
  step_post br m F (dec_go n rem0 r br).
Proof.
  intros Hwf Hn Hnm Hr H. assert (Hm : m <> 0%N) by lia. unfold dec_go.
  (* the three outcomes of the payload read that do not complete the chunk *)
  assert (Hin : forall d br1, contents br = d ++ contents br1 -> d <> [] -> (len d <= m)%N -> (len d < r)%N ->
                  wf br1 -> br_eof br1 = br_eof br ->
                  step_post br m F (RData d, Some (r - len d)%N, br1)).
  { intros d br1 C Hd Hdm Hdr W1 E1. unfold step_post. split; [exact W1|]. split; [exact E1|].
    split; [exact Hd|]. split.
    { rewrite C, app_length. destruct d; [congruence|cbn [List.length]; lia]. }
    split; [intros Heq; injection Heq as Heq; lia|].
    rewrite C, dec_fn_step_in in H by assumption. apply dprepend_ok in H as (F' & H1 & H2).
    exists (S f), F'. split; assumption. }
  assert (Hnil : forall br1 (b : bool), contents br = [] -> br_eof br = b -> lands br br1 [] ->
                  step_post br m F ((if b then REof else RBlock), Some r, br1)).
  { intros br1 b C E (C1 & W1 & E1). rewrite C, E, dec_fn_Some_nil in H by assumption.
    inversion H; subst F. unfold step_post. rewrite C1. destruct b; cbn [end_of]; auto. }
  destruct (N.of_nat n <? r)%N eqn:Enr.
  - pose proof (br_read_spec n br Hwf Hn) as Hs. destruct (br_read n br) as [[d| |] br1].
    + destruct Hs as (C & Hd & Hl & W1 & E1). apply Hin; auto; unfold len; lia.
    + destruct Hs as (C & E & L). exact (Hnil br1 true C E L).
    + destruct Hs as (C & E & L). exact (Hnil br1 false C E L).
  - pose proof (br_read_spec (N.to_nat r) br Hwf ltac:(lia)) as Hs.
    destruct (br_read (N.to_nat r) br) as [[d| |] br1].
    + destruct Hs as (C & Hd & Hl & W1 & E1). destruct (len d =? r)%N eqn:Edr.
      * assert (Hdr : len d = r) by lia.
        rewrite C, dec_fn_step_done in H by (auto; lia).
        destruct (read_crlf_agrees br1 W1) as (A1 & A2 & A3 & A4).
        unfold st_of in A1 at 1. rewrite E1 in A1. rewrite A1 in H.
        destruct (read_crlf_op br1) as [[u| |] br2]; cbn [fst snd] in *; [|discriminate|discriminate].
        apply dprepend_ok in H as (F' & H1 & H2). unfold step_post.
        split; [exact A2|]. split; [congruence|]. split; [exact Hd|]. split.
        { rewrite C, app_length. destruct d; [congruence|cbn [List.length]; lia]. }
        split; [discriminate|]. exists f, F'. rewrite Hdr. cbn [st_of sbytes] in H1. split; assumption.
      * apply Hin; auto; unfold len in *; lia.
    + destruct Hs as (C & E & L). exact (Hnil br1 true C E L).
    + destruct Hs as (C & E & L). exact (Hnil br1 false C E L).
Qed.

Lemma dec_read_op_step n rem br ff m F : wf br -> 0 < n -> (N.of_nat n <= m)%N -> rem <> Some 0%N ->
  dec_fn ff m rem (contents br) (br_eof br) = DFOk F ->
  step_post br m F (dec_read_op n rem br).
Proof.
  intros Hwf Hn Hnm Hrem H. assert (Hm : (m =? 0)%N = false) by lia.
  rewrite dec_read_op_eq. destruct ff as [|f]; [rewrite dec_fn_unfold, Hm in H; discriminate|].
  destruct rem as [r|].
  - apply (dec_go_step n (Some r) r br f m F); auto. congruence.
  - rewrite dec_fn_unfold, Hm in H.
    destruct (read_chunk_size_agrees br Hwf) as (A1 & A2 & A3 & A4). unfold st_of in A1 at 1.
    rewrite A1 in H. destruct (read_chunk_size_op br) as [[sz0| |] br1]; cbn [fst snd] in *.
    + destruct (sz0 =? 0)%N eqn:Esz.
      * destruct (read_crlf_agrees br1 A2) as (B1 & B2 & B3 & B4). rewrite B1 in H.
        destruct (read_crlf_op br1) as [[u| |] br2]; cbn [fst snd st_of sbytes] in *;
          inversion H; subst F; unfold step_post; cbn [end_of]; repeat split; auto; congruence.
      * cbn [st_of sbytes] in H. destruct f as [|f']; [rewrite dec_fn_unfold, Hm in H; discriminate|].
        rewrite <- A3 in H.
        pose proof (dec_go_step n None sz0 br1 f' m F A2 Hn Hnm ltac:(lia) H) as Hp.
        unfold step_post in *. destruct (dec_go n None sz0 br1) as [[r1 rem1] br2].
        destruct Hp as (P1 & P2 & P3). split; [exact P1|]. split; [congruence|].
        destruct r1 as [d| | |]; try exact P3.
        destruct P3 as (Q1 & Q2 & Q3 & Q4). rewrite A3 in Q4. repeat split; auto. lia.
    + cbn [st_of sbytes] in H. inversion H; subst F. unfold step_post. cbn [end_of]. auto.
    + cbn [st_of sbytes] in H. inversion H; subst F. unfold step_post. cbn [end_of]. auto.
Qed.

(* ---------- the loop ---------- *)
Lemma dec_take_op_unfold fuel sz m rem br acc : dec_take_op fuel sz m rem br acc =
  if (m =? 0)%N then Some (acc, EndCount, rem, br) else
  match fuel with
  | O => None
  | S f =>
      match dec_read_op (N.to_nat (N.min m (N.of_nat (sz acc)))) rem br with
      | (RData d, rem', br') => dec_take_op f sz (m - len d)%N rem' br' (d :: acc)
      | (REof, rem', br') => Some (acc, EndEof, rem', br')
      | (RErr, rem', br') => Some (acc, EndErr, rem', br')
      | (RBlock, rem', br') => Some (acc, EndBlock, rem', br')
      end
  end.
Proof. destruct fuel; reflexivity. Qed.

Theorem dec_take_op_fn : forall fo sz m rem br acc ff F,
  wf br -> (forall h, 0 < sz h) -> rem <> Some 0%N -> List.length (contents br) < fo ->
  dec_fn ff m rem (contents br) (br_eof br) = DFOk F ->
  exists acc' br', dec_take_op fo sz m rem br acc = Some (acc', dt_end F, dt_rem F, br') /\
                   pieces_bytes acc' = pieces_bytes acc ++ dt_got F /\
                   lands br br' (dt_rest F).
Proof.
  induction fo as [|fo IH]; intros sz m rem br acc ff F Hwf Hsz Hrem Hf H; [lia|].
  rewrite dec_take_op_unfold. destruct (m =? 0)%N eqn:Em.
  - rewrite dec_fn_unfold, Em in H. inversion H; subst F. cbn [dt_got dt_end dt_rem dt_rest].
    exists acc, br. rewrite app_nil_r. unfold lands. auto.
  - assert (Hw : 0 < N.to_nat (N.min m (N.of_nat (sz acc)))) by (specialize (Hsz acc); lia).
    pose proof (dec_read_op_step _ rem br ff m F Hwf Hw ltac:(lia) Hrem H) as Hp.
    unfold step_post in Hp.
    destruct (dec_read_op (N.to_nat (N.min m (N.of_nat (sz acc)))) rem br) as [[r1 rem1] br1].
    destruct Hp as (P1 & P2 & P3).
    destruct r1 as [d| | |].
    + destruct P3 as (Q1 & Q2 & Q3 & (f' & F' & Q4 & Q5)). rewrite <- P2 in Q4.
      destruct (IH sz (m - len d)%N rem1 br1 (d :: acc) f' F' P1 Hsz Q3 ltac:(lia) Q4)
        as (acc' & br2 & R1 & R2 & (L1 & L2 & L3)).
      exists acc', br2. subst F. cbn [dt_got dt_end dt_rem dt_rest]. split; [exact R1|]. split.
      * rewrite R2, pieces_bytes_cons. now rewrite app_assoc.
      * unfold lands. repeat split; auto. congruence.
    + subst F. cbn [dt_got dt_end dt_rem dt_rest end_of]. exists acc, br1. rewrite app_nil_r.
      unfold lands. auto.
    + subst F. cbn [dt_got dt_end dt_rem dt_rest end_of]. exists acc, br1. rewrite app_nil_r.
      unfold lands. auto.
    + subst F. cbn [dt_got dt_end dt_rem dt_rest end_of]. exists acc, br1. rewrite app_nil_r.
      unfold lands. auto.
Qed.

Corollary dec_take_fn_spec sz m rem br ff F : wf br -> (forall h, 0 < sz h) -> rem <> Some 0%N ->
  dec_fn ff m rem (contents br) (br_eof br) = DFOk F ->
  exists acc' br', dec_take sz m rem br = Some (acc', dt_end F, dt_rem F, br') /\
                   pieces_bytes acc' = dt_got F /\ lands br br' (dt_rest F).
Proof.
  intros Hwf Hsz Hrem H.
  exact (dec_take_op_fn (br_fuel br) sz m rem br [] ff F Hwf Hsz Hrem (br_fuel_gt br) H).
Qed.
