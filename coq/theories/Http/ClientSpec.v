(* Http/ClientSpec.v — an independent client-side reading of a response byte stream, written from
   RFC 7230 (status-line 3.1.2, header fields 3.2, message body length 3.3.3, chunked coding 4.1).
   It is the *specification* side of C04/C05/C19 and the oracle that is run on the bytes the real
   implementation produced. MODEL file: definitions only. *)
From TH Require Import Base.Bytes Http.Response.
Open Scope char_scope.

Inductive delim := NoBody | ByLength | ByChunked | UntilClose.

Record parsed := mkP {
  p_version : bytes;
  p_status : N;
  p_reason : bytes;
  p_headers : list header;     (* names as sent, values with surrounding OWS removed *)
  p_body : bytes;
  p_rest : bytes;              (* bytes after the end of this message *)
  p_delim : delim }.

Definition is_ows (c : ascii) : bool := Ascii.eqb c SP || Ascii.eqb c HT.
Fixpoint ltrim_ows (x : bytes) : bytes :=
  match x with c :: t => if is_ows c then ltrim_ows t else x | [] => [] end.
Definition trim_ows (x : bytes) : bytes := frev (ltrim_ows (frev (ltrim_ows x))).

(* status-line = "HTTP/" DIGIT "." DIGIT SP 3DIGIT SP reason-phrase *)
Definition parse_status_line (l : bytes) : option (bytes * N * bytes) :=
  if starts_with (s "HTTP/") l then
    match split_first SP (skipn 5 l) with
    | (ver, Some r1) =>
        match ver with
        | [a; dot; b] =>
            if is_digit a && Ascii.eqb dot "." && is_digit b then
              match split_first SP r1 with
              | (sc, Some reason) =>
                  match sc with
                  | [_; _; _] => if forallb is_digit sc
                                 then match parse_dec sc with
                                      | Some n => Some (ver, n, reason)
                                      | None => None
                                      end
                                 else None
                  | _ => None
                  end
              | _ => None
              end
            else None
        | _ => None
        end
    | _ => None
    end
  else None.

Definition bad_name_char (c : ascii) : bool := is_ws c || Ascii.eqb c ":".
(* header-field = field-name ":" OWS field-value OWS ; no white space inside or after the name *)
Definition parse_field (l : bytes) : option header :=
  match split_first ":" l with
  | (n, Some v) => match n with
                   | [] => None
                   | _ => if existsb is_ws n then None else Some (mkH n (trim_ows v))
                   end
  | _ => None
  end.

(* header lines up to the empty line; fuel bounds the number of lines *)
Fixpoint parse_fields (fuel : nat) (x : bytes) : option (list header * bytes) :=
  match fuel with
  | O => None
  | S f => match split_crlf x with
           | None => None
           | Some ([], rest) => Some ([], rest)
           | Some (l, rest) =>
               match parse_field l with
               | None => None
               | Some h => match parse_fields f rest with
                           | Some (hs, r) => Some (h :: hs, r)
                           | None => None
                           end
               end
           end
  end.

Definition values_of (n : string) (hs : list header) : list bytes :=
  map hvalue (filter (equiv n) hs).

(* the final transfer coding named by the Transfer-Encoding field(s), lower-cased *)
Definition final_coding (hs : list header) : option bytes :=
  match values_of "Transfer-Encoding" hs with
  | [] => None
  | vs => let toks := flat_map (fun v => map trim_ows (split_on "," v)) vs in
          Some (lower (last toks []))
  end.

(* Content-Length: every field value must be the same string of digits that fits 64 bits *)
Inductive clen := ClNone | ClBad | ClOk (n : N).
Definition content_length (hs : list header) : clen :=
  match values_of "Content-Length" hs with
  | [] => ClNone
  | v :: vs => if forallb (beq v) vs && forallb is_digit v then
                 match parse_dec v with Some n => ClOk n | None => ClBad end
               else ClBad
  end.

(* trailer-part: header lines up to the empty line *)
Fixpoint skip_trailers (fuel : nat) (x : bytes) : option bytes :=
  match fuel with
  | O => None
  | S f => match split_crlf x with
           | None => None
           | Some ([], rest) => Some rest
           | Some (_, rest) => skip_trailers f rest
           end
  end.

(* chunked-body = *chunk last-chunk trailer-part CRLF ; chunk-size = 1*HEXDIG ; extensions ignored *)
Fixpoint dechunk (fuel : nat) (x : bytes) (acc : bytes) : option (bytes * bytes) :=
  match fuel with
  | O => None
  | S f =>
      match split_crlf x with
      | None => None
      | Some (line, rest) =>
          match parse_radix 16 hex_val USIZE_BOUND (fst (split_first ";" line)) with
          | None => None
          | Some n =>
              if (n =? 0)%N then
                match skip_trailers (S (List.length rest)) rest with
                | Some r => Some (acc, r)
                | None => None
                end
              else
                if (len rest <? n)%N then None else
                let k := N.to_nat n in
                let after := skipn k rest in
                if starts_with CRLF after then dechunk f (skipn 2 after) (acc ++ firstn k rest)
                else None
          end
      end
  end.

(* 3.3.3 item 1: 1xx, 204 and 304 never have a body *)
Definition bodyless_status (st : N) : bool := ((st / 100 =? 1) || (st =? 204) || (st =? 304))%N.

(* RFC 7230 3.3.3 for a response; `head_request` = the request method was HEAD.
   None = not a well-formed (or not a complete) message *)
Definition parse_response (head_request : bool) (x : bytes) : option parsed :=
  match split_crlf x with
  | None => None
  | Some (sl, r0) =>
      match parse_status_line sl with
      | None => None
      | Some (ver, st, reason) =>
          match parse_fields (S (List.length r0)) r0 with
          | None => None
          | Some (hs, r1) =>
              if head_request || bodyless_status st then Some (mkP ver st reason hs [] r1 NoBody)
              else
                match final_coding hs with
                | Some c =>
                    if beq c (s "chunked") then
                      match dechunk (S (List.length r1)) r1 [] with
                      | Some (b, r2) => Some (mkP ver st reason hs b r2 ByChunked)
                      | None => None
                      end
                    else Some (mkP ver st reason hs r1 [] UntilClose)
                | None =>
                    match content_length hs with
                    | ClBad => None
                    | ClOk n =>
                        if (len r1 <? n)%N then None
                        else let k := N.to_nat n in
                             Some (mkP ver st reason hs (firstn k r1) (skipn k r1) ByLength)
                    | ClNone => Some (mkP ver st reason hs r1 [] UntilClose)
                    end
                end
          end
      end
  end.

(* a whole client stream: the sequence of messages it splits into; `heads` says for each expected
   message whether it answers a HEAD request. Stops at the first malformed or incomplete message. *)
Fixpoint parse_stream (heads : list bool) (x : bytes) : list parsed * bytes :=
  match heads with
  | [] => ([], x)
  | h :: t => match x with
              | [] => ([], [])
              | _ => match parse_response h x with
                     | None => ([], x)
                     | Some p => let '(ps, r) := parse_stream t (p_rest p) in (p :: ps, r)
                     end
              end
  end.
