(* Http/C04Facts.v — what raw_print writes is parsed back by the independent client parser:
   one well-formed message, the given status, exactly the application's body, self-delimiting. *)
From TH Require Import Base.Bytes Base.BytesFacts Base.RadixFacts Http.Reason Http.Response Http.ClientSpec
                       Http.ResponseFacts.
From Coq Require Import Lia ZArith ZifyN ZifyBool.
Open Scope N_scope.
Ltac Zify.zify_post_hook ::= Z.div_mod_to_equations.

(* ---- lines ---- *)
Definition nolf (x : bytes) : bool := forallb (fun c => negb (Ascii.eqb c LF)) x.

Lemma split_crlf_app l rest : nolf l = true -> split_crlf (l ++ CR :: LF :: rest) = Some (l, rest).
Proof.
  induction l as [|a t IH]; intros H.
  - reflexivity.
  - cbn [nolf forallb] in H. apply andb_true_iff in H as [Ha Ht].
    cbn [app split_crlf]. destruct t as [|b t'].
    + cbn [app]. cbn [app] in IH. rewrite ?andb_false_r. specialize (IH eq_refl). now rewrite IH.
    + cbn [app]. cbn [nolf forallb] in Ht. apply andb_true_iff in Ht as [Hb Ht'].
      destruct (Ascii.eqb b LF) eqn:Eb; [discriminate|]. rewrite andb_false_r.
      cbn [app] in IH. rewrite IH; [reflexivity|]. cbn [nolf forallb]. now rewrite Eb, Ht'.
Qed.

Lemma split_crlf_app' l rest : nolf l = true -> split_crlf (l ++ CRLF ++ rest) = Some (l, rest).
Proof. apply split_crlf_app. Qed.

Lemma nolf_app a b : nolf (a ++ b) = nolf a && nolf b.
Proof. apply forallb_app. Qed.

Lemma forallb_impl {A} (p q : A -> bool) l :
  (forall x, p x = true -> q x = true) -> forallb p l = true -> forallb q l = true.
Proof. intros H. induction l as [|x t IH]; cbn [forallb]; [auto|]. intros E. apply andb_true_iff in E as [E1 E2]. now rewrite H, IH. Qed.

Lemma digit_not c : is_digit c = true ->
  Ascii.eqb c LF = false /\ Ascii.eqb c SP = false /\ Ascii.eqb c ":" = false /\ Ascii.eqb c ";" = false.
Proof.
  unfold is_digit. intros H. apply andb_true_iff in H as [H1 H2].
  repeat split; apply Ascii.eqb_neq; intros ->; vm_compute in H1, H2; discriminate.
Qed.
Lemma lhex_not c : is_lhex c = true -> Ascii.eqb c LF = false /\ Ascii.eqb c ";" = false.
Proof.
  unfold is_lhex, is_digit. intros H.
  split; apply Ascii.eqb_neq; intros ->; vm_compute in H; discriminate.
Qed.

Lemma split_first_app c l rest :
  forallb (fun a => negb (Ascii.eqb a c)) l = true -> split_first c (l ++ c :: rest) = (l, Some rest).
Proof.
  induction l as [|a t IH]; cbn [app split_first forallb]; intros H.
  - now rewrite Ascii.eqb_refl.
  - apply andb_true_iff in H as [Ha Ht]. destruct (Ascii.eqb a c); [discriminate|]. now rewrite IH.
Qed.
Lemma split_first_none c l :
  forallb (fun a => negb (Ascii.eqb a c)) l = true -> split_first c l = (l, None).
Proof.
  induction l as [|a t IH]; cbn [split_first forallb]; intros H; [reflexivity|].
  apply andb_true_iff in H as [Ha Ht]. destruct (Ascii.eqb a c); [discriminate|]. now rewrite IH.
Qed.

(* ---- the status line: a finite sweep over the versions and the three-digit status codes ---- *)
Definition status_line (ver : version) (st : N) : bytes :=
  s "HTTP/" ++ print_dec (fst ver) ++ s "." ++ print_dec (snd ver) ++ [SP] ++ print_dec st ++ [SP]
    ++ reason_phrase st.
Definition versions : list version := [(0,9); (1,0); (1,1); (2,0); (3,0)].
Definition statuses : list N := map N.of_nat (seq 100 900).
Definition status_line_ok (ver : version) (st : N) : bool :=
  nolf (status_line ver st) &&
  match parse_status_line (status_line ver st) with
  | Some (_, st', _) => st' =? st
  | None => false
  end.
Lemma status_sweep :
  forallb (fun ver => forallb (status_line_ok ver) statuses) versions = true.
Proof. vm_compute. reflexivity. Qed.

Lemma in_statuses st : 100 <= st <= 999 -> In st statuses.
Proof.
  intros H. unfold statuses. apply in_map_iff. exists (N.to_nat st). split; [apply N2Nat.id|].
  apply in_seq. lia.
Qed.

Lemma status_line_parses ver st : In ver versions -> 100 <= st <= 999 ->
  nolf (status_line ver st) = true /\
  exists v r, parse_status_line (status_line ver st) = Some (v, st, r).
Proof.
  intros Hv Hs. pose proof status_sweep as H. rewrite forallb_forall in H. specialize (H ver Hv).
  rewrite forallb_forall in H. specialize (H st (in_statuses st Hs)). unfold status_line_ok in H.
  apply andb_true_iff in H as [H1 H2]. split; [exact H1|].
  destruct (parse_status_line (status_line ver st)) as [[[v st'] r]|]; [|discriminate].
  apply N.eqb_eq in H2. subst. eauto.
Qed.

(* ---- header fields ---- *)
Definition wf_header (h : header) : bool :=
  match hname h with [] => false | _ => true end &&
  negb (existsb is_ws (hname h)) && forallb (fun a => negb (Ascii.eqb a ":")) (hname h) &&
  nolf (hvalue h).
Definition norm (h : header) : header := mkH (hname h) (trim_ows (hvalue h)).

Lemma no_ws_nolf x : existsb is_ws x = false -> nolf x = true.
Proof.
  induction x as [|c t IH]; cbn [existsb nolf forallb]; [auto|]. intros H. apply orb_false_iff in H as [Hc Ht].
  specialize (IH Ht). unfold nolf in IH. rewrite IH, andb_true_r.
  destruct (Ascii.eqb_spec c LF) as [->|]; [vm_compute in Hc; discriminate|reflexivity].
Qed.

Lemma trim_ows_sp v : trim_ows (SP :: v) = trim_ows v.
Proof. reflexivity. Qed.

Lemma parse_field_render h : wf_header h = true ->
  nolf (hname h ++ s ": " ++ hvalue h) = true /\
  hname h ++ s ": " ++ hvalue h <> [] /\
  parse_field (hname h ++ s ": " ++ hvalue h) = Some (norm h).
Proof.
  unfold wf_header. intros H. repeat (apply andb_true_iff in H as [H ?]).
  match goal with H : negb (existsb is_ws _) = true |- _ => apply negb_true_iff in H; rename H into Hws end.
  repeat split.
  - rewrite !nolf_app. rewrite (no_ws_nolf _ Hws). cbn [andb]. now replace (nolf (s ": ")) with true by reflexivity.
  - destruct (hname h); [discriminate|discriminate].
  - unfold parse_field. change (s ": ") with [":"; SP]. cbn [app].
    rewrite split_first_app by assumption. destruct (hname h) eqn:E; [discriminate|].
    rewrite Hws. unfold norm. now rewrite E, trim_ows_sp.
Qed.

Definition render_headers (hs : list header) : bytes := List.concat (map render_header hs).

Lemma parse_fields_render hs rest : forall fuel, (List.length hs < fuel)%nat ->
  forallb wf_header hs = true ->
  parse_fields fuel (render_headers hs ++ CRLF ++ rest) = Some (map norm hs, rest).
Proof.
  induction hs as [|h t IH]; intros fuel Hf Hwf.
  - destruct fuel; [cbn in Hf; lia|]. reflexivity.
  - destruct fuel; [cbn in Hf; lia|]. cbn [forallb] in Hwf. apply andb_true_iff in Hwf as [Hh Ht].
    destruct (parse_field_render h Hh) as (Hn & Hne & Hp).
    unfold render_headers. cbn [map List.concat]. unfold render_header at 1.
    cbn [parse_fields].
    replace (((hname h ++ s ": " ++ hvalue h ++ CRLF) ++ List.concat (map render_header t)) ++ CRLF ++ rest)
      with ((hname h ++ s ": " ++ hvalue h) ++ CRLF ++ (render_headers t ++ CRLF ++ rest))
      by (unfold render_headers; now rewrite <- !app_assoc).
    rewrite split_crlf_app' by exact Hn.
    destruct (hname h ++ s ": " ++ hvalue h) eqn:E; [congruence|]. rewrite Hp.
    rewrite IH; [reflexivity|cbn [List.length] in Hf; lia|exact Ht].
Qed.

(* ---- chunked bodies ---- *)
Section Chunks.
Variable c : nat.
Hypothesis c_pos : (0 < c)%nat.
Hypothesis c_small : N.of_nat c < USIZE_BOUND.

Definition TERM : bytes := s "0" ++ CRLF ++ CRLF.

Lemma dechunk_term fuel tail acc : (0 < fuel)%nat -> dechunk fuel (TERM ++ tail) acc = Some (acc, tail).
Proof.
  intros H. destruct fuel; [lia|]. unfold TERM. change (s "0") with ["0"%char]. cbn [app dechunk].
  reflexivity.
Qed.

Lemma dechunk_one fuel d more acc : d <> [] -> (List.length d <= c)%nat ->
  dechunk (S fuel) (chunk d ++ more) acc = dechunk fuel more (acc ++ d).
Proof.
  intros Hne Hle. unfold chunk. cbn [dechunk].
  destruct (print_hex_digits (len d)) as [Hn Hd].
  assert (Hnolf : nolf (print_hex (len d)) = true).
  { unfold nolf. eapply forallb_impl; [|exact Hd]. intros x Hx. destruct (lhex_not x Hx) as [-> _]. reflexivity. }
  rewrite <- !app_assoc. rewrite split_crlf_app' by exact Hnolf.
  rewrite split_first_none.
  2:{ eapply forallb_impl; [|exact Hd]. intros x Hx. destruct (lhex_not x Hx) as [_ ->]. reflexivity. }
  cbn [fst]. assert (Hlen : len d < USIZE_BOUND) by (unfold len; lia).
  rewrite parse_hex_print by exact Hlen.
  assert (len d =? 0 = false) as -> by (apply N.eqb_neq; unfold len; destruct d; [congruence|cbn [List.length]; lia]).
  assert (len (d ++ CRLF ++ more) <? len d = false) as ->.
  { apply N.ltb_ge. unfold len. rewrite app_length. lia. }
  unfold len. rewrite Nat2N.id. rewrite skipn_app, skipn_all, Nat.sub_diag. cbn [app skipn].
  change (starts_with CRLF (CRLF ++ more)) with true. cbn [skipn app].
  rewrite firstn_app, firstn_all, Nat.sub_diag. cbn [firstn]. now rewrite app_nil_r.
Qed.

Lemma dechunk_chunks : forall f d acc fuel tail, (List.length d < f)%nat -> (f <= fuel)%nat ->
  dechunk fuel (chunks_aux f c d ++ TERM ++ tail) acc = Some (acc ++ d, tail).
Proof.
  induction f as [|f IH]; intros d acc fuel tail Hd Hf; [lia|].
  cbn [chunks_aux]. destruct d as [|x d'] eqn:Ed.
  - cbn [app]. rewrite app_nil_r. apply dechunk_term. lia.
  - rewrite <- Ed in *. assert (Hne : d <> []) by (subst; discriminate).
    destruct fuel as [|fuel]; [lia|].
    destruct (Nat.leb_spec (List.length d) c) as [Hle|Hgt].
    + rewrite dechunk_one by assumption. apply dechunk_term.
      destruct fuel; [|lia]. subst d. cbn [List.length] in Hd. lia.
    + rewrite <- app_assoc. rewrite dechunk_one.
      * rewrite IH; [|rewrite skipn_length; lia|lia]. now rewrite <- app_assoc, firstn_skipn.
      * intros E. apply (f_equal (@List.length _)) in E. rewrite firstn_length in E. cbn in E. lia.
      * rewrite firstn_length. lia.
Qed.

Lemma chunks_length : forall f d, (List.length d < f)%nat ->
  (List.length d <= List.length (chunks_aux f c d))%nat.
Proof.
  induction f as [|f IH]; intros d Hd; [lia|]. cbn [chunks_aux]. destruct d as [|x d'] eqn:Ed; [cbn; lia|].
  rewrite <- Ed in *. destruct (Nat.leb_spec (List.length d) c).
  - unfold chunk. rewrite !app_length. lia.
  - rewrite app_length. unfold chunk at 1. rewrite !app_length.
    assert (List.length (skipn c d) < f)%nat by (rewrite skipn_length; subst d; cbn [List.length] in *; lia).
    specialize (IH (skipn c d) H0). rewrite skipn_length in IH. rewrite firstn_length. lia.
Qed.

Lemma chunk_encode_length d : (List.length d <= List.length (chunk_encode_c c d))%nat.
Proof. unfold chunk_encode_c. rewrite app_length. pose proof (chunks_length (S (List.length d)) d). lia. Qed.

Lemma dechunk_encode d tail fuel : (List.length d < fuel)%nat ->
  dechunk fuel (chunk_encode_c c d ++ tail) [] = Some (d, tail).
Proof.
  intros H. unfold chunk_encode_c. rewrite <- app_assoc.
  change (s "0" ++ CRLF ++ CRLF) with TERM.
  apply (dechunk_chunks (S (List.length d)) d [] fuel tail); lia.
Qed.
End Chunks.

(* ---- the whole message ---- *)
Lemma render_head_eq ver st hs :
  render_head ver st hs = status_line ver st ++ CRLF ++ render_headers hs ++ CRLF.
Proof. unfold render_head, status_line, render_headers. repeat rewrite <- app_assoc. reflexivity. Qed.

Lemma render_headers_length hs : (List.length hs <= List.length (render_headers hs))%nat.
Proof.
  induction hs as [|h t IH]; [cbn; lia|]. unfold render_headers in *. cbn [map List.concat List.length].
  rewrite app_length. unfold render_header at 1. rewrite !app_length. cbn [List.length CRLF]. lia.
Qed.

Lemma bodyless_is_no_body st : bodyless_status st = no_body_status st.
Proof.
  unfold bodyless_status, no_body_status. f_equal. f_equal.
  destruct (N.eqb_spec (st / 100) 1), (N.leb_spec 100 st), (N.leb_spec st 199); cbn [andb]; try reflexivity; lia.
Qed.

Lemma equiv_norm n h : equiv n (norm h) = equiv n h.
Proof. reflexivity. Qed.

Lemma values_of_norm n hs : values_of n (map norm hs) = map trim_ows (map hvalue (filter (equiv n) hs)).
Proof.
  unfold values_of. induction hs as [|h t IH]; cbn [map filter]; [reflexivity|].
  rewrite equiv_norm. destruct (equiv n h); cbn [map]; [f_equal|]; exact IH.
Qed.

Lemma ltrim_ows_digits y : forallb is_digit y = true -> ltrim_ows y = y.
Proof.
  destruct y as [|c t]; [reflexivity|]. cbn [forallb ltrim_ows]. intros H. apply andb_true_iff in H as [Hc _].
  unfold is_ows. destruct (digit_not c Hc) as (_ & -> & _).
  destruct (Ascii.eqb_spec c HT) as [->|]; [vm_compute in Hc; discriminate|reflexivity].
Qed.
Lemma trim_ows_digits x : forallb is_digit x = true -> trim_ows x = x.
Proof.
  intros H. unfold trim_ows. rewrite !frev_rev. rewrite (ltrim_ows_digits x H).
  rewrite ltrim_ows_digits; [apply rev_involutive|].
  apply forallb_forall. intros c Hc. apply in_rev in Hc. rewrite forallb_forall in H. auto.
Qed.

Definition wf_response (r : response) : Prop :=
  100 <= status r <= 999 /\
  forallb wf_header (rheaders r) = true /\
  clean r /\
  (data_length r = None \/ data_length r = Some (len (rbody r))) /\
  len (rbody r) < USIZE_BOUND.

Lemma wf_app a b : forallb wf_header (a ++ b) = forallb wf_header a && forallb wf_header b.
Proof. apply forallb_app. Qed.

Lemma final_headers_wf date r te dl :
  forallb wf_header (rheaders r) = true -> nolf date = true ->
  forallb wf_header (final_headers date r None te dl) = true.
Proof.
  intros Hr Hd. rewrite final_headers_split, wf_app. apply andb_true_iff. split.
  - unfold base_headers, final_headers.
    assert (Hdate : wf_header (mkH (s "Date") date) = true).
    { unfold wf_header. cbn [hname hvalue]. now rewrite Hd. }
    destruct (existsb (equiv "Date") (rheaders r));
      [destruct (existsb (equiv "Server") (rheaders r))
      |destruct (existsb (equiv "Server") (mkH (s "Date") date :: rheaders r))];
      cbn [forallb]; rewrite ?Hdate, ?Hr; reflexivity.
  - destruct te as [[|]|]; [destruct dl as [l|]| |]; cbn [forallb]; try reflexivity.
    unfold wf_header. cbn [hname hvalue]. rewrite andb_true_r.
    destruct (print_dec_digits l) as [_ H]. unfold nolf.
    replace (match s "Content-Length" with [] => false | _ :: _ => true end &&
             negb (existsb is_ws (s "Content-Length")) &&
             forallb (fun a : ascii => negb (Ascii.eqb a ":")) (s "Content-Length")) with true by reflexivity.
    cbn [andb]. eapply forallb_impl; [|exact H]. intros x Hx. destruct (digit_not x Hx) as (-> & _). reflexivity.
Qed.

Definition expected_body (head : bool) (r : response) : bytes :=
  if head || bodyless_status (status r) then [] else rbody r.

Theorem roundtrip te0 date r ver head tail :
  wf_response r -> nolf date = true -> In ver versions ->
  exists p, parse_response head (raw_print_with te0 date r ver head None ++ tail) = Some p /\
            p_status p = status r /\ p_body p = expected_body head r /\ p_rest p = tail /\
            p_delim p <> UntilClose.
Proof.
  intros (Hst & Hwf & Hclean & Hlen & Hsmall) Hdate Hver.
  unfold raw_print_with. rewrite <- bodyless_is_no_body.
  set (dl := match data_length r with Some l => Some l | None =>
               match Some te0 with Some Identity => Some (len (rbody r)) | _ => None end end).
  set (hs := final_headers date r None (Some te0) dl).
  set (payload := if head || bodyless_status (status r) then [] else
                    match Some te0, dl with
                    | Some Chunked, _ => chunk_encode (rbody r)
                    | Some Identity, Some l => if 1 <=? l then rbody r else []
                    | _, _ => []
                    end).
  rewrite render_head_eq. repeat rewrite <- app_assoc.
  destruct (status_line_parses ver (status r) Hver Hst) as (Hnl & v & rs & Hps).
  unfold parse_response. rewrite split_crlf_app' by exact Hnl. rewrite Hps.
  assert (Hhs : forallb wf_header hs = true) by (apply final_headers_wf; assumption).
  rewrite parse_fields_render; [|pose proof (render_headers_length hs); rewrite !app_length; lia|exact Hhs].
  unfold expected_body.
  destruct (head || bodyless_status (status r)) eqn:Eskip.
  - subst payload. cbn [app]. eexists. repeat split; cbn [p_delim]; discriminate.
  - pose proof (framing_headers date r None (Some te0) dl Hclean) as Hfr. fold hs in Hfr. cbv zeta in Hfr.
    unfold final_coding, content_length. rewrite !values_of_norm.
    change (equiv "Transfer-Encoding") with is_te. change (equiv "Content-Length") with is_cl.
    destruct te0.
    + (* identity *)
      assert (Hdl : dl = Some (len (rbody r))).
      { subst dl. destruct Hlen as [->| ->]; reflexivity. }
      rewrite Hdl in Hfr. destruct Hfr as [Hcl Hte]. rewrite Hcl, Hte. cbn [map hvalue].
      destruct (print_dec_digits (len (rbody r))) as [_ Hdig].
      rewrite trim_ows_digits by exact Hdig. cbn [forallb andb]. rewrite Hdig.
      rewrite parse_dec_print by exact Hsmall.
      subst payload. rewrite Hdl.
      assert (Hpay : forall (A : Type) (x y : A), (if 1 <=? len (rbody r) then x else y) = x \/ rbody r = []).
      { intros A x y. destruct (N.leb_spec 1 (len (rbody r))); [now left|right].
        unfold len in *. destruct (rbody r); [reflexivity|cbn [List.length] in *; lia]. }
      assert (Hgoal : forall b : bytes, b = rbody r ->
        exists p, (if len (b ++ tail) <? len (rbody r) then None else
           Some (mkP v (status r) rs (map norm hs) (firstn (N.to_nat (len (rbody r))) (b ++ tail))
                     (skipn (N.to_nat (len (rbody r))) (b ++ tail)) ByLength)) = Some p /\
           p_status p = status r /\ p_body p = rbody r /\ p_rest p = tail /\ p_delim p <> UntilClose).
      { intros b ->.
        assert (len (rbody r ++ tail) <? len (rbody r) = false) as ->.
        { apply N.ltb_ge. unfold len. rewrite app_length. lia. }
        unfold len. rewrite Nat2N.id, firstn_app, firstn_all, Nat.sub_diag, skipn_app, skipn_all, Nat.sub_diag.
        cbn [firstn skipn app]. rewrite app_nil_r.
        eexists. repeat split; cbn [p_delim]; discriminate. }
      apply Hgoal. destruct (Hpay (list ascii) (rbody r) []) as [->|E]; [reflexivity|].
      rewrite E. now destruct (1 <=? len []).
    + (* chunked *)
      destruct Hfr as [Hte Hcl]. rewrite Hte. cbn [map hvalue].
      replace (match [trim_ows (s "chunked")] with
               | [] => None
               | _ :: _ => Some (lower (last (flat_map (fun v0 => map trim_ows (split_on "," v0)) [trim_ows (s "chunked")]) []))
               end) with (Some (s "chunked")) by reflexivity.
      replace (beq (s "chunked") (s "chunked")) with true by reflexivity.
      subst payload. unfold chunk_encode.
      rewrite (dechunk_encode CHUNK); [|unfold CHUNK; lia|unfold CHUNK; rewrite N2Nat.id; reflexivity
        |rewrite app_length; pose proof (chunk_encode_length CHUNK ltac:(unfold CHUNK; lia) ltac:(unfold CHUNK; rewrite N2Nat.id; reflexivity) (rbody r)); lia].
      eexists. repeat split; cbn [p_delim]; discriminate.
Qed.

(* no body bytes at all for HEAD and for 1xx / 204 / 304 *)
Theorem no_body_bytes te0 date r ver head up :
  head || no_body_status (status r) = true ->
  raw_print_with te0 date r ver head up =
  render_head ver (status r)
    (final_headers date r up (match up with Some _ => None | None => Some te0 end)
       (match data_length r, match up with Some _ => None | None => Some te0 end with
        | Some l, _ => Some l
        | None, Some Identity => Some (len (rbody r))
        | None, _ => None
        end)).
Proof. unfold raw_print_with. intros ->. now rewrite app_nil_r. Qed.

(* ---- the hypotheses of `roundtrip` are met by everything the application can build from
        well-formed headers ---- *)
Definition wf_name (n : bytes) : bool :=
  match n with [] => false | _ => true end && negb (existsb is_ws n) &&
  forallb (fun a => negb (Ascii.eqb a ":")) n.
Lemma wf_header_split h : wf_header h = wf_name (hname h) && nolf (hvalue h).
Proof. reflexivity. Qed.

Lemma replace_first_ct_wf v hs :
  nolf v = true -> forallb wf_header hs = true -> forallb wf_header (replace_first_ct v hs) = true.
Proof.
  intros Hv. induction hs as [|h t IH]; cbn [replace_first_ct forallb]; [auto|]. intros H.
  apply andb_true_iff in H as [Hh Ht]. destruct (equiv "Content-Type" h); cbn [forallb].
  - rewrite Ht, andb_true_r. rewrite wf_header_split in *. cbn [hname hvalue].
    apply andb_true_iff in Hh as [-> _]. now rewrite Hv.
  - now rewrite Hh, IH.
Qed.

Lemma add_header_wf r h :
  wf_header h = true -> forallb wf_header (rheaders r) = true ->
  forallb wf_header (rheaders (add_header r h)) = true.
Proof.
  intros Hh Hr. unfold add_header. destruct (forbidden h); [exact Hr|].
  destruct (equiv "Content-Length" h); [destruct (parse_usize (hvalue h)); exact Hr|].
  destruct (equiv "Content-Type" h && existsb (equiv "Content-Type") (rheaders r)); cbn [set_headers rheaders].
  - apply replace_first_ct_wf; [|exact Hr]. rewrite wf_header_split in Hh. now apply andb_true_iff in Hh as [_ ->].
  - rewrite forallb_app, Hr. cbn [forallb]. now rewrite Hh.
Qed.

Definition wf_rop (o : rop) : bool := match o with WithHeader h => wf_header h | _ => true end.

Lemma apply_rop_wf r o :
  wf_rop o = true -> forallb wf_header (rheaders r) = true ->
  forallb wf_header (rheaders (apply_rop r o)) = true.
Proof. destruct o; cbn [wf_rop apply_rop rheaders]; auto using add_header_wf. Qed.

Lemma build_wf ops : forall r,
  forallb wf_rop ops = true -> forallb wf_header (rheaders r) = true ->
  forallb wf_header (rheaders (build r ops)) = true.
Proof.
  unfold build. induction ops as [|o t IH]; intros r Ho Hr; cbn [fold_left]; [exact Hr|].
  cbn [forallb] in Ho. apply andb_true_iff in Ho as [Ho Ht]. apply IH; [exact Ht|]. now apply apply_rop_wf.
Qed.

Lemma new_response_wf st hs b dl :
  forallb wf_header hs = true -> forallb wf_header (rheaders (new_response st hs b dl)) = true.
Proof.
  unfold new_response. intros H.
  assert (G : forall r, forallb wf_header (rheaders r) = true ->
                        forallb wf_header (rheaders (fold_left add_header hs r)) = true).
  { induction hs as [|h t IH]; intros r Hr; cbn [fold_left]; [exact Hr|].
    cbn [forallb] in H. apply andb_true_iff in H as [Hh Ht]. apply IH; [exact Ht|]. now apply add_header_wf. }
  now apply G.
Qed.

Theorem built_wf st hs b ops :
  100 <= st <= 999 -> forallb wf_header hs = true -> forallb wf_rop ops = true ->
  len b < USIZE_BOUND ->
  (* no status/data changes among ops, to keep the statement simple: headers and thresholds only *)
  forallb (fun o => match o with WithStatus _ | WithData _ _ => false | _ => true end) ops = true ->
  (* no Content-Length header among the supplied ones: the length is declared correctly or not at all *)
  forallb (fun h => negb (equiv "Content-Length" h)) hs = true ->
  forallb (fun o => match o with WithHeader h => negb (equiv "Content-Length" h) | _ => true end) ops = true ->
  forall dl, dl = None \/ dl = Some (len b) ->
  wf_response (build (new_response st hs b dl) ops).
Proof.
  intros Hst Hhs Hops Hb Hkind Hcl1 Hcl2 dl Hdl.
  assert (Hnew : forall l r, forallb (fun h => negb (equiv "Content-Length" h)) l = true ->
            status (fold_left add_header l r) = status r /\ rbody (fold_left add_header l r) = rbody r /\
            data_length (fold_left add_header l r) = data_length r).
  { induction l as [|h t IH]; intros r Hl; cbn [fold_left]; [auto|]. cbn [forallb] in Hl.
    apply andb_true_iff in Hl as [Hh Ht]. destruct (IH (add_header r h) Ht) as (-> & -> & ->).
    unfold add_header. destruct (forbidden h); [auto|]. apply negb_true_iff in Hh. rewrite Hh.
    destruct (equiv "Content-Type" h && existsb (equiv "Content-Type") (rheaders r)); auto. }
  assert (Hb2 : forall l r, forallb (fun o => match o with WithStatus _ | WithData _ _ => false | _ => true end) l = true ->
            forallb (fun o => match o with WithHeader h => negb (equiv "Content-Length" h) | _ => true end) l = true ->
            status (build r l) = status r /\ rbody (build r l) = rbody r /\ data_length (build r l) = data_length r).
  { unfold build. induction l as [|o t IH]; intros r H1 H2; cbn [fold_left]; [auto|]. cbn [forallb] in H1, H2.
    apply andb_true_iff in H1 as [Ho1 Ht1]. apply andb_true_iff in H2 as [Ho2 Ht2].
    destruct (IH (apply_rop r o) Ht1 Ht2) as (-> & -> & ->). destruct o; try discriminate; cbn [apply_rop]; auto.
    unfold add_header. destruct (forbidden h); [auto|]. apply negb_true_iff in Ho2. rewrite Ho2.
    destruct (equiv "Content-Type" h && existsb (equiv "Content-Type") (rheaders r)); auto. }
  destruct (Hb2 ops (new_response st hs b dl) Hkind Hcl2) as (E1 & E2 & E3).
  destruct (Hnew hs (mkR st [] b dl None) Hcl1) as (F1 & F2 & F3). unfold new_response in *.
  unfold wf_response. rewrite E1, E2, E3, F1, F2, F3. cbn [status rbody data_length].
  repeat split; try lia; try exact Hdl.
  - apply build_wf; [exact Hops|]. now apply new_response_wf.
  - apply build_clean. apply (new_response_clean st hs b dl).
Qed.
