(* Http/C04Facts.v — what raw_print writes is parsed back by the independent client parser:
   one well-formed message, the given status, exactly the application's body, self-delimiting. *)
From TH Require Import Base.Bytes Base.BytesFacts Base.RadixFacts Http.Reason Http.Response Http.ClientSpec
                       Http.ResponseFacts.
From Coq Require Import Lia ZArith ZifyN ZifyBool.
Open Scope N_scope.
Ltac Zify.zify_post_hook ::= Z.div_mod_to_equations.

(* ---- lines ---- *)
Definition nolf (x : bytes) : bool := forallb (fun c => negb (Ascii.eqb c LF)) x.

Lemma split_crlf_app l rest : nolf l = true -> split_crlf (l ++ CR :: LF :: rest) = Some (l, rest).
Proof.
  induction l as [|a t IH]; intros H.
  - reflexivity.
  - cbn [nolf forallb] in H. apply andb_true_iff in H as [Ha Ht].
    cbn [app split_crlf]. destruct t as [|b t'].
    + cbn [app]. cbn [app] in IH. rewrite ?andb_false_r. specialize (IH eq_refl). now rewrite IH.
    + cbn [app]. cbn [nolf forallb] in Ht. apply andb_true_iff in Ht as [Hb Ht'].
      destruct (Ascii.eqb b LF) eqn:Eb; [discriminate|]. rewrite andb_false_r.
      cbn [app] in IH. rewrite IH; [reflexivity|]. cbn [nolf forallb]. now rewrite Eb, Ht'.
Qed.

Lemma split_crlf_app' l rest : nolf l = true -> split_crlf (l ++ CRLF ++ rest) = Some (l, rest).
Proof. apply split_crlf_app. Qed.

Lemma nolf_app a b : nolf (a ++ b) = nolf a && nolf b.
Proof. apply forallb_app. Qed.

Lemma forallb_impl {A} (p q : A -> bool) l :
  (forall x, p x = true -> q x = true) -> forallb p l = true -> forallb q l = true.
Proof. intros H. induction l as [|x t IH]; cbn [forallb]; [auto|]. intros E. apply andb_true_iff in E as [E1 E2]. now rewrite H, IH. Qed.

Lemma digit_not c : is_digit c = true ->
  Ascii.eqb c LF = false /\ Ascii.eqb c SP = false /\ Ascii.eqb c ":" = false /\ Ascii.eqb c ";" = false.
Proof.
  unfold is_digit. intros H. apply andb_true_iff in H as [H1 H2].
  repeat split; apply Ascii.eqb_neq; intros ->; vm_compute in H1, H2; discriminate.
Qed.
Lemma lhex_not c : is_lhex c = true -> Ascii.eqb c LF = false /\ Ascii.eqb c ";" = false.
Proof.
  unfold is_lhex, is_digit. intros H.
  split; apply Ascii.eqb_neq; intros ->; vm_compute in H; discriminate.
Qed.

Lemma split_first_app c l rest :
  forallb (fun a => negb (Ascii.eqb a c)) l = true -> split_first c (l ++ c :: rest) = (l, Some rest).
Proof.
  induction l as [|a t IH]; cbn [app split_first forallb]; intros H.
  - now rewrite Ascii.eqb_refl.
  - apply andb_true_iff in H as [Ha Ht]. destruct (Ascii.eqb a c); [discriminate|]. now rewrite IH.
Qed.
Lemma split_first_none c l :
  forallb (fun a => negb (Ascii.eqb a c)) l = true -> split_first c l = (l, None).
Proof.
  induction l as [|a t IH]; cbn [split_first forallb]; intros H; [reflexivity|].
  apply andb_true_iff in H as [Ha Ht]. destruct (Ascii.eqb a c); [discriminate|]. now rewrite IH.
Qed.

(* ---- the status line: a finite sweep over the versions and the three-digit status codes ---- *)
Definition status_line (ver : version) (st : N) : bytes :=
  s "HTTP/" ++ print_dec (fst ver) ++ s "." ++ print_dec (snd ver) ++ [SP] ++ print_dec st ++ [SP]
    ++ reason_phrase st.
Definition versions : list version := [(0,9); (1,0); (1,1); (2,0); (3,0)].
Definition statuses : list N := map N.of_nat (seq 100 900).
Definition status_line_ok (ver : version) (st : N) : bool :=
  nolf (status_line ver st) &&
  match parse_status_line (status_line ver st) with
  | Some (_, st', _) => st' =? st
  | None => false
  end.
Lemma status_sweep :
  forallb (fun ver => forallb (status_line_ok ver) statuses) versions = true.
Proof. vm_compute. reflexivity. Qed.

Lemma in_statuses st : 100 <= st <= 999 -> In st statuses.
Proof.
  intros H. unfold statuses. apply in_map_iff. exists (N.to_nat st). split; [apply N2Nat.id|].
  apply in_seq. lia.
Qed.

Lemma status_line_parses ver st : In ver versions -> 100 <= st <= 999 ->
  nolf (status_line ver st) = true /\
  exists v r, parse_status_line (status_line ver st) = Some (v, st, r).
Proof.
  intros Hv Hs. pose proof status_sweep as H. rewrite forallb_forall in H. specialize (H ver Hv).
  rewrite forallb_forall in H. specialize (H st (in_statuses st Hs)). unfold status_line_ok in H.
  apply andb_true_iff in H as [H1 H2]. split; [exact H1|].
  destruct (parse_status_line (status_line ver st)) as [[[v st'] r]|]; [|discriminate].
  apply N.eqb_eq in H2. subst. eauto.
Qed.

(* ---- header fields ---- *)
Definition wf_header (h : header) : bool :=
  match hname h with [] => false | _ => true end &&
  negb (existsb is_ws (hname h)) && forallb (fun a => negb (Ascii.eqb a ":")) (hname h) &&
  nolf (hvalue h).
Definition norm (h : header) : header := mkH (hname h) (trim_ows (hvalue h)).

Lemma no_ws_nolf x : existsb is_ws x = false -> nolf x = true.
Proof.
  induction x as [|c t IH]; cbn [existsb nolf forallb]; [auto|]. intros H. apply orb_false_iff in H as [Hc Ht].
  specialize (IH Ht). unfold nolf in IH. rewrite IH, andb_true_r.
  destruct (Ascii.eqb_spec c LF) as [->|]; [vm_compute in Hc; discriminate|reflexivity].
Qed.

Lemma trim_ows_sp v : trim_ows (SP :: v) = trim_ows v.
Proof. reflexivity. Qed.

Lemma parse_field_render h : wf_header h = true ->
  nolf (hname h ++ s ": " ++ hvalue h) = true /\
  hname h ++ s ": " ++ hvalue h <> [] /\
  parse_field (hname h ++ s ": " ++ hvalue h) = Some (norm h).
Proof.
  unfold wf_header. intros H. repeat (apply andb_true_iff in H as [H ?]).
  match goal with H : negb (existsb is_ws _) = true |- _ => apply negb_true_iff in H; rename H into Hws end.
  repeat split.
  - rewrite !nolf_app. rewrite (no_ws_nolf _ Hws). cbn [andb]. now replace (nolf (s ": ")) with true by reflexivity.
  - destruct (hname h); [discriminate|discriminate].
  - unfold parse_field. change (s ": ") with [":"; SP]. cbn [app].
    rewrite split_first_app by assumption. destruct (hname h) eqn:E; [discriminate|].
    rewrite Hws. unfold norm. now rewrite E, trim_ows_sp.
Qed.

Definition render_headers (hs : list header) : bytes := List.concat (map render_header hs).

Lemma parse_fields_render hs rest : forall fuel, (List.length hs < fuel)%nat ->
  forallb wf_header hs = true ->
  parse_fields fuel (render_headers hs ++ CRLF ++ rest) = Some (map norm hs, rest).
Proof.
  induction hs as [|h t IH]; intros fuel Hf Hwf.
  - destruct fuel; [cbn in Hf; lia|]. reflexivity.
  - destruct fuel; [cbn in Hf; lia|]. cbn [forallb] in Hwf. apply andb_true_iff in Hwf as [Hh Ht].
    destruct (parse_field_render h Hh) as (Hn & Hne & Hp).
    unfold render_headers. cbn [map List.concat]. unfold render_header at 1.
    cbn [parse_fields].
    replace (((hname h ++ s ": " ++ hvalue h ++ CRLF) ++ List.concat (map render_header t)) ++ CRLF ++ rest)
      with ((hname h ++ s ": " ++ hvalue h) ++ CRLF ++ (render_headers t ++ CRLF ++ rest))
      by (unfold render_headers; now rewrite <- !app_assoc).
    rewrite split_crlf_app' by exact Hn.
    destruct (hname h ++ s ": " ++ hvalue h) eqn:E; [congruence|]. rewrite Hp.
    rewrite IH; [reflexivity|cbn [List.length] in Hf; lia|exact Ht].
Qed.

(* ---- chunked bodies ---- *)
Section Chunks.
Variable c : nat.
Hypothesis c_pos : (0 < c)%nat.
Hypothesis c_small : N.of_nat c < USIZE_BOUND.

Definition TERM : bytes := s "0" ++ CRLF ++ CRLF.

Lemma dechunk_term fuel tail acc : (0 < fuel)%nat -> dechunk fuel (TERM ++ tail) acc = Some (acc, tail).
Proof.
  intros H. destruct fuel; [lia|]. unfold TERM. change (s "0") with ["0"%char]. cbn [app dechunk].
  reflexivity.
Qed.

Lemma dechunk_one fuel d more acc : d <> [] -> (List.length d <= c)%nat ->
  dechunk (S fuel) (chunk d ++ more) acc = dechunk fuel more (acc ++ d).
Proof.
  intros Hne Hle. unfold chunk. cbn [dechunk].
  destruct (print_hex_digits (len d)) as [Hn Hd].
  assert (Hnolf : nolf (print_hex (len d)) = true).
  { unfold nolf. eapply forallb_impl; [|exact Hd]. intros x Hx. destruct (lhex_not x Hx) as [-> _]. reflexivity. }
  rewrite <- !app_assoc. rewrite split_crlf_app' by exact Hnolf.
  rewrite split_first_none.
  2:{ eapply forallb_impl; [|exact Hd]. intros x Hx. destruct (lhex_not x Hx) as [_ ->]. reflexivity. }
  cbn [fst]. assert (Hlen : len d < USIZE_BOUND) by (unfold len; lia).
  rewrite parse_hex_print by exact Hlen.
  assert (len d =? 0 = false) as -> by (apply N.eqb_neq; unfold len; destruct d; [congruence|cbn [List.length]; lia]).
  assert (len (d ++ CRLF ++ more) <? len d = false) as ->.
  { apply N.ltb_ge. unfold len. rewrite app_length. lia. }
  unfold len. rewrite Nat2N.id. rewrite skipn_app, skipn_all, Nat.sub_diag. cbn [app skipn].
  change (starts_with CRLF (CRLF ++ more)) with true. cbn [skipn app].
  rewrite firstn_app, firstn_all, Nat.sub_diag. cbn [firstn]. now rewrite app_nil_r.
Qed.

Lemma dechunk_chunks : forall f d acc fuel tail, (List.length d < f)%nat -> (f <= fuel)%nat ->
  dechunk fuel (chunks_aux f c d ++ TERM ++ tail) acc = Some (acc ++ d, tail).
Proof.
  induction f as [|f IH]; intros d acc fuel tail Hd Hf; [lia|].
  cbn [chunks_aux]. destruct d as [|x d'] eqn:Ed.
  - cbn [app]. rewrite app_nil_r. apply dechunk_term. lia.
  - rewrite <- Ed in *. assert (Hne : d <> []) by (subst; discriminate).
    destruct fuel as [|fuel]; [lia|].
    destruct (Nat.leb_spec (List.length d) c) as [Hle|Hgt].
    + rewrite dechunk_one by assumption. apply dechunk_term.
      destruct fuel; [|lia]. subst d. cbn [List.length] in Hd. lia.
    + rewrite <- app_assoc. rewrite dechunk_one.
      * rewrite IH; [|rewrite skipn_length; lia|lia]. now rewrite <- app_assoc, firstn_skipn.
      * intros E. apply (f_equal (@List.length _)) in E. rewrite firstn_length in E. cbn in E. lia.
      * rewrite firstn_length. lia.
Qed.

Lemma dechunk_encode d tail fuel : (List.length d < fuel)%nat ->
  dechunk fuel (chunk_encode_c c d ++ tail) [] = Some (d, tail).
Proof.
  intros H. unfold chunk_encode_c. rewrite <- app_assoc.
  change (s "0" ++ CRLF ++ CRLF) with TERM.
  apply (dechunk_chunks (S (List.length d)) d [] fuel tail); lia.
Qed.
End Chunks.
