(* Http/ChunkedFacts.v — the chunk-size line: which lines the decoder of chunked_transfer 1.5.0
   (as modelled by size_bytes / parse_chunk_size / read_chunk_size) accepts, and that on such a
   line it yields exactly the announced size and consumes exactly the line and its CRLF. *)
From TH Require Import Base.Bytes Base.BytesFacts Base.RadixFacts Http.Response Http.Request Http.Body.
From Coq Require Import Lia ZArith ZifyN ZifyBool ZifyNat.
Open Scope char_scope.

(* blanks that may surround the number: what str::trim removes, except CR (which ends the line) *)
Definition blank (c : ascii) : bool := is_ws c && negb (Ascii.eqb c CR).
Definition is_hexc (c : ascii) : bool := match hex_val c with Some _ => true | None => false end.
Definition no_cr (x : bytes) : bool := forallb (fun c => negb (Ascii.eqb c CR)) x.

(* A well-formed size line (without its CRLF) announcing n:
     blanks, an optional '+', one or more hex digits in either case (any number of leading zeros)
     whose value is n < 2^64, blanks, and optionally ';' followed by anything free of CR. *)
Definition size_line_ok (sl : bytes) (n : N) : Prop :=
  exists ws1 sign digits ws2 ext,
    sl = ws1 ++ sign ++ digits ++ ws2 ++ ext /\
    forallb blank ws1 = true /\ (sign = [] \/ sign = ["+"]) /\
    digits <> [] /\ value_radix 16 hex_val 0 digits = Some n /\ (n < USIZE_BOUND)%N /\
    forallb blank ws2 = true /\
    (ext = [] \/ exists e, ext = ";" :: e /\ no_cr e = true).

(* ---- characters (256 cases each) ---- *)
Definition pre_ok (c : ascii) : bool := negb (Ascii.eqb c CR) && negb (Ascii.eqb c ";").

Lemma blank_props c : blank c = true -> is_ws c && is_ascii c && pre_ok c = true.
Proof. destruct c as [[] [] [] [] [] [] [] []]; vm_compute; intros H; try discriminate H; reflexivity. Qed.
Lemma hexc_props c : is_hexc c = true ->
  negb (is_ws c) && is_ascii c && pre_ok c && negb (Ascii.eqb c "+") = true.
Proof. destruct c as [[] [] [] [] [] [] [] []]; vm_compute; intros H; try discriminate H; reflexivity. Qed.

Lemma forallb_impl {A} (p q : A -> bool) x : (forall c, p c = true -> q c = true) ->
  forallb p x = true -> forallb q x = true.
Proof. intros H Hp. apply forallb_forall. intros c Hc. apply H. revert c Hc. now apply forallb_forall. Qed.

Lemma value_hex_all : forall x acc v, value_radix 16 hex_val acc x = Some v -> forallb is_hexc x = true.
Proof.
  induction x as [|c x IH]; intros acc v H; [reflexivity|]. cbn [value_radix] in H. cbn [forallb]. unfold is_hexc at 1.
  destruct (hex_val c) as [d|]; [|discriminate]. cbn [andb]. eapply IH; eauto.
Qed.

(* ---- str::trim ---- *)
Lemma trim_start_ws ws x : forallb is_ws ws = true -> trim_start (ws ++ x) = trim_start x.
Proof.
  induction ws as [|c ws IH]; intros H; [reflexivity|]. cbn [forallb] in H. apply andb_true_iff in H as [Hc H].
  cbn [app trim_start]. rewrite Hc. auto.
Qed.
Lemma trim_start_nows c x : is_ws c = false -> trim_start (c :: x) = c :: x.
Proof. intros H. cbn [trim_start]. now rewrite H. Qed.

Lemma trim_core ws1 ws2 c1 t1 t2 c2 : forallb is_ws ws1 = true -> forallb is_ws ws2 = true ->
  is_ws c1 = false -> is_ws c2 = false -> c1 :: t1 = t2 ++ [c2] ->
  trim (ws1 ++ (c1 :: t1) ++ ws2) = c1 :: t1.
Proof.
  intros H1 H2 Hc1 Hc2 E. unfold trim. rewrite trim_start_ws by exact H1.
  cbn [app]. rewrite trim_start_nows by exact Hc1. unfold trim_end. rewrite !frev_rev.
  change (c1 :: t1 ++ ws2) with ((c1 :: t1) ++ ws2). rewrite E, <- app_assoc. cbn [app].
  rewrite rev_app_distr. cbn [rev]. rewrite <- app_assoc. rewrite trim_start_ws.
  - cbn [app]. rewrite trim_start_nows by exact Hc2. cbn [rev]. now rewrite rev_involutive.
  - apply forallb_forall. intros c Hc. apply in_rev in Hc. revert c Hc. now apply forallb_forall.
Qed.

Lemma parse_hex_nosign d ds : is_hexc d = true ->
  parse_hex_usize (d :: ds) = parse_radix 16 hex_val USIZE_BOUND (d :: ds).
Proof.
  intros H. apply hexc_props in H. destruct d as [[] [] [] [] [] [] [] []]; try reflexivity.
  vm_compute in H. discriminate H.
Qed.

(* the collected bytes of a well-formed line parse to the announced size *)
Lemma parse_chunk_size_ok ws1 sign digits ws2 n :
  forallb blank ws1 = true -> (sign = [] \/ sign = ["+"]) -> digits <> [] ->
  value_radix 16 hex_val 0 digits = Some n -> (n < USIZE_BOUND)%N -> forallb blank ws2 = true ->
  parse_chunk_size (ws1 ++ sign ++ digits ++ ws2) = Some n.
Proof.
  intros Hw1 Hsign Hne Hv Hb Hw2. pose proof (value_hex_all _ _ _ Hv) as Hhex.
  assert (Hparse : parse_radix 16 hex_val USIZE_BOUND digits = Some n).
  { unfold parse_radix. destruct digits; [congruence|]. rewrite Hv. destruct (N.ltb_spec n USIZE_BOUND); [reflexivity|lia]. }
  assert (Hws1 : forallb is_ws ws1 = true).
  { revert Hw1. apply forallb_impl. intros c Hc. apply blank_props in Hc. now destruct (is_ws c). }
  assert (Hws2 : forallb is_ws ws2 = true).
  { revert Hw2. apply forallb_impl. intros c Hc. apply blank_props in Hc. now destruct (is_ws c). }
  unfold parse_chunk_size.
  assert (Hasc : all_ascii (ws1 ++ sign ++ digits ++ ws2) = true).
  { unfold all_ascii. rewrite !forallb_app. repeat (apply andb_true_iff; split).
    - revert Hw1. apply forallb_impl. intros c Hc. apply blank_props in Hc. destruct (is_ws c), (is_ascii c); auto.
    - destruct Hsign as [->| ->]; reflexivity.
    - revert Hhex. apply forallb_impl. intros c Hc. apply hexc_props in Hc. destruct (is_ws c), (is_ascii c); auto.
    - revert Hw2. apply forallb_impl. intros c Hc. apply blank_props in Hc. destruct (is_ws c), (is_ascii c); auto. }
  rewrite Hasc.
  destruct (exists_last Hne) as (ds & dl & Ed).
  assert (Hdl : is_ws dl = false).
  { subst digits. rewrite forallb_app in Hhex. apply andb_true_iff in Hhex as [_ Hdl]. cbn [forallb] in Hdl.
    rewrite andb_true_r in Hdl. apply hexc_props in Hdl. now destruct (is_ws dl). }
  destruct digits as [|d1 dt]; [congruence|].
  assert (Hd1 : is_hexc d1 = true) by (cbn [forallb] in Hhex; now apply andb_true_iff in Hhex as [? _]).
  assert (Hd1w : is_ws d1 = false) by (apply hexc_props in Hd1; now destruct (is_ws d1)).
  destruct Hsign as [->| ->].
  - change (ws1 ++ [] ++ (d1 :: dt) ++ ws2) with (ws1 ++ (d1 :: dt) ++ ws2).
    rewrite (trim_core ws1 ws2 d1 dt ds dl); auto.
    rewrite parse_hex_nosign by exact Hd1. exact Hparse.
  - replace (ws1 ++ ["+"] ++ (d1 :: dt) ++ ws2) with (ws1 ++ ("+" :: d1 :: dt) ++ ws2) by reflexivity.
    rewrite (trim_core ws1 ws2 "+" (d1 :: dt) ("+" :: ds) dl); [exact Hparse|auto..|rewrite Ed; reflexivity].
Qed.

(* ---- the byte loop of read_chunk_size ---- *)
Lemma size_bytes_pre : forall x f acc y e, forallb pre_ok x = true ->
  size_bytes (List.length x + f) false acc (mkS (x ++ y) e) = size_bytes f false (rev x ++ acc) (mkS y e).
Proof.
  induction x as [|c x IH]; intros f acc y e H; [reflexivity|]. cbn [forallb] in H. apply andb_true_iff in H as [Hc H].
  cbn [List.length Nat.add app size_bytes src_byte sbytes seof]. unfold pre_ok in Hc. apply andb_true_iff in Hc as [Hc1 Hc2].
  apply negb_true_iff in Hc1, Hc2. rewrite Hc1, Hc2. rewrite IH by exact H. cbn [rev]. now rewrite <- app_assoc.
Qed.
Lemma size_bytes_ext : forall x f acc y e, no_cr x = true ->
  size_bytes (List.length x + S f) true acc (mkS (x ++ CR :: y) e) = (DOk (frev acc), mkS y e).
Proof.
  induction x as [|c x IH]; intros f acc y e H.
  - cbn [List.length Nat.add app size_bytes src_byte sbytes seof]. now rewrite Ascii.eqb_refl.
  - unfold no_cr in H. cbn [forallb] in H. apply andb_true_iff in H as [Hc H]. apply negb_true_iff in Hc.
    cbn [List.length Nat.add app size_bytes src_byte sbytes seof]. rewrite Hc. apply IH. exact H.
Qed.

Lemma size_bytes_line pre ext y e fuel : forallb pre_ok pre = true ->
  (ext = [] \/ exists x, ext = ";" :: x /\ no_cr x = true) ->
  (List.length pre + List.length ext < fuel)%nat ->
  size_bytes fuel false [] (mkS (pre ++ ext ++ CR :: y) e) = (DOk pre, mkS y e).
Proof.
  intros Hpre Hext Hf. replace fuel with (List.length pre + (fuel - List.length pre))%nat by lia.
  rewrite size_bytes_pre by exact Hpre. rewrite app_nil_r.
  destruct Hext as [->|(x & -> & Hx)].
  - destruct (fuel - List.length pre)%nat as [|f] eqn:Ef; [cbn [List.length] in Hf; lia|].
    cbn [app size_bytes src_byte sbytes seof]. rewrite Ascii.eqb_refl. now rewrite frev_rev, rev_involutive.
  - cbn [List.length] in Hf. destruct (fuel - List.length pre)%nat as [|f] eqn:Ef; [lia|].
    cbn [app size_bytes src_byte sbytes seof]. change (Ascii.eqb ";" CR) with false. change (Ascii.eqb ";" ";") with true.
    cbn iota. replace f with (List.length x + S (f - S (List.length x)))%nat by lia.
    rewrite size_bytes_ext by exact Hx. now rewrite frev_rev, rev_involutive.
Qed.

Lemma expect_byte_ok c y e : expect_byte c (mkS (c :: y) e) = (DOk tt, mkS y e).
Proof. unfold expect_byte. cbn [src_byte sbytes seof]. now rewrite Ascii.eqb_refl. Qed.
Lemma read_crlf_ok y e : read_crlf (mkS (CRLF ++ y) e) = (DOk tt, mkS y e).
Proof. unfold read_crlf, CRLF. cbn [app]. now rewrite !expect_byte_ok. Qed.

(* C03 3(a): on a well-formed size line the decoder obtains exactly the announced size and stands
   right after the line's CRLF; the fuel |pending|+1 of the model is enough *)
Theorem read_chunk_size_ok sl n rest e : size_line_ok sl n ->
  read_chunk_size (mkS (sl ++ CRLF ++ rest) e) = (DOk n, mkS rest e).
Proof.
  intros (ws1 & sign & digits & ws2 & ext & -> & Hw1 & Hsign & Hne & Hv & Hb & Hw2 & Hext).
  unfold read_chunk_size. cbn [sbytes].
  set (pre := ws1 ++ sign ++ digits ++ ws2).
  assert (Hpre : forallb pre_ok pre = true).
  { unfold pre. rewrite !forallb_app. repeat (apply andb_true_iff; split).
    - revert Hw1. apply forallb_impl. intros c Hc. apply blank_props in Hc. destruct (is_ws c), (is_ascii c), (pre_ok c); auto.
    - destruct Hsign as [->| ->]; reflexivity.
    - apply value_hex_all in Hv. revert Hv. apply forallb_impl. intros c Hc. apply hexc_props in Hc.
      destruct (is_ws c), (is_ascii c), (pre_ok c); auto.
    - revert Hw2. apply forallb_impl. intros c Hc. apply blank_props in Hc. destruct (is_ws c), (is_ascii c), (pre_ok c); auto. }
  replace ((ws1 ++ sign ++ digits ++ ws2 ++ ext) ++ CRLF ++ rest) with (pre ++ ext ++ CR :: LF :: rest)
    by (unfold pre, CRLF; now rewrite <- !app_assoc).
  rewrite size_bytes_line; auto.
  - rewrite expect_byte_ok. unfold pre. rewrite (parse_chunk_size_ok ws1 sign digits ws2 n) by assumption. reflexivity.
  - rewrite !app_length. cbn [List.length]. lia.
Qed.

(* the canonical rendering (lower-case hex, no padding) is one of the accepted lines *)
Lemma size_line_print_hex n : (n < USIZE_BOUND)%N -> size_line_ok (print_hex n) n.
Proof.
  intros Hn. exists [], [], (print_hex n), [], []. rewrite !app_nil_r. cbn [app forallb].
  pose proof (parse_hex_print n Hn) as Hp. destruct (print_hex_digits n) as [Hne _].
  repeat split; auto. unfold parse_radix in Hp. destruct (print_hex n) as [|c t] eqn:E; [congruence|].
  destruct (value_radix 16 hex_val 0 (c :: t)) as [v|]; [|discriminate].
  destruct (N.ltb v USIZE_BOUND); [exact Hp|discriminate].
Qed.

(* ================= completeness: the decoder accepts no other lines =================
   If read_chunk_size succeeds on  sl ++ CRLF ++ rest  (sl free of CR, so that sl is the line),
   then sl is a size line in the sense above, for the size returned. *)
Fixpoint split_semi (x : bytes) : bytes * bytes :=
  match x with
  | [] => ([], [])
  | c :: t => if Ascii.eqb c ";" then ([], x) else let '(a, b) := split_semi t in (c :: a, b)
  end.
Lemma split_semi_spec x : no_cr x = true ->
  let '(pre, ext) := split_semi x in
  x = pre ++ ext /\ forallb pre_ok pre = true /\ (ext = [] \/ exists y, ext = ";" :: y /\ no_cr y = true).
Proof.
  induction x as [|c t IH]; intros H; cbn [split_semi]; [repeat split; auto|].
  unfold no_cr in H. cbn [forallb] in H. apply andb_true_iff in H as [Hc H].
  destruct (Ascii.eqb_spec c ";") as [->|Hne].
  - repeat split; auto. right. exists t. auto.
  - specialize (IH H). destruct (split_semi t) as [a b]. destruct IH as (E & Hp & Hx). repeat split; auto.
    + cbn [app]. now rewrite <- E.
    + cbn [forallb]. rewrite Hp. unfold pre_ok. rewrite Hc. apply Ascii.eqb_neq in Hne. now rewrite Hne.
Qed.

Lemma trim_start_decomp x : exists ws, x = ws ++ trim_start x /\ forallb is_ws ws = true.
Proof.
  induction x as [|c t IH]; [now exists []|]. cbn [trim_start]. destruct (is_ws c) eqn:Ec.
  - destruct IH as (ws & E & Hw). exists (c :: ws). cbn [app forallb]. rewrite Ec, Hw. now rewrite <- E.
  - now exists [].
Qed.
Lemma trim_decomp x : exists ws1 ws2, x = ws1 ++ trim x ++ ws2 /\ forallb is_ws ws1 = true /\ forallb is_ws ws2 = true.
Proof.
  destruct (trim_start_decomp x) as (ws1 & E1 & H1). unfold trim.
  destruct (trim_start_decomp (frev (trim_start x))) as (w & E2 & H2).
  exists ws1, (rev w). repeat split; auto.
  - rewrite E1 at 1. f_equal. unfold trim_end. rewrite frev_rev in *. rewrite frev_rev.
    apply (f_equal (@rev ascii)) in E2. rewrite rev_involutive, rev_app_distr in E2. exact E2.
  - apply forallb_forall. intros c Hc. apply in_rev in Hc. revert c Hc. now apply forallb_forall.
Qed.

Lemma parse_radix_inv x n : parse_radix 16 hex_val USIZE_BOUND x = Some n ->
  x <> [] /\ value_radix 16 hex_val 0 x = Some n /\ (n < USIZE_BOUND)%N.
Proof.
  unfold parse_radix. destruct x as [|c t]; [discriminate|]. destruct (value_radix 16 hex_val 0 (c :: t)) as [v|]; [|discriminate].
  destruct (N.ltb_spec v USIZE_BOUND); [|discriminate]. intros [= <-]. repeat split; auto. discriminate.
Qed.
Lemma parse_hex_usize_inv x n : parse_hex_usize x = Some n ->
  exists sign digits, x = sign ++ digits /\ (sign = [] \/ sign = ["+"]) /\ digits <> [] /\
                      value_radix 16 hex_val 0 digits = Some n /\ (n < USIZE_BOUND)%N.
Proof.
  destruct x as [|c t]; [discriminate|]. destruct (Ascii.eqb_spec c "+") as [->|Hne].
  - cbn [parse_hex_usize]. intros H. apply parse_radix_inv in H. exists ["+"], t. repeat split; auto; apply H.
  - assert (E : parse_hex_usize (c :: t) = parse_radix 16 hex_val USIZE_BOUND (c :: t)).
    { destruct c as [[] [] [] [] [] [] [] []]; try reflexivity. congruence. }
    rewrite E. intros H. apply parse_radix_inv in H. exists [], (c :: t). repeat split; auto; apply H.
Qed.

Lemma no_cr_app a b : no_cr (a ++ b) = no_cr a && no_cr b.
Proof. unfold no_cr. apply forallb_app. Qed.
Lemma ws_nocr_blank ws : forallb is_ws ws = true -> no_cr ws = true -> forallb blank ws = true.
Proof.
  intros H1 H2. apply forallb_forall. intros c Hc. unfold blank.
  rewrite (proj1 (forallb_forall _ _) H1 c Hc). exact (proj1 (forallb_forall _ _) H2 c Hc).
Qed.

Theorem read_chunk_size_complete sl rest e n st' : no_cr sl = true ->
  read_chunk_size (mkS (sl ++ CRLF ++ rest) e) = (DOk n, st') ->
  size_line_ok sl n /\ st' = mkS rest e.
Proof.
  intros Hcr. pose proof (split_semi_spec sl Hcr) as Hs. destruct (split_semi sl) as [pre ext].
  destruct Hs as (-> & Hpre & Hext). unfold read_chunk_size. cbn [sbytes].
  replace ((pre ++ ext) ++ CRLF ++ rest) with (pre ++ ext ++ CR :: LF :: rest) by (unfold CRLF; now rewrite <- !app_assoc).
  rewrite size_bytes_line by (auto; rewrite !app_length; cbn [List.length]; lia).
  rewrite expect_byte_ok. unfold parse_chunk_size. destruct (all_ascii pre); [|discriminate].
  destruct (parse_hex_usize (trim pre)) as [m|] eqn:Ep; [|discriminate]. intros [= <- <-]. split; [|reflexivity].
  destruct (trim_decomp pre) as (ws1 & ws2 & E & Hw1 & Hw2).
  destruct (parse_hex_usize_inv _ _ Ep) as (sign & digits & Et & Hsign & Hne & Hv & Hb).
  rewrite no_cr_app in Hcr. apply andb_true_iff in Hcr as [Hcr _].
  rewrite E, !no_cr_app in Hcr. apply andb_true_iff in Hcr as [Hc1 Hcr]. apply andb_true_iff in Hcr as [_ Hc2].
  exists ws1, sign, digits, ws2, ext. repeat split; auto using ws_nocr_blank.
  rewrite E at 1. rewrite Et. now rewrite <- !app_assoc.
Qed.
