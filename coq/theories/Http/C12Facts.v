(* Http/C12Facts.v — C12: which request is the last one on a connection (reference decision written
   from the property text, equal to last_request), and what serve_loop does after it. *)
From TH Require Import Base.Bytes Base.BytesFacts Http.Response Http.Request Http.Body Http.Serve
  Http.ServeFacts.
From Coq Require Import Lia ZArith ZifyN ZifyBool ZifyNat.
Open Scope char_scope.

(* ---------------- the reference decision ---------------- *)
Section Spec.
  (* p occurs in x as a contiguous substring *)
  Definition substring (p x : bytes) : Prop := exists a b, x = a ++ p ++ b.
  (* header names are compared without regard to ASCII case *)
  Definition named (n : bytes) (h : header) : Prop := lower (hname h) = lower n.
  (* v is the value of the first header named n *)
  Definition first_value (n : bytes) (hs : list header) (v : bytes) : Prop :=
    exists pre h post, hs = pre ++ h :: post /\ named n h /\ hvalue h = v /\
                       Forall (fun h' => ~ named n h') pre.
  Definition no_header (n : bytes) (hs : list header) : Prop := Forall (fun h => ~ named n h) hs.

  (* "an HTTP/1.1 request whose Connection header contains close or upgrade, or an HTTP/1.0 request
     without Connection: keep-alive" — the value is compared in lower case *)
  Definition ref_last (ver : version) (hs : list header) : Prop :=
    (exists v, first_value (s "Connection") hs v /\
               (substring (s "close") (lower v) \/ substring (s "upgrade") (lower v) \/
                (ver = (1, 0)%N /\ ~ substring (s "keep-alive") (lower v))))
    \/ (no_header (s "Connection") hs /\ ver = (1, 0)%N).
End Spec.

Lemma starts_with_spec p x : starts_with p x = true <-> exists b, x = p ++ b.
Proof.
  revert x; induction p as [|a p IH]; intros x; cbn [starts_with].
  - split; [intros _; exists x; reflexivity|reflexivity].
  - destruct x as [|b x].
    + split; [discriminate|intros [b0 H]; discriminate].
    + rewrite andb_true_iff, Ascii.eqb_eq, IH. split.
      * intros [-> [b0 ->]]. exists b0. reflexivity.
      * intros [b0 H]. cbn [app] in H. inversion H; subst. split; [reflexivity|exists b0; reflexivity].
Qed.

Lemma contains_sub_spec p x : contains_sub p x = true <-> substring p x.
Proof.
  unfold substring. induction x as [|c x IH]; cbn [contains_sub]; rewrite orb_true_iff, starts_with_spec.
  - split.
    + intros [[b H]|H]; [|discriminate]. exists [], b. exact H.
    + intros (a & b & H). left. destruct a; [exists b; exact H|discriminate].
  - rewrite IH. split.
    + intros [[b H]|(a & b & H)]; [exists [], b; exact H|exists (c :: a), b; rewrite H; reflexivity].
    + intros (a & b & H). destruct a as [|a0 a]; [left; exists b; exact H|right].
      cbn [app] in H. inversion H; subst. exists a, b. reflexivity.
Qed.

Lemma equiv_named n h : equiv n h = true <-> named (s n) h.
Proof. unfold equiv, eq_ci, named. rewrite beq_eq. split; congruence. Qed.

Lemma find_spec {A} (p : A -> bool) l :
  match find p l with
  | Some h => exists pre post, l = pre ++ h :: post /\ p h = true /\ Forall (fun x => p x = false) pre
  | None => Forall (fun x => p x = false) l
  end.
Proof.
  induction l as [|x l IH]; cbn [find]; [constructor|].
  destruct (p x) eqn:E.
  - exists [], l. auto.
  - destruct (find p l) as [h|].
    + destruct IH as (pre & post & -> & Hh & Hp). exists (x :: pre), post. auto.
    + constructor; assumption.
Qed.

Lemma find_unique {A} (p : A -> bool) pre h post :
  p h = true -> Forall (fun x => p x = false) pre -> find p (pre ++ h :: post) = Some h.
Proof.
  intros Hh Hp. induction Hp as [|x pre Hx Hp IH]; cbn [app find]; [now rewrite Hh|now rewrite Hx].
Qed.

Lemma header_value_spec n hs :
  match header_value n hs with
  | Some v => first_value (s n) hs v
  | None => no_header (s n) hs
  end.
Proof.
  unfold header_value, find_header. pose proof (find_spec (equiv n) hs) as H.
  destruct (find (equiv n) hs) as [h|]; cbn [option_map].
  - destruct H as (pre & post & -> & Hh & Hp). exists pre, h, post. repeat split; auto.
    + apply equiv_named, Hh.
    + eapply Forall_impl; [|exact Hp]. intros x Hx Hn. apply equiv_named in Hn. congruence.
  - eapply Forall_impl; [|exact H]. intros x Hx Hn. apply equiv_named in Hn. congruence.
Qed.

Lemma first_value_header_value n hs v : first_value (s n) hs v -> header_value n hs = Some v.
Proof.
  intros (pre & h & post & -> & Hn & <- & Hp). unfold header_value, find_header.
  rewrite find_unique; [reflexivity|apply equiv_named, Hn|].
  eapply Forall_impl; [|exact Hp]. intros x Hx. cbv beta in Hx.
  destruct (equiv n x) eqn:E; [|reflexivity]. apply equiv_named in E. contradiction.
Qed.

Lemma no_header_header_value n hs : no_header (s n) hs -> header_value n hs = None.
Proof.
  intros H. pose proof (header_value_spec n hs) as Hs. destruct (header_value n hs) as [v|]; [|reflexivity].
  destruct Hs as (pre & h & post & -> & Hn & _). apply Forall_app in H as [_ H]. inversion H; subst. contradiction.
Qed.

Lemma ver_eq_spec v w : ver_eq v w = true <-> v = w.
Proof.
  destruct v as [a b], w as [a' b']. unfold ver_eq; cbn [fst snd].
  rewrite andb_true_iff, !N.eqb_eq. split; [intros [-> ->]; reflexivity|intros [= -> ->]; auto].
Qed.

Theorem last_request_table ver hs : last_request ver hs = true <-> ref_last ver hs.
Proof.
  unfold last_request, ref_last. pose proof (header_value_spec "Connection" hs) as Hs.
  destruct (header_value "Connection" hs) as [v|] eqn:Ev.
  - split.
    + intros H. left. exists v. split; [exact Hs|].
      destruct (contains_sub (s "close") (lower v)) eqn:E1; [left; apply contains_sub_spec, E1|].
      destruct (contains_sub (s "upgrade") (lower v)) eqn:E2; [right; left; apply contains_sub_spec, E2|].
      right; right. apply andb_true_iff in H as [H1 H2]. split; [apply ver_eq_spec, H2|].
      intros Hk. apply contains_sub_spec in Hk. rewrite Hk in H1. discriminate.
    + intros [(v' & Hv' & H)|[Hn _]].
      * apply first_value_header_value in Hv'. rewrite Ev in Hv'. injection Hv' as <-.
        destruct H as [H|[H|[H1 H2]]].
        -- apply contains_sub_spec in H. now rewrite H.
        -- apply contains_sub_spec in H. rewrite H. now destruct (contains_sub (s "close") (lower v)).
        -- destruct (contains_sub (s "close") (lower v)); [reflexivity|].
           destruct (contains_sub (s "upgrade") (lower v)); [reflexivity|].
           apply andb_true_iff. split; [|apply ver_eq_spec, H1].
           destruct (contains_sub (s "keep-alive") (lower v)) eqn:E; [|reflexivity].
           apply contains_sub_spec in E. contradiction.
      * apply no_header_header_value in Hn. congruence.
  - rewrite ver_eq_spec. split.
    + intros H. right. split; assumption.
    + intros [(v' & Hv' & _)|[_ H]]; [|exact H].
      apply first_value_header_value in Hv'. congruence.
Qed.
