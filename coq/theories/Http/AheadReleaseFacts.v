(* Http/AheadReleaseFacts.v — read-ahead on one connection (C11), part 2: what releases the
   successors of a request whose body is streamed. With the whole body on the connection, the
   request going away (respond / drop / into_writer) or its body being read to end-of-stream makes
   exactly the (small) successors obtainable; reading only a part of the body does not. *)
From TH Require Import Base.Bytes Base.BytesFacts Base.RadixFacts Http.Response Http.Request Http.Body
                       Http.Serve Http.Ahead Http.LineFacts Http.HeadFacts Http.FramingFacts
                       Http.FramingBodyFacts Http.BodyFacts Http.ChunkedFacts Http.ChunkedReader
                       Http.StreamFacts Http.C03Facts Http.ServeGoodFacts Http.AheadFacts.
From Coq Require Import Lia ZArith ZifyN ZifyBool ZifyNat.
Open Scope char_scope.

(* the request that holds the reader does not end the connection / ends it: ClientConnection::next
   sets no_more_requests for Connection: close / upgrade and for HTTP/1.0 without keep-alive, and
   then nothing behind that request is ever parsed (the flag of AHolds) *)
Definition keeps_alive (r : req_head) : Prop := last_request (rq_version r) (hdrs r) = false.
Definition final (r : req_head) : Prop := last_request (rq_version r) (hdrs r) = true.

(* ================= the three actions on the length-limited reader ================= *)
Lemma drop_limited body x e :
  fst (body_drop fixed (BLimited (len body)) (mkS (body ++ x) e) []) = mkS x e.
Proof.
  apply (limited_drop body x e [] [] [] None (BLimited (len body)) (mkS (body ++ x) e) []); [constructor|reflexivity].
Qed.

(* reading to end-of-stream: the whole body is obtained, the stream stands exactly behind it and
   the reader left is not the raw connection *)
Lemma read_all_limited body x e : (len body < ALL)%N ->
  exists acc' r',
    take fixed (S (List.length (body ++ x))) ALL 4096 (BLimited (len body)) (mkS (body ++ x) e) [] []
    = (acc', EndEof, r', mkS x e, []) /\ r' <> BUpgrade /\ pieces_bytes acc' = body.
Proof.
  intros Hall.
  destruct (pack_take x (lim_inv x) (lim_step x) (lim_drop x) (S (List.length (body ++ x))) ALL 4096
              body (BLimited (len body)) (body ++ x) e [] [] ltac:(lia) (lim_inv_init x body e))
    as (acc' & en & got & rest & r' & st' & E & Hp & Hb & HI & _ & Hend & _).
  { rewrite app_length. lia. }
  destruct Hend as [(_ & -> & -> & -> & _)|(Hle & _)]; [|lia].
  exists acc', r'. split; [exact E|]. split.
  - destruct HI as [[-> _]|(_ & -> & _)]; discriminate.
  - rewrite app_nil_r in Hb. subst got. exact Hp.
Qed.

(* reading at most as many bytes as the body has: no end-of-stream is seen *)
Lemma read_part_limited body x e m : (m <= len body)%N ->
  exists acc' r' st',
    take fixed (S (List.length (body ++ x))) m 7 (BLimited (len body)) (mkS (body ++ x) e) [] []
    = (acc', EndCount, r', st', []) /\ len (pieces_bytes acc') = m.
Proof.
  intros Hm.
  destruct (pack_take x (lim_inv x) (lim_step x) (lim_drop x) (S (List.length (body ++ x))) m 7
              body (BLimited (len body)) (body ++ x) e [] [] ltac:(lia) (lim_inv_init x body e))
    as (acc' & en & got & rest & r' & st' & E & Hp & Hb & HI & _ & Hend & _).
  { rewrite app_length. lia. }
  destruct Hend as [(Hlt & _)|(_ & -> & Hg)]; [lia|].
  exists acc', r', st'. split; [exact E|]. now rewrite Hp.
Qed.

(* ================= the same for the chunked reader ================= *)
Section Chunked.
Variables (chs : list chunk) (last x : bytes) (e : bool).
Hypothesis chs_ok : Forall chunk_ok chs.
Hypothesis last_ok : size_line_ok last 0.

Lemma drop_chunked :
  fst (body_drop fixed (BChunked None false) (mkS (enc chs last x) e) []) = mkS x e.
Proof.
  apply (chunked_drop chs last x e chs_ok last_ok [] [] [] None (BChunked None false) (mkS (enc chs last x) e) []);
    [constructor|reflexivity].
Qed.

Lemma read_all_chunked : (len (payload chs) < ALL)%N ->
  exists acc' r',
    take fixed (S (List.length (enc chs last x))) ALL 4096 (BChunked None false) (mkS (enc chs last x) e) [] []
    = (acc', EndEof, r', mkS x e, []) /\ r' <> BUpgrade /\ pieces_bytes acc' = payload chs.
Proof.
  intros Hall. pose proof (payload_le_enc chs last x) as Hle.
  destruct (pack_take x (ch_inv last x) (ch_step last x last_ok) (ch_drop last x last_ok)
              (S (List.length (enc chs last x))) ALL 4096
              (payload chs) (BChunked None false) (enc chs last x) e [] [] ltac:(lia)
              (ch_inv_init last x chs e chs_ok) ltac:(lia))
    as (acc' & en & got & rest & r' & st' & E & Hp & Hb & HI & _ & Hend & _).
  destruct Hend as [(_ & -> & -> & -> & _)|(Hle' & _)]; [|lia].
  exists acc', r'. split; [exact E|]. split.
  - destruct HI as [(rem & -> & _)|(_ & -> & _)]; discriminate.
  - rewrite app_nil_r in Hb. rewrite Hb. exact Hp.
Qed.

Lemma read_part_chunked m : (m <= len (payload chs))%N ->
  exists acc' r' st',
    take fixed (S (List.length (enc chs last x))) m 7 (BChunked None false) (mkS (enc chs last x) e) [] []
    = (acc', EndCount, r', st', []) /\ len (pieces_bytes acc') = m.
Proof.
  intros Hm. pose proof (payload_le_enc chs last x) as Hle.
  destruct (pack_take x (ch_inv last x) (ch_step last x last_ok) (ch_drop last x last_ok)
              (S (List.length (enc chs last x))) m 7
              (payload chs) (BChunked None false) (enc chs last x) e [] [] ltac:(lia)
              (ch_inv_init last x chs e chs_ok) ltac:(lia))
    as (acc' & en & got & rest & r' & st' & E & Hp & Hb & HI & _ & Hend & _).
  destruct Hend as [(Hlt & _)|(_ & -> & Hg)]; [lia|].
  exists acc', r', st'. split; [exact E|]. now rewrite Hp.
Qed.
End Chunked.

(* ================= ahead_two ================= *)
(* the shapes of the second round, given what the first round returned *)
Lemma ahead_two_final c a st got r st1 :
  ahead c st = (got, AHolds r st1 true) -> ahead_two c a st = (got, []).
Proof. intros E. unfold ahead_two. now rewrite E. Qed.

Lemma ahead_two_goes_away c st got r st1 :
  ahead c st = (got, AHolds r st1 false) ->
  ahead_two c RlGoesAway st = (got, fst (ahead c (fst (body_drop c r st1 [])))).
Proof. intros E. unfold ahead_two. now rewrite E. Qed.

Lemma ahead_two_read_eof c st got r st1 a m n acc' r' st2 al' :
  ahead c st = (got, AHolds r st1 false) ->
  (a = RlReadAll /\ m = ALL /\ n = 4096%nat) \/ (exists k, a = RlReadPart k /\ m = k /\ n = 7%nat) ->
  take c (S (List.length (sbytes st1))) m n r st1 [] [] = (acc', EndEof, r', st2, al') -> r' <> BUpgrade ->
  ahead_two c a st = (got, fst (ahead c st2)).
Proof.
  intros E Ha T Hr. unfold ahead_two. rewrite E.
  destruct Ha as [(-> & -> & ->)|(k & -> & -> & ->)]; rewrite T; destruct r'; try reflexivity; congruence.
Qed.

(* whether or not the holder ends the connection *)
Lemma ahead_two_read_count c st got r st1 last k acc' r' st2 al' :
  ahead c st = (got, AHolds r st1 last) ->
  take c (S (List.length (sbytes st1))) k 7 r st1 [] [] = (acc', EndCount, r', st2, al') ->
  ahead_two c (RlReadPart k) st = (got, []).
Proof. intros E T. unfold ahead_two. rewrite E. destruct last; [reflexivity|now rewrite T]. Qed.

(* ---- Content-Length body ---- *)
Section Limited.
Variables (pre post : list pelem) (r : req_head) (o : list (bytes * bytes)) (body tail : bytes) (eof : bool).
Hypothesis pre_small : Forall small_elem pre.
Hypothesis post_small : Forall small_elem post.
Hypothesis r_limited : limited_head r (len body).
Hypothesis o_ok : wf_ows o = true.
Hypothesis tail_eof : read_head fixed tail = HeadEof.
Let input := render_pipe pre ++ render_req_head r o ++ body ++ render_pipe post ++ tail.

Lemma limited_first_round :
  ahead fixed (mkS input eof)
  = (targets pre ++ [rq_target r],
     AHolds (BLimited (len body)) (mkS (body ++ render_pipe post ++ tail) eof) (last_request (rq_version r) (hdrs r))).
Proof. unfold input. now apply holds_limited. Qed.

Lemma limited_first_round_alive : keeps_alive r ->
  ahead fixed (mkS input eof)
  = (targets pre ++ [rq_target r], AHolds (BLimited (len body)) (mkS (body ++ render_pipe post ++ tail) eof) false).
Proof. intros K. rewrite limited_first_round. unfold keeps_alive in K. now rewrite K. Qed.

Theorem released_by_going_away_limited : keeps_alive r ->
  ahead_two fixed RlGoesAway (mkS input eof) = (targets pre ++ [rq_target r], targets post).
Proof.
  intros K. rewrite (ahead_two_goes_away _ _ _ _ _ (limited_first_round_alive K)).
  rewrite drop_limited. now rewrite (small_pipeline_all post tail eof post_small tail_eof).
Qed.

Theorem released_by_reading_to_end_limited : keeps_alive r -> (len body < ALL)%N ->
  ahead_two fixed RlReadAll (mkS input eof) = (targets pre ++ [rq_target r], targets post).
Proof.
  intros K Hall. destruct (read_all_limited body (render_pipe post ++ tail) eof Hall) as (acc' & r' & T & Hr & _).
  rewrite (ahead_two_read_eof _ _ _ _ _ RlReadAll ALL 4096%nat _ _ _ _ (limited_first_round_alive K)
             (or_introl (conj eq_refl (conj eq_refl eq_refl))) T Hr).
  now rewrite (small_pipeline_all post tail eof post_small tail_eof).
Qed.

Theorem not_released_by_partial_read_limited m : (m <= len body)%N ->
  ahead_two fixed (RlReadPart m) (mkS input eof) = (targets pre ++ [rq_target r], []).
Proof.
  intros Hm. destruct (read_part_limited body (render_pipe post ++ tail) eof m Hm) as (acc' & r' & st' & T & _).
  exact (ahead_two_read_count _ _ _ _ _ _ _ _ _ _ _ limited_first_round T).
Qed.

End Limited.

(* ---- chunked body ---- *)
Section ChunkedBody.
Variables (pre post : list pelem) (r : req_head) (o : list (bytes * bytes)) (chs : list chunk) (last tail : bytes) (eof : bool).
Hypothesis pre_small : Forall small_elem pre.
Hypothesis post_small : Forall small_elem post.
Hypothesis r_chunked : chunked_head r.
Hypothesis o_ok : wf_ows o = true.
Hypothesis chs_ok : Forall chunk_ok chs.
Hypothesis last_ok : size_line_ok last 0.
Hypothesis tail_eof : read_head fixed tail = HeadEof.
Let input := render_pipe pre ++ render_req_head r o ++ enc chs last (render_pipe post ++ tail).

Lemma chunked_first_round :
  ahead fixed (mkS input eof)
  = (targets pre ++ [rq_target r],
     AHolds (BChunked None false) (mkS (enc chs last (render_pipe post ++ tail)) eof) (last_request (rq_version r) (hdrs r))).
Proof. unfold input. now apply holds_chunked. Qed.

Lemma chunked_first_round_alive : keeps_alive r ->
  ahead fixed (mkS input eof)
  = (targets pre ++ [rq_target r], AHolds (BChunked None false) (mkS (enc chs last (render_pipe post ++ tail)) eof) false).
Proof. intros K. rewrite chunked_first_round. unfold keeps_alive in K. now rewrite K. Qed.

Theorem released_by_going_away_chunked : keeps_alive r ->
  ahead_two fixed RlGoesAway (mkS input eof) = (targets pre ++ [rq_target r], targets post).
Proof.
  intros K. rewrite (ahead_two_goes_away _ _ _ _ _ (chunked_first_round_alive K)).
  rewrite (drop_chunked chs last _ eof chs_ok last_ok).
  now rewrite (small_pipeline_all post tail eof post_small tail_eof).
Qed.

Theorem released_by_reading_to_end_chunked : keeps_alive r -> (len (payload chs) < ALL)%N ->
  ahead_two fixed RlReadAll (mkS input eof) = (targets pre ++ [rq_target r], targets post).
Proof.
  intros K Hall.
  destruct (read_all_chunked chs last (render_pipe post ++ tail) eof chs_ok last_ok Hall) as (acc' & r' & T & Hr & _).
  rewrite (ahead_two_read_eof _ _ _ _ _ RlReadAll ALL 4096%nat _ _ _ _ (chunked_first_round_alive K)
             (or_introl (conj eq_refl (conj eq_refl eq_refl))) T Hr).
  now rewrite (small_pipeline_all post tail eof post_small tail_eof).
Qed.

Theorem not_released_by_partial_read_chunked m : (m <= len (payload chs))%N ->
  ahead_two fixed (RlReadPart m) (mkS input eof) = (targets pre ++ [rq_target r], []).
Proof.
  intros Hm.
  destruct (read_part_chunked chs last (render_pipe post ++ tail) eof chs_ok last_ok m Hm) as (acc' & r' & st' & T & _).
  exact (ahead_two_read_count _ _ _ _ _ _ _ _ _ _ _ chunked_first_round T).
Qed.
End ChunkedBody.

(* the converse of the release theorems: a holder that ends the connection (streamed body of
   either kind, or the raw connection of an upgrade) releases nothing, whatever follows its head,
   whatever the application does *)
Theorem nothing_after_final_chunked pre r o rest eof a :
  Forall small_elem pre -> chunked_head r -> wf_ows o = true -> final r ->
  ahead_two fixed a (mkS (render_pipe pre ++ render_req_head r o ++ rest) eof) = (targets pre ++ [rq_target r], []).
Proof.
  intros Hp Hr Ho Fi. apply (ahead_two_final _ _ _ _ (BChunked None false) (mkS rest eof)).
  rewrite (holds_chunked pre r o rest eof Hp Hr Ho). unfold final in Fi. now rewrite Fi.
Qed.

Theorem nothing_after_final_limited pre r o n rest eof a :
  Forall small_elem pre -> limited_head r n -> wf_ows o = true -> final r ->
  ahead_two fixed a (mkS (render_pipe pre ++ render_req_head r o ++ rest) eof) = (targets pre ++ [rq_target r], []).
Proof.
  intros Hp Hr Ho Fi. apply (ahead_two_final _ _ _ _ (BLimited n) (mkS rest eof)).
  rewrite (holds_limited pre r o n rest eof Hp Hr Ho). unfold final in Fi. now rewrite Fi.
Qed.

Theorem nothing_after_upgrade pre r o rest eof a :
  Forall small_elem pre -> upgrade_head r -> wf_ows o = true ->
  ahead_two fixed a (mkS (render_pipe pre ++ render_req_head r o ++ rest) eof) = (targets pre ++ [rq_target r], []).
Proof.
  intros Hp Hr Ho. apply (ahead_two_final _ _ _ _ BUpgrade (mkS rest eof)).
  exact (holds_upgrade pre r o rest eof Hp Hr Ho).
Qed.
