(* Http/ReaderOp.v — the OPERATIONAL readers: the socket as a queue of client segments, the one
   std::io::BufReader (capacity 1024, src/client.rs:58) that travels from request to request
   (src/util/sequential.rs), and the consumers built on its reads:
     - the byte-wise CRLF line reader of ClientConnection::read_next_line (client.rs:80-102),
     - the head reader of ClientConnection::read (client.rs:106-137),
     - the small-body loop of request::new_request (request.rs, "while offset != content_length"),
     - EqualReader::read (util/equal_reader.rs) and the application's read-until loop over it,
     - the byte-wise part of chunked_transfer::Decoder (read_chunk_size, CR, LF).
   Http/Request.v, Body.v and Serve.v are written over the LOGICAL stream with full reads;
   Http/ReaderOpFacts.v proves that every consumer here is a function of `contents` only.

   Pauses: the crate never calls set_read_timeout (nor set_nonblocking) on the socket, so a read
   simply waits until the next segment or the end of the stream arrives; the
   `ErrorKind::TimedOut => 408` arm of ClientConnection::next (client.rs:209-217) is unreachable.
   A pause therefore has no representation in this model: "no segment pending and the client
   has not closed" is the result OBlock (= the thread is waiting), and what happens when the
   next segment arrives is what `br_feed` followed by the resumed consumer computes.
   MODEL file: definitions only. *)
From TH Require Import Base.Bytes Http.Response Http.Request Http.Body.
Open Scope char_scope.

(* BufReader::with_capacity(1024, read_socket) *)
Definition CAP : nat := 1024.

(* what the client has sent and the server has not yet taken from the socket, one element per
   segment (each non-empty: wf_src), and whether the client has closed its sending side after them *)
Record source := mkSrc { pending : list bytes; eof : bool }.
Record bufreader := mkBR { buf : bytes; src : source }.

Definition wf_src (x : source) : Prop := Forall (fun g => g <> []) (pending x).
Definition wf (br : bufreader) : Prop := wf_src (src br).

(* the logical stream: what is still to be consumed, in order *)
Definition contents (br : bufreader) : bytes := buf br ++ List.concat (pending (src br)).
Definition br_eof (br : bufreader) : bool := eof (src br).

(* the next segment(s) arrive while the server is waiting or busy *)
Definition br_feed (segs : list bytes) (br : bufreader) : bufreader :=
  mkBR (buf br) (mkSrc (pending (src br) ++ segs) (eof (src br))).
(* the client closes its sending side *)
Definition br_close (br : bufreader) : bufreader := mkBR (buf br) (mkSrc (pending (src br)) true).

(* a connection on which `segs` (empty ones dropped) are waiting and nothing is buffered *)
Definition nonempty (g : bytes) : bool := match g with [] => false | _ => true end.
Definition br_init (segs : list bytes) (e : bool) : bufreader :=
  mkBR [] (mkSrc (filter nonempty segs) e).

Inductive ord :=
| OData (d : bytes)        (* Ok(n), n > 0 *)
| OEof                     (* Ok(0) *)
| OBlock.                  (* nothing pending, not closed: the read waits *)

(* TcpStream::read with a buffer of n > 0 bytes: a non-empty prefix of the FIRST pending segment
   (all of it if it fits); the rest of that segment stays first *)
Definition sock_read (n : nat) (x : source) : ord * source :=
  match pending x with
  | [] => (if eof x then OEof else OBlock, x)
  | g :: rest =>
      (OData (firstn n g),
       mkSrc (match skipn n g with [] => rest | r => r :: rest end) (eof x))
  end.

(* `rem.read(buf); consume(nread)`: copy min(n, buffered) bytes out of the internal buffer *)
Definition hand_out (n : nat) (b : bytes) (x : source) : ord * bufreader :=
  match firstn n b with
  | [] => (OEof, mkBR b x)
  | d => (OData d, mkBR (skipn n b) x)
  end.

(* <BufReader as Read>::read with a caller buffer of n bytes:
     if nothing is buffered and n >= capacity: bypass, read straight into the caller's buffer;
     otherwise fill_buf (ONE inner read of up to `capacity` bytes, only if nothing is buffered)
     and hand out what fits *)
Definition br_read (n : nat) (br : bufreader) : ord * bufreader :=
  match buf br with
  | [] =>
      if Nat.leb CAP n then
        match sock_read n (src br) with
        | (x, s') => (x, mkBR [] s')
        end
      else
        match sock_read CAP (src br) with
        | (OData a, s') => hand_out n a s'
        | (x, s') => (x, mkBR [] s')
        end
  | b => hand_out n b (src br)
  end.

(* Read::bytes().next(): a read into a 1-byte buffer *)
Definition br_byte (br : bufreader) : bres * bufreader :=
  match br_read 1 br with
  | (OData (b :: _), br') => (BByte b, br')
  | (OData [], br') => (BEof, br')          (* never: OData is non-empty *)
  | (OEof, br') => (BEof, br')
  | (OBlock, br') => (BBlock, br')
  end.

(* default fuel of every loop below: each iteration that does not end the loop consumes at
   least one byte (the segment count is added for good measure; ReaderOpFacts shows that
   any fuel above length (contents br) gives the same result) *)
Definition br_fuel (br : bufreader) : nat :=
  S (List.length (contents br) + List.length (pending (src br))).

(* ---- ClientConnection::read_next_line (client.rs:80-102) ---- *)
Inductive lres :=
| LLine (l : bytes)
| LEof                                   (* ConnectionAborted "Unexpected EOF" *)
| LBlock (acc : bytes) (prev_cr : bool)  (* waiting inside `bytes().next()` with these locals *)
| LFuel.                                 (* never with br_fuel *)

Fixpoint read_line_op_aux (fuel : nat) (acc : bytes) (prev_cr : bool) (br : bufreader)
  : lres * bufreader :=
  match fuel with
  | O => (LFuel, br)
  | S f =>
      match br_byte br with
      | (BByte b, br') =>
          if Ascii.eqb b LF && prev_cr then (LLine (frev (tl acc)), br')
          else read_line_op_aux f (b :: acc) (Ascii.eqb b CR) br'
      | (BEof, br') => (LEof, br')
      | (BBlock, br') => (LBlock acc prev_cr, br')
      end
  end.
Definition read_line_op (br : bufreader) : lres * bufreader :=
  read_line_op_aux (br_fuel br) [] false br.

(* ---- ClientConnection::read up to the construction of the request (client.rs:106-137) ---- *)
Inductive head_op :=
| HOpOk (m url : bytes) (ver : version) (hs : list header)
| HOpEof | HOpBlock | HOpNonAscii | HOpBadLine | HOpBadHeader (ver : version)
| HOpFuel.

Fixpoint read_headers_op (c : cfg) (fuel : nat) (m url : bytes) (ver : version)
                         (acc : list header) (br : bufreader) : head_op * bufreader :=
  match fuel with
  | O => (HOpFuel, br)
  | S f =>
      match read_line_op br with
      | (LLine l, br') =>
          if negb (all_ascii l) then (HOpNonAscii, br') else
          match l with
          | [] => (HOpOk m url ver (frev acc), br')
          | _ => match parse_header (if fix_d8 c then trim_end l else trim l) with
                 | Some h => read_headers_op c f m url ver (h :: acc) br'
                 | None => (HOpBadHeader ver, br')
                 end
          end
      | (LEof, br') => (HOpEof, br')
      | (LBlock _ _, br') => (HOpBlock, br')
      | (LFuel, br') => (HOpFuel, br')
      end
  end.

Definition read_head_op (c : cfg) (br : bufreader) : head_op * bufreader :=
  match read_line_op br with
  | (LLine l, br') =>
      if negb (all_ascii l) then (HOpNonAscii, br') else
      match parse_request_line (trim l) with
      | None => (HOpBadLine, br')
      | Some (m, url, ver) => read_headers_op c (br_fuel br') m url ver [] br'
      end
  | (LEof, br') => (HOpEof, br')
  | (LBlock _ _, br') => (HOpBlock, br')
  | (LFuel, br') => (HOpFuel, br')
  end.

(* ---- the small-body loop of new_request: fill a buffer of content_length bytes ---- *)
Inductive sbres :=
| SBFull (d : bytes)       (* offset == content_length *)
| SBEof (got : bytes)      (* read == 0: ConnectionAborted *)
| SBBlock (got : bytes)    (* waiting in read with `got` already in the buffer *)
| SBFuel.

Fixpoint read_small_body_aux (fuel need : nat) (acc : bytes) (br : bufreader) : sbres * bufreader :=
  match need with
  | O => (SBFull acc, br)
  | _ =>
      match fuel with
      | O => (SBFuel, br)
      | S f =>
          match br_read need br with               (* source_data.read(&mut buffer[offset..]) *)
          | (OData a, br') => read_small_body_aux f (need - List.length a) (acc ++ a) br'
          | (OEof, br') => (SBEof acc, br')
          | (OBlock, br') => (SBBlock acc, br')
          end
      end
  end.
Definition read_small_body_op (n : nat) (br : bufreader) : sbres * bufreader :=
  read_small_body_aux (br_fuel br) n [] br.

(* ---- EqualReader::read with a caller buffer of n bytes; rem = self.size ---- *)
Definition limited_read_op (n : nat) (rem : N) (br : bufreader) : ord * N * bufreader :=
  if (rem =? 0)%N then (OEof, rem, br) else
  match br_read (N.to_nat (N.min (N.of_nat n) rem)) br with
  | (OData d, br') => (OData d, (rem - len d)%N, br')
  | (x, br') => (x, rem, br')
  end.

(* the application's loop "obtain up to m bytes" over the limited reader (cf. Body.take). The
   size of the buffer offered at each read is ANY function `sz` of the pieces obtained so far
   (latest first): fixed size, a list of sizes, or adaptive. None = out of fuel. *)
Fixpoint limited_take_op (fuel : nat) (sz : list bytes -> nat) (m rem : N) (br : bufreader)
                         (acc : list bytes) : option (list bytes * read_end * N * bufreader) :=
  if (m =? 0)%N then Some (acc, EndCount, rem, br) else
  match fuel with
  | O => None
  | S f =>
      let want := N.to_nat (N.min m (N.of_nat (sz acc))) in
      match limited_read_op want rem br with
      | (OData d, rem', br') => limited_take_op f sz (m - len d)%N rem' br' (d :: acc)
      | (OEof, rem', br') => Some (acc, EndEof, rem', br')
      | (OBlock, rem', br') => Some (acc, EndBlock, rem', br')
      end
  end.
Definition limited_take (sz : list bytes -> nat) (m rem : N) (br : bufreader) :=
  limited_take_op (br_fuel br) sz m rem br [].

(* EqualReader::drop (equal_reader.rs:62-88) with the 8192-byte cap of repair D6 *)
Fixpoint limited_discard_op (c : cfg) (fuel : nat) (rem : N) (br : bufreader) : option bufreader :=
  if (rem =? 0)%N then Some br else
  match fuel with
  | O => None
  | S f =>
      let bufsz := if fix_d6 c then N.min rem 8192 else rem in
      match br_read (N.to_nat bufsz) br with
      | (OData d, br') => limited_discard_op c f (rem - len d)%N br'
      | (_, br') => Some br'
      end
  end.

(* ---- the byte-wise part of chunked_transfer::Decoder ---- *)
Definition expect_byte_op (c : ascii) (br : bufreader) : dres unit * bufreader :=
  match br_byte br with
  | (BByte b, br') => if Ascii.eqb b c then (DOk tt, br') else (DErr, br')
  | (BEof, br') => (DErr, br')
  | (BBlock, br') => (DBlock, br')
  end.

Fixpoint size_bytes_op (fuel : nat) (in_ext : bool) (acc : bytes) (br : bufreader)
  : dres bytes * bufreader :=
  match fuel with
  | O => (DBlock, br)
  | S f =>
      match br_byte br with
      | (BByte b, br') =>
          if Ascii.eqb b CR then (DOk (frev acc), br')
          else if in_ext then size_bytes_op f true acc br'
          else if Ascii.eqb b ";" then size_bytes_op f true acc br'
          else size_bytes_op f false (b :: acc) br'
      | (BEof, br') => (DErr, br')
      | (BBlock, br') => (DBlock, br')
      end
  end.

Definition read_chunk_size_op (br : bufreader) : dres N * bufreader :=
  match size_bytes_op (br_fuel br) false [] br with
  | (DOk x, br1) =>
      match expect_byte_op LF br1 with
      | (DOk _, br2) => match parse_chunk_size x with
                        | Some n => (DOk n, br2)
                        | None => (DErr, br2)
                        end
      | (DErr, br2) => (DErr, br2)
      | (DBlock, br2) => (DBlock, br2)
      end
  | (DErr, br1) => (DErr, br1)
  | (DBlock, br1) => (DBlock, br1)
  end.

Definition read_crlf_op (br : bufreader) : dres unit * bufreader :=
  match expect_byte_op CR br with
  | (DOk _, br1) => expect_byte_op LF br1
  | r => r
  end.

(* Decoder::read with a caller buffer of n bytes (cf. Body.dec_read); the payload reads go to the
   BufReader and may be short *)
Definition dec_read_op (n : nat) (rem : option N) (br : bufreader) : rres * option N * bufreader :=
  let go (r : N) (br0 : bufreader) : rres * option N * bufreader :=
    if (N.of_nat n <? r)%N then
      match br_read n br0 with
      | (OData d, br1) => (RData d, Some (r - len d)%N, br1)
      | (OEof, br1) => (REof, Some r, br1)
      | (OBlock, br1) => (RBlock, Some r, br1)
      end
    else
      match br_read (N.to_nat r) br0 with
      | (OData d, br1) =>
          if (len d =? r)%N then
            match read_crlf_op br1 with
            | (DOk _, br2) => (RData d, None, br2)
            | (DErr, br2) => (RErr, rem, br2)        (* the field is only assigned on success *)
            | (DBlock, br2) => (RBlock, rem, br2)
            end
          else (RData d, Some (r - len d)%N, br1)
      | (OEof, br1) => (REof, Some r, br1)
      | (OBlock, br1) => (RBlock, Some r, br1)
      end in
  match rem with
  | Some r => go r br
  | None =>
      match read_chunk_size_op br with
      | (DOk sz, br1) =>
          if (sz =? 0)%N then
            match read_crlf_op br1 with
            | (DOk _, br2) => (REof, None, br2)
            | (DErr, br2) => (RErr, None, br2)
            | (DBlock, br2) => (RBlock, None, br2)
            end
          else go sz br1
      | (DErr, br1) => (RErr, None, br1)
      | (DBlock, br1) => (RBlock, None, br1)
      end
  end.

(* the application's loop "obtain up to m bytes" over the decoder, buffer sizes by policy sz *)
Fixpoint dec_take_op (fuel : nat) (sz : list bytes -> nat) (m : N) (rem : option N) (br : bufreader)
                     (acc : list bytes) : option (list bytes * read_end * option N * bufreader) :=
  if (m =? 0)%N then Some (acc, EndCount, rem, br) else
  match fuel with
  | O => None
  | S f =>
      let want := N.to_nat (N.min m (N.of_nat (sz acc))) in
      match dec_read_op want rem br with
      | (RData d, rem', br') => dec_take_op f sz (m - len d)%N rem' br' (d :: acc)
      | (REof, rem', br') => Some (acc, EndEof, rem', br')
      | (RErr, rem', br') => Some (acc, EndErr, rem', br')
      | (RBlock, rem', br') => Some (acc, EndBlock, rem', br')
      end
  end.
Definition dec_take (sz : list bytes -> nat) (m : N) (rem : option N) (br : bufreader) :=
  dec_take_op (br_fuel br) sz m rem br [].

(* ---- one request whose body is absent or pre-read, as delivered to the application: head,
   framing, body (io::empty() / Cursor over the small-body buffer) ---- *)
Inductive req_op :=
| RqOk (m url : bytes) (ver : version) (hs : list header) (body : bytes)
| RqHead (h : head_op)          (* the head did not complete: h is not HOpOk *)
| RqBody (b : sbres)            (* the body did not complete: b is not SBFull *)
| RqOther                       (* framing error, or a body that is not pre-read (limited, chunked, upgrade) *)
| RqFuel.                       (* never *)

Definition read_small_request_op (c : cfg) (br : bufreader) : req_op * bufreader :=
  match read_head_op c br with
  | (HOpOk m url ver hs, br1) =>
      match framing c hs with
      | FrOk KEmpty _ _ => (RqOk m url ver hs [], br1)
      | FrOk (KBuffered n) _ _ =>
          match read_small_body_op (N.to_nat n) br1 with
          | (SBFull d, br2) => (RqOk m url ver hs d, br2)
          | (x, br2) => (RqBody x, br2)
          end
      | _ => (RqOther, br1)
      end
  | (h, br1) => (RqHead h, br1)
  end.

(* the sequence of requests of a connection, as long as they are of that kind and the connection
   is kept alive (ClientConnection::next): everything delivered, then why the sequence ended
   (the last element is not RqOk, or is the RqOk of a request that closes the connection) *)
Fixpoint read_requests_op (c : cfg) (fuel : nat) (br : bufreader) : list req_op * bufreader :=
  match fuel with
  | O => ([RqFuel], br)
  | S f =>
      match read_small_request_op c br with
      | (RqOk m url ver hs d, br1) =>
          if last_request ver hs then ([RqOk m url ver hs d], br1)
          else let '(l, br2) := read_requests_op c f br1 in (RqOk m url ver hs d :: l, br2)
      | (x, br1) => ([x], br1)
      end
  end.
Definition read_requests (c : cfg) (br : bufreader) : list req_op * bufreader :=
  read_requests_op c (br_fuel br) br.
