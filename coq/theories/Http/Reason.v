(* Http/Reason.v — StatusCode::default_reason_phrase (common.rs:13-81), generated once from the
   match arms; the correspondence run of C04 compares every status line, so a drift shows up there. *)
From TH Require Import Base.Bytes.
Local Open Scope string_scope.
Definition reason_table : list (N * string) := [
  (100, "Continue");
  (101, "Switching Protocols");
  (102, "Processing");
  (103, "Early Hints");
  (200, "OK");
  (201, "Created");
  (202, "Accepted");
  (203, "Non-Authoritative Information");
  (204, "No Content");
  (205, "Reset Content");
  (206, "Partial Content");
  (207, "Multi-Status");
  (208, "Already Reported");
  (226, "IM Used");
  (300, "Multiple Choices");
  (301, "Moved Permanently");
  (302, "Found");
  (303, "See Other");
  (304, "Not Modified");
  (305, "Use Proxy");
  (307, "Temporary Redirect");
  (308, "Permanent Redirect");
  (400, "Bad Request");
  (401, "Unauthorized");
  (402, "Payment Required");
  (403, "Forbidden");
  (404, "Not Found");
  (405, "Method Not Allowed");
  (406, "Not Acceptable");
  (407, "Proxy Authentication Required");
  (408, "Request Timeout");
  (409, "Conflict");
  (410, "Gone");
  (411, "Length Required");
  (412, "Precondition Failed");
  (413, "Payload Too Large");
  (414, "URI Too Long");
  (415, "Unsupported Media Type");
  (416, "Range Not Satisfiable");
  (417, "Expectation Failed");
  (421, "Misdirected Request");
  (422, "Unprocessable Entity");
  (423, "Locked");
  (424, "Failed Dependency");
  (426, "Upgrade Required");
  (428, "Precondition Required");
  (429, "Too Many Requests");
  (431, "Request Header Fields Too Large");
  (451, "Unavailable For Legal Reasons");
  (500, "Internal Server Error");
  (501, "Not Implemented");
  (502, "Bad Gateway");
  (503, "Service Unavailable");
  (504, "Gateway Timeout");
  (505, "HTTP Version Not Supported");
  (506, "Variant Also Negotiates");
  (507, "Insufficient Storage");
  (508, "Loop Detected");
  (510, "Not Extended");
  (511, "Network Authentication Required")
]%N.
Fixpoint lookup_reason (t : list (N * string)) (c : N) : string :=
  match t with
  | [] => "Unknown"
  | (k, p) :: r => if (k =? c)%N then p else lookup_reason r c
  end.
Definition reason_phrase (c : N) : bytes := s (lookup_reason reason_table c).
