(* Http/Oracles.v — executable oracles: each evaluates a property's conclusion on bytes that the
   real implementation produced. They are compositions of the specification-side definitions
   (ClientSpec, ref_choice, ...) and are what the check uses to search the implementation for a
   concrete failing input. MODEL-side file: definitions only. *)
From TH Require Import Base.Bytes Http.Response Http.ClientSpec Http.C05Spec.
From Coq Require Import ZArith.

Inductive verdict := VOk | VSkip | VFail (why : bytes).

Fixpoint beq_list (a b : list bytes) : bool :=
  match a, b with
  | [], [] => true
  | x :: a', y :: b' => beq x y && beq_list a' b'
  | _, _ => false
  end.

(* C05: the framing headers (and the body coding) of the output are those the reference decision
   function dictates. `out` is what the implementation wrote. *)
Definition oracle_c05 (r : response) (ver : version) (rh : list header) (head : bool)
                      (up : option bytes) (out : bytes) : verdict :=
  match te_entries rh with
  | None => VSkip
  | Some entries =>
      match parse_response head out with
      | None => VFail (s "output is not a well-formed complete response")
      | Some p =>
          let cls := values_of "Content-Length" (p_headers p) in
          let tes := values_of "Transfer-Encoding" (p_headers p) in
          match up with
          | Some _ => if beq_list cls [] && beq_list tes [] then VOk
                      else VFail (s "upgrade response carries a framing header")
          | None =>
              match ref_choice (status r) entries ver (data_length r) (chunked_threshold r) with
              | Identity =>
                  let l := match data_length r with Some l => l | None => len (rbody r) end in
                  if beq_list cls [print_dec l] && beq_list tes [] then VOk
                  else VFail (s "identity expected: exactly one Content-Length = body length, no Transfer-Encoding")
              | Chunked =>
                  if beq_list cls [] && beq_list (map lower tes) [s "chunked"] then VOk
                  else VFail (s "chunked expected: Transfer-Encoding: chunked and no Content-Length")
              end
          end
      end
  end.

(* C19: the header block of the output is the policy block (upgrade pair, Server and Date unless
   supplied, the kept application headers in order) followed only by framing headers; the
   data_length getter reports what the constructors / Content-Length headers / with_data declared. *)
From TH Require Import Http.C19Spec.

Fixpoint beq_headers (a b : list header) : bool :=
  match a, b with
  | [], [] => true
  | x :: a', y :: b' => beq (hname x) (hname y) && beq (hvalue x) (hvalue y) && beq_headers a' b'
  | _, _ => false
  end.

Definition is_framing (h : header) : bool := equiv "Content-Length" h || equiv "Transfer-Encoding" h.

(* the declared length after the constructor and the builder calls, per the property text *)
Definition declared_step (d : option N) (o : rop) : option N :=
  match o with
  | WithHeader h =>
      if equiv "Content-Length" h then
        match parse_usize (hvalue h) with Some v => Some v | None => d end
      else d
  | WithData _ l => l
  | _ => d
  end.
Definition declared_length (init : option N) (ctor_headers : list header) (ops : list rop) : option N :=
  fold_left declared_step (map WithHeader ctor_headers ++ ops) init.

Definition beq_optN (a b : option N) : bool :=
  match a, b with
  | None, None => true
  | Some x, Some y => (x =? y)%N
  | _, _ => false
  end.

Definition oracle_c19 (date : bytes) (init : option N) (ctor_headers : list header) (ops : list rop)
                      (head : bool) (up : option bytes) (out : bytes) (getter_dl : option N) : verdict :=
  match parse_response head out with
  | None => VFail (s "output is not a well-formed complete response")
  | Some p =>
      let want := map (fun h => mkH (hname h) (trim_ows (hvalue h)))
                      (policy_headers date (supplied_of ctor_headers ops) up) in
      let n := List.length want in
      (* the VALUE of the automatic Server header is not constrained by the property: when the
         application supplied none, whatever value the implementation sends is accepted *)
      let supplied_server := existsb is_server (keep (supplied_of ctor_headers ops)) in
      let got := if supplied_server then p_headers p
                 else map (fun h => if is_server h then mkH (hname h) (s "tiny-http (Rust)") else h) (p_headers p) in
      (* the policy block, then nothing but (at most) the one framing header raw_print appends *)
      let extra_ok := match skipn n got with
                      | [] => true
                      | [h] => is_framing h
                      | _ => false
                      end in
      if negb (beq_headers (firstn n got) want && extra_ok)
      then VFail (s "header block differs from the policy")
      else if negb (beq_optN getter_dl (declared_length init ctor_headers ops))
      then VFail (s "declared length differs from what the constructors and Content-Length headers declare")
      else VOk
  end.

(* C04: the output is exactly one well-formed message: it parses completely (nothing left over),
   the client knows its end without waiting for the connection to close, the status is the given
   one and the recovered body is the application's body (empty for HEAD, 1xx, 204, 304). *)
Definition oracle_c04 (r : response) (head : bool) (out : bytes) : verdict :=
  if negb ((100 <=? status r) && (status r <=? 999))%N then VSkip else
  match parse_response head out with
  | None => VFail (s "output is not a well-formed complete response")
  | Some p =>
      if negb (p_status p =? status r)%N then VFail (s "status code differs")
      else if negb (beq (p_rest p) []) then VFail (s "bytes left over after the end of the message")
      else match p_delim p with
           | UntilClose => VFail (s "message end is only signalled by connection close")
           | NoBody =>
               if head || bodyless_status (status r) then VOk
               else VFail (s "body missing")
           | _ =>
               if head || bodyless_status (status r) then VFail (s "body bytes sent where none are allowed")
               else if beq (p_body p) (rbody r) then VOk
               else VFail (s "recovered body differs from the application's body")
           end
  end.
