(* Http/Oracles.v — executable oracles: each evaluates a property's conclusion on bytes that the
   real implementation produced. They are compositions of the specification-side definitions
   (ClientSpec, ref_choice, ...) and are what the check uses to search the implementation for a
   concrete failing input. MODEL-side file: definitions only. *)
From TH Require Import Base.Bytes Http.Response Http.ClientSpec Http.C05Spec.
From Coq Require Import ZArith.

Inductive verdict := VOk | VSkip | VFail (why : bytes).

Fixpoint beq_list (a b : list bytes) : bool :=
  match a, b with
  | [], [] => true
  | x :: a', y :: b' => beq x y && beq_list a' b'
  | _, _ => false
  end.

(* C05: the framing headers (and the body coding) of the output are those the reference decision
   function dictates. `out` is what the implementation wrote. *)
Definition oracle_c05 (r : response) (ver : version) (rh : list header) (head : bool)
                      (up : option bytes) (out : bytes) : verdict :=
  match te_entries rh with
  | None => VSkip
  | Some entries =>
      match parse_response head out with
      | None => VFail (s "output is not a well-formed complete response")
      | Some p =>
          let cls := values_of "Content-Length" (p_headers p) in
          let tes := values_of "Transfer-Encoding" (p_headers p) in
          match up with
          | Some _ => if beq_list cls [] && beq_list tes [] then VOk
                      else VFail (s "upgrade response carries a framing header")
          | None =>
              match ref_choice (status r) entries ver (data_length r) (chunked_threshold r) with
              | Identity =>
                  let l := match data_length r with Some l => l | None => len (rbody r) end in
                  if beq_list cls [print_dec l] && beq_list tes [] then VOk
                  else VFail (s "identity expected: exactly one Content-Length = body length, no Transfer-Encoding")
              | Chunked =>
                  if beq_list cls [] && beq_list (map lower tes) [s "chunked"] then VOk
                  else VFail (s "chunked expected: Transfer-Encoding: chunked and no Content-Length")
              end
          end
      end
  end.
