(* Http/C03Facts.v — the body-side statements of C03 and C09 in their final form, one group per
   reader, obtained from the generic argument (BodyFacts.v), its instances (BodyFacts.v,
   ChunkedReader.v) and the stream facts (StreamFacts.v). *)
From TH Require Import Base.Bytes Base.BytesFacts Http.Response Http.Request Http.Body Http.Serve.
From TH Require Import Http.BodyFacts Http.ChunkedFacts Http.ChunkedReader Http.StreamFacts.
From Coq Require Import Lia ZArith ZifyN ZifyBool ZifyNat.

(* the read loops of a handler: every buffer size positive; the total number of bytes asked for *)
Definition bufs_pos (rs : list (N * nat)) : Prop := Forall (fun mn => (0 < snd mn)%nat) rs.
Definition sum_m (rs : list (N * nat)) : N := fold_right (fun mn a => (fst mn + a)%N) 0%N rs.

(* ================= generic packaging ================= *)
Section Pack.
Variable tail : bytes.
Variable Inv : bytes -> breader -> stream -> Prop.
Hypothesis step : step_spec tail Inv.
Hypothesis drop : drop_spec tail Inv.

Lemma pack_reads ns body r x e al ps en r' st' al' : all_pos ns -> Inv body r (mkS x e) ->
  reads fixed ns r (mkS x e) al = (ps, en, r', st', al') ->
  exists rest, body = List.concat ps ++ rest /\ Inv rest r' st' /\ seof st' = e /\ al' = al /\ pieces_fit ns ps /\
    (en = None \/ en = Some REof) /\
    (en = None -> List.length ps = List.length ns) /\
    (en = Some REof -> rest = [] /\ List.concat ps = body /\ st' = mkS tail e /\ stable r' st') /\
    ((List.length body < List.length ns)%nat -> en = Some REof) /\
    fst (body_drop fixed r' st' al') = mkS tail e.
Proof.
  intros Hpos HI E. pose proof (reads_adv _ _ _ _ _ _ _ _ _ _ E) as Hadv.
  destruct (reads_prefix tail Inv step _ _ _ _ _ _ _ _ _ _ Hpos HI E) as (rest & Hb & HI' & Hf & Hal & He & Hn & Heof).
  exists rest. repeat split; auto.
  - apply Hadv.
  - now apply Heof.
  - now apply Heof.
  - eapply advanced_eq; [exact Hadv|]. now apply Heof.
  - now apply Heof.
  - intros Hlen. destruct (reads_reach_eof tail Inv step ns body r (mkS x e) al Hpos HI Hlen) as (ps0 & r0 & st0 & E0 & _).
    rewrite E in E0. now inversion E0.
  - eapply advanced_eq.
    + eapply adv_trans; [exact Hadv|apply body_drop_adv].
    + eapply drop. exact HI'.
Qed.

Lemma pack_take fuel m n body r x e al acc : (0 < n)%nat -> Inv body r (mkS x e) ->
  (List.length body < fuel)%nat ->
  exists acc' en got rest r' st',
    take fixed fuel m n r (mkS x e) al acc = (acc', en, r', st', al) /\
    pieces_bytes acc' = pieces_bytes acc ++ got /\ body = got ++ rest /\ Inv rest r' st' /\ seof st' = e /\
    (((len body < m)%N /\ en = EndEof /\ rest = [] /\ st' = mkS tail e /\ stable r' st') \/
     ((m <= len body)%N /\ en = EndCount /\ len got = m)) /\
    fst (body_drop fixed r' st' al) = mkS tail e.
Proof.
  intros Hn HI Hf.
  destruct (take_spec tail Inv step fuel m n body r (mkS x e) al acc Hn HI Hf) as (acc' & en & got & rest & r' & st' & E & Hp & Hb & HI' & He).
  pose proof (take_adv _ _ _ _ _ _ _ _ _ _ _ _ _ E) as Hadv.
  exists acc', en, got, rest, r', st'. repeat split; auto.
  - apply Hadv.
  - destruct He as [(H1 & H2 & H3 & H4 & H5)|He]; [left|right; exact He]. repeat split; auto.
    eapply advanced_eq; eauto.
  - eapply advanced_eq.
    + eapply adv_trans; [exact Hadv|apply body_drop_adv].
    + eapply drop. exact HI'.
Qed.

(* all read loops of a handler (Serve.do_reads, with the fuel it computes itself) *)
Hypothesis fuel_ok : forall rest r st, Inv rest r st ->
  (List.length rest < S (List.length (sbytes st) + match r with BBuffered d => List.length d | _ => 0 end))%nat.

Lemma pack_do_reads : forall rs body r x e al acc, bufs_pos rs -> Inv body r (mkS x e) ->
  exists acc' en got rest r' st',
    do_reads fixed rs r (mkS x e) al acc EndCount = (acc', en, r', st', al) /\
    pieces_bytes acc' = pieces_bytes acc ++ got /\ body = got ++ rest /\ Inv rest r' st' /\ seof st' = e /\
    ((en = EndCount /\ len got = sum_m rs) \/
     (en = EndEof /\ rest = [] /\ (len body < sum_m rs)%N /\ st' = mkS tail e /\ stable r' st')) /\
    fst (body_drop fixed r' st' al) = mkS tail e.
Proof.
  induction rs as [|[m n] rs IH]; intros body r x e al acc Hpos HI.
  - cbn [do_reads]. exists acc, EndCount, [], body, r, (mkS x e). rewrite app_nil_r. repeat split; auto.
    eapply advanced_eq; [apply body_drop_adv|]. eapply drop. exact HI.
  - inversion Hpos as [|? ? Hn Hpos']; subst. cbn [snd] in Hn. cbn [do_reads].
    destruct (pack_take _ m n body r x e al acc Hn HI (fuel_ok _ _ _ HI))
      as (acc1 & en1 & got1 & rest1 & r1 & st1 & E & Hp & Hb & HI1 & He & Hend & Hd).
    rewrite E. destruct Hend as [(H1 & -> & H3 & H4 & H5)|(H1 & -> & H3)].
    + exists acc1, EndEof, got1, rest1, r1, st1. repeat split; auto. right. repeat split; auto.
      unfold sum_m. cbn [fold_right fst]. fold (sum_m rs). lia.
    + destruct st1 as [x1 e1]. cbn [seof] in He. subst e1.
      destruct (IH rest1 r1 x1 e al acc1 Hpos' HI1) as (acc2 & en2 & got2 & rest2 & r2 & st2 & E2 & Hp2 & Hb2 & HI2 & He2 & Hend2 & Hd2).
      rewrite E2. exists acc2, en2, (got1 ++ got2), rest2, r2, st2. repeat split; auto.
      * now rewrite Hp2, Hp, app_assoc.
      * now rewrite <- app_assoc, <- Hb2.
      * unfold sum_m. cbn [fold_right fst]. fold (sum_m rs). subst body. rewrite !len_app in *.
        destruct Hend2 as [[-> Hl]|(-> & Hr & Hl & Hs)]; [left; split; [reflexivity|lia]|right; repeat split; auto; try apply Hs; lia].
Qed.
End Pack.

(* ================= 1. the length-limited reader ================= *)
Theorem limited_reads body tail e ns al ps en r' st' al' : all_pos ns ->
  reads fixed ns (BLimited (len body)) (mkS (body ++ tail) e) al = (ps, en, r', st', al') ->
  exists rest,
    body = List.concat ps ++ rest /\ st' = mkS (rest ++ tail) e /\ al' = al /\ pieces_fit ns ps /\
    (r' = BLimited (len rest) \/ (rest = [] /\ r' = BEmpty)) /\
    (en = None \/ en = Some REof) /\
    (en = None -> List.length ps = List.length ns) /\
    (en = Some REof -> rest = [] /\ List.concat ps = body /\ st' = mkS tail e /\ stable r' st') /\
    ((List.length body < List.length ns)%nat -> en = Some REof).
Proof.
  intros Hpos E.
  destruct (pack_reads tail (lim_inv tail) (lim_step tail) (lim_drop tail) _ _ _ _ _ _ _ _ _ _ _ Hpos (lim_inv_init tail body e) E)
    as (rest & Hb & HI & He & Hal & Hf & H1 & H2 & H3 & H4 & _).
  exists rest. split; [exact Hb|]. split.
  { apply lim_inv_stream in HI. destruct st' as [y f]. cbn [sbytes seof] in *. congruence. }
  split; [exact Hal|]. split; [exact Hf|]. split.
  { destruct HI as [[Hr _]|(Hr1 & Hr2 & _)]; auto. }
  split; [exact H1|]. split; [exact H2|]. split; [exact H3|exact H4].
Qed.

Theorem limited_take body tail e fuel m n al acc : (0 < n)%nat -> (List.length body < fuel)%nat ->
  exists acc' en got rest r',
    take fixed fuel m n (BLimited (len body)) (mkS (body ++ tail) e) al acc = (acc', en, r', mkS (rest ++ tail) e, al) /\
    pieces_bytes acc' = pieces_bytes acc ++ got /\ body = got ++ rest /\
    (((len body < m)%N /\ en = EndEof /\ rest = []) \/ ((m <= len body)%N /\ en = EndCount /\ len got = m)) /\
    fst (body_drop fixed r' (mkS (rest ++ tail) e) al) = mkS tail e.
Proof.
  intros Hn Hf.
  destruct (pack_take tail (lim_inv tail) (lim_step tail) (lim_drop tail) fuel m n _ _ _ e al acc Hn (lim_inv_init tail body e) Hf)
    as (acc' & en & got & rest & r' & st' & E & Hp & Hb & HI & He & Hend & Hd).
  assert (st' = mkS (rest ++ tail) e) as -> by (apply lim_inv_stream in HI; destruct st' as [y f]; cbn [sbytes seof] in *; congruence).
  exists acc', en, got, rest, r'. repeat split; auto.
  destruct Hend as [(H1 & H2 & H3 & _)|H]; [left|right]; auto.
Qed.

(* C09 *)
Theorem limited_drop body tail e ns al ps en r' st' al' : all_pos ns ->
  reads fixed ns (BLimited (len body)) (mkS (body ++ tail) e) al = (ps, en, r', st', al') ->
  fst (body_drop fixed r' st' al') = mkS tail e.
Proof.
  intros Hpos E.
  destruct (pack_reads tail (lim_inv tail) (lim_step tail) (lim_drop tail) _ _ _ _ _ _ _ _ _ _ _ Hpos (lim_inv_init tail body e) E)
    as (rest & _ & _ & _ & _ & _ & _ & _ & _ & _ & H). exact H.
Qed.

(* the stream holds fewer bytes than the body still needs: all of them are consumed *)
Theorem limited_drop_short x e n al : (len x < n)%N ->
  fst (body_drop fixed (BLimited n) (mkS x e) al) = mkS [] e.
Proof.
  intros H. eapply advanced_eq; [apply body_drop_adv|]. cbn [body_drop sbytes]. apply discard_short; [lia|exact H].
Qed.

(* ================= 2. the pre-read small body ================= *)
Theorem buffered_reads body st ns al ps en r' st' al' : all_pos ns ->
  reads fixed ns (BBuffered body) st al = (ps, en, r', st', al') ->
  st' = st /\ al' = al /\
  exists rest,
    body = List.concat ps ++ rest /\ r' = BBuffered rest /\ pieces_fit ns ps /\
    (en = None \/ en = Some REof) /\
    (en = None -> List.length ps = List.length ns) /\
    (en = Some REof -> rest = [] /\ List.concat ps = body /\ stable r' st') /\
    ((List.length body < List.length ns)%nat -> en = Some REof).
Proof.
  intros Hpos E. destruct st as [x e].
  destruct (pack_reads (sbytes (mkS x e)) (buf_inv (mkS x e)) (buf_step _) (buf_drop _) _ _ _ _ _ _ _ _ _ _ _ Hpos (conj eq_refl eq_refl) E)
    as (rest & Hb & [Hr Hs] & He & Hal & Hf & H1 & H2 & H3 & H4 & _).
  repeat split; auto. exists rest. repeat split; auto; now apply H3.
Qed.
Theorem buffered_drop body st al : body_drop fixed (BBuffered body) st al = (st, al).
Proof. reflexivity. Qed.
Theorem buffered_take body st fuel m n al acc : (0 < n)%nat -> (List.length body < fuel)%nat ->
  exists acc' en got rest,
    take fixed fuel m n (BBuffered body) st al acc = (acc', en, BBuffered rest, st, al) /\
    pieces_bytes acc' = pieces_bytes acc ++ got /\ body = got ++ rest /\
    (((len body < m)%N /\ en = EndEof /\ rest = []) \/ ((m <= len body)%N /\ en = EndCount /\ len got = m)).
Proof.
  intros Hn Hf. destruct st as [x e].
  destruct (pack_take (sbytes (mkS x e)) (buf_inv (mkS x e)) (buf_step _) (buf_drop _) fuel m n _ _ _ e al acc Hn (conj eq_refl eq_refl) Hf)
    as (acc' & en & got & rest & r' & st' & E & Hp & Hb & [-> ->] & He & Hend & Hd).
  exists acc', en, got, rest. repeat split; auto.
  destruct Hend as [(H1 & H2 & H3 & _)|H]; [left|right]; auto.
Qed.

(* ================= 3. the chunked reader ================= *)
Section ChunkedFinal.
Variables (chs : list chunk) (last tail : bytes) (e : bool).
Hypothesis chs_ok : Forall chunk_ok chs.
Hypothesis last_ok : size_line_ok last 0.
Let wire := mkS (enc chs last tail) e.

Theorem chunked_reads ns al ps en r' st' al' : all_pos ns ->
  reads fixed ns (BChunked None false) wire al = (ps, en, r', st', al') ->
  exists rest,
    payload chs = List.concat ps ++ rest /\ al' = al /\ pieces_fit ns ps /\
    (en = None \/ en = Some REof) /\
    (en = None -> List.length ps = List.length ns) /\
    (en = Some REof -> rest = [] /\ List.concat ps = payload chs /\ st' = mkS tail e /\ stable r' st') /\
    ((List.length (payload chs) < List.length ns)%nat -> en = Some REof).
Proof.
  intros Hpos E.
  destruct (pack_reads tail (ch_inv last tail) (ch_step last tail last_ok) (ch_drop last tail last_ok) _ _ _ _ _ _ _ _ _ _ _ Hpos
              (ch_inv_init last tail chs e chs_ok) E)
    as (rest & Hb & HI & He & Hal & Hf & H1 & H2 & H3 & H4 & _).
  exists rest. repeat split; auto; now apply H3.
Qed.

(* C09: stop after any sequence of reads (none, some, all), drop: exactly at `tail` *)
Theorem chunked_drop ns al ps en r' st' al' : all_pos ns ->
  reads fixed ns (BChunked None false) wire al = (ps, en, r', st', al') ->
  fst (body_drop fixed r' st' al') = mkS tail e.
Proof.
  intros Hpos E.
  destruct (pack_reads tail (ch_inv last tail) (ch_step last tail last_ok) (ch_drop last tail last_ok) _ _ _ _ _ _ _ _ _ _ _ Hpos
              (ch_inv_init last tail chs e chs_ok) E)
    as (rest & _ & _ & _ & _ & _ & _ & _ & _ & _ & H). exact H.
Qed.

Theorem chunked_take fuel m n al acc : (0 < n)%nat -> (List.length (payload chs) < fuel)%nat ->
  exists acc' en got rest r' st',
    take fixed fuel m n (BChunked None false) wire al acc = (acc', en, r', st', al) /\
    pieces_bytes acc' = pieces_bytes acc ++ got /\ payload chs = got ++ rest /\
    (((len (payload chs) < m)%N /\ en = EndEof /\ rest = [] /\ st' = mkS tail e /\ stable r' st') \/
     ((m <= len (payload chs))%N /\ en = EndCount /\ len got = m)) /\
    fst (body_drop fixed r' st' al) = mkS tail e.
Proof.
  intros Hn Hf.
  destruct (pack_take tail (ch_inv last tail) (ch_step last tail last_ok) (ch_drop last tail last_ok) fuel m n _ _ _ e al acc Hn
              (ch_inv_init last tail chs e chs_ok) Hf)
    as (acc' & en & got & rest & r' & st' & E & Hp & Hb & HI & He & Hend & Hd).
  exists acc', en, got, rest, r', st'. repeat split; auto.
Qed.

(* decode . encode = id, with the fuel the handler loop of Serve.v uses *)
Corollary chunked_decode_encode n al : (0 < n)%nat -> (len (payload chs) < ALL)%N ->
  exists acc' r',
    take fixed (S (List.length (sbytes wire) + 0)) ALL n (BChunked None false) wire al [] = (acc', EndEof, r', mkS tail e, al) /\
    pieces_bytes acc' = payload chs /\ stable r' (mkS tail e).
Proof.
  intros Hn Hlen. destruct (chunked_take (S (List.length (sbytes wire) + 0)) ALL n al [] Hn (chunked_take_fuel chs last tail))
    as (acc' & en & got & rest & r' & st' & E & Hp & Hb & Hend & _).
  destruct Hend as [(_ & -> & -> & -> & Hs)|(H & _)]; [|lia].
  exists acc', r'. rewrite app_nil_r in Hb. subst got. repeat split; auto.
Qed.
End ChunkedFinal.

(* ================= 4. the upgrade reader ================= *)
Theorem upgrade_reads_final x e ns al ps en r' st' al' : all_pos ns ->
  reads fixed ns BUpgrade (mkS x e) al = (ps, en, r', st', al') ->
  r' = BUpgrade /\ al' = al /\ x = List.concat ps ++ sbytes st' /\ seof st' = e /\ pieces_fit ns ps /\
  ((en = None /\ List.length ps = List.length ns) \/
   (sbytes st' = [] /\ List.concat ps = x /\ en = Some (if e then REof else RBlock))).
Proof.
  intros Hpos E. destruct (upgrade_reads ns x e al Hpos) as (ps0 & en0 & st0 & E0 & Hx & He & Hf & Hend).
  rewrite E in E0. injection E0 as -> -> -> -> ->. repeat split; auto.
  destruct Hend as [H|[H1 H2]]; [left; exact H|right]. repeat split; auto. rewrite H1, app_nil_r in Hx. auto.
Qed.
Theorem upgrade_drop st al : body_drop fixed BUpgrade st al = (st, al).
Proof. reflexivity. Qed.

(* ================= all read loops of a handler, then drop (what serve_loop does) ================= *)
Lemma lim_fuel_ok tail rest r st : lim_inv tail rest r st ->
  (List.length rest < S (List.length (sbytes st) + match r with BBuffered d => List.length d | _ => 0 end))%nat.
Proof. intros [[-> Hs]|(-> & -> & Hs)]; rewrite Hs; [rewrite app_length|cbn [List.length]]; lia. Qed.
Lemma buf_fuel_ok st0 rest r st : buf_inv st0 rest r st ->
  (List.length rest < S (List.length (sbytes st) + match r with BBuffered d => List.length d | _ => 0 end))%nat.
Proof. intros [-> ->]. lia. Qed.
Lemma ch_fuel_ok last tail rest r st : ch_inv last tail rest r st ->
  (List.length rest < S (List.length (sbytes st) + match r with BBuffered d => List.length d | _ => 0 end))%nat.
Proof. intros [(rem & -> & HR)|(-> & -> & Hs)]; [apply rel_length in HR|cbn [List.length]]; lia. Qed.

Theorem limited_do_reads body tail e rs al acc : bufs_pos rs ->
  exists acc' en got rest r',
    do_reads fixed rs (BLimited (len body)) (mkS (body ++ tail) e) al acc EndCount = (acc', en, r', mkS (rest ++ tail) e, al) /\
    pieces_bytes acc' = pieces_bytes acc ++ got /\ body = got ++ rest /\
    ((en = EndCount /\ len got = sum_m rs) \/ (en = EndEof /\ rest = [] /\ (len body < sum_m rs)%N)) /\
    fst (body_drop fixed r' (mkS (rest ++ tail) e) al) = mkS tail e.
Proof.
  intros Hpos.
  destruct (pack_do_reads tail (lim_inv tail) (lim_step tail) (lim_drop tail) (lim_fuel_ok tail) rs _ _ _ e al acc Hpos (lim_inv_init tail body e))
    as (acc' & en & got & rest & r' & st' & E & Hp & Hb & HI & He & Hend & Hd).
  assert (st' = mkS (rest ++ tail) e) as -> by (apply lim_inv_stream in HI; destruct st' as [y f]; cbn [sbytes seof] in *; congruence).
  exists acc', en, got, rest, r'. repeat split; auto.
  destruct Hend as [H|(H1 & H2 & H3 & _)]; [left|right]; auto.
Qed.

Theorem buffered_do_reads body st rs al acc : bufs_pos rs ->
  exists acc' en got rest,
    do_reads fixed rs (BBuffered body) st al acc EndCount = (acc', en, BBuffered rest, st, al) /\
    pieces_bytes acc' = pieces_bytes acc ++ got /\ body = got ++ rest /\
    ((en = EndCount /\ len got = sum_m rs) \/ (en = EndEof /\ rest = [] /\ (len body < sum_m rs)%N)).
Proof.
  intros Hpos. destruct st as [x e].
  destruct (pack_do_reads (sbytes (mkS x e)) (buf_inv (mkS x e)) (buf_step (mkS x e)) (buf_drop (mkS x e)) (buf_fuel_ok (mkS x e)) rs body (BBuffered body) x e al acc Hpos (conj eq_refl eq_refl))
    as (acc' & en & got & rest & r' & st' & E & Hp & Hb & [-> ->] & He & Hend & Hd).
  exists acc', en, got, rest. repeat split; auto.
  destruct Hend as [H|(H1 & H2 & H3 & _)]; [left|right]; auto.
Qed.

Theorem chunked_do_reads chs last tail e rs al acc : Forall chunk_ok chs -> size_line_ok last 0 -> bufs_pos rs ->
  exists acc' en got rest r' st',
    do_reads fixed rs (BChunked None false) (mkS (enc chs last tail) e) al acc EndCount = (acc', en, r', st', al) /\
    pieces_bytes acc' = pieces_bytes acc ++ got /\ payload chs = got ++ rest /\
    ((en = EndCount /\ len got = sum_m rs) \/
     (en = EndEof /\ rest = [] /\ (len (payload chs) < sum_m rs)%N /\ st' = mkS tail e /\ stable r' st')) /\
    fst (body_drop fixed r' st' al) = mkS tail e.
Proof.
  intros Hch Hlast Hpos.
  destruct (pack_do_reads tail (ch_inv last tail) (ch_step last tail Hlast) (ch_drop last tail Hlast) (ch_fuel_ok last tail) rs _ _ _ e al acc Hpos
              (ch_inv_init last tail chs e Hch))
    as (acc' & en & got & rest & r' & st' & E & Hp & Hb & HI & He & Hend & Hd).
  exists acc', en, got, rest, r', st'. repeat split; auto.
Qed.
