(* Http/C05Spec.v — the reference decision function of C05, transcribed from the property text.
   SPEC file: definitions only (no sorting, no reference to choose_te). *)
From TH Require Import Base.Bytes Http.Response.
From Coq Require Import ZArith.
Open Scope Z_scope.

(* ---- the reference, written from the property text, no sorting involved ---- *)
Definition eligible (e : bytes * Z) : bool :=
  negb (snd e <=? 0) && match supported (fst e) with Some _ => true | None => false end.
(* scan in header order; a later entry replaces the current one only if strictly preferred *)
Definition better (cur : option (bytes * Z)) (x : bytes * Z) : option (bytes * Z) :=
  match cur with
  | None => Some x
  | Some y => if snd y <? snd x then Some x else Some y
  end.
Definition first_argmax (l : list (bytes * Z)) : option (bytes * Z) := fold_left better l None.
Definition coding_of (e : option (bytes * Z)) : option coding :=
  match e with Some e => supported (fst e) | None => None end.
Definition ref_wish (l : list (bytes * Z)) : option coding :=
  coding_of (first_argmax (filter eligible l)).


Close Scope Z_scope.

(* the (coding name, q in thousandths) entries of the request's TE header, in header order;
   [] when there is no TE header; None when a q value lies outside the modelled sub-domain *)
Definition te_entries (req_headers : list header) : option (list (bytes * Z)) :=
  match find_header "TE" req_headers with
  | None => Some []
  | Some h => all_ok (parse_header_value (hvalue h))
  end.

(* The property text, transcribed:
   never chunked for HTTP/1.0 or older, nor for 1xx and 204; otherwise the most preferred supported
   coding with q > 0 named in TE; otherwise chunked exactly when the length is unknown or at least
   the threshold *)
Definition ref_choice (status : N) (entries : list (bytes * Z)) (ver : version)
                      (dlen : option N) (thr : N) : coding :=
  if ver_le ver (1, 0)%N then Identity
  else if ((status <? 200) || (status =? 204))%N then Identity
  else match ref_wish entries with
       | Some c => c
       | None => match dlen with
                 | None => Chunked
                 | Some n => if (n <? thr)%N then Identity else Chunked
                 end
       end.

(* the framing headers on the wire, for every response the application can build *)
Definition framing_of (date : bytes) (r : response) (up : option bytes) (te0 : coding) :=
  let te := match up with Some _ => None | None => Some te0 end in
  let dl := match data_length r, te with
            | Some l, _ => Some l
            | None, Some Identity => Some (len (rbody r))
            | None, _ => None
            end in
  final_headers date r up te dl.

