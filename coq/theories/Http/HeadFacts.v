(* Http/HeadFacts.v — the head parser (read_head / read_headers) on streams given line by line:
   step lemmas, classification of bad lines (C16a, C10), and the abstract well-formed request head
   with its rendering and the round trip through read_head (C02). *)
From TH Require Import Base.Bytes Base.BytesFacts Http.Response Http.Request Http.LineFacts.
From Coq Require Import Lia ZArith ZifyN ZifyBool ZifyNat.
Open Scope char_scope.

(* ---- one iteration of the header loop ---- *)
Lemma read_headers_good c f ver acc x l rest h :
  read_line x = Some (l, rest) -> all_ascii l = true -> l <> [] ->
  parse_header (if fix_d8 c then trim_end l else trim l) = Some h ->
  read_headers c (S f) ver acc x = read_headers c f ver (h :: acc) rest.
Proof.
  intros R A N P. cbn [read_headers]. rewrite R, A. cbn [negb].
  destruct l as [|b l']; [congruence|]. now rewrite P.
Qed.

Lemma read_headers_bad c f ver acc x l rest :
  read_line x = Some (l, rest) -> all_ascii l = true -> l <> [] ->
  parse_header (if fix_d8 c then trim_end l else trim l) = None ->
  read_headers c (S f) ver acc x = inl (HeadBadHeader ver).
Proof.
  intros R A N P. cbn [read_headers]. rewrite R, A. cbn [negb].
  destruct l as [|b l']; [congruence|]. now rewrite P.
Qed.

Lemma read_headers_end c f ver acc x rest :
  read_line x = Some ([], rest) -> read_headers c (S f) ver acc x = inr (frev acc, rest).
Proof. intros R. cbn [read_headers]. rewrite R. reflexivity. Qed.

Lemma read_headers_nonascii c f ver acc x l rest :
  read_line x = Some (l, rest) -> all_ascii l = false ->
  read_headers c (S f) ver acc x = inl HeadNonAscii.
Proof. intros R A. cbn [read_headers]. rewrite R, A. reflexivity. Qed.

Lemma read_headers_eof c f ver acc x : read_line x = None -> read_headers c f ver acc x = inl HeadEof.
Proof. intros R. destruct f; cbn [read_headers]; [reflexivity|]. now rewrite R. Qed.

(* ---- read_head: the request line ---- *)
Lemma read_head_line c x l rest m u ver :
  read_line x = Some (l, rest) -> all_ascii l = true -> parse_request_line (trim l) = Some (m, u, ver) ->
  read_head c x = match read_headers c (S (List.length rest)) ver [] rest with
                  | inl e => e
                  | inr (hs, rest') => HeadOk m u ver hs rest'
                  end.
Proof. intros R A P. unfold read_head. rewrite R, A, P. reflexivity. Qed.

Lemma read_head_nonascii_line c x l rest :
  read_line x = Some (l, rest) -> all_ascii l = false -> read_head c x = HeadNonAscii.
Proof. intros R A. unfold read_head. rewrite R, A. reflexivity. Qed.

Lemma read_head_bad_line c x l rest :
  read_line x = Some (l, rest) -> all_ascii l = true -> parse_request_line (trim l) = None ->
  read_head c x = HeadBadLine.
Proof. intros R A P. unfold read_head. rewrite R, A, P. reflexivity. Qed.

Lemma read_head_eof c x : read_line x = None -> read_head c x = HeadEof.
Proof. intros R. unfold read_head. now rewrite R. Qed.

(* ---- header lines that are refused (C16a) ---- *)
(* no colon at all, or a whitespace byte somewhere before the first colon (leading whitespace =
   obsolete folding, whitespace inside the name, whitespace between the name and the colon) *)
Definition bad_header_line (l : bytes) : bool :=
  match split_first ":" l with
  | (n, Some _) => existsb is_ws n
  | (_, None) => true
  end.

Lemma parse_header_none l : parse_header l = None <-> bad_header_line l = true.
Proof.
  unfold parse_header, bad_header_line. destruct (split_first ":" l) as [n [r|]].
  - destruct (existsb is_ws n); split; congruence.
  - split; reflexivity.
Qed.

Lemma bad_line_rejected l : bad_header_line l = true -> parse_header (trim_end l) = None.
Proof. intros H. rewrite parse_header_trim_end. now apply parse_header_none. Qed.

Lemma good_line_parsed l : bad_header_line l = false ->
  exists n v, split_first ":" l = (n, Some v) /\ parse_header (trim_end l) = Some (mkH n (trim v)).
Proof.
  intros H. rewrite parse_header_trim_end. unfold bad_header_line in H. unfold parse_header.
  destruct (split_first ":" l) as [n [r|]]; [|discriminate]. exists n, r. now rewrite H.
Qed.

(* the three shapes named in the property *)
Lemma bad_no_colon l : nosep ":" l = true -> bad_header_line l = true.
Proof. intros H. unfold bad_header_line. now rewrite (split_first_nosep _ _ H). Qed.

Lemma bad_ws_before_colon n r : nosep ":" n = true -> existsb is_ws n = true -> bad_header_line (n ++ ":" :: r) = true.
Proof. intros H W. unfold bad_header_line. now rewrite (split_first_app _ _ _ H). Qed.

Lemma bad_leading_ws c l : is_ws c = true -> bad_header_line (c :: l) = true.
Proof.
  intros W. unfold bad_header_line. cbn [split_first].
  destruct (Ascii.eqb c ":") eqn:E; [apply Ascii.eqb_eq in E; subst c; discriminate|].
  destruct (split_first ":" l) as [n [r|]]; [|reflexivity]. cbn [existsb]. now rewrite W.
Qed.

Lemma bad_line_nil : bad_header_line [] = true.
Proof. reflexivity. Qed.

(* ---- a run of accepted header lines ---- *)
Definition lines (ls : list bytes) : bytes := List.concat (map (fun l => l ++ CRLF) ls).
Definition good_line (l : bytes) : bool := all_ascii l && no_crlf l && negb (bad_header_line l).
Definition hdr_of (l : bytes) : header :=
  match parse_header l with Some h => h | None => mkH [] [] end.

Lemma lines_cons l ls x : lines (l :: ls) ++ x = l ++ CRLF ++ lines ls ++ x.
Proof. unfold lines. cbn [map List.concat]. now rewrite <- !app_assoc. Qed.

Lemma lines_length ls : (List.length ls <= List.length (lines ls))%nat.
Proof.
  induction ls as [|l ls IH]; [cbn; lia|]. unfold lines in *. cbn [map List.concat List.length].
  rewrite !app_length. cbn [CRLF List.length]. lia.
Qed.

Lemma read_headers_lines goods : forall f ver acc x', forallb good_line goods = true ->
  read_headers fixed (List.length goods + f) ver acc (lines goods ++ x')
  = read_headers fixed f ver (rev (map hdr_of goods) ++ acc) x'.
Proof.
  induction goods as [|l goods IH]; intros f ver acc x' G; [reflexivity|].
  cbn [forallb] in G. apply andb_true_iff in G as [Gl G].
  unfold good_line in Gl. apply andb_true_iff in Gl as [Gl Gb]. apply andb_true_iff in Gl as [Ga Gc].
  apply negb_true_iff in Gb.
  rewrite lines_cons. cbn [List.length plus].
  assert (P : parse_header (trim_end l) = Some (hdr_of l)).
  { rewrite parse_header_trim_end. unfold hdr_of. destruct (parse_header l) eqn:E; [reflexivity|].
    apply parse_header_none in E. congruence. }
  rewrite (read_headers_good fixed _ ver acc _ l (lines goods ++ x') (hdr_of l)).
  - rewrite (IH _ _ _ _ G). cbn [map rev]. now rewrite <- app_assoc.
  - now apply read_line_app.
  - exact Ga.
  - intros ->. discriminate.
  - exact P.
Qed.

(* a valid request line, then accepted header lines, then whatever follows *)
Lemma read_head_lines rl m u ver goods x' :
  all_ascii rl = true -> no_crlf rl = true -> parse_request_line (trim rl) = Some (m, u, ver) ->
  forallb good_line goods = true ->
  exists f, (List.length x' <= f)%nat /\
  read_head fixed (rl ++ CRLF ++ lines goods ++ x')
  = match read_headers fixed (S f) ver (rev (map hdr_of goods)) x' with
    | inl e => e
    | inr (hs, rest') => HeadOk m u ver hs rest'
    end.
Proof.
  intros A C P G. pose proof (lines_length goods) as L.
  exists (List.length (lines goods) - List.length goods + List.length x')%nat. split; [lia|].
  rewrite (read_head_line fixed _ rl (lines goods ++ x') m u ver (read_line_app _ _ C) A P).
  rewrite app_length.
  replace (S (List.length (lines goods) + List.length x'))
    with (List.length goods + S (List.length (lines goods) - List.length goods + List.length x'))%nat by lia.
  rewrite (read_headers_lines goods _ ver [] x' G). now rewrite app_nil_r.
Qed.

(* C16a lifted to the head: ... then a refused line, then ANY bytes *)
Lemma read_head_bad_header rl m u ver goods bad tail :
  all_ascii rl = true -> no_crlf rl = true -> parse_request_line (trim rl) = Some (m, u, ver) ->
  forallb good_line goods = true ->
  all_ascii bad = true -> no_crlf bad = true -> bad <> [] -> bad_header_line bad = true ->
  read_head fixed (rl ++ CRLF ++ lines goods ++ bad ++ CRLF ++ tail) = HeadBadHeader ver.
Proof.
  intros A C P G Ab Cb Nb Bb.
  destruct (read_head_lines rl m u ver goods (bad ++ CRLF ++ tail) A C P G) as (f & _ & E).
  rewrite E. rewrite (read_headers_bad fixed f ver _ _ bad tail); [reflexivity| | | |].
  - now apply read_line_app.
  - exact Ab.
  - exact Nb.
  - now apply bad_line_rejected.
Qed.

(* C10: a non-ASCII byte in a header line that is reached *)
Lemma read_head_nonascii_header rl m u ver goods bad tail :
  all_ascii rl = true -> no_crlf rl = true -> parse_request_line (trim rl) = Some (m, u, ver) ->
  forallb good_line goods = true ->
  all_ascii bad = false -> no_crlf bad = true ->
  read_head fixed (rl ++ CRLF ++ lines goods ++ bad ++ CRLF ++ tail) = HeadNonAscii.
Proof.
  intros A C P G Ab Cb.
  destruct (read_head_lines rl m u ver goods (bad ++ CRLF ++ tail) A C P G) as (f & _ & E).
  rewrite E. rewrite (read_headers_nonascii fixed f ver _ _ bad tail); [reflexivity| |exact Ab].
  now apply read_line_app.
Qed.

(* the blank line ends the head *)
Lemma read_head_complete rl m u ver goods tail :
  all_ascii rl = true -> no_crlf rl = true -> parse_request_line (trim rl) = Some (m, u, ver) ->
  forallb good_line goods = true ->
  read_head fixed (rl ++ CRLF ++ lines goods ++ CRLF ++ tail) = HeadOk m u ver (map hdr_of goods) tail.
Proof.
  intros A C P G.
  destruct (read_head_lines rl m u ver goods (CRLF ++ tail) A C P G) as (f & _ & E).
  rewrite E. rewrite (read_headers_end fixed f ver _ _ tail).
  - now rewrite frev_rev, rev_involutive.
  - apply (read_line_app [] tail). reflexivity.
Qed.

(* ======================================================================================== *)
(* C02: the abstract well-formed request head and its rendering                              *)
(* ======================================================================================== *)
Record req_head := mkRq {
  rq_method : bytes; rq_target : bytes; rq_version : version;
  rq_headers : list (bytes * bytes) }.

(* ASCII and not whitespace (a superset of tchar and of VCHAR) *)
Definition is_vis (c : ascii) : bool := is_ascii c && negb (is_ws c).
Definition wf_token (x : bytes) : bool := negb (beq x []) && forallb is_vis x.
Definition wf_name (n : bytes) : bool := wf_token n && nosep ":" n.
(* field-content: ASCII without CR and LF, neither beginning nor ending with whitespace; may be
   empty, may contain blanks and colons inside *)
Definition is_fchar (c : ascii) : bool := is_ascii c && negb (Ascii.eqb c CR) && negb (Ascii.eqb c LF).
Definition wf_value (v : bytes) : bool :=
  forallb is_fchar v &&
  match v with [] => true | c :: _ => negb (is_ws c) && negb (is_ws (last v c)) end.
Definition wf_field (f : bytes * bytes) : bool := wf_name (fst f) && wf_value (snd f).
Definition wf_version (v : version) : bool :=
  ver_eq v (0, 9)%N || ver_eq v (1, 0)%N || ver_eq v (1, 1)%N.
Definition wf_head (r : req_head) : bool :=
  wf_token (rq_method r) && wf_token (rq_target r) && wf_version (rq_version r)
  && forallb wf_field (rq_headers r).

(* optional whitespace: SP / HTAB only *)
Definition is_ows (c : ascii) : bool := Ascii.eqb c SP || Ascii.eqb c HT.
Definition wf_ows (ows : list (bytes * bytes)) : bool :=
  forallb (fun p => forallb is_ows (fst p) && forallb is_ows (snd p)) ows.

Definition render_version (v : version) : bytes :=
  s "HTTP/" ++ print_dec (fst v) ++ s "." ++ print_dec (snd v).
Definition render_field (f : bytes * bytes) (o : bytes * bytes) : bytes :=
  fst f ++ ":" :: fst o ++ snd f ++ snd o.
(* the i-th header gets the i-th pair of blanks (none when the list is shorter) *)
Fixpoint render_fields (hs : list (bytes * bytes)) (ows : list (bytes * bytes)) : bytes :=
  match hs with
  | [] => []
  | f :: t => render_field f (hd ([], []) ows) ++ CRLF ++ render_fields t (tl ows)
  end.
Definition render_req_head (r : req_head) (ows : list (bytes * bytes)) : bytes :=
  rq_method r ++ SP :: rq_target r ++ SP :: render_version (rq_version r) ++ CRLF
  ++ render_fields (rq_headers r) ows ++ CRLF.
Definition field_header (f : bytes * bytes) : header := mkH (fst f) (snd f).

(* ---- characters ---- *)
Lemma is_ows_ws c : is_ows c = true -> is_ws c = true.
Proof.
  unfold is_ows. intros H. apply orb_true_iff in H as [H|H]; apply Ascii.eqb_eq in H; subst c; reflexivity.
Qed.
Lemma is_ows_ascii c : is_ows c = true -> is_ascii c = true.
Proof.
  unfold is_ows. intros H. apply orb_true_iff in H as [H|H]; apply Ascii.eqb_eq in H; subst c; reflexivity.
Qed.
Lemma is_ows_nolf c : is_ows c = true -> negb (Ascii.eqb c LF) = true.
Proof.
  unfold is_ows. intros H. apply orb_true_iff in H as [H|H]; apply Ascii.eqb_eq in H; subst c; reflexivity.
Qed.
Lemma is_vis_ascii c : is_vis c = true -> is_ascii c = true.
Proof. unfold is_vis. intros H. now apply andb_true_iff in H as [H _]. Qed.
Lemma is_vis_not_ws c : is_vis c = true -> negb (is_ws c) = true.
Proof. unfold is_vis. intros H. now apply andb_true_iff in H as [_ H]. Qed.
Lemma not_ws_nolf c : negb (is_ws c) = true -> negb (Ascii.eqb c LF) = true.
Proof.
  intros H. destruct (Ascii.eqb c LF) eqn:E; [|reflexivity]. apply Ascii.eqb_eq in E. subst c. discriminate.
Qed.
Lemma not_ws_nosp c : negb (is_ws c) = true -> negb (Ascii.eqb c SP) = true.
Proof.
  intros H. destruct (Ascii.eqb c SP) eqn:E; [|reflexivity]. apply Ascii.eqb_eq in E. subst c. discriminate.
Qed.
Lemma is_fchar_ascii c : is_fchar c = true -> is_ascii c = true.
Proof. unfold is_fchar. intros H. apply andb_true_iff in H as [H _]. now apply andb_true_iff in H as [H _]. Qed.
Lemma is_fchar_nolf c : is_fchar c = true -> negb (Ascii.eqb c LF) = true.
Proof. unfold is_fchar. intros H. now apply andb_true_iff in H as [_ H]. Qed.

Lemma wf_token_facts x : wf_token x = true ->
  x <> [] /\ all_ascii x = true /\ nolf x = true /\ nosep SP x = true /\ existsb is_ws x = false
  /\ exists c x', x = c :: x' /\ is_ws c = false.
Proof.
  unfold wf_token. intros H. apply andb_true_iff in H as [N V].
  split; [intros ->; discriminate|].
  split; [exact (forallb_imp _ _ x is_vis_ascii V)|].
  split; [exact (forallb_imp _ _ x (fun c H => not_ws_nolf c (is_vis_not_ws c H)) V)|].
  split; [exact (forallb_imp _ _ x (fun c H => not_ws_nosp c (is_vis_not_ws c H)) V)|].
  split; [apply forallb_not_existsb; exact (forallb_imp _ _ x is_vis_not_ws V)|].
  destruct x as [|c x']; [discriminate|]. exists c, x'. split; [reflexivity|].
  cbn [forallb] in V. apply andb_true_iff in V as [V _]. apply is_vis_not_ws in V. now apply negb_true_iff in V.
Qed.

(* ---- the version token ---- *)
Lemma wf_version_cases v : wf_version v = true -> v = (0, 9)%N \/ v = (1, 0)%N \/ v = (1, 1)%N.
Proof.
  unfold wf_version, ver_eq. destruct v as [a b]. cbn [fst snd]. intros H.
  apply orb_true_iff in H as [H|H]; [apply orb_true_iff in H as [H|H]|];
    apply andb_true_iff in H as [H1 H2]; apply N.eqb_eq in H1, H2; subst; auto.
Qed.

Lemma render_version_facts v : wf_version v = true ->
  parse_version (render_version v) = Some v /\ nosep SP (render_version v) = true /\
  all_ascii (render_version v) = true /\ nolf (render_version v) = true /\
  trim_end (render_version v) = render_version v /\ render_version v <> [].
Proof.
  intros H. apply wf_version_cases in H as [->|[->| ->]];
    (split; [vm_compute; reflexivity|]); (split; [vm_compute; reflexivity|]);
    (split; [vm_compute; reflexivity|]); (split; [vm_compute; reflexivity|]);
    (split; [vm_compute; reflexivity|vm_compute; discriminate]).
Qed.

(* ---- the request line ---- *)
Lemma request_line_parsed m t v :
  wf_token m = true -> wf_token t = true -> wf_version v = true ->
  let rl := m ++ SP :: t ++ SP :: render_version v in
  all_ascii rl = true /\ no_crlf rl = true /\ parse_request_line (trim rl) = Some (m, t, v).
Proof.
  intros Hm Ht Hv rl.
  destruct (wf_token_facts m Hm) as (_ & Am & Lm & Sm & _ & c & m' & Em & Wc).
  destruct (wf_token_facts t Ht) as (_ & At & Lt & St & _).
  destruct (render_version_facts v Hv) as (Pv & Sv & Av & Lv & Tv & Nv).
  split; [|split].
  - unfold rl, all_ascii in *. rewrite forallb_app. cbn [forallb]. rewrite forallb_app. cbn [forallb].
    rewrite Am, At, Av. reflexivity.
  - apply nolf_no_crlf. unfold rl, nolf in *. rewrite forallb_app. cbn [forallb]. rewrite forallb_app. cbn [forallb].
    rewrite Lm, Lt, Lv. reflexivity.
  - assert (T : trim rl = rl).
    { unfold trim.
      assert (TS : trim_start rl = rl) by (unfold rl; rewrite Em; cbn [app]; apply trim_start_nonws; exact Wc).
      rewrite TS. unfold rl.
      replace (m ++ SP :: t ++ SP :: render_version v) with ((m ++ SP :: t ++ [SP]) ++ render_version v)
        by (rewrite <- !app_assoc; cbn [app]; rewrite <- app_assoc; reflexivity).
      rewrite trim_end_app_keep; rewrite Tv; [reflexivity|exact Nv]. }
    rewrite T. unfold parse_request_line, rl. rewrite (split_on_three SP m t _ Sm St Sv). now rewrite Pv.
Qed.

(* ---- one header line ---- *)
Lemma field_line_good f o :
  wf_field f = true -> forallb is_ows (fst o) = true -> forallb is_ows (snd o) = true ->
  good_line (render_field f o) = true /\ hdr_of (render_field f o) = field_header f.
Proof.
  destruct f as [n v], o as [o1 o2]. unfold wf_field, render_field, field_header. cbn [fst snd].
  intros H O1 O2. apply andb_true_iff in H as [Hn Hv].
  unfold wf_name in Hn. apply andb_true_iff in Hn as [Hn Cn].
  destruct (wf_token_facts n Hn) as (_ & An & Ln & _ & Wn & _).
  unfold wf_value in Hv. apply andb_true_iff in Hv as [Fv Ev].
  assert (P : parse_header (n ++ ":" :: o1 ++ v ++ o2) = Some (mkH n v)).
  { unfold parse_header. rewrite (split_first_app _ _ _ Cn), Wn.
    rewrite trim_ows; [reflexivity| | |exact Ev].
    - exact (forallb_imp _ _ o1 is_ows_ws O1).
    - exact (forallb_imp _ _ o2 is_ows_ws O2). }
  split.
  - unfold good_line. apply andb_true_iff. split; [apply andb_true_iff; split|].
    + unfold all_ascii in *. rewrite forallb_app. cbn [forallb]. rewrite !forallb_app.
      rewrite An, (forallb_imp _ _ o1 is_ows_ascii O1), (forallb_imp _ _ v is_fchar_ascii Fv),
        (forallb_imp _ _ o2 is_ows_ascii O2). reflexivity.
    + apply nolf_no_crlf. unfold nolf in *. rewrite forallb_app. cbn [forallb]. rewrite !forallb_app.
      rewrite Ln, (forallb_imp _ _ o1 is_ows_nolf O1), (forallb_imp _ _ v is_fchar_nolf Fv),
        (forallb_imp _ _ o2 is_ows_nolf O2). reflexivity.
    + apply negb_true_iff. destruct (bad_header_line (n ++ ":" :: o1 ++ v ++ o2)) eqn:B; [|reflexivity].
      apply parse_header_none in B. congruence.
  - unfold hdr_of. now rewrite P.
Qed.

Fixpoint field_lines (hs ows : list (bytes * bytes)) : list bytes :=
  match hs with
  | [] => []
  | f :: t => render_field f (hd ([], []) ows) :: field_lines t (tl ows)
  end.

Lemma render_fields_lines hs : forall ows, render_fields hs ows = lines (field_lines hs ows).
Proof.
  induction hs as [|f t IH]; intros ows; [reflexivity|].
  cbn [render_fields field_lines]. unfold lines. cbn [map List.concat]. fold (lines (field_lines t (tl ows))).
  now rewrite IH, <- app_assoc.
Qed.

Lemma field_lines_good hs : forall ows, forallb wf_field hs = true -> wf_ows ows = true ->
  forallb good_line (field_lines hs ows) = true /\ map hdr_of (field_lines hs ows) = map field_header hs.
Proof.
  induction hs as [|f t IH]; intros ows H O; [split; reflexivity|].
  cbn [forallb] in H. apply andb_true_iff in H as [Hf Ht].
  assert (Oh : forallb is_ows (fst (hd ([], []) ows)) = true /\ forallb is_ows (snd (hd ([], []) ows)) = true
               /\ wf_ows (tl ows) = true).
  { destruct ows as [|o ows']; [repeat split|]. unfold wf_ows in O. cbn [forallb] in O.
    apply andb_true_iff in O as [O1 O2]. apply andb_true_iff in O1 as [O1 O1']. cbn [hd tl]. auto. }
  destruct Oh as (O1 & O2 & O3).
  destruct (field_line_good f _ Hf O1 O2) as [G E]. destruct (IH (tl ows) Ht O3) as [G' E'].
  cbn [field_lines forallb map]. rewrite G, G', E, E'. split; reflexivity.
Qed.

(* C02 on the head parser *)
Theorem head_roundtrip r ows tail : wf_head r = true -> wf_ows ows = true ->
  read_head fixed (render_req_head r ows ++ tail)
  = HeadOk (rq_method r) (rq_target r) (rq_version r) (map field_header (rq_headers r)) tail.
Proof.
  intros W O. unfold wf_head in W.
  apply andb_true_iff in W as [W Wh]. apply andb_true_iff in W as [W Wv]. apply andb_true_iff in W as [Wm Wt].
  destruct (request_line_parsed _ _ _ Wm Wt Wv) as (A & C & P).
  destruct (field_lines_good _ ows Wh O) as [G E].
  unfold render_req_head. rewrite render_fields_lines.
  replace ((rq_method r ++ SP :: rq_target r ++ SP :: render_version (rq_version r) ++ CRLF
            ++ lines (field_lines (rq_headers r) ows) ++ CRLF) ++ tail)
    with ((rq_method r ++ SP :: rq_target r ++ SP :: render_version (rq_version r)) ++ CRLF
            ++ lines (field_lines (rq_headers r) ows) ++ CRLF ++ tail).
  - rewrite (read_head_complete _ _ _ _ _ tail A C P G). now rewrite E.
  - rewrite <- !app_assoc. cbn [app]. rewrite <- !app_assoc. cbn [app]. rewrite <- !app_assoc. reflexivity.
Qed.

Lemma field_header_inj a b : field_header a = field_header b -> a = b.
Proof. destruct a, b. unfold field_header. cbn [fst snd]. congruence. Qed.

Lemma map_field_header_inj a : forall b, map field_header a = map field_header b -> a = b.
Proof.
  induction a as [|x a IH]; intros [|y b] H; cbn [map] in H; try discriminate; [reflexivity|].
  unfold field_header in H at 1 3. injection H as Hn Hv H2. apply IH in H2.
  destruct x, y. cbn [fst snd] in *. congruence.
Qed.

Theorem head_no_normalisation r1 r2 o1 o2 t1 t2 :
  wf_head r1 = true -> wf_head r2 = true -> wf_ows o1 = true -> wf_ows o2 = true ->
  read_head fixed (render_req_head r1 o1 ++ t1) = read_head fixed (render_req_head r2 o2 ++ t2) ->
  r1 = r2 /\ t1 = t2.
Proof.
  intros W1 W2 O1 O2. rewrite (head_roundtrip r1 o1 t1 W1 O1), (head_roundtrip r2 o2 t2 W2 O2).
  intros H. injection H as Hm Ht Hv Hh Htl. apply map_field_header_inj in Hh.
  destruct r1, r2. cbn [rq_method rq_target rq_version rq_headers] in *. subst. split; reflexivity.
Qed.

(* ---- a head consumes at least one byte ---- *)
Lemma read_headers_length c : forall fuel ver acc x hs r,
  read_headers c fuel ver acc x = inr (hs, r) -> (List.length r < List.length x)%nat.
Proof.
  induction fuel as [|f IH]; intros ver acc x hs r H; cbn [read_headers] in H; [discriminate|].
  destruct (read_line x) as [[l rest]|] eqn:RL; [|discriminate].
  pose proof (read_line_length _ _ _ RL) as L.
  destruct (negb (all_ascii l)); [discriminate|].
  destruct l as [|b l'].
  - injection H as _ <-. exact L.
  - destruct (parse_header (if fix_d8 c then trim_end (b :: l') else trim (b :: l'))) as [h|]; [|discriminate].
    apply IH in H. lia.
Qed.

Lemma read_headers_inl c : forall fuel ver acc x m u v hs r,
  read_headers c fuel ver acc x <> inl (HeadOk m u v hs r).
Proof.
  induction fuel as [|f IH]; intros ver acc x m u v hs r; cbn [read_headers]; [discriminate|].
  destruct (read_line x) as [[l rest]|]; [|discriminate].
  destruct (negb (all_ascii l)); [discriminate|].
  destruct l as [|b l']; [discriminate|].
  destruct (parse_header (if fix_d8 c then trim_end (b :: l') else trim (b :: l'))) as [h|]; [apply IH|discriminate].
Qed.

Lemma read_head_length c x m u v hs rest :
  read_head c x = HeadOk m u v hs rest -> (List.length rest < List.length x)%nat.
Proof.
  unfold read_head. destruct (read_line x) as [[l r1]|] eqn:RL; [|discriminate].
  pose proof (read_line_length _ _ _ RL) as L.
  destruct (negb (all_ascii l)); [discriminate|].
  destruct (parse_request_line (trim l)) as [[[m' u'] v']|]; [|discriminate].
  destruct (read_headers c (S (List.length r1)) v' [] r1) as [e|[hs' r']] eqn:RH.
  { intros ->. now apply read_headers_inl in RH. }
  intros H. injection H as _ _ _ _ <-. apply read_headers_length in RH. lia.
Qed.
