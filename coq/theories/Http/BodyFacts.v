(* Http/BodyFacts.v — the body readers deliver exactly the designated body (C03) and leave the
   connection at the first byte after it (C09): the generic argument (one-read specification =>
   arbitrary sequences of reads, `take`, drop), and its instances for the length-limited reader,
   the pre-read (buffered) reader and the upgrade reader. The chunked reader is in
   ChunkedFacts.v / ChunkedReader.v. *)
From TH Require Import Base.Bytes Base.BytesFacts Http.Response Http.Request Http.Body.
From Coq Require Import Lia ZArith ZifyN ZifyBool ZifyNat.

(* ---- the application reads with an arbitrary sequence of buffer sizes ----
   The pieces returned as data, in order; how reading ended: None = the list of buffer sizes was
   used up (the application stopped reading), Some x = the first result that was not data. *)
Fixpoint reads (c : cfg) (ns : list nat) (r : breader) (st : stream) (al : allocs)
  : list bytes * option rres * breader * stream * allocs :=
  match ns with
  | [] => ([], None, r, st, al)
  | n :: ns' =>
      match body_read c n r st al with
      | (RData d, r1, st1, al1) =>
          let '(ps, e, r2, st2, al2) := reads c ns' r1 st1 al1 in (d :: ps, e, r2, st2, al2)
      | (x, r1, st1, al1) => ([], Some x, r1, st1, al1)
      end
  end.

Definition all_pos (ns : list nat) : Prop := Forall (fun n => (0 < n)%nat) ns.
(* a reader/stream pair on which every further read reports end-of-stream and changes nothing *)
Definition stable (r : breader) (st : stream) : Prop :=
  forall n al, body_read fixed n r st al = (REof, r, st, al).
(* each piece is non-empty and fits the buffer it was read into *)
Definition pieces_fit (ns : list nat) (ps : list bytes) : Prop :=
  Forall2 (fun n p => p <> [] /\ (List.length p <= n)%nat) (firstn (List.length ps) ns) ps.

(* ---- list helpers ---- *)
Lemma firstn_app_le {A} k (a b : list A) : (k <= List.length a)%nat -> firstn k (a ++ b) = firstn k a.
Proof. intros H. rewrite firstn_app. replace (k - List.length a)%nat with O by lia. rewrite firstn_O. apply app_nil_r. Qed.
Lemma skipn_app_le {A} k (a b : list A) : (k <= List.length a)%nat -> skipn k (a ++ b) = skipn k a ++ b.
Proof. intros H. rewrite skipn_app. replace (k - List.length a)%nat with O by lia. reflexivity. Qed.
Lemma len_app a b : len (a ++ b) = (len a + len b)%N.
Proof. unfold len. rewrite app_length. lia. Qed.
Lemma length_pos {A} (x : list A) : x <> [] -> (0 < List.length x)%nat.
Proof. destruct x; [congruence|cbn; lia]. Qed.
Lemma length_pos_ne {A} (x : list A) : (0 < List.length x)%nat -> x <> [].
Proof. destruct x; [cbn; lia|congruence]. Qed.
Lemma pieces_bytes_cons d acc : pieces_bytes (d :: acc) = pieces_bytes acc ++ d.
Proof. unfold pieces_bytes. rewrite !frev_rev. cbn [rev]. rewrite concat_app. cbn [List.concat]. now rewrite app_nil_r. Qed.

Lemma src_read_data n st : (0 < n)%nat -> sbytes st <> [] ->
  src_read n st = (RData (firstn n (sbytes st)), mkS (skipn n (sbytes st)) (seof st)).
Proof. intros Hn Hb. destruct n; [lia|]. unfold src_read. destruct (sbytes st); [congruence|reflexivity]. Qed.
Lemma src_read_nil n st : (0 < n)%nat -> sbytes st = [] ->
  src_read n st = (if seof st then REof else RBlock, st).
Proof. intros Hn Hb. destruct n; [lia|]. unfold src_read. rewrite Hb. destruct (seof st); reflexivity. Qed.

(* ================= the generic argument ================= *)
Section Generic.
(* `tail`: what follows the body on the connection. `Inv rest r st`: the reader state r and the
   stream st are such that exactly `rest` of the designated body is still to be delivered. *)
Variable tail : bytes.
Variable Inv : bytes -> breader -> stream -> Prop.

(* one read with a non-empty buffer: a non-empty piece that is the next part of the body, or —
   only when nothing of the body is left — end-of-stream with the connection exactly at `tail` *)
Definition step_spec : Prop := forall n rest r st al, (0 < n)%nat -> Inv rest r st ->
  (exists d rest' r' st', body_read fixed n r st al = (RData d, r', st', al) /\
       d <> [] /\ (List.length d <= n)%nat /\ rest = d ++ rest' /\ Inv rest' r' st')
  \/ (rest = [] /\ exists r' st', body_read fixed n r st al = (REof, r', st', al) /\
       Inv [] r' st' /\ sbytes st' = tail /\ stable r' st').
Definition drop_spec : Prop := forall rest r st al, Inv rest r st ->
  sbytes (fst (body_drop fixed r st al)) = tail.

Hypothesis step : step_spec.

Theorem reads_spec : forall ns body r st al, all_pos ns -> Inv body r st ->
  exists ps e rest r' st',
    reads fixed ns r st al = (ps, e, r', st', al) /\
    body = List.concat ps ++ rest /\ Inv rest r' st' /\ pieces_fit ns ps /\
    ((e = None /\ List.length ps = List.length ns) \/
     (e = Some REof /\ rest = [] /\ sbytes st' = tail /\ stable r' st')).
Proof.
  induction ns as [|n ns IH]; intros body r st al Hpos HI.
  - exists [], None, body, r, st. cbn [reads List.concat app List.length]. repeat split; auto. constructor.
  - inversion Hpos as [|? ? Hn Hpos']; subst. cbn [reads].
    destruct (step n body r st al Hn HI) as [(d & rest' & r1 & st1 & E & Hd & Hl & Hb & HI1)|(Hb & r1 & st1 & E & HI1 & Ht & Hs)].
    + rewrite E. destruct (IH rest' r1 st1 al Hpos' HI1) as (ps & e & rest & r2 & st2 & E2 & Hb2 & HI2 & Hf & He).
      rewrite E2. exists (d :: ps), e, rest, r2, st2. repeat split; auto.
      * cbn [List.concat]. rewrite <- app_assoc, <- Hb2. exact Hb.
      * unfold pieces_fit. cbn [List.length firstn]. constructor; auto.
      * destruct He as [[-> Hlen]|He]; [left; split; [reflexivity|cbn [List.length]; lia]|right; exact He].
    + rewrite E. exists [], (Some REof), [], r1, st1. cbn [List.concat app]. repeat split; auto. constructor.
Qed.

(* consequences in the form the properties use *)
Corollary reads_prefix ns body r st al ps e r' st' al' : all_pos ns -> Inv body r st ->
  reads fixed ns r st al = (ps, e, r', st', al') ->
  exists rest, body = List.concat ps ++ rest /\ Inv rest r' st' /\ pieces_fit ns ps /\ al' = al /\
    (e = None \/ e = Some REof) /\
    (e = None -> List.length ps = List.length ns) /\
    (e = Some REof -> rest = [] /\ List.concat ps = body /\ sbytes st' = tail /\ stable r' st').
Proof.
  intros Hpos HI E. destruct (reads_spec ns body r st al Hpos HI) as (ps0 & e0 & rest & r0 & st0 & E0 & Hb & HI0 & Hf & He).
  rewrite E in E0. inversion E0; subst. exists rest. repeat split; auto.
  - destruct He as [[-> _]|[-> _]]; auto.
  - intros ->. destruct He as [[_ H]|[H _]]; [exact H|discriminate].
  - destruct He as [[H1 _]|(_ & H2 & _)]; [congruence|exact H2].
  - destruct He as [[H1 _]|(_ & H2 & _)]; [congruence|]. subst rest. now rewrite app_nil_r.
  - destruct He as [[H1 _]|(_ & _ & H2 & _)]; [congruence|exact H2].
  - destruct He as [[H1 _]|(_ & _ & _ & H2)]; [congruence|exact H2].
Qed.

(* every piece is non-empty, so end-of-stream is reached once there are more reads than bytes *)
Lemma pieces_fit_length ns ps : pieces_fit ns ps -> (List.length ps <= List.length (List.concat ps))%nat.
Proof.
  unfold pieces_fit. revert ns. induction ps as [|p ps IH]; intros ns H; [cbn; lia|].
  cbn [List.length firstn] in H. destruct ns as [|n ns]; [inversion H|]. cbn [firstn] in H.
  inversion H as [|? ? ? ? [Hp _] H']; subst. cbn [List.concat List.length]. rewrite app_length.
  specialize (IH ns H'). apply length_pos in Hp. lia.
Qed.

Corollary reads_reach_eof ns body r st al : all_pos ns -> Inv body r st ->
  (List.length body < List.length ns)%nat ->
  exists ps r' st', reads fixed ns r st al = (ps, Some REof, r', st', al) /\ List.concat ps = body /\
                    sbytes st' = tail /\ stable r' st'.
Proof.
  intros Hpos HI Hlen. destruct (reads_spec ns body r st al Hpos HI) as (ps & e & rest & r' & st' & E & Hb & HI' & Hf & He).
  destruct He as [[-> Hl]|(-> & -> & Ht & Hs)].
  - apply pieces_fit_length in Hf. subst body. rewrite app_length in Hlen. lia.
  - exists ps, r', st'. rewrite app_nil_r in Hb. auto.
Qed.

(* C09: wherever the application stops reading, dropping the request leaves the connection at `tail` *)
Hypothesis drop : drop_spec.
Corollary reads_then_drop ns body r st al ps e r' st' al' : all_pos ns -> Inv body r st ->
  reads fixed ns r st al = (ps, e, r', st', al') ->
  sbytes (fst (body_drop fixed r' st' al')) = tail.
Proof.
  intros Hpos HI E. destruct (reads_prefix _ _ _ _ _ _ _ _ _ _ Hpos HI E) as (rest & _ & HI' & _).
  eapply drop; eauto.
Qed.

(* the loop "obtain up to m bytes with an n-byte buffer": exactly the first min(m, |body|) bytes;
   end-of-stream is seen iff more than |body| bytes were asked for. Fuel |body|+1 suffices. *)
Lemma body_read_any_pos c n r st al : (0 < n)%nat -> body_read_any c n r st al = body_read c n r st al.
Proof. destruct n; [lia|reflexivity]. Qed.

Theorem take_spec : forall fuel m n body r st al acc, (0 < n)%nat -> Inv body r st ->
  (List.length body < fuel)%nat ->
  exists acc' e got rest r' st',
    take fixed fuel m n r st al acc = (acc', e, r', st', al) /\
    pieces_bytes acc' = pieces_bytes acc ++ got /\ body = got ++ rest /\ Inv rest r' st' /\
    (((len body < m)%N /\ e = EndEof /\ rest = [] /\ sbytes st' = tail /\ stable r' st') \/
     ((m <= len body)%N /\ e = EndCount /\ len got = m)).
Proof.
  induction fuel as [|f IH]; intros m n body r st al acc Hn HI Hf; [lia|]. cbn [take].
  destruct (N.eqb_spec m 0) as [->|Hm].
  - exists acc, EndCount, [], body, r, st. rewrite app_nil_r. repeat split; auto. right. unfold len. cbn. repeat split; lia.
  - assert (Hw : (0 < N.to_nat (N.min m (N.of_nat n)))%nat) by lia.
    rewrite (body_read_any_pos _ _ _ _ _ Hw).
    destruct (step _ body r st al Hw HI) as [(d & rest' & r1 & st1 & E & Hd & Hl & Hb & HI1)|(Hb & r1 & st1 & E & HI1 & Ht & Hs)].
    + rewrite E. apply length_pos in Hd. assert (Hf' : (List.length rest' < f)%nat) by (subst body; rewrite app_length in Hf; lia).
      destruct (IH (m - len d)%N n rest' r1 st1 al (d :: acc) Hn HI1 Hf') as (acc' & e & got & rest & r2 & st2 & E2 & Hp & Hb2 & HI2 & He).
      rewrite E2. exists acc', e, (d ++ got), rest, r2, st2. repeat split; auto.
      * now rewrite Hp, pieces_bytes_cons, app_assoc.
      * now rewrite <- app_assoc, <- Hb2.
      * subst body. rewrite !len_app in *. unfold len in *.
        destruct He as [(H1 & H2 & H3 & H4 & H5)|(H1 & H2 & H3)]; [left|right]; repeat split; auto; lia.
    + rewrite E. exists acc, EndEof, [], [], r1, st1. rewrite app_nil_r. subst body. repeat split; auto.
      left. unfold len. cbn [List.length]. repeat split; auto. lia.
Qed.
End Generic.

(* ================= the length-limited reader (FusedReader(EqualReader)) ================= *)
Definition lim_inv (tail rest : bytes) (r : breader) (st : stream) : Prop :=
  (r = BLimited (len rest) /\ sbytes st = rest ++ tail) \/ (rest = [] /\ r = BEmpty /\ sbytes st = tail).

Lemma stable_empty st : stable BEmpty st.
Proof. intros n al. reflexivity. Qed.

Lemma lim_step tail : step_spec tail (lim_inv tail).
Proof.
  intros n rest r st al Hn [[-> Hs]|(-> & -> & Hs)].
  - cbn [body_read]. destruct (N.eqb_spec (len rest) 0) as [H0|H0].
    + right. assert (rest = []) as -> by (destruct rest; [reflexivity|unfold len in H0; cbn in H0; lia]).
      split; [reflexivity|]. exists BEmpty, st. repeat split; auto using stable_empty. right; auto.
    + left. set (k := N.to_nat (N.min (N.of_nat n) (len rest))).
      assert (Hk : (0 < k <= List.length rest)%nat /\ (k <= n)%nat) by (unfold k, len in *; lia).
      assert (Hne : sbytes st <> []) by (rewrite Hs; destruct rest; [unfold len in H0; cbn in H0; lia|discriminate]).
      rewrite (src_read_data k st) by (auto; lia). rewrite Hs, firstn_app_le, skipn_app_le by lia.
      exists (firstn k rest), (skipn k rest), (BLimited (len rest - len (firstn k rest))), (mkS (skipn k rest ++ tail) (seof st)).
      repeat split.
      * apply length_pos_ne. rewrite firstn_length. lia.
      * rewrite firstn_length. lia.
      * now rewrite firstn_skipn.
      * left. split; [|reflexivity]. f_equal. unfold len. rewrite firstn_length, skipn_length. lia.
  - right. split; [reflexivity|]. exists BEmpty, st. cbn [body_read]. repeat split; auto using stable_empty. right; auto.
Qed.

(* EqualReader::drop with the whole rest of the body pending: exactly the rest is consumed *)
Lemma discard_full tail : forall fuel rest e al, (List.length rest <= fuel)%nat ->
  sbytes (fst (discard fixed fuel (len rest) (mkS (rest ++ tail) e) al)) = tail.
Proof.
  induction fuel as [|f IH]; intros rest e al Hf.
  - destruct rest; [reflexivity|cbn in Hf; lia].
  - cbn [discard]. destruct (N.eqb_spec (len rest) 0) as [H0|H0].
    + destruct rest; [reflexivity|unfold len in H0; cbn in H0; lia].
    + cbn [fix_d6 fixed sbytes].
      set (k := N.min (N.min (len rest) 8192) (len (rest ++ tail))).
      assert (Hk : (0 < k /\ k <= len rest)%N) by (unfold k; rewrite len_app; lia).
      destruct (N.eqb_spec k 0) as [Hk0|_]; [lia|].
      assert (Hne : rest ++ tail <> []) by (destruct rest; [unfold len in H0; cbn in H0; lia|discriminate]).
      rewrite (src_read_data (N.to_nat k)) by (cbn [sbytes]; auto; lia). cbn [sbytes seof].
      unfold len in Hk. rewrite firstn_app_le, skipn_app_le by lia.
      replace (len rest - len (firstn (N.to_nat k) rest))%N with (len (skipn (N.to_nat k) rest))
        by (unfold len; rewrite firstn_length, skipn_length; lia).
      apply IH. rewrite skipn_length. lia.
Qed.

(* ... and when the connection holds fewer bytes than the body still needs (the client went away
   or has not sent them): everything pending is consumed, nothing is left to be misread *)
Lemma discard_short : forall fuel rem x e al, (List.length x <= fuel)%nat -> (len x < rem)%N ->
  sbytes (fst (discard fixed fuel rem (mkS x e) al)) = [].
Proof.
  induction fuel as [|f IH]; intros rem x e al Hf Hr.
  - destruct x; [reflexivity|cbn in Hf; lia].
  - cbn [discard]. destruct (N.eqb_spec rem 0) as [H0|H0]; [lia|]. cbn [fix_d6 fixed sbytes].
    set (k := N.min (N.min rem 8192) (len x)).
    destruct x as [|b x].
    + destruct (N.eqb_spec k 0) as [_|Hk0]; [|unfold k, len in Hk0; cbn in Hk0; lia].
      rewrite src_read_nil by (cbn; auto; lia). cbn [seof]. destruct e; reflexivity.
    + assert (Hk : (0 < k /\ k <= len (b :: x))%N) by (unfold k, len; cbn [List.length]; lia).
      destruct (N.eqb_spec k 0) as [Hk0|_]; [lia|].
      rewrite (src_read_data (N.to_nat k)) by (cbn [sbytes]; try discriminate; lia). cbn [sbytes seof].
      apply IH.
      * rewrite skipn_length. unfold len in Hk. cbn [List.length] in *. lia.
      * unfold len in *. rewrite firstn_length, skipn_length. lia.
Qed.

Lemma lim_drop tail : drop_spec tail (lim_inv tail).
Proof.
  intros rest r st al [[-> Hs]|(-> & -> & Hs)]; cbn [body_drop]; [|exact Hs].
  destruct st as [x e]. cbn [sbytes] in *. subst x. apply discard_full. rewrite app_length. lia.
Qed.

Lemma lim_inv_init tail body e : lim_inv tail body (BLimited (len body)) (mkS (body ++ tail) e).
Proof. left. split; reflexivity. Qed.
Lemma lim_inv_stream tail rest r st : lim_inv tail rest r st -> sbytes st = rest ++ tail.
Proof. intros [[_ H]|(-> & _ & H)]; exact H. Qed.

(* ================= the pre-read small body (Cursor) ================= *)
Definition buf_inv (st0 : stream) (rest : bytes) (r : breader) (st : stream) : Prop :=
  r = BBuffered rest /\ st = st0.

Lemma buf_step st0 : step_spec (sbytes st0) (buf_inv st0).
Proof.
  intros n rest r st al Hn [-> ->]. cbn [body_read]. destruct rest as [|b rest].
  - right. split; [reflexivity|]. exists (BBuffered []), st0. repeat split.
  - left. exists (firstn n (b :: rest)), (skipn n (b :: rest)), (BBuffered (skipn n (b :: rest))), st0. repeat split.
    + apply length_pos_ne. rewrite firstn_length. cbn [List.length]. lia.
    + rewrite firstn_length. lia.
    + now rewrite firstn_skipn.
Qed.
Lemma buf_drop st0 : drop_spec (sbytes st0) (buf_inv st0).
Proof. intros rest r st al [-> ->]. reflexivity. Qed.

(* ================= the upgrade reader: the connection itself ================= *)
Theorem upgrade_reads : forall ns x e al, all_pos ns ->
  exists ps en st',
    reads fixed ns BUpgrade (mkS x e) al = (ps, en, BUpgrade, st', al) /\
    x = List.concat ps ++ sbytes st' /\ seof st' = e /\ pieces_fit ns ps /\
    ((en = None /\ List.length ps = List.length ns) \/
     (sbytes st' = [] /\ en = Some (if e then REof else RBlock))).
Proof.
  induction ns as [|n ns IH]; intros x e al Hpos.
  - exists [], None, (mkS x e). cbn. repeat split; auto. constructor.
  - inversion Hpos as [|? ? Hn Hpos']; subst. cbn [reads body_read]. destruct x as [|b x].
    + rewrite src_read_nil by auto. cbn [seof].
      exists [], (Some (if e then REof else RBlock)), (mkS [] e).
      destruct e; cbn; repeat split; auto; constructor.
    + rewrite src_read_data by (cbn [sbytes]; auto; discriminate). cbn [sbytes seof].
      destruct (IH (skipn n (b :: x)) e al Hpos') as (ps & en & st' & E & Hx & He & Hf & Hend).
      rewrite E. exists (firstn n (b :: x) :: ps), en, st'. repeat split; auto.
      * cbn [List.concat]. rewrite <- app_assoc, <- Hx. now rewrite firstn_skipn.
      * unfold pieces_fit. cbn [List.length firstn]. constructor; auto. split.
        -- apply length_pos_ne. rewrite firstn_length. cbn [List.length]. lia.
        -- rewrite firstn_length. lia.
      * destruct Hend as [[-> Hl]|Hend]; [left; split; [reflexivity|cbn [List.length]; lia]|right; exact Hend].
Qed.
