(* Http/C19Facts.v — add_header's incremental policy equals the declarative `keep`. *)
From TH Require Import Base.Bytes Base.BytesFacts Http.Response Http.C19Spec Http.ResponseFacts.
From Coq Require Import Lia.

(* the header-list part of add_header *)
Definition add_hl (l : list header) (h : header) : list header :=
  if unsendable h then l
  else if is_ct h && existsb is_ct l then replace_first_ct (hvalue h) l
  else l ++ [h].

Lemma unsendable_split h : unsendable h = forbidden h || equiv "Content-Length" h.
Proof. reflexivity. Qed.

Lemma add_header_headers r h : rheaders (add_header r h) = add_hl (rheaders r) h.
Proof.
  unfold add_header, add_hl. rewrite unsendable_split.
  destruct (forbidden h); [reflexivity|]. cbn [orb].
  destruct (equiv "Content-Length" h).
  - destruct (parse_usize (hvalue h)); reflexivity.
  - unfold is_ct. destruct (equiv "Content-Type" h && existsb (equiv "Content-Type") (rheaders r)); reflexivity.
Qed.

Lemma apply_rop_headers r o :
  rheaders (apply_rop r o) = match o with WithHeader h => add_hl (rheaders r) h | _ => rheaders r end.
Proof. destruct o; cbn [apply_rop rheaders]; auto using add_header_headers. Qed.

Lemma fold_add_header_headers hs r :
  rheaders (fold_left add_header hs r) = fold_left add_hl hs (rheaders r).
Proof. revert r; induction hs as [|h t IH]; intros r; cbn [fold_left]; [reflexivity|]. now rewrite IH, add_header_headers. Qed.

Lemma build_headers ops r :
  rheaders (build r ops) =
  fold_left add_hl (flat_map (fun o => match o with WithHeader h => [h] | _ => [] end) ops) (rheaders r).
Proof.
  unfold build. revert r; induction ops as [|o t IH]; intros r; cbn [fold_left flat_map]; [reflexivity|].
  rewrite IH, apply_rop_headers. destruct o; cbn [app fold_left]; reflexivity.
Qed.

Theorem built_headers st hs b dl ops :
  rheaders (build (new_response st hs b dl) ops) = fold_left add_hl (supplied_of hs ops) [].
Proof.
  rewrite build_headers. unfold new_response, supplied_of.
  now rewrite fold_add_header_headers, fold_left_app.
Qed.

(* ---- keep_ct algebra ---- *)
Lemma keep_ct_no_ct v c : existsb is_ct c = false -> keep_ct v c = c.
Proof.
  induction c as [|h t IH]; cbn [existsb keep_ct]; [reflexivity|].
  destruct (is_ct h); cbn [orb]; [discriminate|]. intros H. now rewrite IH.
Qed.

Lemma drop_ct_app a b : drop_ct (a ++ b) = drop_ct a ++ drop_ct b.
Proof. apply filter_app. Qed.

Lemma keep_ct_snoc v c h :
  keep_ct v (c ++ [h]) =
  if existsb is_ct c then keep_ct v c ++ (if is_ct h then [] else [h])
  else c ++ (if is_ct h then [mkH (hname h) v] else [h]).
Proof.
  induction c as [|x t IH]; cbn [app keep_ct existsb].
  - destruct (is_ct h); reflexivity.
  - destruct (is_ct x); cbn [orb].
    + rewrite drop_ct_app. cbn [drop_ct filter]. destruct (is_ct h); cbn [negb app]; rewrite ?app_nil_r; reflexivity.
    + rewrite IH. destruct (existsb is_ct t); reflexivity.
Qed.

Lemma replace_keep_ct v v' c : existsb is_ct c = true -> replace_first_ct v' (keep_ct v c) = keep_ct v' c.
Proof.
  induction c as [|x t IH]; cbn [existsb keep_ct]; [discriminate|].
  destruct (is_ct x) eqn:E; cbn [orb replace_first_ct].
  - intros _. change (equiv "Content-Type" (mkH (hname x) v)) with (is_ct (mkH (hname x) v)).
    assert (is_ct (mkH (hname x) v) = true) as -> by exact E. reflexivity.
  - intros H. change (equiv "Content-Type" x) with (is_ct x). rewrite E. now rewrite IH.
Qed.

Lemma existsb_keep_ct v c : existsb is_ct (keep_ct v c) = existsb is_ct c.
Proof.
  induction c as [|x t IH]; cbn [keep_ct existsb]; [reflexivity|].
  destruct (is_ct x) eqn:E; cbn [existsb].
  - assert (is_ct (mkH (hname x) v) = true) as -> by exact E. reflexivity.
  - now rewrite E, IH.
Qed.

Lemma existsb_filter_nil {A} (p : A -> bool) l : existsb p l = false <-> filter p l = [].
Proof.
  induction l as [|x t IH]; cbn [existsb filter]; [tauto|].
  destruct (p x); cbn [orb]; [split; discriminate|exact IH].
Qed.

Lemma keep_existsb_ct supplied :
  existsb is_ct (keep supplied) = existsb is_ct (filter (fun h => negb (unsendable h)) supplied).
Proof.
  unfold keep. set (c := filter _ supplied). destruct (rev (filter is_ct c)) as [|l r] eqn:E; [reflexivity|].
  apply existsb_keep_ct.
Qed.

Lemma header_eta h : mkH (hname h) (hvalue h) = h.
Proof. now destruct h. Qed.

(* the incremental policy is the declarative one *)
Theorem add_hl_is_keep supplied : fold_left add_hl supplied [] = keep supplied.
Proof.
  induction supplied as [|h hs IH] using rev_ind; [reflexivity|].
  rewrite fold_left_app. cbn [fold_left]. rewrite IH. unfold add_hl.
  destruct (unsendable h) eqn:Eu.
  - unfold keep. rewrite filter_app. cbn [filter]. rewrite Eu. cbn [negb]. now rewrite app_nil_r.
  - rewrite keep_existsb_ct. unfold keep. rewrite filter_app. cbn [filter]. rewrite Eu. cbn [negb].
    set (c := filter (fun h0 => negb (unsendable h0)) hs).
    rewrite filter_app. cbn [filter]. destruct (is_ct h) eqn:Ec; cbn [andb].
    + rewrite rev_app_distr. cbn [rev app]. rewrite keep_ct_snoc, Ec.
      destruct (existsb is_ct c) eqn:Ex.
      * rewrite app_nil_r. destruct (rev (filter is_ct c)) as [|l r] eqn:El.
        -- apply (f_equal (@rev _)) in El. rewrite rev_involutive in El. cbn in El.
           apply existsb_filter_nil in El. congruence.
        -- now apply replace_keep_ct.
      * assert (filter is_ct c = []) as -> by now apply existsb_filter_nil.
        cbn [rev]. now rewrite header_eta.
    + rewrite app_nil_r. destruct (rev (filter is_ct c)) as [|l r] eqn:El; [reflexivity|].
      rewrite keep_ct_snoc, Ec. destruct (existsb is_ct c) eqn:Ex; [reflexivity|].
      now rewrite keep_ct_no_ct.
Qed.

(* ---- what `keep` guarantees, in the property's words ---- *)
(* 1. every sendable header other than Content-Type is sent once, in the order given *)
Lemma drop_ct_idem t : drop_ct (drop_ct t) = drop_ct t.
Proof.
  unfold drop_ct. induction t as [|y u IH]; cbn [filter]; [reflexivity|].
  destruct (is_ct y) eqn:Ey; cbn [negb filter]; rewrite ?Ey; cbn [negb]; congruence.
Qed.

Lemma drop_ct_cons x t : drop_ct (x :: t) = if is_ct x then drop_ct t else x :: drop_ct t.
Proof. unfold drop_ct. cbn [filter]. destruct (is_ct x); reflexivity. Qed.

Lemma drop_ct_keep_ct v c : drop_ct (keep_ct v c) = drop_ct c.
Proof.
  induction c as [|x t IH]; cbn [keep_ct]; [reflexivity|]. destruct (is_ct x) eqn:E.
  - rewrite !drop_ct_cons, E. assert (is_ct (mkH (hname x) v) = true) as -> by exact E.
    apply drop_ct_idem.
  - rewrite !drop_ct_cons, E. f_equal. exact IH.
Qed.

Theorem keep_order supplied :
  drop_ct (keep supplied) = filter (fun h => negb (unsendable h) && negb (is_ct h)) supplied.
Proof.
  unfold keep. set (c := filter _ supplied).
  assert (Hc : drop_ct c = filter (fun h => negb (unsendable h) && negb (is_ct h)) supplied).
  { unfold c, drop_ct. induction supplied as [|x t IH]; cbn [filter]; [reflexivity|].
    destruct (unsendable x); cbn [negb andb filter]; [exact IH|]. destruct (is_ct x); cbn [negb]; congruence. }
  destruct (rev (filter is_ct c)); [exact Hc|]. now rewrite drop_ct_keep_ct.
Qed.

(* 2. nothing unsendable is sent *)
Lemma keep_ct_unsendable v c :
  Forall (fun h => unsendable h = false) c -> Forall (fun h => unsendable h = false) (keep_ct v c).
Proof.
  induction 1 as [|x t Hx Ht IH]; cbn [keep_ct]; [constructor|]. destruct (is_ct x).
  - constructor; [exact Hx|]. unfold drop_ct. apply Forall_forall. intros y Hy.
    apply filter_In in Hy as [Hy _]. rewrite Forall_forall in Ht. auto.
  - constructor; auto.
Qed.

Theorem keep_sendable supplied : Forall (fun h => unsendable h = false) (keep supplied).
Proof.
  unfold keep. set (c := filter _ supplied).
  assert (Hc : Forall (fun h => unsendable h = false) c).
  { apply Forall_forall. intros y Hy. apply filter_In in Hy as [_ Hy]. now destruct (unsendable y). }
  destruct (rev (filter is_ct c)); [exact Hc|]. now apply keep_ct_unsendable.
Qed.

(* 3. at most one Content-Type, carrying the value supplied last *)
Lemma filter_ct_drop_ct t : filter is_ct (drop_ct t) = [].
Proof.
  unfold drop_ct. induction t as [|y u IH]; cbn [filter]; [reflexivity|].
  destruct (is_ct y) eqn:E; cbn [negb filter]; rewrite ?E; exact IH.
Qed.

Lemma keep_ct_one v c : existsb is_ct c = true -> map hvalue (filter is_ct (keep_ct v c)) = [v].
Proof.
  induction c as [|x t IH]; cbn [existsb keep_ct]; [discriminate|]. destruct (is_ct x) eqn:E; cbn [orb filter].
  - intros _. assert (is_ct (mkH (hname x) v) = true) as -> by exact E. cbn [map hvalue].
    now rewrite filter_ct_drop_ct.
  - intros H. rewrite E. auto.
Qed.

Theorem keep_content_type supplied :
  map hvalue (filter is_ct (keep supplied)) =
  match rev (filter is_ct (filter (fun h => negb (unsendable h)) supplied)) with
  | [] => []
  | l :: _ => [hvalue l]
  end.
Proof.
  unfold keep. set (c := filter _ supplied). destruct (rev (filter is_ct c)) as [|l r] eqn:E.
  - apply (f_equal (@rev _)) in E. rewrite rev_involutive in E. cbn in E. now rewrite E.
  - apply keep_ct_one. destruct (existsb is_ct c) eqn:Ex; [reflexivity|].
    apply existsb_filter_nil in Ex. rewrite Ex in E. discriminate.
Qed.

(* 4. the header block that raw_print sends is policy_headers followed by the framing header *)
Lemma existsb_cons_const (p : header -> bool) x l : p x = false -> existsb p (x :: l) = existsb p l.
Proof. intros H. cbn [existsb]. now rewrite H. Qed.

Theorem final_is_policy date st hs b dl ops up te dlen :
  let r := build (new_response st hs b dl) ops in
  final_headers date r up te dlen =
  policy_headers date (supplied_of hs ops) up ++
  match te, dlen with
  | Some Chunked, _ => [mkH (s "Transfer-Encoding") (s "chunked")]
  | Some Identity, Some l => [mkH (s "Content-Length") (print_dec l)]
  | _, _ => []
  end.
Proof.
  intros r. rewrite final_headers_split. f_equal.
  unfold base_headers, final_headers, policy_headers.
  assert (Hk : rheaders r = keep (supplied_of hs ops)).
  { unfold r. now rewrite built_headers, add_hl_is_keep. }
  rewrite <- Hk. change (equiv "Date") with is_date. change (equiv "Server") with is_server.
  destruct (existsb is_date (rheaders r)) eqn:Ed.
  - destruct (existsb is_server (rheaders r)); destruct up; cbn [app]; rewrite ?app_nil_r; reflexivity.
  - rewrite existsb_cons_const by reflexivity.
    destruct (existsb is_server (rheaders r)); destruct up; cbn [app]; rewrite ?app_nil_r; reflexivity.
Qed.

(* 5. a supplied Content-Length only sets the declared length *)
Theorem cl_sets_length r h v :
  forbidden h = false -> equiv "Content-Length" h = true -> parse_usize (hvalue h) = Some v ->
  add_header r h = set_length r (Some v).
Proof. unfold add_header. now intros -> -> ->. Qed.
Theorem bad_cl_ignored r h :
  forbidden h = false -> equiv "Content-Length" h = true -> parse_usize (hvalue h) = None ->
  add_header r h = r.
Proof. unfold add_header. now intros -> -> ->. Qed.

(* 6. the convenience constructors declare exactly the byte length of their data *)
Theorem constructor_lengths d st :
  data_length (from_data d) = Some (len d) /\ rbody (from_data d) = d /\
  data_length (from_string d) = Some (len d) /\ rbody (from_string d) = d /\
  data_length (empty_response st) = Some 0%N /\ rbody (empty_response st) = [].
Proof. repeat split. Qed.
