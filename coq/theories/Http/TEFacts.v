(* Http/TEFacts.v — the TE decision of choose_transfer_encoding equals the reference
   "most preferred supported coding with q > 0, ties by header order". *)
From TH Require Import Base.Bytes Http.Response Http.C05Spec.
From Coq Require Import ZArith Lia.
Open Scope Z_scope.

(* ---- the code's scan, returning the element ---- *)
Fixpoint first_elig (l : list (bytes * Z)) : option (bytes * Z) :=
  match l with [] => None | e :: t => if eligible e then Some e else first_elig t end.

Lemma first_supported_elig l : first_supported l = coding_of (first_elig l).
Proof.
  induction l as [|[n z] t IH]; cbn [first_supported first_elig]; [reflexivity|].
  unfold eligible; cbn [fst snd]. destruct (z <=? 0); cbn [negb andb]; [exact IH|].
  destruct (supported n) eqn:E; cbn [coding_of fst]; [now rewrite E|exact IH].
Qed.

Fixpoint sorted (l : list (bytes * Z)) : Prop :=
  match l with [] => True | y :: t => (forall z, In z t -> snd z <= snd y) /\ sorted t end.

Lemma in_insert x l z : In z (insert_desc x l) -> z = x \/ In z l.
Proof.
  induction l as [|y t IH]; cbn [insert_desc]; intros H.
  - destruct H as [<-|[]]; auto.
  - destruct (snd y <? snd x); cbn [In] in *; intuition auto.
Qed.

Lemma sorted_insert x l : sorted l -> sorted (insert_desc x l).
Proof.
  induction l as [|y t IH]; cbn [insert_desc sorted]; intros H.
  - split; [intros z []|exact I].
  - destruct H as [Hy Ht]. destruct (snd y <? snd x) eqn:E; cbn [sorted].
    + split; [|split; assumption]. intros z [<-|Hz]; [lia|]. specialize (Hy z Hz). lia.
    + split; [|apply IH; assumption]. intros z Hz. apply in_insert in Hz as [->|Hz]; [lia|auto].
Qed.

Lemma sorted_sort l : sorted (sort_desc l).
Proof.
  unfold sort_desc. rewrite <- fold_left_rev_right. induction (rev l) as [|x t IH]; cbn [fold_right sorted]; auto.
  apply sorted_insert, IH.
Qed.

Lemma sort_desc_snoc l x : sort_desc (l ++ [x]) = insert_desc x (sort_desc l).
Proof. unfold sort_desc. now rewrite fold_left_app. Qed.

Lemma first_elig_in l e : first_elig l = Some e -> In e l.
Proof.
  induction l as [|y t IH]; cbn [first_elig]; [discriminate|]. destruct (eligible y).
  - intros [= ->]. now left.
  - intros H. right. auto.
Qed.

Lemma first_elig_insert x l : sorted l ->
  first_elig (insert_desc x l) = if eligible x then better (first_elig l) x else first_elig l.
Proof.
  induction l as [|y t IH]; cbn [insert_desc]; intros Hs.
  - cbn [first_elig better]. destruct (eligible x); reflexivity.
  - destruct Hs as [Hy Ht]. destruct (snd y <? snd x) eqn:E.
    + cbn [first_elig]. destruct (eligible x) eqn:Ex; [|reflexivity].
      destruct (eligible y) eqn:Ey; cbn [better]; [now rewrite E|].
      destruct (first_elig t) as [z|] eqn:Ez; cbn [better]; [|reflexivity].
      apply first_elig_in in Ez. specialize (Hy z Ez).
      destruct (Z.ltb_spec (snd z) (snd x)); [reflexivity|lia].
    + cbn [first_elig]. destruct (eligible y) eqn:Ey.
      * destruct (eligible x); cbn [better]; now rewrite ?E.
      * now apply IH.
Qed.

Lemma first_elig_sort l : first_elig (sort_desc l) = first_argmax (filter eligible l).
Proof.
  induction l as [|x l IH] using rev_ind; [reflexivity|].
  rewrite sort_desc_snoc, first_elig_insert by apply sorted_sort.
  unfold first_argmax in *. rewrite filter_app, fold_left_app, <- IH. cbn [filter].
  destruct (eligible x); reflexivity.
Qed.

(* the sort-then-scan of response.rs:144-163 is the reference choice *)
Theorem wish_is_reference l : first_supported (sort_desc l) = ref_wish l.
Proof. unfold ref_wish. now rewrite first_supported_elig, first_elig_sort. Qed.

(* ---- sanity: the reference really is "a maximal eligible entry, the earliest among equals" ---- *)
Lemma first_argmax_max_aux l cur :
  match fold_left better l cur with
  | None => cur = None /\ l = []
  | Some m => (forall e, In e l -> snd e <= snd m) /\
              (forall c, cur = Some c -> snd c <= snd m) /\
              (cur = Some m \/ In m l)
  end.
Proof.
  revert cur; induction l as [|x l IH]; intros cur; cbn [fold_left].
  - destruct cur as [c|]; [|auto]. repeat split; [intros e []| |now left]. intros c' [= ->]. lia.
  - specialize (IH (better cur x)). destruct (fold_left better l (better cur x)) as [m|].
    + destruct IH as (H1 & H2 & H3). repeat split.
      * intros e [<-|He]; [|auto]. destruct cur as [c|]; cbn [better] in H2.
        -- destruct (Z.ltb_spec (snd c) (snd x)); specialize (H2 _ eq_refl); lia.
        -- specialize (H2 _ eq_refl). lia.
      * intros c ->. cbn [better] in H2. destruct (Z.ltb_spec (snd c) (snd x)); specialize (H2 _ eq_refl); lia.
      * destruct H3 as [H3|H3]; [|right; now right]. destruct cur as [c|]; cbn [better] in H3.
        -- destruct (snd c <? snd x); inversion H3; subst; [right; now left|now left].
        -- inversion H3; subst. right; now left.
    + destruct IH as [H _]. destruct cur; cbn [better] in H; [destruct (snd p <? snd x)|]; discriminate.
Qed.

Theorem first_argmax_is_max l m : first_argmax l = Some m ->
  In m l /\ forall e, In e l -> snd e <= snd m.
Proof.
  intros H. pose proof (first_argmax_max_aux l None) as A. unfold first_argmax in H. rewrite H in A.
  destruct A as (A1 & _ & [A3|A3]); [discriminate|auto].
Qed.

Theorem first_argmax_none l : first_argmax l = None -> l = [].
Proof.
  intros H. pose proof (first_argmax_max_aux l None) as A. unfold first_argmax in H. rewrite H in A. tauto.
Qed.
