(* Http/Ahead.v — read-ahead on one connection (property C11): which requests the connection thread
   can parse and hand to the application while NONE has been answered, and what releases the
   successors of a request whose body is streamed. The connection thread (ClientConnection::next,
   src/client.rs) parses the next head as soon as it holds the socket reader: a request without a
   body or with a pre-buffered body (request.rs: 0 < Content-Length <= 1024, no Expect, no upgrade,
   no Transfer-Encoding) gives the reader back at once; a request with a streamed body keeps it
   until the body has been read to its end (the fuse drops the inner reader) or the request goes
   away (respond / drop / into_writer). MODEL file: definitions only. *)
From TH Require Import Base.Bytes Http.Response Http.Request Http.Body Http.Serve.
Open Scope char_scope.

Inductive ahead_stop :=
| AEnd          (* no further complete head in what the client has sent *)
| ALast         (* the request just delivered ends the connection *)
| ARefused      (* a head was refused (400 / 417 / non-ASCII): the connection ends *)
| AWaitsTurn    (* an HTTP/2.0 or 3.0 head follows unanswered requests: the connection thread writes the
                   505 through that request's own writer, whose turn only comes when every earlier
                   request has been answered (sequential.rs): nothing behind it is parsed until then *)
| AHolds (r : breader) (st : stream) (last : bool).
                (* the last delivered request holds the socket reader; last = it ends the connection
                   (ClientConnection::next sets no_more_requests: nothing is parsed after it) *)

(* requests obtainable from st without any action of the application, oldest first *)
Fixpoint ahead_loop (c : cfg) (fuel : nat) (st : stream) (acc : list bytes) : list bytes * ahead_stop :=
  match fuel with
  | O => (frev acc, AEnd)
  | S f =>
      match read_head c (sbytes st) with
      | HeadOk m url ver hs rest =>
          match framing c hs with
          | FrOk kind bl expects =>
              let st1 := mkS rest (seof st) in
              if ver_gt_11 ver then
                (* refused with 505 by the connection thread itself, which then drops the request; the
                   505 needs the writer's turn: with unanswered requests before it the thread waits *)
                if fix_d5 c then
                  match kind with
                  | KBuffered n =>
                      if (n <=? len rest)%N then
                        match acc with
                        | [] => ahead_loop c f (mkS (skipn (N.to_nat n) rest) (seof st)) acc
                        | _ => (frev acc, AWaitsTurn)
                        end
                      else (frev acc, AEnd)      (* new_request still waits for the small body *)
                  | _ =>
                      match acc with
                      | [] =>
                          match kind with
                          | KLimited n => ahead_loop c f (fst (body_drop c (BLimited n) st1 [])) acc
                          | KChunked => ahead_loop c f (fst (body_drop c (BChunked None false) st1 [])) acc
                          | _ => ahead_loop c f st1 acc      (* KEmpty; KUpgrade: the raw reader is just dropped *)
                          end
                      | _ => (frev acc, AWaitsTurn)
                      end
                  end
                else (frev acc, AEnd)
              else
              match kind with
              | KEmpty => if last_request ver hs then (frev (url :: acc), ALast) else ahead_loop c f st1 (url :: acc)
              | KBuffered n =>
                  if (n <=? len rest)%N then
                    if last_request ver hs then (frev (url :: acc), ALast)
                    else ahead_loop c f (mkS (skipn (N.to_nat n) rest) (seof st)) (url :: acc)
                  else (frev acc, AEnd)
              | KLimited n => (frev (url :: acc), AHolds (BLimited n) st1 (last_request ver hs))
              | KChunked => (frev (url :: acc), AHolds (BChunked None false) st1 (last_request ver hs))
              | KUpgrade => (frev (url :: acc), AHolds BUpgrade st1 (last_request ver hs))
              end
          | _ => (frev acc, ARefused)
          end
      | HeadEof => (frev acc, AEnd)
      | _ => (frev acc, ARefused)
      end
  end.

Definition ahead (c : cfg) (st : stream) : list bytes * ahead_stop :=
  ahead_loop c (S (List.length (sbytes st))) st [].

(* what the application does with the request that holds the reader *)
Inductive release :=
| RlReadAll          (* reads the body until end-of-stream, keeps the request *)
| RlReadPart (m : N) (* reads m bytes (fewer than the body), keeps the request *)
| RlGoesAway.        (* respond / drop / into_writer: the request and its reader are dropped *)

(* two rounds: the requests obtainable at once, and those that become obtainable after the
   application has acted on the request that holds the reader (going away = the request has been
   answered or dropped AND its answer written, which needs every earlier request to be answered
   first; reading needs nothing of the kind). Meaningful when the first round stops with AHolds. *)
Definition ahead_two (c : cfg) (a : release) (st : stream) : list bytes * list bytes :=
  let '(got, stop) := ahead c st in
  match stop with
  | AHolds r st1 true => (got, [])       (* the holder ends the connection: nothing is parsed after it *)
  | AHolds r st1 false =>
      let fuel := S (List.length (sbytes st1)) in
      match a with
      | RlGoesAway => (got, fst (ahead c (fst (body_drop c r st1 []))))
      | RlReadAll =>
          match take c fuel ALL 4096 r st1 [] [] with
          | (_, EndEof, BUpgrade, _, _) => (got, [])                 (* the raw stream is not fused *)
          | (_, EndEof, _, st2, _) => (got, fst (ahead c st2))
          | _ => (got, [])
          end
      | RlReadPart m =>
          match take c fuel m 7 r st1 [] [] with
          | (_, EndEof, BUpgrade, _, _) => (got, [])
          | (_, EndEof, _, st2, _) => (got, fst (ahead c st2))
          | _ => (got, [])                                            (* still held *)
          end
      end
  | _ => (got, [])
  end.
