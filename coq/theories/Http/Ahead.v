(* Http/Ahead.v — read-ahead on one connection (property C11): which requests the connection thread
   can parse and hand to the application while NONE has been answered, and what releases the
   successors of a request whose body is streamed. The connection thread (ClientConnection::next,
   src/client.rs) parses the next head as soon as it holds the socket reader: a request without a
   body or with a pre-buffered body (request.rs: 0 < Content-Length <= 1024, no Expect, no upgrade,
   no Transfer-Encoding) gives the reader back at once; a request with a streamed body keeps it
   until the body has been read to its end (the fuse drops the inner reader) or the request goes
   away (respond / drop / into_writer). MODEL file: definitions only. *)
From TH Require Import Base.Bytes Http.Response Http.Request Http.Body Http.Serve.
Open Scope char_scope.

Inductive ahead_stop :=
| AEnd          (* no further complete head in what the client has sent *)
| ALast         (* the request just delivered ends the connection *)
| ARefused      (* a head was refused (400 / 417 / non-ASCII): the connection ends *)
| AHolds (r : breader) (st : stream).   (* the last delivered request holds the socket reader *)

(* requests obtainable from st without any action of the application, oldest first *)
Fixpoint ahead_loop (c : cfg) (fuel : nat) (st : stream) (acc : list bytes) : list bytes * ahead_stop :=
  match fuel with
  | O => (frev acc, AEnd)
  | S f =>
      match read_head c (sbytes st) with
      | HeadOk m url ver hs rest =>
          match framing c hs with
          | FrOk kind bl expects =>
              let st1 := mkS rest (seof st) in
              if ver_gt_11 ver then
                (* refused with 505 by the connection thread itself, which drops the request *)
                if fix_d5 c then
                  match kind with
                  | KEmpty => ahead_loop c f st1 acc
                  | KBuffered n =>
                      if (n <=? len rest)%N then ahead_loop c f (mkS (skipn (N.to_nat n) rest) (seof st)) acc
                      else (frev acc, AEnd)
                  | KLimited n => ahead_loop c f (fst (body_drop c (BLimited n) st1 [])) acc
                  | KChunked => ahead_loop c f (fst (body_drop c (BChunked None false) st1 [])) acc
                  | KUpgrade => (frev acc, AEnd)
                  end
                else (frev acc, AEnd)
              else
              match kind with
              | KEmpty => if last_request ver hs then (frev (url :: acc), ALast) else ahead_loop c f st1 (url :: acc)
              | KBuffered n =>
                  if (n <=? len rest)%N then
                    if last_request ver hs then (frev (url :: acc), ALast)
                    else ahead_loop c f (mkS (skipn (N.to_nat n) rest) (seof st)) (url :: acc)
                  else (frev acc, AEnd)
              | KLimited n => (frev (url :: acc), AHolds (BLimited n) st1)
              | KChunked => (frev (url :: acc), AHolds (BChunked None false) st1)
              | KUpgrade => (frev (url :: acc), AHolds BUpgrade st1)
              end
          | _ => (frev acc, ARefused)
          end
      | HeadEof => (frev acc, AEnd)
      | _ => (frev acc, ARefused)
      end
  end.

Definition ahead (c : cfg) (st : stream) : list bytes * ahead_stop :=
  ahead_loop c (S (List.length (sbytes st))) st [].

(* what the application does with the request that holds the reader *)
Inductive release :=
| RlReadAll          (* reads the body until end-of-stream, keeps the request *)
| RlReadPart (m : N) (* reads m bytes (fewer than the body), keeps the request *)
| RlGoesAway.        (* respond / drop / into_writer: the request and its reader are dropped *)

(* two rounds: the requests obtainable at once, and those that become obtainable after the
   application has acted on the request that holds the reader *)
Definition ahead_two (c : cfg) (a : release) (st : stream) : list bytes * list bytes :=
  let '(got, stop) := ahead c st in
  match stop with
  | AHolds r st1 =>
      let fuel := S (List.length (sbytes st1)) in
      match a with
      | RlGoesAway => (got, fst (ahead c (fst (body_drop c r st1 []))))
      | RlReadAll =>
          match take c fuel ALL 4096 r st1 [] [] with
          | (_, EndEof, BUpgrade, _, _) => (got, [])                 (* the raw stream is not fused *)
          | (_, EndEof, _, st2, _) => (got, fst (ahead c st2))
          | _ => (got, [])
          end
      | RlReadPart m =>
          match take c fuel m 7 r st1 [] [] with
          | (_, EndEof, BUpgrade, _, _) => (got, [])
          | (_, EndEof, _, st2, _) => (got, fst (ahead c st2))
          | _ => (got, [])                                            (* still held *)
          end
      end
  | _ => (got, [])
  end.
