(* Http/C18Facts.v — C18: the interim 100 Continue response. When the expectation is recognised,
   that the body is then not pre-read, and what one iteration of serve_loop puts on the wire. *)
From TH Require Import Base.Bytes Base.BytesFacts Http.Response Http.Request Http.Body Http.Serve
  Http.ServeFacts Http.AllocFacts Http.C12Facts.
From Coq Require Import Lia ZArith ZifyN ZifyBool ZifyNat.
Open Scope char_scope.

Lemma eq_ci_spec a b : eq_ci a b = true <-> lower a = lower b.
Proof. unfold eq_ci. apply beq_eq. Qed.

(* ---- recognition of the expectation by `framing` ---- *)
Lemma framing_expect c hs :
  framing c hs = FrBadContentLength \/
  match header_value "Expect" hs with
  | None => exists k bl, framing c hs = FrOk k bl false
  | Some v => if eq_ci v (s "100-continue") then exists k bl, framing c hs = FrOk k bl true
              else framing c hs = FrExpectationFailed
  end.
Proof.
  unfold framing.
  match goal with |- match ?x with _ => _ end = _ \/ _ => destruct x as [cl0|] end; [right|left; reflexivity].
  destruct (header_value "Expect" hs) as [v|]; [destruct (eq_ci v (s "100-continue"))|]; eauto.
Qed.

(* in terms of the header list: the first header named Expect, compared without regard to case *)
Theorem expect_recognised c hs : framing c hs <> FrBadContentLength ->
  (forall k bl e, framing c hs = FrOk k bl e ->
     (e = true <-> exists v, first_value (s "Expect") hs v /\ lower v = lower (s "100-continue"))) /\
  (framing c hs = FrExpectationFailed <->
     exists v, first_value (s "Expect") hs v /\ lower v <> lower (s "100-continue")).
Proof.
  intros Hn. destruct (framing_expect c hs) as [H|H]; [contradiction|].
  pose proof (header_value_spec "Expect" hs) as Hs.
  destruct (header_value "Expect" hs) as [v|] eqn:Ev.
  - destruct (eq_ci v (s "100-continue")) eqn:E.
    + destruct H as (k0 & bl0 & H). rewrite H. split.
      * intros k bl e [= <- <- <-]. split; [intros _|reflexivity]. exists v. split; [exact Hs|apply eq_ci_spec, E].
      * split; [discriminate|]. intros (v' & Hv' & Hne). apply first_value_header_value in Hv'.
        rewrite Ev in Hv'. injection Hv' as <-. apply eq_ci_spec in E. contradiction.
    + rewrite H. split.
      * intros k bl e [=].
      * split; [intros _|reflexivity]. exists v. split; [exact Hs|]. intros Hl. apply eq_ci_spec in Hl. congruence.
  - destruct H as (k0 & bl0 & H). rewrite H. split.
    + intros k bl e [= <- <- <-]. split; [discriminate|].
      intros (v' & Hv' & _). apply first_value_header_value in Hv'. congruence.
    + split; [discriminate|]. intros (v' & Hv' & _). apply first_value_header_value in Hv'. congruence.
Qed.

(* with the expectation the body is never read before the application asks for it *)
Theorem expect_not_prebuffered c hs k bl : framing c hs = FrOk k bl true -> forall n, k <> KBuffered n.
Proof.
  intros H n. apply framing_kind in H as (u & te & ->). unfold kind_of.
  destruct u; [discriminate|]. destruct bl as [n0|]; [|destruct te; discriminate].
  destruct (n0 =? 0)%N; [discriminate|]. rewrite andb_false_r. discriminate.
Qed.

(* the kinds that remain, and the reader each of them gives: with a Content-Length n > 0 (and no
   upgrade) the reader is the exact-length reader over n bytes *)
Theorem expect_reader c hs k bl rest eof al : framing c hs = FrOk k bl true ->
  exists rd, built_of k rest eof al = inl (Some (rd, mkS rest eof, al)) /\
    (k = KUpgrade /\ rd = BUpgrade \/
     (exists n, bl = Some n /\ n <> 0%N /\ k = KLimited n /\ rd = BLimited n) \/
     (bl = Some 0%N /\ k = KEmpty /\ rd = BEmpty) \/
     (bl = None /\ (k = KChunked /\ rd = BChunked None false \/ k = KEmpty /\ rd = BEmpty))).
Proof.
  intros H. apply framing_kind in H as (u & te & ->). unfold kind_of.
  destruct u; [exists BUpgrade; split; [reflexivity|auto]|].
  destruct bl as [n0|].
  - destruct (N.eqb_spec n0 0) as [->|Hn].
    + exists BEmpty. split; [reflexivity|]. right; right; left. auto.
    + rewrite andb_false_r. exists (BLimited n0). split; [reflexivity|]. right; left. exists n0. auto.
  - destruct te; [exists (BChunked None false)|exists BEmpty]; (split; [reflexivity|]); right; right; right; auto.
Qed.

(* a plain request with Expect: 100-continue and Content-Length: n > 0 *)
Theorem expect_limited hs v n e :
  header_value "Transfer-Encoding" hs = None ->
  header_value "Content-Length" hs = Some v -> v <> [] -> forallb is_digit v = true ->
  parse_dec v = Some n -> n <> 0%N ->
  match header_value "Connection" hs with
  | Some cv => contains_sub (s "upgrade") (lower cv) | None => false end = false ->
  header_value "Expect" hs = Some e -> eq_ci e (s "100-continue") = true ->
  framing fixed hs = FrOk (KLimited n) (Some n) true.
Proof.
  intros Hte Hcl Hv Hd Hp Hn Hc He Hci. unfold framing. rewrite Hte, Hcl, He, Hci, Hc.
  cbn [fix_d9 fixed]. destruct v as [|v0 v1]; [contradiction|]. rewrite Hd, Hp.
  destruct (N.eqb_spec n 0); [contradiction|]. now rewrite andb_false_r.
Qed.

(* ---- the interim response itself ---- *)
Definition interim (date : bytes) (ver : version) (hs : list header) : bytes :=
  fst (render date (empty_response 100) ver hs true None).

Lemma interim_render date ver hs :
  render date (empty_response 100) ver hs true None =
  (render_head ver 100 [mkH (s "Server") (s "tiny-http (Rust)"); mkH (s "Date") date;
                        mkH (s "Content-Length") (s "0")], true).
Proof.
  unfold render, raw_print, choose_te. change (empty_response 100) with (mkR 100 [] [] (Some 0%N) None).
  cbn [status data_length].
  assert (H : raw_print_with Identity date (mkR 100 [] [] (Some 0%N) None) ver true None =
              render_head ver 100 [mkH (s "Server") (s "tiny-http (Rust)"); mkH (s "Date") date;
                                   mkH (s "Content-Length") (s "0")]).
  { unfold raw_print_with, final_headers. cbn [status rheaders data_length existsb rbody orb].
    rewrite app_nil_r. reflexivity. }
  destruct (ver_le ver (1, 0)%N); [|change ((100 <? 200)%N || (100 =? 204)%N) with true; cbn iota];
    rewrite H; reflexivity.
Qed.

Lemma w100_of_cases date act ex ver hs :
  w100_of date act ex ver hs =
  (if ex && negb (match a_reads act with [] => true | _ => false end) then interim date ver hs else [], true).
Proof.
  unfold w100_of, interim. destruct (a_reads act); [now rewrite andb_false_r|].
  destruct ex; [|reflexivity]. rewrite interim_render. reflexivity.
Qed.

(* ---- what one delivered request puts on the wire ---- *)
Definition step_wire (r : step_result) : bytes :=
  match r with SDone o => o_wire o | SCont _ _ w _ _ _ => w end.
Definition final_bytes (date : bytes) (act : action) (m : bytes) (ver : version) (hs : list header) : bytes :=
  fst (fin_wire date (a_finish act) m ver hs).
Definition asks_body (act : action) : bool := match a_reads act with [] => false | _ => true end.

Section Deliver.
Variables (c : cfg) (date : bytes) (script : list action) (dflt : action)
          (wire : bytes) (reqs : list delivered) (ok : bool)
          (m url : bytes) (ver : version) (hs : list header) (bl : option N) (ex : bool)
          (rd : breader) (st1 : stream) (al1 : allocs).
Local Notation act := (act_of script dflt).
Local Notation h := (handle c date act m ver hs ex rd st1 al1).
Local Notation dstep := (deliver_step c date script dflt wire reqs ok m url ver hs bl ex rd st1 al1).

Theorem deliver_wire : ver_gt_11 ver = false ->
  step_wire dstep =
  wire ++ (if ex && asks_body act then interim date ver hs else [])
       ++ (match h_end h with EndBlock => [] | _ => final_bytes date act m ver hs end).
Proof.
  intros Hv. pose proof (handle_w100 c date act m ver hs ex rd st1 al1) as Hw.
  rewrite w100_of_cases in Hw. injection Hw as Hw _.
  pose proof (handle_wfin c date act m ver hs ex rd st1 al1) as Hfin.
  assert (Hf : h_wfin h = final_bytes date act m ver hs) by (unfold final_bytes; now rewrite <- Hfin).
  assert (Ha : negb (match a_reads act with [] => true | _ :: _ => false end) = asks_body act)
    by (unfold asks_body; destruct (a_reads act); reflexivity).
  rewrite Ha in Hw.
  destruct (h_end h) eqn:E.
  4: { rewrite (deliver_blocked _ _ _ _ _ _ _ _ _ _ _ _ _ _ _ _ Hv E). cbn [step_wire o_wire].
       now rewrite Hw, app_nil_r. }
  all: destruct (last_request ver hs) eqn:El;
    [rewrite deliver_last by (try assumption; rewrite E; discriminate)
    |rewrite deliver_continues by (try assumption; rewrite E; discriminate)];
    cbn [step_wire o_wire]; now rewrite Hw, Hf.
Qed.

(* the three cases of the property *)
Corollary expects_and_asks : ver_gt_11 ver = false -> ex = true -> a_reads act <> [] ->
  step_wire dstep = wire ++ interim date ver hs
                         ++ (match h_end h with EndBlock => [] | _ => final_bytes date act m ver hs end).
Proof.
  intros Hv He Hr. rewrite deliver_wire by exact Hv. rewrite He. unfold asks_body.
  destruct (a_reads act); [contradiction|reflexivity].
Qed.

Corollary expects_not_asked : ver_gt_11 ver = false -> a_reads act = [] ->
  step_wire dstep = wire ++ (match h_end h with EndBlock => [] | _ => final_bytes date act m ver hs end).
Proof.
  intros Hv Hr. rewrite deliver_wire by exact Hv. unfold asks_body. rewrite Hr, andb_false_r. reflexivity.
Qed.

Corollary no_expectation : ver_gt_11 ver = false -> ex = false ->
  step_wire dstep = wire ++ (match h_end h with EndBlock => [] | _ => final_bytes date act m ver hs end).
Proof. intros Hv He. rewrite deliver_wire by exact Hv. rewrite He. reflexivity. Qed.
End Deliver.

(* without reads the handler's loop cannot block, so the final answer is always there *)
Lemma handle_no_reads_end c date act m ver hs ex rd st1 al1 : a_reads act = [] ->
  (forall p, a_finish act <> FUpgrade p) ->
  h_end (handle c date act m ver hs ex rd st1 al1) = EndCount.
Proof.
  intros Hr Hfin.
  destruct (handle_finish c date act m ver hs ex rd st1 al1 [] EndCount rd st1 al1) as (rd3 & st3 & Ef & _).
  { unfold reads_of. rewrite Hr. reflexivity. }
  destruct (a_finish act) as [code body declared| |data|proto]; cbn [finish_of] in Ef.
  - destruct (render _ _ _ _ _ _) in Ef. now inversion Ef.
  - destruct (render _ _ _ _ _ _) in Ef. now inversion Ef.
  - now inversion Ef.
  - destruct (Hfin proto eq_refl).
Qed.

Lemma frev_cons_app {A} (d : A) l : frev (d :: l) = frev l ++ [d].
Proof. now rewrite !frev_rev. Qed.

(* ---- the same at the level of serve_loop: one iteration that delivers a request ---- *)
Section OneStep.
Variables (c : cfg) (date : bytes) (script : list action) (dflt : action) (st : stream)
          (wire : bytes) (reqs : list delivered) (al : allocs) (ok : bool)
          (m url : bytes) (ver : version) (hs : list header) (rest : bytes)
          (kind : body_kind) (bl : option N) (ex : bool) (rd : breader) (st1 : stream) (al1 : allocs).
Hypothesis Hh : read_head c (sbytes st) = HeadOk m url ver hs rest.
Hypothesis Hf : framing c hs = FrOk kind bl ex.
Hypothesis Hb : built_of kind rest (seof st) al = inl (Some (rd, st1, al1)).
Hypothesis Hv : ver_gt_11 ver = false.
Local Notation act := (act_of script dflt).

(* `blocked`: the handler's reads found no byte pending although the client has not closed *)
Local Notation h := (handle c date act m ver hs ex rd st1 al1).

Theorem one_step_wire f : exists (blocked : bool) (d : delivered) st' al' ok',
  let W := wire ++ (if ex && asks_body act then interim date ver hs else [])
                ++ (if blocked then [] else final_bytes date act m ver hs) in
  serve_loop c date (S f) script dflt st wire reqs al ok =
    (if blocked then mkO (frev reqs ++ [d]) W CHang al' ok'
     else if last_request ver hs then mkO (frev reqs ++ [d]) W CClosed al' ok'
     else serve_loop c date f (script_tl script) dflt st' W (d :: reqs) al' ok') /\
  d_method d = m /\ d_url d = url /\ d_headers d = hs /\
  (a_reads act = [] -> (forall p, a_finish act <> FUpgrade p) -> blocked = false).
Proof.
  pose proof (deliver_wire c date script dflt wire reqs ok m url ver hs bl ex rd st1 al1 Hv) as Hw.
  assert (Hs : serve_step c date script dflt st wire reqs al ok =
               deliver_step c date script dflt wire reqs ok m url ver hs bl ex rd st1 al1)
    by exact (step_delivered _ _ _ _ _ _ _ _ _ _ _ _ _ _ Hh _ _ _ _ _ _ Hf Hb).
  exists (match h_end h with EndBlock => true | _ => false end),
         (mkD m url ver hs bl (pieces_bytes (h_got h)) (h_end h)), (h_st4 h),
         (match h_end h with EndBlock => h_al3 h | _ => h_al4 h end), (ok && h_m100 h && h_mfin h).
  cbv zeta. split; [|repeat split].
  - rewrite serve_loop_S, Hs. rewrite <- (frev_cons_app _ reqs).
    destruct (h_end h) eqn:E.
    4: { rewrite (deliver_blocked _ _ _ _ _ _ _ _ _ _ _ _ _ _ _ _ Hv E) in *. cbn [run_step step_wire o_wire] in *.
         rewrite Hw, E. reflexivity. }
    all: destruct (last_request ver hs) eqn:El;
      [rewrite deliver_last in * by (try assumption; rewrite E; discriminate)
      |rewrite deliver_continues in * by (try assumption; rewrite E; discriminate)];
      cbn [run_step step_wire o_wire] in *; rewrite Hw, E; reflexivity.
  - intros Hr Hfin. now rewrite handle_no_reads_end.
Qed.
End OneStep.
