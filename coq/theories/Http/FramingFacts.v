(* Http/FramingFacts.v — the framing decision: exactly which Content-Length values are refused
   (C16b) and the Expect check (C10). *)
From TH Require Import Base.Bytes Base.BytesFacts Http.Response Http.Request Http.LineFacts.
From Coq Require Import Lia ZArith ZifyN ZifyBool ZifyNat.
Open Scope char_scope.

(* the number a string of digits denotes *)
Definition dec_value (v : bytes) : N := fold_left (fun a c => (a * 10 + dval c)%N) v 0%N.
(* a plain decimal number the server can represent *)
Definition cl_ok (v : bytes) : bool :=
  negb (beq v []) && forallb is_digit v && (dec_value v <? USIZE_BOUND)%N.

Lemma value_radix_digits v : forall acc, forallb is_digit v = true ->
  value_radix 10 dec_val acc v = Some (fold_left (fun a c => (a * 10 + dval c)%N) v acc).
Proof.
  induction v as [|c v IH]; intros acc H; cbn [value_radix fold_left forallb] in *; [reflexivity|].
  apply andb_true_iff in H as [Hc Hv]. unfold dec_val at 1. rewrite Hc. now apply IH.
Qed.

Lemma parse_dec_digits v : v <> [] -> forallb is_digit v = true ->
  parse_dec v = if (dec_value v <? USIZE_BOUND)%N then Some (dec_value v) else None.
Proof.
  intros N D. unfold parse_dec, parse_radix. destruct v as [|c v']; [congruence|].
  now rewrite (value_radix_digits _ 0%N D).
Qed.

(* what remains of `framing` once the Content-Length value has been checked *)
Definition framing_rest (hs : list header) (cl0 : option N) : framing_result :=
  let te := header_value "Transfer-Encoding" hs in
  let cl := match te with Some _ => None | None => cl0 end in
  match (match header_value "Expect" hs with
         | None => Some false
         | Some v => if eq_ci v (s "100-continue") then Some true else None
         end) with
  | None => FrExpectationFailed
  | Some expects =>
      let upgrade := match header_value "Connection" hs with
                     | Some v => contains_sub (s "upgrade") (lower v)
                     | None => false
                     end in
      let kind :=
        if upgrade then KUpgrade
        else match cl with
             | Some n => if (n =? 0)%N then KEmpty
                         else if (n <=? 1024)%N && negb expects then KBuffered n
                         else KLimited n
             | None => match te with Some _ => KChunked | None => KEmpty end
             end in
      FrOk kind cl expects
  end.

Lemma framing_fixed hs :
  framing fixed hs =
  match header_value "Content-Length" hs with
  | None => framing_rest hs None
  | Some v => if cl_ok v then framing_rest hs (Some (dec_value v)) else FrBadContentLength
  end.
Proof.
  unfold framing. destruct (header_value "Content-Length" hs) as [v|]; [|reflexivity].
  change (fix_d9 fixed) with true. cbv iota. unfold cl_ok.
  destruct v as [|c v']; [reflexivity|]. cbn [beq negb andb].
  destruct (forallb is_digit (c :: v')) eqn:D; [|reflexivity].
  rewrite (parse_dec_digits (c :: v')) by (congruence || exact D). cbn [andb].
  destruct (dec_value (c :: v') <? USIZE_BOUND)%N; reflexivity.
Qed.

Lemma framing_rest_not_bad hs cl0 : framing_rest hs cl0 <> FrBadContentLength.
Proof.
  unfold framing_rest. destruct (header_value "Expect" hs) as [v|]; [destruct (eq_ci v (s "100-continue"))|]; discriminate.
Qed.

Lemma framing_rest_length hs cl0 k bl e : framing_rest hs cl0 = FrOk k bl e ->
  bl = match header_value "Transfer-Encoding" hs with Some _ => None | None => cl0 end.
Proof.
  unfold framing_rest. destruct (header_value "Expect" hs) as [v|]; [destruct (eq_ci v (s "100-continue"))|];
    intros H; try discriminate; now injection H as _ <- _.
Qed.

(* C16b: the exact set of refused heads *)
Theorem bad_content_length hs :
  framing fixed hs = FrBadContentLength <->
  exists v, header_value "Content-Length" hs = Some v /\ cl_ok v = false.
Proof.
  rewrite framing_fixed. destruct (header_value "Content-Length" hs) as [v|].
  - destruct (cl_ok v) eqn:E.
    + split; [intros H; now apply framing_rest_not_bad in H|]. intros (v' & H & E'). congruence.
    + split; [exists v; auto|reflexivity].
  - split; [intros H; now apply framing_rest_not_bad in H|]. intros (v' & H & _). discriminate.
Qed.

Lemma cl_ok_false v :
  cl_ok v = false <-> v = [] \/ forallb is_digit v = false \/ (USIZE_BOUND <= dec_value v)%N.
Proof.
  unfold cl_ok. split.
  - intros H. destruct v as [|c v']; [auto|]. cbn [beq negb andb] in H.
    destruct (forallb is_digit (c :: v')); [|auto]. cbn [andb] in H. right; right. lia.
  - intros [->|[H|H]]; [reflexivity| |].
    + rewrite H, andb_false_r. reflexivity.
    + replace (dec_value v <? USIZE_BOUND)%N with false by lia. apply andb_false_r.
Qed.

Theorem bad_content_length_rejected hs v :
  header_value "Content-Length" hs = Some v ->
  v = [] \/ forallb is_digit v = false \/ (USIZE_BOUND <= dec_value v)%N ->
  framing fixed hs = FrBadContentLength.
Proof. intros H B. apply bad_content_length. exists v. split; [exact H|]. now apply cl_ok_false. Qed.

Theorem good_content_length_accepted hs v :
  header_value "Content-Length" hs = Some v ->
  v <> [] -> forallb is_digit v = true -> (dec_value v < USIZE_BOUND)%N ->
  framing fixed hs <> FrBadContentLength /\
  forall k bl e, framing fixed hs = FrOk k bl e ->
    bl = match header_value "Transfer-Encoding" hs with Some _ => None | None => Some (dec_value v) end.
Proof.
  intros H N D B. rewrite framing_fixed, H.
  assert (E : cl_ok v = true).
  { unfold cl_ok. rewrite D. replace (dec_value v <? USIZE_BOUND)%N with true by lia.
    destruct v; [congruence|reflexivity]. }
  rewrite E. split; [apply framing_rest_not_bad|]. intros k bl e. apply framing_rest_length.
Qed.

(* the first header with the name decides (find_header) *)
Lemma header_value_first n pre h post :
  forallb (fun h' => negb (equiv n h')) pre = true -> equiv n h = true ->
  header_value n (pre ++ h :: post) = Some (hvalue h).
Proof.
  intros P E. unfold header_value, find_header.
  induction pre as [|a pre IH]; cbn [app find forallb] in *.
  - now rewrite E.
  - apply andb_true_iff in P as [Pa P]. apply negb_true_iff in Pa. rewrite Pa. now apply IH.
Qed.

Lemma header_value_none n hs :
  forallb (fun h' => negb (equiv n h')) hs = true -> header_value n hs = None.
Proof.
  intros P. unfold header_value, find_header.
  induction hs as [|a hs IH]; cbn [find forallb] in *; [reflexivity|].
  apply andb_true_iff in P as [Pa P]. apply negb_true_iff in Pa. rewrite Pa. now apply IH.
Qed.

(* ---- Expect (C10) ---- *)
Lemma framing_rest_expect hs cl0 v :
  header_value "Expect" hs = Some v -> eq_ci v (s "100-continue") = false ->
  framing_rest hs cl0 = FrExpectationFailed.
Proof. intros H E. unfold framing_rest. now rewrite H, E. Qed.

Theorem unsupported_expectation hs v :
  header_value "Expect" hs = Some v -> eq_ci v (s "100-continue") = false ->
  framing fixed hs = FrExpectationFailed \/ framing fixed hs = FrBadContentLength.
Proof.
  intros H E. rewrite framing_fixed. destruct (header_value "Content-Length" hs) as [w|].
  - destruct (cl_ok w); [left; now apply (framing_rest_expect hs _ v)|right; reflexivity].
  - left; now apply (framing_rest_expect hs _ v).
Qed.

Theorem unsupported_expectation_417 hs v :
  header_value "Expect" hs = Some v -> eq_ci v (s "100-continue") = false ->
  (forall w, header_value "Content-Length" hs = Some w -> cl_ok w = true) ->
  framing fixed hs = FrExpectationFailed.
Proof.
  intros H E C. destruct (unsupported_expectation hs v H E) as [F|F]; [exact F|].
  apply bad_content_length in F as (w & Hw & Ew). rewrite (C w Hw) in Ew. discriminate.
Qed.

(* the converse: the only way to FrExpectationFailed *)
Theorem expectation_failed_only hs :
  framing fixed hs = FrExpectationFailed ->
  exists v, header_value "Expect" hs = Some v /\ eq_ci v (s "100-continue") = false.
Proof.
  rewrite framing_fixed.
  assert (R : forall cl0, framing_rest hs cl0 = FrExpectationFailed ->
              exists v, header_value "Expect" hs = Some v /\ eq_ci v (s "100-continue") = false).
  { intros cl0. unfold framing_rest. destruct (header_value "Expect" hs) as [v|]; [|discriminate].
    destruct (eq_ci v (s "100-continue")) eqn:E; [discriminate|]. intros _. exists v. auto. }
  destruct (header_value "Content-Length" hs) as [w|]; [destruct (cl_ok w); [apply R|discriminate]|apply R].
Qed.
