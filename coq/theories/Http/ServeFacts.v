(* Http/ServeFacts.v — one iteration of serve_loop as a non-recursive function `serve_step`, the
   one-step unfolding lemma, and the "case" lemmas (what one iteration does in each case of
   read_head / framing / kind / version). Everything else about serve_loop goes through these. *)
From TH Require Import Base.Bytes Base.BytesFacts Http.Response Http.Request Http.Body Http.Serve.
From Coq Require Import Lia ZArith ZifyN ZifyBool ZifyNat.
Open Scope char_scope.

(* ---- the pieces of one iteration ---- *)

(* the reader the request gets, and the stream after new_request *)
Definition built_of (kind : body_kind) (rest : bytes) (eof : bool) (al : allocs)
  : option (breader * stream * allocs) + conn_end :=
  match kind with
  | KUpgrade => inl (Some (BUpgrade, mkS rest eof, al))
  | KEmpty => inl (Some (BEmpty, mkS rest eof, al))
  | KLimited n => inl (Some (BLimited n, mkS rest eof, al))
  | KChunked => inl (Some (BChunked None false, mkS rest eof, al))
  | KBuffered n =>
      if (n <=? len rest)%N then
        inl (Some (BBuffered (firstn (N.to_nat n) rest), mkS (skipn (N.to_nat n) rest) eof, n :: al))
      else if eof then inr CClosed else inr COpen
  end.

(* 100 Continue at the first access to the body *)
Definition w100_of (date : bytes) (act : action) (expects : bool) (ver : version) (hs : list header)
  : bytes * bool :=
  match a_reads act with
  | [] => ([], true)
  | _ => if expects then render date (empty_response 100) ver hs true None else ([], true)
  end.

Definition reads_of (c : cfg) (act : action) (rd : breader) (st1 : stream) (al1 : allocs)
  : list bytes * read_end * breader * stream * allocs :=
  do_reads c (a_reads act) rd st1 al1 [] EndCount.

Definition finish_of (c : cfg) (date : bytes) (fin : finish) (m : bytes) (ver : version)
    (hs : list header) (got : list bytes) (e : read_end) (rd2 : breader) (st2 : stream) (al2 : allocs)
  : bytes * bool * breader * stream * allocs * list bytes * read_end :=
  match fin with
  | FRespond code body declared =>
      let '(b, mo) := render date (new_response code [] body (if declared then Some (len body) else None))
                        ver hs (is_head m) None in
      (b, mo, rd2, st2, al2, got, e)
  | FDrop =>
      let '(b, mo) := render date (empty_response 500) ver hs (is_head m) None in
      (b, mo, rd2, st2, al2, got, e)
  | FWriter data => (data, true, rd2, st2, al2, got, e)
  | FUpgrade proto =>
      let '(b, mo) := render date (empty_response 101) ver hs false (Some proto) in
      let '(got', e', rd', st', al') := do_reads c [(ALL, 4096%nat)] rd2 st2 al2 got EndCount in
      (b, mo, rd', st', al', got', e')
  end.

Definition resp505 : response :=
  build (from_string (s "This server only supports HTTP versions 1.0 and 1.1")) [WithStatus 505].

Inductive step_result :=
| SDone (o : outcome)
| SCont (script' : list action) (st : stream) (wire : bytes) (reqs : list delivered)
        (al : allocs) (ok : bool).

(* everything the handler's action does with a delivered request *)
Record handled := mkHd {
  h_w100 : bytes; h_m100 : bool;     (* the interim response *)
  h_wfin : bytes; h_mfin : bool;     (* the final answer *)
  h_al3 : allocs;                    (* allocations before the request is dropped *)
  h_got : list bytes; h_end : read_end;
  h_st4 : stream; h_al4 : allocs }.  (* after the request has been dropped *)

Definition handle (c : cfg) (date : bytes) (act : action) (m : bytes) (ver : version)
    (hs : list header) (expects : bool) (rd : breader) (st1 : stream) (al1 : allocs) : handled :=
  let '(w100, m100) := w100_of date act expects ver hs in
  let '(got, e, rd2, st2, al2) := reads_of c act rd st1 al1 in
  let '(wfin, mfin, rd3, st3, al3, got3, e3) :=
    finish_of c date (a_finish act) m ver hs got e rd2 st2 al2 in
  let '(st4, al4) := body_drop c rd3 st3 al3 in
  mkHd w100 m100 wfin mfin al3 got3 e3 st4 al4.

Definition act_of (script : list action) (dflt : action) : action :=
  match script with a :: _ => a | [] => dflt end.
Definition script_tl (script : list action) : list action :=
  match script with _ :: t => t | [] => [] end.

(* what happens to a request that has been built (reader rd, stream st1, allocations al1) *)
Definition deliver_step (c : cfg) (date : bytes) (script : list action) (dflt : action)
    (wire : bytes) (reqs : list delivered) (ok : bool)
    (m url : bytes) (ver : version) (hs : list header) (bl : option N) (expects : bool)
    (rd : breader) (st1 : stream) (al1 : allocs) : step_result :=
  if ver_gt_11 ver then
    if fix_d5 c then
      let '(b, mo) := render date resp505 (1, 1)%N [] false None in
      let '(st2, al2) := body_drop c rd st1 al1 in
      SCont script st2 (wire ++ b) reqs al2 (ok && mo)
    else SDone (mkO (frev reqs) wire CHang al1 ok)
  else
    match handle c date (act_of script dflt) m ver hs expects rd st1 al1 with
    | mkHd w100 m100 wfin mfin al3 got3 e3 st4 al4 =>
        let d := mkD m url ver hs bl (pieces_bytes got3) e3 in
        let wire' := wire ++ w100 ++ wfin in
        let ok' := ok && m100 && mfin in
        match e3 with
        | EndBlock => SDone (mkO (frev (d :: reqs)) (wire ++ w100) CHang al3 ok')
        | _ => if last_request ver hs then SDone (mkO (frev (d :: reqs)) wire' CClosed al4 ok')
               else SCont (script_tl script) st4 wire' (d :: reqs) al4 ok'
        end
    end.

Definition serve_step (c : cfg) (date : bytes) (script : list action) (dflt : action)
    (st : stream) (wire : bytes) (reqs : list delivered) (al : allocs) (ok : bool) : step_result :=
  match read_head c (sbytes st) with
  | HeadEof => SDone (mkO (frev reqs) wire (if seof st then CClosed else COpen) al ok)
  | HeadNonAscii => SDone (mkO (frev reqs) wire CClosed al ok)
  | HeadBadLine =>
      let '(b, m) := render date (empty_response 400) (1, 1)%N [] false None in
      SDone (mkO (frev reqs) (wire ++ b) CClosed al (ok && m))
  | HeadBadHeader ver =>
      let '(b, m) := render date (empty_response 400) ver [] false None in
      SDone (mkO (frev reqs) (wire ++ b) CClosed al (ok && m))
  | HeadOk m url ver hs rest =>
      match framing c hs with
      | FrExpectationFailed =>
          let '(b, mo) := render date (empty_response 417) ver [] true None in
          SDone (mkO (frev reqs) (wire ++ b) CClosed al (ok && mo))
      | FrBadContentLength =>
          let '(b, mo) := render date (empty_response 400) ver [] false None in
          SDone (mkO (frev reqs) (wire ++ b) CClosed al (ok && mo))
      | FrOk kind bl expects =>
          match built_of kind rest (seof st) al with
          | inr e => SDone (mkO (frev reqs) wire e
                              (match kind with KBuffered n => n :: al | _ => al end) ok)
          | inl None => SDone (mkO (frev reqs) wire CHang al ok)
          | inl (Some (rd, st1, al1)) =>
              deliver_step c date script dflt wire reqs ok m url ver hs bl expects rd st1 al1
          end
      end
  end.

Definition run_step (k : list action -> stream -> bytes -> list delivered -> allocs -> bool -> outcome)
                    (r : step_result) : outcome :=
  match r with
  | SDone o => o
  | SCont script' st' wire' reqs' al' ok' => k script' st' wire' reqs' al' ok'
  end.

(* ---- the one-step unfolding ---- *)
Lemma serve_loop_0 c date script dflt st wire reqs al ok :
  serve_loop c date 0 script dflt st wire reqs al ok = mkO (frev reqs) wire CHang al ok.
Proof. reflexivity. Qed.

Lemma do_reads_nil c rd st al acc e : do_reads c [] rd st al acc e = (acc, e, rd, st, al).
Proof. reflexivity. Qed.

Ltac dm :=
  match goal with
  | |- context [match render ?a ?b ?c ?d ?e ?f with _ => _ end] => destruct (render a b c d e f)
  | |- context [match body_drop ?a ?b ?c ?d with _ => _ end] => destruct (body_drop a b c d)
  | |- context [match do_reads ?a ?b ?c ?d ?e ?f ?g with _ => _ end] =>
      destruct (do_reads a b c d e f g) as [[[[? ?] ?] ?] ?]
  end.

Ltac fin :=
  repeat match goal with e : read_end |- _ => destruct e end;
  try match goal with |- context [last_request ?v ?h] => destruct (last_request v h) end;
  reflexivity.

Lemma deliver_step_eq c date f script dflt wire reqs ok m url ver hs bl (expects : bool) rd st1 al1 :
  (if ver_gt_11 ver then
     if fix_d5 c then
       let '(b, mo) := render date
                         (build (from_string (s "This server only supports HTTP versions 1.0 and 1.1"))
                                [WithStatus 505]) (1, 1)%N [] false None in
       let '(st2, al2) := body_drop c rd st1 al1 in
       serve_loop c date f script dflt st2 (wire ++ b) reqs al2 (ok && mo)
     else mkO (frev reqs) wire CHang al1 ok
   else
     let act := match script with a :: _ => a | [] => dflt end in
     let script' := match script with _ :: t => t | [] => [] end in
     let '(w100, m100) :=
       match a_reads act with
       | [] => ([], true)
       | _ => if expects then render date (empty_response 100) ver hs true None else ([], true)
       end in
     let '(got, e, rd2, st2, al2) :=
       match a_reads act with
       | [] => ([], EndCount, rd, st1, al1)
       | rs => do_reads c rs rd st1 al1 [] EndCount
       end in
     let '(wfin, mfin, rd3, st3, al3, got3, e3) :=
       match a_finish act with
       | FRespond code body declared =>
           let '(b, mo) := render date
                             (new_response code [] body (if declared then Some (len body) else None))
                             ver hs (is_head m) None in
           (b, mo, rd2, st2, al2, got, e)
       | FDrop =>
           let '(b, mo) := render date (empty_response 500) ver hs (is_head m) None in
           (b, mo, rd2, st2, al2, got, e)
       | FWriter data => (data, true, rd2, st2, al2, got, e)
       | FUpgrade proto =>
           let '(b, mo) := render date (empty_response 101) ver hs false (Some proto) in
           let '(got', e', rd', st', al') := do_reads c [(ALL, 4096%nat)] rd2 st2 al2 got EndCount in
           (b, mo, rd', st', al', got', e')
       end in
     let '(st4, al4) := body_drop c rd3 st3 al3 in
     let d := mkD m url ver hs bl (pieces_bytes got3) e3 in
     let wire' := wire ++ w100 ++ wfin in
     let ok' := ok && m100 && mfin in
     match e3 with
     | EndBlock => mkO (frev (d :: reqs)) (wire ++ w100) CHang al3 ok'
     | _ => if last_request ver hs then mkO (frev (d :: reqs)) wire' CClosed al4 ok'
            else serve_loop c date f script' dflt st4 wire' (d :: reqs) al4 ok'
     end) =
  run_step (fun script' st' wire' reqs' al' ok' =>
              serve_loop c date f script' dflt st' wire' reqs' al' ok')
           (deliver_step c date script dflt wire reqs ok m url ver hs bl expects rd st1 al1).
Proof.
  unfold deliver_step, resp505. destruct (ver_gt_11 ver).
  - destruct (fix_d5 c); [|reflexivity]. dm. dm. reflexivity.
  - unfold handle, act_of, script_tl, w100_of, reads_of, finish_of.
    set (act := match script with a :: _ => a | [] => dflt end).
    destruct (a_reads act) as [|r0 rs]; [rewrite do_reads_nil|destruct expects].
    all: destruct (a_finish act) as [code body declared| |data|proto].
    all: repeat dm.
    all: fin.
Qed.

Lemma serve_loop_S c date f script dflt st wire reqs al ok :
  serve_loop c date (S f) script dflt st wire reqs al ok =
  run_step (fun script' st' wire' reqs' al' ok' =>
              serve_loop c date f script' dflt st' wire' reqs' al' ok')
           (serve_step c date script dflt st wire reqs al ok).
Proof.
  cbn [serve_loop]. unfold serve_step.
  destruct (read_head c (sbytes st)) as [m url ver hs rest| | | |ver]; cbn [run_step]; try reflexivity.
  - destruct (framing c hs) as [kind bl expects| |]; cbn [run_step].
    + unfold built_of. destruct kind as [| |n| |].
      3: destruct (n <=? len rest)%N; [|destruct (seof st); reflexivity].
      all: apply deliver_step_eq.
    + dm. reflexivity.
    + dm. reflexivity.
  - dm. reflexivity.
Qed.

(* ---- case lemmas: what one iteration does ---- *)
Section Cases.
Variables (c : cfg) (date : bytes) (script : list action) (dflt : action) (st : stream)
          (wire : bytes) (reqs : list delivered) (al : allocs) (ok : bool).
Local Notation step := (serve_step c date script dflt st wire reqs al ok).

Lemma step_head_eof : read_head c (sbytes st) = HeadEof ->
  step = SDone (mkO (frev reqs) wire (if seof st then CClosed else COpen) al ok).
Proof. unfold serve_step. intros ->. reflexivity. Qed.

Lemma step_head_nonascii : read_head c (sbytes st) = HeadNonAscii ->
  step = SDone (mkO (frev reqs) wire CClosed al ok).
Proof. unfold serve_step. intros ->. reflexivity. Qed.

Lemma step_head_badline : read_head c (sbytes st) = HeadBadLine ->
  step = SDone (mkO (frev reqs)
                    (wire ++ fst (render date (empty_response 400) (1, 1)%N [] false None)) CClosed al
                    (ok && snd (render date (empty_response 400) (1, 1)%N [] false None))).
Proof. unfold serve_step. intros ->. destruct (render _ _ _ _ _ _). reflexivity. Qed.

Lemma step_head_badheader ver : read_head c (sbytes st) = HeadBadHeader ver ->
  step = SDone (mkO (frev reqs)
                    (wire ++ fst (render date (empty_response 400) ver [] false None)) CClosed al
                    (ok && snd (render date (empty_response 400) ver [] false None))).
Proof. unfold serve_step. intros ->. destruct (render _ _ _ _ _ _). reflexivity. Qed.

Section HeadOk.
Variables (m url : bytes) (ver : version) (hs : list header) (rest : bytes).
Hypothesis Hh : read_head c (sbytes st) = HeadOk m url ver hs rest.

Lemma step_expectation_failed : framing c hs = FrExpectationFailed ->
  step = SDone (mkO (frev reqs)
                    (wire ++ fst (render date (empty_response 417) ver [] true None)) CClosed al
                    (ok && snd (render date (empty_response 417) ver [] true None))).
Proof. unfold serve_step. rewrite Hh. intros ->. destruct (render _ _ _ _ _ _). reflexivity. Qed.

Lemma step_bad_content_length : framing c hs = FrBadContentLength ->
  step = SDone (mkO (frev reqs)
                    (wire ++ fst (render date (empty_response 400) ver [] false None)) CClosed al
                    (ok && snd (render date (empty_response 400) ver [] false None))).
Proof. unfold serve_step. rewrite Hh. intros ->. destruct (render _ _ _ _ _ _). reflexivity. Qed.

Lemma step_framed kind bl expects : framing c hs = FrOk kind bl expects ->
  step = match built_of kind rest (seof st) al with
         | inr e => SDone (mkO (frev reqs) wire e
                             (match kind with KBuffered n => n :: al | _ => al end) ok)
         | inl None => SDone (mkO (frev reqs) wire CHang al ok)
         | inl (Some (rd, st1, al1)) =>
             deliver_step c date script dflt wire reqs ok m url ver hs bl expects rd st1 al1
         end.
Proof. unfold serve_step. rewrite Hh. intros ->. reflexivity. Qed.

(* a small body that has not completely arrived: nothing is delivered *)
Lemma step_buffered_incomplete n bl expects : framing c hs = FrOk (KBuffered n) bl expects ->
  (len rest < n)%N ->
  step = SDone (mkO (frev reqs) wire (if seof st then CClosed else COpen) (n :: al) ok).
Proof.
  intros Hf Hl. rewrite (step_framed _ _ _ Hf). cbn [built_of].
  destruct (N.leb_spec n (len rest)) as [H|H]; [lia|]. destruct (seof st); reflexivity.
Qed.

Lemma step_delivered kind bl expects rd st1 al1 : framing c hs = FrOk kind bl expects ->
  built_of kind rest (seof st) al = inl (Some (rd, st1, al1)) ->
  step = deliver_step c date script dflt wire reqs ok m url ver hs bl expects rd st1 al1.
Proof. intros Hf Hb. rewrite (step_framed _ _ _ Hf), Hb. reflexivity. Qed.
End HeadOk.
End Cases.

Lemma built_of_not_buffered kind rest eof al : (forall n, kind <> KBuffered n) ->
  exists rd, built_of kind rest eof al = inl (Some (rd, mkS rest eof, al)) /\
    rd = match kind with KUpgrade => BUpgrade | KEmpty => BEmpty | KLimited n => BLimited n
                    | KChunked => BChunked None false | KBuffered _ => BEmpty end.
Proof.
  intros H. destruct kind as [| |n| |]; cbn [built_of]; eauto. destruct (H n eq_refl).
Qed.

Lemma built_of_buffered n rest eof al : (n <= len rest)%N ->
  built_of (KBuffered n) rest eof al =
  inl (Some (BBuffered (firstn (N.to_nat n) rest), mkS (skipn (N.to_nat n) rest) eof, n :: al)).
Proof. intros H. cbn [built_of]. destruct (N.leb_spec n (len rest)); [reflexivity|lia]. Qed.

(* ---- a delivered request, by version ---- *)
Section Deliver.
Variables (c : cfg) (date : bytes) (script : list action) (dflt : action)
          (wire : bytes) (reqs : list delivered) (ok : bool)
          (m url : bytes) (ver : version) (hs : list header) (bl : option N) (expects : bool)
          (rd : breader) (st1 : stream) (al1 : allocs).
Local Notation dstep := (deliver_step c date script dflt wire reqs ok m url ver hs bl expects rd st1 al1).
Local Notation h := (handle c date (act_of script dflt) m ver hs expects rd st1 al1).
Local Notation d := (mkD m url ver hs bl (pieces_bytes (h_got h)) (h_end h)).

(* a version above 1.1: answered 505 on the repaired tree, the request is not delivered *)
Lemma deliver_505 : ver_gt_11 ver = true -> fix_d5 c = true ->
  dstep = SCont script (fst (body_drop c rd st1 al1))
                (wire ++ fst (render date resp505 (1, 1)%N [] false None)) reqs
                (snd (body_drop c rd st1 al1))
                (ok && snd (render date resp505 (1, 1)%N [] false None)).
Proof.
  intros Hv H5. unfold deliver_step. rewrite Hv, H5.
  destruct (render _ _ _ _ _ _). destruct (body_drop c rd st1 al1). reflexivity.
Qed.

Lemma deliver_blocked : ver_gt_11 ver = false -> h_end h = EndBlock ->
  dstep = SDone (mkO (frev (d :: reqs)) (wire ++ h_w100 h) CHang (h_al3 h)
                     (ok && h_m100 h && h_mfin h)).
Proof.
  intros Hv. unfold deliver_step. rewrite Hv. destruct h as [w100 m100 wfin mfin al3 got3 e3 st4 al4].
  cbn [h_end h_w100 h_m100 h_mfin h_al3 h_got]. intros ->. reflexivity.
Qed.

Lemma deliver_last : ver_gt_11 ver = false -> h_end h <> EndBlock -> last_request ver hs = true ->
  dstep = SDone (mkO (frev (d :: reqs)) (wire ++ h_w100 h ++ h_wfin h) CClosed (h_al4 h)
                     (ok && h_m100 h && h_mfin h)).
Proof.
  intros Hv. unfold deliver_step. rewrite Hv. destruct h as [w100 m100 wfin mfin al3 got3 e3 st4 al4].
  cbn [h_end h_w100 h_wfin h_m100 h_mfin h_al4 h_got]. intros He ->.
  destruct e3; try reflexivity. destruct (He eq_refl).
Qed.

Lemma deliver_continues : ver_gt_11 ver = false -> h_end h <> EndBlock -> last_request ver hs = false ->
  dstep = SCont (script_tl script) (h_st4 h) (wire ++ h_w100 h ++ h_wfin h) (d :: reqs) (h_al4 h)
                (ok && h_m100 h && h_mfin h).
Proof.
  intros Hv. unfold deliver_step. rewrite Hv. destruct h as [w100 m100 wfin mfin al3 got3 e3 st4 al4].
  cbn [h_end h_w100 h_wfin h_m100 h_mfin h_al4 h_st4 h_got]. intros He ->.
  destruct e3; try reflexivity. destruct (He eq_refl).
Qed.
End Deliver.

(* ---- the components of `handle` ---- *)
Section Handle.
Variables (c : cfg) (date : bytes) (act : action) (m : bytes) (ver : version) (hs : list header)
          (expects : bool) (rd : breader) (st1 : stream) (al1 : allocs).
Local Notation h := (handle c date act m ver hs expects rd st1 al1).

Lemma handle_w100 : (h_w100 h, h_m100 h) = w100_of date act expects ver hs.
Proof.
  unfold handle. destruct (w100_of _ _ _ _ _). destruct (reads_of _ _ _ _ _) as [[[[? ?] ?] ?] ?].
  destruct (finish_of _ _ _ _ _ _ _ _ _ _ _) as [[[[[[? ?] ?] ?] ?] ?] ?].
  destruct (body_drop _ _ _ _). reflexivity.
Qed.

Lemma handle_finish got e rd2 st2 al2 : reads_of c act rd st1 al1 = (got, e, rd2, st2, al2) ->
  exists rd3 st3,
    finish_of c date (a_finish act) m ver hs got e rd2 st2 al2
      = (h_wfin h, h_mfin h, rd3, st3, h_al3 h, h_got h, h_end h) /\
    body_drop c rd3 st3 (h_al3 h) = (h_st4 h, h_al4 h).
Proof.
  unfold handle. destruct (w100_of _ _ _ _ _). intros ->.
  destruct (finish_of _ _ _ _ _ _ _ _ _ _ _) as [[[[[[wfin mfin] rd3] st3] al3] got3] e3].
  destruct (body_drop c rd3 st3 al3) as [st4 al4] eqn:E. exists rd3, st3.
  cbn [h_wfin h_mfin h_al3 h_got h_end h_st4 h_al4]. split; [reflexivity|exact E].
Qed.
End Handle.

(* ---- the bytes of the final answer do not depend on the stream ---- *)
Definition fin_wire (date : bytes) (fin : finish) (m : bytes) (ver : version) (hs : list header)
  : bytes * bool :=
  match fin with
  | FRespond code body declared =>
      render date (new_response code [] body (if declared then Some (len body) else None))
             ver hs (is_head m) None
  | FDrop => render date (empty_response 500) ver hs (is_head m) None
  | FWriter data => (data, true)
  | FUpgrade proto => render date (empty_response 101) ver hs false (Some proto)
  end.

Lemma finish_of_wire c date fin m ver hs got e rd2 st2 al2 :
  (let '(w, mo, _, _, _, _, _) := finish_of c date fin m ver hs got e rd2 st2 al2 in (w, mo))
  = fin_wire date fin m ver hs.
Proof.
  destruct fin as [code body declared| |data|proto]; cbn [finish_of fin_wire].
  - destruct (render _ _ _ _ _ _). reflexivity.
  - destruct (render _ _ _ _ _ _). reflexivity.
  - reflexivity.
  - destruct (render _ _ _ _ _ _).
    destruct (do_reads c [(ALL, 4096%nat)] rd2 st2 al2 got EndCount) as [[[[? ?] ?] ?] ?]. reflexivity.
Qed.

Lemma handle_wfin c date act m ver hs expects rd st1 al1 :
  (h_wfin (handle c date act m ver hs expects rd st1 al1),
   h_mfin (handle c date act m ver hs expects rd st1 al1)) = fin_wire date (a_finish act) m ver hs.
Proof.
  destruct (reads_of c act rd st1 al1) as [[[[got e] rd2] st2] al2] eqn:Er.
  destruct (handle_finish c date act m ver hs expects rd st1 al1 _ _ _ _ _ Er) as (rd3 & st3 & Ef & _).
  rewrite <- (finish_of_wire c date (a_finish act) m ver hs got e rd2 st2 al2), Ef. reflexivity.
Qed.
