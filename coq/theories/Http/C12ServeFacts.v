(* Http/C12ServeFacts.v — C12 at the level of serve_loop: after a request that ends the connection
   nothing more is read as a request and the server closes; otherwise the loop goes on with the
   rest of the stream. *)
From TH Require Import Base.Bytes Base.BytesFacts Http.Response Http.Request Http.Body Http.Serve
  Http.ServeFacts Http.ServeStreamFacts.
From Coq Require Import Lia ZArith ZifyN ZifyBool ZifyNat.
Open Scope char_scope.

Lemma frev_cons {A} (d : A) l : frev (d :: l) = frev l ++ [d].
Proof. now rewrite !frev_rev. Qed.

(* ---- one iteration that delivers a request (version <= 1.1) ---- *)
Section OneStep.
Variables (c : cfg) (date : bytes) (script : list action) (dflt : action) (st : stream)
          (wire : bytes) (reqs : list delivered) (al : allocs) (ok : bool)
          (m url : bytes) (ver : version) (hs : list header) (rest : bytes)
          (kind : body_kind) (bl : option N) (ex : bool) (rd : breader) (st1 : stream) (al1 : allocs).
Hypothesis Hh : read_head c (sbytes st) = HeadOk m url ver hs rest.
Hypothesis Hf : framing c hs = FrOk kind bl ex.
Hypothesis Hb : built_of kind rest (seof st) al = inl (Some (rd, st1, al1)).
Hypothesis Hv : ver_gt_11 ver = false.
Local Notation h := (handle c date (act_of script dflt) m ver hs ex rd st1 al1).
Local Notation d := (mkD m url ver hs bl (pieces_bytes (h_got h)) (h_end h)).

Lemma step_is_deliver :
  serve_step c date script dflt st wire reqs al ok =
  deliver_step c date script dflt wire reqs ok m url ver hs bl ex rd st1 al1.
Proof. exact (step_delivered _ _ _ _ _ _ _ _ _ _ _ _ _ _ Hh _ _ _ _ _ _ Hf Hb). Qed.

(* the request is the last one and the handler's reads did not block: answered, then closed;
   whatever follows in `rest` is never looked at as a request *)
Lemma last_closes f : last_request ver hs = true -> h_end h <> EndBlock ->
  serve_loop c date (S f) script dflt st wire reqs al ok =
  mkO (frev reqs ++ [d]) (wire ++ h_w100 h ++ h_wfin h) CClosed (h_al4 h) (ok && h_m100 h && h_mfin h).
Proof.
  intros Hl He. rewrite serve_loop_S, step_is_deliver, (deliver_last _ _ _ _ _ _ _ _ _ _ _ _ _ _ _ _ Hv He Hl).
  cbn [run_step]. now rewrite frev_cons.
Qed.

(* in every case exactly one more request is delivered *)
Lemma last_no_more f : last_request ver hs = true ->
  o_reqs (serve_loop c date (S f) script dflt st wire reqs al ok) = frev reqs ++ [d] /\
  o_end (serve_loop c date (S f) script dflt st wire reqs al ok) =
    (match h_end h with EndBlock => CHang | _ => CClosed end).
Proof.
  intros Hl. destruct (h_end h) eqn:E.
  1-3: rewrite last_closes by (try exact Hl; rewrite E; discriminate); cbn [o_reqs o_end]; rewrite ?E; auto.
  rewrite serve_loop_S, step_is_deliver, (deliver_blocked _ _ _ _ _ _ _ _ _ _ _ _ _ _ _ _ Hv E).
  cbn [run_step o_reqs o_end]. rewrite frev_cons, E. auto.
Qed.

Lemma keepalive_continues f : last_request ver hs = false -> h_end h <> EndBlock ->
  serve_loop c date (S f) script dflt st wire reqs al ok =
  serve_loop c date f (script_tl script) dflt (h_st4 h) (wire ++ h_w100 h ++ h_wfin h) (d :: reqs)
             (h_al4 h) (ok && h_m100 h && h_mfin h).
Proof.
  intros Hl He. rewrite serve_loop_S, step_is_deliver, (deliver_continues _ _ _ _ _ _ _ _ _ _ _ _ _ _ _ _ Hv He Hl).
  reflexivity.
Qed.
End OneStep.

(* ---- a request without a body: the handler's reads end at once and touch nothing ---- *)
Fixpoint reads_end (rs : list (N * nat)) (e : read_end) : read_end :=
  match rs with
  | [] => e
  | (m, _) :: t => if (m =? 0)%N then reads_end t EndCount else EndEof
  end.

Lemma reads_end_not_block rs e : e <> EndBlock -> reads_end rs e <> EndBlock.
Proof.
  revert e; induction rs as [|[m n] t IH]; intros e He; cbn [reads_end]; [exact He|].
  destruct (m =? 0)%N; [apply IH|]; discriminate.
Qed.

Lemma take_empty c f m n st al acc :
  take c (S f) m n BEmpty st al acc = (acc, if (m =? 0)%N then EndCount else EndEof, BEmpty, st, al).
Proof.
  cbn [take]. destruct (m =? 0)%N; [reflexivity|].
  destruct (N.to_nat (N.min m (N.of_nat n))); reflexivity.
Qed.

Lemma do_reads_empty c rs : forall st al acc e,
  do_reads c rs BEmpty st al acc e = (acc, reads_end rs e, BEmpty, st, al).
Proof.
  induction rs as [|[m n] t IH]; intros st al acc e; cbn [do_reads reads_end]; [reflexivity|].
  rewrite take_empty. destruct (m =? 0)%N; [apply IH|reflexivity].
Qed.

Definition end_empty (act : action) : read_end :=
  match a_finish act with FUpgrade _ => EndEof | _ => reads_end (a_reads act) EndCount end.

Lemma end_empty_not_block act : end_empty act <> EndBlock.
Proof.
  unfold end_empty. destruct (a_finish act); try (apply reads_end_not_block); discriminate.
Qed.

Lemma handle_empty c date act m ver hs ex st1 al1 :
  handle c date act m ver hs ex BEmpty st1 al1 =
  mkHd (fst (w100_of date act ex ver hs)) (snd (w100_of date act ex ver hs))
       (fst (fin_wire date (a_finish act) m ver hs)) (snd (fin_wire date (a_finish act) m ver hs))
       al1 [] (end_empty act) st1 al1.
Proof.
  unfold handle, reads_of, end_empty. rewrite do_reads_empty. destruct (w100_of date act ex ver hs) as [w100 m100].
  destruct (a_finish act) as [code body declared| |data|proto]; cbn [finish_of fin_wire].
  - destruct (render _ _ _ _ _ _). reflexivity.
  - destruct (render _ _ _ _ _ _). reflexivity.
  - reflexivity.
  - destruct (render _ _ _ _ _ _). rewrite do_reads_empty. reflexivity.
Qed.

(* the delivered record and the bytes sent for a body-less request *)
Definition d_empty (act : action) m url ver hs bl : delivered := mkD m url ver hs bl [] (end_empty act).
Definition wire_empty date (act : action) m ver hs ex : bytes :=
  fst (w100_of date act ex ver hs) ++ fst (fin_wire date (a_finish act) m ver hs).
Definition ok_empty date (act : action) m ver hs ex : bool :=
  snd (w100_of date act ex ver hs) && snd (fin_wire date (a_finish act) m ver hs).

Section EmptyRequest.
Variables (c : cfg) (date : bytes) (req : bytes)
          (m url : bytes) (ver : version) (hs : list header) (bl : option N) (ex : bool).
Hypothesis Hh : read_head c req = HeadOk m url ver hs [].
Hypothesis Hf : framing c hs = FrOk KEmpty bl ex.
Hypothesis Hv : ver_gt_11 ver = false.

(* `req` is the last request: the outcome is the same whatever bytes follow it *)
Theorem nothing_after_last_eq script dflt t eof f wire reqs al ok : last_request ver hs = true ->
  serve_loop c date (S f) script dflt (mkS (req ++ t) eof) wire reqs al ok =
  mkO (frev reqs ++ [d_empty (act_of script dflt) m url ver hs bl])
      (wire ++ wire_empty date (act_of script dflt) m ver hs ex) CClosed al
      (ok && ok_empty date (act_of script dflt) m ver hs ex).
Proof.
  intros Hl. pose proof (read_head_app c req m url ver hs [] t Hh) as Hh'. cbn [app] in Hh'.
  rewrite (last_closes c date script dflt (mkS (req ++ t) eof) wire reqs al ok m url ver hs t KEmpty bl ex
             BEmpty (mkS t eof) al Hh' Hf eq_refl Hv f Hl); rewrite handle_empty; cbn [h_end h_got h_w100 h_wfin h_al4 h_m100 h_mfin].
  - unfold d_empty, wire_empty, ok_empty. rewrite andb_assoc. reflexivity.
  - apply end_empty_not_block.
Qed.

(* otherwise the loop goes on with what follows *)
Theorem empty_request_continues script dflt t eof f wire reqs al ok : last_request ver hs = false ->
  serve_loop c date (S f) script dflt (mkS (req ++ t) eof) wire reqs al ok =
  serve_loop c date f (script_tl script) dflt (mkS t eof)
             (wire ++ wire_empty date (act_of script dflt) m ver hs ex)
             (d_empty (act_of script dflt) m url ver hs bl :: reqs) al
             (ok && ok_empty date (act_of script dflt) m ver hs ex).
Proof.
  intros Hl. pose proof (read_head_app c req m url ver hs [] t Hh) as Hh'. cbn [app] in Hh'.
  rewrite (keepalive_continues c date script dflt (mkS (req ++ t) eof) wire reqs al ok m url ver hs t KEmpty bl ex
             BEmpty (mkS t eof) al Hh' Hf eq_refl Hv f Hl); rewrite handle_empty; cbn [h_end h_got h_w100 h_wfin h_al4 h_m100 h_mfin h_st4].
  - unfold d_empty, wire_empty, ok_empty. rewrite andb_assoc. reflexivity.
  - apply end_empty_not_block.
Qed.
End EmptyRequest.

(* serve level: whatever follows the last request (t1/t2, with or without half-close), the
   application sees the same single request and the client the same bytes, then end-of-stream *)
Theorem nothing_after_last c date req m url ver hs bl ex :
  read_head c req = HeadOk m url ver hs [] -> framing c hs = FrOk KEmpty bl ex ->
  ver_gt_11 ver = false -> last_request ver hs = true ->
  forall script dflt t1 e1 t2 e2,
    let o1 := serve c date script dflt (req ++ t1) e1 in
    let o2 := serve c date script dflt (req ++ t2) e2 in
    o_reqs o1 = o_reqs o2 /\ o_wire o1 = o_wire o2 /\ o_end o1 = CClosed /\ o_end o2 = CClosed /\
    List.length (o_reqs o1) = 1%nat.
Proof.
  intros Hh Hf Hv Hl script dflt t1 e1 t2 e2. unfold serve. cbv zeta.
  rewrite !(nothing_after_last_eq c date req m url ver hs bl ex Hh Hf Hv) by exact Hl.
  cbn [o_reqs o_wire o_end]. auto.
Qed.
