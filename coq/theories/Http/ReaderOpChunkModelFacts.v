(* Http/ReaderOpChunkModelFacts.v — dec_fn (ReaderOpChunkLoopFacts) never runs out of fuel, and the
   full-read loop of the model, Body.take over BChunked, computes dec_fn too (whenever dec_fn is
   determinate). Together with dec_take_op_fn: the operational loop over any segmentation agrees
   with the model's loop on the logical stream. *)
From TH Require Import Base.Bytes Base.BytesFacts Http.Response Http.Request Http.Body Http.ReaderOp
                       Http.ReaderOpFacts Http.ReaderOpLimitedFacts Http.ReaderOpChunkFacts
                       Http.ReaderOpChunkLoopFacts.
From Coq Require Import Lia ZArith ZifyN ZifyBool ZifyNat.
Open Scope char_scope.

Ltac fin := repeat split; auto; try congruence; try lia; try (intros; discriminate).

(* ---------- consumption of the byte-wise parts (pure side) ---------- *)
Lemma src_byte_len st : List.length (sbytes (snd (src_byte st))) <= List.length (sbytes st) /\
  seof (snd (src_byte st)) = seof st /\
  (forall b, fst (src_byte st) = BByte b -> List.length (sbytes (snd (src_byte st))) < List.length (sbytes st)).
Proof.
  unfold src_byte. destruct (sbytes st) as [|b t] eqn:E.
  - destruct (seof st) eqn:Es; cbn [fst snd]; rewrite E; fin.
  - cbn [fst snd sbytes seof List.length]. fin.
Qed.

Lemma expect_byte_len c st : List.length (sbytes (snd (expect_byte c st))) <= List.length (sbytes st) /\
  seof (snd (expect_byte c st)) = seof st.
Proof.
  unfold expect_byte. destruct (src_byte_len st) as (H1 & H2 & _).
  destruct (src_byte st) as [[b| |] st']; cbn [fst snd] in *; [destruct (Ascii.eqb b c)| |]; cbn [snd]; auto.
Qed.

Lemma read_crlf_len st : List.length (sbytes (snd (read_crlf st))) <= List.length (sbytes st) /\
  seof (snd (read_crlf st)) = seof st.
Proof.
  unfold read_crlf. destruct (expect_byte_len CR st) as (H1 & H2).
  destruct (expect_byte CR st) as [[u| |] st1]; cbn [snd] in *; auto.
  destruct (expect_byte_len LF st1) as (G1 & G2). split; [lia|congruence].
Qed.

Lemma size_bytes_len : forall f ie acc st,
  seof (snd (size_bytes f ie acc st)) = seof st /\
  List.length (sbytes (snd (size_bytes f ie acc st))) <= List.length (sbytes st) /\
  (forall x, fst (size_bytes f ie acc st) = DOk x ->
             List.length (sbytes (snd (size_bytes f ie acc st))) < List.length (sbytes st)).
Proof.
  induction f as [|f IH]; intros ie acc st; [cbn [size_bytes fst snd]; fin|].
  rewrite size_bytes_S. destruct (src_byte_len st) as (H1 & H2 & H3).
  destruct (src_byte st) as [[b| |] st1]; cbn [fst snd] in *;
    [|fin|fin].
  specialize (H3 b eq_refl).
  assert (Hrec : forall ie' acc',
            seof (snd (size_bytes f ie' acc' st1)) = seof st /\
            List.length (sbytes (snd (size_bytes f ie' acc' st1))) <= List.length (sbytes st) /\
            (forall x, fst (size_bytes f ie' acc' st1) = DOk x ->
                       List.length (sbytes (snd (size_bytes f ie' acc' st1))) < List.length (sbytes st))).
  { intros ie' acc'. destruct (IH ie' acc' st1) as (G1 & G2 & G3). split; [congruence|]. split; [lia|].
    intros x Hx. specialize (G3 x Hx). lia. }
  destruct (Ascii.eqb b CR); [cbn [fst snd]; fin|].
  destruct ie; [apply Hrec|]. destruct (Ascii.eqb b ";"); apply Hrec.
Qed.

Lemma read_chunk_size_len st :
  seof (snd (read_chunk_size st)) = seof st /\
  List.length (sbytes (snd (read_chunk_size st))) <= List.length (sbytes st) /\
  (forall sz, fst (read_chunk_size st) = DOk sz ->
              List.length (sbytes (snd (read_chunk_size st))) < List.length (sbytes st)).
Proof.
  unfold read_chunk_size.
  destruct (size_bytes_len (S (List.length (sbytes st))) false [] st) as (H1 & H2 & H3).
  destruct (size_bytes (S (List.length (sbytes st))) false [] st) as [[x| |] st1]; cbn [fst snd] in *;
    [|fin|fin].
  specialize (H3 x eq_refl). destruct (expect_byte_len LF st1) as (G1 & G2).
  destruct (expect_byte LF st1) as [[u| |] st2]; cbn [fst snd] in *.
  - destruct (parse_chunk_size x); cbn [fst snd]; fin.
  - fin.
  - fin.
Qed.

(* ---------- dec_fn's fuel suffices ---------- *)
Lemma dprepend_not_fuel d R : R <> DFFuel -> dprepend d R <> DFFuel.
Proof. destruct R; cbn [dprepend]; congruence. Qed.

Theorem dec_fn_no_fuel : forall ff m rem x e, rem <> Some 0%N -> List.length x < ff ->
  dec_fn ff m rem x e <> DFFuel.
Proof.
  induction ff as [|f IH]; intros m rem x e Hrem Hf; [lia|]. rewrite dec_fn_unfold.
  destruct (m =? 0)%N eqn:Em; [discriminate|]. destruct rem as [r|].
  - assert (Hr : r <> 0%N) by congruence. cbn zeta. destruct (len x <? N.min m r)%N eqn:E1; [discriminate|].
    destruct (N.min m r <? r)%N eqn:E2; [discriminate|].
    destruct (read_crlf_len (mkS (skipn (N.to_nat r) x) e)) as (H1 & H2).
    destruct (read_crlf (mkS (skipn (N.to_nat r) x) e)) as [[u| |] st2]; [|discriminate|discriminate].
    cbn [snd sbytes] in H1. apply dprepend_not_fuel, IH; [discriminate|]. rewrite skipn_length in H1. unfold len in E1. lia.
  - destruct (read_chunk_size_len (mkS x e)) as (H1 & H2 & H3).
    destruct (read_chunk_size (mkS x e)) as [[sz| |] st1]; cbn [fst snd sbytes] in *; [|discriminate|discriminate].
    specialize (H3 sz eq_refl). destruct (sz =? 0)%N eqn:Esz.
    + destruct (read_crlf st1) as [[u| |] st2]; discriminate.
    + apply IH; [intros Heq; injection Heq as Heq; lia|lia].
Qed.

(* ---------- Body.dec_read (full reads) against dec_fn ---------- *)
Definition dec_go_pure (n : nat) (rem : option N) (r : N) (st0 : stream) : rres * option N * stream :=
  if (N.of_nat n <? r)%N then
    match src_read n st0 with
    | (RData d, st1) => (RData d, Some (r - len d)%N, st1)
    | (REof, st1) => (REof, Some r, st1)
    | (x, st1) => (x, Some r, st1)
    end
  else
    match src_read (N.to_nat r) st0 with
    | (RData d, st1) =>
        if (len d =? r)%N then
          match read_crlf st1 with
          | (DOk _, st2) => (RData d, None, st2)
          | (DErr, st2) => (RErr, rem, st2)
          | (DBlock, st2) => (RBlock, rem, st2)
          end
        else (RData d, Some (r - len d)%N, st1)
    | (REof, st1) => (REof, Some r, st1)
    | (x, st1) => (x, Some r, st1)
    end.

Lemma dec_read_eq n rem st : dec_read n rem st =
  match rem with
  | Some r => dec_go_pure n rem r st
  | None =>
      match read_chunk_size st with
      | (DOk sz, st1) =>
          if (sz =? 0)%N then
            match read_crlf st1 with
            | (DOk _, st2) => (REof, None, st2)
            | (DErr, st2) => (RErr, None, st2)
            | (DBlock, st2) => (RBlock, None, st2)
            end
          else dec_go_pure n rem sz st1
      | (DErr, st1) => (RErr, None, st1)
      | (DBlock, st1) => (RBlock, None, st1)
      end
  end.
Proof. reflexivity. Qed.

Lemma src_read_full n x e : 0 < n ->
  src_read n (mkS x e) = match x with
                         | [] => (if e then REof else RBlock, mkS [] e)
                         | _ => (RData (firstn n x), mkS (skipn n x) e)
                         end.
Proof. intros Hn. destruct n; [lia|]. unfold src_read. cbn [sbytes seof]. destruct x; destruct e; reflexivity. Qed.

Definition pstep_post (x : bytes) (e : bool) (m : N) (F : dtres) (res : rres * option N * stream) : Prop :=
  let '(r, rem', st') := res in
  seof st' = e /\
  match r with
  | RData d =>
      List.length (sbytes st') < List.length x /\ rem' <> Some 0%N /\
      exists f' F', dec_fn f' (m - len d)%N rem' (sbytes st') e = DFOk F' /\
                    F = mkDT (d ++ dt_got F') (dt_end F') (dt_rem F') (dt_rest F')
  | _ => F = mkDT [] (end_of r) rem' (sbytes st')
  end.

Lemma dec_go_pure_step n rem0 r x e f m F : 0 < n -> (N.of_nat n <= m)%N -> r <> 0%N ->
  dec_fn (S f) m (Some r) x e = DFOk F ->
  pstep_post x e m F (dec_go_pure n rem0 r (mkS x e)).
Proof.
  intros Hn Hnm Hr H. assert (Hm : m <> 0%N) by lia. unfold dec_go_pure.
  assert (Hnil : x = [] -> pstep_post x e m F (if e then REof else RBlock, Some r, mkS [] e)).
  { intros ->. rewrite dec_fn_Some_nil in H by assumption. inversion H; subst F.
    unfold pstep_post. destruct e; cbn [end_of seof sbytes]; auto. }
  assert (Hin : forall k, 0 < k -> x <> [] -> (N.of_nat (Nat.min k (List.length x)) <= m)%N ->
                  (N.of_nat (Nat.min k (List.length x)) < r)%N ->
                  pstep_post x e m F (RData (firstn k x), Some (r - len (firstn k x))%N, mkS (skipn k x) e)).
  { intros k Hk Hx Hkm Hkr. unfold pstep_post. cbn [seof sbytes]. split; [reflexivity|].
    assert (Hd : firstn k x <> []) by (apply firstn_nonempty; assumption).
    assert (Hl : len (firstn k x) = N.of_nat (Nat.min k (List.length x))) by (unfold len; now rewrite firstn_length).
    split. { rewrite skipn_length. destruct x; [congruence|cbn [List.length]; lia]. }
    split; [intros Heq; injection Heq as Heq; lia|].
    rewrite <- (firstn_skipn k x) in H at 1. rewrite dec_fn_step_in in H by (auto; lia).
    apply dprepend_ok in H as (F' & H1 & H2). exists (S f), F'. split; assumption. }
  destruct (N.of_nat n <? r)%N eqn:Enr.
  - rewrite src_read_full by assumption. destruct x as [|b x]; [destruct e; apply Hnil; reflexivity|].
    apply Hin; [assumption|discriminate|lia|lia].
  - rewrite src_read_full by lia. destruct x as [|b x]; [destruct e; apply Hnil; reflexivity|].
    set (k := N.to_nat r). set (y := b :: x) in *.
    assert (Hl : len (firstn k y) = N.of_nat (Nat.min k (List.length y))) by (unfold len; now rewrite firstn_length).
    destruct (len (firstn k y) =? r)%N eqn:Edr.
    + rewrite <- (firstn_skipn k y) in H at 1. rewrite dec_fn_step_done in H by (auto; lia).
      destruct (read_crlf_len (mkS (skipn k y) e)) as (G1 & G2). cbn [sbytes seof] in G1, G2.
      destruct (read_crlf (mkS (skipn k y) e)) as [[u| |] st2]; cbn [snd] in *; [|discriminate|discriminate].
      apply dprepend_ok in H as (F' & H1 & H2). unfold pstep_post. split; [exact G2|]. split.
      { rewrite skipn_length in G1. unfold y in *. cbn [List.length] in *. lia. }
      split; [discriminate|]. exists f, F'. replace (len (firstn k y)) with r by lia. split; assumption.
    + apply Hin; [unfold k; lia|discriminate|lia|lia].
Qed.

Lemma dec_read_step n rem x e ff m F : 0 < n -> (N.of_nat n <= m)%N -> rem <> Some 0%N ->
  dec_fn ff m rem x e = DFOk F ->
  pstep_post x e m F (dec_read n rem (mkS x e)).
Proof.
  intros Hn Hnm Hrem H. assert (Hm : (m =? 0)%N = false) by lia.
  rewrite dec_read_eq. destruct ff as [|f]; [rewrite dec_fn_unfold, Hm in H; discriminate|].
  destruct rem as [r|].
  - apply (dec_go_pure_step n (Some r) r x e f m F); auto. congruence.
  - rewrite dec_fn_unfold, Hm in H. destruct (read_chunk_size_len (mkS x e)) as (A1 & A2 & A3).
    destruct (read_chunk_size (mkS x e)) as [[sz0| |] st1]; cbn [fst snd sbytes seof] in *.
    + specialize (A3 sz0 eq_refl). destruct (sz0 =? 0)%N eqn:Esz.
      * destruct (read_crlf_len st1) as (B1 & B2).
        destruct (read_crlf st1) as [[u| |] st2]; cbn [snd] in *; inversion H; subst F;
          unfold pstep_post; cbn [end_of]; split; auto; congruence.
      * destruct f as [|f']; [rewrite dec_fn_unfold, Hm in H; discriminate|].
        destruct st1 as [x1 e1]. cbn [sbytes seof] in *. subst e1.
        pose proof (dec_go_pure_step n None sz0 x1 e f' m F Hn Hnm ltac:(lia) H) as Hp.
        unfold pstep_post in *. destruct (dec_go_pure n None sz0 (mkS x1 e)) as [[r1 rem1] st2].
        destruct Hp as (P1 & P2). split; [exact P1|]. destruct r1 as [d| | |]; try exact P2.
        destruct P2 as (Q1 & Q2 & Q3). repeat split; auto. lia.
    + inversion H; subst F. unfold pstep_post. cbn [end_of]. auto.
    + inversion H; subst F. unfold pstep_post. cbn [end_of]. auto.
Qed.

(* ---------- Body.take over BChunked ---------- *)
Definition chunked_reader_after (c : cfg) (F : dtres) : breader :=
  match dt_end F with
  | EndEof => BEmpty
  | EndErr => BChunked (dt_rem F) (fix_d4 c)
  | _ => BChunked (dt_rem F) false
  end.

Theorem take_chunked_fn c n : 0 < n -> forall fuel m rem x e al acc ff F,
  rem <> Some 0%N -> List.length x < fuel -> dec_fn ff m rem x e = DFOk F ->
  exists acc', take c fuel m n (BChunked rem false) (mkS x e) al acc
                 = (acc', dt_end F, chunked_reader_after c F, mkS (dt_rest F) e, al) /\
               pieces_bytes acc' = pieces_bytes acc ++ dt_got F.
Proof.
  intros Hn. induction fuel as [|fo IH]; intros m rem x e al acc ff F Hrem Hf H; [lia|].
  rewrite take_unfold by exact Hn. destruct (m =? 0)%N eqn:Em.
  - rewrite dec_fn_unfold, Em in H. inversion H; subst F. unfold chunked_reader_after.
    cbn [dt_got dt_end dt_rem dt_rest]. exists acc. rewrite app_nil_r. auto.
  - assert (Hw : 0 < N.to_nat (N.min m (N.of_nat n))) by lia.
    pose proof (dec_read_step _ rem x e ff m F Hw ltac:(lia) Hrem H) as Hp. unfold pstep_post in Hp.
    unfold body_read.
    destruct (dec_read (N.to_nat (N.min m (N.of_nat n))) rem (mkS x e)) as [[r1 rem1] st1].
    destruct st1 as [x1 e1]. cbn [sbytes seof] in Hp. destruct Hp as (-> & P2).
    destruct r1 as [d| | |].
    + destruct P2 as (Q1 & Q2 & (f' & F' & Q3 & Q4)).
      destruct (IH (m - len d)%N rem1 x1 e al (d :: acc) f' F' Q2 ltac:(lia) Q3) as (acc' & R1 & R2).
      exists acc'. subst F. unfold chunked_reader_after in *. cbn [dt_got dt_end dt_rem dt_rest] in *.
      split; [exact R1|]. rewrite R2, pieces_bytes_cons. now rewrite app_assoc.
    + subst F. unfold chunked_reader_after. cbn [dt_got dt_end dt_rem dt_rest end_of].
      exists acc. rewrite app_nil_r. auto.
    + subst F. unfold chunked_reader_after. cbn [dt_got dt_end dt_rem dt_rest end_of].
      exists acc. rewrite app_nil_r. auto.
    + subst F. unfold chunked_reader_after. cbn [dt_got dt_end dt_rem dt_rest end_of].
      exists acc. rewrite app_nil_r. auto.
Qed.

(* C13 for the chunked reader, against the model: when the full-read loop of the model on the
   logical stream is determinate (dec_fn = DFOk; fuel S (length) always suffices), the operational
   loop over ANY segmentation with ANY buffer-size policy obtains the same bytes, ends the same
   way, and leaves the same decoder state and the same logical stream *)
Corollary dec_take_agrees_with_model c sz n m rem br al F : wf br -> (forall h, 0 < sz h) -> 0 < n ->
  rem <> Some 0%N ->
  dec_fn (S (List.length (contents br))) m rem (contents br) (br_eof br) = DFOk F ->
  exists acc1 br' acc2,
    dec_take sz m rem br = Some (acc1, dt_end F, dt_rem F, br') /\
    take c (S (List.length (contents br))) m n (BChunked rem false) (st_of br) al []
      = (acc2, dt_end F, chunked_reader_after c F, st_of br', al) /\
    pieces_bytes acc1 = pieces_bytes acc2 /\ pieces_bytes acc1 = dt_got F /\ wf br'.
Proof.
  intros Hwf Hsz Hn Hrem H.
  destruct (dec_take_fn_spec sz m rem br _ F Hwf Hsz Hrem H) as (acc1 & br' & R1 & P1 & (L1 & L2 & L3)).
  destruct (take_chunked_fn c n Hn (S (List.length (contents br))) m rem (contents br) (br_eof br) al []
              _ F Hrem ltac:(lia) H) as (acc2 & R2 & P2).
  exists acc1, br', acc2. unfold st_of. rewrite L1, L3. repeat split; auto. rewrite P1, P2. reflexivity.
Qed.
