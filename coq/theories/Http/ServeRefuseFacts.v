(* Http/ServeRefuseFacts.v — one iteration of the connection loop for each way a request is refused
   (C16c, C10), and the whole connection when the refused head comes first. *)
From TH Require Import Base.Bytes Base.BytesFacts Http.Response Http.Request Http.Body Http.Serve
                       Http.LineFacts Http.HeadFacts Http.FramingFacts.
From Coq Require Import Lia ZArith ZifyN ZifyBool ZifyNat.
Open Scope char_scope.

(* a response to a request that has no (known) headers is always within the modelled domain *)
Lemma render_nohdr date r ver nb up : snd (render date r ver [] nb up) = true.
Proof.
  unfold render, raw_print, choose_te.
  destruct (ver_le ver (1, 0)%N); [reflexivity|].
  destruct ((status r <? 200)%N || (status r =? 204)%N); [reflexivity|].
  change (te_wish []) with (Some (@None coding)). cbv iota.
  destruct (data_length r) as [n|]; [destruct (chunked_threshold r <=? n)%N|]; reflexivity.
Qed.

(* the bytes of the automatic error responses *)
Definition error_bytes (date : bytes) (st : N) (ver : version) (no_body : bool) : bytes :=
  fst (render date (empty_response st) ver [] no_body None).
Definition r505 : response :=
  build (from_string (s "This server only supports HTTP versions 1.0 and 1.1")) [WithStatus 505].
Definition bytes_505 (date : bytes) : bytes := fst (render date r505 (1, 1)%N [] false None).

Lemma render_split date r ver nb up : render date r ver [] nb up = (fst (render date r ver [] nb up), true).
Proof. rewrite <- (render_nohdr date r ver nb up). now destruct (render date r ver [] nb up). Qed.

(* they begin with the status line of the version they are sent with *)
Lemma error_bytes_status_line date st ver nb : exists more,
  error_bytes date st ver nb =
  s "HTTP/" ++ print_dec (fst ver) ++ s "." ++ print_dec (snd ver) ++ [SP] ++ print_dec st ++ [SP]
  ++ Reason.reason_phrase st ++ CRLF ++ more.
Proof.
  unfold error_bytes, render, raw_print.
  destruct (choose_te (status (empty_response st)) [] ver (data_length (empty_response st))
                      (chunked_threshold (empty_response st))) as [c|] eqn:E.
  - cbn [fst]. unfold raw_print_with, Response.render_head.
    change (status (empty_response st)) with st.
    eexists. rewrite <- !app_assoc. reflexivity.
  - pose proof (render_nohdr date (empty_response st) ver nb None) as H.
    unfold render, raw_print in H. rewrite E in H. discriminate.
Qed.

(* ---- one iteration: the head is refused ---- *)
Section Step.
Variables (c : cfg) (date : bytes) (f : nat) (script : list action) (dflt : action)
          (st : stream) (wire : bytes) (reqs : list delivered) (al : allocs) (ok : bool).

Lemma step_bad_header ver : read_head c (sbytes st) = HeadBadHeader ver ->
  serve_loop c date (S f) script dflt st wire reqs al ok
  = mkO (frev reqs) (wire ++ error_bytes date 400 ver false) CClosed al ok.
Proof.
  intros H. cbn [serve_loop]. rewrite H. unfold error_bytes.
  rewrite (render_split date (empty_response 400) ver false None). now rewrite andb_true_r.
Qed.

Lemma step_bad_line : read_head c (sbytes st) = HeadBadLine ->
  serve_loop c date (S f) script dflt st wire reqs al ok
  = mkO (frev reqs) (wire ++ error_bytes date 400 (1, 1)%N false) CClosed al ok.
Proof.
  intros H. cbn [serve_loop]. rewrite H. unfold error_bytes.
  rewrite (render_split date (empty_response 400) (1, 1)%N false None). now rewrite andb_true_r.
Qed.

Lemma step_non_ascii : read_head c (sbytes st) = HeadNonAscii ->
  serve_loop c date (S f) script dflt st wire reqs al ok = mkO (frev reqs) wire CClosed al ok.
Proof. intros H. cbn [serve_loop]. now rewrite H. Qed.

Lemma step_eof : read_head c (sbytes st) = HeadEof ->
  serve_loop c date (S f) script dflt st wire reqs al ok
  = mkO (frev reqs) wire (if seof st then CClosed else COpen) al ok.
Proof. intros H. cbn [serve_loop]. now rewrite H. Qed.

Lemma step_bad_content_length m url ver hs rest :
  read_head c (sbytes st) = HeadOk m url ver hs rest -> framing c hs = FrBadContentLength ->
  serve_loop c date (S f) script dflt st wire reqs al ok
  = mkO (frev reqs) (wire ++ error_bytes date 400 ver false) CClosed al ok.
Proof.
  intros H F. cbn [serve_loop]. rewrite H, F. unfold error_bytes.
  rewrite (render_split date (empty_response 400) ver false None). now rewrite andb_true_r.
Qed.

Lemma step_expectation_failed m url ver hs rest :
  read_head c (sbytes st) = HeadOk m url ver hs rest -> framing c hs = FrExpectationFailed ->
  serve_loop c date (S f) script dflt st wire reqs al ok
  = mkO (frev reqs) (wire ++ error_bytes date 417 ver true) CClosed al ok.
Proof.
  intros H F. cbn [serve_loop]. rewrite H, F. unfold error_bytes.
  rewrite (render_split date (empty_response 417) ver true None). now rewrite andb_true_r.
Qed.
End Step.

(* ---- one iteration: a version above 1.1 (repair D5) ---- *)
(* the reader new_request builds, as in serve_loop *)
Definition build_reader (kind : body_kind) (rest : bytes) (eof : bool) (al : allocs)
  : option (breader * stream * allocs) + conn_end :=
  match kind with
  | KUpgrade => inl (Some (BUpgrade, mkS rest eof, al))
  | KEmpty => inl (Some (BEmpty, mkS rest eof, al))
  | KLimited n => inl (Some (BLimited n, mkS rest eof, al))
  | KChunked => inl (Some (BChunked None false, mkS rest eof, al))
  | KBuffered n =>
      if (n <=? len rest)%N then
        inl (Some (BBuffered (firstn (N.to_nat n) rest), mkS (skipn (N.to_nat n) rest) eof, n :: al))
      else if eof then inr CClosed else inr COpen
  end.

Lemma step_505 date f script dflt st wire reqs al ok m url ver hs rest kind bl ex rd st1 al1 :
  read_head fixed (sbytes st) = HeadOk m url ver hs rest -> framing fixed hs = FrOk kind bl ex ->
  ver_gt_11 ver = true ->
  build_reader kind rest (seof st) al = inl (Some (rd, st1, al1)) ->
  serve_loop fixed date (S f) script dflt st wire reqs al ok
  = serve_loop fixed date f script dflt (fst (body_drop fixed rd st1 al1)) (wire ++ bytes_505 date) reqs
               (snd (body_drop fixed rd st1 al1)) ok.
Proof.
  intros H F V B. cbn [serve_loop]. rewrite H, F.
  assert (R : render date r505 (1, 1)%N [] false None = (bytes_505 date, true))
    by apply render_split.
  unfold r505 in R.
  destruct kind as [| |n|n|]; cbn [build_reader] in B.
  - injection B as <- <- <-. rewrite V. change (fix_d5 fixed) with true. cbv iota. rewrite R.
    destruct (body_drop fixed BUpgrade _ al) as [st2 al2]. cbn [fst snd]. now rewrite andb_true_r.
  - injection B as <- <- <-. rewrite V. change (fix_d5 fixed) with true. cbv iota. rewrite R.
    destruct (body_drop fixed BEmpty _ al) as [st2 al2]. cbn [fst snd]. now rewrite andb_true_r.
  - destruct (n <=? len rest)%N; [|destruct (seof st); discriminate].
    injection B as <- <- <-. rewrite V. change (fix_d5 fixed) with true. cbv iota. rewrite R.
    destruct (body_drop fixed (BBuffered _) _ (n :: al)) as [st2 al2]. cbn [fst snd]. now rewrite andb_true_r.
  - injection B as <- <- <-. rewrite V. change (fix_d5 fixed) with true. cbv iota. rewrite R.
    destruct (body_drop fixed (BLimited n) _ al) as [st2 al2]. cbn [fst snd]. now rewrite andb_true_r.
  - injection B as <- <- <-. rewrite V. change (fix_d5 fixed) with true. cbv iota. rewrite R.
    destruct (body_drop fixed (BChunked None false) _ al) as [st2 al2]. cbn [fst snd]. now rewrite andb_true_r.
Qed.

(* without a body the loop goes on with the bytes right after the refused head *)
Lemma step_505_no_body date f script dflt st wire reqs al ok m url ver hs rest bl ex :
  read_head fixed (sbytes st) = HeadOk m url ver hs rest -> framing fixed hs = FrOk KEmpty bl ex ->
  ver_gt_11 ver = true ->
  serve_loop fixed date (S f) script dflt st wire reqs al ok
  = serve_loop fixed date f script dflt (mkS rest (seof st)) (wire ++ bytes_505 date) reqs al ok.
Proof. intros H F V. now rewrite (step_505 _ _ _ _ _ _ _ _ _ _ _ _ _ _ _ _ _ _ _ _ H F V eq_refl). Qed.

(* the only versions above 1.1 the head parser lets through *)
Lemma parsed_version_gt_11 x m u ver : parse_request_line x = Some (m, u, ver) ->
  ver_gt_11 ver = true <-> ver = (2, 0)%N \/ ver = (3, 0)%N.
Proof.
  unfold parse_request_line. destruct (split_on SP x) as [|m' [|p [|v t]]]; try discriminate.
  unfold parse_version.
  destruct (beq v (s "HTTP/0.9")); [intros H; injection H as _ _ <-; split; [discriminate|intros [?|?]; discriminate]|].
  destruct (beq v (s "HTTP/1.0")); [intros H; injection H as _ _ <-; split; [discriminate|intros [?|?]; discriminate]|].
  destruct (beq v (s "HTTP/1.1")); [intros H; injection H as _ _ <-; split; [discriminate|intros [?|?]; discriminate]|].
  destruct (beq v (s "HTTP/2.0")); [intros H; injection H as _ _ <-; split; [auto|reflexivity]|].
  destruct (beq v (s "HTTP/3.0")); [intros H; injection H as _ _ <-; split; [auto|reflexivity]|].
  discriminate.
Qed.

(* ---- the whole connection when the refused head comes first ---- *)
Section First.
Variables (date : bytes) (script : list action) (dflt : action) (input : bytes) (eof : bool).

Lemma serve_bad_header ver : read_head fixed input = HeadBadHeader ver ->
  serve fixed date script dflt input eof = mkO [] (error_bytes date 400 ver false) CClosed [] true.
Proof. intros H. unfold serve. now rewrite (step_bad_header _ _ _ _ _ (mkS input eof) _ _ _ _ ver H). Qed.

Lemma serve_bad_line : read_head fixed input = HeadBadLine ->
  serve fixed date script dflt input eof = mkO [] (error_bytes date 400 (1, 1)%N false) CClosed [] true.
Proof. intros H. unfold serve. now rewrite (step_bad_line _ _ _ _ _ (mkS input eof) _ _ _ _ H). Qed.

Lemma serve_non_ascii : read_head fixed input = HeadNonAscii ->
  serve fixed date script dflt input eof = mkO [] [] CClosed [] true.
Proof. intros H. unfold serve. now rewrite (step_non_ascii _ _ _ _ _ (mkS input eof) _ _ _ _ H). Qed.

Lemma serve_bad_content_length m url ver hs rest :
  read_head fixed input = HeadOk m url ver hs rest -> framing fixed hs = FrBadContentLength ->
  serve fixed date script dflt input eof = mkO [] (error_bytes date 400 ver false) CClosed [] true.
Proof.
  intros H F. unfold serve.
  now rewrite (step_bad_content_length _ _ _ _ _ (mkS input eof) _ _ _ _ m url ver hs rest H F).
Qed.

Lemma serve_expectation_failed m url ver hs rest :
  read_head fixed input = HeadOk m url ver hs rest -> framing fixed hs = FrExpectationFailed ->
  serve fixed date script dflt input eof = mkO [] (error_bytes date 417 ver true) CClosed [] true.
Proof.
  intros H F. unfold serve.
  now rewrite (step_expectation_failed _ _ _ _ _ (mkS input eof) _ _ _ _ m url ver hs rest H F).
Qed.
End First.
