(* Http/FramingFacts.v — which body reader and which declared length `framing` (request.rs:143-227,
   repaired tree) assigns to a header list: Transfer-Encoding beats Content-Length, Content-Length: N
   is reported as N, neither gives the empty body, Connection: upgrade gives the raw connection. *)
From TH Require Import Base.Bytes Base.BytesFacts Base.RadixFacts Http.Response Http.Request.
From Coq Require Import Lia ZArith ZifyN ZifyBool.

Definition wants_upgrade (hs : list header) : bool :=
  match header_value "Connection" hs with
  | Some v => contains_sub (s "upgrade") (lower v)
  | None => false
  end.

(* the kind chosen from the declared length `bl`, the presence of Transfer-Encoding and Expect *)
Definition kind_of (upgrade : bool) (bl : option N) (te : bool) (ex : bool) : body_kind :=
  if upgrade then KUpgrade
  else match bl with
       | Some n => if (n =? 0)%N then KEmpty
                   else if (n <=? 1024)%N && negb ex then KBuffered n else KLimited n
       | None => if te then KChunked else KEmpty
       end.

(* everything `framing fixed` decides when it accepts the request *)
Lemma framing_fixed_char hs k bl ex : framing fixed hs = FrOk k bl ex ->
  exists cl0 : option N,
    match header_value "Content-Length" hs with
    | None => cl0 = None
    | Some v => v <> [] /\ forallb is_digit v = true /\ parse_dec v = cl0 /\ cl0 <> None
    end /\
    bl = match header_value "Transfer-Encoding" hs with Some _ => None | None => cl0 end /\
    ex = match header_value "Expect" hs with Some _ => true | None => false end /\
    k = kind_of (wants_upgrade hs) bl
          match header_value "Transfer-Encoding" hs with Some _ => true | None => false end ex.
Proof.
  unfold framing, wants_upgrade, kind_of. cbv zeta. cbn [fix_d9 fixed].
  destruct (header_value "Content-Length" hs) as [v|].
  - destruct v as [|c v]; [discriminate|]. destruct (forallb is_digit (c :: v)) eqn:Ed; [|discriminate].
    destruct (parse_dec (c :: v)) as [n|] eqn:Ep; [|discriminate].
    destruct (header_value "Expect" hs) as [x|].
    + destruct (eq_ci x (s "100-continue")); [|discriminate]. intros [= <- <- <-].
      exists (Some n). repeat split; try discriminate.
      destruct (header_value "Transfer-Encoding" hs); reflexivity.
    + intros [= <- <- <-]. exists (Some n). repeat split; try discriminate.
      destruct (header_value "Transfer-Encoding" hs); reflexivity.
  - destruct (header_value "Expect" hs) as [x|].
    + destruct (eq_ci x (s "100-continue")); [|discriminate]. intros [= <- <- <-].
      exists None. repeat split. destruct (header_value "Transfer-Encoding" hs); reflexivity.
    + intros [= <- <- <-]. exists None. repeat split.
      destruct (header_value "Transfer-Encoding" hs); reflexivity.
Qed.

(* a transfer coding takes precedence over any Content-Length: no declared length, chunked reader *)
Lemma framing_te hs te k bl ex : header_value "Transfer-Encoding" hs = Some te ->
  framing fixed hs = FrOk k bl ex ->
  bl = None /\ k = if wants_upgrade hs then KUpgrade else KChunked.
Proof.
  intros Hte H. apply framing_fixed_char in H as (cl0 & _ & Hbl & _ & Hk). rewrite Hte in *. subst bl.
  split; [reflexivity|]. subst k. unfold kind_of. reflexivity.
Qed.

(* Content-Length without a transfer coding: the declared length is reported, and that many bytes
   are framed (pre-read if at most 1024 and no Expect, else through the length-limited reader) *)
Lemma framing_cl hs v k bl ex : header_value "Transfer-Encoding" hs = None ->
  header_value "Content-Length" hs = Some v -> framing fixed hs = FrOk k bl ex ->
  exists n, parse_dec v = Some n /\ v <> [] /\ forallb is_digit v = true /\ bl = Some n /\
            k = kind_of (wants_upgrade hs) (Some n) false ex.
Proof.
  intros Hte Hcl H. apply framing_fixed_char in H as (cl0 & Hc & Hbl & _ & Hk). rewrite Hte, Hcl in *.
  destruct Hc as (Hne & Hd & Hp & Hn). destruct cl0 as [n|]; [|congruence]. exists n. subst bl. auto.
Qed.

Lemma framing_cl_print hs N k bl ex : (N < USIZE_BOUND)%N -> header_value "Transfer-Encoding" hs = None ->
  header_value "Content-Length" hs = Some (print_dec N) -> framing fixed hs = FrOk k bl ex ->
  bl = Some N /\ k = kind_of (wants_upgrade hs) (Some N) false ex.
Proof.
  intros HN Hte Hcl H. destruct (framing_cl _ _ _ _ _ Hte Hcl H) as (n & Hp & _ & _ & Hbl & Hk).
  rewrite parse_dec_print in Hp by exact HN. inversion Hp; subst n. auto.
Qed.

Lemma framing_none hs k bl ex : header_value "Transfer-Encoding" hs = None ->
  header_value "Content-Length" hs = None -> framing fixed hs = FrOk k bl ex ->
  bl = None /\ k = if wants_upgrade hs then KUpgrade else KEmpty.
Proof.
  intros Hte Hcl H. apply framing_fixed_char in H as (cl0 & Hc & Hbl & _ & Hk). rewrite Hte, Hcl in *.
  subst cl0 bl. split; [reflexivity|]. subst k. reflexivity.
Qed.

Lemma framing_upgrade hs k bl ex : wants_upgrade hs = true -> framing fixed hs = FrOk k bl ex -> k = KUpgrade.
Proof. intros Hu H. apply framing_fixed_char in H as (cl0 & _ & _ & _ & Hk). rewrite Hu in Hk. exact Hk. Qed.

(* and it does accept: with a valid or absent Content-Length and no Expect header *)
Lemma framing_accepts hs : header_value "Expect" hs = None ->
  match header_value "Content-Length" hs with
  | None => True
  | Some v => v <> [] /\ forallb is_digit v = true /\ parse_dec v <> None
  end ->
  exists k bl, framing fixed hs = FrOk k bl false.
Proof.
  intros Hex Hcl. unfold framing. cbv zeta. cbn [fix_d9 fixed]. rewrite Hex.
  destruct (header_value "Content-Length" hs) as [v|]; [|eauto].
  destruct Hcl as (Hne & Hd & Hp). destruct v as [|c v]; [congruence|]. rewrite Hd.
  destruct (parse_dec (c :: v)); [eauto|congruence].
Qed.
