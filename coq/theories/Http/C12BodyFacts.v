(* Http/C12BodyFacts.v — C12(b), requests with a body: when the last request's body (pre-read small
   body, or exact-length body) has completely arrived, what the application obtains and what the
   client receives do not depend on the bytes that follow the body. Two runs on  body ++ t1  and
   body ++ t2  are compared step by step. *)
From TH Require Import Base.Bytes Base.BytesFacts Http.Response Http.Request Http.Body Http.Serve
  Http.ServeFacts Http.ServeStreamFacts Http.C12ServeFacts.
From Coq Require Import Lia ZArith ZifyN ZifyBool ZifyNat.
Open Scope char_scope.

(* bytes the reader can still hand out *)
Definition avail (r : breader) : nat :=
  match r with BBuffered d => List.length d | BLimited rem => N.to_nat rem | _ => 0%nat end.

(* the two streams agree on what the reader may still consume *)
Definition sim (r : breader) (s1 s2 : stream) : Prop :=
  match r with
  | BEmpty | BBuffered _ => True
  | BLimited rem => exists b t1 t2, sbytes s1 = b ++ t1 /\ sbytes s2 = b ++ t2 /\ len b = rem
  | _ => False
  end.

Lemma src_read_app k st b t : sbytes st = b ++ t -> (1 <= k <= List.length b)%nat ->
  src_read k st = (RData (firstn k b), mkS (skipn k b ++ t) (seof st)).
Proof.
  intros Hs Hk. unfold src_read. destruct k as [|k]; [lia|]. rewrite Hs.
  destruct b as [|b0 b]; [cbn in Hk; lia|]. cbn [app].
  change (b0 :: b ++ t) with ((b0 :: b) ++ t).
  rewrite firstn_app, skipn_app.
  replace (S k - List.length (b0 :: b))%nat with 0%nat by lia. cbn [firstn skipn]. now rewrite app_nil_r.
Qed.

Definition is_data_progress (x : rres) (r r' : breader) : Prop :=
  match x with
  | RData d => d <> [] /\ (avail r' < avail r)%nat
  | RBlock => False
  | _ => (avail r' <= avail r)%nat
  end.

Lemma body_read_any_sim c n r s1 s2 a1 a2 : sim r s1 s2 ->
  exists x r' s1' s2' a1' a2',
    body_read_any c n r s1 a1 = (x, r', s1', a1') /\ body_read_any c n r s2 a2 = (x, r', s2', a2') /\
    sim r' s1' s2' /\ is_data_progress x r r'.
Proof.
  intros Hs. destruct r as [|d|rem|rem fin|]; cbn [sim] in Hs; [| | |destruct Hs|destruct Hs].
  - exists REof, BEmpty, s1, s2, a1, a2. destruct n; cbn; repeat split; auto; lia.
  - destruct n as [|n]; cbn [body_read_any body_read_zero body_read].
    + exists REof, (BBuffered d), s1, s2, a1, a2. cbn. repeat split; auto; lia.
    + destruct d as [|d0 d].
      * exists REof, (BBuffered []), s1, s2, a1, a2. cbn. repeat split; auto; lia.
      * exists (RData (firstn (S n) (d0 :: d))), (BBuffered (skipn (S n) (d0 :: d))), s1, s2, a1, a2.
        repeat split; cbn [sim is_data_progress avail]; auto; [cbn; discriminate|].
        rewrite skipn_length. cbn [List.length]. lia.
  - destruct Hs as (b & t1 & t2 & H1 & H2 & Hb).
    destruct n as [|n]; cbn [body_read_any body_read_zero body_read].
    + destruct (N.eqb_spec rem 0) as [Hr|Hr].
      * exists REof, BEmpty, s1, s2, a1, a2. cbn. repeat split; auto; lia.
      * rewrite H1, H2. destruct b as [|b0 b]; [unfold len in Hb; cbn in Hb; lia|]. cbn [app].
        rewrite <- (app_comm_cons b t1 b0), <- (app_comm_cons b t2 b0) || idtac.
        destruct (discard c _ rem s1 a1) as [s1' a1'], (discard c _ rem s2 a2) as [s2' a2'].
        exists REof, BEmpty, s1', s2', a1', a2'. cbn. repeat split; auto. lia.
    + destruct (N.eqb_spec rem 0) as [Hr|Hr].
      * exists REof, BEmpty, s1, s2, a1, a2. cbn. repeat split; auto; lia.
      * set (k := N.to_nat (N.min (N.of_nat (S n)) rem)).
        assert (Hk : (1 <= k <= List.length b)%nat) by (unfold k, len in *; lia).
        rewrite (src_read_app k s1 b t1 H1 Hk), (src_read_app k s2 b t2 H2 Hk).
        exists (RData (firstn k b)), (BLimited (rem - len (firstn k b))%N),
               (mkS (skipn k b ++ t1) (seof s1)), (mkS (skipn k b ++ t2) (seof s2)), a1, a2.
        assert (Hl : List.length (firstn k b) = k) by (rewrite firstn_length; lia).
        repeat split; cbn [sim is_data_progress avail sbytes].
        -- exists (skipn k b), t1, t2. repeat split. unfold len in *. rewrite skipn_length, Hl. lia.
        -- intros E. rewrite E in Hl. cbn in Hl. lia.
        -- unfold len. rewrite Hl. lia.
Qed.

Lemma take_sim c : forall f1 f2 m n r s1 s2 a1 a2 acc, sim r s1 s2 ->
  (avail r < f1)%nat -> (avail r < f2)%nat ->
  exists acc' e r' s1' s2' a1' a2',
    take c f1 m n r s1 a1 acc = (acc', e, r', s1', a1') /\
    take c f2 m n r s2 a2 acc = (acc', e, r', s2', a2') /\
    sim r' s1' s2' /\ (avail r' <= avail r)%nat /\ e <> EndBlock.
Proof.
  induction f1 as [|f1 IH]; intros f2 m n r s1 s2 a1 a2 acc Hs H1 H2; [lia|].
  destruct f2 as [|f2]; [lia|]. cbn [take]. destruct (m =? 0)%N.
  - exists acc, EndCount, r, s1, s2, a1, a2. repeat split; auto. discriminate.
  - destruct (body_read_any_sim c (N.to_nat (N.min m (N.of_nat n))) r s1 s2 a1 a2 Hs)
      as (x & r' & s1' & s2' & a1' & a2' & E1 & E2 & Hs' & Hp).
    rewrite E1, E2. destruct x as [d| | |]; cbn [is_data_progress] in Hp.
    + destruct Hp as [_ Hp].
      destruct (IH f2 (m - len d)%N n r' s1' s2' a1' a2' (d :: acc) Hs') as
        (acc' & e & r'' & s1'' & s2'' & a1'' & a2'' & T1 & T2 & Hs'' & Ha & He); try lia.
      exists acc', e, r'', s1'', s2'', a1'', a2''. repeat split; auto. lia.
    + exists acc, EndEof, r', s1', s2', a1', a2'. repeat split; auto. discriminate.
    + exists acc, EndErr, r', s1', s2', a1', a2'. repeat split; auto. discriminate.
    + destruct Hp.
Qed.

Lemma sim_fuel r s1 s2 : sim r s1 s2 ->
  (avail r < S (List.length (sbytes s1) + match r with BBuffered d => List.length d | _ => 0 end))%nat /\
  (avail r < S (List.length (sbytes s2) + match r with BBuffered d => List.length d | _ => 0 end))%nat.
Proof.
  destruct r as [|d|rem|rem fin|]; cbn [sim avail]; try lia.
  intros (b & t1 & t2 & -> & -> & Hb). unfold len in Hb. rewrite !app_length. lia.
Qed.

Lemma do_reads_sim c rs : forall r s1 s2 a1 a2 acc e0, sim r s1 s2 -> e0 <> EndBlock ->
  exists acc' e r' s1' s2' a1' a2',
    do_reads c rs r s1 a1 acc e0 = (acc', e, r', s1', a1') /\
    do_reads c rs r s2 a2 acc e0 = (acc', e, r', s2', a2') /\
    sim r' s1' s2' /\ e <> EndBlock.
Proof.
  induction rs as [|[m n] rs IH]; intros r s1 s2 a1 a2 acc e0 Hs He0; cbn [do_reads].
  - exists acc, e0, r, s1, s2, a1, a2. auto.
  - destruct (sim_fuel r s1 s2 Hs) as [F1 F2].
    destruct (take_sim c _ _ m n r s1 s2 a1 a2 acc Hs F1 F2)
      as (acc' & e & r' & s1' & s2' & a1' & a2' & T1 & T2 & Hs' & _ & He).
    rewrite T1, T2. destruct e.
    + apply IH; [exact Hs'|discriminate].
    + exists acc', EndEof, r', s1', s2', a1', a2'. repeat split; auto.
    + exists acc', EndErr, r', s1', s2', a1', a2'. repeat split; auto.
    + destruct (He eq_refl).
Qed.

(* what the handler obtains and answers is the same in both runs, and its reads do not block *)
Theorem handle_sim c date act m ver hs ex rd s1 s2 a1 a2 : sim rd s1 s2 ->
  let h1 := handle c date act m ver hs ex rd s1 a1 in
  let h2 := handle c date act m ver hs ex rd s2 a2 in
  h_w100 h1 = h_w100 h2 /\ h_m100 h1 = h_m100 h2 /\ h_wfin h1 = h_wfin h2 /\ h_mfin h1 = h_mfin h2 /\
  h_got h1 = h_got h2 /\ h_end h1 = h_end h2 /\ h_end h1 <> EndBlock.
Proof.
  intros Hs. cbv zeta. unfold handle, reads_of. destruct (w100_of date act ex ver hs) as [w100 m100].
  destruct (do_reads_sim c (a_reads act) rd s1 s2 a1 a2 [] EndCount Hs)
    as (got & e & rd2 & s1' & s2' & a1' & a2' & R1 & R2 & Hs' & He); [discriminate|].
  rewrite R1, R2. destruct (a_finish act) as [code body declared| |data|proto]; cbn [finish_of].
  - destruct (render _ _ _ _ _ _). destruct (body_drop c rd2 s1' a1'), (body_drop c rd2 s2' a2').
    cbn. repeat split; auto.
  - destruct (render _ _ _ _ _ _). destruct (body_drop c rd2 s1' a1'), (body_drop c rd2 s2' a2').
    cbn. repeat split; auto.
  - destruct (body_drop c rd2 s1' a1'), (body_drop c rd2 s2' a2'). cbn. repeat split; auto.
  - destruct (render _ _ _ _ _ _).
    destruct (do_reads_sim c [(ALL, 4096%nat)] rd2 s1' s2' a1' a2' got EndCount Hs')
      as (got' & e' & rd3 & s1'' & s2'' & a1'' & a2'' & U1 & U2 & _ & He'); [discriminate|].
    rewrite U1, U2. destruct (body_drop c rd3 s1'' a1''), (body_drop c rd3 s2'' a2'').
    cbn. repeat split; auto.
Qed.

(* the kinds of body covered, and the complete body *)
Definition complete_body (kind : body_kind) (body : bytes) : Prop :=
  match kind with
  | KEmpty => body = []
  | KBuffered n | KLimited n => len body = n
  | _ => False
  end.

Lemma built_of_complete kind body t e al : complete_body kind body ->
  exists rd s al', built_of kind (body ++ t) e al = inl (Some (rd, s, al')) /\
    forall t' e' al2, exists s' al2', built_of kind (body ++ t') e' al2 = inl (Some (rd, s', al2')) /\
                                 sim rd s s'.
Proof.
  destruct kind as [| |n| |]; cbn [complete_body]; intros Hc; [destruct Hc|subst body| | |destruct Hc].
  - exists BEmpty, (mkS ([] ++ t) e), al. split; [reflexivity|]. intros t' e' al2.
    exists (mkS ([] ++ t') e'), al2. split; [reflexivity|exact I].
  - assert (Hf : forall t0, firstn (N.to_nat n) (body ++ t0) = body).
    { intros t0. unfold len in Hc. replace (N.to_nat n) with (List.length body + 0)%nat by lia.
      rewrite firstn_app_2. cbn [firstn]. apply app_nil_r. }
    assert (Hle : forall t0, (n <=? len (body ++ t0))%N = true).
    { intros t0. unfold len in *. rewrite app_length. lia. }
    exists (BBuffered body), (mkS (skipn (N.to_nat n) (body ++ t)) e), (n :: al). cbn [built_of].
    rewrite Hle, Hf. split; [reflexivity|]. intros t' e' al2.
    exists (mkS (skipn (N.to_nat n) (body ++ t')) e'), (n :: al2). rewrite Hle, Hf. split; [reflexivity|exact I].
  - exists (BLimited n), (mkS (body ++ t) e), al. split; [reflexivity|]. intros t' e' al2.
    exists (mkS (body ++ t') e'), al2. split; [reflexivity|]. exists body, t, t'. auto.
Qed.

Theorem nothing_after_last_body c date head body m url ver hs kind bl ex :
  read_head c head = HeadOk m url ver hs [] -> framing c hs = FrOk kind bl ex ->
  complete_body kind body -> ver_gt_11 ver = false -> last_request ver hs = true ->
  forall script dflt t1 e1 t2 e2,
    let o1 := serve c date script dflt (head ++ body ++ t1) e1 in
    let o2 := serve c date script dflt (head ++ body ++ t2) e2 in
    o_reqs o1 = o_reqs o2 /\ o_wire o1 = o_wire o2 /\ o_modelled o1 = o_modelled o2 /\
    o_end o1 = CClosed /\ o_end o2 = CClosed /\ List.length (o_reqs o1) = 1%nat.
Proof.
  intros Hh Hf Hc Hv Hl script dflt t1 e1 t2 e2. cbv zeta. unfold serve.
  pose proof (read_head_app c head m url ver hs [] (body ++ t1) Hh) as H1.
  pose proof (read_head_app c head m url ver hs [] (body ++ t2) Hh) as H2. cbn [app] in H1, H2.
  destruct (built_of_complete kind body t1 e1 [] Hc) as (rd & s1 & al1 & B1 & Hrest).
  destruct (Hrest t2 e2 []) as (s2 & al2 & B2 & Hs).
  destruct (handle_sim c date (act_of script dflt) m ver hs ex rd s1 s2 al1 al2 Hs)
    as (E1 & E2 & E3 & E4 & E5 & E6 & E7).
  rewrite (last_closes c date script dflt (mkS (head ++ body ++ t1) e1) [] [] [] true m url ver hs
             (body ++ t1) kind bl ex rd s1 al1 H1 Hf B1 Hv _ Hl E7).
  rewrite E6 in E7.
  rewrite (last_closes c date script dflt (mkS (head ++ body ++ t2) e2) [] [] [] true m url ver hs
             (body ++ t2) kind bl ex rd s2 al2 H2 Hf B2 Hv _ Hl E7).
  cbn [o_reqs o_wire o_end o_modelled]. rewrite E1, E2, E3, E4, E5, E6. repeat split; reflexivity.
Qed.
