(* Http/C19Spec.v — the response header policy of C19, written declaratively from the property
   text (not incrementally like Response::add_header). SPEC file: definitions only. *)
From TH Require Import Base.Bytes Http.Response.

Definition is_ct : header -> bool := equiv "Content-Type".
Definition is_date : header -> bool := equiv "Date".
Definition is_server : header -> bool := equiv "Server".
(* names the application can never get onto the wire *)
Definition unsendable (h : header) : bool :=
  equiv "Connection" h || equiv "Trailer" h || equiv "Transfer-Encoding" h || equiv "Upgrade" h
  || equiv "Content-Length" h.

Definition drop_ct (l : list header) : list header := filter (fun h => negb (is_ct h)) l.
(* the first Content-Type keeps its place (and its spelling of the name) and gets value v;
   every later one is removed *)
Fixpoint keep_ct (v : bytes) (c : list header) : list header :=
  match c with
  | [] => []
  | h :: t => if is_ct h then mkH (hname h) v :: drop_ct t else h :: keep_ct v t
  end.
(* what is sent for the headers the application supplied, in the order it supplied them *)
Definition keep (supplied : list header) : list header :=
  let c := filter (fun h => negb (unsendable h)) supplied in
  match rev (filter is_ct c) with
  | [] => c
  | last_ct :: _ => keep_ct (hvalue last_ct) c
  end.

(* the headers supplied through the constructor and through add_header / with_header, in order *)
Definition supplied_of (ctor_headers : list header) (ops : list rop) : list header :=
  ctor_headers ++ flat_map (fun o => match o with WithHeader h => [h] | _ => [] end) ops.

(* the header block without the framing header: upgrade pair, Server and Date unless supplied,
   then the kept application headers *)
Definition policy_headers (date : bytes) (supplied : list header) (upgrade : option bytes) : list header :=
  let k := keep supplied in
  (match upgrade with
   | Some p => [mkH (s "Connection") (s "upgrade"); mkH (s "Upgrade") p]
   | None => []
   end) ++
  (if existsb is_server k then [] else [mkH (s "Server") (s "tiny-http (Rust)")]) ++
  (if existsb is_date k then [] else [mkH (s "Date") date]) ++ k.
