(* Http/Response.v — model of src/response.rs and util::parse_header_value.
   MODEL file: definitions only. *)
From TH Require Import Base.Bytes Http.Reason.
From Coq Require Import ZArith.
Open Scope char_scope.

Record header := mkH { hname : bytes; hvalue : bytes }.
(* HeaderField::equiv *)
Definition equiv (n : string) (h : header) : bool := eq_ci (s n) (hname h).
Arguments equiv : simpl never.
Definition find_header (n : string) (hs : list header) : option header := List.find (equiv n) hs.

(* ------------------------------------------------------------------------------------------
   f32::from_str on the declared sub-domain (DESIGN §6 C05):
     QOk t   the string is  [+-]? d{1,3} ( '.' d{0,3} )?  or  [+-]? '.' d{1,3} ; t = thousandths
     QBad    f32::from_str rejects it
     QUn     outside the modelled sub-domain (exponents, inf, nan, more than three digits on a side)
   ------------------------------------------------------------------------------------------ *)
(* QNaN: a spelling f32::from_str turns into NaN ([+-]?nan, any letter case); since repair D7 such
   entries are dropped before the sort (response.rs: parse.retain(|v| !v.1.is_nan())) *)
Inductive qv := QOk (thousandths : Z) | QBad | QUn | QNaN.
Definition all_digits (x : bytes) : bool := forallb is_digit x.
Fixpoint dec_z (acc : Z) (x : bytes) : Z :=
  match x with [] => acc | c :: t => dec_z (acc * 10 + Z.of_N (dval c)) t end.
Definition frac3 (x : bytes) : Z :=
  match x with
  | [] => 0
  | [a] => Z.of_N (dval a) * 100
  | [a; b] => Z.of_N (dval a) * 100 + Z.of_N (dval b) * 10
  | a :: b :: c :: _ => Z.of_N (dval a) * 100 + Z.of_N (dval b) * 10 + Z.of_N (dval c)
  end%Z.
Definition float_char (c : ascii) : bool :=
  is_digit c || existsb (Ascii.eqb (to_lower c)) (s "+-.einfatyn").
Definition nat_le3 (x : bytes) : bool := (List.length x <=? 3)%nat.
Definition is_nan_spelling (x0 : bytes) : bool :=
  let x := match x0 with "+" :: t => t | "-" :: t => t | _ => x0 end in
  beq (lower x) (s "nan").
Definition parse_q (x0 : bytes) : qv :=
  if negb (forallb float_char x0) then QBad else
  if is_nan_spelling x0 then QNaN else
  match x0 with
  | [] => QBad
  | _ =>
    let '(neg, x) := match x0 with "+" :: t => (false, t) | "-" :: t => (true, t) | _ => (false, x0) end in
    let sign := (if neg then -1 else 1)%Z in
    match split_on "." x with
    | [i] => if all_digits i then
               match i with
               | [] => QBad
               | _ => if nat_le3 i then QOk (sign * (dec_z 0 i * 1000)) else QUn
               end
             else QUn
    | [i; f] => if all_digits i && all_digits f then
                  match i, f with
                  | [], [] => QBad
                  | _, _ => if nat_le3 i && nat_le3 f
                            then QOk (sign * (dec_z 0 i * 1000 + frac3 f)) else QUn
                  end
                else QUn
    | _ => if forallb (fun c => is_digit c || Ascii.eqb c ".") x then QBad else QUn
    end
  end.

(* util::parse_header_value (util/mod.rs:25-48) *)
Fixpoint q_of_params (ps : list bytes) : qv :=
  match ps with
  | [] => QOk 1000
  | p :: rest =>
      let p' := trim_start p in
      if starts_with (s "q=") p' then
        match parse_q (trim (skipn 2 p')) with QBad => q_of_params rest | r => r end
      else q_of_params rest
  end.
Definition parse_elem (e : bytes) : bytes * qv :=
  match split_on ";" e with
  | t :: ps => (trim t, q_of_params ps)
  | [] => ([], QOk 1000)
  end.
Definition parse_header_value (v : bytes) : list (bytes * qv) := map parse_elem (split_on "," v).

Inductive coding := Identity | Chunked.
(* TransferEncoding::from_str *)
Definition supported (n : bytes) : option coding :=
  if eq_ci n (s "identity") then Some Identity
  else if eq_ci n (s "chunked") then Some Chunked else None.

(* slice::sort_by is a stable sort; comparator b.q.partial_cmp(a.q): descending q *)
Fixpoint insert_desc (x : bytes * Z) (l : list (bytes * Z)) : list (bytes * Z) :=
  match l with
  | [] => [x]
  | y :: t => if (snd y <? snd x)%Z then x :: l else y :: insert_desc x t
  end.
Definition sort_desc (l : list (bytes * Z)) : list (bytes * Z) :=
  fold_left (fun acc x => insert_desc x acc) l [].

Fixpoint all_ok (l : list (bytes * qv)) : option (list (bytes * Z)) :=
  match l with
  | [] => Some []
  | (n, QOk z) :: t => match all_ok t with Some r => Some ((n, z) :: r) | None => None end
  | (n, QNaN) :: t => all_ok t
  | _ => None
  end.
Fixpoint first_supported (l : list (bytes * Z)) : option coding :=
  match l with
  | [] => None
  | (n, z) :: t => if (z <=? 0)%Z then first_supported t
                   else match supported n with Some c => Some c | None => first_supported t end
  end.

Definition version := (N * N)%type.
Definition ver_le (a b : version) : bool :=
  if (fst a =? fst b)%N then (snd a <=? snd b)%N else (fst a <? fst b)%N.
Definition ver_eq (a b : version) : bool := (fst a =? fst b)%N && (snd a =? snd b)%N.

(* the TE header's wish: None = outside the modelled q sub-domain;
   Some None = no usable wish; Some (Some c) = the client's choice *)
Definition te_wish (req_headers : list header) : option (option coding) :=
  match find_header "TE" req_headers with
  | None => Some None
  | Some h => match all_ok (parse_header_value (hvalue h)) with
              | Some l => Some (first_supported (sort_desc l))
              | None => None
              end
  end.

(* choose_transfer_encoding (response.rs:112-184); has_additional_headers is always false *)
Definition choose_te (status : N) (req_headers : list header) (ver : version)
                     (dlen : option N) (thr : N) : option coding :=
  if ver_le ver (1, 0)%N then Some Identity else
  if ((status <? 200) || (status =? 204))%N then Some Identity else
  match te_wish req_headers with
  | None => None
  | Some (Some c) => Some c
  | Some None => match dlen with
                 | None => Some Chunked
                 | Some n => if (thr <=? n)%N then Some Chunked else Some Identity
                 end
  end.

(* ------------------------------------------------------------------------------------------ *)
Record response := mkR {
  status : N;
  rheaders : list header;
  rbody : bytes;                 (* everything the reader will yield *)
  data_length : option N;
  threshold : option N }.

Definition set_headers (r : response) hs :=
  mkR (status r) hs (rbody r) (data_length r) (threshold r).
Definition set_length (r : response) l :=
  mkR (status r) (rheaders r) (rbody r) l (threshold r).

Definition forbidden (h : header) : bool :=
  equiv "Connection" h || equiv "Trailer" h || equiv "Transfer-Encoding" h || equiv "Upgrade" h.

Fixpoint replace_first_ct (v : bytes) (hs : list header) : list header :=
  match hs with
  | [] => []
  | h :: t => if equiv "Content-Type" h then mkH (hname h) v :: t else h :: replace_first_ct v t
  end.

(* Response::add_header (response.rs:251-286) *)
Definition add_header (r : response) (h : header) : response :=
  if forbidden h then r
  else if equiv "Content-Length" h then
    match parse_usize (hvalue h) with Some v => set_length r (Some v) | None => r end
  else if equiv "Content-Type" h && existsb (equiv "Content-Type") (rheaders r) then
    set_headers r (replace_first_ct (hvalue h) (rheaders r))
  else set_headers r (rheaders r ++ [h]).

Definition new_response (st : N) (hs : list header) (body : bytes) (dl : option N) : response :=
  fold_left add_header hs (mkR st [] body dl None).
Definition from_data (d : bytes) : response := new_response 200 [] d (Some (len d)).
Definition from_string (d : bytes) : response :=
  new_response 200 [mkH (s "Content-Type") (s "text/plain; charset=UTF-8")] d (Some (len d)).
Definition empty_response (st : N) : response := new_response st [] [] (Some 0%N).

Inductive rop :=
| WithHeader (h : header)
| WithStatus (st : N)
| WithThreshold (t : N)
| WithData (d : bytes) (dl : option N).
Definition apply_rop (r : response) (o : rop) : response :=
  match o with
  | WithHeader h => add_header r h
  | WithStatus st => mkR st (rheaders r) (rbody r) (data_length r) (threshold r)
  | WithThreshold t => mkR (status r) (rheaders r) (rbody r) (data_length r) (Some t)
  | WithData d dl => mkR (status r) (rheaders r) d dl (threshold r)
  end.
Definition build (r : response) (ops : list rop) : response := fold_left apply_rop ops r.

Definition DEFAULT_THRESHOLD : N := 32768.
Definition chunked_threshold (r : response) : N :=
  match threshold r with Some t => t | None => DEFAULT_THRESHOLD end.

(* ---- serialisation ---- *)
Definition render_header (h : header) : bytes := hname h ++ s ": " ++ hvalue h ++ CRLF.
Definition render_head (ver : version) (st : N) (hs : list header) : bytes :=
  s "HTTP/" ++ print_dec (fst ver) ++ s "." ++ print_dec (snd ver) ++ [SP] ++ print_dec st ++ [SP]
    ++ reason_phrase st ++ CRLF ++ List.concat (map render_header hs) ++ CRLF.

(* chunked_transfer::Encoder with chunks_size c, fed by io::copy and dropped at the end: full chunks
   of c bytes while more than c bytes remain, then one last non-empty chunk, then the terminator *)
Definition chunk (d : bytes) : bytes := print_hex (len d) ++ CRLF ++ d ++ CRLF.
Fixpoint chunks_aux (fuel c : nat) (d : bytes) : bytes :=
  match fuel with
  | O => []
  | S f => match d with
           | [] => []
           | _ => if (List.length d <=? c)%nat then chunk d
                  else chunk (firstn c d) ++ chunks_aux f c (skipn c d)
           end
  end.
Definition CHUNK : nat := N.to_nat 8192.
Definition chunk_encode_c (c : nat) (d : bytes) : bytes :=
  chunks_aux (S (List.length d)) c d ++ s "0" ++ CRLF ++ CRLF.
Definition chunk_encode (d : bytes) : bytes := chunk_encode_c CHUNK d.

Definition no_body_status (st : N) : bool :=
  ((100 <=? st) && (st <=? 199) || (st =? 204) || (st =? 304))%N.

(* the header list raw_print sends (response.rs:351-420), given the coding decision *)
Definition final_headers (date : bytes) (r : response) (upgrade : option bytes)
                         (te : option coding) (dl : option N) : list header :=
  let h1 := if existsb (equiv "Date") (rheaders r) then rheaders r
            else mkH (s "Date") date :: rheaders r in
  let h2 := if existsb (equiv "Server") h1 then h1
            else mkH (s "Server") (s "tiny-http (Rust)") :: h1 in
  let h3 := match upgrade with
            | Some p => mkH (s "Connection") (s "upgrade") :: mkH (s "Upgrade") p :: h2
            | None => h2
            end in
  match te, dl with
  | Some Chunked, _ => h3 ++ [mkH (s "Transfer-Encoding") (s "chunked")]
  | Some Identity, Some l => h3 ++ [mkH (s "Content-Length") (print_dec l)]
  | _, _ => h3
  end.

(* Response::raw_print (response.rs:334-454) with the coding decision te0 made *)
Definition raw_print_with (te0 : coding) (date : bytes) (r : response) (ver : version)
                          (no_body : bool) (upgrade : option bytes) : bytes :=
  let te := match upgrade with Some _ => None | None => Some te0 end in
  let dl := match data_length r, te with
            | Some l, _ => Some l
            | None, Some Identity => Some (len (rbody r))
            | None, _ => None
            end in
  let skip := no_body || no_body_status (status r) in
  render_head ver (status r) (final_headers date r upgrade te dl) ++
  (if skip then [] else
     match te, dl with
     | Some Chunked, _ => chunk_encode (rbody r)
     | Some Identity, Some l => if (1 <=? l)%N then rbody r else []
     | _, _ => []
     end).

(* None = the request's TE header is outside the modelled q sub-domain *)
Definition raw_print (date : bytes) (r : response) (ver : version) (req_headers : list header)
                     (no_body : bool) (upgrade : option bytes) : option bytes :=
  match choose_te (status r) req_headers ver (data_length r) (chunked_threshold r) with
  | Some c => Some (raw_print_with c date r ver no_body upgrade)
  | None => None
  end.
