(* Http/AllocFacts.v — C14(a): every allocation made on behalf of a client-declared length is at
   most 8192 bytes (repair D6), for every input. Invariant over serve_loop. *)
From TH Require Import Base.Bytes Base.BytesFacts Http.Response Http.Request Http.Body Http.Serve
  Http.ServeFacts.
From Coq Require Import Lia ZArith ZifyN ZifyBool ZifyNat.
Open Scope char_scope.

Definition bounded (al : allocs) : Prop := Forall (fun n => (n <= 8192)%N) al.

Lemma bounded_cons n al : (n <= 8192)%N -> bounded al -> bounded (n :: al).
Proof. intros; constructor; assumption. Qed.

(* ---- the shape of the framing decision ---- *)
Definition kind_of (upgrade : bool) (cl : option N) (te : bool) (expects : bool) : body_kind :=
  if upgrade then KUpgrade
  else match cl with
       | Some n => if (n =? 0)%N then KEmpty
                   else if (n <=? 1024)%N && negb expects then KBuffered n
                   else KLimited n
       | None => if te then KChunked else KEmpty
       end.

Lemma framing_kind c hs k bl e : framing c hs = FrOk k bl e ->
  exists upgrade te, k = kind_of upgrade bl te e.
Proof.
  unfold framing.
  match goal with |- match ?x with _ => _ end = _ -> _ => destruct x as [cl0|] end; [|discriminate].
  match goal with |- match ?x with _ => _ end = _ -> _ => destruct x as [ex|] end; [|discriminate].
  intros [= <- <- <-].
  match goal with |- context [if ?u then KUpgrade else _] => exists u end.
  destruct (header_value "Transfer-Encoding" hs); [exists true|exists false]; reflexivity.
Qed.

Lemma framing_buffered_le c hs n bl e : framing c hs = FrOk (KBuffered n) bl e -> (n <= 1024)%N.
Proof.
  intros H. apply framing_kind in H as (u & te & H). unfold kind_of in H.
  destruct u; [discriminate|]. destruct bl as [n0|]; [|destruct te; discriminate].
  destruct (n0 =? 0)%N; [discriminate|]. destruct (n0 <=? 1024)%N eqn:E; cbn [andb] in H.
  - destruct (negb e); inversion H; subst; lia.
  - discriminate.
Qed.

Section Bounded.
Variable c : cfg.
Hypothesis D6 : fix_d6 c = true.

Lemma discard_bounded fuel rem st al : bounded al -> bounded (snd (discard c fuel rem st al)).
Proof.
  revert rem st al; induction fuel as [|f IH]; intros rem st al Hal; cbn [discard]; [exact Hal|].
  destruct (rem =? 0)%N; [exact Hal|]. rewrite D6.
  match goal with |- context [src_read ?n ?s] => destruct (src_read n s) as [[d| | |] st1] end; cbn [snd].
  - apply IH. apply bounded_cons; [lia|exact Hal].
  - apply bounded_cons; [lia|exact Hal].
  - apply bounded_cons; [lia|exact Hal].
  - apply bounded_cons; [lia|exact Hal].
Qed.

Lemma body_read_bounded n r st al : bounded al -> bounded (snd (body_read c n r st al)).
Proof.
  intros Hal. destruct r as [|d|rem|rem fin|]; cbn [body_read].
  - exact Hal.
  - destruct d; exact Hal.
  - destruct (rem =? 0)%N; [exact Hal|].
    match goal with |- context [src_read ?n ?s] => destruct (src_read n s) as [[d| | |] st1] end;
      try exact Hal.
    pose proof (discard_bounded 1 rem st1 al Hal) as H.
    destruct (discard c 1 rem st1 al) as [st2 al2]. exact H.
  - destruct fin; [exact Hal|].
    destruct (dec_read n rem st) as [[[d| | |] rem'] st1]; exact Hal.
  - destruct (src_read n st) as [x st1]. exact Hal.
Qed.

Lemma body_read_any_bounded n r st al : bounded al -> bounded (snd (body_read_any c n r st al)).
Proof.
  intros Hal. destruct n as [|n]; cbn [body_read_any]; [|apply body_read_bounded, Hal].
  destruct r as [|d|rem|rem fin|]; cbn [body_read_zero]; try exact Hal.
  - destruct (rem =? 0)%N; [exact Hal|]. destruct (sbytes st) as [|b0 b].
    + destruct (seof st); [|exact Hal]. pose proof (discard_bounded 1 rem st al Hal) as H.
      destruct (discard c 1 rem st al). exact H.
    + match goal with |- context [discard c ?f rem st al] =>
        pose proof (discard_bounded f rem st al Hal) as H; destruct (discard c f rem st al) end. exact H.
  - destruct fin; [exact Hal|]. destruct (fix_d4 c); [exact Hal|apply body_read_bounded, Hal].
Qed.

Lemma take_bounded fuel m n r st al acc : bounded al -> bounded (snd (take c fuel m n r st al acc)).
Proof.
  revert m r st al acc; induction fuel as [|f IH]; intros m r st al acc Hal; cbn [take]; [exact Hal|].
  destruct (m =? 0)%N; [exact Hal|].
  match goal with |- context [body_read_any c ?w r st al] =>
    pose proof (body_read_any_bounded w r st al Hal) as H;
    destruct (body_read_any c w r st al) as [[[[d| | |] r1] st1] al1] end; cbn [snd] in *; auto.
Qed.

Lemma do_reads_bounded reads r st al acc e :
  bounded al -> bounded (snd (do_reads c reads r st al acc e)).
Proof.
  revert r st al acc e; induction reads as [|[m n] t IH]; intros r st al acc e Hal; cbn [do_reads];
    [exact Hal|].
  match goal with |- context [take c ?fu m n r st al acc] =>
    pose proof (take_bounded fu m n r st al acc Hal) as H;
    destruct (take c fu m n r st al acc) as [[[[acc1 e1] r1] st1] al1] end; cbn [snd] in H.
  destruct e1; auto.
Qed.

Lemma body_drop_bounded r st al : bounded al -> bounded (snd (body_drop c r st al)).
Proof.
  intros Hal. destruct r as [|d|rem|rem fin|]; cbn [body_drop]; try exact Hal.
  - apply discard_bounded, Hal.
  - destruct (fix_d4 c && negb fin); exact Hal.
Qed.

Lemma finish_of_bounded date fin m ver hs got e rd2 st2 al2 wfin mfin rd3 st3 al3 got3 e3 :
  finish_of c date fin m ver hs got e rd2 st2 al2 = (wfin, mfin, rd3, st3, al3, got3, e3) ->
  bounded al2 -> bounded al3.
Proof.
  intros H Hal. destruct fin as [code body declared| |data|proto]; cbn [finish_of] in H.
  - destruct (render _ _ _ _ _ _) in H. inversion H; subst; exact Hal.
  - destruct (render _ _ _ _ _ _) in H. inversion H; subst; exact Hal.
  - inversion H; subst; exact Hal.
  - destruct (render _ _ _ _ _ _) in H.
    pose proof (do_reads_bounded [(ALL, 4096%nat)] rd2 st2 al2 got EndCount Hal) as Hb.
    destruct (do_reads c [(ALL, 4096%nat)] rd2 st2 al2 got EndCount) as [[[[g' e'] r'] s'] a'].
    inversion H; subst; exact Hb.
Qed.

Definition step_bounded (r : step_result) : Prop :=
  match r with
  | SDone o => bounded (o_allocs o)
  | SCont _ _ _ _ al _ => bounded al
  end.

Lemma handle_bounded date act m ver hs expects rd st1 al1 :
  bounded al1 ->
  bounded (h_al3 (handle c date act m ver hs expects rd st1 al1)) /\
  bounded (h_al4 (handle c date act m ver hs expects rd st1 al1)).
Proof.
  intros Hal.
  destruct (reads_of c act rd st1 al1) as [[[[got e] rd2] st2] al2] eqn:Er.
  pose proof (do_reads_bounded (a_reads act) rd st1 al1 [] EndCount Hal) as H2.
  unfold reads_of in Er. rewrite Er in H2. cbn [snd] in H2.
  destruct (handle_finish c date act m ver hs expects rd st1 al1 _ _ _ _ _ Er) as (rd3 & st3 & Ef & Ed).
  pose proof (finish_of_bounded _ _ _ _ _ _ _ _ _ _ _ _ _ _ _ _ _ Ef H2) as H3.
  split; [exact H3|]. pose proof (body_drop_bounded rd3 st3 _ H3) as H4. rewrite Ed in H4. exact H4.
Qed.

Lemma deliver_step_bounded date script dflt wire reqs ok m url ver hs bl expects rd st1 al1 :
  bounded al1 ->
  step_bounded (deliver_step c date script dflt wire reqs ok m url ver hs bl expects rd st1 al1).
Proof.
  intros Hal. unfold deliver_step. destruct (ver_gt_11 ver).
  - destruct (fix_d5 c); [|exact Hal]. destruct (render _ _ _ _ _ _).
    pose proof (body_drop_bounded rd st1 al1 Hal) as H.
    destruct (body_drop c rd st1 al1) as [st2 al2]. exact H.
  - destruct (handle_bounded date (act_of script dflt) m ver hs expects rd st1 al1 Hal) as [H3 H4].
    destruct (handle _ _ _ _ _ _ _ _ _ _) as [w100 m100 wfin mfin al3 got3 e3 st4 al4].
    cbn [h_al3 h_al4] in *.
    destruct e3; try (destruct (last_request ver hs)); cbn [step_bounded o_allocs]; assumption.
Qed.

Lemma serve_step_bounded date script dflt st wire reqs al ok :
  bounded al -> step_bounded (serve_step c date script dflt st wire reqs al ok).
Proof.
  intros Hal. unfold serve_step.
  destruct (read_head c (sbytes st)) as [m url ver hs rest| | | |ver]; try exact Hal.
  - destruct (framing c hs) as [kind bl expects| |] eqn:Ef.
    + destruct kind as [| |n| |]; cbn [built_of]; try (apply deliver_step_bounded; exact Hal).
      assert (Hn : bounded (n :: al)).
      { apply bounded_cons; [|exact Hal]. apply framing_buffered_le in Ef. lia. }
      destruct (n <=? len rest)%N; [apply deliver_step_bounded; exact Hn|].
      destruct (seof st); exact Hn.
    + destruct (render _ _ _ _ _ _); exact Hal.
    + destruct (render _ _ _ _ _ _); exact Hal.
  - destruct (render _ _ _ _ _ _); exact Hal.
Qed.

Lemma serve_loop_bounded date fuel script dflt st wire reqs al ok :
  bounded al -> bounded (o_allocs (serve_loop c date fuel script dflt st wire reqs al ok)).
Proof.
  revert script st wire reqs al ok; induction fuel as [|f IH]; intros script st wire reqs al ok Hal.
  - exact Hal.
  - rewrite serve_loop_S. pose proof (serve_step_bounded date script dflt st wire reqs al ok Hal) as H.
    destruct (serve_step c date script dflt st wire reqs al ok); cbn [run_step step_bounded] in *.
    + exact H.
    + apply IH, H.
Qed.
End Bounded.

Lemma serve_allocs_bounded date script dflt input eof :
  Forall (fun n => (n <= 8192)%N) (o_allocs (serve fixed date script dflt input eof)).
Proof. apply serve_loop_bounded; [reflexivity|constructor]. Qed.
