(* Http/AheadFacts.v — read-ahead on one connection (C11), part 1: the threshold of the body-kind
   decision (which requests give the socket reader back at once), one-step lemmas for `ahead_loop`,
   pipelines of requests with absent or small (<= 1024 bytes) bodies: all of them are obtainable
   while none has been answered; a request with a large / chunked body stops the read-ahead. *)
From TH Require Import Base.Bytes Base.BytesFacts Base.RadixFacts Http.Response Http.Request Http.Body
                       Http.Serve Http.Ahead Http.LineFacts Http.HeadFacts Http.FramingFacts
                       Http.FramingBodyFacts Http.BodyFacts Http.ServeGoodFacts.
From Coq Require Import Lia ZArith ZifyN ZifyBool ZifyNat.
Open Scope char_scope.

(* ================= the framing decision, in the direction "headers => kind" ================= *)
(* v is an accepted Content-Length value denoting n: a non-empty string of digits below 2^64 *)
Definition cl_value (v : bytes) (n : N) : Prop :=
  v <> [] /\ forallb is_digit v = true /\ parse_dec v = Some n.
Definition absent (n : string) (hs : list header) : bool :=
  match header_value n hs with None => true | Some _ => false end.
(* no Expect header, or Expect: 100-continue (anything else is refused with 417) *)
Definition expect_ok (hs : list header) : bool :=
  match header_value "Expect" hs with None => true | Some v => eq_ci v (s "100-continue") end.
Definition expects (hs : list header) : bool := negb (absent "Expect" hs).
Definition has_te (hs : list header) : bool := negb (absent "Transfer-Encoding" hs).

Lemma absent_none n hs : absent n hs = true <-> header_value n hs = None.
Proof. unfold absent. destruct (header_value n hs); split; congruence. Qed.

Lemma cl_value_print n : (n < USIZE_BOUND)%N -> cl_value (print_dec n) n.
Proof.
  intros H. destruct (print_dec_digits n) as [H1 H2]. split; [exact H1|]. split; [exact H2|].
  now apply parse_dec_print.
Qed.

Lemma cl_value_bound v n : cl_value v n -> (n < USIZE_BOUND)%N.
Proof. intros (_ & _ & H). unfold parse_dec in H. now apply parse_sound in H. Qed.

(* converse of framing_fixed_char: an acceptable header list is accepted, with this kind *)
Lemma framing_fixed_ok hs cl0 :
  expect_ok hs = true ->
  match header_value "Content-Length" hs with
  | None => cl0 = None
  | Some v => exists n, cl_value v n /\ cl0 = Some n
  end ->
  framing fixed hs
  = FrOk (kind_of (wants_upgrade hs) (if has_te hs then None else cl0) (has_te hs) (expects hs))
         (if has_te hs then None else cl0) (expects hs).
Proof.
  unfold expect_ok, expects, has_te, absent, framing, wants_upgrade, kind_of. cbv zeta. cbn [fix_d9 fixed].
  intros Hex Hcl.
  destruct (header_value "Content-Length" hs) as [v|].
  - destruct Hcl as (n & (Hne & Hd & Hp) & ->). destruct v as [|c v]; [congruence|]. rewrite Hd, Hp.
    destruct (header_value "Expect" hs) as [x|]; [rewrite Hex|];
      destruct (header_value "Transfer-Encoding" hs); reflexivity.
  - subst cl0. destruct (header_value "Expect" hs) as [x|]; [rewrite Hex|];
      destruct (header_value "Transfer-Encoding" hs); reflexivity.
Qed.

(* C11, the threshold: the body is read before the request is delivered (and the reader given back)
   exactly when ... *)
Theorem threshold hs n :
  (exists bl ex, framing fixed hs = FrOk (KBuffered n) bl ex) <->
  header_value "Transfer-Encoding" hs = None /\
  (exists v, header_value "Content-Length" hs = Some v /\ cl_value v n) /\
  (0 < n <= 1024)%N /\
  header_value "Expect" hs = None /\
  wants_upgrade hs = false.
Proof.
  split.
  - intros (bl & ex & H). apply framing_fixed_char in H as (cl0 & Hc & Hbl & Hex & Hk).
    unfold kind_of in Hk. destruct (wants_upgrade hs); [discriminate|].
    destruct bl as [n'|]; [|destruct (header_value "Transfer-Encoding" hs); discriminate].
    destruct (N.eqb_spec n' 0) as [|Hn0]; [discriminate|].
    destruct (N.leb_spec n' 1024) as [Hle|]; [|discriminate].
    destruct ex; [discriminate|]. cbn [negb andb] in Hk. injection Hk as ->.
    destruct (header_value "Transfer-Encoding" hs) as [te|]; [discriminate|]. subst cl0.
    split; [reflexivity|]. split.
    + destruct (header_value "Content-Length" hs) as [v|]; [|discriminate].
      destruct Hc as (H1 & H2 & H3 & _). exists v. split; [reflexivity|]. repeat split; assumption.
    + split; [lia|]. split; [|reflexivity]. destruct (header_value "Expect" hs); [discriminate|reflexivity].
  - intros (Hte & (v & Hcl & Hv) & Hn & Hex & Hup).
    exists (Some n), false.
    rewrite (framing_fixed_ok hs (Some n)).
    + unfold has_te, expects, absent. rewrite Hte, Hex, Hup. cbn [negb]. unfold kind_of.
      destruct (N.eqb_spec n 0) as [|_]; [lia|]. destruct (N.leb_spec n 1024) as [_|]; [reflexivity|lia].
    + unfold expect_ok. now rewrite Hex.
    + rewrite Hcl. exists n. auto.
Qed.

(* ================= one step of ahead_loop ================= *)
Section Steps.
Variables (c : cfg) (f : nat) (st : stream) (acc : list bytes).
Variables (m url : bytes) (ver : version) (hs : list header) (rest : bytes).
Hypothesis H : read_head c (sbytes st) = HeadOk m url ver hs rest.
Hypothesis V : ver_gt_11 ver = false.

Lemma ahead_step_empty bl ex : framing c hs = FrOk KEmpty bl ex -> last_request ver hs = false ->
  ahead_loop c (S f) st acc = ahead_loop c f (mkS rest (seof st)) (url :: acc).
Proof. intros F L. cbn [ahead_loop]. now rewrite H, F, V, L. Qed.

Lemma ahead_step_buffered n bl ex : framing c hs = FrOk (KBuffered n) bl ex -> last_request ver hs = false ->
  (n <= len rest)%N ->
  ahead_loop c (S f) st acc = ahead_loop c f (mkS (skipn (N.to_nat n) rest) (seof st)) (url :: acc).
Proof.
  intros F L Hn. cbn [ahead_loop]. rewrite H, F, V, L. destruct (N.leb_spec n (len rest)); [reflexivity|lia].
Qed.

Lemma ahead_step_limited n bl ex : framing c hs = FrOk (KLimited n) bl ex ->
  ahead_loop c (S f) st acc = (frev (url :: acc), AHolds (BLimited n) (mkS rest (seof st)) (last_request ver hs)).
Proof. intros F. cbn [ahead_loop]. now rewrite H, F, V. Qed.

Lemma ahead_step_chunked bl ex : framing c hs = FrOk KChunked bl ex ->
  ahead_loop c (S f) st acc = (frev (url :: acc), AHolds (BChunked None false) (mkS rest (seof st)) (last_request ver hs)).
Proof. intros F. cbn [ahead_loop]. now rewrite H, F, V. Qed.

Lemma ahead_step_upgrade bl ex : framing c hs = FrOk KUpgrade bl ex ->
  ahead_loop c (S f) st acc = (frev (url :: acc), AHolds BUpgrade (mkS rest (seof st)) (last_request ver hs)).
Proof. intros F. cbn [ahead_loop]. now rewrite H, F, V. Qed.
End Steps.

Lemma ahead_step_eof c f st acc : read_head c (sbytes st) = HeadEof ->
  ahead_loop c (S f) st acc = (frev acc, AEnd).
Proof. intros H. cbn [ahead_loop]. now rewrite H. Qed.

(* ================= pipeline elements ================= *)
Definition hdrs (r : req_head) : list header := map field_header (rq_headers r).

Record pelem := mkPE { pe_head : req_head; pe_ows : list (bytes * bytes); pe_body : bytes }.
Definition render_elem (e : pelem) : bytes := render_req_head (pe_head e) (pe_ows e) ++ pe_body e.
Definition render_pipe (es : list pelem) : bytes := List.concat (map render_elem es).
Definition pe_target (e : pelem) : bytes := rq_target (pe_head e).
Definition targets (es : list pelem) : list bytes := map pe_target es.

(* a well-formed head (version 0.9, 1.0 or 1.1) without Transfer-Encoding and Expect that keeps
   the connection alive: no Connection header containing close / upgrade, and for HTTP/1.0 a
   Connection header containing keep-alive *)
Definition small_head (r : req_head) : bool :=
  wf_head r && absent "Transfer-Encoding" (hdrs r) && absent "Expect" (hdrs r)
  && negb (last_request (rq_version r) (hdrs r)).
(* no Content-Length and no body, or Content-Length: n <= 1024 and exactly n body bytes *)
Definition small_body (hs : list header) (body : bytes) : Prop :=
  match header_value "Content-Length" hs with
  | None => body = []
  | Some v => exists n, cl_value v n /\ (n <= 1024)%N /\ len body = n
  end.
Definition small_elem (e : pelem) : Prop :=
  small_head (pe_head e) = true /\ wf_ows (pe_ows e) = true /\ small_body (hdrs (pe_head e)) (pe_body e).

Lemma last_request_false_no_upgrade ver hs : last_request ver hs = false -> wants_upgrade hs = false.
Proof.
  unfold last_request, wants_upgrade. destruct (header_value "Connection" hs) as [v|]; [|reflexivity].
  destruct (contains_sub (s "close") (lower v)); [discriminate|].
  destruct (contains_sub (s "upgrade") (lower v)); [discriminate|reflexivity].
Qed.

Lemma wf_head_version r : wf_head r = true -> ver_gt_11 (rq_version r) = false.
Proof.
  intros W. apply wf_version_le_11. unfold wf_head in W. apply andb_true_iff in W as [W _].
  now apply andb_true_iff in W as [_ W].
Qed.

Lemma len_nil_inv (b : bytes) : len b = 0%N -> b = [].
Proof. destruct b; [reflexivity|unfold len; cbn [List.length]; lia]. Qed.

Lemma skipn_len_app (b x : bytes) : skipn (N.to_nat (len b)) (b ++ x) = x.
Proof.
  unfold len. rewrite Nat2N.id. rewrite skipn_app, skipn_all, Nat.sub_diag. reflexivity.
Qed.

(* one small element: its target is obtained and the loop stands at the bytes after its body *)
Lemma small_step e x eof f acc : small_elem e ->
  ahead_loop fixed (S f) (mkS (render_elem e ++ x) eof) acc
  = ahead_loop fixed f (mkS x eof) (pe_target e :: acc).
Proof.
  destruct e as [r o b]. unfold small_elem, render_elem, pe_target. cbn [pe_head pe_ows pe_body].
  intros (Hs & Ho & Hb). unfold small_head in Hs.
  apply andb_true_iff in Hs as [Hs Hl]. apply andb_true_iff in Hs as [Hs Hex]. apply andb_true_iff in Hs as [Hw Hte].
  apply negb_true_iff in Hl.
  pose proof (last_request_false_no_upgrade _ _ Hl) as Hup.
  pose proof (wf_head_version r Hw) as V.
  rewrite <- app_assoc.
  pose proof (head_roundtrip r o (b ++ x) Hw Ho) as Hh. fold (hdrs r) in Hh.
  assert (Eok : expect_ok (hdrs r) = true).
  { unfold expect_ok. apply absent_none in Hex. now rewrite Hex. }
  unfold small_body in Hb.
  destruct (header_value "Content-Length" (hdrs r)) as [v|] eqn:Hcl.
  - destruct Hb as (n & Hv & Hn & Hlen).
    assert (F : framing fixed (hdrs r) = FrOk (kind_of false (Some n) false false) (Some n) false).
    { rewrite (framing_fixed_ok (hdrs r) (Some n) Eok); [|rewrite Hcl; exists n; auto].
      unfold has_te, expects. rewrite Hte, Hex, Hup. reflexivity. }
    unfold kind_of in F. destruct (N.eqb_spec n 0) as [Hn0|Hn0].
    + rewrite Hn0 in Hlen. apply len_nil_inv in Hlen. subst b.
      exact (ahead_step_empty fixed f (mkS _ eof) acc _ _ _ _ _ Hh V _ _ F Hl).
    + destruct (N.leb_spec n 1024) as [_|]; [|lia]. cbn [negb andb] in F.
      rewrite (ahead_step_buffered fixed f (mkS _ eof) acc _ _ _ _ _ Hh V _ _ _ F Hl).
      * cbn [seof]. subst n. now rewrite skipn_len_app.
      * rewrite len_app. lia.
  - subst b.
    assert (F : framing fixed (hdrs r) = FrOk (kind_of false None false false) None false).
    { rewrite (framing_fixed_ok (hdrs r) None Eok); [|now rewrite Hcl].
      unfold has_te, expects. rewrite Hte, Hex, Hup. reflexivity. }
    exact (ahead_step_empty fixed f (mkS _ eof) acc _ _ _ _ _ Hh V _ _ F Hl).
Qed.

(* a run of small elements, followed by anything *)
Lemma run_small : forall es f x eof acc, Forall small_elem es ->
  ahead_loop fixed (List.length es + f) (mkS (render_pipe es ++ x) eof) acc
  = ahead_loop fixed f (mkS x eof) (rev (targets es) ++ acc).
Proof.
  induction es as [|e es IH]; intros f x eof acc Hes; [reflexivity|].
  inversion Hes as [|? ? He Hes']; subst.
  unfold render_pipe. cbn [map List.concat]. fold (render_pipe es). rewrite <- app_assoc.
  cbn [List.length plus]. rewrite (small_step e _ eof _ acc He). rewrite (IH f x eof _ Hes').
  unfold targets. cbn [map rev]. now rewrite <- app_assoc.
Qed.

Lemma render_elem_length e : (1 <= List.length (render_elem e))%nat.
Proof. unfold render_elem. rewrite app_length. pose proof (render_req_head_length (pe_head e) (pe_ows e)). lia. Qed.

Lemma render_pipe_length es : (List.length es <= List.length (render_pipe es))%nat.
Proof.
  induction es as [|e es IH]; [cbn; lia|]. unfold render_pipe in *. cbn [map List.concat List.length].
  rewrite app_length. pose proof (render_elem_length e). lia.
Qed.

(* with the fuel `ahead` uses, the loop arrives at the bytes after the run with fuel left *)
Lemma ahead_after_run es x eof : Forall small_elem es ->
  exists f, (List.length x <= f)%nat /\
    ahead fixed (mkS (render_pipe es ++ x) eof) = ahead_loop fixed (S f) (mkS x eof) (rev (targets es)).
Proof.
  intros Hes. pose proof (render_pipe_length es) as L.
  exists (List.length (render_pipe es) - List.length es + List.length x)%nat. split; [lia|].
  unfold ahead. cbn [sbytes]. rewrite app_length.
  replace (S (List.length (render_pipe es) + List.length x))
    with (List.length es + S (List.length (render_pipe es) - List.length es + List.length x))%nat by lia.
  rewrite (run_small es _ x eof [] Hes). now rewrite app_nil_r.
Qed.

(* C11, first sentence: every request of a pipeline of small requests is obtainable while none has
   been answered *)
Theorem small_pipeline_all es tail eof : Forall small_elem es -> read_head fixed tail = HeadEof ->
  ahead fixed (mkS (render_pipe es ++ tail) eof) = (targets es, AEnd).
Proof.
  intros Hes Ht. destruct (ahead_after_run es tail eof Hes) as (f & _ & E). rewrite E.
  rewrite ahead_step_eof by exact Ht. now rewrite frev_rev_id.
Qed.

(* the answer does not depend on the fuel: any amount above the number of requests gives it, and
   the amount `ahead` uses is above it — AEnd is the end of the input, not the end of the fuel *)
Theorem small_pipeline_fuel es tail eof fuel : Forall small_elem es -> read_head fixed tail = HeadEof ->
  (List.length es < fuel)%nat ->
  ahead_loop fixed fuel (mkS (render_pipe es ++ tail) eof) [] = (targets es, AEnd).
Proof.
  intros Hes Ht Hf. replace fuel with (List.length es + S (fuel - List.length es - 1))%nat by lia.
  rewrite (run_small es _ tail eof [] Hes), app_nil_r.
  rewrite ahead_step_eof by exact Ht. now rewrite frev_rev_id.
Qed.
Lemma small_pipeline_fuel_ok es tail :
  (List.length es < S (List.length (render_pipe es ++ tail)))%nat.
Proof. rewrite app_length. pose proof (render_pipe_length es). lia. Qed.

(* ================= a request whose body is streamed ================= *)
(* Content-Length: n with n > 1024, or n > 0 together with Expect: 100-continue; no transfer coding *)
Definition limited_head (r : req_head) (n : N) : Prop :=
  wf_head r = true /\ absent "Transfer-Encoding" (hdrs r) = true /\ wants_upgrade (hdrs r) = false /\
  expect_ok (hdrs r) = true /\
  exists v, header_value "Content-Length" (hdrs r) = Some v /\ cl_value v n /\
            ((1024 < n)%N \/ ((0 < n)%N /\ expects (hdrs r) = true)).
(* a Transfer-Encoding header (any Content-Length is ignored, but a malformed one is refused) *)
Definition chunked_head (r : req_head) : Prop :=
  wf_head r = true /\ has_te (hdrs r) = true /\ wants_upgrade (hdrs r) = false /\
  expect_ok (hdrs r) = true /\
  match header_value "Content-Length" (hdrs r) with None => True | Some v => exists n, cl_value v n end.

Lemma framing_limited_head r n : limited_head r n ->
  framing fixed (hdrs r) = FrOk (KLimited n) (Some n) (expects (hdrs r)).
Proof.
  intros (_ & Hte & Hup & Hex & v & Hcl & Hv & Hn).
  rewrite (framing_fixed_ok (hdrs r) (Some n) Hex); [|rewrite Hcl; exists n; auto].
  unfold has_te. rewrite Hte, Hup. cbn [negb]. unfold kind_of.
  destruct (N.eqb_spec n 0) as [|_]; [lia|].
  destruct Hn as [Hn|[_ Hn]].
  - destruct (N.leb_spec n 1024); [lia|reflexivity].
  - rewrite Hn. cbn [negb]. now rewrite andb_false_r.
Qed.

Lemma framing_chunked_head r : chunked_head r ->
  framing fixed (hdrs r) = FrOk KChunked None (expects (hdrs r)).
Proof.
  intros (_ & Hte & Hup & Hex & Hcl).
  destruct (header_value "Content-Length" (hdrs r)) as [v|] eqn:E.
  - destruct Hcl as (n & Hv). rewrite (framing_fixed_ok (hdrs r) (Some n) Hex); [|rewrite E; exists n; auto].
    rewrite Hte, Hup. reflexivity.
  - rewrite (framing_fixed_ok (hdrs r) None Hex); [|now rewrite E]. rewrite Hte, Hup. reflexivity.
Qed.

Lemma limited_head_wf r n : limited_head r n -> wf_head r = true.
Proof. now intros (H & _). Qed.
Lemma chunked_head_wf r : chunked_head r -> wf_head r = true.
Proof. now intros (H & _). Qed.

Lemma frev_targets es t : frev (t :: rev (targets es)) = targets es ++ [t].
Proof. rewrite frev_rev. cbn [rev]. now rewrite rev_involutive. Qed.

(* C11, second sentence, the blocking half: after k small requests, a request with a large
   Content-Length body is delivered, holds the reader, and NOTHING behind its head is looked at:
   `rest` (its body and whatever follows) is left on the connection; the flag says whether the
   holder ends the connection *)
Theorem holds_limited es r o n rest eof : Forall small_elem es -> limited_head r n -> wf_ows o = true ->
  ahead fixed (mkS (render_pipe es ++ render_req_head r o ++ rest) eof)
  = (targets es ++ [rq_target r], AHolds (BLimited n) (mkS rest eof) (last_request (rq_version r) (hdrs r))).
Proof.
  intros Hes Hr Ho. destruct (ahead_after_run es (render_req_head r o ++ rest) eof Hes) as (f & _ & E). rewrite E.
  pose proof (head_roundtrip r o rest (limited_head_wf r n Hr) Ho) as Hh. fold (hdrs r) in Hh.
  rewrite (ahead_step_limited fixed f (mkS _ eof) _ _ _ _ _ _ Hh (wf_head_version r (limited_head_wf r n Hr))
             n _ _ (framing_limited_head r n Hr)).
  cbn [seof]. now rewrite frev_targets.
Qed.

Theorem holds_chunked es r o rest eof : Forall small_elem es -> chunked_head r -> wf_ows o = true ->
  ahead fixed (mkS (render_pipe es ++ render_req_head r o ++ rest) eof)
  = (targets es ++ [rq_target r], AHolds (BChunked None false) (mkS rest eof) (last_request (rq_version r) (hdrs r))).
Proof.
  intros Hes Hr Ho. destruct (ahead_after_run es (render_req_head r o ++ rest) eof Hes) as (f & _ & E). rewrite E.
  pose proof (head_roundtrip r o rest (chunked_head_wf r Hr) Ho) as Hh. fold (hdrs r) in Hh.
  rewrite (ahead_step_chunked fixed f (mkS _ eof) _ _ _ _ _ _ Hh (wf_head_version r (chunked_head_wf r Hr))
             _ _ (framing_chunked_head r Hr)).
  cbn [seof]. now rewrite frev_targets.
Qed.

(* a request with Connection: upgrade owns the raw connection, and always ends the connection *)
Definition upgrade_head (r : req_head) : Prop :=
  wf_head r = true /\ wants_upgrade (hdrs r) = true /\ expect_ok (hdrs r) = true /\
  match header_value "Content-Length" (hdrs r) with None => True | Some v => exists n, cl_value v n end.

Lemma framing_upgrade_head r : upgrade_head r -> exists bl ex, framing fixed (hdrs r) = FrOk KUpgrade bl ex.
Proof.
  intros (_ & Hup & Hex & Hcl).
  destruct (header_value "Content-Length" (hdrs r)) as [v|] eqn:E.
  - destruct Hcl as (n & Hv). rewrite (framing_fixed_ok (hdrs r) (Some n) Hex); [|rewrite E; exists n; auto].
    rewrite Hup. unfold kind_of. eauto.
  - rewrite (framing_fixed_ok (hdrs r) None Hex); [|now rewrite E]. rewrite Hup. unfold kind_of. eauto.
Qed.

Lemma wants_upgrade_last ver hs : wants_upgrade hs = true -> last_request ver hs = true.
Proof.
  unfold last_request, wants_upgrade. destruct (header_value "Connection" hs) as [v|]; [|discriminate].
  intros ->. destruct (contains_sub (s "close") (lower v)); reflexivity.
Qed.

Theorem holds_upgrade es r o rest eof : Forall small_elem es -> upgrade_head r -> wf_ows o = true ->
  ahead fixed (mkS (render_pipe es ++ render_req_head r o ++ rest) eof)
  = (targets es ++ [rq_target r], AHolds BUpgrade (mkS rest eof) true).
Proof.
  intros Hes Hr Ho. destruct (ahead_after_run es (render_req_head r o ++ rest) eof Hes) as (f & _ & E). rewrite E.
  pose proof Hr as (Hw & Hup & _).
  pose proof (head_roundtrip r o rest Hw Ho) as Hh. fold (hdrs r) in Hh.
  destruct (framing_upgrade_head r Hr) as (bl & ex & F).
  rewrite (ahead_step_upgrade fixed f (mkS _ eof) _ _ _ _ _ _ Hh (wf_head_version r Hw) _ _ F).
  cbn [seof]. now rewrite frev_targets, (wants_upgrade_last _ _ Hup).
Qed.
