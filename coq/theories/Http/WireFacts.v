(* Http/WireFacts.v — C06: the bytes one connection sends are, in order, one contribution per
   delivered request (optional interim 100 Continue, then the final answer), with a 505 response in
   place of every head of version 2.0/3.0, and at most one refusal (400/417) at the very end.
   Proved for every input by induction on the fuel of serve_loop, through the one-step lemmas. *)
From TH Require Import Base.Bytes Base.BytesFacts Http.Response Http.Request Http.Body Http.Serve
  Http.ServeFacts Http.ServeStreamFacts Http.ServeRefuseFacts Http.C12ServeFacts Http.C18Facts.
From Coq Require Import Lia ZArith ZifyN ZifyBool ZifyNat.
Open Scope char_scope.

(* ---- what one delivered request contributes to the wire ---- *)
(* whether the request carried a recognised Expect: 100-continue (a function of its headers) *)
Definition expects_of (hs : list header) : bool :=
  match framing fixed hs with FrOk _ _ e => e | _ => false end.

Definition is_block (e : read_end) : bool := match e with EndBlock => true | _ => false end.

(* [interim response, iff expected and the action asks for the body] ++ [the final answer, unless
   the handler is stuck in a read of the body that the client never sends] *)
Definition contribution (date : bytes) (a : action) (d : delivered) : bytes :=
  (if expects_of (d_headers d) && asks_body a then interim date (d_ver d) (d_headers d) else []) ++
  (if is_block (d_end d) then [] else final_bytes date a (d_method d) (d_ver d) (d_headers d)).

(* ---- the segments of a connection's output, one per iteration that writes something ---- *)
Inductive seg :=
| SReq (a : action) (d : delivered)          (* a delivered request and the action applied to it *)
| S505                                       (* a head of version 2.0 / 3.0: not delivered *)
| SRefuse (st : N) (ver : version) (nb : bool).   (* a refused head: 400 / 417, then close *)

Definition seg_bytes (date : bytes) (sg : seg) : bytes :=
  match sg with
  | SReq a d => contribution date a d
  | S505 => bytes_505 date
  | SRefuse st ver nb => error_bytes date st ver nb
  end.
Definition segs_bytes (date : bytes) (segs : list seg) : bytes := List.concat (map (seg_bytes date) segs).

Definition seg_req (sg : seg) : list (action * delivered) :=
  match sg with SReq a d => [(a, d)] | _ => [] end.
Definition seg_reqs (segs : list seg) : list (action * delivered) := flat_map seg_req segs.

Definition seg_blocked (sg : seg) : bool :=
  match sg with SReq _ d => is_block (d_end d) | _ => false end.
(* after a terminal segment nothing more is sent on the connection *)
Definition terminal (sg : seg) : bool :=
  match sg with
  | SReq _ d => is_block (d_end d) || last_request (d_ver d) (d_headers d)
  | S505 => false
  | SRefuse _ _ _ => true
  end.
Definition seg_ok (sg : seg) : Prop :=
  match sg with
  | SReq _ d => ver_gt_11 (d_ver d) = false
  | S505 => True
  | SRefuse st ver nb => (st = 400%N /\ nb = false) \/ (st = 417%N /\ nb = true)
  end.
Fixpoint trace_ok (segs : list seg) : Prop :=
  match segs with
  | [] => True
  | sg :: t => seg_ok sg /\ (terminal sg = true -> t = []) /\ trace_ok t
  end.

(* the actions the handler applies to the first n requests: the script, then the default *)
Fixpoint used_actions (script : list action) (dflt : action) (n : nat) : list action :=
  match n with
  | O => []
  | S k => act_of script dflt :: used_actions (script_tl script) dflt k
  end.

Lemma used_actions_nth script dflt : forall n i, (i < n)%nat ->
  nth i (used_actions script dflt n) dflt = nth i script dflt.
Proof.
  intros n. revert script. induction n as [|n IH]; intros script i Hi; [lia|].
  cbn [used_actions]. destruct i as [|i].
  - destruct script; reflexivity.
  - cbn [nth]. rewrite IH by lia. destruct script as [|a t]; cbn [script_tl nth]; [now destruct i|reflexivity].
Qed.

Lemma used_actions_length script dflt n : List.length (used_actions script dflt n) = n.
Proof. revert script; induction n as [|n IH]; intros script; cbn [used_actions List.length]; [reflexivity|now rewrite IH]. Qed.

Lemma trace_ok_spec segs : trace_ok segs <->
  forall pre sg post, segs = pre ++ sg :: post -> seg_ok sg /\ (terminal sg = true -> post = []).
Proof.
  induction segs as [|x t IH]; cbn [trace_ok].
  - split; [intros _ pre sg post E; destruct pre; discriminate|auto].
  - split.
    + intros (H1 & H2 & H3) pre sg post E. destruct pre as [|y pre]; cbn [app] in E.
      * injection E as <- <-. auto.
      * injection E as <- E. apply (proj1 IH H3 pre sg post E).
    + intros H. split; [|split].
      * apply (H [] x t eq_refl).
      * apply (H [] x t eq_refl).
      * apply IH. intros pre sg post E. apply (H (x :: pre) sg post). now rewrite E.
Qed.

(* ---- one iteration ---- *)
Lemma built_of_inr kind rest eof al e : built_of kind rest eof al = inr e -> e <> CHang.
Proof.
  destruct kind as [| |n| |]; cbn [built_of]; try discriminate.
  destruct (n <=? len rest)%N; [discriminate|]. destruct eof; intros [= <-]; discriminate.
Qed.
Lemma built_of_some kind rest eof al : built_of kind rest eof al <> inl None.
Proof.
  destruct kind as [| |n| |]; cbn [built_of]; try discriminate.
  destruct (n <=? len rest)%N; [discriminate|]. destruct eof; discriminate.
Qed.

Lemma error_render date st ver nb :
  render date (empty_response st) ver [] nb None = (error_bytes date st ver nb, true).
Proof. apply render_split. Qed.
Lemma render_505 date : render date resp505 (1, 1)%N [] false None = (bytes_505 date, true).
Proof. apply (render_split date r505). Qed.

(* the result of one iteration, described by at most one segment *)
Definition step_spec (date : bytes) (script : list action) (dflt : action)
    (wire : bytes) (reqs : list delivered) (r : step_result) : Prop :=
  match r with
  | SDone o =>
      (o_wire o = wire /\ o_reqs o = frev reqs /\ o_end o <> CHang) \/
      (exists sg, terminal sg = true /\ seg_ok sg /\
         o_wire o = wire ++ seg_bytes date sg /\
         o_reqs o = frev reqs ++ map snd (seg_req sg) /\
         map fst (seg_req sg) = used_actions script dflt (List.length (seg_req sg)) /\
         o_end o = (if seg_blocked sg then CHang else CClosed))
  | SCont script' st' wire' reqs' al' ok' =>
      exists sg, terminal sg = false /\ seg_ok sg /\ wire' = wire ++ seg_bytes date sg /\
        ((sg = S505 /\ script' = script /\ reqs' = reqs) \/
         (exists d, sg = SReq (act_of script dflt) d /\ script' = script_tl script /\ reqs' = d :: reqs))
  end.

Lemma contribution_mk date a m url ver hs bl got e ex : expects_of hs = ex ->
  contribution date a (mkD m url ver hs bl got e) =
  (if ex && asks_body a then interim date ver hs else []) ++
  (match e with EndBlock => [] | _ => final_bytes date a m ver hs end).
Proof. intros <-. unfold contribution. cbn [d_headers d_ver d_method d_end]. destruct e; reflexivity. Qed.

Lemma deliver_spec date script dflt wire reqs ok m url ver hs bl ex rd st1 al1 :
  expects_of hs = ex ->
  step_spec date script dflt wire reqs
    (deliver_step fixed date script dflt wire reqs ok m url ver hs bl ex rd st1 al1).
Proof.
  intros Hex. destruct (ver_gt_11 ver) eqn:Hv.
  - rewrite deliver_505 by (exact Hv || reflexivity). rewrite render_505. cbn [fst snd step_spec].
    exists S505. repeat split. left. auto.
  - pose proof (deliver_wire fixed date script dflt wire reqs ok m url ver hs bl ex rd st1 al1 Hv) as Hw.
    unfold deliver_step in *. rewrite Hv in *.
    destruct (handle fixed date (act_of script dflt) m ver hs ex rd st1 al1)
      as [w100 m100 wfin mfin al3 got3 e3 st4 al4].
    cbn [h_end] in Hw.
    rewrite <- (contribution_mk date (act_of script dflt) m url ver hs bl (pieces_bytes got3) e3 ex Hex) in Hw.
    set (d := mkD m url ver hs bl (pieces_bytes got3) e3) in *.
    assert (Hde : d_end d = e3) by reflexivity.
    assert (Hdv : d_ver d = ver) by reflexivity.
    assert (Hdh : d_headers d = hs) by reflexivity.
    clearbody d.
    destruct e3; destruct (last_request ver hs) eqn:El; cbn [step_wire o_wire step_spec o_reqs o_end] in *.
    1, 3, 5: right; exists (SReq (act_of script dflt) d);
      cbn [terminal seg_ok seg_bytes seg_req seg_blocked map fst snd List.length used_actions];
      rewrite Hde, Hdv, Hdh, El, frev_cons; cbn [is_block orb];
      repeat split; try assumption; try discriminate; try reflexivity.
    1, 2, 3: exists (SReq (act_of script dflt) d);
      cbn [terminal seg_ok seg_bytes]; rewrite Hde, Hdv, Hdh, El; cbn [is_block orb];
      repeat split; try assumption; right; exists d; auto.
    all: right; exists (SReq (act_of script dflt) d);
      cbn [terminal seg_ok seg_bytes seg_req seg_blocked map fst snd List.length used_actions];
      rewrite Hde, Hdv, frev_cons; cbn [is_block orb];
      repeat split; try assumption; try discriminate; try reflexivity.
Qed.

Lemma serve_step_spec date script dflt st wire reqs al ok :
  step_spec date script dflt wire reqs (serve_step fixed date script dflt st wire reqs al ok).
Proof.
  assert (Href : forall st0 ver nb al0,
            (st0 = 400%N /\ nb = false) \/ (st0 = 417%N /\ nb = true) ->
            step_spec date script dflt wire reqs
              (SDone (mkO (frev reqs) (wire ++ error_bytes date st0 ver nb) CClosed al0 (ok && true)))).
  { intros st0 ver nb al0 Hst. cbn [step_spec o_wire o_reqs o_end]. right.
    exists (SRefuse st0 ver nb). cbn [terminal seg_ok seg_bytes seg_req seg_blocked map List.length used_actions].
    rewrite app_nil_r. repeat split; try assumption; reflexivity. }
  destruct (read_head fixed (sbytes st)) as [m url ver hs rest| | | |ver] eqn:Eh.
  - destruct (framing fixed hs) as [kind bl ex| |] eqn:Ef.
    + rewrite (step_framed _ _ _ _ _ _ _ _ _ _ _ _ _ _ Eh _ _ _ Ef).
      destruct (built_of kind rest (seof st) al) as [[[[rd st1] al1]|]|e] eqn:Eb.
      * apply deliver_spec. unfold expects_of. now rewrite Ef.
      * destruct (built_of_some _ _ _ _ Eb).
      * cbn [step_spec o_wire o_reqs o_end]. left. repeat split. exact (built_of_inr _ _ _ _ _ Eb).
    + rewrite (ServeFacts.step_expectation_failed _ _ _ _ _ _ _ _ _ _ _ _ _ _ Eh Ef), error_render. cbn [fst snd].
      apply Href. auto.
    + rewrite (ServeFacts.step_bad_content_length _ _ _ _ _ _ _ _ _ _ _ _ _ _ Eh Ef), error_render. cbn [fst snd].
      apply Href. auto.
  - rewrite step_head_eof by exact Eh. cbn [step_spec o_wire o_reqs o_end]. left. repeat split.
    destruct (seof st); discriminate.
  - rewrite step_head_nonascii by exact Eh. cbn [step_spec o_wire o_reqs o_end]. left. repeat split. discriminate.
  - rewrite step_head_badline by exact Eh. rewrite error_render. cbn [fst snd]. apply Href. auto.
  - rewrite (step_head_badheader _ _ _ _ _ _ _ _ _ ver Eh), error_render. cbn [fst snd]. apply Href. auto.
Qed.

(* ---- the whole loop ---- *)
(* stuck iff the last request blocked; closed by the server after any other terminal segment *)
Definition end_spec (o : outcome) (segs : list seg) : Prop :=
  (o_end o = CHang <-> existsb seg_blocked segs = true) /\
  (existsb terminal segs = true -> existsb seg_blocked segs = false -> o_end o = CClosed).
Definition trace_spec (date : bytes) (script : list action) (dflt : action)
    (wire : bytes) (reqs : list delivered) (o : outcome) (segs : list seg) : Prop :=
  o_wire o = wire ++ segs_bytes date segs /\
  o_reqs o = frev reqs ++ map snd (seg_reqs segs) /\
  map fst (seg_reqs segs) = used_actions script dflt (List.length (seg_reqs segs)) /\
  trace_ok segs /\
  end_spec o segs.

Lemma loop_trace date dflt : forall f script st wire reqs al ok, (slen st < f)%nat ->
  exists segs, trace_spec date script dflt wire reqs
                 (serve_loop fixed date f script dflt st wire reqs al ok) segs.
Proof.
  induction f as [|f IH]; intros script st wire reqs al ok Hf; [lia|].
  rewrite serve_loop_S.
  pose proof (serve_step_spec date script dflt st wire reqs al ok) as Hs.
  destruct (serve_step fixed date script dflt st wire reqs al ok)
    as [o|script' st' wire' reqs' al' ok'] eqn:Es; cbn [run_step step_spec] in *.
  - destruct Hs as [(Hw & Hr & He)|(sg & Ht & Hok & Hw & Hr & Ha & He)].
    + exists []. unfold trace_spec, segs_bytes, seg_reqs.
      cbn [map List.concat flat_map List.length used_actions trace_ok existsb].
      rewrite !app_nil_r. split; [exact Hw|split; [exact Hr|split; [reflexivity|split; [exact I|]]]].
      unfold end_spec. cbn [existsb]. split; [split; [intros H; destruct (He H)|discriminate]|discriminate].
    + exists [sg]. unfold trace_spec, segs_bytes, seg_reqs. cbn [map List.concat flat_map trace_ok existsb].
      rewrite !app_nil_r.
      split; [exact Hw|split; [exact Hr|split; [exact Ha|split; [auto|]]]].
      unfold end_spec. cbn [existsb]. rewrite !orb_false_r, He.
      destruct (seg_blocked sg); split; try split; try discriminate; reflexivity.
  - destruct Hs as (sg & Ht & Hok & Hw & Hcase).
    apply serve_step_progress in Es.
    destruct (IH script' st' wire' reqs' al' ok' ltac:(lia)) as (segs & H1 & H2 & H3 & H4 & H5).
    exists (sg :: segs). unfold trace_spec, segs_bytes, seg_reqs in *.
    cbn [map List.concat flat_map trace_ok existsb].
    assert (Htr : seg_ok sg /\ (terminal sg = true -> segs = []) /\ trace_ok segs)
      by (split; [exact Hok|split; [congruence|exact H4]]).
    destruct Hcase as [(-> & -> & ->)|(d & -> & -> & ->)].
    + cbn [seg_req app seg_blocked orb]. subst wire'. rewrite <- app_assoc in H1.
      split; [exact H1|split; [exact H2|split; [exact H3|split; [exact Htr|]]]].
      unfold end_spec in *. cbn [existsb terminal seg_blocked orb]. exact H5.
    + cbn [seg_req app seg_blocked map snd fst List.length used_actions]. subst wire'.
      rewrite <- app_assoc in H1. rewrite frev_cons, <- app_assoc in H2. cbn [app] in H2.
      cbn [terminal] in Ht. apply orb_false_iff in Ht as [Hb Hl].
      split; [exact H1|split; [exact H2|split; [now rewrite H3|split; [exact Htr|]]]].
      unfold end_spec in *. cbn [existsb terminal seg_blocked]. rewrite Hb, Hl. cbn [orb]. exact H5.
Qed.

(* ---- the connection ---- *)
Theorem serve_trace date script dflt input eof :
  exists segs, trace_spec date script dflt [] [] (serve fixed date script dflt input eof) segs.
Proof. unfold serve. apply loop_trace. unfold slen. cbn [sbytes]. lia. Qed.

Theorem wire_decomposition date script dflt input eof :
  let o := serve fixed date script dflt input eof in
  exists segs : list seg,
    o_wire o = segs_bytes date segs /\
    map snd (seg_reqs segs) = o_reqs o /\
    map fst (seg_reqs segs) = used_actions script dflt (List.length (o_reqs o)) /\
    (forall pre sg post, segs = pre ++ sg :: post -> seg_ok sg /\ (terminal sg = true -> post = [])) /\
    (o_end o = CHang <-> existsb seg_blocked segs = true) /\
    (existsb terminal segs = true -> existsb seg_blocked segs = false -> o_end o = CClosed).
Proof.
  cbv zeta. destruct (serve_trace date script dflt input eof) as (segs & H1 & H2 & H3 & H4 & H5).
  exists segs. cbn [app] in H1, H2. change (frev (@nil delivered)) with (@nil delivered) in H2. cbn [app] in H2.
  split; [exact H1|split; [now rewrite H2|split; [|split; [|exact H5]]]].
  - rewrite H2, map_length. exact H3.
  - apply trace_ok_spec, H4.
Qed.

(* ---- reading the decomposition ---- *)
Definition is_505 (sg : seg) : bool := match sg with S505 => true | _ => false end.
Definition contrib_of (date : bytes) (p : action * delivered) : bytes := contribution date (fst p) (snd p).
Definition refusal_of (date : bytes) (sg : seg) : bytes :=
  match sg with SRefuse st ver nb => error_bytes date st ver nb | _ => [] end.
Definition refusal_tail (date : bytes) (segs : list seg) : bytes := List.concat (map (refusal_of date) segs).
Definition is_refusal (date : bytes) (tail : bytes) : Prop :=
  exists ver, tail = error_bytes date 400 ver false \/ tail = error_bytes date 417 ver true.

Lemma refusal_bytes date st ver nb : seg_ok (SRefuse st ver nb) -> is_refusal date (error_bytes date st ver nb).
Proof. intros [[-> ->]|[-> ->]]; exists ver; auto. Qed.

(* without 505 responses: the contributions of the delivered requests, in order, then at most one refusal *)
Lemma segs_bytes_no505 date segs : trace_ok segs -> forallb (fun sg => negb (is_505 sg)) segs = true ->
  segs_bytes date segs = List.concat (map (contrib_of date) (seg_reqs segs)) ++ refusal_tail date segs /\
  (refusal_tail date segs = [] \/ is_refusal date (refusal_tail date segs)).
Proof.
  unfold segs_bytes, seg_reqs, refusal_tail.
  induction segs as [|sg t IH]; cbn [trace_ok forallb map List.concat flat_map]; [auto|].
  intros (Hok & Hterm & Ht) Hn. apply andb_true_iff in Hn as [Hsg Hn]. destruct (IH Ht Hn) as [IH1 IH2].
  destruct sg as [a d| |st ver nb]; [| discriminate |].
  - cbn [seg_bytes seg_req refusal_of app map List.concat]. unfold contrib_of at 1. cbn [fst snd].
    rewrite IH1, <- app_assoc. auto.
  - rewrite (Hterm eq_refl). cbn [seg_bytes seg_req refusal_of app map List.concat]. rewrite app_nil_r.
    split; [reflexivity|right]. now apply refusal_bytes.
Qed.

(* no delivered request: only 505 responses and at most one refusal *)
Lemma segs_bytes_no_reqs date segs : trace_ok segs -> seg_reqs segs = [] ->
  exists n tail, segs_bytes date segs = List.concat (repeat (bytes_505 date) n) ++ tail /\
                 (tail = [] \/ is_refusal date tail).
Proof.
  unfold segs_bytes, seg_reqs.
  induction segs as [|sg t IH]; cbn [trace_ok map List.concat flat_map].
  - intros _ _. exists 0%nat, []. auto.
  - intros (Hok & Hterm & Ht) Hr. destruct sg as [a d| |st ver nb]; [discriminate| |].
    + destruct (IH Ht Hr) as (n & tail & E & Htail). exists (S n), tail. cbn [seg_bytes repeat List.concat].
      rewrite E, <- app_assoc. auto.
    + rewrite (Hterm eq_refl). exists 0%nat, (error_bytes date st ver nb).
      cbn [seg_bytes map List.concat repeat app]. rewrite app_nil_r. split; [reflexivity|right].
      now apply refusal_bytes.
Qed.

Theorem no_response_without_request date script dflt input eof :
  o_reqs (serve fixed date script dflt input eof) = [] ->
  exists n tail, o_wire (serve fixed date script dflt input eof)
                 = List.concat (repeat (bytes_505 date) n) ++ tail /\
                 (tail = [] \/ is_refusal date tail).
Proof.
  intros Hr. destruct (serve_trace date script dflt input eof) as (segs & H1 & H2 & _ & H4 & _).
  rewrite Hr in H2. change (frev (@nil delivered)) with (@nil delivered) in H2. cbn [app] in H1, H2.
  rewrite H1. apply segs_bytes_no_reqs; [exact H4|].
  destruct (seg_reqs segs); [reflexivity|discriminate].
Qed.

Theorem nothing_without_head date script dflt input eof : read_head fixed input = HeadEof ->
  serve fixed date script dflt input eof = mkO [] [] (if eof then CClosed else COpen) [] true.
Proof. intros H. unfold serve. now rewrite (step_eof _ _ _ _ _ (mkS input eof) _ _ _ _ H). Qed.

(* ---- the final answer by kind of finish ---- *)
Section Finish.
Variables (date : bytes) (a : action) (d : delivered).
Local Notation pre := (if expects_of (d_headers d) && asks_body a then interim date (d_ver d) (d_headers d) else []).
Hypothesis Hnb : d_end d <> EndBlock.

Lemma contribution_final :
  contribution date a d = pre ++ final_bytes date a (d_method d) (d_ver d) (d_headers d).
Proof. unfold contribution. destruct (d_end d); try reflexivity. destruct (Hnb eq_refl). Qed.

Lemma respond_contribution code body declared : a_finish a = FRespond code body declared ->
  contribution date a d =
  pre ++ fst (render date (new_response code [] body (if declared then Some (len body) else None))
                     (d_ver d) (d_headers d) (is_head (d_method d)) None).
Proof. intros H. rewrite contribution_final. unfold final_bytes. now rewrite H. Qed.

Lemma drop_contribution : a_finish a = FDrop ->
  contribution date a d =
  pre ++ fst (render date (empty_response 500) (d_ver d) (d_headers d) (is_head (d_method d)) None).
Proof. intros H. rewrite contribution_final. unfold final_bytes. now rewrite H. Qed.

Lemma writer_contribution data : a_finish a = FWriter data -> contribution date a d = pre ++ data.
Proof. intros H. rewrite contribution_final. unfold final_bytes. now rewrite H. Qed.

Lemma upgrade_contribution proto : a_finish a = FUpgrade proto ->
  contribution date a d =
  pre ++ fst (render date (empty_response 101) (d_ver d) (d_headers d) false (Some proto)).
Proof. intros H. rewrite contribution_final. unfold final_bytes. now rewrite H. Qed.
End Finish.

(* no interim response unless the request expects one and the action reads the body *)
Lemma contribution_no_interim date a d : expects_of (d_headers d) = false \/ a_reads a = [] ->
  contribution date a d =
  (if is_block (d_end d) then [] else final_bytes date a (d_method d) (d_ver d) (d_headers d)).
Proof.
  intros H. unfold contribution.
  assert (E : expects_of (d_headers d) && asks_body a = false).
  { destruct H as [->| H]; [reflexivity|]. unfold asks_body. rewrite H. apply andb_false_r. }
  now rewrite E.
Qed.
