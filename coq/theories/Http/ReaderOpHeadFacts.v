(* Http/ReaderOpHeadFacts.v — the operational head reader (request line, header lines) and the
   "head + pre-read small body" reader are functions of the logical stream (C13), and these
   functions are Request.read_head / the KBuffered step of Serve.serve_loop. *)
From TH Require Import Base.Bytes Base.BytesFacts Http.Response Http.Request Http.Body Http.ReaderOp
                       Http.ReaderOpFacts.
From Coq Require Import Lia ZArith ZifyN ZifyBool ZifyNat.
Open Scope char_scope.

Lemma read_line_aux_shorter : forall x acc p l rest,
  read_line_aux acc p x = Some (l, rest) -> List.length rest < List.length x.
Proof.
  induction x as [|b x IH]; intros acc p l rest H; cbn [read_line_aux] in H; [discriminate|].
  cbn [List.length]. destruct (Ascii.eqb b LF && p).
  - inversion H; subst. lia.
  - apply IH in H. lia.
Qed.

Lemma read_line_shorter x l rest : read_line x = Some (l, rest) -> List.length rest < List.length x.
Proof. apply read_line_aux_shorter. Qed.

(* ---------- the header loop and the head as functions of the stream ---------- *)
Fixpoint headers_fn (c : cfg) (fuel : nat) (m url : bytes) (ver : version) (acc : list header)
                    (x : bytes) (e : bool) : head_op * bytes :=
  match fuel with
  | O => (HOpFuel, x)
  | S f =>
      match read_line x with
      | None => (if e then HOpEof else HOpBlock, [])
      | Some (l, rest) =>
          if negb (all_ascii l) then (HOpNonAscii, rest) else
          match l with
          | [] => (HOpOk m url ver (frev acc), rest)
          | _ => match parse_header (if fix_d8 c then trim_end l else trim l) with
                 | Some h => headers_fn c f m url ver (h :: acc) rest e
                 | None => (HOpBadHeader ver, rest)
                 end
          end
      end
  end.

Definition head_fn (c : cfg) (x : bytes) (e : bool) : head_op * bytes :=
  match read_line x with
  | None => (if e then HOpEof else HOpBlock, [])
  | Some (l, rest) =>
      if negb (all_ascii l) then (HOpNonAscii, rest) else
      match parse_request_line (trim l) with
      | None => (HOpBadLine, rest)
      | Some (m, url, ver) => headers_fn c (S (List.length rest)) m url ver [] rest e
      end
  end.

Lemma read_headers_op_S c f m url ver acc br : read_headers_op c (S f) m url ver acc br =
  match read_line_op br with
  | (LLine l, br') =>
      if negb (all_ascii l) then (HOpNonAscii, br') else
      match l with
      | [] => (HOpOk m url ver (frev acc), br')
      | _ => match parse_header (if fix_d8 c then trim_end l else trim l) with
             | Some h => read_headers_op c f m url ver (h :: acc) br'
             | None => (HOpBadHeader ver, br')
             end
      end
  | (LEof, br') => (HOpEof, br')
  | (LBlock _ _, br') => (HOpBlock, br')
  | (LFuel, br') => (HOpFuel, br')
  end.
Proof. reflexivity. Qed.

Lemma headers_fn_S c f m url ver acc x e : headers_fn c (S f) m url ver acc x e =
  match read_line x with
  | None => (if e then HOpEof else HOpBlock, [])
  | Some (l, rest) =>
      if negb (all_ascii l) then (HOpNonAscii, rest) else
      match l with
      | [] => (HOpOk m url ver (frev acc), rest)
      | _ => match parse_header (if fix_d8 c then trim_end l else trim l) with
             | Some h => headers_fn c f m url ver (h :: acc) rest e
             | None => (HOpBadHeader ver, rest)
             end
      end
  end.
Proof. reflexivity. Qed.

Theorem read_headers_op_fn c m url ver : forall f_op f_fn acc br,
  wf br -> List.length (contents br) < f_op -> List.length (contents br) < f_fn ->
  exists br', read_headers_op c f_op m url ver acc br =
                (fst (headers_fn c f_fn m url ver acc (contents br) (br_eof br)), br') /\
              lands br br' (snd (headers_fn c f_fn m url ver acc (contents br) (br_eof br))).
Proof.
  induction f_op as [|f IH]; intros f_fn acc br Hwf Hf1 Hf2; [lia|].
  destruct f_fn as [|g]; [lia|]. rewrite read_headers_op_S, headers_fn_S.
  pose proof (read_line_bridge br Hwf) as Hb.
  destruct (read_line (contents br)) as [[l rest]|] eqn:El.
  - destruct Hb as (br1 & Hr & Hl). rewrite Hr. apply read_line_shorter in El.
    destruct (negb (all_ascii l)); [exists br1; cbn [fst snd]; auto|].
    destruct l as [|l0 l]; [exists br1; cbn [fst snd]; auto|].
    destruct (parse_header (if fix_d8 c then trim_end (l0 :: l) else trim (l0 :: l))) as [h|];
      [|exists br1; cbn [fst snd]; auto].
    destruct Hl as (L1 & L2 & L3).
    destruct (IH g (h :: acc) br1 L2) as (br2 & Hr2 & Hl2); [rewrite L1; lia|rewrite L1; lia|].
    rewrite L1, L3 in Hr2, Hl2. exists br2. split; [exact Hr2|].
    destruct Hl2 as (M1 & M2 & M3). repeat split; auto. congruence.
  - destruct Hb as (br1 & a & p & Hr & Hl & _). rewrite Hr. exists br1.
    destruct (br_eof br); cbn [fst snd]; auto.
Qed.

Theorem read_head_op_fn c br : wf br ->
  exists br', read_head_op c br = (fst (head_fn c (contents br) (br_eof br)), br') /\
              lands br br' (snd (head_fn c (contents br) (br_eof br))).
Proof.
  intros Hwf. unfold read_head_op, head_fn. pose proof (read_line_bridge br Hwf) as Hb.
  destruct (read_line (contents br)) as [[l rest]|] eqn:El.
  - destruct Hb as (br1 & Hr & Hl). rewrite Hr.
    destruct (negb (all_ascii l)); [exists br1; cbn [fst snd]; auto|].
    destruct (parse_request_line (trim l)) as [[[m url] ver]|]; [|exists br1; cbn [fst snd]; auto].
    destruct Hl as (L1 & L2 & L3).
    destruct (read_headers_op_fn c m url ver (br_fuel br1) (S (List.length rest)) [] br1 L2 (br_fuel_gt br1))
      as (br2 & Hr2 & Hl2); [rewrite L1; lia|].
    rewrite L1, L3 in Hr2, Hl2. exists br2. split; [exact Hr2|].
    destruct Hl2 as (M1 & M2 & M3). repeat split; auto. congruence.
  - destruct Hb as (br1 & a & p & Hr & Hl & _). rewrite Hr. exists br1.
    destruct (br_eof br); cbn [fst snd]; auto.
Qed.

(* ---------- head_fn is Request.read_head ---------- *)
(* a waiting reader and an aborted one are both HeadEof in Request.v; the stream's flag tells which *)
Definition head_op_of (r : head_result) (e : bool) : head_op :=
  match r with
  | HeadOk m url ver hs _ => HOpOk m url ver hs
  | HeadEof => if e then HOpEof else HOpBlock
  | HeadNonAscii => HOpNonAscii
  | HeadBadLine => HOpBadLine
  | HeadBadHeader v => HOpBadHeader v
  end.

Lemma read_headers_S c f ver acc x : read_headers c (S f) ver acc x =
  match read_line x with
  | None => inl HeadEof
  | Some (l, rest) =>
      if negb (all_ascii l) then inl HeadNonAscii else
      match l with
      | [] => inr (frev acc, rest)
      | _ => match parse_header (if fix_d8 c then trim_end l else trim l) with
             | Some h => read_headers c f ver (h :: acc) rest
             | None => inl (HeadBadHeader ver)
             end
      end
  end.
Proof. reflexivity. Qed.

(* neither fuel runs out: each line takes at least one byte *)
Lemma headers_fn_read_headers c m url ver e : forall f acc x, List.length x < f ->
  match read_headers c f ver acc x with
  | inr (hs, rest) => headers_fn c f m url ver acc x e = (HOpOk m url ver hs, rest)
  | inl r => fst (headers_fn c f m url ver acc x e) = head_op_of r e /\
             match r with
             | HeadOk _ _ _ _ _ => False
             | HeadEof => snd (headers_fn c f m url ver acc x e) = []
             | _ => True
             end
  end.
Proof.
  induction f as [|f IH]; intros acc x Hf; [lia|]. rewrite read_headers_S, headers_fn_S.
  destruct (read_line x) as [[l rest]|] eqn:El.
  - apply read_line_shorter in El. destruct (negb (all_ascii l)); [cbn [fst snd head_op_of]; auto|].
    destruct l as [|l0 l]; [reflexivity|].
    destruct (parse_header (if fix_d8 c then trim_end (l0 :: l) else trim (l0 :: l))) as [h|].
    + apply IH. lia.
    + cbn [fst snd head_op_of]. auto.
  - cbn [fst snd head_op_of]. auto.
Qed.

Theorem head_fn_read_head c x e :
  fst (head_fn c x e) = head_op_of (read_head c x) e /\
  match read_head c x with
  | HeadOk _ _ _ _ rest => snd (head_fn c x e) = rest
  | HeadEof => snd (head_fn c x e) = []
  | _ => True
  end.
Proof.
  unfold head_fn, read_head. destruct (read_line x) as [[l rest]|]; [|cbn [fst snd head_op_of]; auto].
  destruct (negb (all_ascii l)); [cbn [fst snd head_op_of]; auto|].
  destruct (parse_request_line (trim l)) as [[[m url] ver]|]; [|cbn [fst snd head_op_of]; auto].
  pose proof (headers_fn_read_headers c m url ver e (S (List.length rest)) [] rest ltac:(lia)) as H.
  destruct (read_headers c (S (List.length rest)) ver [] rest) as [r|[hs rest']].
  - destruct H as (H1 & H2). split; [exact H1|]. destruct r; auto. contradiction.
  - rewrite H. cbn [fst snd head_op_of]. auto.
Qed.

(* the bridge in one statement: the operational head reader against Request.read_head *)
Theorem read_head_bridge c br : wf br ->
  exists br', read_head_op c br = (head_op_of (read_head c (contents br)) (br_eof br), br') /\
              wf br' /\ br_eof br' = br_eof br /\
              match read_head c (contents br) with
              | HeadOk _ _ _ _ rest => contents br' = rest
              | HeadEof => contents br' = []
              | _ => True
              end.
Proof.
  intros Hwf. destruct (read_head_op_fn c br Hwf) as (br' & Hr & (L1 & L2 & L3)).
  destruct (head_fn_read_head c (contents br) (br_eof br)) as (H1 & H2).
  exists br'. rewrite Hr, H1. repeat split; auto.
  destruct (read_head c (contents br)); auto; congruence.
Qed.

(* ---------- head + framing + pre-read small body ---------- *)
Definition small_request_fn (c : cfg) (x : bytes) (e : bool) : req_op * bytes :=
  match head_fn c x e with
  | (HOpOk m url ver hs, rest) =>
      match framing c hs with
      | FrOk KEmpty _ _ => (RqOk m url ver hs [], rest)
      | FrOk (KBuffered n) _ _ =>
          match small_body_fn (N.to_nat n) [] rest e with
          | (SBFull d, rest2) => (RqOk m url ver hs d, rest2)
          | (b, rest2) => (RqBody b, rest2)
          end
      | _ => (RqOther, rest)
      end
  | (h, rest) => (RqHead h, rest)
  end.

Theorem read_small_request_op_fn c br : wf br ->
  exists br', read_small_request_op c br = (fst (small_request_fn c (contents br) (br_eof br)), br') /\
              lands br br' (snd (small_request_fn c (contents br) (br_eof br))).
Proof.
  intros Hwf. unfold read_small_request_op, small_request_fn.
  destruct (read_head_op_fn c br Hwf) as (br1 & Hr & Hl). rewrite Hr.
  destruct (head_fn c (contents br) (br_eof br)) as [h rest]. cbn [fst snd] in Hl |- *.
  destruct h as [m url ver hs| | | | |v|]; try (exists br1; cbn [fst snd]; split; [reflexivity|exact Hl]).
  destruct (framing c hs) as [k bl ex| |]; try (exists br1; cbn [fst snd]; split; [reflexivity|exact Hl]).
  destruct k as [| |n| |]; try (exists br1; cbn [fst snd]; split; [reflexivity|exact Hl]).
  destruct Hl as (L1 & L2 & L3).
  destruct (read_small_body_op_fn (N.to_nat n) br1 L2) as (br2 & Hr2 & Hl2).
  rewrite L1, L3 in Hr2, Hl2. rewrite Hr2.
  assert (Hl3 : lands br br2 (snd (small_body_fn (N.to_nat n) [] rest (br_eof br)))).
  { destruct Hl2 as (M1 & M2 & M3). repeat split; auto. congruence. }
  destruct (small_body_fn (N.to_nat n) [] rest (br_eof br)) as [b rest2]. cbn [fst snd] in Hl3 |- *.
  destruct b; exists br2; cbn [fst snd]; split; auto.
Qed.

(* with Serve.serve_loop's own words: a complete head whose framing is KBuffered n and whose n
   body bytes are in the stream is delivered with exactly firstn n / skipn n of the rest *)
Corollary read_small_request_bridge c br m url ver hs rest n bl ex : wf br ->
  read_head c (contents br) = HeadOk m url ver hs rest ->
  framing c hs = FrOk (KBuffered n) bl ex ->
  (n <= len rest)%N ->
  exists br', read_small_request_op c br = (RqOk m url ver hs (firstn (N.to_nat n) rest), br') /\
              lands br br' (skipn (N.to_nat n) rest).
Proof.
  intros Hwf Hh Hfr Hn. destruct (read_small_request_op_fn c br Hwf) as (br' & Hr & Hl).
  exists br'. unfold small_request_fn in Hr, Hl.
  destruct (head_fn_read_head c (contents br) (br_eof br)) as (H1 & H2). rewrite Hh in H1, H2.
  cbn [head_op_of] in H1. destruct (head_fn c (contents br) (br_eof br)) as [h r0].
  cbn [fst snd] in H1, H2. subst h r0. rewrite Hfr in Hr, Hl. unfold small_body_fn in Hr, Hl.
  destruct (Nat.leb (N.to_nat n) (List.length rest)) eqn:E; [|unfold len in Hn; lia].
  cbn [fst snd app] in Hr, Hl. auto.
Qed.

Corollary read_empty_request_bridge c br m url ver hs rest bl ex : wf br ->
  read_head c (contents br) = HeadOk m url ver hs rest ->
  framing c hs = FrOk KEmpty bl ex ->
  exists br', read_small_request_op c br = (RqOk m url ver hs [], br') /\ lands br br' rest.
Proof.
  intros Hwf Hh Hfr. destruct (read_small_request_op_fn c br Hwf) as (br' & Hr & Hl).
  exists br'. unfold small_request_fn in Hr, Hl.
  destruct (head_fn_read_head c (contents br) (br_eof br)) as (H1 & H2). rewrite Hh in H1, H2.
  cbn [head_op_of] in H1. destruct (head_fn c (contents br) (br_eof br)) as [h r0].
  cbn [fst snd] in H1, H2. subst h r0. rewrite Hfr in Hr, Hl. cbn [fst snd] in Hr, Hl. auto.
Qed.

(* ---------- the sequence of requests of a connection ---------- *)
Lemma headers_fn_le c m url ver e : forall f acc x,
  List.length (snd (headers_fn c f m url ver acc x e)) <= List.length x.
Proof.
  induction f as [|f IH]; intros acc x; [cbn [headers_fn snd]; lia|]. rewrite headers_fn_S.
  destruct (read_line x) as [[l rest]|] eqn:El; [|cbn [snd List.length]; lia].
  apply read_line_shorter in El. destruct (negb (all_ascii l)); [cbn [snd]; lia|].
  destruct l as [|l0 l]; [cbn [snd]; lia|].
  destruct (parse_header (if fix_d8 c then trim_end (l0 :: l) else trim (l0 :: l))) as [h|]; [|cbn [snd]; lia].
  specialize (IH (h :: acc) rest). lia.
Qed.

Lemma head_fn_ok_shorter c x e m url ver hs rest :
  head_fn c x e = (HOpOk m url ver hs, rest) -> List.length rest < List.length x.
Proof.
  unfold head_fn. destruct (read_line x) as [[l r0]|] eqn:El; [|destruct e; discriminate].
  apply read_line_shorter in El. destruct (negb (all_ascii l)); [discriminate|].
  destruct (parse_request_line (trim l)) as [[[m0 url0] ver0]|]; [|discriminate].
  intros H. pose proof (headers_fn_le c m0 url0 ver0 e (S (List.length r0)) [] r0) as Hle.
  rewrite H in Hle. cbn [snd] in Hle. lia.
Qed.

Lemma small_request_fn_ok_shorter c x e m url ver hs d rest :
  small_request_fn c x e = (RqOk m url ver hs d, rest) -> List.length rest < List.length x.
Proof.
  unfold small_request_fn. destruct (head_fn c x e) as [h r1] eqn:Eh.
  destruct h as [m0 url0 ver0 hs0| | | | |v|]; try discriminate.
  apply head_fn_ok_shorter in Eh.
  destruct (framing c hs0) as [k bl ex| |]; try discriminate.
  destruct k as [| |n| |]; try discriminate.
  - intros H. inversion H; subst. exact Eh.
  - unfold small_body_fn. destruct (Nat.leb (N.to_nat n) (List.length r1)).
    + intros H. inversion H; subst. rewrite skipn_length. lia.
    + destruct e; discriminate.
Qed.

Fixpoint requests_fn (c : cfg) (fuel : nat) (x : bytes) (e : bool) : list req_op * bytes :=
  match fuel with
  | O => ([RqFuel], x)
  | S f =>
      match small_request_fn c x e with
      | (RqOk m url ver hs d, rest) =>
          if last_request ver hs then ([RqOk m url ver hs d], rest)
          else let '(l, r2) := requests_fn c f rest e in (RqOk m url ver hs d :: l, r2)
      | (q, rest) => ([q], rest)
      end
  end.

Lemma requests_fn_S c f x e : requests_fn c (S f) x e =
  match small_request_fn c x e with
  | (RqOk m url ver hs d, rest) =>
      if last_request ver hs then ([RqOk m url ver hs d], rest)
      else let '(l, r2) := requests_fn c f rest e in (RqOk m url ver hs d :: l, r2)
  | (q, rest) => ([q], rest)
  end.
Proof. reflexivity. Qed.

Lemma read_requests_op_S c f br : read_requests_op c (S f) br =
  match read_small_request_op c br with
  | (RqOk m url ver hs d, br1) =>
      if last_request ver hs then ([RqOk m url ver hs d], br1)
      else let '(l, br2) := read_requests_op c f br1 in (RqOk m url ver hs d :: l, br2)
  | (x, br1) => ([x], br1)
  end.
Proof. reflexivity. Qed.

Theorem read_requests_op_fn c : forall f1 f2 br,
  wf br -> List.length (contents br) < f1 -> List.length (contents br) < f2 ->
  exists br', read_requests_op c f1 br = (fst (requests_fn c f2 (contents br) (br_eof br)), br') /\
              lands br br' (snd (requests_fn c f2 (contents br) (br_eof br))).
Proof.
  induction f1 as [|f IH]; intros f2 br Hwf Hf1 Hf2; [lia|]. destruct f2 as [|g]; [lia|].
  rewrite read_requests_op_S, requests_fn_S.
  destruct (read_small_request_op_fn c br Hwf) as (br1 & Hr & Hl). rewrite Hr.
  destruct (small_request_fn c (contents br) (br_eof br)) as [q rest] eqn:Eq. cbn [fst snd] in Hl |- *.
  destruct q as [m url ver hs d|h|b| |]; try (exists br1; cbn [fst snd]; split; [reflexivity|exact Hl]).
  destruct (last_request ver hs); [exists br1; cbn [fst snd]; split; [reflexivity|exact Hl]|].
  apply small_request_fn_ok_shorter in Eq. destruct Hl as (L1 & L2 & L3).
  destruct (IH g br1 L2) as (br2 & Hr2 & Hl2); [rewrite L1; lia|rewrite L1; lia|].
  rewrite L1, L3 in Hr2, Hl2. rewrite Hr2.
  destruct (requests_fn c g rest (br_eof br)) as [l r2]. cbn [fst snd] in Hl2 |- *.
  exists br2. split; [reflexivity|]. destruct Hl2 as (M1 & M2 & M3). repeat split; auto. congruence.
Qed.

Theorem read_requests_fn c br : wf br ->
  exists br', read_requests c br =
                (fst (requests_fn c (S (List.length (contents br))) (contents br) (br_eof br)), br') /\
              lands br br' (snd (requests_fn c (S (List.length (contents br))) (contents br) (br_eof br))).
Proof. intros Hwf. apply read_requests_op_fn; [assumption|apply br_fuel_gt|lia]. Qed.

(* the fuel never runs out *)
Lemma requests_fn_no_fuel c e : forall f x, List.length x < f -> ~ In RqFuel (fst (requests_fn c f x e)).
Proof.
  induction f as [|f IH]; intros x Hf; [lia|]. rewrite requests_fn_S.
  destruct (small_request_fn c x e) as [q rest] eqn:Eq.
  destruct q as [m url ver hs d|h|b| |] eqn:Eqq; cbn [fst In]; try (intros [H|[]]; discriminate).
  - destruct (last_request ver hs); [cbn [fst In]; intros [H|[]]; discriminate|].
    apply small_request_fn_ok_shorter in Eq. specialize (IH rest ltac:(lia)).
    destruct (requests_fn c f rest e) as [l r2]. cbn [fst In] in IH |- *. intros [H|H]; [discriminate|auto].
  - exfalso. unfold small_request_fn in Eq. destruct (head_fn c x e) as [h r1].
    destruct h as [m0 url0 ver0 hs0| | | | |v|]; try discriminate.
    destruct (framing c hs0) as [k bl ex| |]; try discriminate.
    destruct k as [| |n| |]; try discriminate.
    destruct (small_body_fn (N.to_nat n) [] r1 e) as [sb r2]. destruct sb; discriminate.
Qed.
