(* Http/C05Facts.v — reference decision function for C05 and its agreement with choose_te. *)
From TH Require Import Base.Bytes Http.Response Http.C05Spec Http.TEFacts Http.ResponseFacts.
From Coq Require Import ZArith Lia.

Lemma choice_is_reference status rh ver dlen thr entries :
  te_entries rh = Some entries ->
  choose_te status rh ver dlen thr = Some (ref_choice status entries ver dlen thr).
Proof.
  unfold te_entries, choose_te, ref_choice, te_wish. intros H.
  destruct (ver_le ver (1, 0)%N); [reflexivity|].
  destruct ((status <? 200) || (status =? 204))%N; [reflexivity|].
  assert (Hlen : match dlen with None => Some Chunked
                 | Some n => if (thr <=? n)%N then Some Chunked else Some Identity end =
                 Some match dlen with None => Chunked
                 | Some n => if (n <? thr)%N then Identity else Chunked end).
  { destruct dlen as [n|]; [|reflexivity].
    destruct (N.leb_spec thr n), (N.ltb_spec n thr); try reflexivity; lia. }
  destruct (find_header "TE" rh) as [h|].
  - rewrite H, wish_is_reference. destruct (ref_wish entries); [reflexivity|exact Hlen].
  - inversion H; subst. cbn. exact Hlen.
Qed.

(* outside the sub-domain the model makes no claim, and says so *)
Lemma choice_unmodelled status rh ver dlen thr :
  te_entries rh = None -> ver_le ver (1, 0)%N = false ->
  ((status <? 200) || (status =? 204))%N = false ->
  choose_te status rh ver dlen thr = None.
Proof.
  unfold te_entries, choose_te, te_wish. intros H -> ->.
  destruct (find_header "TE" rh); [now rewrite H|discriminate].
Qed.

Lemma default_threshold r : threshold r = None -> chunked_threshold r = 32768%N.
Proof. unfold chunked_threshold. now intros ->. Qed.

Lemma raw_print_head te0 date r ver nb up :
  exists body, raw_print_with te0 date r ver nb up =
               render_head ver (status r) (framing_of date r up te0) ++ body.
Proof. unfold raw_print_with, framing_of. eexists. reflexivity. Qed.

Lemma identity_has_cl date r : clean r ->
  let hs := framing_of date r None Identity in
  filter is_cl hs = [mkH (s "Content-Length")
                         (print_dec match data_length r with Some l => l | None => len (rbody r) end)]
  /\ filter is_te hs = [].
Proof.
  intros Hc hs. subst hs. unfold framing_of.
  destruct (data_length r) as [l|];
    [exact (framing_headers date r None (Some Identity) (Some l) Hc)
    |exact (framing_headers date r None (Some Identity) (Some (len (rbody r))) Hc)].
Qed.

Lemma chunked_has_te_no_cl date r : clean r ->
  let hs := framing_of date r None Chunked in
  filter is_te hs = [mkH (s "Transfer-Encoding") (s "chunked")] /\ filter is_cl hs = [].
Proof.
  intros Hc hs. subst hs. unfold framing_of.
  exact (framing_headers date r None (Some Chunked) _ Hc).
Qed.

Lemma upgrade_has_neither date r p te0 : clean r ->
  let hs := framing_of date r (Some p) te0 in
  filter is_cl hs = [] /\ filter is_te hs = [].
Proof.
  intros Hc hs. subst hs. unfold framing_of.
  destruct (data_length r) as [l|];
    [exact (framing_headers date r (Some p) None (Some l) Hc)
    |exact (framing_headers date r (Some p) None None Hc)].
Qed.
