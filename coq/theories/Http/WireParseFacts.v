(* Http/WireParseFacts.v — C06 seen from the client: the bytes a delivered request contributes are
   read back by the independent RFC 7230 parser (ClientSpec.v) as [an optional 100 Continue and]
   exactly one final response with the status and body of the action (500 and no body for a
   dropped request); and the output for a pipeline of k requests splits into exactly k responses. *)
From TH Require Import Base.Bytes Base.BytesFacts Http.Response Http.Request Http.Body Http.Serve
  Http.ServeFacts Http.ClientSpec Http.ResponseFacts Http.C04Facts Http.C12ServeFacts
  Http.C12ManyFacts Http.C18Facts Http.WireFacts.
From Coq Require Import Lia ZArith ZifyN ZifyBool ZifyNat.
Open Scope char_scope.

(* ---- the actions that answer with a response built by the library ---- *)
Definition answerable (a : action) : Prop :=
  match a_finish a with
  | FRespond code body _ => (100 <= code <= 999)%N /\ (len body < USIZE_BOUND)%N
  | FDrop => True
  | FWriter _ | FUpgrade _ => False
  end.
Definition answer_response (a : action) : response :=
  match a_finish a with
  | FRespond code body declared => new_response code [] body (if declared then Some (len body) else None)
  | _ => empty_response 500
  end.
(* what the client must recover: (status, body); no body in answer to HEAD and with 1xx/204/304 *)
Definition expected_answer (head : bool) (a : action) : N * bytes :=
  match a_finish a with
  | FRespond code body _ => (code, if head || bodyless_status code then [] else body)
  | _ => (500%N, [])
  end.

Lemma new_response_wf0 code body dl : (100 <= code <= 999)%N -> (len body < USIZE_BOUND)%N ->
  dl = None \/ dl = Some (len body) -> wf_response (new_response code [] body dl).
Proof. intros H1 H2 H3. apply (built_wf code [] body []); auto. Qed.

Lemma answerable_wf a : answerable a -> wf_response (answer_response a).
Proof.
  unfold answerable, answer_response. destruct (a_finish a) as [code body declared| |data|proto]; try contradiction.
  - intros [H1 H2]. apply new_response_wf0; auto. destruct declared; auto.
  - intros _. apply new_response_wf0; [lia|reflexivity|now right].
Qed.

Lemma answer_expected head a : answerable a ->
  (status (answer_response a), expected_body head (answer_response a)) = expected_answer head a.
Proof.
  unfold answerable, answer_response, expected_answer, expected_body.
  destruct (a_finish a) as [code body declared| |data|proto]; try contradiction; intros _.
  - reflexivity.
  - change (status (empty_response 500)) with 500%N. change (rbody (empty_response 500)) with (@nil ascii).
    now destruct (head || bodyless_status 500).
Qed.

Lemma final_bytes_answer date a m ver hs : answerable a ->
  final_bytes date a m ver hs = fst (render date (answer_response a) ver hs (is_head m) None).
Proof.
  unfold answerable, answer_response, final_bytes, fin_wire.
  destruct (a_finish a) as [code body declared| |data|proto]; try contradiction; reflexivity.
Qed.

(* within the modelled TE domain a response is always written, with one of the two codings *)
Lemma render_modelled date r ver hs nb w : te_wish hs = Some w ->
  exists c, render date r ver hs nb None = (raw_print_with c date r ver nb None, true).
Proof.
  intros H. unfold render, raw_print, choose_te.
  destruct (ver_le ver (1, 0)%N); [eauto|].
  destruct ((status r <? 200)%N || (status r =? 204)%N); [eauto|]. rewrite H.
  destruct w as [c|]; [eauto|]. destruct (data_length r) as [n|]; [destruct (chunked_threshold r <=? n)%N|]; eauto.
Qed.

(* ---- the final answer, parsed back ---- *)
Theorem final_bytes_parse date a m ver hs w rest :
  answerable a -> C04Facts.nolf date = true -> In ver versions -> te_wish hs = Some w ->
  exists p, parse_response (is_head m) (final_bytes date a m ver hs ++ rest) = Some p /\
            (p_status p, p_body p) = expected_answer (is_head m) a /\ p_rest p = rest /\
            p_delim p <> UntilClose.
Proof.
  intros Ha Hd Hv Hw. rewrite final_bytes_answer by exact Ha.
  destruct (render_modelled date (answer_response a) ver hs (is_head m) w Hw) as (c & ->). cbn [fst].
  destruct (roundtrip c date (answer_response a) ver (is_head m) rest (answerable_wf a Ha) Hd Hv)
    as (p & Hp & Hs & Hb & Hr & Hdl).
  exists p. rewrite Hs, Hb, answer_expected by exact Ha. auto.
Qed.

(* ---- the interim response, parsed back ---- *)
Lemma interim_print date ver hs head :
  interim date ver hs = raw_print_with Identity date (empty_response 100) ver head None.
Proof.
  unfold interim. rewrite interim_render. cbn [fst].
  rewrite (no_body_bytes Identity date (empty_response 100) ver head None)
    by (change (no_body_status (status (empty_response 100))) with true; apply orb_true_r).
  change (empty_response 100) with (mkR 100 [] [] (Some 0%N) None).
  unfold final_headers. cbn [status rheaders data_length existsb rbody orb]. reflexivity.
Qed.

Theorem interim_parse date ver hs head rest : C04Facts.nolf date = true -> In ver versions ->
  exists p, parse_response head (interim date ver hs ++ rest) = Some p /\
            p_status p = 100%N /\ p_body p = [] /\ p_rest p = rest.
Proof.
  intros Hd Hv. rewrite (interim_print date ver hs head).
  assert (Hwf : wf_response (empty_response 100)) by (apply new_response_wf0; [lia|reflexivity|now right]).
  destruct (roundtrip Identity date (empty_response 100) ver head rest Hwf Hd Hv) as (p & Hp & Hs & Hb & Hr & _).
  exists p. repeat split; auto. rewrite Hb. unfold expected_body.
  change (bodyless_status (status (empty_response 100))) with true. now rewrite orb_true_r.
Qed.

(* ---- the contribution of any delivered request ---- *)
Theorem contribution_parse date a d w rest :
  answerable a -> C04Facts.nolf date = true -> In (d_ver d) versions ->
  te_wish (d_headers d) = Some w -> d_end d <> EndBlock ->
  let h := is_head (d_method d) in
  exists x p,
    (if expects_of (d_headers d) && asks_body a
     then exists p0, parse_response h (contribution date a d ++ rest) = Some p0 /\
                     p_status p0 = 100%N /\ p_body p0 = [] /\ p_rest p0 = x
     else x = contribution date a d ++ rest) /\
    parse_response h x = Some p /\ (p_status p, p_body p) = expected_answer h a /\
    p_rest p = rest /\ p_delim p <> UntilClose.
Proof.
  intros Ha Hd Hv Hw He. cbv zeta. rewrite (contribution_final date a d He).
  destruct (final_bytes_parse date a (d_method d) (d_ver d) (d_headers d) w rest Ha Hd Hv Hw)
    as (p & Hp & Hsb & Hr & Hdl).
  exists (final_bytes date a (d_method d) (d_ver d) (d_headers d) ++ rest), p.
  split; [|auto].
  destruct (expects_of (d_headers d) && asks_body a); [|reflexivity].
  rewrite <- app_assoc. apply interim_parse; assumption.
Qed.

(* ---- a pipeline of simple requests ---- *)
Lemma hosth_te : te_wish HOSTH = Some None.
Proof. reflexivity. Qed.
Lemma getb_not_head : is_head GETB = false.
Proof. reflexivity. Qed.

Lemma act_wire_final date a : act_wire date a = final_bytes date a GETB (1, 1)%N HOSTH.
Proof.
  unfold act_wire, wire_empty, final_bytes. rewrite w100_of_cases. reflexivity.
Qed.

Lemma act_wire_parse date a rest : answerable a -> C04Facts.nolf date = true ->
  exists p, parse_response false (act_wire date a ++ rest) = Some p /\
            (p_status p, p_body p) = expected_answer false a /\ p_rest p = rest /\
            p_delim p <> UntilClose.
Proof.
  intros Ha Hd. rewrite act_wire_final. rewrite <- getb_not_head.
  apply (final_bytes_parse date a GETB (1, 1)%N HOSTH None rest Ha Hd); [|exact hosth_te].
  unfold versions. cbn [In]. auto.
Qed.

Definition status_body (p : parsed) : N * bytes := (p_status p, p_body p).

Lemma answers_parse date dflt : forall ts script, C04Facts.nolf date = true ->
  Forall answerable (used_actions script dflt (List.length ts)) ->
  exists ps, parse_stream (repeat false (List.length ts)) (answers date dflt script ts) = (ps, []) /\
             map status_body ps = map (expected_answer false) (used_actions script dflt (List.length ts)) /\
             Forall (fun p => p_delim p <> UntilClose) ps.
Proof.
  induction ts as [|t ts IH]; intros script Hd Hall; cbn [List.length repeat answers used_actions parse_stream].
  - exists []. repeat split; constructor.
  - cbn [List.length used_actions] in Hall. inversion Hall as [|a0 l0 Ha Hrest]; subst.
    destruct (IH (script_tl script) Hd Hrest) as (ps & Hps & Hmap & Hdl).
    destruct (act_wire_parse date (act_of script dflt) (answers date dflt (script_tl script) ts) Ha Hd)
      as (p & Hp & Hsb & Hr & Hpd).
    exists (p :: ps).
    destruct (act_wire date (act_of script dflt) ++ answers date dflt (script_tl script) ts) as [|b x] eqn:Ex.
    + discriminate Hp.
    + rewrite Hp, Hr, Hps. cbn [map]. unfold status_body at 1. rewrite Hsb, Hmap.
      repeat split. constructor; assumption.
Qed.

Lemma deliveries_urls dflt : forall ts script, map d_url (deliveries dflt script ts) = ts.
Proof.
  induction ts as [|t ts IH]; intros script; cbn [deliveries map]; [reflexivity|].
  rewrite IH. reflexivity.
Qed.

Theorem pipeline_parsed date dflt script ts eof :
  Forall good_target ts -> C04Facts.nolf date = true ->
  Forall answerable (used_actions script dflt (List.length ts)) ->
  let o := serve fixed date script dflt (pipeline ts) eof in
  map d_url (o_reqs o) = ts /\
  exists ps, parse_stream (repeat false (List.length ts)) (o_wire o) = (ps, []) /\
             List.length ps = List.length ts /\
             map status_body ps = map (expected_answer false) (used_actions script dflt (List.length ts)) /\
             Forall (fun p => p_delim p <> UntilClose) ps.
Proof.
  intros Hg Hd Hall. cbv zeta. rewrite (pipeline_all_answered date dflt script ts eof Hg).
  cbn [o_reqs o_wire]. split; [apply deliveries_urls|].
  destruct (answers_parse date dflt ts script Hd Hall) as (ps & H1 & H2 & H3).
  exists ps. repeat split; auto.
  rewrite <- (map_length status_body), H2, map_length. apply used_actions_length.
Qed.
