(* Http/C15HeadFacts.v — C15(a)(b): a head that has not completely arrived is never delivered
   (every cut strictly inside a complete head reads as "the stream ended first"), nor is a request
   whose small body has not completely arrived. *)
From TH Require Import Base.Bytes Base.BytesFacts Http.Response Http.Request Http.Body Http.Serve
  Http.ServeFacts Http.ServeStreamFacts.
From Coq Require Import Lia ZArith ZifyN ZifyBool ZifyNat.
Open Scope char_scope.

(* ---- a line is complete iff the bytes contain CR LF ---- *)
Definition has_crlf (x : bytes) : Prop := exists a b, x = a ++ CR :: LF :: b.

Lemma has_crlf_cons b0 x : has_crlf (b0 :: x) <-> (b0 = CR /\ exists b, x = LF :: b) \/ has_crlf x.
Proof.
  unfold has_crlf. split.
  - intros (a & b & H). destruct a as [|a0 a]; cbn [app] in H.
    + injection H as -> ->. left. eauto.
    + injection H as -> ->. right. eauto.
  - intros [[-> [b ->]]|(a & b & ->)]; [exists [], b|exists (b0 :: a), b]; reflexivity.
Qed.

Lemma read_line_aux_none acc p x :
  read_line_aux acc p x = None <-> ~ (p = true /\ exists b, x = LF :: b) /\ ~ has_crlf x.
Proof.
  revert acc p; induction x as [|b0 x IH]; intros acc p; cbn [read_line_aux].
  - split; [intros _|reflexivity]. split; [intros [_ [b H]]; discriminate|].
    intros (a & b & H). destruct a; discriminate.
  - destruct (Ascii.eqb_spec b0 LF) as [->|Hb]; cbn [andb].
    + destruct p.
      * split; [discriminate|]. intros [H _]. exfalso. apply H. eauto.
      * rewrite IH, has_crlf_cons. change (Ascii.eqb LF CR) with false. split.
        -- intros [H1 H2]. split; [intros [? _]; discriminate|]. intros [[H _]|H]; [discriminate|auto].
        -- intros [_ H2]. split; [intros [? _]; discriminate|]. intros H. apply H2. auto.
    + rewrite IH, has_crlf_cons. split.
      * intros [H1 H2]. split; [intros [_ [b H]]; congruence|].
        intros [[-> Hx]|H]; [|auto]. apply H1. split; [reflexivity|exact Hx].
      * intros [_ H2]. split.
        -- intros [Hc Hx]. apply Ascii.eqb_eq in Hc. auto.
        -- intros H. auto.
Qed.

Theorem read_line_none_iff x : read_line x = None <-> ~ has_crlf x.
Proof.
  unfold read_line. rewrite read_line_aux_none. split; [intros [_ H]; exact H|].
  intros H. split; [intros [? _]; discriminate|exact H].
Qed.

(* ---- a cut inside the head ---- *)
Lemma read_headers_prefix c t : forall fuel ver acc r hs rest fuel',
  read_headers c fuel ver acc (r ++ t) = inr (hs, rest) -> (List.length rest < List.length t)%nat ->
  read_headers c fuel' ver acc r = inl HeadEof.
Proof.
  induction fuel as [|f IH]; intros ver acc r hs rest fuel' H Hl; cbn [read_headers] in H; [discriminate|].
  destruct fuel' as [|f']; [reflexivity|]. cbn [read_headers].
  destruct (read_line r) as [[l r']|] eqn:El; [|reflexivity].
  rewrite (read_line_app _ _ _ t El) in H.
  destruct (negb (all_ascii l)); [discriminate|].
  destruct l as [|l0 l1].
  - injection H as <- <-. rewrite app_length in Hl. lia.
  - destruct (parse_header _) as [h|]; [|discriminate]. exact (IH _ _ _ _ _ f' H Hl).
Qed.

(* x ++ t begins with a complete head that ends strictly after x (fewer than |t| bytes follow it):
   on x alone the head reader reports that the stream ended first — for EVERY such cut *)
Theorem read_head_cut c x t m url ver hs rest :
  read_head c (x ++ t) = HeadOk m url ver hs rest -> (List.length rest < List.length t)%nat ->
  read_head c x = HeadEof.
Proof.
  unfold read_head. destruct (read_line x) as [[l r]|] eqn:El; [|reflexivity].
  rewrite (read_line_app _ _ _ t El). destruct (negb (all_ascii l)); [discriminate|].
  destruct (parse_request_line (trim l)) as [[[m0 u0] v0]|]; [|discriminate].
  destruct (read_headers c (S (List.length (r ++ t))) v0 [] (r ++ t)) as [e|[hs0 r0]] eqn:Eh.
  - intros ->. eapply read_headers_inl in Eh. destruct (Eh eq_refl).
  - intros [= <- <- <- <- <-] Hl. now rewrite (read_headers_prefix c t _ _ _ _ _ _ (S (List.length r)) Eh Hl).
Qed.

Corollary read_head_proper_prefix c x t m url ver hs :
  read_head c (x ++ t) = HeadOk m url ver hs [] -> t <> [] -> read_head c x = HeadEof.
Proof. intros H Ht. apply (read_head_cut c x t m url ver hs [] H). destruct t; [contradiction|cbn; lia]. Qed.

(* ---- what serve_loop does with an incomplete head / an incomplete small body ---- *)
Theorem incomplete_head_not_delivered c date f script dflt st wire reqs al ok :
  read_head c (sbytes st) = HeadEof ->
  serve_loop c date (S f) script dflt st wire reqs al ok =
  mkO (frev reqs) wire (if seof st then CClosed else COpen) al ok.
Proof. intros H. rewrite serve_loop_S, step_head_eof by exact H. reflexivity. Qed.

Theorem incomplete_buffered_body_not_delivered c date f script dflt st wire reqs al ok
    m url ver hs rest n bl ex :
  read_head c (sbytes st) = HeadOk m url ver hs rest ->
  framing c hs = FrOk (KBuffered n) bl ex -> (len rest < n)%N ->
  serve_loop c date (S f) script dflt st wire reqs al ok =
  mkO (frev reqs) wire (if seof st then CClosed else COpen) (n :: al) ok.
Proof.
  intros Hh Hf Hl. rewrite serve_loop_S, (step_buffered_incomplete _ _ _ _ _ _ _ _ _ _ _ _ _ _ Hh _ _ _ Hf Hl).
  reflexivity.
Qed.

(* serve level: the input is cut inside the first head: nothing is delivered, nothing is sent *)
Corollary serve_cut_in_head date script dflt x t eof m url ver hs rest :
  read_head fixed (x ++ t) = HeadOk m url ver hs rest -> (List.length rest < List.length t)%nat ->
  serve fixed date script dflt x eof = mkO [] [] (if eof then CClosed else COpen) [] true.
Proof.
  intros H Hl. unfold serve. rewrite incomplete_head_not_delivered; [reflexivity|].
  exact (read_head_cut fixed x t m url ver hs rest H Hl).
Qed.
