(* Http/C15Facts.v — C15: the client disappears. Once the client has closed its sending side no read
   of any reader blocks, so every handler loop ends and the server always closes (never hangs);
   an incomplete head or an incomplete small body is never delivered. *)
From TH Require Import Base.Bytes Base.BytesFacts Http.Response Http.Request Http.Body Http.Serve
  Http.ServeFacts Http.ServeStreamFacts.
From Coq Require Import Lia ZArith ZifyN ZifyBool ZifyNat.
Open Scope char_scope.

(* ---- after end-of-stream no read blocks, and the flag stays set ---- *)
Lemma src_read_eof n st : seof st = true ->
  fst (src_read n st) <> RBlock /\ seof (snd (src_read n st)) = true.
Proof.
  intros He. unfold src_read. destruct n; [split; [discriminate|exact He]|].
  destruct (sbytes st); [rewrite He|]; (split; [discriminate|exact He]).
Qed.

Lemma src_byte_eof st : seof st = true ->
  fst (src_byte st) <> BBlock /\ seof (snd (src_byte st)) = true.
Proof.
  intros He. unfold src_byte. destruct (sbytes st); [rewrite He|]; (split; [discriminate|exact He]).
Qed.

Lemma expect_byte_eof ch st : seof st = true ->
  fst (expect_byte ch st) <> DBlock /\ seof (snd (expect_byte ch st)) = true.
Proof.
  intros He. unfold expect_byte. destruct (src_byte_eof st He) as [H1 H2].
  destruct (src_byte st) as [[b| |] st']; cbn [fst snd] in *;
    [destruct (Ascii.eqb b ch)|..]; try (split; [discriminate|exact H2]). contradiction.
Qed.

Lemma size_bytes_eof fuel : forall in_ext acc st, (slen st < fuel)%nat -> seof st = true ->
  fst (size_bytes fuel in_ext acc st) <> DBlock /\ seof (snd (size_bytes fuel in_ext acc st)) = true.
Proof.
  induction fuel as [|f IH]; intros in_ext acc st Hl He; [lia|]. cbn [size_bytes]. unfold src_byte.
  unfold slen in Hl. destruct (sbytes st) as [|b t] eqn:E.
  - rewrite He. split; [discriminate|exact He].
  - cbn [List.length] in Hl.
    assert (Hn : (slen (mkS t (seof st)) < f)%nat) by (unfold slen; cbn [sbytes]; lia).
    destruct (Ascii.eqb b CR); [split; [discriminate|exact He]|].
    destruct in_ext; [apply IH; assumption|]. destruct (Ascii.eqb b ";"); apply IH; assumption.
Qed.

Lemma read_chunk_size_eof st : seof st = true ->
  fst (read_chunk_size st) <> DBlock /\ seof (snd (read_chunk_size st)) = true.
Proof.
  intros He. unfold read_chunk_size.
  destruct (size_bytes_eof (S (List.length (sbytes st))) false [] st) as [H1 H2]; [unfold slen; lia|exact He|].
  destruct (size_bytes _ _ _ _) as [[x| |] st1]; cbn [fst snd] in *; try (split; [discriminate|exact H2]);
    try contradiction.
  destruct (expect_byte_eof LF st1 H2) as [H3 H4].
  destruct (expect_byte LF st1) as [[u| |] st2]; cbn [fst snd] in *; try contradiction;
    [destruct (parse_chunk_size x)|]; (split; [discriminate|exact H4]).
Qed.

Lemma read_crlf_eof st : seof st = true ->
  fst (read_crlf st) <> DBlock /\ seof (snd (read_crlf st)) = true.
Proof.
  intros He. unfold read_crlf. destruct (expect_byte_eof CR st He) as [H1 H2].
  destruct (expect_byte CR st) as [[u| |] st1]; cbn [fst snd] in *; try contradiction.
  - apply expect_byte_eof, H2.
  - split; [discriminate|exact H2].
Qed.

Lemma dec_read_eof n rem st : seof st = true ->
  fst (fst (dec_read n rem st)) <> RBlock /\ seof (snd (dec_read n rem st)) = true.
Proof.
  intros He.
  assert (Hgo : forall r st0, seof st0 = true ->
    let x := if (N.of_nat n <? r)%N then
               match src_read n st0 with
               | (RData d, st1) => (RData d, Some (r - len d)%N, st1)
               | (REof, st1) => (REof, Some r, st1)
               | (x, st1) => (x, Some r, st1)
               end
             else
               match src_read (N.to_nat r) st0 with
               | (RData d, st1) =>
                   if (len d =? r)%N then
                     match read_crlf st1 with
                     | (DOk _, st2) => (RData d, None, st2)
                     | (DErr, st2) => (RErr, rem, st2)
                     | (DBlock, st2) => (RBlock, rem, st2)
                     end
                   else (RData d, Some (r - len d)%N, st1)
               | (REof, st1) => (REof, Some r, st1)
               | (x, st1) => (x, Some r, st1)
               end in
    fst (fst x) <> RBlock /\ seof (snd x) = true).
  { intros r st0 He0. cbv zeta. destruct (N.of_nat n <? r)%N.
    - destruct (src_read_eof n st0 He0) as [H1 H2].
      destruct (src_read n st0) as [[d| | |] st1]; cbn [fst snd] in *; try contradiction;
        (split; [discriminate|exact H2]).
    - destruct (src_read_eof (N.to_nat r) st0 He0) as [H1 H2].
      destruct (src_read (N.to_nat r) st0) as [[d| | |] st1]; cbn [fst snd] in *; try contradiction;
        try (split; [discriminate|exact H2]).
      destruct (len d =? r)%N; [|split; [discriminate|exact H2]].
      destruct (read_crlf_eof st1 H2) as [H3 H4].
      destruct (read_crlf st1) as [[u| |] st2]; cbn [fst snd] in *; try contradiction;
        (split; [discriminate|exact H4]). }
  unfold dec_read. destruct rem as [r|]; [apply Hgo, He|].
  destruct (read_chunk_size_eof st He) as [H1 H2].
  destruct (read_chunk_size st) as [[sz| |] st1]; cbn [fst snd] in *; try contradiction;
    try (split; [discriminate|exact H2]).
  destruct (sz =? 0)%N; [|apply Hgo, H2].
  destruct (read_crlf_eof st1 H2) as [H3 H4].
  destruct (read_crlf st1) as [[u| |] st2]; cbn [fst snd] in *; try contradiction;
    (split; [discriminate|exact H4]).
Qed.

Lemma discard_eof c fuel : forall rem st al, seof st = true -> seof (fst (discard c fuel rem st al)) = true.
Proof.
  induction fuel as [|f IH]; intros rem st al He; cbn [discard]; [exact He|].
  destruct (rem =? 0)%N; [exact He|].
  match goal with |- context [src_read ?n st] =>
    destruct (src_read_eof n st He) as [H1 H2]; destruct (src_read n st) as [[d| | |] st1] end;
    cbn [fst snd] in *; try exact H2. apply IH, H2.
Qed.

Lemma drain_chunked_eof fuel : forall rem st, seof st = true -> seof (drain_chunked fuel rem st) = true.
Proof.
  induction fuel as [|f IH]; intros rem st He; cbn [drain_chunked]; [exact He|].
  destruct (dec_read_eof 1024 rem st He) as [H1 H2].
  destruct (dec_read 1024 rem st) as [[[d| | |] rem'] st1]; cbn [fst snd] in *; try exact H2. apply IH, H2.
Qed.

(* C15(c): with the client gone, no application read blocks, whatever the reader *)
Theorem body_read_eof c n r st al : seof st = true ->
  fst (fst (fst (body_read c n r st al))) <> RBlock /\ seof (snd (fst (body_read c n r st al))) = true.
Proof.
  intros He. destruct r as [|d|rem|rem fin|]; cbn [body_read].
  - split; [discriminate|exact He].
  - destruct d; (split; [discriminate|exact He]).
  - destruct (rem =? 0)%N; [split; [discriminate|exact He]|].
    match goal with |- context [src_read ?k st] =>
      destruct (src_read_eof k st He) as [H1 H2]; destruct (src_read k st) as [[d| | |] st1] end;
      cbn [fst snd] in *; try contradiction; try (split; [discriminate|exact H2]).
    pose proof (discard_eof c 1 rem st1 al H2) as H3.
    destruct (discard c 1 rem st1 al) as [st2 al2]. split; [discriminate|exact H3].
  - destruct fin; [split; [discriminate|exact He]|].
    destruct (dec_read_eof n rem st He) as [H1 H2].
    destruct (dec_read n rem st) as [[[d| | |] rem'] st1]; cbn [fst snd] in *; try contradiction;
      (split; [discriminate|exact H2]).
  - destruct (src_read_eof n st He) as [H1 H2]. destruct (src_read n st) as [x st1]. split; assumption.
Qed.

Theorem body_read_any_eof c n r st al : seof st = true ->
  fst (fst (fst (body_read_any c n r st al))) <> RBlock /\
  seof (snd (fst (body_read_any c n r st al))) = true.
Proof.
  intros He. destruct n as [|n]; cbn [body_read_any]; [|apply body_read_eof, He].
  destruct r as [|d|rem|rem fin|]; cbn [body_read_zero]; try (split; [discriminate|exact He]).
  - destruct (rem =? 0)%N; [split; [discriminate|exact He]|]. rewrite He. destruct (sbytes st) as [|b0 b].
    + pose proof (discard_eof c 1 rem st al He) as H. destruct (discard c 1 rem st al).
      split; [discriminate|exact H].
    + match goal with |- context [discard c ?f rem st al] =>
        pose proof (discard_eof c f rem st al He) as H; destruct (discard c f rem st al) end.
      split; [discriminate|exact H].
  - destruct fin; [split; [discriminate|exact He]|]. destruct (fix_d4 c); [|apply body_read_eof, He].
    cbn [fst snd]. split; [discriminate|apply drain_chunked_eof, He].
Qed.

Definition t_end {A C D E} (x : A * read_end * C * D * E) : read_end := snd (fst (fst (fst x))).

Lemma take_eof c fuel : forall m n r st al acc, seof st = true ->
  t_end (take c fuel m n r st al acc) <> EndBlock /\ seof (t_st (take c fuel m n r st al acc)) = true.
Proof.
  unfold t_end, t_st. induction fuel as [|f IH]; intros m n r st al acc He; cbn [take];
    [split; [discriminate|exact He]|].
  destruct (m =? 0)%N; [split; [discriminate|exact He]|].
  match goal with |- context [body_read_any c ?w r st al] =>
    destruct (body_read_any_eof c w r st al He) as [H1 H2];
    destruct (body_read_any c w r st al) as [[[[d| | |] r1] st1] al1] end; cbn [fst snd] in *;
    try contradiction; try (split; [discriminate|exact H2]).
  apply IH, H2.
Qed.

Lemma do_reads_eof c reads : forall r st al acc e, seof st = true -> e <> EndBlock ->
  t_end (do_reads c reads r st al acc e) <> EndBlock /\ seof (t_st (do_reads c reads r st al acc e)) = true.
Proof.
  induction reads as [|[m n] t IH]; intros r st al acc e He Hne; cbn [do_reads]; [split; assumption|].
  match goal with |- context [take c ?fu m n r st al acc] =>
    destruct (take_eof c fu m n r st al acc He) as [H1 H2];
    destruct (take c fu m n r st al acc) as [[[[acc1 e1] r1] st1] al1] end.
  unfold t_end, t_st in H1, H2. cbn [fst snd] in H1, H2.
  destruct e1; try (split; [discriminate|exact H2]); [|contradiction].
  apply IH; [exact H2|discriminate].
Qed.

Lemma body_drop_eof c r st al : seof st = true -> seof (fst (body_drop c r st al)) = true.
Proof.
  intros He. destruct r as [|d|rem|rem fin|]; cbn [body_drop]; try exact He.
  - apply discard_eof, He.
  - destruct (fix_d4 c && negb fin); cbn [fst]; [apply drain_chunked_eof|]; exact He.
Qed.

(* every handler loop ends (not blocked) once the client has closed *)
Theorem handle_eof c date act m ver hs expects rd st1 al1 : seof st1 = true ->
  h_end (handle c date act m ver hs expects rd st1 al1) <> EndBlock /\
  seof (h_st4 (handle c date act m ver hs expects rd st1 al1)) = true.
Proof.
  intros He.
  destruct (reads_of c act rd st1 al1) as [[[[got e] rd2] st2] al2] eqn:Er.
  destruct (do_reads_eof c (a_reads act) rd st1 al1 [] EndCount He) as [H1 H2]; [discriminate|].
  unfold reads_of in Er. rewrite Er in H1, H2. unfold t_end, t_st in H1, H2. cbn [fst snd] in H1, H2.
  destruct (handle_finish c date act m ver hs expects rd st1 al1 _ _ _ _ _ Er) as (rd3 & st3 & Ef & Ed).
  pose proof (body_drop_eof c rd3 st3 (h_al3 (handle c date act m ver hs expects rd st1 al1))) as H4.
  rewrite Ed in H4. cbn [fst] in H4.
  assert (H3 : h_end (handle c date act m ver hs expects rd st1 al1) <> EndBlock /\ seof st3 = true).
  { destruct (a_finish act) as [code body declared| |data|proto]; cbn [finish_of] in Ef.
    - destruct (render _ _ _ _ _ _) in Ef. inversion Ef; subst. split; [|exact H2]. congruence.
    - destruct (render _ _ _ _ _ _) in Ef. inversion Ef; subst. split; [|exact H2]. congruence.
    - inversion Ef; subst. split; [|exact H2]. congruence.
    - destruct (render _ _ _ _ _ _) in Ef.
      destruct (do_reads_eof c [(ALL, 4096%nat)] rd2 st2 al2 got EndCount H2) as [Hb1 Hb2]; [discriminate|].
      destruct (do_reads c [(ALL, 4096%nat)] rd2 st2 al2 got EndCount) as [[[[g' e'] r'] s'] a'].
      unfold t_end, t_st in Hb1, Hb2. cbn [fst snd] in Hb1, Hb2. inversion Ef; subst. split; [|exact Hb2].
      congruence. }
  destruct H3 as [H3 H3']. split; [exact H3|apply H4, H3'].
Qed.

Lemma built_of_eof kind rest eof al rd st1 al1 :
  built_of kind rest eof al = inl (Some (rd, st1, al1)) -> seof st1 = eof.
Proof.
  destruct kind as [| |n| |]; cbn [built_of]; try (intros [= <- <- <-]; reflexivity).
  destruct (n <=? len rest)%N; [|destruct eof; discriminate]. intros [= <- <- <-]. reflexivity.
Qed.

(* ---- the server never hangs once the client has closed: it always closes ---- *)
Lemma serve_step_eof c date script dflt st wire reqs al ok : fix_d5 c = true -> seof st = true ->
  match serve_step c date script dflt st wire reqs al ok with
  | SDone o => o_end o = CClosed
  | SCont _ st' _ _ _ _ => seof st' = true
  end.
Proof.
  intros H5 He. unfold serve_step. rewrite He.
  destruct (read_head c (sbytes st)) as [m url ver hs rest| | | |ver]; try reflexivity;
    try (destruct (render _ _ _ _ _ _); reflexivity).
  destruct (framing c hs) as [kind bl expects| |]; try (destruct (render _ _ _ _ _ _); reflexivity).
  destruct (built_of kind rest true al) as [[[[rd st1] al1]|]|e] eqn:Eb.
  - apply built_of_eof in Eb. unfold deliver_step. rewrite H5. destruct (ver_gt_11 ver).
    + destruct (render _ _ _ _ _ _). pose proof (body_drop_eof c rd st1 al1 Eb) as H.
      destruct (body_drop c rd st1 al1). exact H.
    + destruct (handle_eof c date (act_of script dflt) m ver hs expects rd st1 al1 Eb) as [H1 H2].
      destruct (handle _ _ _ _ _ _ _ _ _ _) as [w100 m100 wfin mfin al3 got3 e3 st4 al4].
      cbn [h_end h_st4] in *. destruct e3; try contradiction; destruct (last_request ver hs); auto.
  - destruct kind as [| |n| |]; try discriminate. cbn [built_of] in Eb.
    destruct (n <=? len rest)%N; discriminate.
  - destruct kind as [| |n| |]; try discriminate. cbn [built_of] in Eb.
    destruct (n <=? len rest)%N; [discriminate|]. now injection Eb as <-.
Qed.

Theorem serve_loop_eof c date dflt : fix_d5 c = true -> forall f script st wire reqs al ok,
  (slen st < f)%nat -> seof st = true ->
  o_end (serve_loop c date f script dflt st wire reqs al ok) = CClosed.
Proof.
  intros H5. induction f as [|f IH]; intros script st wire reqs al ok Hl He; [lia|].
  rewrite serve_loop_S. pose proof (serve_step_eof c date script dflt st wire reqs al ok H5 He) as H.
  destruct (serve_step c date script dflt st wire reqs al ok) as [o|s' st' w' r' a' k'] eqn:E; cbn [run_step].
  - exact H.
  - apply serve_step_progress in E. apply IH; [lia|exact H].
Qed.

Theorem serve_eof_closes date script dflt input :
  o_end (serve fixed date script dflt input true) = CClosed.
Proof. unfold serve. apply serve_loop_eof; [reflexivity|unfold slen; cbn [sbytes]; lia|reflexivity]. Qed.
