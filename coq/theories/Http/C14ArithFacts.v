(* Http/C14ArithFacts.v — C14(b): the side conditions under which the subtractions and slices of
   the Rust readers cannot underflow / go out of range (`remaining -= n`, `size -= len`,
   `buffer[..n]`): every piece a reader hands out fits the buffer it was asked to fill and never
   exceeds what the reader still had to deliver. The model computes in N (truncated subtraction);
   these lemmas show that no truncation ever happens. *)
From TH Require Import Base.Bytes Base.BytesFacts Http.Response Http.Request Http.Body.
From Coq Require Import Lia ZArith ZifyN ZifyBool ZifyNat.
Open Scope char_scope.

(* one read of the connection with a buffer of n bytes: at most n bytes, at least one, and they
   are the next bytes of the stream *)
Theorem src_read_piece n st d st' : src_read n st = (RData d, st') ->
  (List.length d <= n)%nat /\ d <> [] /\ sbytes st = d ++ sbytes st' /\ seof st' = seof st.
Proof.
  unfold src_read. destruct n as [|n]; [discriminate|]. destruct (sbytes st) as [|b0 b] eqn:E.
  - destruct (seof st); discriminate.
  - intros [= <- <-]. cbn [sbytes seof]. repeat split.
    + cbn [List.length]. rewrite firstn_length. lia.
    + discriminate.
    + cbn [app]. now rewrite firstn_skipn.
Qed.

(* ---- EqualReader::read: `self.size -= len` ---- *)
Theorem limited_read_piece c n rem st al d r' st' al' :
  body_read c n (BLimited rem) st al = (RData d, r', st', al') ->
  (len d <= rem)%N /\ (len d <= N.of_nat n)%N /\ r' = BLimited (rem - len d)%N.
Proof.
  cbn [body_read]. destruct (rem =? 0)%N; [discriminate|].
  destruct (src_read (N.to_nat (N.min (N.of_nat n) rem)) st) as [[d0| | |] st1] eqn:E; try discriminate.
  - intros [= <- <- <- <-]. apply src_read_piece in E as (H & _). unfold len. repeat split; lia.
  - destruct (discard c 1 rem st1 al). discriminate.
Qed.

(* ---- EqualReader::drop: the loop `remaining -= n` over a buffer of bufsz bytes ---- *)
Definition discard_buf (c : cfg) (remaining : N) : N :=
  if fix_d6 c then N.min remaining 8192 else remaining.
Definition discard_want (c : cfg) (remaining : N) (st : stream) : nat :=
  let k := N.min (discard_buf c remaining) (len (sbytes st)) in
  N.to_nat (if (k =? 0)%N then 1%N else k).

Lemma discard_S c f remaining st al :
  discard c (S f) remaining st al =
  if (remaining =? 0)%N then (st, al) else
  match src_read (discard_want c remaining st) st with
  | (RData d, st1) => discard c f (remaining - len d)%N st1 (discard_buf c remaining :: al)
  | (_, st1) => (st1, discard_buf c remaining :: al)
  end.
Proof. reflexivity. Qed.

Theorem discard_piece c remaining st d st1 : remaining <> 0%N ->
  src_read (discard_want c remaining st) st = (RData d, st1) ->
  (len d <= remaining)%N /\ (len d <= discard_buf c remaining)%N.
Proof.
  intros Hr E. pose proof (src_read_piece _ _ _ _ E) as (H1 & H2 & H3 & _).
  assert (Hd : (1 <= List.length d)%nat) by (destruct d; [contradiction|cbn; lia]).
  assert (Hs : (len d <= len (sbytes st))%N) by (rewrite H3; unfold len; rewrite app_length; lia).
  unfold discard_want in H1. unfold discard_buf in *. unfold len in *.
  destruct (fix_d6 c);
    match type of H1 with context [(?k =? 0)%N] => destruct (N.eqb_spec k 0) end; lia.
Qed.

(* ---- chunked_transfer::Decoder::read: `remaining_chunks_size -= read` ---- *)
Theorem dec_read_piece n r st d rem' st' : dec_read n (Some r) st = (RData d, rem', st') ->
  (len d <= r)%N /\ (List.length d <= n)%nat /\
  (rem' = Some (r - len d)%N \/ rem' = None /\ len d = r).
Proof.
  cbn [dec_read]. destruct (N.ltb_spec (N.of_nat n) r) as [Hlt|Hge].
  - destruct (src_read n st) as [[d0| | |] st1] eqn:E; try discriminate.
    intros [= <- <- <-]. apply src_read_piece in E as (H & _). unfold len. repeat split; try lia. auto.
  - destruct (src_read (N.to_nat r) st) as [[d0| | |] st1] eqn:E; try discriminate.
    apply src_read_piece in E as (H & _).
    destruct (N.eqb_spec (len d0) r) as [He|Hne].
    + destruct (read_crlf st1) as [[u| |] st2]; try discriminate.
      intros [= <- <- <-]. unfold len in *. repeat split; try lia. auto.
    + intros [= <- <- <-]. unfold len in *. repeat split; try lia. auto.
Qed.

(* a read that starts a new chunk: the piece fits the buffer *)
Theorem dec_read_fits n rem st d rem' st' : dec_read n rem st = (RData d, rem', st') ->
  (List.length d <= n)%nat.
Proof.
  destruct rem as [r|]; [intros H; apply dec_read_piece in H; tauto|].
  unfold dec_read. destruct (read_chunk_size st) as [[sz| |] st1]; try discriminate.
  destruct (sz =? 0)%N; [destruct (read_crlf st1) as [[u| |] st2]; discriminate|].
  intros H. change (dec_read n (Some sz) st1 = (RData d, rem', st')) in H || idtac.
  destruct (N.ltb_spec (N.of_nat n) sz) as [Hlt|Hge].
  - destruct (src_read n st1) as [[d0| | |] st2] eqn:E; try discriminate.
    injection H as <- _ _. apply src_read_piece in E as (H & _). exact H.
  - destruct (src_read (N.to_nat sz) st1) as [[d0| | |] st2] eqn:E; try discriminate.
    apply src_read_piece in E as (H1 & _).
    destruct (len d0 =? sz)%N.
    + destruct (read_crlf st2) as [[u| |] st3]; try discriminate. injection H as <- _ _. lia.
    + injection H as <- _ _. lia.
Qed.

(* ---- every reader: the piece fits the application's buffer (`buffer[..n]`) ---- *)
Theorem body_read_fits c n r st al d r' st' al' :
  body_read c n r st al = (RData d, r', st', al') -> (List.length d <= n)%nat.
Proof.
  destruct r as [|d0|rem|rem fin|]; cbn [body_read].
  - discriminate.
  - destruct d0; [discriminate|]. intros [= <- _ _ _]. rewrite firstn_length. lia.
  - intros H. apply limited_read_piece in H as (_ & H & _). unfold len in H. lia.
  - destruct fin; [discriminate|]. destruct (dec_read n rem st) as [[[d0| | |] rem'] st1] eqn:E; try discriminate.
    intros [= <- _ _ _]. exact (dec_read_fits _ _ _ _ _ _ E).
  - destruct (src_read n st) as [x st1] eqn:E. intros [= -> _ _ _]. apply src_read_piece in E. tauto.
Qed.

(* the same for a read with a buffer of any size, the empty buffer included *)
Theorem body_read_any_fits c n r st al d r' st' al' :
  body_read_any c n r st al = (RData d, r', st', al') -> (List.length d <= n)%nat.
Proof.
  destruct n as [|n]; cbn [body_read_any]; [|apply body_read_fits].
  destruct r as [|d0|rem|rem fin|]; cbn [body_read_zero]; try discriminate.
  - destruct (rem =? 0)%N; [discriminate|]. destruct (sbytes st).
    + destruct (seof st); [destruct (discard c 1 rem st al)|]; discriminate.
    + match goal with |- context [discard c ?f rem st al] => destruct (discard c f rem st al) end. discriminate.
  - destruct fin; [discriminate|]. destruct (fix_d4 c); [discriminate|apply body_read_fits].
Qed.

(* the handler loop `m -= len d`: the piece never exceeds what was still wanted *)
Theorem take_piece c m n r st al d r' st' al' :
  body_read_any c (N.to_nat (N.min m (N.of_nat n))) r st al = (RData d, r', st', al') -> (len d <= m)%N.
Proof. intros H. apply body_read_any_fits in H. unfold len. lia. Qed.
