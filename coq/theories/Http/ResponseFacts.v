(* Http/ResponseFacts.v — facts about add_header / build / final_headers used by C05 and C19. *)
From TH Require Import Base.Bytes Http.Response.
From Coq Require Import ZArith Lia.

(* headers the application can never get into the list: the four protected names and Content-Length *)
Definition protected_name (h : header) : bool := forbidden h || equiv "Content-Length" h.
Definition clean (r : response) : Prop := Forall (fun h => protected_name h = false) (rheaders r).

Lemma replace_first_ct_names v hs : map hname (replace_first_ct v hs) = map hname hs.
Proof.
  induction hs as [|h t IH]; cbn [replace_first_ct map]; [reflexivity|].
  destruct (equiv "Content-Type" h); cbn [map hname]; congruence.
Qed.

Lemma protected_by_name h h' : hname h = hname h' -> protected_name h = protected_name h'.
Proof. unfold protected_name, forbidden, equiv. now intros ->. Qed.

Lemma clean_replace v hs :
  Forall (fun h => protected_name h = false) hs ->
  Forall (fun h => protected_name h = false) (replace_first_ct v hs).
Proof.
  induction 1 as [|h t Hh Ht IH]; cbn [replace_first_ct]; [constructor|].
  destruct (equiv "Content-Type" h); constructor; auto.
  all: try (now rewrite (protected_by_name _ h) by reflexivity).
Qed.

Lemma add_header_clean r h : clean r -> clean (add_header r h).
Proof.
  unfold clean, add_header. intros H.
  destruct (forbidden h) eqn:Ef; [exact H|].
  destruct (equiv "Content-Length" h) eqn:El.
  - destruct (parse_usize (hvalue h)); exact H.
  - destruct (equiv "Content-Type" h && existsb (equiv "Content-Type") (rheaders r)); cbn [set_headers rheaders].
    + now apply clean_replace.
    + apply Forall_app; split; [exact H|]. constructor; [|constructor]. unfold protected_name. now rewrite Ef, El.
Qed.

Lemma apply_rop_clean r o : clean r -> clean (apply_rop r o).
Proof. destruct o; cbn [apply_rop]; auto using add_header_clean. Qed.

Lemma fold_clean {A} (f : response -> A -> response) :
  (forall r a, clean r -> clean (f r a)) -> forall l r, clean r -> clean (fold_left f l r).
Proof. intros Hf l; induction l as [|a l IH]; cbn; auto. Qed.

Lemma build_clean r ops : clean r -> clean (build r ops).
Proof. apply fold_clean, apply_rop_clean. Qed.
Lemma new_response_clean st hs b dl : clean (new_response st hs b dl).
Proof. apply fold_clean; [apply add_header_clean|constructor]. Qed.

(* ---- framing headers of the final list ---- *)
Definition is_cl := equiv "Content-Length".
Definition is_te := equiv "Transfer-Encoding".

Lemma clean_filter_cl hs : Forall (fun h => protected_name h = false) hs -> filter is_cl hs = [].
Proof.
  induction 1 as [|h t Hh _ IH]; cbn; [reflexivity|]. unfold protected_name in Hh.
  apply orb_false_iff in Hh as [_ Hh]. unfold is_cl. now rewrite Hh.
Qed.
Lemma clean_filter_te hs : Forall (fun h => protected_name h = false) hs -> filter is_te hs = [].
Proof.
  induction 1 as [|h t Hh _ IH]; cbn; [reflexivity|]. unfold protected_name, forbidden in Hh.
  apply orb_false_iff in Hh as [Hh _]. repeat (apply orb_false_iff in Hh as [Hh ?]). unfold is_te.
  match goal with H : equiv "Transfer-Encoding" h = false |- _ => now rewrite H end.
Qed.

Definition base_headers (date : bytes) (r : response) (upgrade : option bytes) : list header :=
  final_headers date r upgrade None None.

Lemma final_headers_split date r up te dl :
  final_headers date r up te dl =
  base_headers date r up ++
  match te, dl with
  | Some Chunked, _ => [mkH (s "Transfer-Encoding") (s "chunked")]
  | Some Identity, Some l => [mkH (s "Content-Length") (print_dec l)]
  | _, _ => []
  end.
Proof.
  unfold base_headers, final_headers. destruct te as [[|]|], dl; cbn [app]; rewrite ?app_nil_r; reflexivity.
Qed.

Lemma base_headers_no_framing date r up : clean r ->
  filter is_cl (base_headers date r up) = [] /\ filter is_te (base_headers date r up) = [].
Proof.
  intros Hc. unfold base_headers, final_headers.
  destruct (existsb (equiv "Date") (rheaders r));
  [ destruct (existsb (equiv "Server") (rheaders r))
  | destruct (existsb (equiv "Server") (mkH (s "Date") date :: rheaders r)) ];
  destruct up; cbn [filter];
  repeat match goal with
         | |- context [is_cl (mkH (s ?n) ?v)] => change (is_cl (mkH (s n) v)) with false
         | |- context [is_te (mkH (s ?n) ?v)] => change (is_te (mkH (s n) v)) with false
         end; split; auto using clean_filter_cl, clean_filter_te.
Qed.

(* the framing headers of every response the application can build *)
Theorem framing_headers date r up te dl : clean r ->
  let hs := final_headers date r up te dl in
  match te, dl with
  | Some Chunked, _ => filter is_te hs = [mkH (s "Transfer-Encoding") (s "chunked")] /\ filter is_cl hs = []
  | Some Identity, Some l => filter is_cl hs = [mkH (s "Content-Length") (print_dec l)] /\ filter is_te hs = []
  | _, _ => filter is_cl hs = [] /\ filter is_te hs = []
  end.
Proof.
  intros Hc hs. subst hs. rewrite final_headers_split, !filter_app.
  destruct (base_headers_no_framing date r up Hc) as [-> ->].
  destruct te as [[|]|], dl; cbn; auto.
Qed.
