(* Http/Serve.v — one connection served for a sequential application: the loop of
   ClientConnection::next/read (src/client.rs:106-265), request::new_request, and what a handler
   does with each delivered request (read the body in some way, then respond / drop / take the
   raw writer / upgrade). The result is everything a client and the application can observe.
   MODEL file: definitions only. *)
From TH Require Import Base.Bytes Http.Response Http.Request Http.Body.
Open Scope char_scope.

(* what the application does with a delivered request *)
Inductive finish :=
| FRespond (st : N) (body : bytes) (declared : bool)  (* respond(Response::new(st, [], body, len?)) *)
| FDrop                                               (* drop it: automatic 500 (also: handler panics) *)
| FWriter (data : bytes)                              (* into_writer, write_all(data), flush, drop *)
| FUpgrade (proto : bytes).                           (* upgrade(proto, empty(101)), read to the end, drop *)
Record action := mkA {
  a_reads : list (N * nat);    (* (m, n): obtain up to m body bytes with a buffer of n bytes *)
  a_finish : finish }.

Record delivered := mkD {
  d_method : bytes; d_url : bytes; d_ver : version; d_headers : list header;
  d_body_length : option N;
  d_read : bytes;              (* the body bytes the handler obtained *)
  d_end : read_end }.          (* how its last read loop ended *)

Inductive conn_end :=
| CClosed        (* the server closes: the client sees end-of-stream after the bytes in `wire` *)
| COpen          (* the server waits for more bytes from the client *)
| CHang.         (* stuck although the client has nothing more to send *)

Record outcome := mkO {
  o_reqs : list delivered;
  o_wire : bytes;
  o_end : conn_end;
  o_allocs : allocs;
  o_modelled : bool }.         (* false: a TE header outside the modelled q sub-domain was met *)

Definition ver_gt_11 (v : version) : bool := negb (ver_le v (1, 1)%N).

Definition render (date : bytes) (r : response) (ver : version) (hs : list header)
                  (no_body : bool) (up : option bytes) : bytes * bool :=
  match raw_print date r ver hs no_body up with
  | Some b => (b, true)
  | None => ([], false)
  end.

Definition is_head (m : bytes) : bool := beq m (s "HEAD").

(* all read loops of an action, in order *)
Fixpoint do_reads (c : cfg) (reads : list (N * nat)) (r : breader) (st : stream) (al : allocs)
                  (acc : list bytes) (e : read_end) : list bytes * read_end * breader * stream * allocs :=
  match reads with
  | [] => (acc, e, r, st, al)
  | (m, n) :: t =>
      let fuel := S (List.length (sbytes st) + match r with BBuffered d => List.length d | _ => 0 end) in
      match take c fuel m n r st al acc with
      | (acc1, EndCount, r1, st1, al1) => do_reads c t r1 st1 al1 acc1 EndCount
      | (acc1, e1, r1, st1, al1) => (acc1, e1, r1, st1, al1)   (* end / error / block: stop reading *)
      end
  end.

Definition ALL : N := (2 ^ 62)%N.

Fixpoint serve_loop (c : cfg) (date : bytes) (fuel : nat) (script : list action) (dflt : action)
                    (st : stream) (wire : bytes) (reqs : list delivered) (al : allocs) (ok : bool)
  : outcome :=
  let done e w := mkO (frev reqs) w e al ok in
  match fuel with
  | O => done CHang wire
  | S f =>
      match read_head c (sbytes st) with
      | HeadEof => done (if seof st then CClosed else COpen) wire
      | HeadNonAscii => done CClosed wire
      | HeadBadLine =>
          let '(b, m) := render date (empty_response 400) (1, 1)%N [] false None in
          mkO (frev reqs) (wire ++ b) CClosed al (ok && m)
      | HeadBadHeader ver =>
          let '(b, m) := render date (empty_response 400) ver [] false None in
          mkO (frev reqs) (wire ++ b) CClosed al (ok && m)
      | HeadOk m url ver hs rest =>
          match framing c hs with
          | FrExpectationFailed =>
              let '(b, mo) := render date (empty_response 417) ver [] true None in
              mkO (frev reqs) (wire ++ b) CClosed al (ok && mo)
          | FrBadContentLength =>
              let '(b, mo) := render date (empty_response 400) ver [] false None in
              mkO (frev reqs) (wire ++ b) CClosed al (ok && mo)
          | FrOk kind bl expects =>
              (* the reader the request gets, and the stream after new_request *)
              let built : option (breader * stream * allocs) + conn_end :=
                match kind with
                | KUpgrade => inl (Some (BUpgrade, mkS rest (seof st), al))
                | KEmpty => inl (Some (BEmpty, mkS rest (seof st), al))
                | KLimited n => inl (Some (BLimited n, mkS rest (seof st), al))
                | KChunked => inl (Some (BChunked None false, mkS rest (seof st), al))
                | KBuffered n =>
                    if (n <=? len rest)%N then
                      inl (Some (BBuffered (firstn (N.to_nat n) rest),
                                 mkS (skipn (N.to_nat n) rest) (seof st), n :: al))
                    else if seof st then inr CClosed else inr COpen
                end in
              match built with
              | inr e => mkO (frev reqs) wire e (match kind with KBuffered n => n :: al | _ => al end) ok
              | inl None => done CHang wire
              | inl (Some (rd, st1, al1)) =>
                  if ver_gt_11 ver then
                    if fix_d5 c then
                      (* answered on the rejected request's own writer; the request is dropped *)
                      let '(b, mo) := render date
                                        (build (from_string (s "This server only supports HTTP versions 1.0 and 1.1"))
                                               [WithStatus 505]) (1, 1)%N [] false None in
                      let '(st2, al2) := body_drop c rd st1 al1 in
                      serve_loop c date f script dflt st2 (wire ++ b) reqs al2 (ok && mo)
                    else mkO (frev reqs) wire CHang al1 ok
                  else
                    let act := match script with a :: _ => a | [] => dflt end in
                    let script' := match script with _ :: t => t | [] => [] end in
                    (* 100 Continue at the first access to the body *)
                    let '(w100, m100) :=
                      match a_reads act with
                      | [] => ([], true)
                      | _ => if expects then render date (empty_response 100) ver hs true None
                             else ([], true)
                      end in
                    let '(got, e, rd2, st2, al2) :=
                      match a_reads act with
                      | [] => ([], EndCount, rd, st1, al1)
                      | rs => do_reads c rs rd st1 al1 [] EndCount
                      end in
                    let '(wfin, mfin, rd3, st3, al3, got3, e3) :=
                      match a_finish act with
                      | FRespond code body declared =>
                          let '(b, mo) := render date
                                            (new_response code [] body (if declared then Some (len body) else None))
                                            ver hs (is_head m) None in
                          (b, mo, rd2, st2, al2, got, e)
                      | FDrop =>
                          let '(b, mo) := render date (empty_response 500) ver hs (is_head m) None in
                          (b, mo, rd2, st2, al2, got, e)
                      | FWriter data => (data, true, rd2, st2, al2, got, e)
                      | FUpgrade proto =>
                          let '(b, mo) := render date (empty_response 101) ver hs false (Some proto) in
                          let '(got', e', rd', st', al') :=
                            do_reads c [(ALL, 4096%nat)] rd2 st2 al2 got EndCount in
                          (b, mo, rd', st', al', got', e')
                      end in
                    let '(st4, al4) := body_drop c rd3 st3 al3 in
                    let d := mkD m url ver hs bl (pieces_bytes got3) e3 in
                    let wire' := wire ++ w100 ++ wfin in
                    let ok' := ok && m100 && mfin in
                    match e3 with
                    | EndBlock => mkO (frev (d :: reqs)) (wire ++ w100) CHang al3 ok'
                    | _ =>
                        if last_request ver hs then mkO (frev (d :: reqs)) wire' CClosed al4 ok'
                        else serve_loop c date f script' dflt st4 wire' (d :: reqs) al4 ok'
                    end
              end
          end
      end
  end.

Definition serve (c : cfg) (date : bytes) (script : list action) (dflt : action)
                 (input : bytes) (eof : bool) : outcome :=
  serve_loop c date (S (List.length input)) script dflt (mkS input eof) [] [] [] true.
