(* Http/LineFacts.v — facts about the string helpers the head parser uses (trim, split, the CRLF
   line reader) and about parse_version / parse_request_line / parse_header. *)
From TH Require Import Base.Bytes Base.BytesFacts Http.Response Http.Request.
From Coq Require Import Lia ZArith ZifyN ZifyBool ZifyNat.
Open Scope char_scope.

(* ---- trim ---- *)
Lemma trim_start_app a b :
  trim_start (a ++ b) = match trim_start a with [] => trim_start b | y => y ++ b end.
Proof.
  induction a as [|c a IH]; cbn [app trim_start]; [reflexivity|].
  destruct (is_ws c); [exact IH|reflexivity].
Qed.

Lemma trim_start_ws w : forallb is_ws w = true -> trim_start w = [].
Proof.
  induction w as [|c w IH]; cbn [forallb trim_start]; [reflexivity|]. intros H.
  apply andb_true_iff in H as [H1 H2]. rewrite H1. auto.
Qed.

Lemma trim_start_ws_app w x : forallb is_ws w = true -> trim_start (w ++ x) = trim_start x.
Proof. intros H. rewrite trim_start_app, (trim_start_ws w H). reflexivity. Qed.

Lemma trim_start_nonws c x : is_ws c = false -> trim_start (c :: x) = c :: x.
Proof. intros H. cbn [trim_start]. now rewrite H. Qed.

Lemma trim_end_nil : trim_end [] = [].
Proof. reflexivity. Qed.

(* a structurally recursive description of trim_end *)
Lemma trim_end_cons c x :
  trim_end (c :: x) = match trim_end x with [] => if is_ws c then [] else [c] | y => c :: y end.
Proof.
  unfold trim_end. rewrite !frev_rev. cbn [rev]. rewrite trim_start_app.
  destruct (trim_start (rev x)) as [|d t] eqn:E.
  - cbn [rev trim_start]. destruct (is_ws c); reflexivity.
  - rewrite rev_app_distr. cbn [rev app].
    destruct (rev t ++ [d]) as [|e u] eqn:E2; [destruct (rev t); discriminate|reflexivity].
Qed.

Lemma trim_end_cons_nonws c x : is_ws c = false -> trim_end (c :: x) = c :: trim_end x.
Proof. intros H. rewrite trim_end_cons, H. destruct (trim_end x); reflexivity. Qed.

Lemma trim_end_ws w : forallb is_ws w = true -> trim_end w = [].
Proof.
  induction w as [|c w IH]; cbn [forallb]; [reflexivity|]. intros H.
  apply andb_true_iff in H as [H1 H2]. rewrite trim_end_cons, (IH H2), H1. reflexivity.
Qed.

Lemma trim_end_app_ws x w : forallb is_ws w = true -> trim_end (x ++ w) = trim_end x.
Proof.
  intros H. induction x as [|c x IH]; cbn [app]; [rewrite (trim_end_ws w H); reflexivity|].
  now rewrite !trim_end_cons, IH.
Qed.

Lemma trim_end_app_nonws n c r : is_ws c = false -> trim_end (n ++ c :: r) = n ++ c :: trim_end r.
Proof.
  intros H. induction n as [|a n IH]; cbn [app]; [now apply trim_end_cons_nonws|].
  rewrite trim_end_cons, IH. destruct n; reflexivity.
Qed.

Lemma trim_end_last x c : is_ws c = false -> trim_end (x ++ [c]) = x ++ [c].
Proof. intros H. now rewrite trim_end_app_nonws, trim_end_nil. Qed.

(* trim_end removes a whitespace suffix and nothing else *)
Lemma trim_end_prefix x : exists w, x = trim_end x ++ w /\ forallb is_ws w = true.
Proof.
  induction x as [|c x (w & E & W)].
  - exists []. split; reflexivity.
  - rewrite trim_end_cons. destruct (trim_end x) as [|d y] eqn:T.
    + destruct (is_ws c) eqn:C.
      * exists (c :: w). cbn [app] in *. split; [now rewrite <- E|]. cbn [forallb]. now rewrite C, W.
      * exists w. cbn [app] in *. split; [now rewrite <- E|exact W].
    + exists w. split; [cbn [app] in *; now rewrite <- E|exact W].
Qed.

Lemma trim_trim_end r : trim (trim_end r) = trim r.
Proof.
  destruct (trim_end_prefix r) as (w & E & W). unfold trim.
  rewrite E at 2. rewrite trim_start_app.
  destruct (trim_start (trim_end r)) as [|d y] eqn:T.
  - now rewrite (trim_start_ws w W).
  - now rewrite trim_end_app_ws.
Qed.

(* a value that neither begins nor ends with whitespace survives trim with blanks around it *)
Lemma trim_ows o1 v o2 :
  forallb is_ws o1 = true -> forallb is_ws o2 = true ->
  match v with [] => true | c :: _ => negb (is_ws c) && negb (is_ws (last v c)) end = true ->
  trim (o1 ++ v ++ o2) = v.
Proof.
  intros H1 H2 Hv. unfold trim. rewrite (trim_start_ws_app o1 _ H1).
  destruct v as [|c v'].
  - cbn [app]. now rewrite (trim_start_ws o2 H2).
  - apply andb_true_iff in Hv as [Hc Hl]. apply negb_true_iff in Hc, Hl.
    change ((c :: v') ++ o2) with (c :: (v' ++ o2)). rewrite (trim_start_nonws c _ Hc).
    change (c :: v' ++ o2) with ((c :: v') ++ o2). rewrite (trim_end_app_ws _ o2 H2).
    rewrite (app_removelast_last c (l := c :: v')) by discriminate.
    rewrite trim_end_last; [reflexivity|exact Hl].
Qed.

(* ---- split ---- *)
Definition nosep (c : ascii) (x : bytes) : bool := forallb (fun a => negb (Ascii.eqb a c)) x.

Lemma split_on_aux_nosep c x : forall cur, nosep c x = true -> split_on_aux c cur x = [rev cur ++ x].
Proof.
  induction x as [|a x IH]; intros cur H; cbn [split_on_aux].
  - now rewrite frev_rev, app_nil_r.
  - cbn [nosep forallb] in H. apply andb_true_iff in H as [Ha Hx]. apply negb_true_iff in Ha.
    rewrite Ha, (IH _ Hx). cbn [rev]. now rewrite <- app_assoc.
Qed.

Lemma split_on_aux_sep c a rest : forall cur, nosep c a = true ->
  split_on_aux c cur (a ++ c :: rest) = (rev cur ++ a) :: split_on_aux c [] rest.
Proof.
  induction a as [|b a IH]; intros cur H; cbn [app split_on_aux].
  - now rewrite Ascii.eqb_refl, frev_rev, app_nil_r.
  - cbn [nosep forallb] in H. apply andb_true_iff in H as [Hb Ha]. apply negb_true_iff in Hb.
    rewrite Hb, (IH _ Ha). cbn [rev]. now rewrite <- app_assoc.
Qed.

Lemma split_on_three c m t v : nosep c m = true -> nosep c t = true -> nosep c v = true ->
  split_on c (m ++ c :: t ++ c :: v) = [m; t; v].
Proof.
  intros Hm Ht Hv. unfold split_on.
  now rewrite (split_on_aux_sep c m _ [] Hm), (split_on_aux_sep c t _ [] Ht), (split_on_aux_nosep c v [] Hv).
Qed.

Lemma split_first_spec c x :
  match split_first c x with
  | (n, Some r) => x = n ++ c :: r /\ nosep c n = true
  | (n, None) => n = x /\ nosep c x = true
  end.
Proof.
  induction x as [|a x IH]; cbn [split_first]; [split; reflexivity|].
  destruct (Ascii.eqb a c) eqn:E.
  - apply Ascii.eqb_eq in E. subst a. split; reflexivity.
  - destruct (split_first c x) as [n [r|]]; destruct IH as [IH1 IH2]; cbn [nosep forallb app]; rewrite E.
    + split; [now rewrite IH1 at 1|exact IH2].
    + split; [now rewrite IH1|exact IH2].
Qed.

Lemma split_first_app c n r : nosep c n = true -> split_first c (n ++ c :: r) = (n, Some r).
Proof.
  induction n as [|a n IH]; cbn [app split_first nosep forallb]; intros H.
  - now rewrite Ascii.eqb_refl.
  - apply andb_true_iff in H as [Ha Hn]. apply negb_true_iff in Ha. now rewrite Ha, (IH Hn).
Qed.

Lemma split_first_nosep c x : nosep c x = true -> split_first c x = (x, None).
Proof.
  induction x as [|a x IH]; cbn [split_first nosep forallb]; intros H; [reflexivity|].
  apply andb_true_iff in H as [Ha Hx]. apply negb_true_iff in Ha. now rewrite Ha, (IH Hx).
Qed.

Lemma nosep_app c a b : nosep c (a ++ b) = nosep c a && nosep c b.
Proof. apply forallb_app. Qed.

(* ---- parse_header: the trailing trim does not matter; exact characterisation ---- *)
Lemma parse_header_trim_end l : parse_header (trim_end l) = parse_header l.
Proof.
  unfold parse_header at 2. pose proof (split_first_spec ":" l) as S.
  destruct (split_first ":" l) as [n [r|]].
  - destruct S as [E Hn]. subst l. rewrite trim_end_app_nonws by reflexivity.
    unfold parse_header. rewrite (split_first_app _ _ _ Hn). now rewrite trim_trim_end.
  - destruct S as [-> Hl]. destruct (trim_end_prefix l) as (w & E & W).
    rewrite E, nosep_app in Hl. apply andb_true_iff in Hl as [Hl _].
    unfold parse_header. now rewrite (split_first_nosep _ _ Hl).
Qed.

(* ---- the request line ---- *)
Definition version_tokens : list bytes :=
  [s "HTTP/0.9"; s "HTTP/1.0"; s "HTTP/1.1"; s "HTTP/2.0"; s "HTTP/3.0"].

Lemma parse_version_none v : parse_version v = None <-> ~ In v version_tokens.
Proof.
  unfold parse_version, version_tokens.
  destruct (beq v (s "HTTP/0.9")) eqn:E1; [apply beq_eq in E1; split; [discriminate|intros H; exfalso; apply H; cbn [In]; auto]|].
  destruct (beq v (s "HTTP/1.0")) eqn:E2; [apply beq_eq in E2; split; [discriminate|intros H; exfalso; apply H; cbn [In]; auto]|].
  destruct (beq v (s "HTTP/1.1")) eqn:E3; [apply beq_eq in E3; split; [discriminate|intros H; exfalso; apply H; cbn [In]; auto]|].
  destruct (beq v (s "HTTP/2.0")) eqn:E4; [apply beq_eq in E4; split; [discriminate|intros H; exfalso; apply H; cbn [In]; auto 6]|].
  destruct (beq v (s "HTTP/3.0")) eqn:E5; [apply beq_eq in E5; split; [discriminate|intros H; exfalso; apply H; cbn [In]; auto 7]|].
  split; [intros _|reflexivity]. cbn [In]. intros [H|[H|[H|[H|[H|[]]]]]]; subst v.
  - now rewrite beq_refl in E1.
  - now rewrite beq_refl in E2.
  - now rewrite beq_refl in E3.
  - now rewrite beq_refl in E4.
  - now rewrite beq_refl in E5.
Qed.

Lemma parse_request_line_few x : (List.length (split_on SP x) < 3)%nat -> parse_request_line x = None.
Proof.
  unfold parse_request_line. destruct (split_on SP x) as [|m [|p [|v t]]]; cbn [List.length]; try reflexivity. lia.
Qed.

Lemma parse_request_line_bad_version x m p v t :
  split_on SP x = m :: p :: v :: t -> ~ In v version_tokens -> parse_request_line x = None.
Proof.
  intros E H. unfold parse_request_line. rewrite E. apply parse_version_none in H. now rewrite H.
Qed.

(* ---- the line reader ---- *)
(* no LF directly after a CR (p: the byte before x was a CR) *)
Fixpoint no_crlf_from (p : bool) (x : bytes) : bool :=
  match x with
  | [] => true
  | b :: t => negb (Ascii.eqb b LF && p) && no_crlf_from (Ascii.eqb b CR) t
  end.
Definition no_crlf (x : bytes) : bool := no_crlf_from false x.
Definition nolf (x : bytes) : bool := forallb (fun c => negb (Ascii.eqb c LF)) x.

Lemma nolf_no_crlf_from x : forall p, nolf x = true -> no_crlf_from p x = true.
Proof.
  induction x as [|b x IH]; intros p H; cbn [no_crlf_from]; [reflexivity|].
  cbn [nolf forallb] in H. apply andb_true_iff in H as [Hb Hx]. apply negb_true_iff in Hb.
  rewrite Hb. cbn [andb negb]. now apply IH.
Qed.
Lemma nolf_no_crlf x : nolf x = true -> no_crlf x = true.
Proof. apply nolf_no_crlf_from. Qed.

Lemma read_line_aux_app l rest : forall acc p, no_crlf_from p l = true ->
  read_line_aux acc p (l ++ CR :: LF :: rest) = Some (rev acc ++ l, rest).
Proof.
  induction l as [|b l IH]; intros acc p H.
  - cbn [app read_line_aux]. change (Ascii.eqb CR LF) with false. change (Ascii.eqb CR CR) with true.
    change (Ascii.eqb LF LF) with true. cbn [andb tl]. now rewrite frev_rev, app_nil_r.
  - cbn [no_crlf_from] in H. apply andb_true_iff in H as [Hb Hl]. apply negb_true_iff in Hb.
    cbn [app read_line_aux]. rewrite Hb, (IH _ _ Hl). cbn [rev]. now rewrite <- app_assoc.
Qed.

Lemma read_line_app l rest : no_crlf l = true -> read_line (l ++ CRLF ++ rest) = Some (l, rest).
Proof. intros H. unfold read_line, CRLF. cbn [app]. now rewrite (read_line_aux_app l rest [] false H). Qed.

Lemma read_line_aux_length x : forall acc p l rest,
  read_line_aux acc p x = Some (l, rest) -> (List.length rest < List.length x)%nat.
Proof.
  induction x as [|b x IH]; intros acc p l rest H; cbn [read_line_aux] in H; [discriminate|].
  cbn [List.length]. destruct (Ascii.eqb b LF && p).
  - injection H as _ <-. lia.
  - apply IH in H. lia.
Qed.
Lemma read_line_length x l rest : read_line x = Some (l, rest) -> (List.length rest < List.length x)%nat.
Proof. apply read_line_aux_length. Qed.

Lemma trim_end_app_keep a b : trim_end b <> [] -> trim_end (a ++ b) = a ++ trim_end b.
Proof.
  intros H. induction a as [|c a IH]; cbn [app]; [reflexivity|].
  rewrite trim_end_cons, IH. destruct (a ++ trim_end b) eqn:E; [|reflexivity].
  apply app_eq_nil in E. tauto.
Qed.

Lemma forallb_imp {A} (p q : A -> bool) l :
  (forall x, p x = true -> q x = true) -> forallb p l = true -> forallb q l = true.
Proof.
  intros H. induction l as [|x t IH]; cbn [forallb]; [auto|]. intros E.
  apply andb_true_iff in E as [E1 E2]. now rewrite H, IH.
Qed.

Lemma forallb_not_existsb {A} (p : A -> bool) l :
  forallb (fun x => negb (p x)) l = true -> existsb p l = false.
Proof.
  induction l as [|x t IH]; cbn [forallb existsb]; [auto|]. intros E.
  apply andb_true_iff in E as [E1 E2]. apply negb_true_iff in E1. now rewrite E1, IH.
Qed.
