(* Http/ReaderOpFacts.v — bridge lemmas for the operational readers of Http/ReaderOp.v (C13):
   every consumer's result, and the logical stream `contents` left in the BufReader afterwards,
   are FUNCTIONS (`*_fn` below, defined on plain byte lists) of `contents` before and of the
   end-of-stream flag; how the bytes are split between the BufReader's buffer and the pending
   client segments plays no role. The fuel of every loop is shown sufficient (no LFuel/SBFuel/None). *)
From TH Require Import Base.Bytes Base.BytesFacts Http.Response Http.Request Http.Body Http.ReaderOp.
From Coq Require Import Lia ZArith ZifyN ZifyBool ZifyNat.
Open Scope char_scope.

(* br' is the same connection as br, later: the logical stream left is `rest` *)
Definition lands (br br' : bufreader) (rest : bytes) : Prop :=
  contents br' = rest /\ wf br' /\ br_eof br' = br_eof br.

Lemma lands_trans br br1 br2 r1 r2 : lands br br1 r1 -> lands br1 br2 r2 -> lands br br2 r2.
Proof. unfold lands. intros (_ & _ & E1) (C & W & E2). repeat split; auto. congruence. Qed.

Lemma CAP_pos : 0 < CAP.
Proof. unfold CAP. lia. Qed.

(* ---------- states ---------- *)
Lemma nonempty_neq (g : bytes) : nonempty g = true -> g <> [].
Proof. destruct g; [discriminate|discriminate]. Qed.

Lemma wf_br_init segs e : wf (br_init segs e).
Proof.
  unfold wf, wf_src, br_init. cbn [src pending]. apply Forall_forall. intros g Hg.
  apply filter_In in Hg. apply nonempty_neq, Hg.
Qed.

Lemma concat_filter_nonempty (segs : list bytes) : List.concat (filter nonempty segs) = List.concat segs.
Proof.
  induction segs as [|g t IH]; [reflexivity|]. cbn [filter]. destruct g as [|a g]; cbn [nonempty List.concat].
  - exact IH.
  - now rewrite IH.
Qed.

Lemma contents_br_init segs e : contents (br_init segs e) = List.concat segs.
Proof. unfold contents, br_init. cbn [buf src pending]. apply concat_filter_nonempty. Qed.

Lemma br_eof_br_init segs e : br_eof (br_init segs e) = e.
Proof. reflexivity. Qed.

Lemma contents_br_feed segs br : contents (br_feed segs br) = contents br ++ List.concat segs.
Proof. unfold contents, br_feed. cbn [buf src pending]. now rewrite concat_app, app_assoc. Qed.

Lemma wf_br_feed segs br : wf br -> Forall (fun g => g <> []) segs -> wf (br_feed segs br).
Proof. unfold wf, wf_src, br_feed. cbn [src pending]. intros H1 H2. apply Forall_app. split; assumption. Qed.

Lemma contents_br_close br : contents (br_close br) = contents br.
Proof. reflexivity. Qed.

(* ---------- one socket read, one BufReader read ---------- *)
Lemma firstn_nonempty (n : nat) (g : bytes) : 0 < n -> g <> [] -> firstn n g <> [].
Proof. destruct n; [lia|]. destruct g; [congruence|]. intros _ _. cbn [firstn]. discriminate. Qed.

Lemma sock_read_spec n x : wf_src x -> 0 < n ->
  match sock_read n x with
  | (OData a, x') => List.concat (pending x) = a ++ List.concat (pending x') /\ a <> [] /\ List.length a <= n /\
                     wf_src x' /\ eof x' = eof x
  | (OEof, x') => x' = x /\ pending x = [] /\ eof x = true
  | (OBlock, x') => x' = x /\ pending x = [] /\ eof x = false
  end.
Proof.
  unfold sock_read, wf_src. intros Hwf Hn. destruct (pending x) as [|g rest] eqn:E.
  - destruct (eof x); auto.
  - inversion Hwf as [|? ? Hg Hrest]; subst. cbn [pending eof]. repeat split.
    + rewrite <- (firstn_skipn n g) at 1. cbn [List.concat].
      destruct (skipn n g); cbn [List.concat]; rewrite <- ?app_assoc, ?app_nil_r; reflexivity.
    + apply firstn_nonempty; assumption.
    + rewrite firstn_length. lia.
    + destruct (skipn n g) eqn:Es; [assumption|]. constructor; [discriminate|assumption].
Qed.

Lemma hand_out_spec n b x : 0 < n -> b <> [] ->
  exists a, hand_out n b x = (OData a, mkBR (skipn n b) x) /\ b = a ++ skipn n b /\ a <> [] /\ List.length a <= n.
Proof.
  intros Hn Hb. unfold hand_out. pose proof (firstn_nonempty n b Hn Hb) as Hf.
  destruct (firstn n b) as [|a0 a] eqn:E; [congruence|]. exists (a0 :: a). repeat split.
  - rewrite <- E. symmetry. apply firstn_skipn.
  - discriminate.
  - rewrite <- E, firstn_length. lia.
Qed.

(* the bridge lemma for a single read: it returns a non-empty prefix of the logical stream, or
   reports end-of-stream / waits exactly when the logical stream is empty *)
Lemma br_read_spec n br : wf br -> 0 < n ->
  match br_read n br with
  | (OData a, br') => contents br = a ++ contents br' /\ a <> [] /\ List.length a <= n /\
                      wf br' /\ br_eof br' = br_eof br
  | (OEof, br') => contents br = [] /\ br_eof br = true /\ lands br br' []
  | (OBlock, br') => contents br = [] /\ br_eof br = false /\ lands br br' []
  end.
Proof.
  intros Hwf Hn. unfold br_read, lands, contents, br_eof, wf in *. destruct (buf br) as [|b0 b] eqn:Eb.
  - destruct (Nat.leb CAP n).
    + pose proof (sock_read_spec n (src br) Hwf Hn) as Hs.
      destruct (sock_read n (src br)) as [[a| |] s']; cbn [buf src].
      * destruct Hs as (H1 & H2 & H3 & H4 & H5). cbn [app]. repeat split; auto.
      * destruct Hs as (-> & H2 & H3). rewrite H2. cbn [app List.concat]. repeat split; auto.
      * destruct Hs as (-> & H2 & H3). rewrite H2. cbn [app List.concat]. repeat split; auto.
    + pose proof (sock_read_spec CAP (src br) Hwf CAP_pos) as Hs.
      destruct (sock_read CAP (src br)) as [[a| |] s']; cbn [buf src].
      * destruct Hs as (H1 & H2 & H3 & H4 & H5).
        destruct (hand_out_spec n a s' Hn H2) as (d & Hh & Hd1 & Hd2 & Hd3). rewrite Hh. cbn [buf src app].
        repeat split; auto. rewrite H1. rewrite Hd1 at 1. now rewrite app_assoc.
      * destruct Hs as (-> & H2 & H3). rewrite H2. cbn [app List.concat]. repeat split; auto.
      * destruct Hs as (-> & H2 & H3). rewrite H2. cbn [app List.concat]. repeat split; auto.
  - destruct (hand_out_spec n (b0 :: b) (src br) Hn ltac:(discriminate)) as (d & Hh & Hd1 & Hd2 & Hd3).
    rewrite Hh. cbn [buf src]. repeat split; auto. rewrite Hd1 at 1. now rewrite app_assoc.
Qed.

(* after a read that waits, nothing at all is left: what arrives next is the whole stream *)
Lemma lands_nil_feed br br' segs : lands br br' [] -> contents (br_feed segs br') = List.concat segs.
Proof. intros (C & _ & _). now rewrite contents_br_feed, C. Qed.

Lemma br_byte_spec br : wf br ->
  match br_byte br with
  | (BByte b, br') => contents br = b :: contents br' /\ wf br' /\ br_eof br' = br_eof br
  | (BEof, br') => contents br = [] /\ br_eof br = true /\ lands br br' []
  | (BBlock, br') => contents br = [] /\ br_eof br = false /\ lands br br' []
  end.
Proof.
  intros Hwf. unfold br_byte. pose proof (br_read_spec 1 br Hwf ltac:(lia)) as Hs.
  destruct (br_read 1 br) as [[a| |] br']; [|exact Hs|exact Hs].
  destruct Hs as (H1 & H2 & H3 & H4 & H5).
  destruct a as [|a0 [|a1 a]]; [congruence| |cbn [List.length] in H3; lia].
  cbn [app] in H1. auto.
Qed.

(* the same, against Body.src_byte on the logical stream *)
Definition st_of (br : bufreader) : stream := mkS (contents br) (br_eof br).

Lemma br_byte_src_byte br : wf br ->
  src_byte (st_of br) = (fst (br_byte br), st_of (snd (br_byte br))) /\ wf (snd (br_byte br)).
Proof.
  intros Hwf. pose proof (br_byte_spec br Hwf) as Hs. unfold src_byte, st_of. cbn [sbytes seof].
  destruct (br_byte br) as [[b| |] br']; cbn [fst snd].
  - destruct Hs as (H1 & H2 & H3). rewrite H1, H3. auto.
  - destruct Hs as (H1 & H2 & (H3 & H4 & H5)). rewrite H1, H2, H3, H5, H2. auto.
  - destruct Hs as (H1 & H2 & (H3 & H4 & H5)). rewrite H1, H2, H3, H5, H2. auto.
Qed.

(* ---------- the line reader ---------- *)
(* read_next_line as a function of the logical stream x and the end-of-stream flag e *)
Fixpoint line_fn (acc : bytes) (prev_cr : bool) (x : bytes) (e : bool) : lres * bytes :=
  match x with
  | [] => (if e then LEof else LBlock acc prev_cr, [])
  | b :: t => if Ascii.eqb b LF && prev_cr then (LLine (frev (tl acc)), t)
              else line_fn (b :: acc) (Ascii.eqb b CR) t e
  end.

Lemma read_line_op_aux_S f acc p br : read_line_op_aux (S f) acc p br =
  match br_byte br with
  | (BByte b, br') =>
      if Ascii.eqb b LF && p then (LLine (frev (tl acc)), br')
      else read_line_op_aux f (b :: acc) (Ascii.eqb b CR) br'
  | (BEof, br') => (LEof, br')
  | (BBlock, br') => (LBlock acc p, br')
  end.
Proof. reflexivity. Qed.

Theorem read_line_op_aux_fn : forall x acc p br fuel,
  wf br -> contents br = x -> List.length x < fuel ->
  exists br', read_line_op_aux fuel acc p br = (fst (line_fn acc p x (br_eof br)), br') /\
              lands br br' (snd (line_fn acc p x (br_eof br))).
Proof.
  induction x as [|b x IH]; intros acc p br fuel Hwf Hc Hf;
    (destruct fuel as [|f]; [cbn [List.length] in Hf; lia|]);
    rewrite read_line_op_aux_S; pose proof (br_byte_spec br Hwf) as Hs;
    destruct (br_byte br) as [[b0| |] br'].
  - destruct Hs as (H1 & _). congruence.
  - destruct Hs as (_ & H2 & H3). exists br'. cbn [line_fn]. rewrite H2. cbn [fst snd]. auto.
  - destruct Hs as (_ & H2 & H3). exists br'. cbn [line_fn]. rewrite H2. cbn [fst snd]. auto.
  - destruct Hs as (H1 & H2 & H3). rewrite Hc in H1. injection H1 as Hb H4. subst b0. cbn [line_fn].
    destruct (Ascii.eqb b LF && p).
    + exists br'. cbn [fst snd]. unfold lands. auto.
    + cbn [List.length] in Hf.
      destruct (IH (b :: acc) (Ascii.eqb b CR) br' f H2 (eq_sym H4) ltac:(lia)) as (br'' & Hr & Hl).
      exists br''. rewrite <- H3. split; [exact Hr|].
      destruct Hl as (L1 & L2 & L3). unfold lands. repeat split; auto. congruence.
  - destruct Hs as (H1 & _). congruence.
  - destruct Hs as (H1 & _). congruence.
Qed.

Lemma br_fuel_gt br : List.length (contents br) < br_fuel br.
Proof. unfold br_fuel. lia. Qed.

Theorem read_line_op_fn br : wf br ->
  exists br', read_line_op br = (fst (line_fn [] false (contents br) (br_eof br)), br') /\
              lands br br' (snd (line_fn [] false (contents br) (br_eof br))).
Proof. intros Hwf. apply read_line_op_aux_fn; [assumption|reflexivity|apply br_fuel_gt]. Qed.

(* line_fn against Request.read_line_aux: the same line and rest when the line is complete; when
   it is not, everything is consumed, the reader reports EOF / waits, and resuming the wait with
   the locals (acc', p') on whatever arrives later equals reading the whole stream at once *)
Lemma line_fn_read_line_aux : forall x acc p e,
  match read_line_aux acc p x with
  | Some (l, rest) => line_fn acc p x e = (LLine l, rest)
  | None => exists acc' p', line_fn acc p x e = (if e then LEof else LBlock acc' p', []) /\
                            forall more, read_line_aux acc p (x ++ more) = read_line_aux acc' p' more
  end.
Proof.
  induction x as [|b x IH]; intros acc p e; cbn [read_line_aux line_fn].
  - exists acc, p. split; reflexivity.
  - destruct (Ascii.eqb b LF && p) eqn:E; [reflexivity|].
    specialize (IH (b :: acc) (Ascii.eqb b CR) e).
    destruct (read_line_aux (b :: acc) (Ascii.eqb b CR) x) as [[l rest]|]; [exact IH|].
    destruct IH as (acc' & p' & H1 & H2). exists acc', p'. split; [exact H1|].
    intros more. cbn [app read_line_aux]. rewrite E. apply H2.
Qed.

(* the form used by the other bridges: read_line_op against Request.read_line *)
Theorem read_line_bridge br : wf br ->
  match read_line (contents br) with
  | Some (l, rest) => exists br', read_line_op br = (LLine l, br') /\ lands br br' rest
  | None => exists br' acc p, read_line_op br = (if br_eof br then LEof else LBlock acc p, br') /\
                              lands br br' [] /\
                              forall more, read_line (contents br ++ more) = read_line_aux acc p more
  end.
Proof.
  intros Hwf. destruct (read_line_op_fn br Hwf) as (br' & Hr & Hl).
  pose proof (line_fn_read_line_aux (contents br) [] false (br_eof br)) as Hp. unfold read_line.
  destruct (read_line_aux [] false (contents br)) as [[l rest]|].
  - rewrite Hp in Hr, Hl. exists br'. auto.
  - destruct Hp as (acc & p & Hp & Hm). rewrite Hp in Hr, Hl. exists br', acc, p. auto.
Qed.

(* the converse direction: whatever the operational reader returns is what the pure one says *)
Corollary read_line_op_sound br l br' : wf br -> read_line_op br = (LLine l, br') ->
  read_line (contents br) = Some (l, contents br').
Proof.
  intros Hwf H. pose proof (read_line_bridge br Hwf) as Hb.
  destruct (read_line (contents br)) as [[l0 rest]|].
  - destruct Hb as (br0 & H0 & (C & _)). rewrite H in H0. inversion H0; subst. reflexivity.
  - destruct Hb as (br0 & acc & p & H0 & _). rewrite H in H0. destruct (br_eof br); discriminate.
Qed.

(* pauses: a line reader that had to wait, resumed on the segments that arrive later, returns what
   a reader that found everything already there returns *)
Theorem read_line_resume br acc p br1 segs : wf br ->
  Forall (fun g => g <> []) segs ->
  read_line_op br = (LBlock acc p, br1) ->
  exists br2, read_line_op_aux (br_fuel (br_feed segs br1)) acc p (br_feed segs br1)
              = (fst (line_fn [] false (contents (br_feed segs br)) (br_eof br)), br2) /\
              lands br br2 (snd (line_fn [] false (contents (br_feed segs br)) (br_eof br))).
Proof.
  intros Hwf Hsegs H. destruct (read_line_op_fn br Hwf) as (br' & Hr & Hl).
  rewrite H in Hr. inversion Hr as [[Hfst Hbr]]. subst br'.
  assert (Hw1 : wf (br_feed segs br1)) by (apply wf_br_feed; [apply Hl|assumption]).
  destruct (read_line_op_aux_fn _ acc p (br_feed segs br1) _ Hw1 eq_refl (br_fuel_gt _)) as (br2 & Hr2 & Hl2).
  exists br2.
  assert (Hfn : forall x a q e, fst (line_fn a q x e) = LBlock acc p ->
            forall more, line_fn a q (x ++ more) e = line_fn acc p more e /\ snd (line_fn a q x e) = []).
  { induction x as [|b x IH]; intros a q e Hx more; cbn [line_fn app] in *.
    - destruct e; cbn [fst] in Hx; [discriminate|]. inversion Hx; subst. auto.
    - destruct (Ascii.eqb b LF && q); [cbn [fst] in Hx; discriminate|]. apply IH, Hx. }
  destruct (Hfn _ _ _ _ (eq_sym Hfst) (List.concat segs)) as (Hfn1 & Hfn2).
  rewrite Hfn2 in Hl.
  assert (Hc1 : contents (br_feed segs br1) = List.concat segs) by (eapply lands_nil_feed; exact Hl).
  assert (He1 : br_eof (br_feed segs br1) = br_eof br) by (destruct Hl as (_ & _ & E); exact E).
  rewrite Hc1, He1 in Hr2, Hl2. rewrite contents_br_feed, Hfn1. split; [exact Hr2|].
  destruct Hl2 as (L1 & L2 & L3). repeat split; auto. congruence.
Qed.

(* ---------- the small-body loop ---------- *)
Definition small_body_fn (need : nat) (acc x : bytes) (e : bool) : sbres * bytes :=
  if Nat.leb need (List.length x) then (SBFull (acc ++ firstn need x), skipn need x)
  else (if e then SBEof (acc ++ x) else SBBlock (acc ++ x), []).

Lemma small_body_fn_step need acc (a x : bytes) e : a <> [] -> List.length a <= need ->
  small_body_fn need acc (a ++ x) e = small_body_fn (need - List.length a) (acc ++ a) x e.
Proof.
  intros Ha Hl. unfold small_body_fn. rewrite app_length.
  destruct (Nat.leb need (List.length a + List.length x)) eqn:E1;
    destruct (Nat.leb (need - List.length a) (List.length x)) eqn:E2; try lia.
  - rewrite firstn_app, skipn_app, (firstn_all2 a), (skipn_all2 a) by lia.
    cbn [app]. now rewrite <- app_assoc.
  - now rewrite <- app_assoc.
Qed.

Lemma read_small_body_aux_S f need acc br : read_small_body_aux (S f) (S need) acc br =
  match br_read (S need) br with
  | (OData a, br') => read_small_body_aux f (S need - List.length a) (acc ++ a) br'
  | (OEof, br') => (SBEof acc, br')
  | (OBlock, br') => (SBBlock acc, br')
  end.
Proof. reflexivity. Qed.

Theorem read_small_body_aux_fn : forall fuel need acc br,
  wf br -> List.length (contents br) < fuel ->
  exists br', read_small_body_aux fuel need acc br = (fst (small_body_fn need acc (contents br) (br_eof br)), br') /\
              lands br br' (snd (small_body_fn need acc (contents br) (br_eof br))).
Proof.
  induction fuel as [|f IH]; intros need acc br Hwf Hf; [lia|].
  destruct need as [|need].
  - exists br. unfold small_body_fn, lands. cbn [read_small_body_aux Nat.leb firstn skipn fst snd].
    rewrite app_nil_r. auto.
  - rewrite read_small_body_aux_S. pose proof (br_read_spec (S need) br Hwf ltac:(lia)) as Hs.
    destruct (br_read (S need) br) as [[a| |] br'].
    + destruct Hs as (H1 & H2 & H3 & H4 & H5).
      assert (Hla : 0 < List.length a) by (destruct a; [congruence|cbn [List.length]; lia]).
      destruct (IH (S need - List.length a) (acc ++ a) br' H4) as (br'' & Hr & Hl).
      { rewrite H1, app_length in Hf. lia. }
      exists br''. rewrite H1, small_body_fn_step by assumption. rewrite <- H5. split; [exact Hr|].
      destruct Hl as (L1 & L2 & L3). repeat split; auto. congruence.
    + destruct Hs as (H1 & H2 & H3). exists br'. rewrite H1, H2. unfold small_body_fn.
      cbn [List.length Nat.leb fst snd]. rewrite app_nil_r. auto.
    + destruct Hs as (H1 & H2 & H3). exists br'. rewrite H1, H2. unfold small_body_fn.
      cbn [List.length Nat.leb fst snd]. rewrite app_nil_r. auto.
Qed.

Theorem read_small_body_op_fn n br : wf br ->
  exists br', read_small_body_op n br = (fst (small_body_fn n [] (contents br) (br_eof br)), br') /\
              lands br br' (snd (small_body_fn n [] (contents br) (br_eof br))).
Proof. intros Hwf. apply read_small_body_aux_fn; [assumption|apply br_fuel_gt]. Qed.

(* the two cases spelled out, as Serve.serve_loop uses them (KBuffered) *)
Corollary read_small_body_bridge n br : wf br ->
  if Nat.leb n (List.length (contents br))
  then exists br', read_small_body_op n br = (SBFull (firstn n (contents br)), br') /\
                   lands br br' (skipn n (contents br))
  else exists br', read_small_body_op n br =
                     (if br_eof br then SBEof (contents br) else SBBlock (contents br), br') /\
                   lands br br' [].
Proof.
  intros Hwf. destruct (read_small_body_op_fn n br Hwf) as (br' & Hr & Hl).
  unfold small_body_fn in Hr, Hl. destruct (Nat.leb n (List.length (contents br)));
    cbn [fst snd app] in Hr, Hl; exists br'; auto.
Qed.

(* ---------- from "a function of the stream" to "independent of the segmentation" ---------- *)
Lemma fn_invariance {R : Type} (op : bufreader -> R * bufreader) (fn : bytes -> bool -> R * bytes) :
  (forall br, wf br -> exists br', op br = (fst (fn (contents br) (br_eof br)), br') /\
                                   lands br br' (snd (fn (contents br) (br_eof br)))) ->
  forall br1 br2, wf br1 -> wf br2 -> contents br1 = contents br2 -> br_eof br1 = br_eof br2 ->
  fst (op br1) = fst (op br2) /\
  contents (snd (op br1)) = contents (snd (op br2)) /\
  wf (snd (op br1)) /\ wf (snd (op br2)) /\
  br_eof (snd (op br1)) = br_eof (snd (op br2)).
Proof.
  intros H br1 br2 W1 W2 Hc He.
  destruct (H br1 W1) as (b1 & R1 & (C1 & V1 & E1)). destruct (H br2 W2) as (b2 & R2 & (C2 & V2 & E2)).
  rewrite R1, R2. cbn [fst snd]. rewrite C1, C2, E1, E2, Hc, He. repeat split; auto.
Qed.
