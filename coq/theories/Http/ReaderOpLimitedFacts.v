(* Http/ReaderOpLimitedFacts.v — EqualReader over the operational BufReader (C13): one read may be
   SHORT (it returns a non-empty prefix of what the full-read model returns), but every read LOOP
   "until m bytes or the end", whatever buffer sizes the application offers, obtains the same bytes,
   ends the same way and leaves the same logical stream as the function limited_take_fn of the
   stream; the same for the discard loop of EqualReader::drop; and Body.take over BLimited (full
   reads) computes that same function. *)
From TH Require Import Base.Bytes Base.BytesFacts Http.Response Http.Request Http.Body Http.ReaderOp
                       Http.ReaderOpFacts.
From Coq Require Import Lia ZArith ZifyN ZifyBool ZifyNat.
Open Scope char_scope.

(* ---------- one EqualReader read ---------- *)
Lemma limited_read_spec n rem br : wf br -> 0 < n ->
  match limited_read_op n rem br with
  | (OData d, rem', br') =>
      contents br = d ++ contents br' /\ d <> [] /\ (len d <= N.min (N.of_nat n) rem)%N /\
      rem' = (rem - len d)%N /\ wf br' /\ br_eof br' = br_eof br
  | (OEof, rem', br') =>
      rem' = rem /\ (rem = 0%N /\ br' = br \/ rem <> 0%N /\ contents br = [] /\ br_eof br = true /\ lands br br' [])
  | (OBlock, rem', br') =>
      rem' = rem /\ rem <> 0%N /\ contents br = [] /\ br_eof br = false /\ lands br br' []
  end.
Proof.
  intros Hwf Hn. unfold limited_read_op. destruct (rem =? 0)%N eqn:E0.
  - split; [reflexivity|]. left. split; [lia|reflexivity].
  - pose proof (br_read_spec (N.to_nat (N.min (N.of_nat n) rem)) br Hwf ltac:(lia)) as Hs.
    destruct (br_read (N.to_nat (N.min (N.of_nat n) rem)) br) as [[d| |] br'].
    + destruct Hs as (H1 & H2 & H3 & H4 & H5). unfold len. repeat split; auto. lia.
    + destruct Hs as (H1 & H2 & H3). split; [reflexivity|]. right. repeat split; auto; try apply H3. lia.
    + destruct Hs as (H1 & H2 & H3). repeat split; auto; try apply H3. lia.
Qed.

(* a short read is a prefix of the full read of the logical-stream model (Body.src_read) *)
Corollary limited_read_prefix_of_full n rem br d rem' br' : wf br -> 0 < n ->
  limited_read_op n rem br = (OData d, rem', br') ->
  exists d2, firstn (N.to_nat (N.min (N.of_nat n) rem)) (contents br) = d ++ d2.
Proof.
  intros Hwf Hn H. pose proof (limited_read_spec n rem br Hwf Hn) as Hs. rewrite H in Hs.
  destruct Hs as (H1 & H2 & H3 & _). rewrite H1. unfold len in H3.
  exists (firstn (N.to_nat (N.min (N.of_nat n) rem) - List.length d) (contents br')).
  rewrite firstn_app, firstn_all2 by lia. reflexivity.
Qed.

(* ---------- the read-until loop as a function of the logical stream ---------- *)
Record ltres := mkLT { lt_got : bytes; lt_end : read_end; lt_rem : N; lt_rest : bytes }.

Definition limited_take_fn (m rem : N) (x : bytes) (e : bool) : ltres :=
  let t := N.min m rem in
  if (t <=? len x)%N
  then mkLT (firstn (N.to_nat t) x) (if (m <=? rem)%N then EndCount else EndEof) (rem - t)%N
            (skipn (N.to_nat t) x)
  else mkLT x (if e then EndEof else EndBlock) (rem - len x)%N [].

Lemma limited_take_fn_0 rem x e : limited_take_fn 0 rem x e = mkLT [] EndCount rem x.
Proof.
  unfold limited_take_fn. replace (N.min 0 rem) with 0%N by lia.
  destruct (0 <=? len x)%N eqn:E1; [|lia]. destruct (0 <=? rem)%N eqn:E2; [|lia].
  change (N.to_nat 0) with 0. cbn [firstn skipn]. now rewrite N.sub_0_r.
Qed.

Lemma limited_take_fn_rem0 m x e : m <> 0%N -> limited_take_fn m 0 x e = mkLT [] EndEof 0 x.
Proof.
  intros Hm. unfold limited_take_fn. replace (N.min m 0) with 0%N by lia.
  destruct (0 <=? len x)%N eqn:E1; [|lia]. destruct (m <=? 0)%N eqn:E2; [lia|].
  change (N.to_nat 0) with 0. cbn [firstn skipn]. reflexivity.
Qed.

Lemma limited_take_fn_nil m rem e : m <> 0%N -> rem <> 0%N ->
  limited_take_fn m rem [] e = mkLT [] (if e then EndEof else EndBlock) rem [].
Proof.
  intros Hm Hr. unfold limited_take_fn, len. cbn [List.length].
  destruct (N.min m rem <=? N.of_nat 0)%N eqn:E1; [lia|]. f_equal. lia.
Qed.

Lemma limited_take_fn_step m rem (d x : bytes) e : (len d <= N.min m rem)%N ->
  limited_take_fn m rem (d ++ x) e =
  let F := limited_take_fn (m - len d) (rem - len d) x e in
  mkLT (d ++ lt_got F) (lt_end F) (lt_rem F) (lt_rest F).
Proof.
  intros Hd. unfold limited_take_fn, len in *. rewrite app_length.
  replace (N.min (m - N.of_nat (List.length d)) (rem - N.of_nat (List.length d)))
    with (N.min m rem - N.of_nat (List.length d))%N by lia.
  destruct (N.min m rem <=? N.of_nat (List.length d + List.length x))%N eqn:E1;
    destruct (N.min m rem - N.of_nat (List.length d) <=? N.of_nat (List.length x))%N eqn:E2; try lia;
    cbn [lt_got lt_end lt_rem lt_rest].
  - replace (N.to_nat (N.min m rem - N.of_nat (List.length d)))
      with (N.to_nat (N.min m rem) - List.length d) by lia.
    rewrite firstn_app, skipn_app, (firstn_all2 d), (skipn_all2 d) by lia. cbn [app].
    f_equal; [|lia].
    destruct (m <=? rem)%N eqn:E3;
      destruct (m - N.of_nat (List.length d) <=? rem - N.of_nat (List.length d))%N eqn:E4;
      try reflexivity; lia.
  - f_equal. lia.
Qed.

Lemma pieces_bytes_cons d acc : pieces_bytes (d :: acc) = pieces_bytes acc ++ d.
Proof.
  unfold pieces_bytes. rewrite !frev_rev. cbn [rev]. rewrite concat_app. cbn [List.concat].
  now rewrite app_nil_r.
Qed.

Lemma limited_take_op_unfold fuel sz m rem br acc : limited_take_op fuel sz m rem br acc =
  if (m =? 0)%N then Some (acc, EndCount, rem, br) else
  match fuel with
  | O => None
  | S f =>
      match limited_read_op (N.to_nat (N.min m (N.of_nat (sz acc)))) rem br with
      | (OData d, rem', br') => limited_take_op f sz (m - len d)%N rem' br' (d :: acc)
      | (OEof, rem', br') => Some (acc, EndEof, rem', br')
      | (OBlock, rem', br') => Some (acc, EndBlock, rem', br')
      end
  end.
Proof. destruct fuel; reflexivity. Qed.

(* for EVERY policy sz of buffer sizes (all positive): the concatenation of the pieces, the way the
   loop ends, the count left and the stream left are those of limited_take_fn; only the way the
   bytes are cut into pieces (acc') may depend on the segmentation *)
Theorem limited_take_op_fn : forall fuel sz m rem br acc,
  wf br -> (forall h, 0 < sz h) -> List.length (contents br) < fuel ->
  let F := limited_take_fn m rem (contents br) (br_eof br) in
  exists acc' br', limited_take_op fuel sz m rem br acc = Some (acc', lt_end F, lt_rem F, br') /\
                   pieces_bytes acc' = pieces_bytes acc ++ lt_got F /\
                   lands br br' (lt_rest F).
Proof.
  induction fuel as [|f IH]; intros sz m rem br acc Hwf Hsz Hf; [lia|].
  intros F. subst F. rewrite limited_take_op_unfold. destruct (m =? 0)%N eqn:Em.
  - assert (m = 0%N) by lia. subst m. rewrite limited_take_fn_0. cbn [lt_got lt_end lt_rem lt_rest].
    exists acc, br. rewrite app_nil_r. unfold lands. auto.
  - assert (Hm : m <> 0%N) by lia.
    assert (Hw : 0 < N.to_nat (N.min m (N.of_nat (sz acc)))) by (specialize (Hsz acc); lia).
    pose proof (limited_read_spec _ rem br Hwf Hw) as Hs.
    destruct (limited_read_op (N.to_nat (N.min m (N.of_nat (sz acc)))) rem br) as [[[d| |] rem'] br'].
    + destruct Hs as (H1 & H2 & H3 & H4 & H5 & H6). subst rem'.
      assert (Hld : (0 < len d)%N) by (unfold len; destruct d; [congruence|cbn [List.length]; lia]).
      destruct (IH sz (m - len d)%N (rem - len d)%N br' (d :: acc) H5 Hsz) as (acc' & br'' & Hr & Hp & Hl).
      { rewrite H1, app_length in Hf. unfold len in Hld. lia. }
      exists acc', br''. rewrite H1, limited_take_fn_step by lia. cbn zeta.
      cbn [lt_got lt_end lt_rem lt_rest]. rewrite <- H6. split; [exact Hr|]. split.
      * rewrite Hp, pieces_bytes_cons. now rewrite app_assoc.
      * destruct Hl as (L1 & L2 & L3). repeat split; auto. congruence.
    + destruct Hs as (-> & [(Hr0 & ->)|(Hr0 & H1 & H2 & H3)]).
      * subst rem. rewrite limited_take_fn_rem0 by assumption. cbn [lt_got lt_end lt_rem lt_rest].
        exists acc, br. rewrite app_nil_r. unfold lands. auto.
      * rewrite H1, H2, limited_take_fn_nil by assumption. cbn [lt_got lt_end lt_rem lt_rest].
        exists acc, br'. rewrite app_nil_r. auto.
    + destruct Hs as (-> & Hr0 & H1 & H2 & H3).
      rewrite H1, H2, limited_take_fn_nil by assumption. cbn [lt_got lt_end lt_rem lt_rest].
      exists acc, br'. rewrite app_nil_r. auto.
Qed.

Corollary limited_take_fn_spec sz m rem br : wf br -> (forall h, 0 < sz h) ->
  let F := limited_take_fn m rem (contents br) (br_eof br) in
  exists acc' br', limited_take sz m rem br = Some (acc', lt_end F, lt_rem F, br') /\
                   pieces_bytes acc' = lt_got F /\ lands br br' (lt_rest F).
Proof.
  intros Hwf Hsz. exact (limited_take_op_fn (br_fuel br) sz m rem br [] Hwf Hsz (br_fuel_gt br)).
Qed.

(* in the usual terms: the first min(m, rem) bytes of the stream when they are there *)
Corollary limited_take_firstn sz m rem br : wf br -> (forall h, 0 < sz h) ->
  (N.min m rem <= len (contents br))%N ->
  exists acc' br', limited_take sz m rem br =
                     Some (acc', if (m <=? rem)%N then EndCount else EndEof, (rem - N.min m rem)%N, br') /\
                   pieces_bytes acc' = firstn (N.to_nat (N.min m rem)) (contents br) /\
                   lands br br' (skipn (N.to_nat (N.min m rem)) (contents br)).
Proof.
  intros Hwf Hsz Hle. pose proof (limited_take_fn_spec sz m rem br Hwf Hsz) as H. cbn zeta in H.
  unfold limited_take_fn in H. destruct (N.min m rem <=? len (contents br))%N eqn:E; [|lia].
  exact H.
Qed.

(* ---------- EqualReader::drop ---------- *)
Lemma limited_discard_op_unfold c fuel rem br : limited_discard_op c fuel rem br =
  if (rem =? 0)%N then Some br else
  match fuel with
  | O => None
  | S f =>
      match br_read (N.to_nat (if fix_d6 c then N.min rem 8192 else rem)) br with
      | (OData d, br') => limited_discard_op c f (rem - len d)%N br'
      | (_, br') => Some br'
      end
  end.
Proof. destruct fuel; reflexivity. Qed.

Theorem limited_discard_op_fn c : forall fuel rem br, wf br -> List.length (contents br) < fuel ->
  exists br', limited_discard_op c fuel rem br = Some br' /\
              lands br br' (skipn (N.to_nat rem) (contents br)).
Proof.
  induction fuel as [|f IH]; intros rem br Hwf Hf; [lia|].
  rewrite limited_discard_op_unfold. destruct (rem =? 0)%N eqn:E0.
  - assert (rem = 0%N) by lia. subst rem. exists br. change (N.to_nat 0) with 0. cbn [skipn].
    unfold lands. auto.
  - set (k := N.to_nat (if fix_d6 c then N.min rem 8192 else rem)).
    assert (Hk : 0 < k <= N.to_nat rem) by (unfold k; destruct (fix_d6 c); lia).
    pose proof (br_read_spec k br Hwf ltac:(lia)) as Hs. destruct (br_read k br) as [[d| |] br'].
    + destruct Hs as (H1 & H2 & H3 & H4 & H5).
      assert (Hld : 0 < List.length d) by (destruct d; [congruence|cbn [List.length]; lia]).
      destruct (IH (rem - len d)%N br' H4) as (br'' & Hr & Hl).
      { rewrite H1, app_length in Hf. lia. }
      exists br''. split; [exact Hr|]. rewrite H1, skipn_app, (skipn_all2 d) by lia. cbn [app].
      unfold len in Hl. replace (N.to_nat rem - List.length d) with (N.to_nat (rem - N.of_nat (List.length d))) by lia.
      destruct Hl as (L1 & L2 & L3). repeat split; auto. congruence.
    + destruct Hs as (H1 & H2 & H3). exists br'. split; [reflexivity|]. rewrite H1, skipn_nil. exact H3.
    + destruct Hs as (H1 & H2 & H3). exists br'. split; [reflexivity|]. rewrite H1, skipn_nil. exact H3.
Qed.

(* ---------- Body.take over BLimited (full reads, fixed buffer size n) is the same function ---------- *)
Lemma take_unfold c fuel m n r st al acc : 0 < n -> take c fuel m n r st al acc =
  match fuel with
  | O => (acc, EndCount, r, st, al)
  | S f =>
      if (m =? 0)%N then (acc, EndCount, r, st, al) else
      match body_read c (N.to_nat (N.min m (N.of_nat n))) r st al with
      | (RData d, r1, st1, al1) => take c f (m - len d)%N n r1 st1 al1 (d :: acc)
      | (REof, r1, st1, al1) => (acc, EndEof, r1, st1, al1)
      | (RErr, r1, st1, al1) => (acc, EndErr, r1, st1, al1)
      | (RBlock, r1, st1, al1) => (acc, EndBlock, r1, st1, al1)
      end
  end.
Proof.
  intros Hn. destruct fuel; [reflexivity|]. cbn [take]. destruct (m =? 0)%N eqn:E; [reflexivity|].
  unfold body_read_any. destruct (N.to_nat (N.min m (N.of_nat n))) eqn:Ew; [lia|reflexivity].
Qed.

Lemma discard_at_eof c rem e al : rem <> 0%N ->
  exists al', discard c 1 rem (mkS [] e) al = (mkS [] e, al').
Proof.
  intros Hr. cbn [discard]. destruct (rem =? 0)%N eqn:E0; [lia|].
  unfold len. cbn [sbytes List.length].
  replace (N.min (if fix_d6 c then N.min rem 8192 else rem) (N.of_nat 0)) with 0%N by lia.
  change (0 =? 0)%N with true. change (N.to_nat 1) with 1. unfold src_read. cbn [sbytes seof].
  destruct e; eexists; reflexivity.
Qed.

Theorem take_limited_fn c n : 0 < n -> forall fuel m rem x e al acc, List.length x < fuel ->
  let F := limited_take_fn m rem x e in
  exists acc' r' al', take c fuel m n (BLimited rem) (mkS x e) al acc
                        = (acc', lt_end F, r', mkS (lt_rest F) e, al') /\
                      pieces_bytes acc' = pieces_bytes acc ++ lt_got F /\
                      (r' = BLimited (lt_rem F) \/ r' = BEmpty).
Proof.
  intros Hn. induction fuel as [|f IH]; intros m rem x e al acc Hf; [lia|].
  intros F. subst F. rewrite take_unfold by exact Hn. destruct (m =? 0)%N eqn:Em.
  - assert (m = 0%N) by lia. subst m. rewrite limited_take_fn_0. cbn [lt_got lt_end lt_rem lt_rest].
    exists acc, (BLimited rem), al. rewrite app_nil_r. auto.
  - assert (Hm : m <> 0%N) by lia. unfold body_read. destruct (rem =? 0)%N eqn:Er.
    + assert (rem = 0%N) by lia. subst rem. rewrite limited_take_fn_rem0 by assumption.
      cbn [lt_got lt_end lt_rem lt_rest]. exists acc, BEmpty, al. rewrite app_nil_r. auto.
    + assert (Hr : rem <> 0%N) by lia.
      set (k := N.to_nat (N.min (N.of_nat (N.to_nat (N.min m (N.of_nat n)))) rem)).
      assert (Hk : 0 < k /\ (N.of_nat k <= N.min m rem)%N) by (unfold k; lia).
      clearbody k. destruct k as [|k]; [lia|]. unfold src_read. cbn [sbytes seof].
      destruct x as [|b x].
      * rewrite limited_take_fn_nil by assumption. cbn [lt_got lt_end lt_rem lt_rest]. destruct e.
        -- destruct (discard_at_eof c rem true al Hr) as (al' & Hd). rewrite Hd.
           exists acc, BEmpty, al'. rewrite app_nil_r. auto.
        -- exists acc, (BLimited rem), al. rewrite app_nil_r. auto.
      * set (d := firstn (S k) (b :: x)). set (x' := skipn (S k) (b :: x)).
        assert (Hx : b :: x = d ++ x') by (symmetry; apply firstn_skipn).
        assert (Hd : 0 < List.length d <= S k).
        { unfold d. rewrite firstn_length. cbn [List.length]. lia. }
        assert (Hlx : List.length (b :: x) = List.length d + List.length x') by (rewrite Hx at 1; apply app_length).
        destruct (IH (m - len d)%N (rem - len d)%N x' e al (d :: acc)) as (acc' & r' & al' & Ht & Hp & Hrr).
        { lia. }
        assert (Hstep : limited_take_fn m rem (b :: x) e =
                        let F := limited_take_fn (m - len d) (rem - len d) x' e in
                        mkLT (d ++ lt_got F) (lt_end F) (lt_rem F) (lt_rest F)).
        { rewrite Hx. apply limited_take_fn_step. unfold len. lia. }
        exists acc', r', al'. rewrite Hstep. cbn zeta. cbn [lt_got lt_end lt_rem lt_rest]. split; [exact Ht|]. split; [|exact Hrr].
        rewrite Hp, pieces_bytes_cons. now rewrite app_assoc.
Qed.

(* C13 for the limited reader in one statement: the operational loop (any segmentation, any
   buffer-size policy) and the full-read loop of the model (any fixed buffer size) obtain the
   same bytes, end the same way, and leave the same logical stream and the same count *)
Corollary limited_take_agrees_with_model c sz n m rem br al : wf br -> (forall h, 0 < sz h) -> 0 < n ->
  exists acc1 en rem1 br' acc2 r' al',
    limited_take sz m rem br = Some (acc1, en, rem1, br') /\
    take c (S (List.length (contents br))) m n (BLimited rem) (st_of br) al []
      = (acc2, en, r', st_of br', al') /\
    pieces_bytes acc1 = pieces_bytes acc2 /\
    (r' = BLimited rem1 \/ r' = BEmpty) /\ wf br'.
Proof.
  intros Hwf Hsz Hn.
  destruct (limited_take_fn_spec sz m rem br Hwf Hsz) as (acc1 & br' & H1 & P1 & (L1 & L2 & L3)).
  destruct (take_limited_fn c n Hn (S (List.length (contents br))) m rem (contents br) (br_eof br) al []
              ltac:(lia)) as (acc2 & r' & al' & H2 & P2 & Hr).
  cbn zeta in *. exists acc1, (lt_end (limited_take_fn m rem (contents br) (br_eof br))),
    (lt_rem (limited_take_fn m rem (contents br) (br_eof br))), br', acc2, r', al'.
  unfold st_of. rewrite L1, L3. repeat split; auto. rewrite P1, P2. reflexivity.
Qed.
