(* Http/ReaderOpChunkFacts.v — chunked_transfer::Decoder over the operational BufReader (C13).
   The byte-wise parts (chunk-size line, CR, LF) are exactly the functions of Body.v applied to
   the logical stream. *)
From TH Require Import Base.Bytes Base.BytesFacts Http.Response Http.Request Http.Body Http.ReaderOp
                       Http.ReaderOpFacts Http.ReaderOpLimitedFacts.
From Coq Require Import Lia ZArith ZifyN ZifyBool ZifyNat.
Open Scope char_scope.

(* op on the BufReader computes what pure computes on the logical stream *)
Definition agrees {A : Type} (pure : A * stream) (br : bufreader) (op : A * bufreader) : Prop :=
  pure = (fst op, st_of (snd op)) /\ wf (snd op) /\ br_eof (snd op) = br_eof br /\
  List.length (contents (snd op)) <= List.length (contents br).

Lemma br_byte_agrees br : wf br -> agrees (src_byte (st_of br)) br (br_byte br).
Proof.
  intros Hwf. destruct (br_byte_src_byte br Hwf) as (H1 & H2). pose proof (br_byte_spec br Hwf) as Hs.
  unfold agrees. split; [exact H1|]. split; [exact H2|].
  destruct (br_byte br) as [[b| |] br']; cbn [fst snd].
  - destruct Hs as (C & W & E). rewrite C. cbn [List.length]. split; [exact E|lia].
  - destruct Hs as (C & _ & (C' & W & E)). rewrite C, C'. auto.
  - destruct Hs as (C & _ & (C' & W & E)). rewrite C, C'. auto.
Qed.

Lemma expect_byte_agrees c br : wf br -> agrees (expect_byte c (st_of br)) br (expect_byte_op c br).
Proof.
  intros Hwf. destruct (br_byte_agrees br Hwf) as (H1 & H2 & H3 & H4).
  unfold agrees, expect_byte, expect_byte_op. rewrite H1.
  destruct (br_byte br) as [[b| |] br']; cbn [fst snd] in *.
  - destruct (Ascii.eqb b c); cbn [fst snd]; auto.
  - auto.
  - auto.
Qed.

Lemma read_crlf_agrees br : wf br -> agrees (read_crlf (st_of br)) br (read_crlf_op br).
Proof.
  intros Hwf. destruct (expect_byte_agrees CR br Hwf) as (H1 & H2 & H3 & H4).
  unfold read_crlf, read_crlf_op. rewrite H1.
  destruct (expect_byte_op CR br) as [[u| |] br1]; cbn [fst snd] in *.
  - destruct (expect_byte_agrees LF br1 H2) as (G1 & G2 & G3 & G4).
    unfold agrees. rewrite G1. repeat split; auto; [congruence|lia].
  - unfold agrees. cbn [fst snd]. auto.
  - unfold agrees. cbn [fst snd]. auto.
Qed.

Lemma size_bytes_S f in_ext acc st : size_bytes (S f) in_ext acc st =
  match src_byte st with
  | (BByte b, st') =>
      if Ascii.eqb b CR then (DOk (frev acc), st')
      else if in_ext then size_bytes f true acc st'
      else if Ascii.eqb b ";" then size_bytes f true acc st'
      else size_bytes f false (b :: acc) st'
  | (BEof, st') => (DErr, st')
  | (BBlock, st') => (DBlock, st')
  end.
Proof. reflexivity. Qed.

Lemma size_bytes_op_S f in_ext acc br : size_bytes_op (S f) in_ext acc br =
  match br_byte br with
  | (BByte b, br') =>
      if Ascii.eqb b CR then (DOk (frev acc), br')
      else if in_ext then size_bytes_op f true acc br'
      else if Ascii.eqb b ";" then size_bytes_op f true acc br'
      else size_bytes_op f false (b :: acc) br'
  | (BEof, br') => (DErr, br')
  | (BBlock, br') => (DBlock, br')
  end.
Proof. reflexivity. Qed.

(* whatever the two fuels, as long as they exceed the number of bytes in the stream *)
Lemma size_bytes_agrees : forall f_op f_p in_ext acc br, wf br ->
  List.length (contents br) < f_op -> List.length (contents br) < f_p ->
  agrees (size_bytes f_p in_ext acc (st_of br)) br (size_bytes_op f_op in_ext acc br).
Proof.
  induction f_op as [|f IH]; intros f_p in_ext acc br Hwf Hf1 Hf2; [lia|].
  destruct f_p as [|g]; [lia|]. rewrite size_bytes_S, size_bytes_op_S.
  destruct (br_byte_agrees br Hwf) as (H1 & H2 & H3 & H4). pose proof (br_byte_spec br Hwf) as Hs.
  rewrite H1. destruct (br_byte br) as [[b| |] br1]; cbn [fst snd] in *;
    [|unfold agrees; cbn [fst snd]; auto|unfold agrees; cbn [fst snd]; auto].
  destruct Hs as (C & _ & _). rewrite C in Hf1, Hf2. cbn [List.length] in Hf1, Hf2.
  assert (Hrec : forall ie a, agrees (size_bytes g ie a (st_of br1)) br (size_bytes_op f ie a br1)).
  { intros ie a. destruct (IH g ie a br1 H2 ltac:(lia) ltac:(lia)) as (G1 & G2 & G3 & G4).
    unfold agrees. repeat split; auto; [congruence|lia]. }
  destruct (Ascii.eqb b CR); [unfold agrees; cbn [fst snd]; auto|].
  destruct in_ext; [apply Hrec|]. destruct (Ascii.eqb b ";"); apply Hrec.
Qed.

Lemma read_chunk_size_agrees br : wf br ->
  agrees (read_chunk_size (st_of br)) br (read_chunk_size_op br).
Proof.
  intros Hwf. unfold read_chunk_size, read_chunk_size_op.
  destruct (size_bytes_agrees (br_fuel br) (S (List.length (sbytes (st_of br)))) false [] br Hwf
              (br_fuel_gt br) ltac:(cbn [st_of sbytes]; lia)) as (H1 & H2 & H3 & H4).
  rewrite H1. destruct (size_bytes_op (br_fuel br) false [] br) as [[x| |] br1]; cbn [fst snd] in *;
    [|unfold agrees; cbn [fst snd]; auto|unfold agrees; cbn [fst snd]; auto].
  destruct (expect_byte_agrees LF br1 H2) as (G1 & G2 & G3 & G4). rewrite G1.
  destruct (expect_byte_op LF br1) as [[u| |] br2]; cbn [fst snd] in *.
  - destruct (parse_chunk_size x); unfold agrees; cbn [fst snd]; repeat split; auto; try congruence; lia.
  - unfold agrees; cbn [fst snd]; repeat split; auto; try congruence; lia.
  - unfold agrees; cbn [fst snd]; repeat split; auto; try congruence; lia.
Qed.

(* segmentation invariance of the byte-wise parts *)
Corollary read_chunk_size_invariant br1 br2 : wf br1 -> wf br2 ->
  contents br1 = contents br2 -> br_eof br1 = br_eof br2 ->
  fst (read_chunk_size_op br1) = fst (read_chunk_size_op br2) /\
  contents (snd (read_chunk_size_op br1)) = contents (snd (read_chunk_size_op br2)).
Proof.
  intros W1 W2 Hc He. destruct (read_chunk_size_agrees br1 W1) as (A1 & _).
  destruct (read_chunk_size_agrees br2 W2) as (A2 & _).
  unfold st_of in A1, A2. rewrite <- Hc, <- He, A1 in A2. inversion A2. auto.
Qed.
