(* Http/C12ManyFacts.v — C12(c): any number of complete simple requests sent back to back are all
   delivered and answered, in order; then the server closes if the client has closed its sending
   side (half-close), and otherwise keeps the connection open. *)
From TH Require Import Base.Bytes Base.BytesFacts Http.Response Http.Request Http.Body Http.Serve
  Http.ServeFacts Http.ServeStreamFacts Http.C12ServeFacts Http.C15HeadFacts.
From Coq Require Import Lia ZArith ZifyN ZifyBool ZifyNat.
Open Scope char_scope.

(* ---- simple requests: GET <target> HTTP/1.1 CRLF Host: h CRLF CRLF ---- *)
Definition is_vchar (c : ascii) : bool := ((33 <=? code c) && (code c <=? 126))%N.
Definition good_target (t : bytes) : Prop := forallb is_vchar t = true.
Definition sr_line (t : bytes) : bytes := s "GET " ++ t ++ s " HTTP/1.1".
Definition sr_bytes (t : bytes) : bytes := sr_line t ++ CRLF ++ s "Host: h" ++ CRLF ++ CRLF.
Definition GETB : bytes := s "GET".
Definition HOSTH : list header := [mkH (s "Host") (s "h")].

Definition nolf (x : bytes) : bool := forallb (fun c => negb (Ascii.eqb c LF)) x.
Definition nosp (x : bytes) : bool := forallb (fun c => negb (Ascii.eqb c SP)) x.

Lemma vchar_facts c : is_vchar c = true ->
  is_ascii c = true /\ negb (Ascii.eqb c LF) = true /\ negb (Ascii.eqb c SP) = true.
Proof.
  intros H. repeat split.
  - unfold is_vchar in H. unfold is_ascii. lia.
  - destruct (Ascii.eqb_spec c LF) as [->|]; [discriminate H|reflexivity].
  - destruct (Ascii.eqb_spec c SP) as [->|]; [discriminate H|reflexivity].
Qed.

Lemma good_forall t : good_target t -> all_ascii t = true /\ nolf t = true /\ nosp t = true.
Proof.
  unfold good_target, all_ascii, nolf, nosp. induction t as [|c t IH]; cbn [forallb]; [auto|].
  intros H. apply andb_true_iff in H as [Hc Ht]. destruct (IH Ht) as (H1 & H2 & H3).
  destruct (vchar_facts c Hc) as (G1 & G2 & G3). rewrite H1, H2, H3, G1, G2, G3. auto.
Qed.

Lemma read_line_aux_nolf l r : forall acc p, nolf l = true ->
  read_line_aux acc p (l ++ CR :: LF :: r) = Some (frev (rev l ++ acc), r).
Proof.
  induction l as [|b l IH]; intros acc p H.
  - reflexivity.
  - cbn [nolf forallb] in H. apply andb_true_iff in H as [Hb Hl]. cbn [app read_line_aux].
    apply negb_true_iff in Hb. rewrite Hb. cbn [andb]. rewrite IH by exact Hl.
    cbn [rev]. now rewrite <- app_assoc.
Qed.

Lemma read_line_nolf l r : nolf l = true -> read_line (l ++ CRLF ++ r) = Some (l, r).
Proof.
  intros H. unfold read_line, CRLF. cbn [app]. rewrite read_line_aux_nolf by exact H.
  now rewrite app_nil_r, frev_rev, rev_involutive.
Qed.

Lemma trim_start_keep c x : is_ws c = false -> trim_start (c :: x) = c :: x.
Proof. intros H. cbn [trim_start]. now rewrite H. Qed.

Lemma trim_end_keep x c : is_ws c = false -> trim_end (x ++ [c]) = x ++ [c].
Proof.
  intros H. unfold trim_end. rewrite (frev_rev (x ++ [c])), rev_app_distr. cbn [rev app].
  rewrite trim_start_keep by exact H. rewrite frev_rev. cbn [rev]. now rewrite rev_involutive.
Qed.

Lemma split_on_aux_nosp a : forall cur b, nosp a = true ->
  split_on_aux SP cur (a ++ SP :: b) = frev (rev a ++ cur) :: split_on_aux SP [] b.
Proof.
  induction a as [|x a IH]; intros cur b H.
  - reflexivity.
  - cbn [nosp forallb] in H. apply andb_true_iff in H as [Hx Ha]. apply negb_true_iff in Hx.
    cbn [app split_on_aux]. rewrite Hx, IH by exact Ha. cbn [rev]. now rewrite <- app_assoc.
Qed.

Lemma split_on_aux_last a : forall cur, nosp a = true -> split_on_aux SP cur a = [frev (rev a ++ cur)].
Proof.
  induction a as [|x a IH]; intros cur H.
  - reflexivity.
  - cbn [nosp forallb] in H. apply andb_true_iff in H as [Hx Ha]. apply negb_true_iff in Hx.
    cbn [split_on_aux]. rewrite Hx, IH by exact Ha. cbn [rev]. now rewrite <- app_assoc.
Qed.

Lemma frev_rev_nil (a : bytes) : frev (rev a ++ []) = a.
Proof. now rewrite app_nil_r, frev_rev, rev_involutive. Qed.

Lemma sr_line_facts t : good_target t ->
  nolf (sr_line t) = true /\ all_ascii (sr_line t) = true /\
  parse_request_line (trim (sr_line t)) = Some (GETB, t, (1, 1)%N).
Proof.
  intros H. destruct (good_forall t H) as (H1 & H2 & H3). unfold sr_line. repeat split.
  - unfold nolf. rewrite !forallb_app. fold (nolf t). rewrite H2. reflexivity.
  - unfold all_ascii. rewrite !forallb_app. fold (all_ascii t). rewrite H1. reflexivity.
  - assert (Ht : trim (s "GET " ++ t ++ s " HTTP/1.1") = s "GET " ++ t ++ s " HTTP/1.1").
    { unfold trim. change (s "GET ") with ("G" :: s "ET "). cbn [app].
      rewrite trim_start_keep by reflexivity.
      change (s " HTTP/1.1") with (s " HTTP/1." ++ ["1"]).
      change ("G" :: s "ET " ++ t ++ s " HTTP/1." ++ ["1"]) with (("G" :: s "ET ") ++ t ++ s " HTTP/1." ++ ["1"]).
      rewrite !app_assoc. apply trim_end_keep. reflexivity. }
    rewrite Ht. unfold parse_request_line, split_on.
    change (s "GET " ++ t ++ s " HTTP/1.1") with (s "GET" ++ SP :: (t ++ SP :: s "HTTP/1.1")).
    rewrite split_on_aux_nosp by reflexivity. rewrite split_on_aux_nosp by exact H3.
    rewrite split_on_aux_last by reflexivity. rewrite !frev_rev_nil. reflexivity.
Qed.

Theorem sr_head t : good_target t -> read_head fixed (sr_bytes t) = HeadOk GETB t (1, 1)%N HOSTH [].
Proof.
  intros H. destruct (sr_line_facts t H) as (H1 & H2 & H3).
  unfold read_head, sr_bytes. rewrite read_line_nolf by exact H1. rewrite H2. cbn [negb]. rewrite H3.
  reflexivity.
Qed.

Lemma hosth_framing : framing fixed HOSTH = FrOk KEmpty None false.
Proof. reflexivity. Qed.
Lemma hosth_not_last : last_request (1, 1)%N HOSTH = false.
Proof. reflexivity. Qed.

(* ---- what the application sees and what the client receives for a list of targets ---- *)
Section Many.
Variables (date : bytes) (dflt : action).

Definition act_wire (a : action) : bytes := wire_empty date a GETB (1, 1)%N HOSTH false.
Definition act_ok (a : action) : bool := ok_empty date a GETB (1, 1)%N HOSTH false.
Definition act_delivered (a : action) (t : bytes) : delivered := d_empty a GETB t (1, 1)%N HOSTH None.

Fixpoint answers (script : list action) (ts : list bytes) : bytes :=
  match ts with
  | [] => []
  | _ :: ts' => act_wire (act_of script dflt) ++ answers (script_tl script) ts'
  end.
Fixpoint deliveries (script : list action) (ts : list bytes) : list delivered :=
  match ts with
  | [] => []
  | t :: ts' => act_delivered (act_of script dflt) t :: deliveries (script_tl script) ts'
  end.
Fixpoint all_ok (script : list action) (ts : list bytes) : bool :=
  match ts with
  | [] => true
  | _ :: ts' => act_ok (act_of script dflt) && all_ok (script_tl script) ts'
  end.

Definition pipeline (ts : list bytes) : bytes := List.concat (map sr_bytes ts).

(* x: what follows the complete requests; its head is incomplete (possibly x = []) *)
Lemma serve_loop_pipeline x : read_head fixed x = HeadEof -> forall ts, Forall good_target ts ->
  forall f script wire reqs al ok eof, (List.length (pipeline ts ++ x) < f)%nat ->
  serve_loop fixed date f script dflt (mkS (pipeline ts ++ x) eof) wire reqs al ok =
  mkO (frev reqs ++ deliveries script ts) (wire ++ answers script ts)
      (if eof then CClosed else COpen) al (ok && all_ok script ts).
Proof.
  intros Hx. induction ts as [|t ts IH]; intros Hg f script wire reqs al ok eof Hlen;
    (destruct f as [|f]; [lia|]).
  - rewrite serve_loop_S, step_head_eof by exact Hx. cbn [run_step seof deliveries answers all_ok].
    now rewrite !app_nil_r, andb_true_r.
  - inversion Hg as [|t0 ts0 Ht Hts]; subst. change (pipeline (t :: ts)) with (sr_bytes t ++ pipeline ts) in *.
    rewrite <- app_assoc in *.
    rewrite (empty_request_continues fixed date (sr_bytes t) GETB t (1, 1)%N HOSTH None false
               (sr_head t Ht) hosth_framing eq_refl
               script dflt _ eof f wire reqs al ok hosth_not_last).
    rewrite IH; [|exact Hts|unfold sr_bytes in Hlen; rewrite !app_length in Hlen; cbn [CRLF List.length] in Hlen; rewrite app_length; lia].
    rewrite frev_cons. cbn [deliveries answers all_ok]. unfold act_delivered, act_wire, act_ok.
    now rewrite <- !app_assoc, andb_assoc.
Qed.

(* the serve-level statement: every complete request is delivered and answered; half-close:
   then the server closes; no half-close: the connection stays open *)
Theorem pipeline_all_answered script ts eof : Forall good_target ts ->
  serve fixed date script dflt (pipeline ts) eof =
  mkO (deliveries script ts) (answers script ts) (if eof then CClosed else COpen) [] (all_ok script ts).
Proof.
  intros H. unfold serve. rewrite <- (app_nil_r (pipeline ts)).
  rewrite (serve_loop_pipeline [] eq_refl ts H) by lia. reflexivity.
Qed.

(* C15: the client disappears at ANY point inside the next request's head: the complete requests
   are delivered and answered, the incomplete one is not *)
Theorem pipeline_cut script ts t x y eof : Forall good_target ts -> good_target t ->
  sr_bytes t = x ++ y -> y <> [] ->
  serve fixed date script dflt (pipeline ts ++ x) eof =
  mkO (deliveries script ts) (answers script ts) (if eof then CClosed else COpen) [] (all_ok script ts).
Proof.
  intros H Ht Hxy Hy.
  assert (Hx : read_head fixed x = HeadEof).
  { apply (read_head_proper_prefix fixed x y GETB t (1, 1)%N HOSTH); [rewrite <- Hxy; apply sr_head, Ht|exact Hy]. }
  unfold serve. rewrite (serve_loop_pipeline x Hx ts H) by lia. reflexivity.
Qed.
End Many.
