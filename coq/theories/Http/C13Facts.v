(* Http/C13Facts.v — the segmentation-invariance statements of C13, derived from the
   "function of the logical stream" theorems of ReaderOpFacts / ReaderOpLimitedFacts / ReaderOpHeadFacts. *)
From TH Require Import Base.Bytes Base.BytesFacts Http.Response Http.Request Http.Body
                       Http.ReaderOp Http.ReaderOpFacts Http.ReaderOpLimitedFacts Http.ReaderOpHeadFacts
                       Http.ReaderOpChunkFacts Http.ReaderOpChunkLoopFacts Http.ReaderOpChunkModelFacts.
From Coq Require Import Lia.
Open Scope char_scope.

(* "the same bytes and the same end-of-stream flag, another segmentation / another buffering" *)
Definition same_stream (br1 br2 : bufreader) : Prop :=
  wf br1 /\ wf br2 /\ contents br1 = contents br2 /\ br_eof br1 = br_eof br2.

Lemma same_stream_refl br : wf br -> same_stream br br.
Proof. unfold same_stream. auto. Qed.

Lemma same_stream_br_init segs1 segs2 e :
  List.concat segs1 = List.concat segs2 -> same_stream (br_init segs1 e) (br_init segs2 e).
Proof.
  intros H. unfold same_stream. rewrite !contents_br_init, !br_eof_br_init.
  repeat split; auto using wf_br_init.
Qed.

Lemma same_stream_of_fn {R : Type} (op : bufreader -> R * bufreader) fn :
  (forall br, wf br -> exists br', op br = (fst (fn (contents br) (br_eof br)), br') /\
                                   lands br br' (snd (fn (contents br) (br_eof br)))) ->
  forall br1 br2, same_stream br1 br2 ->
  fst (op br1) = fst (op br2) /\ same_stream (snd (op br1)) (snd (op br2)).
Proof.
  intros H br1 br2 (W1 & W2 & Hc & He).
  destruct (fn_invariance op fn H br1 br2 W1 W2 Hc He) as (A & B & C & D & E).
  unfold same_stream. auto 10.
Qed.

Theorem read_line_invariant : forall br1 br2, same_stream br1 br2 ->
  fst (read_line_op br1) = fst (read_line_op br2) /\
  same_stream (snd (read_line_op br1)) (snd (read_line_op br2)).
Proof. exact (same_stream_of_fn read_line_op (line_fn [] false) read_line_op_fn). Qed.

Theorem read_line_pause_invariant : forall br acc p br1 segs, wf br ->
  Forall (fun g => g <> []) segs ->
  read_line_op br = (LBlock acc p, br1) ->
  exists br2,
    read_line_op_aux (br_fuel (br_feed segs br1)) acc p (br_feed segs br1)
      = (fst (read_line_op (br_feed segs br)), br2) /\
    same_stream br2 (snd (read_line_op (br_feed segs br))).
Proof.
  intros br acc p br1 segs Hwf Hsegs H.
  destruct (read_line_resume br acc p br1 segs Hwf Hsegs H) as (br2 & H2 & (L2 & V2 & E2)).
  destruct (read_line_op_fn (br_feed segs br) (wf_br_feed segs br Hwf Hsegs)) as (br3 & H3 & (L3 & V3 & E3)).
  exists br2. rewrite H3. cbn [fst snd]. change (br_eof (br_feed segs br)) with (br_eof br) in *.
  unfold same_stream. repeat split; auto; congruence.
Qed.

Theorem small_body_invariant : forall n br1 br2, same_stream br1 br2 ->
  fst (read_small_body_op n br1) = fst (read_small_body_op n br2) /\
  same_stream (snd (read_small_body_op n br1)) (snd (read_small_body_op n br2)).
Proof.
  intros n. exact (same_stream_of_fn (read_small_body_op n) (small_body_fn n []) (read_small_body_op_fn n)).
Qed.

Theorem limited_take_invariant : forall sz1 sz2 m rem br1 br2,
  same_stream br1 br2 -> (forall h, 0 < sz1 h) -> (forall h, 0 < sz2 h) ->
  exists acc1 acc2 en rem' br1' br2',
    limited_take sz1 m rem br1 = Some (acc1, en, rem', br1') /\
    limited_take sz2 m rem br2 = Some (acc2, en, rem', br2') /\
    pieces_bytes acc1 = pieces_bytes acc2 /\ same_stream br1' br2'.
Proof.
  intros sz1 sz2 m rem br1 br2 (W1 & W2 & Hc & He) Hs1 Hs2.
  destruct (limited_take_fn_spec sz1 m rem br1 W1 Hs1) as (a1 & b1 & R1 & P1 & (C1 & V1 & E1)).
  destruct (limited_take_fn_spec sz2 m rem br2 W2 Hs2) as (a2 & b2 & R2 & P2 & (C2 & V2 & E2)).
  cbn zeta in *. rewrite <- Hc, <- He in R2, P2, C2.
  exists a1, a2, (lt_end (limited_take_fn m rem (contents br1) (br_eof br1))),
         (lt_rem (limited_take_fn m rem (contents br1) (br_eof br1))), b1, b2.
  unfold same_stream. repeat split; auto; congruence.
Qed.

Theorem limited_discard_invariant : forall c rem br1 br2, same_stream br1 br2 ->
  exists br1' br2', limited_discard_op c (br_fuel br1) rem br1 = Some br1' /\
                    limited_discard_op c (br_fuel br2) rem br2 = Some br2' /\
                    same_stream br1' br2' /\ contents br1' = skipn (N.to_nat rem) (contents br1).
Proof.
  intros c rem br1 br2 (W1 & W2 & Hc & He).
  destruct (limited_discard_op_fn c _ rem br1 W1 (br_fuel_gt br1)) as (b1 & R1 & (C1 & V1 & E1)).
  destruct (limited_discard_op_fn c _ rem br2 W2 (br_fuel_gt br2)) as (b2 & R2 & (C2 & V2 & E2)).
  exists b1, b2. unfold same_stream. repeat split; auto; congruence.
Qed.

Theorem head_invariant : forall c br1 br2, same_stream br1 br2 ->
  fst (read_head_op c br1) = fst (read_head_op c br2) /\
  same_stream (snd (read_head_op c br1)) (snd (read_head_op c br2)).
Proof. intros c. exact (same_stream_of_fn (read_head_op c) (head_fn c) (read_head_op_fn c)). Qed.

Theorem small_request_invariant : forall c br1 br2, same_stream br1 br2 ->
  fst (read_small_request_op c br1) = fst (read_small_request_op c br2) /\
  same_stream (snd (read_small_request_op c br1)) (snd (read_small_request_op c br2)).
Proof.
  intros c. exact (same_stream_of_fn (read_small_request_op c) (small_request_fn c) (read_small_request_op_fn c)).
Qed.

(* the whole sequence of requests; the fuel (which counts segments too) never shows *)
Theorem requests_invariant : forall c br1 br2, same_stream br1 br2 ->
  fst (read_requests c br1) = fst (read_requests c br2) /\
  same_stream (snd (read_requests c br1)) (snd (read_requests c br2)) /\
  ~ In RqFuel (fst (read_requests c br1)).
Proof.
  intros c br1 br2 Hs.
  destruct (same_stream_of_fn (read_requests c)
              (fun x e => requests_fn c (S (List.length x)) x e) (read_requests_fn c) br1 br2 Hs) as (A & B).
  split; [exact A|]. split; [exact B|]. destruct Hs as (W1 & _).
  destruct (read_requests_fn c br1 W1) as (b & R & _). rewrite R. cbn [fst].
  apply requests_fn_no_fuel. lia.
Qed.

(* the chunked reader: whenever the loop is determinate on the logical stream (not DFTorn) *)
Theorem dec_take_invariant : forall sz1 sz2 m rem br1 br2 F,
  same_stream br1 br2 -> (forall h, 0 < sz1 h) -> (forall h, 0 < sz2 h) -> rem <> Some 0%N ->
  dec_fn (S (List.length (contents br1))) m rem (contents br1) (br_eof br1) = DFOk F ->
  exists acc1 acc2 br1' br2',
    dec_take sz1 m rem br1 = Some (acc1, dt_end F, dt_rem F, br1') /\
    dec_take sz2 m rem br2 = Some (acc2, dt_end F, dt_rem F, br2') /\
    pieces_bytes acc1 = dt_got F /\ pieces_bytes acc2 = dt_got F /\ same_stream br1' br2'.
Proof.
  intros sz1 sz2 m rem br1 br2 F (W1 & W2 & Hc & He) Hs1 Hs2 Hrem H.
  destruct (dec_take_fn_spec sz1 m rem br1 _ F W1 Hs1 Hrem H) as (a1 & b1 & R1 & P1 & (C1 & V1 & E1)).
  rewrite Hc, He in H.
  destruct (dec_take_fn_spec sz2 m rem br2 _ F W2 Hs2 Hrem H) as (a2 & b2 & R2 & P2 & (C2 & V2 & E2)).
  exists a1, a2, b1, b2. unfold same_stream. repeat split; auto; congruence.
Qed.

(* dec_fn is DFOk or DFTorn, never out of fuel *)
Theorem dec_fn_determinate_or_torn : forall m rem x e, rem <> Some 0%N ->
  (exists F, dec_fn (S (List.length x)) m rem x e = DFOk F) \/ dec_fn (S (List.length x)) m rem x e = DFTorn.
Proof.
  intros m rem x e Hrem. pose proof (dec_fn_no_fuel (S (List.length x)) m rem x e Hrem ltac:(lia)) as H.
  destruct (dec_fn (S (List.length x)) m rem x e) as [F| |]; [left; eauto|right; reflexivity|congruence].
Qed.
