(* Http/Request.v — model of the request side: the CRLF line reader and head parser of
   src/client.rs, Header/HeaderField/Method parsing of src/common.rs, and the framing decision of
   request::new_request (src/request.rs:143-227). Pure functions of the logical byte stream;
   the operational reader (BufReader, segments) and its bridge lemmas are in Http/ReaderOp.v.
   MODEL file: definitions only. *)
From TH Require Import Base.Bytes Http.Response.
Open Scope char_scope.

(* which of the repairs D4/D5/D8/D9 (DESIGN §7) the modelled tree contains; `fixed` is the
   repaired tree the property theorems are about, `asfound` the pinned tree *)
Record cfg := mkCfg { fix_d4 : bool; fix_d5 : bool; fix_d6 : bool; fix_d8 : bool; fix_d9 : bool }.
Definition fixed : cfg := mkCfg true true true true true.
Definition asfound : cfg := mkCfg false false false false false.

(* ClientConnection::read_next_line (client.rs:80-102): bytes up to the first LF that directly
   follows a CR; the CR is removed; None = the stream ended first. acc is reversed. *)
Fixpoint read_line_aux (acc : bytes) (prev_cr : bool) (x : bytes) : option (bytes * bytes) :=
  match x with
  | [] => None
  | b :: t => if Ascii.eqb b LF && prev_cr then Some (frev (tl acc), t)
              else read_line_aux (b :: acc) (Ascii.eqb b CR) t
  end.
Definition read_line (x : bytes) : option (bytes * bytes) := read_line_aux [] false x.

Definition all_ascii (x : bytes) : bool := forallb is_ascii x.

(* parse_http_version (client.rs:269-280) *)
Definition parse_version (v : bytes) : option version :=
  if beq v (s "HTTP/0.9") then Some (0, 9)%N
  else if beq v (s "HTTP/1.0") then Some (1, 0)%N
  else if beq v (s "HTTP/1.1") then Some (1, 1)%N
  else if beq v (s "HTTP/2.0") then Some (2, 0)%N
  else if beq v (s "HTTP/3.0") then Some (3, 0)%N
  else None.

(* parse_request_line (client.rs:284-294) applied to the trimmed line; the method is kept as its
   token (Method::from_str followed by Method::as_str is the identity on ASCII tokens) *)
Definition parse_request_line (line : bytes) : option (bytes * bytes * version) :=
  match split_on SP line with
  | m :: p :: v :: _ => match parse_version v with
                        | Some ver => Some (m, p, ver)
                        | None => None
                        end
  | _ => None
  end.

(* Header::from_str (common.rs:181-195) with HeaderField::from_str (226-236) *)
Definition parse_header (line : bytes) : option header :=
  match split_first ":" line with
  | (n, Some v) => if existsb is_ws n then None else Some (mkH n (trim v))
  | (_, None) => None
  end.

Inductive head_result :=
| HeadOk (m url : bytes) (ver : version) (hs : list header) (rest : bytes)
| HeadEof                          (* the stream ended inside the head: ReadIoError *)
| HeadNonAscii                     (* InvalidInput: ReadIoError *)
| HeadBadLine                      (* WrongRequestLine *)
| HeadBadHeader (ver : version).   (* WrongHeader(version) *)

(* the header loop of ClientConnection::read (client.rs:118-134); fuel bounds the number of lines *)
Fixpoint read_headers (c : cfg) (fuel : nat) (ver : version) (acc : list header) (x : bytes)
  : head_result + (list header * bytes) :=
  match fuel with
  | O => inl HeadEof
  | S f =>
      match read_line x with
      | None => inl HeadEof
      | Some (l, rest) =>
          if negb (all_ascii l) then inl HeadNonAscii else
          match l with
          | [] => inr (frev acc, rest)
          | _ => match parse_header (if fix_d8 c then trim_end l else trim l) with
                 | Some h => read_headers c f ver (h :: acc) rest
                 | None => inl (HeadBadHeader ver)
                 end
          end
      end
  end.

(* ClientConnection::read up to the construction of the request (client.rs:106-137) *)
Definition read_head (c : cfg) (x : bytes) : head_result :=
  match read_line x with
  | None => HeadEof
  | Some (l, rest) =>
      if negb (all_ascii l) then HeadNonAscii else
      match parse_request_line (trim l) with
      | None => HeadBadLine
      | Some (m, url, ver) =>
          match read_headers c (S (List.length rest)) ver [] rest with
          | inl e => e
          | inr (hs, rest') => HeadOk m url ver hs rest'
          end
      end
  end.

(* ---- framing (request.rs:143-227) ---- *)
Inductive body_kind :=
| KUpgrade                 (* the whole rest of the connection *)
| KEmpty
| KBuffered (n : N)        (* 0 < n <= 1024, read before the request is delivered *)
| KLimited (n : N)         (* EqualReader *)
| KChunked.                (* chunked_transfer::Decoder *)

Inductive framing_result :=
| FrOk (k : body_kind) (body_length : option N) (expects_continue : bool)
| FrExpectationFailed
| FrBadContentLength.      (* only with repair D9 *)

Definition header_value (n : string) (hs : list header) : option bytes :=
  option_map hvalue (find_header n hs).

Definition framing (c : cfg) (hs : list header) : framing_result :=
  let te := header_value "Transfer-Encoding" hs in
  let cl_raw := header_value "Content-Length" hs in
  (* D9: the value must be a non-empty string of digits that fits usize, else 400 *)
  let cl_checked : option (option N) :=
    match cl_raw with
    | None => Some None
    | Some v => if fix_d9 c then
                  match v with
                  | [] => None
                  | _ => if forallb is_digit v then
                           match parse_dec v with Some n => Some (Some n) | None => None end
                         else None
                  end
                else Some (parse_usize v)
    end in
  match cl_checked with
  | None => FrBadContentLength
  | Some cl0 =>
      let cl := match te with Some _ => None | None => cl0 end in
      match (match header_value "Expect" hs with
             | None => Some false
             | Some v => if eq_ci v (s "100-continue") then Some true else None
             end) with
      | None => FrExpectationFailed
      | Some expects =>
          let upgrade := match header_value "Connection" hs with
                         | Some v => contains_sub (s "upgrade") (lower v)
                         | None => false
                         end in
          let kind :=
            if upgrade then KUpgrade
            else match cl with
                 | Some n => if (n =? 0)%N then KEmpty
                             else if (n <=? 1024)%N && negb expects then KBuffered n
                             else KLimited n
                 | None => match te with Some _ => KChunked | None => KEmpty end
                 end in
          FrOk kind cl expects
      end
  end.

(* the keep-alive decision of ClientConnection::next (client.rs:241-260): true = this request is
   the last one on the connection *)
Definition last_request (ver : version) (hs : list header) : bool :=
  match header_value "Connection" hs with
  | Some v =>
      let l := lower v in
      if contains_sub (s "close") l then true
      else if contains_sub (s "upgrade") l then true
      else negb (contains_sub (s "keep-alive") l) && ver_eq ver (1, 0)%N
  | None => ver_eq ver (1, 0)%N
  end.
