(* Http/ChunkedReader.v — the chunked body reader (FusedReader(DrainOnDrop(Decoder))) on ARBITRARY
   well-formed chunkings: one-read specification of the decoder, then the instance of the generic
   argument of BodyFacts.v (C03: exactly the concatenated payloads, end-of-stream exactly after the
   last chunk; C09: drop drains exactly to the first byte after the body). *)
From TH Require Import Base.Bytes Base.BytesFacts Http.Response Http.Request Http.Body.
From TH Require Import Http.BodyFacts Http.ChunkedFacts.
From Coq Require Import Lia ZArith ZifyN ZifyBool ZifyNat.
Open Scope char_scope.

(* a chunk as sent: its size line (without CRLF) and its non-empty payload *)
Definition chunk := (bytes * bytes)%type.
Definition chunk_ok (c : chunk) : Prop := size_line_ok (fst c) (len (snd c)) /\ snd c <> [].
(* the body on the wire: the chunks, the last-chunk line `last` (any accepted line announcing 0),
   the closing CRLF (no trailers), then whatever follows on the connection *)
Fixpoint enc (chs : list chunk) (last tail : bytes) : bytes :=
  match chs with
  | [] => last ++ CRLF ++ CRLF ++ tail
  | c :: t => fst c ++ CRLF ++ snd c ++ CRLF ++ enc t last tail
  end.
(* the body it designates *)
Definition payload (chs : list chunk) : bytes := List.concat (map snd chs).

(* the inner function of Decoder::read, standing alone *)
Definition dgo (n : nat) (rem : option N) (r : N) (st0 : stream) : rres * option N * stream :=
  if (N.of_nat n <? r)%N then
    match src_read n st0 with
    | (RData d, st1) => (RData d, Some (r - len d)%N, st1)
    | (REof, st1) => (REof, Some r, st1)
    | (x, st1) => (x, Some r, st1)
    end
  else
    match src_read (N.to_nat r) st0 with
    | (RData d, st1) =>
        if (len d =? r)%N then
          match read_crlf st1 with
          | (DOk _, st2) => (RData d, None, st2)
          | (DErr, st2) => (RErr, rem, st2)
          | (DBlock, st2) => (RBlock, rem, st2)
          end
        else (RData d, Some (r - len d)%N, st1)
    | (REof, st1) => (REof, Some r, st1)
    | (x, st1) => (x, Some r, st1)
    end.
Lemma dec_read_some n r st : dec_read n (Some r) st = dgo n (Some r) r st.
Proof. reflexivity. Qed.
Lemma dec_read_none n st : dec_read n None st =
  match read_chunk_size st with
  | (DOk sz, st1) =>
      if (sz =? 0)%N then
        match read_crlf st1 with
        | (DOk _, st2) => (REof, None, st2)
        | (DErr, st2) => (RErr, None, st2)
        | (DBlock, st2) => (RBlock, None, st2)
        end
      else dgo n None sz st1
  | (DErr, st1) => (RErr, None, st1)
  | (DBlock, st1) => (RBlock, None, st1)
  end.
Proof. reflexivity. Qed.

Lemma payload_le_enc chs last tail : (List.length (payload chs) <= List.length (enc chs last tail))%nat.
Proof.
  induction chs as [|c t IH]; [cbn; lia|]. unfold payload in *. cbn [map List.concat enc].
  rewrite !app_length. lia.
Qed.

Section Chunked.
Variables last tail : bytes.

(* the decoder state against what is left of the wire and of the body: inside a chunk (cur = the
   unread part of its payload) or between chunks *)
Inductive rel : option N -> bytes -> bytes -> Prop :=
| RIn cur chs : cur <> [] -> Forall chunk_ok chs ->
    rel (Some (len cur)) (cur ++ CRLF ++ enc chs last tail) (cur ++ payload chs)
| ROut chs : Forall chunk_ok chs -> rel None (enc chs last tail) (payload chs).

Lemma rel_length rem x body : rel rem x body -> (List.length body <= List.length x)%nat.
Proof.
  intros [cur chs _ _|chs _]; [|apply payload_le_enc].
  rewrite !app_length. pose proof (payload_le_enc chs last tail). lia.
Qed.

Lemma dgo_spec n rem cur chs e : (0 < n)%nat -> cur <> [] -> Forall chunk_ok chs ->
  exists d rem' x' body',
    dgo n rem (len cur) (mkS (cur ++ CRLF ++ enc chs last tail) e) = (RData d, rem', mkS x' e) /\
    d <> [] /\ (List.length d <= n)%nat /\ cur ++ payload chs = d ++ body' /\ rel rem' x' body'.
Proof.
  intros Hn Hc Hch. pose proof (length_pos _ Hc) as Hl. unfold dgo.
  assert (Hne : sbytes (mkS (cur ++ CRLF ++ enc chs last tail) e) <> []) by (cbn [sbytes]; destruct cur; [congruence|discriminate]).
  destruct (N.ltb_spec (N.of_nat n) (len cur)) as [Hlt|Hge].
  - unfold len in Hlt. rewrite src_read_data by auto. cbn [sbytes seof].
    rewrite firstn_app_le, skipn_app_le by lia.
    exists (firstn n cur), (Some (len cur - len (firstn n cur))%N), (skipn n cur ++ CRLF ++ enc chs last tail), (skipn n cur ++ payload chs).
    repeat split.
    + apply length_pos_ne. rewrite firstn_length. lia.
    + rewrite firstn_length. lia.
    + now rewrite app_assoc, firstn_skipn.
    + replace (len cur - len (firstn n cur))%N with (len (skipn n cur))
        by (unfold len; rewrite firstn_length, skipn_length; lia).
      constructor; [|exact Hch]. apply length_pos_ne. rewrite skipn_length. lia.
  - replace (N.to_nat (len cur)) with (List.length cur) by (unfold len; lia).
    rewrite src_read_data by auto. cbn [sbytes seof].
    rewrite firstn_app_le, skipn_app_le by lia. rewrite firstn_all, skipn_all. cbn [app].
    rewrite N.eqb_refl. rewrite read_crlf_ok.
    exists cur, None, (enc chs last tail), (payload chs). unfold len in Hge. repeat split; auto; try lia.
    constructor. exact Hch.
Qed.

Hypothesis last_ok : size_line_ok last 0.

(* one read of the decoder with a non-empty buffer: a non-empty piece that is the next part of
   the body, or — only when no chunk is left — end-of-stream with the connection exactly at tail *)
Theorem dec_read_spec n rem x body e : rel rem x body -> (0 < n)%nat ->
  (exists d rem' x' body', dec_read n rem (mkS x e) = (RData d, rem', mkS x' e) /\
       d <> [] /\ (List.length d <= n)%nat /\ body = d ++ body' /\ rel rem' x' body')
  \/ (body = [] /\ dec_read n rem (mkS x e) = (REof, None, mkS tail e)).
Proof.
  intros HR Hn. destruct HR as [cur chs Hc Hch|chs Hch].
  - left. rewrite dec_read_some. apply dgo_spec; auto.
  - rewrite dec_read_none. destruct chs as [|[sl p] chs].
    + right. split; [reflexivity|]. cbn [enc]. rewrite (read_chunk_size_ok last 0) by exact last_ok.
      rewrite N.eqb_refl. now rewrite read_crlf_ok.
    + left. inversion Hch as [|? ? [Hsl Hp] Hch']; subst. cbn [fst snd] in Hsl, Hp.
      cbn [enc fst snd]. rewrite (read_chunk_size_ok sl (len p)) by exact Hsl.
      destruct (N.eqb_spec (len p) 0) as [H0|_].
      { destruct p; [congruence|unfold len in H0; cbn [List.length] in H0; lia]. }
      unfold payload. cbn [map List.concat snd]. apply dgo_spec; auto.
Qed.

(* the drain loop of repair D4 reads exactly to the end of the body; fuel |body|+1 is enough *)
Lemma drain_spec : forall fuel body rem x e, rel rem x body -> (List.length body < fuel)%nat ->
  drain_chunked fuel rem (mkS x e) = mkS tail e.
Proof.
  induction fuel as [|f IH]; intros body rem x e HR Hf; [lia|]. cbn [drain_chunked].
  destruct (dec_read_spec 1024 rem x body e HR ltac:(lia)) as [(d & rem' & x' & body' & E & Hd & _ & Hb & HR')|[Hb E]].
  - rewrite E. apply (IH body'); auto. apply length_pos in Hd. subst body. rewrite app_length in Hf. lia.
  - rewrite E. reflexivity.
Qed.

(* ---- the reader a request owns ---- *)
Definition ch_inv (rest : bytes) (r : breader) (st : stream) : Prop :=
  (exists rem, r = BChunked rem false /\ rel rem (sbytes st) rest) \/
  (rest = [] /\ r = BEmpty /\ sbytes st = tail).

Lemma ch_step : step_spec tail ch_inv.
Proof.
  intros n rest r st al Hn [(rem & -> & HR)|(-> & -> & Hs)].
  - destruct st as [x e]. cbn [sbytes] in HR. cbn [body_read].
    destruct (dec_read_spec n rem x rest e HR Hn) as [(d & rem' & x' & body' & E & Hd & Hl & Hb & HR')|[Hb E]].
    + left. rewrite E. exists d, body', (BChunked rem' false), (mkS x' e). repeat split; auto.
      left. exists rem'. split; [reflexivity|exact HR'].
    + right. split; [exact Hb|]. rewrite E. exists BEmpty, (mkS tail e). repeat split; auto using stable_empty.
      right. auto.
  - right. split; [reflexivity|]. exists BEmpty, st. cbn [body_read]. repeat split; auto using stable_empty. right; auto.
Qed.

Lemma ch_drop : drop_spec tail ch_inv.
Proof.
  intros rest r st al [(rem & -> & HR)|(-> & -> & Hs)]; [|exact Hs].
  cbn [body_drop fix_d4 fixed negb andb fst]. destruct st as [x e]. cbn [sbytes] in *.
  rewrite (drain_spec _ rest rem x e HR); [reflexivity|]. apply rel_length in HR. lia.
Qed.

Lemma ch_inv_init chs e : Forall chunk_ok chs ->
  ch_inv (payload chs) (BChunked None false) (mkS (enc chs last tail) e).
Proof. intros H. left. exists None. split; [reflexivity|]. constructor. exact H. Qed.
End Chunked.

(* the fuel handed to `take` by the handler loop of Serve.v (|pending bytes|+1) exceeds |body| *)
Lemma chunked_take_fuel chs last tail :
  (List.length (payload chs) < S (List.length (enc chs last tail) + 0))%nat.
Proof. pose proof (payload_le_enc chs last tail). lia. Qed.
