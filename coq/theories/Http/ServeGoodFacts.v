(* Http/ServeGoodFacts.v — the connection loop across requests that have no body: what it does with
   one such request, and with a run of them followed by anything (used to place a refused head at
   any position on the connection). *)
From TH Require Import Base.Bytes Base.BytesFacts Http.Response Http.Request Http.Body Http.Serve
                       Http.LineFacts Http.HeadFacts Http.FramingFacts Http.ServeRefuseFacts.
From Coq Require Import Lia ZArith ZifyN ZifyBool ZifyNat.
Open Scope char_scope.

Lemma take_empty c fuel m n st al acc :
  take c (S fuel) m n BEmpty st al acc = (acc, if (m =? 0)%N then EndCount else EndEof, BEmpty, st, al).
Proof.
  cbn [take]. destruct (m =? 0)%N; [reflexivity|].
  unfold body_read_any. destruct (N.to_nat (N.min m (N.of_nat n))); reflexivity.
Qed.

Lemma do_reads_empty c st al acc : forall rs e0, e0 <> EndBlock ->
  exists e, do_reads c rs BEmpty st al acc e0 = (acc, e, BEmpty, st, al) /\ e <> EndBlock.
Proof.
  induction rs as [|[m n] rs IH]; intros e0 H0; cbn [do_reads].
  - exists e0. auto.
  - rewrite take_empty. destruct (m =? 0)%N.
    + apply IH. discriminate.
    + exists EndEof. split; [reflexivity|discriminate].
Qed.

Lemma step_good_no_body c date f script dflt st wire reqs al ok m url ver hs rest bl ex :
  read_head c (sbytes st) = HeadOk m url ver hs rest -> framing c hs = FrOk KEmpty bl ex ->
  ver_gt_11 ver = false -> last_request ver hs = false ->
  exists w d ok',
    d_method d = m /\ d_url d = url /\ d_ver d = ver /\ d_headers d = hs /\
    serve_loop c date (S f) script dflt st wire reqs al ok
    = serve_loop c date f (tl script) dflt (mkS rest (seof st)) (wire ++ w) (d :: reqs) al ok'.
Proof.
  intros H F V L. cbn [serve_loop]. rewrite H, F, V.
  set (act := match script with a :: _ => a | [] => dflt end).
  set (st1 := mkS rest (seof st)).
  assert (R : exists e,
             match a_reads act with
             | [] => ([], EndCount, BEmpty, st1, al)
             | p :: l => do_reads c (p :: l) BEmpty st1 al [] EndCount
             end = ([], e, BEmpty, st1, al) /\ e <> EndBlock).
  { destruct (a_reads act) as [|p l]; [exists EndCount; split; [reflexivity|discriminate]|].
    apply do_reads_empty. discriminate. }
  destruct R as (e & R & NE).
  set (W := match a_reads act with [] => _ | _ :: _ => if ex then _ else _ end).
  clearbody W. destruct W as [w100 m100]. rewrite R.
  destruct (a_finish act) as [code body declared| |data|proto].
  - destruct (render date _ ver hs (is_head m) None) as [b mo]. cbn [body_drop].
    refine (ex_intro _ _ (ex_intro _ (mkD m url ver hs bl _ _) (ex_intro _ _ _))).
    destruct e; try congruence; rewrite L; repeat split; reflexivity.
  - destruct (render date _ ver hs (is_head m) None) as [b mo]. cbn [body_drop].
    refine (ex_intro _ _ (ex_intro _ (mkD m url ver hs bl _ _) (ex_intro _ _ _))).
    destruct e; try congruence; rewrite L; repeat split; reflexivity.
  - cbn [body_drop].
    refine (ex_intro _ _ (ex_intro _ (mkD m url ver hs bl _ _) (ex_intro _ _ _))).
    destruct e; try congruence; rewrite L; repeat split; reflexivity.
  - destruct (render date _ ver hs false (Some proto)) as [b mo].
    destruct (do_reads_empty c st1 al [] [(ALL, 4096%nat)] EndCount) as (e' & R' & NE'); [discriminate|].
    rewrite R'. cbn [body_drop].
    refine (ex_intro _ _ (ex_intro _ (mkD m url ver hs bl _ _) (ex_intro _ _ _))).
    destruct e'; try congruence; rewrite L; repeat split; reflexivity.
Qed.

(* ---- a run of well-formed requests without a body that keep the connection alive ---- *)
Definition quiet (r : req_head) : bool :=
  wf_head r
  && match framing fixed (map field_header (rq_headers r)) with FrOk KEmpty _ _ => true | _ => false end
  && negb (last_request (rq_version r) (map field_header (rq_headers r))).
Definition quiet_run (goods : list (req_head * list (bytes * bytes))) : bool :=
  forallb (fun g => quiet (fst g) && wf_ows (snd g)) goods.
Definition render_run (goods : list (req_head * list (bytes * bytes))) : bytes :=
  List.concat (map (fun g => render_req_head (fst g) (snd g)) goods).
(* d is request r as the application sees it *)
Definition delivered_as (r : req_head) (d : delivered) : Prop :=
  d_method d = rq_method r /\ d_url d = rq_target r /\ d_ver d = rq_version r /\
  d_headers d = map field_header (rq_headers r).

Lemma wf_version_le_11 v : wf_version v = true -> ver_gt_11 v = false.
Proof. intros H. apply wf_version_cases in H as [->|[->| ->]]; reflexivity. Qed.

Lemma skipn_S_tl {A} n (l : list A) : skipn (S n) l = skipn n (tl l).
Proof. destruct l; [destruct n; reflexivity|reflexivity]. Qed.

Lemma run_quiet date dflt eof x goods : forall f script wire reqs al ok,
  quiet_run goods = true ->
  exists w ds ok', Forall2 delivered_as (map fst goods) ds /\
    serve_loop fixed date (List.length goods + f) script dflt (mkS (render_run goods ++ x) eof) wire reqs al ok
    = serve_loop fixed date f (skipn (List.length goods) script) dflt (mkS x eof) (wire ++ w) (rev ds ++ reqs) al ok'.
Proof.
  induction goods as [|[r o] goods IH]; intros f script wire reqs al ok Q.
  - exists [], [], ok. split; [constructor|]. cbn [List.length plus skipn render_run map List.concat app rev].
    now rewrite app_nil_r.
  - cbn [quiet_run forallb fst snd] in Q. apply andb_true_iff in Q as [Qr Q]. apply andb_true_iff in Qr as [Qr Qo].
    unfold quiet in Qr. apply andb_true_iff in Qr as [Qr Ql]. apply andb_true_iff in Qr as [Qw Qf].
    apply negb_true_iff in Ql.
    destruct (framing fixed (map field_header (rq_headers r))) as [k bl ex| |] eqn:F; try discriminate.
    destruct k; try discriminate.
    assert (V : ver_gt_11 (rq_version r) = false).
    { apply wf_version_le_11. unfold wf_head in Qw. apply andb_true_iff in Qw as [Qw _].
      now apply andb_true_iff in Qw as [_ Qw]. }
    unfold render_run. cbn [map List.concat fst snd]. fold (render_run goods). rewrite <- app_assoc.
    cbn [List.length plus].
    pose proof (head_roundtrip r o (render_run goods ++ x) Qw Qo) as H.
    destruct (step_good_no_body fixed date (List.length goods + f) script dflt
                (mkS (render_req_head r o ++ render_run goods ++ x) eof) wire reqs al ok
                _ _ _ _ _ bl ex H F V Ql) as (w & d & ok1 & D1 & D2 & D3 & D4 & E).
    rewrite E. cbn [seof].
    destruct (IH f (tl script) (wire ++ w) (d :: reqs) al ok1 Q) as (w' & ds & ok' & FA & E').
    exists (w ++ w'), (d :: ds), ok'. split.
    + cbn [map fst]. constructor; [|exact FA]. unfold delivered_as. auto.
    + rewrite E', skipn_S_tl. cbn [rev]. now rewrite <- !app_assoc.
Qed.

Lemma render_req_head_length r o : (1 <= List.length (render_req_head r o))%nat.
Proof.
  unfold render_req_head. rewrite app_length. cbn [List.length]. lia.
Qed.

Lemma render_run_length goods : (List.length goods <= List.length (render_run goods))%nat.
Proof.
  induction goods as [|g goods IH]; [cbn; lia|]. unfold render_run in *. cbn [map List.concat List.length].
  rewrite app_length. pose proof (render_req_head_length (fst g) (snd g)). lia.
Qed.

(* the whole connection: after the run the loop stands, with fuel left, at the bytes that follow *)
Lemma serve_after_run date script dflt eof x goods : quiet_run goods = true ->
  exists f w ds ok', (List.length x <= f)%nat /\ Forall2 delivered_as (map fst goods) ds /\
    serve fixed date script dflt (render_run goods ++ x) eof
    = serve_loop fixed date (S f) (skipn (List.length goods) script) dflt (mkS x eof) w (rev ds) [] ok'.
Proof.
  intros Q. pose proof (render_run_length goods) as L.
  destruct (run_quiet date dflt eof x goods
              (S (List.length (render_run goods) - List.length goods + List.length x)) script [] [] [] true Q)
    as (w & ds & ok' & FA & E).
  exists (List.length (render_run goods) - List.length goods + List.length x)%nat, w, ds, ok'.
  split; [lia|]. split; [exact FA|]. unfold serve. rewrite app_length.
  replace (S (List.length (render_run goods) + List.length x))
    with (List.length goods + S (List.length (render_run goods) - List.length goods + List.length x))%nat by lia.
  rewrite E. now rewrite app_nil_r.
Qed.

Lemma frev_rev_id {A} (l : list A) : frev (rev l) = l.
Proof. now rewrite frev_rev, rev_involutive. Qed.

(* a head that is answered with 400: a refused header line or a refused Content-Length *)
Definition refused_400 (x : bytes) (ver : version) : Prop :=
  read_head fixed x = HeadBadHeader ver \/
  exists m u hs rest, read_head fixed x = HeadOk m u ver hs rest /\ framing fixed hs = FrBadContentLength.

Theorem serve_run_then_400 date script dflt eof goods x ver :
  quiet_run goods = true -> refused_400 x ver ->
  exists w ds ok', Forall2 delivered_as (map fst goods) ds /\
    serve fixed date script dflt (render_run goods ++ x) eof
    = mkO ds (w ++ error_bytes date 400 ver false) CClosed [] ok'.
Proof.
  intros Q R. destruct (serve_after_run date script dflt eof x goods Q) as (f & w & ds & ok' & _ & FA & E).
  exists w, ds, ok'. split; [exact FA|]. rewrite E. destruct R as [R|(m & u & hs & rest & R & F)].
  - rewrite (step_bad_header fixed date f _ dflt (mkS x eof) w (rev ds) [] ok' ver R). now rewrite frev_rev_id.
  - rewrite (step_bad_content_length fixed date f _ dflt (mkS x eof) w (rev ds) [] ok' m u ver hs rest R F).
    now rewrite frev_rev_id.
Qed.

Theorem serve_run_then_bad_line date script dflt eof goods x :
  quiet_run goods = true -> read_head fixed x = HeadBadLine ->
  exists w ds ok', Forall2 delivered_as (map fst goods) ds /\
    serve fixed date script dflt (render_run goods ++ x) eof
    = mkO ds (w ++ error_bytes date 400 (1, 1)%N false) CClosed [] ok'.
Proof.
  intros Q R. destruct (serve_after_run date script dflt eof x goods Q) as (f & w & ds & ok' & _ & FA & E).
  exists w, ds, ok'. split; [exact FA|]. rewrite E.
  rewrite (step_bad_line fixed date f _ dflt (mkS x eof) w (rev ds) [] ok' R). now rewrite frev_rev_id.
Qed.

Theorem serve_run_then_non_ascii date script dflt eof goods x :
  quiet_run goods = true -> read_head fixed x = HeadNonAscii ->
  exists w ds ok', Forall2 delivered_as (map fst goods) ds /\
    serve fixed date script dflt (render_run goods ++ x) eof = mkO ds w CClosed [] ok'.
Proof.
  intros Q R. destruct (serve_after_run date script dflt eof x goods Q) as (f & w & ds & ok' & _ & FA & E).
  exists w, ds, ok'. split; [exact FA|]. rewrite E.
  rewrite (step_non_ascii fixed date f _ dflt (mkS x eof) w (rev ds) [] ok' R). now rewrite frev_rev_id.
Qed.

Theorem serve_run_then_417 date script dflt eof goods x m u ver hs rest :
  quiet_run goods = true ->
  read_head fixed x = HeadOk m u ver hs rest -> framing fixed hs = FrExpectationFailed ->
  exists w ds ok', Forall2 delivered_as (map fst goods) ds /\
    serve fixed date script dflt (render_run goods ++ x) eof
    = mkO ds (w ++ error_bytes date 417 ver true) CClosed [] ok'.
Proof.
  intros Q R F. destruct (serve_after_run date script dflt eof x goods Q) as (f & w & ds & ok' & _ & FA & E).
  exists w, ds, ok'. split; [exact FA|]. rewrite E.
  rewrite (step_expectation_failed fixed date f _ dflt (mkS x eof) w (rev ds) [] ok' m u ver hs rest R F).
  now rewrite frev_rev_id.
Qed.

(* 505 at any position: nothing is delivered for it and the loop goes on, with fuel left, at the
   bytes after the refused (bodiless) request *)
Theorem serve_run_then_505 date script dflt eof goods x m u ver hs rest bl ex :
  quiet_run goods = true ->
  read_head fixed x = HeadOk m u ver hs rest -> framing fixed hs = FrOk KEmpty bl ex -> ver_gt_11 ver = true ->
  exists f w ds ok', (List.length rest <= f)%nat /\ Forall2 delivered_as (map fst goods) ds /\
    serve fixed date script dflt (render_run goods ++ x) eof
    = serve_loop fixed date f (skipn (List.length goods) script) dflt (mkS rest eof)
                 (w ++ bytes_505 date) (rev ds) [] ok'.
Proof.
  intros Q R F V. destruct (serve_after_run date script dflt eof x goods Q) as (f & w & ds & ok' & Lf & FA & E).
  exists f, w, ds, ok'. split; [|split; [exact FA|]].
  - apply read_head_length in R. lia.
  - rewrite E.
    now rewrite (step_505_no_body date f _ dflt (mkS x eof) w (rev ds) [] ok' m u ver hs rest bl ex R F V).
Qed.

(* the run alone: each request is delivered as it was sent, in order, and nothing else *)
Theorem serve_run_then_eof date script dflt eof goods x :
  quiet_run goods = true -> read_head fixed x = HeadEof ->
  exists w ds ok', Forall2 delivered_as (map fst goods) ds /\
    serve fixed date script dflt (render_run goods ++ x) eof
    = mkO ds w (if eof then CClosed else COpen) [] ok'.
Proof.
  intros Q R. destruct (serve_after_run date script dflt eof x goods Q) as (f & w & ds & ok' & _ & FA & E).
  exists w, ds, ok'. split; [exact FA|]. rewrite E.
  rewrite (step_eof fixed date f _ dflt (mkS x eof) w (rev ds) [] ok' R). now rewrite frev_rev_id.
Qed.

(* the connection remains usable after a 505: the requests that follow the refused one are
   delivered as sent *)
Theorem serve_505_then_run date script dflt eof input m u ver hs bl ex goods y :
  read_head fixed input = HeadOk m u ver hs (render_run goods ++ y) ->
  framing fixed hs = FrOk KEmpty bl ex -> ver_gt_11 ver = true ->
  quiet_run goods = true -> read_head fixed y = HeadEof ->
  exists w ds ok', Forall2 delivered_as (map fst goods) ds /\
    serve fixed date script dflt input eof
    = mkO ds (bytes_505 date ++ w) (if eof then CClosed else COpen) [] ok'.
Proof.
  intros R F V Q Y. pose proof (read_head_length _ _ _ _ _ _ _ R) as L. rewrite app_length in L.
  pose proof (render_run_length goods) as L2. unfold serve.
  rewrite (step_505_no_body date _ script dflt (mkS input eof) [] [] [] true m u ver hs _ bl ex R F V).
  cbn [seof app].
  replace (List.length input) with (List.length goods + S (List.length input - List.length goods - 1))%nat by lia.
  destruct (run_quiet date dflt eof y goods (S (List.length input - List.length goods - 1)) script
              (bytes_505 date) [] [] true Q) as (w & ds & ok' & FA & E).
  exists w, ds, ok'. split; [exact FA|]. rewrite E, app_nil_r.
  rewrite (step_eof fixed date _ _ dflt (mkS y eof) _ (rev ds) [] ok' Y). now rewrite frev_rev_id.
Qed.
