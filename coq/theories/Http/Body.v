(* Http/Body.v — the body readers on the logical byte stream: Cursor over the pre-read buffer,
   FusedReader(EqualReader) (src/util/equal_reader.rs, fused_reader.rs), FusedReader(Decoder)
   (chunked_transfer 1.5.0, decoder.rs) with the drain-on-drop wrapper of repair D4, and the raw
   source for upgrade requests. A stream is the bytes not yet consumed plus the flag "the client
   has closed its sending side after them". Every underlying read is taken to return as many bytes
   as are asked for and available (full reads); Http/ReaderOp.v shows that what the application
   obtains does not depend on that. MODEL file: definitions only. *)
From TH Require Import Base.Bytes Http.Response Http.Request.
Open Scope char_scope.

Record stream := mkS { sbytes : bytes; seof : bool }.

Inductive rres :=
| RData (d : bytes)        (* Ok(n) with n > 0 *)
| REof                     (* Ok(0) *)
| RErr                     (* Err(_) *)
| RBlock.                  (* the read would block: no byte pending and the client has not closed *)

(* one read of at most n bytes from the connection *)
Definition src_read (n : nat) (st : stream) : rres * stream :=
  match n with
  | O => (REof, st)
  | _ => match sbytes st with
         | [] => if seof st then (REof, st) else (RBlock, st)
         | b => (RData (firstn n b), mkS (skipn n b) (seof st))
         end
  end.

(* Read::bytes().next() *)
Inductive bres := BByte (b : ascii) | BEof | BBlock.
Definition src_byte (st : stream) : bres * stream :=
  match sbytes st with
  | [] => if seof st then (BEof, st) else (BBlock, st)
  | b :: t => (BByte b, mkS t (seof st))
  end.

(* ---- chunked_transfer::Decoder ---- *)
Inductive dres A := DOk (a : A) | DErr | DBlock.
Arguments DOk {A}. Arguments DErr {A}. Arguments DBlock {A}.

(* read_line_feed / read_carriage_return: consume one byte, which must be the expected one *)
Definition expect_byte (c : ascii) (st : stream) : dres unit * stream :=
  match src_byte st with
  | (BByte b, st') => if Ascii.eqb b c then (DOk tt, st') else (DErr, st')
  | (BEof, st') => (DErr, st')
  | (BBlock, st') => (DBlock, st')
  end.

(* the loop(s) of read_chunk_size: bytes up to CR; after a ';' the rest up to CR is skipped.
   acc is reversed. Fuel: the number of bytes pending + 1. *)
Fixpoint size_bytes (fuel : nat) (in_ext : bool) (acc : bytes) (st : stream) : dres bytes * stream :=
  match fuel with
  | O => (DBlock, st)
  | S f =>
      match src_byte st with
      | (BByte b, st') =>
          if Ascii.eqb b CR then (DOk (frev acc), st')
          else if in_ext then size_bytes f true acc st'
          else if Ascii.eqb b ";" then size_bytes f true acc st'
          else size_bytes f false (b :: acc) st'
      | (BEof, st') => (DErr, st')
      | (BBlock, st') => (DBlock, st')
      end
  end.

(* usize::from_str_radix(c.trim(), 16) on the bytes collected (String::from_utf8 must succeed) *)
Definition parse_chunk_size (x : bytes) : option N :=
  if all_ascii x then parse_hex_usize (trim x) else None.

Definition read_chunk_size (st : stream) : dres N * stream :=
  match size_bytes (S (List.length (sbytes st))) false [] st with
  | (DOk x, st1) =>
      match expect_byte LF st1 with
      | (DOk _, st2) => match parse_chunk_size x with
                        | Some n => (DOk n, st2)
                        | None => (DErr, st2)
                        end
      | (DErr, st2) => (DErr, st2)
      | (DBlock, st2) => (DBlock, st2)
      end
  | (DErr, st1) => (DErr, st1)
  | (DBlock, st1) => (DBlock, st1)
  end.

Definition read_crlf (st : stream) : dres unit * stream :=
  match expect_byte CR st with
  | (DOk _, st1) => expect_byte LF st1
  | r => r
  end.

(* Decoder::read with a buffer of n bytes; dstate = remaining_chunks_size *)
Definition dec_read (n : nat) (rem : option N) (st : stream) : rres * option N * stream :=
  let go (r : N) (st0 : stream) : rres * option N * stream :=
    if (N.of_nat n <? r)%N then
      match src_read n st0 with
      | (RData d, st1) => (RData d, Some (r - len d)%N, st1)
      | (REof, st1) => (REof, Some r, st1)
      | (x, st1) => (x, Some r, st1)
      end
    else
      match src_read (N.to_nat r) st0 with
      | (RData d, st1) =>
          if (len d =? r)%N then
            match read_crlf st1 with
            | (DOk _, st2) => (RData d, None, st2)
            | (DErr, st2) => (RErr, rem, st2)        (* the field is only assigned on success *)
            | (DBlock, st2) => (RBlock, rem, st2)
            end
          else (RData d, Some (r - len d)%N, st1)
      | (REof, st1) => (REof, Some r, st1)
      | (x, st1) => (x, Some r, st1)
      end in
  match rem with
  | Some r => go r st
  | None =>
      match read_chunk_size st with
      | (DOk sz, st1) =>
          if (sz =? 0)%N then
            match read_crlf st1 with
            | (DOk _, st2) => (REof, None, st2)
            | (DErr, st2) => (RErr, None, st2)
            | (DBlock, st2) => (RBlock, None, st2)
            end
          else go sz st1
      | (DErr, st1) => (RErr, None, st1)
      | (DBlock, st1) => (RBlock, None, st1)
      end
  end.

(* ---- the reader a request owns ---- *)
Inductive breader :=
| BEmpty                                   (* io::empty(), or a fused reader after its end *)
| BBuffered (data : bytes)                 (* Cursor over the pre-read small body *)
| BLimited (remaining : N)                 (* FusedReader(EqualReader) *)
| BChunked (rem : option N) (finished : bool)   (* FusedReader([DrainOnDrop](Decoder)) *)
| BUpgrade.                                (* the connection itself *)

(* the amount requested from the allocator on behalf of the client (C14) *)
Definition allocs := list N.

(* EqualReader::drop (equal_reader.rs:62-88): read and throw away what is left of the body *)
Fixpoint discard (c : cfg) (fuel : nat) (remaining : N) (st : stream) (al : allocs) : stream * allocs :=
  match fuel with
  | O => (st, al)
  | S f =>
      if (remaining =? 0)%N then (st, al) else
      let bufsz := if fix_d6 c then N.min remaining 8192 else remaining in
      (* the reads are modelled on the bytes pending, so the count is capped by their number *)
      let k := N.min bufsz (len (sbytes st)) in
      match src_read (N.to_nat (if (k =? 0)%N then 1%N else k)) st with
      | (RData d, st1) => discard c f (remaining - len d)%N st1 (bufsz :: al)
      | (_, st1) => (st1, bufsz :: al)
      end
  end.

(* the drain loop of repair D4: read through the decoder with a 1024-byte buffer until Ok(0)/Err *)
Fixpoint drain_chunked (fuel : nat) (rem : option N) (st : stream) : stream :=
  match fuel with
  | O => st
  | S f => match dec_read 1024 rem st with
           | (RData _, rem', st1) => drain_chunked f rem' st1
           | (_, _, st1) => st1
           end
  end.

(* one application read with a buffer of n > 0 bytes *)
Definition body_read (c : cfg) (n : nat) (r : breader) (st : stream) (al : allocs)
  : rres * breader * stream * allocs :=
  match r with
  | BEmpty => (REof, BEmpty, st, al)
  | BBuffered d =>
      match d with
      | [] => (REof, BBuffered [], st, al)
      | _ => (RData (firstn n d), BBuffered (skipn n d), st, al)
      end
  | BLimited rem =>
      if (rem =? 0)%N then (REof, BEmpty, st, al) else
      let k := N.to_nat (N.min (N.of_nat n) rem) in
      match src_read k st with
      | (RData d, st1) => (RData d, BLimited (rem - len d)%N, st1, al)
      | (REof, st1) =>
          (* the fuse drops the EqualReader, whose drop tries once more and gives up *)
          let '(st2, al2) := discard c 1 rem st1 al in (REof, BEmpty, st2, al2)
      | (x, st1) => (x, BLimited rem, st1, al)
      end
  | BChunked rem fin =>
      if fin then (REof, BEmpty, st, al) else
      match dec_read n rem st with
      | (RData d, rem', st1) => (RData d, BChunked rem' false, st1, al)
      | (REof, rem', st1) => (REof, BEmpty, st1, al)
      | (RErr, rem', st1) => (RErr, BChunked rem' (fix_d4 c), st1, al)
      | (RBlock, rem', st1) => (RBlock, BChunked rem' false, st1, al)
      end
  | BUpgrade =>
      match src_read n st with
      | (x, st1) => (x, BUpgrade, st1, al)
      end
  end.

(* a read with an EMPTY buffer (an application quirk, e.g. read(&mut []) or a zero-sized Vec): the
   underlying reader returns Ok(0), which the fuse takes for the end of the body: it drops the inner
   reader, whose Drop discards / drains what is left of the body, and the application sees
   end-of-stream from then on. The Cursor of a pre-read body and the raw upgrade stream are not
   fused: Ok(0), nothing changes. *)
Definition body_read_zero (c : cfg) (r : breader) (st : stream) (al : allocs)
  : rres * breader * stream * allocs :=
  match r with
  | BLimited rem =>
      if (rem =? 0)%N then (REof, BEmpty, st, al)
      else match sbytes st with
           | [] => if seof st then let '(st2, al2) := discard c 1 rem st al in (REof, BEmpty, st2, al2)
                   else (RBlock, r, st, al)      (* BufReader::fill_buf waits for the socket *)
           | _ => let '(st2, al2) := discard c (S (List.length (sbytes st))) rem st al in (REof, BEmpty, st2, al2)
           end
  | BChunked rem fin =>
      if fin then (REof, BEmpty, st, al)
      else if fix_d4 c then (REof, BEmpty, drain_chunked (S (List.length (sbytes st))) rem st, al)
      else body_read c 0 r st al                 (* as found: the decoder itself sees the empty buffer *)
  | _ => (REof, r, st, al)
  end.

(* one application read with a buffer of any size *)
Definition body_read_any (c : cfg) (n : nat) (r : breader) (st : stream) (al : allocs)
  : rres * breader * stream * allocs :=
  match n with
  | O => body_read_zero c r st al
  | S _ => body_read c n r st al
  end.

(* dropping the reader when the request goes away *)
Definition body_drop (c : cfg) (r : breader) (st : stream) (al : allocs) : stream * allocs :=
  match r with
  | BLimited rem => discard c (S (List.length (sbytes st))) rem st al
  | BChunked rem fin =>
      if fix_d4 c && negb fin then (drain_chunked (S (List.length (sbytes st))) rem st, al)
      else (st, al)
  | _ => (st, al)
  end.

(* "obtain up to m bytes using a buffer of n bytes": the loop every handler script performs.
   Returns what was read, whether end-of-stream / an error was seen, and the new state. *)
Inductive read_end := EndCount | EndEof | EndErr | EndBlock.
Fixpoint take (c : cfg) (fuel : nat) (m : N) (n : nat) (r : breader) (st : stream) (al : allocs)
              (acc : list bytes) : list bytes * read_end * breader * stream * allocs :=
  (* acc: the pieces obtained so far, latest first *)
  match fuel with
  | O => (acc, EndCount, r, st, al)
  | S f =>
      if (m =? 0)%N then (acc, EndCount, r, st, al) else
      let want := N.to_nat (N.min m (N.of_nat n)) in
      match body_read_any c want r st al with
      | (RData d, r1, st1, al1) => take c f (m - len d)%N n r1 st1 al1 (d :: acc)
      | (REof, r1, st1, al1) => (acc, EndEof, r1, st1, al1)
      | (RErr, r1, st1, al1) => (acc, EndErr, r1, st1, al1)
      | (RBlock, r1, st1, al1) => (acc, EndBlock, r1, st1, al1)
      end
  end.
(* the bytes obtained, in order *)
Definition pieces_bytes (acc : list bytes) : bytes := List.concat (frev acc).
