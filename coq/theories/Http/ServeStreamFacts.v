(* Http/ServeStreamFacts.v — no reader ever lengthens the stream of pending bytes, a parsed head
   strictly shortens it; hence every iteration of serve_loop that continues strictly shortens the
   stream, and the fuel `S (length input)` of `serve` is never exhausted (C14(c)). Also: a head
   followed by further bytes parses to the same head (read_head_app). *)
From TH Require Import Base.Bytes Base.BytesFacts Http.Response Http.Request Http.Body Http.Serve
  Http.ServeFacts.
From Coq Require Import Lia ZArith ZifyN ZifyBool ZifyNat.
Open Scope char_scope.

Definition slen (st : stream) : nat := List.length (sbytes st).
Definition shrinks (st st' : stream) : Prop := (slen st' <= slen st)%nat.

Lemma shrinks_refl st : shrinks st st.
Proof. unfold shrinks; lia. Qed.
Lemma shrinks_trans a b c : shrinks a b -> shrinks b c -> shrinks a c.
Proof. unfold shrinks; lia. Qed.

(* ---- the line reader and the head ---- *)
Lemma read_line_aux_app acc p x l r t :
  read_line_aux acc p x = Some (l, r) -> read_line_aux acc p (x ++ t) = Some (l, r ++ t).
Proof.
  revert acc p; induction x as [|b x IH]; intros acc p; cbn [read_line_aux app]; [discriminate|].
  destruct (Ascii.eqb b LF && p).
  - intros [= <- <-]. reflexivity.
  - apply IH.
Qed.

Lemma read_line_aux_len acc p x l r :
  read_line_aux acc p x = Some (l, r) -> (List.length r < List.length x)%nat.
Proof.
  revert acc p; induction x as [|b x IH]; intros acc p; cbn [read_line_aux]; [discriminate|].
  destruct (Ascii.eqb b LF && p).
  - intros [= <- <-]. cbn [List.length]. lia.
  - intros H. apply IH in H. cbn [List.length]. lia.
Qed.

Lemma read_line_app x l r t : read_line x = Some (l, r) -> read_line (x ++ t) = Some (l, r ++ t).
Proof. apply read_line_aux_app. Qed.
Lemma read_line_len x l r : read_line x = Some (l, r) -> (List.length r < List.length x)%nat.
Proof. apply read_line_aux_len. Qed.

Lemma read_headers_app c t : forall fuel ver acc x hs r fuel',
  read_headers c fuel ver acc x = inr (hs, r) -> (fuel <= fuel')%nat ->
  read_headers c fuel' ver acc (x ++ t) = inr (hs, r ++ t).
Proof.
  induction fuel as [|f IH]; intros ver acc x hs r fuel' H Hf; cbn [read_headers] in H; [discriminate|].
  destruct fuel' as [|f']; [lia|]. cbn [read_headers].
  destruct (read_line x) as [[l rest]|] eqn:El; [|discriminate].
  rewrite (read_line_app _ _ _ t El).
  destruct (negb (all_ascii l)); [discriminate|].
  destruct l as [|l0 l1].
  - injection H as <- <-. reflexivity.
  - destruct (parse_header _) as [h|]; [|discriminate]. apply (IH _ _ _ _ _ f' H). lia.
Qed.

Lemma read_headers_len c : forall fuel ver acc x hs r,
  read_headers c fuel ver acc x = inr (hs, r) -> (List.length r < List.length x)%nat.
Proof.
  induction fuel as [|f IH]; intros ver acc x hs r H; cbn [read_headers] in H; [discriminate|].
  destruct (read_line x) as [[l rest]|] eqn:El; [|discriminate]. apply read_line_len in El.
  destruct (negb (all_ascii l)); [discriminate|].
  destruct l as [|l0 l1].
  - injection H as <- <-. exact El.
  - destruct (parse_header _) as [h|]; [|discriminate]. apply IH in H. lia.
Qed.

Lemma read_headers_inl c : forall fuel ver acc x e m url v hs rest,
  read_headers c fuel ver acc x = inl e -> e <> HeadOk m url v hs rest.
Proof.
  induction fuel as [|f IH]; intros ver acc x e m url v hs rest H; cbn [read_headers] in H.
  - injection H as <-. discriminate.
  - destruct (read_line x) as [[l r]|]; [|injection H as <-; discriminate].
    destruct (negb (all_ascii l)); [injection H as <-; discriminate|].
    destruct l as [|l0 l1]; [discriminate|].
    destruct (parse_header _) as [h|]; [eapply IH; exact H|injection H as <-; discriminate].
Qed.

Theorem read_head_app c x m url ver hs rest t :
  read_head c x = HeadOk m url ver hs rest -> read_head c (x ++ t) = HeadOk m url ver hs (rest ++ t).
Proof.
  unfold read_head. destruct (read_line x) as [[l r]|] eqn:El; [|discriminate].
  rewrite (read_line_app _ _ _ t El). destruct (negb (all_ascii l)); [discriminate|].
  destruct (parse_request_line (trim l)) as [[[m0 u0] v0]|]; [|discriminate].
  destruct (read_headers c (S (List.length r)) v0 [] r) as [e|[hs0 r0]] eqn:Eh.
  - intros ->. eapply read_headers_inl in Eh. destruct (Eh eq_refl).
  - intros [= <- <- <- <- <-].
    rewrite (read_headers_app c t _ _ _ _ _ _ (S (List.length (r ++ t))) Eh); [reflexivity|].
    rewrite app_length. lia.
Qed.

Theorem read_head_len c x m url ver hs rest :
  read_head c x = HeadOk m url ver hs rest -> (List.length rest < List.length x)%nat.
Proof.
  unfold read_head. destruct (read_line x) as [[l r]|] eqn:El; [|discriminate].
  apply read_line_len in El. destruct (negb (all_ascii l)); [discriminate|].
  destruct (parse_request_line (trim l)) as [[[m0 u0] v0]|]; [|discriminate].
  destruct (read_headers c (S (List.length r)) v0 [] r) as [e|[hs0 r0]] eqn:Eh.
  - intros ->. eapply read_headers_inl in Eh. destruct (Eh eq_refl).
  - intros [= <- <- <- <- <-]. apply read_headers_len in Eh. lia.
Qed.

(* ---- the readers ---- *)
Lemma src_read_shrinks n st : shrinks st (snd (src_read n st)).
Proof.
  unfold src_read. destruct n; [apply shrinks_refl|]. destruct (sbytes st) as [|b0 b] eqn:E.
  - destruct (seof st); apply shrinks_refl.
  - cbn [snd]. unfold shrinks, slen. rewrite E. cbn [sbytes]. rewrite skipn_length. lia.
Qed.

Lemma src_byte_shrinks st : shrinks st (snd (src_byte st)).
Proof.
  unfold src_byte. destruct (sbytes st) as [|b t] eqn:E.
  - destruct (seof st); apply shrinks_refl.
  - cbn [snd]. unfold shrinks, slen. rewrite E. cbn [sbytes List.length]. lia.
Qed.

Lemma expect_byte_shrinks ch st : shrinks st (snd (expect_byte ch st)).
Proof.
  unfold expect_byte. pose proof (src_byte_shrinks st) as H.
  destruct (src_byte st) as [[b| |] st']; cbn [snd] in *; [destruct (Ascii.eqb b ch)|..]; exact H.
Qed.

Lemma size_bytes_shrinks fuel : forall in_ext acc st, shrinks st (snd (size_bytes fuel in_ext acc st)).
Proof.
  induction fuel as [|f IH]; intros in_ext acc st; cbn [size_bytes]; [apply shrinks_refl|].
  pose proof (src_byte_shrinks st) as H. destruct (src_byte st) as [[b| |] st']; cbn [snd] in *; try exact H.
  destruct (Ascii.eqb b CR); [exact H|].
  destruct in_ext; [eapply shrinks_trans; [exact H|apply IH]|].
  destruct (Ascii.eqb b ";"); eapply shrinks_trans; try exact H; apply IH.
Qed.

Lemma read_chunk_size_shrinks st : shrinks st (snd (read_chunk_size st)).
Proof.
  unfold read_chunk_size. pose proof (size_bytes_shrinks (S (List.length (sbytes st))) false [] st) as H.
  destruct (size_bytes _ _ _ _) as [[x| |] st1]; cbn [snd] in *; try exact H.
  pose proof (expect_byte_shrinks LF st1) as H1.
  destruct (expect_byte LF st1) as [[u| |] st2]; cbn [snd] in *; try (eapply shrinks_trans; eassumption).
  destruct (parse_chunk_size x); eapply shrinks_trans; eassumption.
Qed.

Lemma read_crlf_shrinks st : shrinks st (snd (read_crlf st)).
Proof.
  unfold read_crlf. pose proof (expect_byte_shrinks CR st) as H.
  destruct (expect_byte CR st) as [[u| |] st1]; cbn [snd] in *; try exact H.
  eapply shrinks_trans; [exact H|apply expect_byte_shrinks].
Qed.

Lemma dec_go_shrinks n (rem : option N) r st :
  shrinks st (snd (
    if (N.of_nat n <? r)%N then
      match src_read n st with
      | (RData d, st1) => (RData d, Some (r - len d)%N, st1)
      | (REof, st1) => (REof, Some r, st1)
      | (x, st1) => (x, Some r, st1)
      end
    else
      match src_read (N.to_nat r) st with
      | (RData d, st1) =>
          if (len d =? r)%N then
            match read_crlf st1 with
            | (DOk _, st2) => (RData d, None, st2)
            | (DErr, st2) => (RErr, rem, st2)
            | (DBlock, st2) => (RBlock, rem, st2)
            end
          else (RData d, Some (r - len d)%N, st1)
      | (REof, st1) => (REof, Some r, st1)
      | (x, st1) => (x, Some r, st1)
      end)).
Proof.
  destruct (N.of_nat n <? r)%N.
  - pose proof (src_read_shrinks n st) as H. destruct (src_read n st) as [[d| | |] st1]; exact H.
  - pose proof (src_read_shrinks (N.to_nat r) st) as H.
    destruct (src_read (N.to_nat r) st) as [[d| | |] st1]; cbn [snd] in *; try exact H.
    destruct (len d =? r)%N; [|exact H]. pose proof (read_crlf_shrinks st1) as H1.
    destruct (read_crlf st1) as [[u| |] st2]; cbn [snd] in *; eapply shrinks_trans; eassumption.
Qed.

Lemma dec_read_shrinks n rem st : shrinks st (snd (dec_read n rem st)).
Proof.
  unfold dec_read. destruct rem as [r|]; [apply dec_go_shrinks|].
  pose proof (read_chunk_size_shrinks st) as H.
  destruct (read_chunk_size st) as [[sz| |] st1]; cbn [snd] in *; try exact H.
  destruct (sz =? 0)%N.
  - pose proof (read_crlf_shrinks st1) as H1.
    destruct (read_crlf st1) as [[u| |] st2]; cbn [snd] in *; eapply shrinks_trans; eassumption.
  - eapply shrinks_trans; [exact H|apply dec_go_shrinks].
Qed.

Lemma discard_shrinks c fuel : forall rem st al, shrinks st (fst (discard c fuel rem st al)).
Proof.
  induction fuel as [|f IH]; intros rem st al; cbn [discard]; [apply shrinks_refl|].
  destruct (rem =? 0)%N; [apply shrinks_refl|].
  match goal with |- context [src_read ?n st] =>
    pose proof (src_read_shrinks n st) as H; destruct (src_read n st) as [[d| | |] st1] end;
    cbn [fst snd] in *; try exact H.
  eapply shrinks_trans; [exact H|apply IH].
Qed.

Lemma drain_chunked_shrinks fuel : forall rem st, shrinks st (drain_chunked fuel rem st).
Proof.
  induction fuel as [|f IH]; intros rem st; cbn [drain_chunked]; [apply shrinks_refl|].
  pose proof (dec_read_shrinks 1024 rem st) as H.
  destruct (dec_read 1024 rem st) as [[[d| | |] rem'] st1]; cbn [snd] in *; try exact H.
  eapply shrinks_trans; [exact H|apply IH].
Qed.

(* projections of the 5-tuples the readers return *)
Definition t_st {A B C E} (x : A * B * C * stream * E) : stream := snd (fst x).

Lemma body_read_shrinks c n r st al : shrinks st (snd (fst (body_read c n r st al))).
Proof.
  destruct r as [|d|rem|rem fin|]; cbn [body_read].
  - apply shrinks_refl.
  - destruct d; apply shrinks_refl.
  - destruct (rem =? 0)%N; [apply shrinks_refl|].
    match goal with |- context [src_read ?k st] =>
      pose proof (src_read_shrinks k st) as H; destruct (src_read k st) as [[d| | |] st1] end;
      cbn [fst snd] in *; try exact H.
    pose proof (discard_shrinks c 1 rem st1 al) as H1.
    destruct (discard c 1 rem st1 al) as [st2 al2]. cbn [fst snd] in *. eapply shrinks_trans; eassumption.
  - destruct fin; [apply shrinks_refl|]. pose proof (dec_read_shrinks n rem st) as H.
    destruct (dec_read n rem st) as [[[d| | |] rem'] st1]; exact H.
  - pose proof (src_read_shrinks n st) as H. destruct (src_read n st) as [x st1]. exact H.
Qed.

Lemma body_read_any_shrinks c n r st al : shrinks st (snd (fst (body_read_any c n r st al))).
Proof.
  destruct n as [|n]; cbn [body_read_any]; [|apply body_read_shrinks].
  destruct r as [|d|rem|rem fin|]; cbn [body_read_zero]; try apply shrinks_refl.
  - destruct (rem =? 0)%N; [apply shrinks_refl|]. destruct (sbytes st) as [|b0 b] eqn:E.
    + destruct (seof st); [|apply shrinks_refl]. pose proof (discard_shrinks c 1 rem st al) as H.
      destruct (discard c 1 rem st al). exact H.
    + match goal with |- context [discard c ?f rem st al] =>
        pose proof (discard_shrinks c f rem st al) as H; destruct (discard c f rem st al) end. exact H.
  - destruct fin; [apply shrinks_refl|]. destruct (fix_d4 c); [|apply body_read_shrinks].
    cbn [fst snd]. apply drain_chunked_shrinks.
Qed.

Lemma take_shrinks c fuel : forall m n r st al acc, shrinks st (t_st (take c fuel m n r st al acc)).
Proof.
  unfold t_st. induction fuel as [|f IH]; intros m n r st al acc; cbn [take]; [apply shrinks_refl|].
  destruct (m =? 0)%N; [apply shrinks_refl|].
  match goal with |- context [body_read_any c ?w r st al] =>
    pose proof (body_read_any_shrinks c w r st al) as H;
    destruct (body_read_any c w r st al) as [[[[d| | |] r1] st1] al1] end; cbn [fst snd] in *; try exact H.
  eapply shrinks_trans; [exact H|apply IH].
Qed.

Lemma do_reads_shrinks c reads : forall r st al acc e, shrinks st (t_st (do_reads c reads r st al acc e)).
Proof.
  unfold t_st. induction reads as [|[m n] t IH]; intros r st al acc e; cbn [do_reads]; [apply shrinks_refl|].
  match goal with |- context [take c ?fu m n r st al acc] =>
    pose proof (take_shrinks c fu m n r st al acc) as H;
    destruct (take c fu m n r st al acc) as [[[[acc1 e1] r1] st1] al1] end.
  unfold t_st in H. cbn [fst snd] in H.
  destruct e1; try exact H. eapply shrinks_trans; [exact H|apply IH].
Qed.

Lemma body_drop_shrinks c r st al : shrinks st (fst (body_drop c r st al)).
Proof.
  destruct r as [|d|rem|rem fin|]; cbn [body_drop]; try apply shrinks_refl.
  - apply discard_shrinks.
  - destruct (fix_d4 c && negb fin); cbn [fst]; [apply drain_chunked_shrinks|apply shrinks_refl].
Qed.

Lemma handle_shrinks c date act m ver hs expects rd st1 al1 :
  shrinks st1 (h_st4 (handle c date act m ver hs expects rd st1 al1)).
Proof.
  destruct (reads_of c act rd st1 al1) as [[[[got e] rd2] st2] al2] eqn:Er.
  pose proof (do_reads_shrinks c (a_reads act) rd st1 al1 [] EndCount) as H2.
  unfold reads_of in Er. rewrite Er in H2. unfold t_st in H2. cbn [fst snd] in H2.
  destruct (handle_finish c date act m ver hs expects rd st1 al1 _ _ _ _ _ Er) as (rd3 & st3 & Ef & Ed).
  pose proof (body_drop_shrinks c rd3 st3 (h_al3 (handle c date act m ver hs expects rd st1 al1))) as H4.
  rewrite Ed in H4. cbn [fst] in H4.
  assert (H3 : shrinks st2 st3).
  { destruct (a_finish act) as [code body declared| |data|proto]; cbn [finish_of] in Ef.
    - destruct (render _ _ _ _ _ _) in Ef. inversion Ef; subst. apply shrinks_refl.
    - destruct (render _ _ _ _ _ _) in Ef. inversion Ef; subst. apply shrinks_refl.
    - inversion Ef; subst. apply shrinks_refl.
    - destruct (render _ _ _ _ _ _) in Ef.
      pose proof (do_reads_shrinks c [(ALL, 4096%nat)] rd2 st2 al2 got EndCount) as Hb.
      destruct (do_reads c [(ALL, 4096%nat)] rd2 st2 al2 got EndCount) as [[[[g' e'] r'] s'] a'].
      unfold t_st in Hb. cbn [fst snd] in Hb. inversion Ef; subst. exact Hb. }
  eapply shrinks_trans; [exact H2|]. eapply shrinks_trans; eassumption.
Qed.

Lemma built_of_shrinks kind rest eof al rd st1 al1 :
  built_of kind rest eof al = inl (Some (rd, st1, al1)) -> (slen st1 <= List.length rest)%nat.
Proof.
  destruct kind as [| |n| |]; cbn [built_of]; try (intros [= <- <- <-]; unfold slen; cbn [sbytes]; lia).
  destruct (n <=? len rest)%N; [|destruct eof; discriminate].
  intros [= <- <- <-]. unfold slen; cbn [sbytes]. rewrite skipn_length. lia.
Qed.

(* ---- an iteration that continues strictly shortens the stream ---- *)
Theorem serve_step_progress c date script dflt st wire reqs al ok script' st' wire' reqs' al' ok' :
  serve_step c date script dflt st wire reqs al ok = SCont script' st' wire' reqs' al' ok' ->
  (slen st' < slen st)%nat.
Proof.
  unfold serve_step. destruct (read_head c (sbytes st)) as [m url ver hs rest| | | |ver] eqn:Eh;
    try discriminate; try (destruct (render _ _ _ _ _ _); discriminate).
  apply read_head_len in Eh. fold (slen st) in Eh.
  destruct (framing c hs) as [kind bl expects| |]; try (destruct (render _ _ _ _ _ _); discriminate).
  destruct (built_of kind rest (seof st) al) as [[[[rd st1] al1]|]|e] eqn:Eb; try discriminate.
  apply built_of_shrinks in Eb. unfold deliver_step. destruct (ver_gt_11 ver).
  - destruct (fix_d5 c); [|discriminate]. destruct (render _ _ _ _ _ _).
    pose proof (body_drop_shrinks c rd st1 al1) as H. destruct (body_drop c rd st1 al1) as [st2 al2].
    intros [= <- <- <- <- <- <-]. unfold shrinks in H. cbn [fst] in H. lia.
  - pose proof (handle_shrinks c date (act_of script dflt) m ver hs expects rd st1 al1) as H.
    destruct (handle _ _ _ _ _ _ _ _ _ _) as [w100 m100 wfin mfin al3 got3 e3 st4 al4]. cbn [h_st4] in H.
    unfold shrinks in H.
    destruct e3; try discriminate; (destruct (last_request ver hs); [discriminate|]);
      intros [= <- <- <- <- <- <-]; lia.
Qed.

(* ---- the fuel of serve is never exhausted: any fuel above the number of pending bytes gives the
        same outcome ---- *)
Theorem serve_loop_fuel c date dflt : forall f1 f2 script st wire reqs al ok,
  (slen st < f1)%nat -> (slen st < f2)%nat ->
  serve_loop c date f1 script dflt st wire reqs al ok = serve_loop c date f2 script dflt st wire reqs al ok.
Proof.
  induction f1 as [|f1 IH]; intros f2 script st wire reqs al ok H1 H2; [lia|].
  destruct f2 as [|f2]; [lia|]. rewrite !serve_loop_S.
  destruct (serve_step c date script dflt st wire reqs al ok) as [o|script' st' wire' reqs' al' ok'] eqn:E;
    cbn [run_step]; [reflexivity|].
  apply serve_step_progress in E. apply IH; lia.
Qed.

Corollary serve_fuel c date script dflt input eof extra :
  serve_loop c date (S (List.length input) + extra) script dflt (mkS input eof) [] [] [] true
  = serve c date script dflt input eof.
Proof. unfold serve. apply serve_loop_fuel; unfold slen; cbn [sbytes]; lia. Qed.
