(* Conc/Instances.v — the concurrency models instantiated for execution (values, tasks and bytes are
   natural numbers; clock unit 0.1 ms, so MS = 10; EPS = 0: the explorer advances time only to
   deadlines). These are the functions the correspondence check runs; the theorems in Props hold for
   every instance. *)
From Coq Require Import List Arith.
Import ListNotations.
From TH Require Conc.MsgQueue Conc.TaskPool Conc.SeqWriter Conc.Shutdown Conc.ConnClose.

Definition mq_MS : nat := 10.
Definition mq_EPS : nat := 0.
Definition mq_init (n : nat) : MsgQueue.st nat := MsgQueue.init nat n.
Definition mq_step (fixed : bool) (s : MsgQueue.st nat) (l : MsgQueue.label nat) : option (MsgQueue.st nat) :=
  MsgQueue.step nat mq_MS mq_EPS fixed s l.

(* MIN_THREADS = 4; idle period: 500 clock units (the explorer only compares deadlines with the clock, the absolute value is immaterial); the poisoned counter 999_999_999 is
   represented by a number larger than any worker count the explorer reaches *)
Definition tp_MIN : nat := 4.
Definition tp_IDLE : nat := 500.
Definition tp_BIG : nat := 1000.
Definition tp_init : TaskPool.st nat := TaskPool.init nat tp_MIN.
Definition tp_step (fixed : bool) (s : TaskPool.st nat) (l : TaskPool.label nat) : option (TaskPool.st nat) :=
  TaskPool.step nat tp_MIN tp_IDLE tp_BIG fixed s l.

Definition sw_init : SeqWriter.st nat := SeqWriter.init nat.
Definition sw_step (fixed : bool) (s : SeqWriter.st nat) (l : SeqWriter.label nat) : option (SeqWriter.st nat) :=
  SeqWriter.step nat fixed s l.

Definition sd_init : Shutdown.st := Shutdown.init.
Definition sd_step (s : Shutdown.st) (l : Shutdown.label) : option Shutdown.st := Shutdown.step s l.

(* the connection's sending side: writer chain + builder handle + 1 KiB BufWriter (cap 1024) *)
Definition cc_init : ConnClose.cst nat := ConnClose.cinit nat.
Definition cc_step (s : ConnClose.cst nat) (l : ConnClose.clabel nat) : option (ConnClose.cst nat) :=
  ConnClose.cstep nat 1024 true s l.
Definition cc_closed (s : ConnClose.cst nat) : bool := ConnClose.wr_closed nat s.

(* the same queue model with a generous scheduling latency, for lock-step replay of traces recorded under the
   controllable runtime (a timer of another thread may fire before a timed-out thread has resumed) *)
Definition mq_EPS_replay : nat := 5000.
Definition mq_step_replay (fixed : bool) (s : MsgQueue.st nat) (l : MsgQueue.label nat) : option (MsgQueue.st nat) :=
  MsgQueue.step nat mq_MS mq_EPS_replay fixed s l.

(* the pool model with the crate's real idle period (5000 ms, clock unit 1 ms) for lock-step replay of traces
   recorded under the controllable runtime *)
Definition tp_IDLE_replay : nat := 5000.
Definition tp_BIG_replay : nat := 100000.
Definition tp_step_replay (fixed : bool) (s : TaskPool.st nat) (l : TaskPool.label nat) : option (TaskPool.st nat) :=
  TaskPool.step nat tp_MIN tp_IDLE_replay tp_BIG_replay fixed s l.
