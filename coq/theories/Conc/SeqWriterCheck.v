(* Conc/SeqWriterCheck.v — a computable checker for `system_ok` (Conc/SeqWriterPrograms.v), extracted and used by the
   driver to decide which scheduled scripts of the real writer chain fall under c06_well_ordered_never_stuck /
   c06_well_ordered_terminates (those scripts must run to completion under every schedule). Soundness is proved:
   whatever the checker accepts is a well-ordered system in the sense of the theorems. *)
From Coq Require Import List Arith Bool Lia.
Import ListNotations.
From TH Require Import Conc.SeqWriter Conc.SeqWriterFacts Conc.SeqWriterStepFacts Conc.SeqWriterPrograms.

Section Check.
Variable byte : Type.
Notation label := (SeqWriter.label byte).
Notation prog := (list label).

Definition count_users (ps : list prog) (j : nat) : nat := length (filter (fun p => uses_b byte p j) ps).
Definition idx_lt (n : nat) (l : label) : bool := match label_index byte l with Some i => i <? n | None => true end.

Definition system_ok_b (n : nat) (ps : list prog) : bool :=
  forallb (wo_b byte) ps
  && forallb (fun j => count_users ps j =? 1) (seq 0 n)
  && forallb (fun p => forallb (idx_lt n) p) ps.

Lemma count_users_two ps t1 t2 p1 p2 j :
  t1 <> t2 -> nth_error ps t1 = Some p1 -> nth_error ps t2 = Some p2 ->
  uses_b byte p1 j = true -> uses_b byte p2 j = true -> 2 <= count_users ps j.
Proof.
  unfold count_users. revert t1 t2. induction ps as [|p ps IH]; intros t1 t2 Hne H1 H2 U1 U2.
  - destruct t1; discriminate.
  - cbn [filter]. destruct t1 as [|t1], t2 as [|t2]; cbn [nth_error] in H1, H2.
    + congruence.
    + injection H1 as ->. rewrite U1. cbn [length].
      assert (In p2 (filter (fun p => uses_b byte p j) ps)) as Hin.
      { apply filter_In. split; [eapply nth_error_In; exact H2|exact U2]. }
      destruct (filter (fun p => uses_b byte p j) ps); [destruct Hin|cbn [length]; lia].
    + injection H2 as ->. rewrite U2. cbn [length].
      assert (In p1 (filter (fun p => uses_b byte p j) ps)) as Hin.
      { apply filter_In. split; [eapply nth_error_In; exact H1|exact U1]. }
      destruct (filter (fun p => uses_b byte p j) ps); [destruct Hin|cbn [length]; lia].
    + assert (Hne' : t1 <> t2) by congruence.
      pose proof (IH t1 t2 Hne' H1 H2 U1 U2) as H.
      destruct (uses_b byte p j); cbn [length]; lia.
Qed.

Theorem system_ok_b_sound n ps : system_ok_b n ps = true -> system_ok byte n ps.
Proof.
  unfold system_ok_b. intros H.
  apply andb_true_iff in H as [H Hlt]. apply andb_true_iff in H as [Hwo Hcnt].
  rewrite forallb_forall in Hwo, Hcnt, Hlt.
  assert (Hb : bounded byte n ps).
  { intros p j Hp (l & Hl & Hi). specialize (Hlt p Hp). rewrite forallb_forall in Hlt. specialize (Hlt l Hl).
    unfold idx_lt in Hlt. rewrite Hi in Hlt. now apply Nat.ltb_lt in Hlt. }
  constructor.
  - intros p Hp. apply wo_b_sound. exact (Hwo p Hp).
  - intros t1 t2 p1 p2 j H1 H2 U1 U2.
    destruct (Nat.eq_dec t1 t2) as [E|Hne]; [exact E|exfalso].
    assert (Hj : j < n) by (eapply Hb; [eapply nth_error_In; exact H1|exact U1]).
    assert (Hc : count_users ps j =? 1 = true) by (apply Hcnt, in_seq; lia).
    apply Nat.eqb_eq in Hc.
    apply uses_b_spec in U1, U2.
    pose proof (count_users_two ps t1 t2 p1 p2 j Hne H1 H2 U1 U2). lia.
  - exact Hb.
  - intros j Hj.
    assert (Hc : count_users ps j =? 1 = true) by (apply Hcnt, in_seq; lia).
    apply Nat.eqb_eq in Hc. unfold count_users in Hc.
    destruct (filter (fun p => uses_b byte p j) ps) as [|p r] eqn:Ef; [discriminate|].
    assert (Hin : In p (filter (fun p => uses_b byte p j) ps)) by (rewrite Ef; left; reflexivity).
    apply filter_In in Hin as [Hp Hu]. exists p. split; [exact Hp|]. now apply uses_b_spec.
Qed.
End Check.

(* the instance the driver uses (bytes as numbers) *)
Definition sw_system_ok_b (n : nat) (ps : list (list (SeqWriter.label nat))) : bool := system_ok_b nat n ps.
