(* Conc/MsgQueue.v — src/util/messages_queue.rs (MessagesQueue: one Mutex<VecDeque<Control>> + one
   Condvar) as an interleaving transition system with virtual time, over ALL label sequences: any
   number of producers and receivers, any mix of pop / try_pop / pop_timeout, any choice of the
   waiter notify_one wakes, spurious wake-ups, timeouts, passage of time. A critical section is one
   atomic step because the code holds the one mutex across it and never blocks inside.
   Labels <-> code: Push/Unblock = messages_queue.rs:30-41; CallPop then Resume* = 45-57;
   CallTry = 60-66; CallTimed then Resume* = 71-95 (Resume computes the remaining time, the
   `timed_out || remaining < 1 ms` test and either returns or waits again with the FULL timeout).
   `fixed = true`: the repaired tree (re-check the queue before returning empty-handed, repair D2);
   `fixed = false`: as found. Model definitions first, then the invariant proofs. *)
From Coq Require Import List Arith Bool Lia.
Import ListNotations.

Section MQ.
Variable V : Type.
Variable MS : nat.              (* one millisecond in clock units *)
Hypothesis MS_pos : 0 < MS.
Variable EPS : nat.             (* scheduling latency: a timed wait is resumed within EPS of its deadline *)

Inductive item := Elem (v : V) | Token.

Inductive rstate :=
| Idle
| PopBlocked
| PopWoken
| TBlocked (t0 b rem T : nat)   (* call start; this wait's start; the `duration` variable; timeout *)
| TWoken (to : bool) (t0 b rem T : nat).

Record st := {
  q : list item; now : nat; rs : list rstate;
  pushed : list V; got : list V; unblocks : nat; tokrets : nat;
  tlog : list (nat * nat * nat)  (* (t0, T, return time) of timed calls that returned empty-handed by time *)
}.

Inductive label :=
| Push (v : V) (w : option nat) | Unblock (w : option nat)
| CallPop (t : nat) | CallTry (t : nat) | CallTimed (t T : nat)
| Spurious (t : nat) | Timeout (t : nat) | Resume (t : nat) | Tick (d : nat).

Fixpoint upd {A} (l : list A) (i : nat) (x : A) : list A :=
  match l, i with [], _ => [] | _ :: t, 0 => x :: t | a :: t, S j => a :: upd t j x end.

Definition is_blocked (r : rstate) : bool := match r with PopBlocked | TBlocked _ _ _ _ => true | _ => false end.
Definition is_woken (r : rstate) : bool := match r with PopWoken | TWoken _ _ _ _ _ => true | _ => false end.
Definition count (f : rstate -> bool) (l : list rstate) : nat := length (filter f l).
Arguments count : simpl never.

Definition wake (r : rstate) : rstate :=
  match r with PopBlocked => PopWoken | TBlocked t0 b rem T => TWoken false t0 b rem T | r => r end.

(* notify_one: wakes the designated blocked waiter; `None` only when nobody is blocked *)
Definition notify (l : list rstate) (w : option nat) : option (list rstate) :=
  match w with
  | Some t => match nth_error l t with
              | Some r => if is_blocked r then Some (upd l t (wake r)) else None
              | None => None end
  | None => if Nat.eqb (count is_blocked l) 0 then Some l else None
  end.

Definition set_rs (s : st) (l : list rstate) : st :=
  {| q := q s; now := now s; rs := l; pushed := pushed s; got := got s; unblocks := unblocks s; tokrets := tokrets s; tlog := tlog s |}.

(* the body shared by pop / try_pop / pop_timeout: take the head if there is one *)
Definition take_ret (s : st) (t : nat) : option st :=
  match q s with
  | Elem v :: q' => Some {| q := q'; now := now s; rs := upd (rs s) t Idle; pushed := pushed s; got := got s ++ [v];
                            unblocks := unblocks s; tokrets := tokrets s; tlog := tlog s |}
  | Token :: q' => Some {| q := q'; now := now s; rs := upd (rs s) t Idle; pushed := pushed s; got := got s;
                            unblocks := unblocks s; tokrets := S (tokrets s); tlog := tlog s |}
  | [] => None
  end.

Definition ret_empty_timed (s : st) (t t0 T : nat) : st :=
  {| q := q s; now := now s; rs := upd (rs s) t Idle; pushed := pushed s; got := got s;
     unblocks := unblocks s; tokrets := tokrets s; tlog := tlog s ++ [(t0, T, now s)] |}.

(* time may not pass deadline + EPS while a receiver is still inside that timed wait *)
Definition in_time (t : nat) (r : rstate) : bool :=
  match r with TBlocked _ b _ T | TWoken _ _ b _ T => t <=? b + T + EPS | _ => true end.

Definition step (fixed : bool) (s : st) (l : label) : option st :=
  match l with
  | Push v w => match notify (rs s) w with
                | Some l' => Some {| q := q s ++ [Elem v]; now := now s; rs := l'; pushed := pushed s ++ [v]; got := got s;
                                     unblocks := unblocks s; tokrets := tokrets s; tlog := tlog s |}
                | None => None end
  | Unblock w => match notify (rs s) w with
                | Some l' => Some {| q := q s ++ [Token]; now := now s; rs := l'; pushed := pushed s; got := got s;
                                     unblocks := S (unblocks s); tokrets := tokrets s; tlog := tlog s |}
                | None => None end
  | CallPop t => match nth_error (rs s) t with
                 | Some Idle => match take_ret s t with Some s' => Some s' | None => Some (set_rs s (upd (rs s) t PopBlocked)) end
                 | _ => None end
  | CallTry t => match nth_error (rs s) t with
                 | Some Idle => match take_ret s t with Some s' => Some s' | None => Some s end
                 | _ => None end
  | CallTimed t T => match nth_error (rs s) t with
                 | Some Idle => match take_ret s t with Some s' => Some s'
                                | None => Some (set_rs s (upd (rs s) t (TBlocked (now s) (now s) T T))) end
                 | _ => None end
  | Spurious t => match nth_error (rs s) t with
                 | Some r => if is_blocked r then Some (set_rs s (upd (rs s) t (wake r))) else None
                 | None => None end
  | Timeout t => match nth_error (rs s) t with
                 | Some (TBlocked t0 b rem T) => if b + T <=? now s then Some (set_rs s (upd (rs s) t (TWoken true t0 b rem T))) else None
                 | _ => None end
  | Resume t => match nth_error (rs s) t with
                 | Some PopWoken => match take_ret s t with Some s' => Some s' | None => Some (set_rs s (upd (rs s) t PopBlocked)) end
                 | Some (TWoken to t0 b rem T) =>
                     let rem' := rem - (now s - b) in
                     if to || (rem' <? MS) then
                       if fixed then match take_ret s t with Some s' => Some s' | None => Some (ret_empty_timed s t t0 T) end
                       else Some (ret_empty_timed s t t0 T)
                     else match take_ret s t with Some s' => Some s'
                          | None => Some (set_rs s (upd (rs s) t (TBlocked t0 (now s) rem' T))) end
                 | _ => None end
  | Tick d => if negb (forallb (in_time (now s + d)) (rs s)) then None else
              Some {| q := q s; now := now s + d; rs := rs s; pushed := pushed s; got := got s;
                      unblocks := unblocks s; tokrets := tokrets s; tlog := tlog s |}
  end.

Fixpoint run (fixed : bool) (s : st) (ls : list label) : option st :=
  match ls with [] => Some s | l :: ls' => match step fixed s l with Some s' => run fixed s' ls' | None => None end end.

Definition init (n : nat) : st :=
  {| q := []; now := 0; rs := repeat Idle n; pushed := []; got := []; unblocks := 0; tokrets := 0; tlog := [] |}.

Fixpoint elems (l : list item) : list V := match l with [] => [] | Elem v :: t => v :: elems t | Token :: t => elems t end.
Fixpoint ntok (l : list item) : nat := match l with [] => 0 | Elem _ :: t => ntok t | Token :: t => S (ntok t) end.

Lemma elems_app a b : elems (a ++ b) = elems a ++ elems b.
Proof. induction a as [|[v|] a IH]; cbn; auto. now rewrite IH. Qed.
Lemma ntok_app a b : ntok (a ++ b) = ntok a + ntok b.
Proof. induction a as [|[v|] a IH]; cbn; auto. Qed.

(* ---------- (A) FIFO, exactly once; tokens conserved: holds for the tree as found too ---------- *)
Definition InvA (s : st) : Prop := got s ++ elems (q s) = pushed s /\ tokrets s + ntok (q s) = unblocks s.

Lemma take_ret_A s t s' : InvA s -> take_ret s t = Some s' -> InvA s'.
Proof.
  intros [H1 H2] H. unfold take_ret in H. destruct (q s) as [|[v|] q'] eqn:E; inversion H; subst; unfold InvA; cbn in *.
  - split; [now rewrite <- app_assoc|assumption].
  - split; [assumption|lia].
Qed.

Ltac finA HI := first [ eapply take_ret_A; eassumption | exact HI | (destruct HI; unfold InvA; cbn; split; assumption) ].

Lemma step_A fixed s l s' : InvA s -> step fixed s l = Some s' -> InvA s'.
Proof.
  intros HI H. pose proof HI as [H1 H2]. destruct l; cbn [step] in H.
  - destruct (notify (rs s) w); inversion H; subst; unfold InvA; cbn. rewrite elems_app, ntok_app; cbn. split; [now rewrite app_assoc, H1|lia].
  - destruct (notify (rs s) w); inversion H; subst; unfold InvA; cbn. rewrite elems_app, ntok_app; cbn. split; [now rewrite app_nil_r|lia].
  - destruct (nth_error (rs s) t) as [[| | | |]|]; try discriminate. destruct (take_ret s t) eqn:E; inversion H; subst; finA HI.
  - destruct (nth_error (rs s) t) as [[| | | |]|]; try discriminate. destruct (take_ret s t) eqn:E; inversion H; subst; finA HI.
  - destruct (nth_error (rs s) t) as [[| | | |]|]; try discriminate. destruct (take_ret s t) eqn:E; inversion H; subst; finA HI.
  - destruct (nth_error (rs s) t) as [r|]; try discriminate. destruct (is_blocked r); inversion H; subst; finA HI.
  - destruct (nth_error (rs s) t) as [[| | | |]|]; try discriminate. destruct (b + T <=? now s); inversion H; subst; finA HI.
  - destruct (nth_error (rs s) t) as [[| | | |]|]; try discriminate.
    + destruct (take_ret s t) eqn:E; inversion H; subst; finA HI.
    + destruct (to || (rem - (now s - b) <? MS)).
      * destruct fixed; [destruct (take_ret s t) eqn:E|]; inversion H; subst; finA HI.
      * destruct (take_ret s t) eqn:E; inversion H; subst; finA HI.
  - destruct (negb (forallb (in_time (now s + d)) (rs s))); inversion H; subst; finA HI.
Qed.

Theorem fifo_exactly_once fixed n ls s : run fixed (init n) ls = Some s ->
  got s ++ elems (q s) = pushed s /\ tokrets s + ntok (q s) = unblocks s.
Proof.
  assert (G : forall ls s0 s, InvA s0 -> run fixed s0 ls = Some s -> InvA s).
  { induction ls0 as [|l ls0 IH]; cbn; intros s0 s1 HI H; [inversion H; subst; auto|].
    destruct (step fixed s0 l) eqn:E; [|discriminate]. eapply IH; [eapply step_A; eauto|eauto]. }
  intros H. apply (G ls (init n) s); [split; reflexivity|exact H].
Qed.

(* ---------- (B) no lost wake-up: every queued item has an awake receiver while anyone is blocked ---------- *)
Definition InvB (s : st) : Prop := 0 < count is_blocked (rs s) -> length (q s) <= count is_woken (rs s).

Lemma count_upd f l i old x : nth_error l i = Some old ->
  count f (upd l i x) + (if f old then 1 else 0) = count f l + (if f x then 1 else 0).
Proof.
  unfold count. revert i. induction l as [|a l IH]; intros [|i] H; cbn in *; try discriminate.
  - inversion H; subst a. destruct (f old), (f x); cbn; lia.
  - specialize (IH i H). destruct (f a); cbn; lia.
Qed.

Lemma take_ret_B s t r s' : nth_error (rs s) t = Some r -> is_blocked r = false ->
  InvB s -> take_ret s t = Some s' -> InvB s'.
Proof.
  intros Hn Hb HI H. unfold take_ret in H.
  pose proof (count_upd is_blocked (rs s) t r Idle Hn) as Cb. pose proof (count_upd is_woken (rs s) t r Idle Hn) as Cw.
  rewrite Hb in Cb. cbn in Cb, Cw. unfold InvB in *.
  destruct (q s) as [|[v|] q'] eqn:E; inversion H; subst; cbn in *; intros Hpos;
    (assert (Hq : S (length q') <= count is_woken (rs s)) by (apply HI; lia)); destruct (is_woken r); lia.
Qed.

Lemma notify_counts l w l' : notify l w = Some l' ->
  (count is_blocked l = 0 /\ l' = l) \/
  (count is_blocked l' + 1 = count is_blocked l /\ count is_woken l' = count is_woken l + 1).
Proof.
  unfold notify. destruct w as [t|].
  - destruct (nth_error l t) as [r|] eqn:E; [|discriminate]. destruct (is_blocked r) eqn:Eb; [|discriminate].
    intros H; inversion H; subst. right.
    pose proof (count_upd is_blocked l t r (wake r) E) as Cb. pose proof (count_upd is_woken l t r (wake r) E) as Cw.
    rewrite Eb in Cb. destruct r; cbn in *; try discriminate; lia.
  - destruct (Nat.eqb_spec (count is_blocked l) 0); [|discriminate]. intros H; inversion H; subst; auto.
Qed.

Lemma block_B s t r r' : nth_error (rs s) t = Some r -> is_blocked r = false -> is_blocked r' = true -> is_woken r' = false ->
  q s = [] -> InvB (set_rs s (upd (rs s) t r')).
Proof. intros Hn Hb Hb' Hw' Hq. unfold InvB; cbn. rewrite Hq; cbn. lia. Qed.

Lemma take_ret_none s t : take_ret s t = None -> q s = [].
Proof. unfold take_ret. destruct (q s) as [|[v|] q']; auto; discriminate. Qed.

Lemma step_B s l s' : InvB s -> step true s l = Some s' -> InvB s'.
Proof.
  intros HI H. destruct l; cbn [step] in H.
  - destruct (notify (rs s) w) as [l'|] eqn:En; inversion H; subst. unfold InvB in *; cbn. rewrite app_length; cbn.
    destruct (notify_counts _ _ _ En) as [[Hz ->]|[Hb Hw]]; lia.
  - destruct (notify (rs s) w) as [l'|] eqn:En; inversion H; subst. unfold InvB in *; cbn. rewrite app_length; cbn.
    destruct (notify_counts _ _ _ En) as [[Hz ->]|[Hb Hw]]; lia.
  - destruct (nth_error (rs s) t) as [[| | | |]|] eqn:En; try discriminate. destruct (take_ret s t) eqn:E; inversion H; subst.
    + eapply take_ret_B; eauto.
    + eapply block_B; eauto using take_ret_none.
  - destruct (nth_error (rs s) t) as [[| | | |]|] eqn:En; try discriminate. destruct (take_ret s t) eqn:E; inversion H; subst; auto.
    eapply take_ret_B; eauto.
  - destruct (nth_error (rs s) t) as [[| | | |]|] eqn:En; try discriminate. destruct (take_ret s t) eqn:E; inversion H; subst.
    + eapply take_ret_B; eauto.
    + eapply block_B; eauto using take_ret_none.
  - destruct (nth_error (rs s) t) as [r|] eqn:En; try discriminate. destruct (is_blocked r) eqn:Eb; inversion H; subst.
    unfold InvB in *; cbn.
    pose proof (count_upd is_blocked (rs s) t r (wake r) En) as Cb. pose proof (count_upd is_woken (rs s) t r (wake r) En) as Cw.
    rewrite Eb in Cb. destruct r; cbn in *; try discriminate; lia.
  - destruct (nth_error (rs s) t) as [[| | |t0 b rem T|]|] eqn:En; try discriminate. destruct (b + T <=? now s); inversion H; subst.
    unfold InvB in *; cbn.
    pose proof (count_upd is_blocked (rs s) t _ (TWoken true t0 b rem T) En) as Cb. pose proof (count_upd is_woken (rs s) t _ (TWoken true t0 b rem T) En) as Cw.
    cbn in *. lia.
  - destruct (nth_error (rs s) t) as [[| | | |to t0 b rem T]|] eqn:En; try discriminate.
    + destruct (take_ret s t) eqn:E; inversion H; subst.
      * eapply take_ret_B; eauto.
      * pose proof (take_ret_none _ _ E) as Hq. unfold InvB; cbn. rewrite Hq; cbn. lia.
    + destruct (to || (rem - (now s - b) <? MS)).
      * destruct (take_ret s t) eqn:E; inversion H; subst.
        -- eapply take_ret_B; eauto.
        -- pose proof (take_ret_none _ _ E) as Hq. unfold InvB; cbn. rewrite Hq; cbn. lia.
      * destruct (take_ret s t) eqn:E; inversion H; subst.
        -- eapply take_ret_B; eauto.
        -- pose proof (take_ret_none _ _ E) as Hq. unfold InvB; cbn. rewrite Hq; cbn. lia.
  - destruct (negb (forallb (in_time (now s + d)) (rs s))); inversion H; subst. exact HI.
Qed.

Theorem no_lost_wakeup n ls s : run true (init n) ls = Some s ->
  0 < count is_blocked (rs s) -> length (q s) <= count is_woken (rs s).
Proof.
  assert (G : forall ls s0 s, InvB s0 -> run true s0 ls = Some s -> InvB s).
  { induction ls0 as [|l ls0 IH]; cbn; intros s0 s1 HI H; [inversion H; subst; auto|].
    destruct (step true s0 l) eqn:E; [|discriminate]. eapply IH; [eapply step_B; eauto|eauto]. }
  intros H. apply (G ls (init n) s); [|exact H]. unfold InvB, init; cbn. lia.
Qed.

(* a woken receiver can always move, and takes the head when there is one *)
Theorem woken_takes_head s t r : nth_error (rs s) t = Some r -> is_woken r = true -> q s <> [] ->
  exists s', step true s (Resume t) = Some s' /\ length (q s') + 1 = length (q s).
Proof.
  intros Hn Hw Hq. destruct r; try discriminate; cbn [step]; rewrite Hn.
  - unfold take_ret. destruct (q s) as [|[v|] q']; [congruence| |]; eexists; split; try reflexivity; cbn; lia.
  - destruct (to || (rem - (now s - b) <? MS)); unfold take_ret; destruct (q s) as [|[v|] q']; try congruence; eexists; split; try reflexivity; cbn; lia.
Qed.

(* try_pop is a single step that leaves the receiver idle *)
Lemma nth_upd_same {A} (l : list A) i x old : nth_error l i = Some old -> nth_error (upd l i x) i = Some x.
Proof. revert i; induction l as [|a l IH]; intros [|i] H; cbn in *; try discriminate; auto. Qed.
Theorem try_is_one_step fixed s s' t : step fixed s (CallTry t) = Some s' -> nth_error (rs s') t = Some Idle.
Proof.
  cbn [step]. destruct (nth_error (rs s) t) as [[| | | |]|] eqn:En; try discriminate.
  unfold take_ret. destruct (q s) as [|[v|] q']; intros H; inversion H; subst; cbn; auto; eapply nth_upd_same; eauto.
Qed.

(* ---------- (C) timed receive: no empty-handed return before T - 1ms ---------- *)
Definition okT (now_ : nat) (r : rstate) : Prop :=
  match r with
  | TBlocked t0 b rem T | TWoken _ t0 b rem T => t0 <= b /\ b <= now_ /\ rem = T - (b - t0)
  | _ => True end.
Definition okTo (now_ : nat) (r : rstate) : Prop :=
  match r with TWoken true t0 b rem T => b + T <= now_ | _ => True end.
Definition okR now_ r := okT now_ r /\ okTo now_ r.
Definition InvC (s : st) : Prop :=
  (forall t r, nth_error (rs s) t = Some r -> okR (now s) r) /\
  (forall t0 T t1, In (t0, T, t1) (tlog s) -> T <= (t1 - t0) + MS).

Lemma upd_all {A} (P : A -> Prop) (l : list A) i x :
  (forall t r, nth_error l t = Some r -> P r) -> P x -> forall t r, nth_error (upd l i x) t = Some r -> P r.
Proof.
  revert i. induction l as [|a l IH]; intros [|i] Hl Hx [|t] r H; cbn in *; try discriminate.
  - inversion H; subst; auto.
  - apply (Hl (S t)); auto.
  - inversion H; subst. apply (Hl 0); auto.
  - eapply IH; eauto. intros t' r' H'. apply (Hl (S t')); auto.
Qed.

Lemma take_ret_C s t s' : InvC s -> take_ret s t = Some s' -> InvC s'.
Proof.
  intros [HR HL] H. unfold take_ret in H.
  destruct (q s) as [|[v|] q']; inversion H; subst; split; cbn; auto;
    apply (upd_all (okR (now s))); auto; unfold okR; cbn; auto.
Qed.

Lemma notify_C now_ l w l' : (forall t r, nth_error l t = Some r -> okR now_ r) -> notify l w = Some l' ->
  forall t r, nth_error l' t = Some r -> okR now_ r.
Proof.
  intros Hl H. unfold notify in H. destruct w as [t|].
  - destruct (nth_error l t) as [r|] eqn:E; [|discriminate]. destruct (is_blocked r); inversion H; subst.
    apply upd_all; auto. specialize (Hl t r E). destruct r; cbn in *; tauto.
  - destruct (count is_blocked l =? 0); inversion H; subst; auto.
Qed.

Lemma step_C fixed s l s' : InvC s -> step fixed s l = Some s' -> InvC s'.
Proof.
  intros HI H. pose proof HI as [HR HL]. destruct l; cbn [step] in H.
  - destruct (notify (rs s) w) as [l'|] eqn:En; inversion H; subst. split; cbn; auto. eapply notify_C; eauto.
  - destruct (notify (rs s) w) as [l'|] eqn:En; inversion H; subst. split; cbn; auto. eapply notify_C; eauto.
  - destruct (nth_error (rs s) t) as [[| | | |]|] eqn:En; try discriminate. destruct (take_ret s t) eqn:E; inversion H; subst.
    + eapply take_ret_C; eauto.
    + split; cbn; auto. apply (upd_all (okR (now s))); auto. unfold okR; cbn; auto.
  - destruct (nth_error (rs s) t) as [[| | | |]|] eqn:En; try discriminate. destruct (take_ret s t) eqn:E; inversion H; subst; auto.
    eapply take_ret_C; eauto.
  - destruct (nth_error (rs s) t) as [[| | | |]|] eqn:En; try discriminate. destruct (take_ret s t) eqn:E; inversion H; subst.
    + eapply take_ret_C; eauto.
    + split; cbn; auto. apply (upd_all (okR (now s))); auto. unfold okR; cbn. repeat split; lia.
  - destruct (nth_error (rs s) t) as [r|] eqn:En; try discriminate. destruct (is_blocked r); inversion H; subst.
    split; cbn; auto. apply (upd_all (okR (now s))); auto. specialize (HR t r En). destruct r; cbn in *; tauto.
  - destruct (nth_error (rs s) t) as [[| | |t0 b rem T|]|] eqn:En; try discriminate.
    destruct (Nat.leb_spec (b + T) (now s)); inversion H; subst.
    split; cbn; auto. apply (upd_all (okR (now s))); auto. specialize (HR t _ En). unfold okR in *; cbn in *. tauto.
  - destruct (nth_error (rs s) t) as [[| | | |to t0 b rem T]|] eqn:En; try discriminate.
    + destruct (take_ret s t) eqn:E; inversion H; subst.
      * eapply take_ret_C; eauto.
      * split; cbn; auto. apply (upd_all (okR (now s))); auto. unfold okR; cbn; auto.
    + specialize (HR t _ En) as HRt. unfold okR in HRt; cbn in HRt. destruct HRt as [(H0b & Hbn & Hrem) Hto].
      assert (Hlog : (to || (rem - (now s - b) <? MS)) = true -> T <= (now s - t0) + MS).
      { intros Hc. apply orb_true_iff in Hc as [->|Hc]; [lia|]. apply Nat.ltb_lt in Hc. lia. }
      assert (Hemp : (to || (rem - (now s - b) <? MS)) = true -> InvC (ret_empty_timed s t t0 T)).
      { intros Hc. split; cbn.
        - apply (upd_all (okR (now s))); auto. unfold okR; cbn; auto.
        - intros a b0 c Hin. apply in_app_or in Hin as [Hin|[Hin|[]]]; [eauto|]. inversion Hin; subst. auto. }
      destruct (to || (rem - (now s - b) <? MS)) eqn:Ec.
      * destruct fixed; [destruct (take_ret s t) eqn:E|]; inversion H; subst; auto. eapply take_ret_C; eauto.
      * destruct (take_ret s t) eqn:E; inversion H; subst; [eapply take_ret_C; eauto|].
        split; cbn; auto. apply (upd_all (okR (now s))); auto. unfold okR; cbn. repeat split; lia.
  - destruct (negb (forallb (in_time (now s + d)) (rs s))); inversion H; subst. split; cbn; auto. intros t r Hn. specialize (HR t r Hn). unfold okR in *.
    destruct r as [| | | |[]]; cbn in *; intuition lia.
Qed.

Theorem timed_lower_bound fixed n ls s : run fixed (init n) ls = Some s ->
  forall t0 T t1, In (t0, T, t1) (tlog s) -> T <= (t1 - t0) + MS.
Proof.
  assert (G : forall ls s0 s, InvC s0 -> run fixed s0 ls = Some s -> InvC s).
  { induction ls0 as [|l ls0 IH]; cbn; intros s0 s1 HI H; [inversion H; subst; auto|].
    destruct (step fixed s0 l) eqn:E; [|discriminate]. eapply IH; [eapply step_C; eauto|eauto]. }
  intros H. apply (G ls (init n) s); [|exact H]. split; cbn; [|tauto].
  intros t r Hn. apply nth_error_In in Hn. apply repeat_spec in Hn. subst; unfold okR; cbn; auto.
Qed.

(* ---------- (D) timed receive: empty-handed return no later than 2T + EPS ---------- *)
Definition okD (now_ : nat) (r : rstate) : Prop :=
  match r with
  | TBlocked t0 b rem T | TWoken _ t0 b rem T => now_ <= b + T + EPS /\ t0 <= b /\ (b = t0 \/ (b - t0) + MS <= T) /\ rem = T - (b - t0) /\ b <= now_
  | _ => True end.
Definition InvD (s : st) : Prop :=
  (forall t r, nth_error (rs s) t = Some r -> okD (now s) r) /\
  (forall t0 T t1, In (t0, T, t1) (tlog s) -> t1 <= t0 + 2 * T + EPS).

Lemma take_ret_D s t s' : InvD s -> take_ret s t = Some s' -> InvD s'.
Proof.
  intros [HR HL] H. unfold take_ret in H.
  destruct (q s) as [|[v|] q']; inversion H; subst; split; cbn; auto; apply (upd_all (okD (now s))); auto; cbn; auto.
Qed.

Lemma notify_D now_ l w l' : (forall t r, nth_error l t = Some r -> okD now_ r) -> notify l w = Some l' ->
  forall t r, nth_error l' t = Some r -> okD now_ r.
Proof.
  intros Hl H. unfold notify in H. destruct w as [t|].
  - destruct (nth_error l t) as [r|] eqn:E; [|discriminate]. destruct (is_blocked r); inversion H; subst.
    apply upd_all; auto. specialize (Hl t r E). destruct r; cbn in *; tauto.
  - destruct (count is_blocked l =? 0); inversion H; subst; auto.
Qed.

Lemma step_D fixed s l s' : InvD s -> step fixed s l = Some s' -> InvD s'.
Proof.
  intros HI H. pose proof HI as [HR HL]. destruct l; cbn [step] in H.
  - destruct (notify (rs s) w) as [l'|] eqn:En; inversion H; subst. split; cbn; auto. eapply notify_D; eauto.
  - destruct (notify (rs s) w) as [l'|] eqn:En; inversion H; subst. split; cbn; auto. eapply notify_D; eauto.
  - destruct (nth_error (rs s) t) as [[| | | |]|] eqn:En; try discriminate. destruct (take_ret s t) eqn:E; inversion H; subst.
    + exact (take_ret_D _ _ _ HI E).
    + split; cbn; auto. apply (upd_all (okD (now s))); auto. cbn; auto.
  - destruct (nth_error (rs s) t) as [[| | | |]|] eqn:En; try discriminate. destruct (take_ret s t) eqn:E; inversion H; subst; auto.
    exact (take_ret_D _ _ _ HI E).
  - destruct (nth_error (rs s) t) as [[| | | |]|] eqn:En; try discriminate. destruct (take_ret s t) eqn:E; inversion H; subst.
    + exact (take_ret_D _ _ _ HI E).
    + split; cbn; auto. apply (upd_all (okD (now s))); auto. cbn. repeat split; lia.
  - destruct (nth_error (rs s) t) as [r|] eqn:En; try discriminate. destruct (is_blocked r); inversion H; subst.
    split; cbn; auto. apply (upd_all (okD (now s))); auto. specialize (HR t r En). destruct r; cbn in *; tauto.
  - destruct (nth_error (rs s) t) as [[| | |t0 b rem T|]|] eqn:En; try discriminate.
    destruct (Nat.leb_spec (b + T) (now s)); inversion H; subst.
    split; cbn; auto. apply (upd_all (okD (now s))); auto. specialize (HR t _ En). cbn in *. tauto.
  - destruct (nth_error (rs s) t) as [[| | | |to t0 b rem T]|] eqn:En; try discriminate.
    + destruct (take_ret s t) eqn:E; inversion H; subst.
      * exact (take_ret_D _ _ _ HI E).
      * split; cbn; auto. apply (upd_all (okD (now s))); auto. cbn; auto.
    + specialize (HR t _ En) as HRt. cbn in HRt. destruct HRt as (Hn & H0b & Hb & Hrem & Hbn).
      assert (Hemp : InvD (ret_empty_timed s t t0 T)).
      { split; cbn [ret_empty_timed rs now tlog].
        - apply (upd_all (okD (now s))); auto. cbn; auto.
        - intros a b0 c Hin. apply in_app_or in Hin as [Hin|[Hin|[]]]; [exact (HL _ _ _ Hin)|]. inversion Hin; subst. lia. }
      destruct (to || (rem - (now s - b) <? MS)) eqn:Ec.
      * destruct fixed; [destruct (take_ret s t) eqn:E|]; inversion H; subst; auto. exact (take_ret_D _ _ _ HI E).
      * apply orb_false_iff in Ec as [_ Ec]. apply Nat.ltb_ge in Ec.
        destruct (take_ret s t) eqn:E; inversion H; subst; [exact (take_ret_D _ _ _ HI E)|].
        split; cbn; auto. apply (upd_all (okD (now s))); auto. cbn. repeat split; try lia.
  - destruct (forallb (in_time (now s + d)) (rs s)) eqn:Ef; cbn in H; inversion H; subst. split; cbn; auto.
    intros t r Hn. specialize (HR t r Hn). rewrite forallb_forall in Ef. specialize (Ef r (nth_error_In _ _ Hn)).
    destruct r; cbn in *; auto; apply Nat.leb_le in Ef; intuition lia.
Qed.

Theorem timed_upper_bound fixed n ls s : run fixed (init n) ls = Some s ->
  forall t0 T t1, In (t0, T, t1) (tlog s) -> t1 <= t0 + 2 * T + EPS.
Proof.
  assert (G : forall ls s0 s, InvD s0 -> run fixed s0 ls = Some s -> InvD s).
  { induction ls0 as [|l ls0 IH]; cbn; intros s0 s1 HI H; [inversion H; subst; auto|].
    destruct (step fixed s0 l) eqn:E; [|discriminate]. eapply IH; [eapply step_D; eauto|eauto]. }
  intros H. apply (G ls (init n) s); [|exact H]. split; cbn; [|tauto].
  intros t r Hn. apply nth_error_In in Hn. apply repeat_spec in Hn. subst; cbn; auto.
Qed.
End MQ.

(* the tree as found: a notification that reaches a timed receiver in its last millisecond is lost *)
Example asfound_lost_wakeup :
  exists ls s, run nat 10 5 false (init nat 2) ls = Some s /\
    0 < count is_blocked (rs nat s) /\ ~ length (q nat s) <= count is_woken (rs nat s).
Proof.
  exists [CallTimed nat 0 300; CallPop nat 1; Tick nat 294; Push nat 7 (Some 0); Resume nat 0].
  eexists. split; [vm_compute; reflexivity|]. vm_compute. split; [lia|lia].
Qed.
