(* Conc/SeqWriter.v — the sequential-writer chain of src/util/sequential.rs (SequentialWriterBuilder /
   SequentialWriter) as an interleaving transition system over ALL label sequences, any number of
   writers and threads. Labels: New = SequentialWriterBuilder::next (sequential.rs:98-111);
   Write i d / Flush i = sequential.rs:127-145 (consume the trigger if still held: blocks until the
   predecessor was dropped; lock; write/flush on the shared BufWriter); DropW i = Drop
   (sequential.rs:167-174). `fixed = true`: the repaired tree (Drop waits for its own turn, repair
   D1); `fixed = false`: the tree as found. The one-message channel between neighbours is
   represented by the predecessor's `dropped` flag and the receiver's `turn` flag.
   Model definitions first, then the invariant proofs. *)
From Coq Require Import List Arith Bool Lia.
Import ListNotations.

Section SeqW.
Variable byte : Type.
Definition bytes := list byte.

Record wr := { turn : bool; dropped : bool; sent : bytes }.
Record st := { ws : list wr; stream : bytes }.

Inductive label := New | Write (i : nat) (d : bytes) | Flush (i : nat) | DropW (i : nat).

Fixpoint upd {A} (l : list A) (i : nat) (x : A) : list A :=
  match l, i with
  | [], _ => []
  | _ :: t, 0 => x :: t
  | a :: t, S j => a :: upd t j x
  end.

Definition pred_done (l : list wr) (i : nat) : bool :=
  match i with 0 => true | S j => match nth_error l j with Some w => dropped w | None => false end end.

Definition can_go (l : list wr) (i : nat) (w : wr) : bool := turn w || pred_done l i.

(* fixed = true: Drop waits for its turn like write/flush; false: the tree as found *)
Definition step (fixed : bool) (s : st) (l : label) : option st :=
  match l with
  | New => Some {| ws := ws s ++ [{| turn := false; dropped := false; sent := [] |}]; stream := stream s |}
  | Write i d =>
      match nth_error (ws s) i with
      | Some w => if dropped w then None else
          if can_go (ws s) i w then
            Some {| ws := upd (ws s) i {| turn := true; dropped := false; sent := sent w ++ d |};
                    stream := stream s ++ d |}
          else None
      | None => None end
  | Flush i =>
      match nth_error (ws s) i with
      | Some w => if dropped w then None else
          if can_go (ws s) i w then
            Some {| ws := upd (ws s) i {| turn := true; dropped := false; sent := sent w |}; stream := stream s |}
          else None
      | None => None end
  | DropW i =>
      match nth_error (ws s) i with
      | Some w => if dropped w then None else
          if negb fixed || can_go (ws s) i w then
            Some {| ws := upd (ws s) i {| turn := (turn w || fixed); dropped := true; sent := sent w |}; stream := stream s |}
          else None
      | None => None end
  end.

Fixpoint run (fixed : bool) (s : st) (ls : list label) : option st :=
  match ls with [] => Some s | l :: ls' => match step fixed s l with Some s' => run fixed s' ls' | None => None end end.

Definition init : st := {| ws := []; stream := [] |}.

(* every writer that has (or had) the turn has all predecessors dropped; writers without turn wrote nothing *)
Definition Inv (s : st) : Prop :=
  stream s = concat (map sent (ws s)) /\
  (forall j w, nth_error (ws s) j = Some w -> turn w = true -> forall k wk, k < j -> nth_error (ws s) k = Some wk -> dropped wk = true) /\
  (forall j w, nth_error (ws s) j = Some w -> turn w = false -> sent w = []) /\
  (forall j w, nth_error (ws s) j = Some w -> dropped w = true -> turn w = true).

Lemma nth_upd_same {A} (l : list A) i x : i < length l -> nth_error (upd l i x) i = Some x.
Proof. revert i; induction l as [|a l IH]; intros [|i] H; cbn in *; try lia; auto. apply IH; lia. Qed.

Lemma nth_upd_other {A} (l : list A) i j x : i <> j -> nth_error (upd l i x) j = nth_error l j.
Proof. revert i j; induction l as [|a l IH]; intros [|i] [|j] H; cbn; auto; try congruence. Qed.

Lemma nth_upd_cases {A} (l : list A) i j x y : nth_error (upd l i x) j = Some y ->
  (j = i /\ y = x /\ i < length l) \/ (j <> i /\ nth_error l j = Some y).
Proof.
  intros H. destruct (Nat.eq_dec j i) as [->|Hne].
  - left. assert (i < length l). { destruct (Nat.lt_ge_cases i (length l)); auto.
      exfalso. revert i H H0. clear. induction l as [|a l IH]; intros [|i]; cbn; intros; try discriminate; try lia. apply (IH i); auto; lia. }
    rewrite nth_upd_same in H by assumption. intuition congruence.
  - right. rewrite nth_upd_other in H by congruence. auto.
Qed.

Lemma concat_upd_sent (l : list wr) i w w' d :
  nth_error l i = Some w -> sent w' = sent w ++ d ->
  (forall j wj, i < j -> nth_error l j = Some wj -> sent wj = []) ->
  concat (map sent (upd l i w')) = concat (map sent l) ++ d.
Proof.
  revert i. induction l as [|a l IH]; intros [|i] Hi Hs Hlater; cbn in *; try discriminate.
  - inversion Hi; subst a. rewrite Hs.
    assert (Htail : concat (map sent l) = []).
    { apply concat_nil_Forall. rewrite Forall_map. apply Forall_forall. intros x Hx.
      apply In_nth_error in Hx. destruct Hx as [m Hm]. apply (Hlater (S m)); [lia|exact Hm]. }
    now rewrite Htail, !app_nil_r.
  - rewrite (IH i); auto; [now rewrite app_assoc|].
    intros j wj Hj Hn. apply (Hlater (S j)); [lia|exact Hn].
Qed.

Lemma concat_upd_same_sent (l : list wr) i w w' :
  nth_error l i = Some w -> sent w' = sent w -> concat (map sent (upd l i w')) = concat (map sent l).
Proof.
  revert i. induction l as [|a l IH]; intros [|i] Hi Hs; cbn in *; try discriminate.
  - inversion Hi; subst a. now rewrite Hs.
  - now rewrite (IH i).
Qed.

Lemma can_go_preds (s : st) i w : Inv s -> nth_error (ws s) i = Some w -> can_go (ws s) i w = true ->
  forall k wk, k < i -> nth_error (ws s) k = Some wk -> dropped wk = true.
Proof.
  intros (_ & Hturn & _ & Hdt) Hi Hgo k wk Hk Hnk. unfold can_go in Hgo. apply orb_true_iff in Hgo as [Ht|Hp].
  - exact (Hturn i w Hi Ht k wk Hk Hnk).
  - destruct i as [|j]; [lia|]. cbn in Hp. destruct (nth_error (ws s) j) as [wj|] eqn:Ej; [|discriminate].
    destruct (Nat.eq_dec k j) as [->|Hne]; [congruence|].
    assert (Hkj : k < j) by lia.
    exact (Hturn j wj Ej (Hdt j wj Ej Hp) k wk Hkj Hnk).
Qed.

Lemma later_empty (s : st) i w : Inv s -> nth_error (ws s) i = Some w -> dropped w = false ->
  forall j wj, i < j -> nth_error (ws s) j = Some wj -> sent wj = [].
Proof.
  intros (_ & Hturn & Hsent & _) Hi Hd j wj Hj Hnj. apply (Hsent j wj Hnj).
  destruct (turn wj) eqn:Et; auto. specialize (Hturn j wj Hnj Et i w Hj Hi). congruence.
Qed.

Lemma step_inv s l s' : Inv s -> step true s l = Some s' -> Inv s'.
Proof.
  intros HI Hstep. pose proof HI as (Hstr & Hturn & Hsent & Hdt).
  destruct l as [|i d|i|i]; cbn in Hstep.
  - inversion Hstep; subst s'; clear Hstep. unfold Inv; cbn. repeat split.
    + rewrite map_app, concat_app. cbn. now rewrite !app_nil_r.
    + intros j w Hj Ht k wk Hk Hnk.
      assert (Hjl : j < length (ws s) \/ j = length (ws s)).
      { assert (j < length (ws s ++ [{| turn := false; dropped := false; sent := [] |}])) by (apply nth_error_Some; congruence). rewrite app_length in H; cbn in H; lia. }
      destruct Hjl as [Hjl| ->].
      * rewrite nth_error_app1 in Hj, Hnk by lia. exact (Hturn j w Hj Ht k wk Hk Hnk).
      * rewrite nth_error_app2, Nat.sub_diag in Hj by lia. cbn in Hj. inversion Hj; subst w. discriminate.
    + intros j w Hj Ht. destruct (Nat.lt_ge_cases j (length (ws s))) as [Hl|Hl].
      * rewrite nth_error_app1 in Hj by lia. exact (Hsent _ _ Hj Ht).
      * rewrite nth_error_app2 in Hj by lia. destruct (j - length (ws s)) as [|[|m]]; cbn in Hj; inversion Hj; auto.
    + intros j w Hj Hd. destruct (Nat.lt_ge_cases j (length (ws s))) as [Hl|Hl].
      * rewrite nth_error_app1 in Hj by lia. exact (Hdt _ _ Hj Hd).
      * rewrite nth_error_app2 in Hj by lia. destruct (j - length (ws s)) as [|[|m]]; cbn in Hj; inversion Hj; subst; discriminate.
  - (* Write *)
    destruct (nth_error (ws s) i) as [w|] eqn:Ei; [|discriminate].
    destruct (dropped w) eqn:Ed; [discriminate|]. destruct (can_go (ws s) i w) eqn:Eg; [|discriminate].
    inversion Hstep; subst s'; clear Hstep. unfold Inv; cbn. repeat split.
    + rewrite Hstr. symmetry. eapply concat_upd_sent; eauto. eapply later_empty; eauto.
    + intros j wj Hj Ht k wk Hk Hnk.
      apply nth_upd_cases in Hj as [(-> & -> & _)|(Hne & Hj)]; apply nth_upd_cases in Hnk as [(-> & -> & _)|(Hnek & Hnk)]; try lia.
      * exact (can_go_preds s i w HI Ei Eg k wk Hk Hnk).
      * specialize (Hturn j wj Hj Ht i w Hk Ei). congruence.
      * exact (Hturn j wj Hj Ht k wk Hk Hnk).
    + intros j wj Hj Ht. apply nth_upd_cases in Hj as [(-> & -> & _)|(Hne & Hj)]; [discriminate|exact (Hsent _ _ Hj Ht)].
    + intros j wj Hj Hd. apply nth_upd_cases in Hj as [(-> & -> & _)|(Hne & Hj)]; [discriminate|exact (Hdt _ _ Hj Hd)].
  - (* Flush *)
    destruct (nth_error (ws s) i) as [w|] eqn:Ei; [|discriminate].
    destruct (dropped w) eqn:Ed; [discriminate|]. destruct (can_go (ws s) i w) eqn:Eg; [|discriminate].
    inversion Hstep; subst s'; clear Hstep. unfold Inv; cbn. repeat split.
    + rewrite Hstr. symmetry. eapply concat_upd_same_sent; eauto.
    + intros j wj Hj Ht k wk Hk Hnk.
      apply nth_upd_cases in Hj as [(-> & -> & _)|(Hne & Hj)]; apply nth_upd_cases in Hnk as [(-> & -> & _)|(Hnek & Hnk)]; try lia.
      * exact (can_go_preds s i w HI Ei Eg k wk Hk Hnk).
      * specialize (Hturn j wj Hj Ht i w Hk Ei). congruence.
      * exact (Hturn j wj Hj Ht k wk Hk Hnk).
    + intros j wj Hj Ht. apply nth_upd_cases in Hj as [(-> & -> & _)|(Hne & Hj)]; [discriminate|exact (Hsent _ _ Hj Ht)].
    + intros j wj Hj Hd. apply nth_upd_cases in Hj as [(-> & -> & _)|(Hne & Hj)]; [discriminate|exact (Hdt _ _ Hj Hd)].
  - (* Drop *)
    destruct (nth_error (ws s) i) as [w|] eqn:Ei; [|discriminate].
    destruct (dropped w) eqn:Ed; [discriminate|]. cbn in Hstep. destruct (can_go (ws s) i w) eqn:Eg; [|discriminate].
    inversion Hstep; subst s'; clear Hstep. unfold Inv; cbn. repeat split.
    + rewrite Hstr. symmetry. eapply concat_upd_same_sent; eauto.
    + intros j wj Hj Ht k wk Hk Hnk.
      apply nth_upd_cases in Hj as [(-> & -> & _)|(Hne & Hj)]; apply nth_upd_cases in Hnk as [(-> & -> & _)|(Hnek & Hnk)]; try lia; cbn; auto.
      * exact (can_go_preds s i w HI Ei Eg k wk Hk Hnk).
      * exact (Hturn j wj Hj Ht k wk Hk Hnk).
    + intros j wj Hj Ht. apply nth_upd_cases in Hj as [(-> & -> & _)|(Hne & Hj)]; [cbn in Ht; rewrite orb_true_r in Ht; discriminate|exact (Hsent _ _ Hj Ht)].
    + intros j wj Hj Hd. apply nth_upd_cases in Hj as [(-> & -> & _)|(Hne & Hj)]; [cbn; apply orb_true_r|exact (Hdt _ _ Hj Hd)].
Qed.

Lemma init_inv : Inv init.
Proof. unfold Inv, init; cbn. repeat split; intros [|j] ? H; cbn in H; discriminate. Qed.

Theorem run_inv ls : forall s s', Inv s -> run true s ls = Some s' -> Inv s'.
Proof.
  induction ls as [|l ls IH]; cbn; intros s s' HI H; [now inversion H; subst|].
  destruct (step true s l) as [s1|] eqn:E; [|discriminate]. eapply IH; [eapply step_inv; eauto|exact H].
Qed.

(* C01 core: on every reachable state the byte stream is the in-order concatenation of per-writer blocks *)
Theorem ordered_not_interleaved ls s : run true init ls = Some s -> stream s = concat (map sent (ws s)).
Proof. intros H. now destruct (run_inv ls init s init_inv H). Qed.

End SeqW.

(* the tree as found: a writer dropped without having waited releases its successor early *)
Example unfixed_refuted :
  exists ls s, run nat false (init nat) ls = Some s /\ stream nat s <> concat (map (sent nat) (ws nat s)).
Proof.
  exists [New nat; New nat; New nat; DropW nat 1; Write nat 2 [3]; Write nat 0 [1]; DropW nat 0; DropW nat 2].
  eexists. split; [vm_compute; reflexivity|]. vm_compute. discriminate.
Qed.
