(* Conc/TaskPool.v — src/util/task_pool.rs as an interleaving transition system with virtual time,
   over ALL label sequences: any number of workers, dispatch bursts, wake-up / timeout orders.
   Labels <-> code: Dispatch = TaskPool::spawn (task_pool.rs:69-78); Start/Exit = the counter
   updates outside the lock (83-84, 113-127); Lock = 91-103 (pop_front or register as waiting and
   choose timed vs untimed wait); Resume = 104-116 after the wait returns; PoolDrop = 130-137.
   `fixed = true`: the repaired dispatch test `waiting <= queue.len()` (repair D3);
   `fixed = false`: as found (`waiting == 0`). Model definitions first, then the invariant proofs. *)
From Coq Require Import List Arith Bool Lia.
Import ListNotations.

Section TP.
Variable task : Type.
Variable MIN : nat.       (* MIN_THREADS *)
Variable IDLE : nat.      (* 5000 ms *)
Variable BIG : nat.       (* 999_999_999 *)
Hypothesis BIG_big : MIN < BIG.

Inductive wstate :=
| Spawned (f : option task)          (* thread created, has not yet incremented active_tasks *)
| AtLock                             (* about to lock `todo` *)
| Blocked (timed : bool) (deadline : nat)
| Woken (received : bool)            (* wait returned (notified / spurious: true, timed out: false), lock not yet re-acquired *)
| Running (tk : task)
| Exiting                            (* decided to return, active_tasks not yet decremented *)
| Exited.

Record st := { todo : list task; waiting : nat; active : nat; dropped : bool; now : nat;
               ws : list wstate; started : list task }.

Inductive label :=
| Dispatch (tk : task) (w : option nat) | Start (w : nat) | TaskDone (w : nat) | Lock (w : nat)
| Spurious (w : nat) | Timeout (w : nat) | Resume (w : nat) | Exit (w : nat) | PoolDrop | Tick (d : nat).

Fixpoint upd {A} (l : list A) (i : nat) (x : A) : list A :=
  match l, i with [], _ => [] | _ :: t, 0 => x :: t | a :: t, S j => a :: upd t j x end.

Definition is_blocked r := match r with Blocked _ _ => true | _ => false end.
Definition is_untimed r := match r with Blocked false _ => true | _ => false end.
Definition is_woken r := match r with Woken _ => true | _ => false end.
Definition is_live r := match r with AtLock | Blocked _ _ | Woken _ | Running _ | Exiting => true | _ => false end.
Definition count (f : wstate -> bool) (l : list wstate) : nat := length (filter f l).
Arguments count : simpl never.

Definition wake r := match r with Blocked _ _ => Woken true | r => r end.

Definition notify (l : list wstate) (w : option nat) : option (list wstate) :=
  match w with
  | Some t => match nth_error l t with
              | Some r => if is_blocked r then Some (upd l t (wake r)) else None
              | None => None end
  | None => if Nat.eqb (count is_blocked l) 0 then Some l else None
  end.

(* the body of the worker's inner loop, executed with the lock held: take a task or register and wait *)
Definition pop_or_wait (s : st) (w : nat) (waiting' : nat) : st :=
  match todo s with
  | tk :: rest => {| todo := rest; waiting := waiting'; active := active s; dropped := dropped s; now := now s;
                     ws := upd (ws s) w (Running tk); started := started s ++ [tk] |}
  | [] => {| todo := []; waiting := S waiting'; active := active s; dropped := dropped s; now := now s;
             ws := upd (ws s) w (Blocked (MIN <? active s) (now s + IDLE)); started := started s |}
  end.

Definition set_ws s l := {| todo := todo s; waiting := waiting s; active := active s; dropped := dropped s; now := now s; ws := l; started := started s |}.

Definition step (fixed : bool) (s : st) (l : label) : option st :=
  match l with
  | Dispatch tk w =>
      if dropped s then None else
      if (if fixed then waiting s <=? length (todo s) else waiting s =? 0) then
        match w with None => Some (set_ws s (ws s ++ [Spawned (Some tk)])) | Some _ => None end
      else match notify (ws s) w with
           | Some l' => Some {| todo := todo s ++ [tk]; waiting := waiting s; active := active s; dropped := dropped s; now := now s; ws := l'; started := started s |}
           | None => None end
  | Start w => match nth_error (ws s) w with
               | Some (Spawned (Some tk)) => Some {| todo := todo s; waiting := waiting s; active := S (active s); dropped := dropped s; now := now s;
                                                     ws := upd (ws s) w (Running tk); started := started s ++ [tk] |}
               | Some (Spawned None) => Some {| todo := todo s; waiting := waiting s; active := S (active s); dropped := dropped s; now := now s;
                                                ws := upd (ws s) w AtLock; started := started s |}
               | _ => None end
  | TaskDone w => match nth_error (ws s) w with Some (Running _) => Some (set_ws s (upd (ws s) w AtLock)) | _ => None end
  | Lock w => match nth_error (ws s) w with Some AtLock => Some (pop_or_wait s w (waiting s)) | _ => None end
  | Spurious w => match nth_error (ws s) w with Some (Blocked _ _) => Some (set_ws s (upd (ws s) w (Woken true))) | _ => None end
  | Timeout w => match nth_error (ws s) w with
                 | Some (Blocked true d) => if d <=? now s then Some (set_ws s (upd (ws s) w (Woken false))) else None
                 | _ => None end
  | Resume w => match nth_error (ws s) w with
                | Some (Woken r) =>
                    if negb r && (match todo s with [] => true | _ => false end)
                    then Some {| todo := todo s; waiting := waiting s - 1; active := active s; dropped := dropped s; now := now s;
                                 ws := upd (ws s) w Exiting; started := started s |}
                    else Some (pop_or_wait s w (waiting s - 1))
                | _ => None end
  | Exit w => match nth_error (ws s) w with
              | Some Exiting => if dropped s && (active s <=? S MIN) then None (* assumption: fewer than BIG-MIN workers *) else
                                Some {| todo := todo s; waiting := waiting s; active := active s - 1; dropped := dropped s; now := now s;
                                        ws := upd (ws s) w Exited; started := started s |}
              | _ => None end
  | PoolDrop => Some {| todo := todo s; waiting := waiting s; active := BIG; dropped := true; now := now s;
                        ws := map wake (ws s); started := started s |}
  | Tick d => Some {| todo := todo s; waiting := waiting s; active := active s; dropped := dropped s; now := now s + d; ws := ws s; started := started s |}
  end.

Fixpoint run (fixed : bool) (s : st) (ls : list label) : option st :=
  match ls with [] => Some s | l :: ls' => match step fixed s l with Some s' => run fixed s' ls' | None => None end end.

Definition init : st := {| todo := []; waiting := 0; active := 0; dropped := false; now := 0; ws := repeat (Spawned None) MIN; started := [] |}.

Lemma count_upd f l i old x : nth_error l i = Some old ->
  count f (upd l i x) + (if f old then 1 else 0) = count f l + (if f x then 1 else 0).
Proof.
  unfold count. revert i. induction l as [|a l IH]; intros [|i] H; cbn in *; try discriminate.
  - inversion H; subst a. destruct (f old), (f x); cbn; lia.
  - specialize (IH i H). destruct (f a); cbn; lia.
Qed.
Lemma count_app f a b : count f (a ++ b) = count f a + count f b.
Proof. unfold count. now rewrite filter_app, app_length. Qed.
Lemma count_repeat_false f x n : f x = false -> count f (repeat x n) = 0.
Proof. intros H. unfold count. induction n; cbn; auto. now rewrite H. Qed.
Lemma count_map_wake_blocked l : count is_blocked (map wake l) = 0.
Proof. unfold count. induction l as [|[]]; cbn; auto. Qed.
Lemma count_map_wake_untimed l : count is_untimed (map wake l) = 0.
Proof. unfold count. induction l as [|[| |[]| | | |]]; cbn; auto. Qed.
Lemma count_map_wake_woken l : count is_woken (map wake l) = count is_woken l + count is_blocked l.
Proof. unfold count. induction l as [|[]]; cbn; auto; lia. Qed.
Lemma count_map_wake_live l : count is_live (map wake l) = count is_live l.
Proof. unfold count. induction l as [|[]]; cbn; auto. Qed.
Lemma untimed_le_blocked l : count is_untimed l <= count is_blocked l.
Proof. unfold count. induction l as [|[| |[]| | | |]]; cbn; auto; lia. Qed.

Lemma untimed_le_live l : count is_untimed l <= count is_live l.
Proof. unfold count. induction l as [|[| |[]| | | |]]; cbn; auto; lia. Qed.
Lemma untimed_lt_live l w r : nth_error l w = Some r -> is_live r = true -> is_untimed r = false ->
  count is_untimed l + 1 <= count is_live l.
Proof.
  revert w. induction l as [|a l IH]; intros [|w] H Hl Hu; cbn in H; try discriminate.
  - inversion H; subst a. pose proof (untimed_le_live l). unfold count in *; cbn. rewrite Hl, Hu. cbn. lia.
  - specialize (IH w H Hl Hu). unfold count in *; cbn. destruct a as [| |[]| | | |]; cbn; lia.
Qed.

(* J1: the idle counter counts registered workers; J2: every queued task has an awake worker;
   J3: before the pool is dropped the thread counter counts live workers; J4: at most MIN untimed waiters *)
Definition Inv (s : st) : Prop :=
  waiting s = count is_blocked (ws s) + count is_woken (ws s) /\
  length (todo s) <= count is_woken (ws s) /\
  (dropped s = false -> active s = count is_live (ws s)) /\
  (dropped s = true -> MIN < active s /\ count is_untimed (ws s) = 0) /\
  count is_untimed (ws s) <= MIN.

Lemma notify_counts l w l' : notify l w = Some l' ->
  (count is_blocked l = 0 /\ l' = l) \/
  (count is_blocked l' + 1 = count is_blocked l /\ count is_woken l' = count is_woken l + 1 /\
   count is_live l' = count is_live l /\ count is_untimed l' <= count is_untimed l).
Proof.
  unfold notify. destruct w as [t|].
  - destruct (nth_error l t) as [r|] eqn:E; [|discriminate]. destruct (is_blocked r) eqn:Eb; [|discriminate].
    intros H; inversion H; subst. right.
    pose proof (count_upd is_blocked l t r (wake r) E). pose proof (count_upd is_woken l t r (wake r) E).
    pose proof (count_upd is_live l t r (wake r) E). pose proof (count_upd is_untimed l t r (wake r) E).
    destruct r as [| |[]| | | |]; cbn in *; try discriminate; lia.
  - destruct (Nat.eqb_spec (count is_blocked l) 0); [|discriminate]. intros H; inversion H; subst; auto.
Qed.

Ltac fin J3 J3' := repeat split; try lia;
  try (let Hd := fresh "Hd" in intros Hd; specialize (J3 Hd); lia);
  try (match goal with H : dropped _ = true |- _ => destruct (J3' H); lia end).

Lemma pop_or_wait_inv s w r wt :
  nth_error (ws s) w = Some r -> (r = AtLock /\ wt = waiting s) \/ (exists b, r = Woken b /\ wt = waiting s - 1) ->
  Inv s -> Inv (pop_or_wait s w wt).
Proof.
  intros Hn Hr (J1 & J2 & J3 & J3' & J4). unfold pop_or_wait.
  assert (Hlive : is_live r = true) by (destruct Hr as [[-> _]|[b [-> _]]]; reflexivity).
  assert (Hunt : is_untimed r = false) by (destruct Hr as [[-> _]|[b [-> _]]]; reflexivity).
  assert (Hblk : is_blocked r = false) by (destruct Hr as [[-> _]|[b [-> _]]]; reflexivity).
  pose proof (untimed_lt_live _ _ _ Hn Hlive Hunt) as Hul.
  destruct (todo s) as [|tk rest] eqn:Et.
  - (* nothing to do: register and wait *)
    destruct (Nat.ltb_spec MIN (active s)) as [Hlt|Hge].
    + (* timed wait *)
      pose proof (count_upd is_blocked _ _ _ (Blocked true (now s + IDLE)) Hn) as Cb.
      pose proof (count_upd is_woken _ _ _ (Blocked true (now s + IDLE)) Hn) as Cw.
      pose proof (count_upd is_live _ _ _ (Blocked true (now s + IDLE)) Hn) as Cl.
      pose proof (count_upd is_untimed _ _ _ (Blocked true (now s + IDLE)) Hn) as Cu.
      rewrite Hlive in Cl. rewrite Hunt in Cu. rewrite Hblk in Cb. cbn in Cb, Cw, Cl, Cu.
      unfold Inv; cbn [todo waiting active dropped ws now started length].
      destruct Hr as [[-> ->]|[b [-> ->]]]; cbn in Cw; fin J3 J3'.
    + (* untimed wait: only possible before the pool is dropped, and then there is room *)
      destruct (dropped s) eqn:Ed; [destruct (J3' eq_refl); lia|]. specialize (J3 eq_refl).
      pose proof (count_upd is_blocked _ _ _ (Blocked false (now s + IDLE)) Hn) as Cb.
      pose proof (count_upd is_woken _ _ _ (Blocked false (now s + IDLE)) Hn) as Cw.
      pose proof (count_upd is_live _ _ _ (Blocked false (now s + IDLE)) Hn) as Cl.
      pose proof (count_upd is_untimed _ _ _ (Blocked false (now s + IDLE)) Hn) as Cu.
      rewrite Hlive in Cl. rewrite Hunt in Cu. rewrite Hblk in Cb. cbn in Cb, Cw, Cl, Cu.
      unfold Inv; cbn [todo waiting active dropped ws now started length].
      destruct Hr as [[-> ->]|[b [-> ->]]]; cbn in Cw; repeat split; try lia; try discriminate; try (intros _; lia).
  - (* take the head task *)
    pose proof (count_upd is_blocked _ _ _ (Running tk) Hn) as Cb. pose proof (count_upd is_woken _ _ _ (Running tk) Hn) as Cw.
    pose proof (count_upd is_live _ _ _ (Running tk) Hn) as Cl. pose proof (count_upd is_untimed _ _ _ (Running tk) Hn) as Cu.
    rewrite Hlive in Cl. rewrite Hunt in Cu. rewrite Hblk in Cb. cbn in Cb, Cw, Cl, Cu. cbn in J2.
    unfold Inv; cbn [todo waiting active dropped ws now started length].
    destruct Hr as [[-> ->]|[b [-> ->]]]; cbn in Cw; fin J3 J3'.
Qed.

Lemma live_pos l w r : nth_error l w = Some r -> is_live r = true -> 0 < count is_live l.
Proof.
  revert w. induction l as [|a l IH]; intros [|w] H Hl; cbn in H; try discriminate.
  - inversion H; subst. unfold count; cbn. rewrite Hl. cbn. lia.
  - specialize (IH w H Hl). unfold count in *; cbn. destruct (is_live a); cbn; lia.
Qed.

Lemma step_inv s l s' : Inv s -> step true s l = Some s' -> Inv s'.
Proof.
  intros HI H. pose proof HI as (J1 & J2 & J3 & J3' & J4). destruct l; cbn [step] in H.
  - (* Dispatch *)
    destruct (dropped s) eqn:Ed; [discriminate|]. specialize (J3 eq_refl).
    destruct (Nat.leb_spec (waiting s) (length (todo s))) as [Hle|Hgt].
    + destruct w; inversion H; subst. unfold Inv; cbn [todo waiting active dropped ws now started set_ws].
      rewrite !count_app. unfold count at 2 4 6 8 10 12; cbn. repeat split; try lia; try (intros _; lia); try congruence.
    + destruct (notify (ws s) w) as [l'|] eqn:En; inversion H; subst.
      unfold Inv; cbn [todo waiting active dropped ws now started set_ws]. rewrite app_length; cbn.
      destruct (notify_counts _ _ _ En) as [[Hz ->]|(Hb & Hw & Hl & Hu)]; repeat split; try lia; try (intros _; lia); try congruence.
  - (* Start *)
    destruct (nth_error (ws s) w) as [[[tk|]| | | | | |]|] eqn:En; try discriminate; inversion H; subst;
      unfold Inv; cbn [todo waiting active dropped ws now started set_ws];
      [ pose proof (count_upd is_blocked _ _ _ (Running tk) En) as Cb; pose proof (count_upd is_woken _ _ _ (Running tk) En) as Cw;
        pose proof (count_upd is_live _ _ _ (Running tk) En) as Cl; pose proof (count_upd is_untimed _ _ _ (Running tk) En) as Cu
      | pose proof (count_upd is_blocked _ _ _ AtLock En) as Cb; pose proof (count_upd is_woken _ _ _ AtLock En) as Cw;
        pose proof (count_upd is_live _ _ _ AtLock En) as Cl; pose proof (count_upd is_untimed _ _ _ AtLock En) as Cu ];
      cbn in Cb, Cw, Cl, Cu; fin J3 J3'.
  - (* TaskDone *)
    destruct (nth_error (ws s) w) as [[| | | |tk| |]|] eqn:En; try discriminate; inversion H; subst.
    unfold Inv; cbn [todo waiting active dropped ws now started set_ws].
    pose proof (count_upd is_blocked _ _ _ AtLock En) as Cb; pose proof (count_upd is_woken _ _ _ AtLock En) as Cw;
    pose proof (count_upd is_live _ _ _ AtLock En) as Cl; pose proof (count_upd is_untimed _ _ _ AtLock En) as Cu.
    cbn in Cb, Cw, Cl, Cu; fin J3 J3'.
  - (* Lock *)
    destruct (nth_error (ws s) w) as [[| | | | | |]|] eqn:En; try discriminate; inversion H; subst.
    eapply pop_or_wait_inv; eauto.
  - (* Spurious *)
    destruct (nth_error (ws s) w) as [[| |tm d| | | |]|] eqn:En; try discriminate; inversion H; subst.
    unfold Inv; cbn [todo waiting active dropped ws now started set_ws].
    pose proof (count_upd is_blocked _ _ _ (Woken true) En) as Cb; pose proof (count_upd is_woken _ _ _ (Woken true) En) as Cw;
    pose proof (count_upd is_live _ _ _ (Woken true) En) as Cl; pose proof (count_upd is_untimed _ _ _ (Woken true) En) as Cu.
    destruct tm; cbn in Cb, Cw, Cl, Cu; fin J3 J3'.
  - (* Timeout *)
    destruct (nth_error (ws s) w) as [[| |[] d| | | |]|] eqn:En; try discriminate. destruct (d <=? now s); inversion H; subst.
    unfold Inv; cbn [todo waiting active dropped ws now started set_ws].
    pose proof (count_upd is_blocked _ _ _ (Woken false) En) as Cb; pose proof (count_upd is_woken _ _ _ (Woken false) En) as Cw;
    pose proof (count_upd is_live _ _ _ (Woken false) En) as Cl; pose proof (count_upd is_untimed _ _ _ (Woken false) En) as Cu.
    cbn in Cb, Cw, Cl, Cu; fin J3 J3'.
  - (* Resume *)
    destruct (nth_error (ws s) w) as [[| | |r| | |]|] eqn:En; try discriminate.
    destruct (negb r && match todo s with [] => true | _ => false end) eqn:Ec; inversion H; subst.
    + apply andb_true_iff in Ec as [_ Et]. destruct (todo s) eqn:Etodo; [|discriminate].
      unfold Inv; cbn [todo waiting active dropped ws now started set_ws]. try rewrite Etodo in *.
      pose proof (count_upd is_blocked _ _ _ Exiting En) as Cb; pose proof (count_upd is_woken _ _ _ Exiting En) as Cw;
      pose proof (count_upd is_live _ _ _ Exiting En) as Cl; pose proof (count_upd is_untimed _ _ _ Exiting En) as Cu.
      cbn in Cb, Cw, Cl, Cu; cbn [length]; fin J3 J3'.
    + eapply pop_or_wait_inv; eauto.
  - (* Exit *)
    destruct (nth_error (ws s) w) as [[| | | | | |]|] eqn:En; try discriminate.
    pose proof (live_pos _ _ _ En eq_refl) as Hpos.
    destruct (dropped s && (active s <=? S MIN)) eqn:Ec; inversion H; subst.
    unfold Inv; cbn [todo waiting active dropped ws now started set_ws].
    pose proof (count_upd is_blocked _ _ _ Exited En) as Cb; pose proof (count_upd is_woken _ _ _ Exited En) as Cw;
    pose proof (count_upd is_live _ _ _ Exited En) as Cl; pose proof (count_upd is_untimed _ _ _ Exited En) as Cu.
    cbn in Cb, Cw, Cl, Cu. destruct (dropped s) eqn:Ed.
    + cbn in Ec. apply Nat.leb_gt in Ec. destruct (J3' eq_refl). repeat split; try lia; try (intros _; lia); try congruence.
    + specialize (J3 eq_refl). repeat split; try lia; try (intros _; lia); try congruence.
  - (* PoolDrop *)
    inversion H; subst. unfold Inv; cbn [todo waiting active dropped ws now started set_ws].
    rewrite count_map_wake_blocked, count_map_wake_woken, count_map_wake_untimed. repeat split; try lia; discriminate.
  - (* Tick *)
    inversion H; subst. exact HI.
Qed.

Lemma init_inv : Inv init.
Proof.
  unfold Inv, init; cbn [todo waiting active dropped ws now started length].
  rewrite !count_repeat_false by reflexivity. repeat split; try lia; discriminate.
Qed.

Theorem run_inv ls : forall s s', Inv s -> run true s ls = Some s' -> Inv s'.
Proof.
  induction ls as [|l ls IH]; cbn; intros s s' HI H; [inversion H; subst; auto|].
  destruct (step true s l) eqn:E; [|discriminate]. eapply IH; [eapply step_inv; eauto|eauto].
Qed.

(* C08 core: every queued connection has its own awake worker, whatever the schedule *)
Theorem queued_task_has_awake_worker ls s : run true init ls = Some s -> length (todo s) <= count is_woken (ws s).
Proof. intros H. now destruct (run_inv ls init s init_inv H) as (_ & J2 & _). Qed.

(* ... and an awake worker can always move and takes the head of the queue; no TaskDone needed *)
Theorem woken_takes_head s w r tk rest : nth_error (ws s) w = Some (Woken r) -> todo s = tk :: rest ->
  exists s', step true s (Resume w) = Some s' /\ nth_error (ws s') w = Some (Running tk) /\ todo s' = rest.
Proof.
  intros Hn Ht. cbn [step]. rewrite Hn, Ht. rewrite andb_false_r. eexists; split; [reflexivity|].
  unfold pop_or_wait; rewrite Ht; cbn. split; auto.
  assert (w < length (ws s)) by (apply nth_error_Some; congruence).
  clear Hn. revert w H. induction (ws s) as [|a l IH]; intros [|w] H; cbn in *; try lia; auto. apply IH; lia.
Qed.

(* C20 core: never more than MIN workers wait without a deadline *)
Theorem untimed_waiters_le_min ls s : run true init ls = Some s -> count is_untimed (ws s) <= MIN.
Proof. intros H. now destruct (run_inv ls init s init_inv H) as (_ & _ & _ & _ & J4). Qed.
End TP.

(* the tree as found: five dispatches before any worker has re-acquired the lock strand the fifth *)
Example asfound_stranded :
  exists ls s, run nat 4 5 99 false (init nat 4) ls = Some s /\
    todo nat s = [5] /\ count nat (is_woken nat) (ws nat s) = 0 /\ count nat (is_blocked nat) (ws nat s) = 0.
Proof.
  exists [Start nat 0; Start nat 1; Start nat 2; Start nat 3; Lock nat 0; Lock nat 1; Lock nat 2; Lock nat 3;
          Dispatch nat 1 (Some 0); Dispatch nat 2 (Some 1); Dispatch nat 3 (Some 2); Dispatch nat 4 (Some 3); Dispatch nat 5 None;
          Resume nat 0; Resume nat 1; Resume nat 2; Resume nat 3].
  eexists. split; [vm_compute; reflexivity|]. vm_compute. auto.
Qed.
