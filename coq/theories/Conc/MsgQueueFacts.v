(* Conc/MsgQueueFacts.v — consequences of the invariants of Conc/MsgQueue.v (src/util/messages_queue.rs), over ALL
   label sequences and any number of receivers, for properties C07 / C17:
   - a receiver-tagged delivery log, defined OUTSIDE the model by replaying a run and watching `got` grow, is exactly
     the global hand-out order `got`; so every pushed value is in the log exactly once or still queued;
   - one receiver obtains its values in push order (subsequence), hence the requests of one connection in wire order;
   - a log of the calls released by an unblock token (watching `tokrets` grow): #released + #tokens queued = #Unblock
     labels of the run; one step releases one call (the distinct-call statement is in Conc/MsgQueueCalls.v);
   - liveness reading of "no request stays queued while a receiver remains blocked" (repaired queue): when someone is
     blocked, the receivers that are ALREADY awake drain the whole queue by Resume steps alone. *)
From Coq Require Import List Arith Bool Lia Sorted.
Import ListNotations.
From TH Require Import Conc.MsgQueue.

Local Arguments q {V}.
Local Arguments now {V}.
Local Arguments rs {V}.
Local Arguments pushed {V}.
Local Arguments got {V}.
Local Arguments unblocks {V}.
Local Arguments tokrets {V}.
Local Arguments tlog {V}.
Local Arguments Elem {V}.
Local Arguments Token {V}.
Local Arguments Push {V}.
Local Arguments Unblock {V}.
Local Arguments CallPop {V}.
Local Arguments CallTry {V}.
Local Arguments CallTimed {V}.
Local Arguments Spurious {V}.
Local Arguments Timeout {V}.
Local Arguments Resume {V}.
Local Arguments Tick {V}.
Local Arguments take_ret {V}.
Local Arguments set_rs {V}.
Local Arguments ret_empty_timed {V}.
Local Arguments elems {V}.
Local Arguments ntok {V}.
Local Arguments init {V}.

(* ---------- generic list facts: subsequences ---------- *)
Inductive subseq {A : Type} : list A -> list A -> Prop :=
| sub_nil : subseq [] []
| sub_take x a b : subseq a b -> subseq (x :: a) (x :: b)
| sub_skip x a b : subseq a b -> subseq a (x :: b).

Lemma subseq_refl {A} (l : list A) : subseq l l.
Proof. induction l; constructor; auto. Qed.
Lemma subseq_nil_l {A} (l : list A) : subseq [] l.
Proof. induction l; constructor; auto. Qed.
Lemma subseq_filter {A} (f : A -> bool) l : subseq (filter f l) l.
Proof. induction l as [|a l IH]; cbn; [constructor|]. destruct (f a); constructor; auto. Qed.
Lemma subseq_map {A B} (g : A -> B) a b : subseq a b -> subseq (map g a) (map g b).
Proof. induction 1; cbn; constructor; auto. Qed.
Lemma subseq_app_r {A} (a b c : list A) : subseq a b -> subseq a (b ++ c).
Proof.
  induction 1; cbn; try (constructor; auto; fail). apply subseq_nil_l.
Qed.
Lemma subseq_filter_mono {A} (f : A -> bool) a b : subseq a b -> subseq (filter f a) (filter f b).
Proof. induction 1; cbn; [constructor| |]; destruct (f x); try constructor; auto. Qed.
Lemma subseq_trans {A} (a b c : list A) : subseq a b -> subseq b c -> subseq a c.
Proof.
  intros Hab Hbc. revert a Hab. induction Hbc as [|x b c Hbc IH|x b c Hbc IH]; intros a Hab.
  - exact Hab.
  - inversion Hab; subst; constructor; auto.
  - constructor; auto.
Qed.
Lemma subseq_In {A} (a b : list A) x : subseq a b -> In x a -> In x b.
Proof. induction 1; cbn; intuition. Qed.
Lemma subseq_length {A} (a b : list A) : subseq a b -> length a <= length b.
Proof. induction 1; cbn; lia. Qed.

Lemma skipn_app_exact {A} (a b : list A) : skipn (length a) (a ++ b) = b.
Proof. induction a; cbn; auto. Qed.
Lemma skipn_self {A} (a : list A) : skipn (length a) a = [].
Proof. induction a; cbn; auto. Qed.

Lemma NoDup_map_snd_inj {A B} (l : list (A * B)) a b v :
  NoDup (map snd l) -> In (a, v) l -> In (b, v) l -> a = b.
Proof.
  induction l as [|[x y] l IH]; cbn; intros ND Ha Hb; [contradiction|]. inversion ND as [|? ? Hn ND']; subst.
  destruct Ha as [Ha|Ha], Hb as [Hb|Hb].
  - congruence.
  - inversion Ha; subst. exfalso. apply Hn. change v with (snd (b, v)). now apply in_map.
  - inversion Hb; subst. exfalso. apply Hn. change v with (snd (a, v)). now apply in_map.
  - auto.
Qed.
Lemma NoDup_map_NoDup {A B} (g : A -> B) l : NoDup (map g l) -> NoDup l.
Proof.
  induction l as [|x l IH]; cbn; intros ND; [constructor|]. inversion ND; subst. constructor; auto.
  intros Hin. apply H1. now apply in_map.
Qed.

Lemma NoDup_app_split {A} (a b : list A) : NoDup (a ++ b) -> NoDup a /\ (forall v, In v a -> ~ In v b).
Proof.
  induction a as [|x a IH]; cbn; intros ND; [split; [constructor|tauto]|]. inversion ND as [|? ? Hn ND']; subst.
  destruct (IH ND') as [N1 Hd]. split.
  - constructor; auto. intros Hin. apply Hn. apply in_app_iff. auto.
  - intros v [->|Hin]; [intros Hb; apply Hn; apply in_app_iff; auto|auto].
Qed.

Section Facts.
Variable V : Type.
Variable MS : nat.
Hypothesis MS_pos : 0 < MS.
Variable EPS : nat.
Notation st := (MsgQueue.st V).
Notation label := (MsgQueue.label V).
Notation step := (MsgQueue.step V MS EPS).
Notation run := (MsgQueue.run V MS EPS).

(* ---------- what the labels are, seen from outside ---------- *)
(* the receiver whose code runs in the step *)
Definition actor (l : label) : option nat :=
  match l with CallPop t | CallTry t | CallTimed t _ | Resume t => Some t | _ => None end.
Definition is_unblock (l : label) : bool := match l with Unblock _ => true | _ => false end.
Definition pushes (l : label) : list V := match l with Push v _ => [v] | _ => [] end.

(* (1) the delivery log: replay the run; whenever a step of receiver t makes `got` grow by v, record (t, v) *)
Definition delivered_by (s s' : st) (l : label) : list (nat * V) :=
  match actor l with
  | Some t => map (fun v => (t, v)) (skipn (length (got s)) (got s'))
  | None => []
  end.

Fixpoint deliveries (fixed : bool) (s : st) (ls : list label) : option (list (nat * V)) :=
  match ls with
  | [] => Some []
  | l :: ls' =>
      match step fixed s l with
      | Some s' => match deliveries fixed s' ls' with
                   | Some d => Some (delivered_by s s' l ++ d)
                   | None => None end
      | None => None
      end
  end.

(* (3) the log of calls released by a token: replay; whenever a step of receiver t makes `tokrets` grow, record
   (position of the step in the run, t) *)
Definition released_by (s s' : st) (i : nat) (l : label) : list (nat * nat) :=
  match actor l with
  | Some t => repeat (i, t) (tokrets s' - tokrets s)
  | None => []
  end.

Fixpoint token_returns (fixed : bool) (s : st) (i : nat) (ls : list label) : option (list (nat * nat)) :=
  match ls with
  | [] => Some []
  | l :: ls' =>
      match step fixed s l with
      | Some s' => match token_returns fixed s' (S i) ls' with
                   | Some d => Some (released_by s s' i l ++ d)
                   | None => None end
      | None => None
      end
  end.

(* ---------- one step, classified ---------- *)
Definition frame (s s' : st) : Prop := pushed s' = pushed s /\ unblocks s' = unblocks s.

Lemma take_ret_cases s t s' : take_ret s t = Some s' ->
  frame s s' /\ rs s' = upd (rs s) t Idle /\ now s' = now s /\
  ((exists v, q s = Elem v :: q s' /\ got s' = got s ++ [v] /\ tokrets s' = tokrets s) \/
   (q s = Token :: q s' /\ got s' = got s /\ tokrets s' = S (tokrets s))).
Proof.
  unfold take_ret, frame. destruct (q s) as [|[v|] q'] eqn:E; intros H; inversion H; subst; cbn.
  - repeat split; auto. left. exists v. auto.
  - repeat split; auto.
Qed.

(* the three kinds of step *)
Inductive kind (s s' : st) (l : label) : Prop :=
| KDeliver t v : actor l = Some t -> q s = Elem v :: q s' -> got s' = got s ++ [v] -> tokrets s' = tokrets s ->
                 rs s' = upd (rs s) t Idle -> kind s s' l
| KToken t : actor l = Some t -> q s = Token :: q s' -> got s' = got s -> tokrets s' = S (tokrets s) ->
             rs s' = upd (rs s) t Idle -> kind s s' l
| KQuiet : got s' = got s -> tokrets s' = tokrets s -> kind s s' l.

Lemma take_ret_kind s t s' l : actor l = Some t -> take_ret s t = Some s' -> kind s s' l.
Proof.
  intros Ha H. destruct (take_ret_cases _ _ _ H) as (_ & Hrs & _ & [(v & Hq & Hg & Ht)|(Hq & Hg & Ht)]).
  - eapply KDeliver; eauto.
  - eapply KToken; eauto.
Qed.

Lemma step_kind fixed s l s' : step fixed s l = Some s' -> kind s s' l.
Proof.
  intros H. destruct l; cbn [MsgQueue.step] in H.
  - destruct (notify (rs s) w); inversion H; subst. apply KQuiet; reflexivity.
  - destruct (notify (rs s) w); inversion H; subst. apply KQuiet; reflexivity.
  - destruct (nth_error (rs s) t) as [[| | | |]|]; try discriminate.
    destruct (take_ret s t) eqn:E; inversion H; subst; [eapply take_ret_kind; eauto; reflexivity|apply KQuiet; reflexivity].
  - destruct (nth_error (rs s) t) as [[| | | |]|]; try discriminate.
    destruct (take_ret s t) eqn:E; inversion H; subst; [eapply take_ret_kind; eauto; reflexivity|apply KQuiet; reflexivity].
  - destruct (nth_error (rs s) t) as [[| | | |]|]; try discriminate.
    destruct (take_ret s t) eqn:E; inversion H; subst; [eapply take_ret_kind; eauto; reflexivity|apply KQuiet; reflexivity].
  - destruct (nth_error (rs s) t) as [r|]; try discriminate. destruct (is_blocked r); inversion H; subst. apply KQuiet; reflexivity.
  - destruct (nth_error (rs s) t) as [[| | | |]|]; try discriminate. destruct (b + T <=? now s); inversion H; subst. apply KQuiet; reflexivity.
  - destruct (nth_error (rs s) t) as [[| | | |]|]; try discriminate.
    + destruct (take_ret s t) eqn:E; inversion H; subst; [eapply take_ret_kind; eauto; reflexivity|apply KQuiet; reflexivity].
    + destruct (to || (rem - (now s - b) <? MS)).
      * destruct fixed; [destruct (take_ret s t) eqn:E|]; inversion H; subst;
          [eapply take_ret_kind; eauto; reflexivity|apply KQuiet; reflexivity|apply KQuiet; reflexivity].
      * destruct (take_ret s t) eqn:E; inversion H; subst; [eapply take_ret_kind; eauto; reflexivity|apply KQuiet; reflexivity].
  - destruct (negb (forallb (in_time EPS (now s + d)) (rs s))); inversion H; subst. apply KQuiet; reflexivity.
Qed.

(* pushes and unblock calls are exactly the Push / Unblock labels *)
Lemma step_frame fixed s l s' : step fixed s l = Some s' ->
  pushed s' = pushed s ++ pushes l /\ unblocks s' = unblocks s + (if is_unblock l then 1 else 0).
Proof.
  assert (TR : forall t s', take_ret s t = Some s' -> pushed s' = pushed s ++ [] /\ unblocks s' = unblocks s + 0).
  { intros t s1 H1. destruct (take_ret_cases _ _ _ H1) as ([Hp Hu] & _). rewrite app_nil_r, Nat.add_0_r. auto. }
  assert (ID : pushed s = pushed s ++ [] /\ unblocks s = unblocks s + 0) by (rewrite app_nil_r, Nat.add_0_r; auto).
  intros H. destruct l; cbn [MsgQueue.step] in H; cbn [pushes is_unblock].
  - destruct (notify (rs s) w); inversion H; subst; cbn. split; [reflexivity|lia].
  - destruct (notify (rs s) w); inversion H; subst; cbn. split; [now rewrite app_nil_r|lia].
  - destruct (nth_error (rs s) t) as [[| | | |]|]; try discriminate.
    destruct (take_ret s t) eqn:E; inversion H; subst; [eapply TR; eauto|exact ID].
  - destruct (nth_error (rs s) t) as [[| | | |]|]; try discriminate.
    destruct (take_ret s t) eqn:E; inversion H; subst; [eapply TR; eauto|exact ID].
  - destruct (nth_error (rs s) t) as [[| | | |]|]; try discriminate.
    destruct (take_ret s t) eqn:E; inversion H; subst; [eapply TR; eauto|exact ID].
  - destruct (nth_error (rs s) t) as [r|]; try discriminate. destruct (is_blocked r); inversion H; subst. exact ID.
  - destruct (nth_error (rs s) t) as [[| | | |]|]; try discriminate. destruct (b + T <=? now s); inversion H; subst. exact ID.
  - destruct (nth_error (rs s) t) as [[| | | |]|]; try discriminate.
    + destruct (take_ret s t) eqn:E; inversion H; subst; [eapply TR; eauto|exact ID].
    + destruct (to || (rem - (now s - b) <? MS)).
      * destruct fixed; [destruct (take_ret s t) eqn:E|]; inversion H; subst; [eapply TR; eauto|exact ID|exact ID].
      * destruct (take_ret s t) eqn:E; inversion H; subst; [eapply TR; eauto|exact ID].
  - destruct (negb (forallb (in_time EPS (now s + d)) (rs s))); inversion H; subst. exact ID.
Qed.

(* what the two observers record in each kind of step *)
Lemma delivered_by_kind s s' l : kind s s' l ->
  got s' = got s ++ map snd (delivered_by s s' l) /\
  (delivered_by s s' l = [] \/ exists t v, actor l = Some t /\ delivered_by s s' l = [(t, v)] /\ q s = Elem v :: q s').
Proof.
  intros [t v Ha Hq Hg Ht Hr|t Ha Hq Hg Ht Hr|Hg Ht]; unfold delivered_by.
  - rewrite Ha, Hg, skipn_app_exact. cbn. split; auto. right. exists t, v. auto.
  - rewrite Ha, Hg, skipn_self. cbn. rewrite app_nil_r. auto.
  - rewrite Hg, skipn_self. destruct (actor l); cbn; rewrite app_nil_r; auto.
Qed.

Lemma released_by_kind s s' i l : kind s s' l ->
  tokrets s' = tokrets s + length (released_by s s' i l) /\
  (released_by s s' i l = [] \/ exists t, actor l = Some t /\ released_by s s' i l = [(i, t)] /\ q s = Token :: q s').
Proof.
  intros [t v Ha Hq Hg Ht Hr|t Ha Hq Hg Ht Hr|Hg Ht]; unfold released_by.
  - rewrite Ha, Ht, Nat.sub_diag. cbn. split; [lia|auto].
  - rewrite Ha, Ht. replace (S (tokrets s) - tokrets s) with 1 by lia. cbn. split; [lia|]. right. exists t. auto.
  - rewrite Ht, Nat.sub_diag. destruct (actor l); cbn; split; auto; lia.
Qed.

(* ---------- (1) the log is the global hand-out order ---------- *)
Lemma deliveries_got fixed ls : forall s0 s, run fixed s0 ls = Some s ->
  exists log, deliveries fixed s0 ls = Some log /\ got s = got s0 ++ map snd log.
Proof.
  induction ls as [|l ls IH]; cbn; intros s0 s H.
  - inversion H; subst. exists []. cbn. now rewrite app_nil_r.
  - destruct (step fixed s0 l) as [s1|] eqn:E; [|discriminate].
    destruct (IH _ _ H) as (log & Hd & Hg). rewrite Hd. eexists; split; [reflexivity|].
    destruct (delivered_by_kind _ _ _ (step_kind _ _ _ _ E)) as [Hg1 _].
    rewrite Hg, Hg1, map_app, app_assoc. reflexivity.
Qed.

Lemma deliveries_defined fixed ls : forall s0 log, deliveries fixed s0 ls = Some log -> exists s, run fixed s0 ls = Some s.
Proof.
  induction ls as [|l ls IH]; cbn; intros s0 log H; [eauto|].
  destruct (step fixed s0 l) as [s1|]; [|discriminate].
  destruct (deliveries fixed s1 ls) eqn:E; [|discriminate]. eapply IH; eauto.
Qed.

Theorem log_is_got fixed n ls s log :
  run fixed (init n) ls = Some s -> deliveries fixed (init n) ls = Some log ->
  map snd log = got s /\ map snd log ++ elems (q s) = pushed s.
Proof.
  intros H Hd. destruct (deliveries_got fixed ls _ _ H) as (log' & Hd' & Hg). rewrite Hd in Hd'. inversion Hd'; subst log'.
  cbn in Hg. split; [auto|]. rewrite <- Hg. exact (proj1 (fifo_exactly_once V MS MS_pos EPS fixed n ls s H)).
Qed.

Theorem log_exists fixed n ls s : run fixed (init n) ls = Some s -> exists log, deliveries fixed (init n) ls = Some log.
Proof. intros H. destruct (deliveries_got fixed ls _ _ H) as (log & Hd & _). eauto. Qed.

(* every pushed value is in the log or still queued, never both when pushed values are distinct; no value is handed
   out twice, nor to two receivers *)
Theorem exactly_one_receiver fixed n ls s log :
  run fixed (init n) ls = Some s -> deliveries fixed (init n) ls = Some log ->
  (forall v, In v (pushed s) <-> In v (map snd log) \/ In v (elems (q s))) /\
  (NoDup (pushed s) ->
     NoDup (map snd log) /\ NoDup log /\
     (forall t1 t2 v, In (t1, v) log -> In (t2, v) log -> t1 = t2) /\
     (forall v, In v (map snd log) -> ~ In v (elems (q s)))).
Proof.
  intros H Hd. destruct (log_is_got _ _ _ _ _ H Hd) as [_ Heq]. split.
  - intros v. rewrite <- Heq. apply in_app_iff.
  - intros ND. rewrite <- Heq in ND. destruct (NoDup_app_split _ _ ND) as [ND1 Hdis]. repeat split.
    + exact ND1.
    + eapply NoDup_map_NoDup; eauto.
    + intros t1 t2 v. apply NoDup_map_snd_inj; auto.
    + exact Hdis.
Qed.

(* ---------- (2) one receiver obtains values in push order ---------- *)
Definition seen_by (t : nat) (log : list (nat * V)) : list V := map snd (filter (fun e => fst e =? t) log).

Theorem single_receiver_sees_push_order fixed n ls s log t :
  run fixed (init n) ls = Some s -> deliveries fixed (init n) ls = Some log ->
  subseq (seen_by t log) (pushed s).
Proof.
  intros H Hd. destruct (log_is_got _ _ _ _ _ H Hd) as [_ Heq]. rewrite <- Heq.
  apply subseq_app_r. unfold seen_by. apply subseq_map. apply subseq_filter.
Qed.

(* connections: `conn v` is the connection the request v came from; `of_conn c l` = the values of connection c in l *)
Definition of_conn (conn : V -> nat) (c : nat) (l : list V) : list V := filter (fun v => conn v =? c) l.

Theorem connection_order_at_one_receiver fixed n ls s log t (conn : V -> nat) (c : nat) :
  run fixed (init n) ls = Some s -> deliveries fixed (init n) ls = Some log ->
  subseq (of_conn conn c (seen_by t log)) (of_conn conn c (pushed s)) /\
  (forall vs rest, of_conn conn c (pushed s) ++ rest = vs -> subseq (of_conn conn c (seen_by t log)) vs).
Proof.
  intros H Hd. pose proof (single_receiver_sees_push_order _ _ _ _ _ t H Hd) as Hs.
  assert (S1 : subseq (of_conn conn c (seen_by t log)) (of_conn conn c (pushed s))) by (apply subseq_filter_mono; exact Hs).
  split; [exact S1|]. intros vs rest <-. apply subseq_app_r. exact S1.
Qed.

(* ---------- (3) tokens: every Unblock label releases exactly one call or is still queued ---------- *)
Definition n_unblock (ls : list label) : nat := length (filter is_unblock ls).

Lemma run_unblocks fixed ls : forall s0 s, run fixed s0 ls = Some s -> unblocks s = unblocks s0 + n_unblock ls.
Proof.
  unfold n_unblock. induction ls as [|l ls IH]; cbn; intros s0 s H.
  - inversion H; subst. lia.
  - destruct (step fixed s0 l) as [s1|] eqn:E; [|discriminate]. rewrite (IH _ _ H).
    destruct (step_frame _ _ _ _ E) as [_ Hu]. rewrite Hu. destruct (is_unblock l); cbn; lia.
Qed.

Lemma run_pushed fixed ls : forall s0 s, run fixed s0 ls = Some s -> pushed s = pushed s0 ++ flat_map pushes ls.
Proof.
  induction ls as [|l ls IH]; cbn; intros s0 s H.
  - inversion H; subst. now rewrite app_nil_r.
  - destruct (step fixed s0 l) as [s1|] eqn:E; [|discriminate]. rewrite (IH _ _ H).
    destruct (step_frame _ _ _ _ E) as [Hp _]. rewrite Hp, app_assoc. reflexivity.
Qed.

Lemma token_returns_tokrets fixed ls : forall s0 i s, run fixed s0 ls = Some s ->
  exists log, token_returns fixed s0 i ls = Some log /\ tokrets s = tokrets s0 + length log /\
    Forall (fun e => i <= fst e < i + length ls) log /\
    StronglySorted (fun a b => fst a < fst b) log.
Proof.
  induction ls as [|l ls IH]; cbn; intros s0 i s H.
  - inversion H; subst. exists []. cbn. repeat split; auto; constructor.
  - destruct (step fixed s0 l) as [s1|] eqn:E; [|discriminate].
    destruct (IH _ (S i) _ H) as (log & Hd & Hg & Hr & Hs). rewrite Hd. eexists; split; [reflexivity|].
    destruct (released_by_kind _ _ i _ (step_kind _ _ _ _ E)) as [Hg1 Hc].
    rewrite app_length. split; [lia|].
    assert (Hr' : Forall (fun e => i <= fst e < i + S (length ls)) log).
    { eapply Forall_impl; [|exact Hr]. cbn. intros a Ha. lia. }
    destruct Hc as [->|(t & _ & -> & _)]; cbn.
    + split; auto.
    + split; [constructor; [cbn; lia|auto]|]. constructor; auto.
      eapply Forall_impl; [|exact Hr]. cbn. intros a Ha. lia.
Qed.

Theorem each_token_releases_exactly_one_call fixed n ls s :
  run fixed (init n) ls = Some s ->
  exists log, token_returns fixed (init n) 0 ls = Some log /\
    length log = tokrets s /\
    length log + ntok (q s) = n_unblock ls /\
    NoDup (map fst log) /\
    Forall (fun e => fst e < length ls) log.
Proof.
  intros H. destruct (token_returns_tokrets fixed ls _ 0 _ H) as (log & Hd & Hg & Hr & Hs).
  exists log. cbn in Hg. repeat split; auto.
  - pose proof (proj2 (fifo_exactly_once V MS MS_pos EPS fixed n ls s H)) as Hc.
    rewrite (run_unblocks _ _ _ _ H) in Hc. cbn in Hc. lia.
  - clear -Hs. induction Hs as [|a l Hs IH Ha]; cbn; constructor; auto.
    intros Hin. apply in_map_iff in Hin as (b & Hb & Hin). rewrite Forall_forall in Ha. specialize (Ha b Hin). lia.
  - eapply Forall_impl; [|exact Hr]. cbn. intros a Ha. lia.
Qed.

(* ---------- (4) liveness: the receivers that are already awake drain the queue ---------- *)
Lemma count_pos_nth f (l : list rstate) : 0 < count f l -> exists i r, nth_error l i = Some r /\ f r = true.
Proof.
  unfold count. induction l as [|a l IH]; cbn; [lia|]. destruct (f a) eqn:E.
  - intros _. exists 0, a. auto.
  - intros H. destruct (IH H) as (i & r & Hn & Hf). exists (S i), r. auto.
Qed.

Lemma nth_upd_other {A} (l : list A) i j x : i <> j -> nth_error (upd l i x) j = nth_error l j.
Proof.
  revert i j. induction l as [|a l IH]; intros [|i] [|j] H; cbn; auto; try congruence.
Qed.

Definition woken_in (s : st) (t : nat) : Prop := exists r, nth_error (rs s) t = Some r /\ is_woken r = true.

(* the Resume step of an awake receiver on a non-empty queue is take_ret *)
Lemma resume_woken s t r : nth_error (rs s) t = Some r -> is_woken r = true -> q s <> [] ->
  exists s', step true s (Resume t) = Some s' /\ take_ret s t = Some s'.
Proof.
  intros Hn Hw Hq. assert (exists s', take_ret s t = Some s') as [s' Ht].
  { unfold take_ret. destruct (q s) as [|[v|] q']; [congruence| |]; eauto. }
  exists s'. split; [|exact Ht]. cbn [MsgQueue.step]. rewrite Hn. destruct r; try discriminate.
  - now rewrite Ht.
  - rewrite Ht. destruct (to || (rem - (now s - b) <? MS)); reflexivity.
Qed.

(* one step: when the head of the queue is a request and someone is blocked or awake, an already-awake receiver
   exists and its next step hands out exactly that request *)
Theorem head_served_by_woken s v q' :
  (0 < count is_blocked (rs s) -> length (q s) <= count is_woken (rs s)) ->
  q s = Elem v :: q' -> (0 < count is_blocked (rs s) \/ 0 < count is_woken (rs s)) ->
  exists t s', woken_in s t /\ step true s (Resume t) = Some s' /\
               got s' = got s ++ [v] /\ q s' = q' /\ nth_error (rs s') t = Some Idle.
Proof.
  intros HB Hq Hsome. assert (Hw : 0 < count is_woken (rs s)).
  { destruct Hsome as [Hb|Hw]; [|exact Hw]. specialize (HB Hb). rewrite Hq in HB. cbn in HB. lia. }
  destruct (count_pos_nth _ _ Hw) as (t & r & Hn & Hr).
  destruct (resume_woken s t r Hn Hr) as (s' & Hs & Ht); [rewrite Hq; discriminate|].
  exists t, s'. split; [exists r; auto|]. split; [exact Hs|].
  destruct (take_ret_cases _ _ _ Ht) as (_ & Hrs & _ & [(v' & Hq' & Hg & _)|(Hq' & _)]); rewrite Hq in Hq'; inversion Hq'; subst.
  repeat split; auto. rewrite Hrs. eapply nth_upd_same; eauto.
Qed.

(* the whole queue: if there are at least as many awake receivers as queued items, Resume steps of receivers that are
   awake NOW (no Push / Unblock / Tick / Timeout / Spurious, no new call) empty the queue, handing out every queued
   request in order and consuming every queued token *)
Lemma woken_drain : forall k (s : st), length (q s) = k -> length (q s) <= count is_woken (rs s) ->
  exists ts s', run true s (map Resume ts) = Some s' /\ Forall (woken_in s) ts /\ length ts = length (q s) /\
    q s' = [] /\ got s' = got s ++ elems (q s) /\ tokrets s' = tokrets s + ntok (q s) /\
    pushed s' = pushed s /\ unblocks s' = unblocks s /\ now s' = now s.
Proof.
  induction k as [|k IH]; intros s Hk Hle.
  - destruct (q s) eqn:Eq; [|discriminate]. exists [], s. cbn. rewrite Eq. cbn. rewrite app_nil_r. repeat split; auto.
  - assert (Hw : 0 < count is_woken (rs s)) by lia.
    destruct (count_pos_nth _ _ Hw) as (t & r & Hn & Hr).
    destruct (resume_woken s t r Hn Hr) as (s1 & Hs & Ht); [intros E; rewrite E in Hk; discriminate|].
    destruct (take_ret_cases _ _ _ Ht) as ([Hp Hu] & Hrs & Hnow & Hc).
    pose proof (count_upd MS MS_pos is_woken (rs s) t r Idle Hn) as Cw. rewrite Hr in Cw. cbn in Cw. rewrite <- Hrs in Cw.
    assert (Hq1 : length (q s) = S (length (q s1))) by (destruct Hc as [(v & -> & _)|(-> & _)]; reflexivity).
    destruct (IH s1) as (ts & s' & Hrun & Hall & Hlen & Hq' & Hg' & Ht' & Hp' & Hu' & Hn'); [lia|lia|].
    exists (t :: ts), s'. cbn [map MsgQueue.run]. rewrite Hs. split; [exact Hrun|]. split.
    { constructor; [exists r; auto|]. eapply Forall_impl; [|exact Hall]. intros t' (r' & Hn1 & Hr'). rewrite Hrs in Hn1.
      destruct (Nat.eq_dec t t') as [->|Hne].
      - rewrite (nth_upd_same _ _ _ _ Hn) in Hn1. inversion Hn1; subst. discriminate.
      - rewrite nth_upd_other in Hn1 by exact Hne. exists r'; auto. }
    split; [cbn; lia|]. split; [exact Hq'|].
    destruct Hc as [(v & Hq & Hg & Htk)|(Hq & Hg & Htk)]; rewrite Hq; cbn [elems ntok]; rewrite Hg', Ht', Hg, Htk.
    + rewrite <- app_assoc. cbn. repeat split; congruence.
    + repeat split; try congruence; lia.
Qed.

Theorem blocked_receivers_get_served n ls s :
  run true (init n) ls = Some s -> 0 < count is_blocked (rs s) ->
  exists ts s', run true s (map Resume ts) = Some s' /\ Forall (woken_in s) ts /\ length ts = length (q s) /\
    q s' = [] /\ got s' = got s ++ elems (q s) /\ tokrets s' = tokrets s + ntok (q s) /\
    pushed s' = pushed s /\ unblocks s' = unblocks s /\ now s' = now s.
Proof.
  intros H Hb. apply (woken_drain (length (q s))); [reflexivity|].
  exact (no_lost_wakeup V MS MS_pos EPS n ls s H Hb).
Qed.

Theorem blocked_head_served n ls s v q' :
  run true (init n) ls = Some s -> q s = Elem v :: q' ->
  (0 < count is_blocked (rs s) \/ 0 < count is_woken (rs s)) ->
  exists t s', woken_in s t /\ step true s (Resume t) = Some s' /\
               got s' = got s ++ [v] /\ q s' = q' /\ nth_error (rs s') t = Some Idle.
Proof.
  intros H Hq Hsome. apply head_served_by_woken; auto. exact (no_lost_wakeup V MS MS_pos EPS n ls s H).
Qed.

End Facts.
