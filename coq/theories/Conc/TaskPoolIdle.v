(* Conc/TaskPoolIdle.v — idle workers of the task-pool model Conc/TaskPool.v are reclaimed (C20):
   (1) DL: every waiting worker's deadline is at most IDLE after the present (it was `now + IDLE` when
       the worker went idle and time only moves forward);
   (2) a timed waiter that is not notified can time out exactly from its deadline on, then resumes with
       an empty queue, decides to return and exits (Timeout; Resume; Exit);
   (3) at most MIN waiters have no deadline, none after the pool is dropped;
   (4) threads_return: from a state with nothing queued and nothing running, a schedule of
       Start/Lock/Resume steps of the still moving workers, ONE `Tick IDLE`, and Timeout/Resume/Exit steps
       leaves at most MIN threads (none after the pool is dropped): each is blocked without deadline.
   After PoolDrop the model's Exit carries the guard "fewer than BIG - MIN workers" (TaskPool.v:94); the
   hypothesis `exit_room` below is that assumption stated on the state. *)
From Coq Require Import List Arith Bool Lia.
Import ListNotations.
From TH Require Import Conc.TaskPool Conc.TaskPoolFacts.

#[local] Arguments Spawned {task}. #[local] Arguments AtLock {task}. #[local] Arguments Blocked {task}.
#[local] Arguments Woken {task}. #[local] Arguments Running {task}. #[local] Arguments Exiting {task}.
#[local] Arguments Exited {task}.
#[local] Arguments Dispatch {task}. #[local] Arguments Start {task}. #[local] Arguments TaskDone {task}.
#[local] Arguments Lock {task}. #[local] Arguments Spurious {task}. #[local] Arguments Timeout {task}.
#[local] Arguments Resume {task}. #[local] Arguments Exit {task}. #[local] Arguments PoolDrop {task}.
#[local] Arguments Tick {task}.
#[local] Arguments todo {task}. #[local] Arguments waiting {task}. #[local] Arguments active {task}.
#[local] Arguments dropped {task}. #[local] Arguments now {task}. #[local] Arguments ws {task}.
#[local] Arguments started {task}.
#[local] Arguments is_blocked {task}. #[local] Arguments is_untimed {task}. #[local] Arguments is_woken {task}.
#[local] Arguments is_live {task}. #[local] Arguments wake {task}. #[local] Arguments notify {task}.
#[local] Arguments set_ws {task}.

Lemma upd_upd {A} (l : list A) i x y : upd (upd l i x) i y = upd l i y.
Proof. revert i. induction l as [|a l IH]; intros [|i]; cbn; auto. now rewrite IH. Qed.

Section TPI.
Variable task : Type.
Variable MIN IDLE BIG : nat.
Hypothesis BIG_big : MIN < BIG.

Local Notation wstate := (TaskPool.wstate task).
Local Notation st := (TaskPool.st task).
Local Notation label := (TaskPool.label task).
Local Notation step := (TaskPool.step task MIN IDLE BIG).
Local Notation run := (TaskPool.run task MIN IDLE BIG).
Local Notation pop_or_wait := (TaskPool.pop_or_wait task MIN IDLE).
Local Notation Inv := (TaskPool.Inv task MIN).
Local Notation count := (TaskPool.count task).
Local Notation init := (TaskPool.init task MIN).
Local Notation cnt_upd := (TaskPoolFacts.cnt_upd task MIN BIG BIG_big).
Local Notation is_holding := (TaskPoolFacts.is_holding task).

Definition is_timed (r : wstate) : bool := match r with Blocked true _ => true | _ => false end.
Definition is_running (r : wstate) : bool := match r with Running _ => true | _ => false end.
Definition is_exiting (r : wstate) : bool := match r with Exiting => true | _ => false end.
Definition is_fresh (r : wstate) : bool := match r with Spawned None => true | _ => false end.
Definition is_atlock (r : wstate) : bool := match r with AtLock => true | _ => false end.
(* a thread that exists and has not returned *)
Definition is_alive (r : wstate) : bool := match r with Exited => false | _ => true end.

Lemma blocked_split l : count is_blocked l = count is_untimed l + count is_timed l.
Proof.
  induction l as [|a l IH]; [reflexivity|]. rewrite !count_cons, IH. destruct a as [| |[]| | | |]; cbn; lia.
Qed.

(* ---------- (1) deadlines ---------- *)
Definition dl_ok (t : nat) (r : wstate) : Prop := match r with Blocked _ d => d <= t | _ => True end.
Definition DL (s : st) : Prop := Forall (dl_ok (now s + IDLE)) (ws s).

Lemma dl_ok_mono t t' r : t <= t' -> dl_ok t r -> dl_ok t' r.
Proof. destruct r; cbn; auto. lia. Qed.
Lemma DL_wake t l : Forall (dl_ok t) l -> Forall (dl_ok t) (map wake l).
Proof. induction 1 as [|a l Ha Hl IH]; cbn; constructor; auto. destruct a; cbn; auto. Qed.
Lemma DL_notify t l w l' : notify l w = Some l' -> Forall (dl_ok t) l -> Forall (dl_ok t) l'.
Proof.
  unfold TaskPool.notify. destruct w as [i|].
  - destruct (nth_error l i) as [r|]; [|discriminate]. destruct (is_blocked r); [|discriminate].
    intros H F; inversion H; subst. apply Forall_upd; auto. destruct r; cbn; auto.
  - destruct (Nat.eqb _ 0); [|discriminate]. intros H; inversion H; auto.
Qed.
Lemma DL_pop_or_wait s w wt : DL s -> DL (pop_or_wait s w wt).
Proof.
  unfold DL, TaskPool.pop_or_wait. intros F. destruct (todo s); cbn [now ws]; apply Forall_upd; cbn; auto.
Qed.

Lemma step_DL fixed s l s' : DL s -> step fixed s l = Some s' -> DL s'.
Proof.
  intros F H. destruct l; cbn [TaskPool.step] in H.
  - destruct (dropped s); [discriminate|].
    destruct (if fixed then waiting s <=? length (todo s) else waiting s =? 0).
    + destruct w; inversion H; subst. unfold DL; cbn [now ws set_ws]. apply Forall_app; split; auto. repeat constructor.
    + destruct (notify (ws s) w) as [l'|] eqn:En; inversion H; subst. unfold DL; cbn [now ws]. eapply DL_notify; eauto.
  - destruct (nth_error (ws s) w) as [[[tk|]| | | | | |]|]; try discriminate; inversion H; subst;
      unfold DL; cbn [now ws]; apply Forall_upd; cbn; auto.
  - destruct (nth_error (ws s) w) as [[| | | |tk| |]|]; try discriminate; inversion H; subst.
    unfold DL; cbn [now ws set_ws]; apply Forall_upd; cbn; auto.
  - destruct (nth_error (ws s) w) as [[| | | | | |]|]; try discriminate; inversion H; subst. now apply DL_pop_or_wait.
  - destruct (nth_error (ws s) w) as [[| |tm d| | | |]|]; try discriminate; inversion H; subst.
    unfold DL; cbn [now ws set_ws]; apply Forall_upd; cbn; auto.
  - destruct (nth_error (ws s) w) as [[| |[] d| | | |]|]; try discriminate. destruct (d <=? now s); inversion H; subst.
    unfold DL; cbn [now ws set_ws]; apply Forall_upd; cbn; auto.
  - destruct (nth_error (ws s) w) as [[| | |r| | |]|]; try discriminate.
    destruct (negb r && match todo s with [] => true | _ => false end); inversion H; subst.
    + unfold DL; cbn [now ws]; apply Forall_upd; cbn; auto.
    + now apply DL_pop_or_wait.
  - destruct (nth_error (ws s) w) as [[| | | | | |]|]; try discriminate.
    destruct (dropped s && (active s <=? S MIN)); inversion H; subst.
    unfold DL; cbn [now ws]; apply Forall_upd; cbn; auto.
  - inversion H; subst. unfold DL; cbn [now ws]. now apply DL_wake.
  - inversion H; subst. unfold DL; cbn [now ws]. eapply Forall_impl; [|exact F]. intros r. apply dl_ok_mono. lia.
Qed.
Lemma run_DL fixed ls : forall s s', DL s -> run fixed s ls = Some s' -> DL s'.
Proof.
  induction ls as [|l ls IH]; cbn; intros s s' F H; [inversion H; subst; auto|].
  destruct (step fixed s l) eqn:E; [|discriminate]. eapply IH; [eapply step_DL; eauto|eauto].
Qed.
Lemma init_DL : DL init.
Proof. unfold DL; cbn [TaskPool.init ws now]. generalize MIN as n. induction n; cbn; constructor; cbn; auto. Qed.

Theorem deadline_bound fixed ls s w b d : run fixed init ls = Some s ->
  nth_error (ws s) w = Some (Blocked b d) -> d <= now s + IDLE.
Proof. intros H Hn. exact (nth_Forall _ _ _ _ (run_DL _ _ _ _ init_DL H) Hn). Qed.

(* ---------- (2) one timed waiter ---------- *)
Theorem timeout_not_before_deadline fixed s w d : nth_error (ws s) w = Some (Blocked true d) -> now s < d ->
  step fixed s (Timeout w) = None.
Proof. intros Hn Hd. cbn. rewrite Hn. destruct (Nat.leb_spec d (now s)); [lia|reflexivity]. Qed.
Theorem untimed_never_times_out fixed s w d : nth_error (ws s) w = Some (Blocked false d) ->
  step fixed s (Timeout w) = None.
Proof. intros Hn. cbn. now rewrite Hn. Qed.

Definition same_but (s s' : st) (w : nat) (x : wstate) (wt act : nat) : Prop :=
  ws s' = upd (ws s) w x /\ todo s' = todo s /\ waiting s' = wt /\ active s' = act /\ now s' = now s /\
  dropped s' = dropped s /\ started s' = started s.

Lemma timeout_step fixed s w d : nth_error (ws s) w = Some (Blocked true d) -> d <= now s ->
  exists s', step fixed s (Timeout w) = Some s' /\ same_but s s' w (Woken false) (waiting s) (active s).
Proof.
  intros Hn Hd. eexists. split; [cbn; rewrite Hn; destruct (Nat.leb_spec d (now s)); [reflexivity|lia]|].
  unfold same_but; cbn; csplit; reflexivity.
Qed.
Lemma resume_timedout_step fixed s w : nth_error (ws s) w = Some (Woken false) -> todo s = [] ->
  exists s', step fixed s (Resume w) = Some s' /\ same_but s s' w Exiting (waiting s - 1) (active s).
Proof.
  intros Hn Ht. eexists. split; [cbn; rewrite Hn, Ht; reflexivity|]. unfold same_but; cbn; csplit; congruence.
Qed.
Lemma exit_step fixed s w : nth_error (ws s) w = Some Exiting -> (dropped s = false \/ S MIN < active s) ->
  exists s', step fixed s (Exit w) = Some s' /\ same_but s s' w Exited (waiting s) (active s - 1).
Proof.
  intros Hn Hg.
  assert (E : dropped s && (active s <=? S MIN) = false).
  { destruct Hg as [->|Hg]; [reflexivity|]. destruct (Nat.leb_spec (active s) (S MIN)); [lia|]. apply andb_false_r. }
  eexists. split; [cbn; rewrite Hn, E; reflexivity|]. unfold same_but; cbn; csplit; reflexivity.
Qed.

Theorem timed_waiter_exits fixed s w d :
  nth_error (ws s) w = Some (Blocked true d) -> d <= now s -> todo s = [] ->
  (dropped s = false \/ S MIN < active s) ->
  exists s1 s2 s3,
    step fixed s (Timeout w) = Some s1 /\ nth_error (ws s1) w = Some (Woken false) /\
    step fixed s1 (Resume w) = Some s2 /\ nth_error (ws s2) w = Some Exiting /\
    step fixed s2 (Exit w) = Some s3 /\ nth_error (ws s3) w = Some Exited /\
    ws s3 = upd (ws s) w Exited /\ active s3 = active s - 1 /\ waiting s3 = waiting s - 1 /\
    todo s3 = [] /\ now s3 = now s /\ dropped s3 = dropped s.
Proof.
  intros Hn Hd Ht Hg.
  destruct (timeout_step fixed s w d Hn Hd) as (s1 & E1 & W1 & T1 & Wt1 & A1 & N1 & D1 & _).
  assert (Hn1 : nth_error (ws s1) w = Some (Woken false)) by (rewrite W1; eapply nth_upd_some; eauto).
  destruct (resume_timedout_step fixed s1 w Hn1 ltac:(congruence)) as (s2 & E2 & W2 & T2 & Wt2 & A2 & N2 & D2 & _).
  assert (Hn2 : nth_error (ws s2) w = Some Exiting) by (rewrite W2; eapply nth_upd_some; eauto).
  destruct (exit_step fixed s2 w Hn2 ltac:(rewrite D2, D1, A2, A1; exact Hg)) as (s3 & E3 & W3 & T3 & Wt3 & A3 & N3 & D3 & _).
  exists s1, s2, s3. csplit; auto; try congruence.
  - rewrite W3; eapply nth_upd_some; eauto.
  - rewrite W3, W2, W1, !upd_upd. reflexivity.
Qed.

(* ---------- (3) counting ---------- *)
Theorem idle_beyond_min_are_timed ls s : run true init ls = Some s ->
  count is_untimed (ws s) <= MIN /\
  (dropped s = true -> count is_untimed (ws s) = 0) /\
  count is_blocked (ws s) = count is_untimed (ws s) + count is_timed (ws s) /\
  (forall w b d, nth_error (ws s) w = Some (Blocked b d) -> d <= now s + IDLE).
Proof.
  intros H. pose proof (run_inv task MIN IDLE BIG BIG_big _ _ _ (init_inv task MIN BIG BIG_big) H) as (_ & _ & _ & J3' & J4).
  split; [exact J4|]. split; [intros Hd; now destruct (J3' Hd)|]. split; [apply blocked_split|].
  intros w b d. eapply deadline_bound; eauto.
Qed.

(* dropping the pool does not touch queued or running tasks (it only wakes the waiters) *)
Theorem pooldrop_keeps_tasks fixed s s' : step fixed s PoolDrop = Some s' ->
  todo s' = todo s /\ started s' = started s /\
  (forall w tk, nth_error (ws s) w = Some (Running tk) -> nth_error (ws s') w = Some (Running tk)) /\
  (forall w f, nth_error (ws s) w = Some (Spawned f) -> nth_error (ws s') w = Some (Spawned f)).
Proof.
  intros H. inversion H; subst. cbn [todo started ws]. csplit; auto; intros w x Hn; rewrite nth_error_map, Hn; reflexivity.
Qed.

(* ---------- (4) the thread count returns to the baseline ---------- *)
Definition is_quiet_step (l : label) : bool :=
  match l with Start _ | Lock _ | Resume _ | Timeout _ | Exit _ | Tick _ => true | _ => false end.
Definition only_quiet_steps (ls : list label) : Prop := Forall (fun l => is_quiet_step l = true) ls.

(* the model's Exit guard after PoolDrop: the poisoned counter is still above MIN + the live threads *)
Definition exit_room (s : st) : Prop := dropped s = true -> count is_live (ws s) + MIN < active s.

(* phase predicate: invariant, empty queue, clock t, drop flag b, every worker in the allowed set A *)
Definition Q (A : wstate -> Prop) (t : nat) (b : bool) (s : st) : Prop :=
  Inv s /\ todo s = [] /\ exit_room s /\ now s = t /\ dropped s = b /\ Forall A (ws s).

Definition b2n (b : bool) : nat := if b then 1 else 0.
(* worker w goes from state old to x; only the thread counter may change with it *)
Definition moves (s s' : st) (w : nat) (old x : wstate) : Prop :=
  nth_error (ws s) w = Some old /\ ws s' = upd (ws s) w x /\ todo s' = todo s /\ now s' = now s /\
  dropped s' = dropped s /\ active s' + b2n (is_live old) = active s + b2n (is_live x).

Lemma moves_Q A t b s s' l w old x : step true s l = Some s' -> moves s s' w old x -> Q A t b s -> A x -> Q A t b s'.
Proof.
  intros Hs (Hn & Hw & Ht & Hnow & Hd & Ha) (HI & Ht0 & Hg & Hn0 & Hd0 & HF) Hx.
  unfold Q. csplit; try congruence.
  - eapply (step_inv task MIN IDLE BIG BIG_big); eauto.
  - unfold exit_room in *. rewrite Hd, Hw. intros Hdt. specialize (Hg Hdt).
    pose proof (cnt_upd is_live _ _ _ x Hn) as C. unfold b2n in Ha. destruct (is_live old), (is_live x); lia.
  - rewrite Hw. apply Forall_upd; auto.
Qed.
Lemma moves_count (f : wstate -> bool) s s' w old x : moves s s' w old x -> f old = true -> f x = false ->
  count f (ws s') < count f (ws s).
Proof. intros (Hn & Hw & _) Ho Hx. pose proof (cnt_upd f _ _ _ x Hn) as C. rewrite Ho, Hx, <- Hw in C. lia. Qed.

(* clear one class f of workers with the steps L, staying inside the phase predicate P *)
Lemma sweep (f : wstate -> bool) (L : nat -> label) (P : st -> Prop) :
  (forall s w r, P s -> nth_error (ws s) w = Some r -> f r = true ->
     exists s', step true s (L w) = Some s' /\ P s' /\ count f (ws s') < count f (ws s)) ->
  forall n s, count f (ws s) <= n -> P s ->
  exists ls s', Forall (fun l => exists w, l = L w) ls /\ run true s ls = Some s' /\ P s' /\ count f (ws s') = 0 /\
               length ls <= n.
Proof.
  intros Hstep. induction n as [|n IH]; intros s Hc HP.
  - exists [], s. csplit; auto. lia.
  - destruct (count f (ws s)) as [|c] eqn:Ec.
    + exists [], s. csplit; auto; cbn; lia.
    + destruct (count_pos_nth task f (ws s)) as (w & r & Hn & Hr); [lia|].
      destruct (Hstep s w r HP Hn Hr) as (s1 & Hs1 & HP1 & Hlt).
      destruct (IH s1 ltac:(lia) HP1) as (ls & s' & Hls & Hr' & HP' & Hz & Hlen).
      exists (L w :: ls), s'. csplit; auto.
      * constructor; eauto.
      * cbn [TaskPool.run]. rewrite Hs1. exact Hr'.
      * cbn; lia.
Qed.

Lemma Forall_refine (P R : wstate -> Prop) (f : wstate -> bool) l :
  Forall P l -> count f l = 0 -> (forall r, P r -> f r = false -> R r) -> Forall R l.
Proof.
  intros HP Hz HR. apply count_zero_Forall in Hz. induction HP as [|a l Ha Hl IH]; constructor; inversion Hz; subst; auto.
Qed.
Lemma Q_refine (A A' : wstate -> Prop) (f : wstate -> bool) t b s :
  Q A t b s -> count f (ws s) = 0 -> (forall r, A r -> f r = false -> A' r) -> Q A' t b s.
Proof. intros (HI & Ht & Hg & Hn & Hd & HF) Hz HR. unfold Q; csplit; auto. eapply Forall_refine; eauto. Qed.

(* allowed worker states per phase; t is the clock of the phase *)
Definition A0 (t : nat) (r : wstate) : Prop :=
  match r with Running _ | Spawned (Some _) => False | Blocked _ d => d <= t + IDLE | _ => True end.
Definition A1 (t : nat) (r : wstate) : Prop :=
  match r with Running _ | Spawned _ => False | Blocked _ d => d <= t + IDLE | _ => True end.
Definition A2 (t : nat) (r : wstate) : Prop :=
  match r with Running _ | Spawned _ | AtLock => False | Blocked _ d => d <= t + IDLE | _ => True end.
Definition A3 (t : nat) (r : wstate) : Prop :=
  match r with Blocked _ d => d <= t + IDLE | Exiting | Exited => True | _ => False end.
Definition B4 (t : nat) (r : wstate) : Prop :=
  match r with Blocked true d => d <= t | Blocked false _ | Woken false | Exiting | Exited => True | _ => False end.
Definition B5 (r : wstate) : Prop :=
  match r with Blocked false _ | Woken false | Exiting | Exited => True | _ => False end.
Definition B6 (r : wstate) : Prop :=
  match r with Blocked false _ | Exiting | Exited => True | _ => False end.
Definition B7 (r : wstate) : Prop :=
  match r with Blocked false _ | Exited => True | _ => False end.

Ltac mv := unfold moves; cbn [ws todo now dropped active set_ws is_live b2n]; csplit; auto; lia.

(* phase 1: fresh threads register (Spawned None -> AtLock) *)
Lemma phase1 t b s w r : Q (A0 t) t b s -> nth_error (ws s) w = Some r -> is_fresh r = true ->
  exists s', step true s (Start w) = Some s' /\ Q (A0 t) t b s' /\ count is_fresh (ws s') < count is_fresh (ws s).
Proof.
  intros HQ Hn Hr. destruct r as [[tk|]| | | | | |]; try discriminate.
  eexists. split; [cbn; rewrite Hn; reflexivity|].
  match goal with |- Q _ _ _ ?s1 /\ _ => assert (M : moves s s1 w (Spawned None) AtLock) by mv end.
  split; [eapply moves_Q with (l := Start w); [cbn; rewrite Hn; reflexivity|exact M|exact HQ|exact I]|eapply moves_count; eauto].
Qed.
(* phases 2 and 3: workers at the lock or woken find the queue empty and wait (or, woken by a timeout, decide to return) *)
Lemma phase2 t b s w r : Q (A1 t) t b s -> nth_error (ws s) w = Some r -> is_atlock r = true ->
  exists s', step true s (Lock w) = Some s' /\ Q (A1 t) t b s' /\ count is_atlock (ws s') < count is_atlock (ws s).
Proof.
  intros HQ Hn Hr. destruct r as [[tk|]| | | | | |]; try discriminate.
  pose proof HQ as (_ & Ht & _ & Hnow & _).
  eexists. split; [cbn; rewrite Hn; unfold TaskPool.pop_or_wait; rewrite Ht; reflexivity|].
  match goal with |- Q _ _ _ ?s1 /\ _ => assert (M : moves s s1 w AtLock (Blocked (MIN <? active s) (now s + IDLE))) by mv end.
  split; [eapply moves_Q with (l := Lock w); [cbn; rewrite Hn; unfold TaskPool.pop_or_wait; rewrite Ht; reflexivity|exact M|exact HQ|cbn; lia]|eapply moves_count; eauto].
Qed.
Lemma phase3 t b s w r : Q (A2 t) t b s -> nth_error (ws s) w = Some r -> is_woken r = true ->
  exists s', step true s (Resume w) = Some s' /\ Q (A2 t) t b s' /\ count is_woken (ws s') < count is_woken (ws s).
Proof.
  intros HQ Hn Hr. destruct r as [[tk|]| | |[]| | |]; try discriminate; pose proof HQ as (_ & Ht & _ & Hnow & _).
  - eexists. split; [cbn; rewrite Hn; unfold TaskPool.pop_or_wait; rewrite Ht; reflexivity|].
    match goal with |- Q _ _ _ ?s1 /\ _ => assert (M : moves s s1 w (Woken true) (Blocked (MIN <? active s) (now s + IDLE))) by mv end.
    split; [eapply moves_Q with (l := Resume w); [cbn; rewrite Hn; unfold TaskPool.pop_or_wait; rewrite Ht; reflexivity|exact M|exact HQ|cbn; lia]|eapply moves_count; eauto].
  - eexists. split; [cbn; rewrite Hn, Ht; reflexivity|].
    match goal with |- Q _ _ _ ?s1 /\ _ => assert (M : moves s s1 w (Woken false) Exiting) by mv end.
    split; [eapply moves_Q with (l := Resume w); [cbn; rewrite Hn, Ht; reflexivity|exact M|exact HQ|exact I]|eapply moves_count; eauto].
Qed.
(* phase 5: after the idle period every timed waiter times out *)
Lemma phase5 t b s w r : Q (B4 t) t b s -> nth_error (ws s) w = Some r -> is_timed r = true ->
  exists s', step true s (Timeout w) = Some s' /\ Q (B4 t) t b s' /\ count is_timed (ws s') < count is_timed (ws s).
Proof.
  intros HQ Hn Hr. destruct r as [[tk|]| |[] d| | | |]; try discriminate.
  pose proof HQ as (_ & Ht & _ & Hnow & _ & HF). pose proof (nth_Forall _ _ _ _ HF Hn) as Hd. cbn in Hd.
  assert (E : (d <=? now s) = true) by (apply Nat.leb_le; lia).
  eexists. split; [cbn; rewrite Hn, E; reflexivity|].
  match goal with |- Q _ _ _ ?s1 /\ _ => assert (M : moves s s1 w (Blocked true d) (Woken false)) by mv end.
  split; [eapply moves_Q with (l := Timeout w); [cbn; rewrite Hn, E; reflexivity|exact M|exact HQ|exact I]|eapply moves_count; eauto].
Qed.
(* phase 6: they find the queue empty and decide to return *)
Lemma phase6 t b s w r : Q B5 t b s -> nth_error (ws s) w = Some r -> is_woken r = true ->
  exists s', step true s (Resume w) = Some s' /\ Q B5 t b s' /\ count is_woken (ws s') < count is_woken (ws s).
Proof.
  intros HQ Hn Hr. pose proof HQ as (_ & Ht & _ & Hnow & _ & HF). pose proof (nth_Forall _ _ _ _ HF Hn) as Hd.
  destruct r as [[tk|]| | |[]| | |]; try discriminate; try contradiction.
  eexists. split; [cbn; rewrite Hn, Ht; reflexivity|].
  match goal with |- Q _ _ _ ?s1 /\ _ => assert (M : moves s s1 w (Woken false) Exiting) by mv end.
  split; [eapply moves_Q with (l := Resume w); [cbn; rewrite Hn, Ht; reflexivity|exact M|exact HQ|exact I]|eapply moves_count; eauto].
Qed.
(* phase 7: and exit *)
Lemma phase7 t b s w r : Q B6 t b s -> nth_error (ws s) w = Some r -> is_exiting r = true ->
  exists s', step true s (Exit w) = Some s' /\ Q B6 t b s' /\ count is_exiting (ws s') < count is_exiting (ws s).
Proof.
  intros HQ Hn Hr. destruct r as [[tk|]| | | | | |]; try discriminate.
  pose proof HQ as (_ & _ & Hg & _).
  assert (E : dropped s && (active s <=? S MIN) = false).
  { destruct (dropped s) eqn:Ed; [|reflexivity]. specialize (Hg Ed).
    pose proof (live_pos task MIN BIG BIG_big _ _ _ Hn eq_refl). cbn. apply Nat.leb_gt. lia. }
  assert (Hpos : 0 < active s).
  { destruct HQ as ((_ & _ & J3 & J3' & _) & _). destruct (dropped s) eqn:Ed; [destruct (J3' eq_refl); lia|].
    rewrite (J3 eq_refl). eapply (live_pos task MIN BIG BIG_big); eauto. }
  eexists. split; [cbn; rewrite Hn, E; reflexivity|].
  match goal with |- Q _ _ _ ?s1 /\ _ => assert (M : moves s s1 w Exiting Exited) by mv end.
  split; [eapply moves_Q with (l := Exit w); [cbn; rewrite Hn, E; reflexivity|exact M|exact HQ|exact I]|eapply moves_count; eauto].
Qed.

Lemma quiet_of (L : nat -> label) ls : (forall w, is_quiet_step (L w) = true) ->
  Forall (fun l => exists w, l = L w) ls -> only_quiet_steps ls.
Proof. intros HL H. eapply Forall_impl; [|exact H]. intros l [w ->]. apply HL. Qed.

(* when every worker is already idle only time, timeouts and the exits are needed *)
Definition is_timer_step (l : label) : bool :=
  match l with Resume _ | Timeout _ | Exit _ | Tick _ => true | _ => false end.
Definition only_timer_steps (ls : list label) : Prop := Forall (fun l => is_timer_step l = true) ls.
Lemma timer_of (L : nat -> label) ls : (forall w, is_timer_step (L w) = true) ->
  Forall (fun l => exists w, l = L w) ls -> only_timer_steps ls.
Proof. intros HL H. eapply Forall_impl; [|exact H]. intros l [w ->]. apply HL. Qed.

Lemma B7_alive l : Forall B7 l -> count is_alive l = count is_untimed l.
Proof.
  induction 1 as [|a l Ha Hl IH]; [reflexivity|]. rewrite !count_cons, IH.
  destruct a as [| |[]| | | |]; cbn in *; try contradiction; reflexivity.
Qed.

Theorem threads_return s :
  Inv s -> DL s -> todo s = [] -> count is_running (ws s) = 0 -> count is_holding (ws s) = 0 -> exit_room s ->
  exists ls s', only_quiet_steps ls /\ run true s ls = Some s' /\ now s' = now s + IDLE /\
    count is_alive (ws s') <= MIN /\ (dropped s = true -> count is_alive (ws s') = 0) /\
    Forall (fun r => r = Exited \/ exists d, r = Blocked false d) (ws s') /\ todo s' = [] /\ Inv s' /\
    (count is_fresh (ws s) = 0 -> count is_atlock (ws s) = 0 -> only_timer_steps ls).
Proof.
  intros HI HD Ht Hrun Hhold Hg. set (t := now s). set (b := dropped s).
  assert (Q0 : Q (A0 t) t b s).
  { unfold Q; csplit; auto. apply count_zero_Forall in Hrun. apply count_zero_Forall in Hhold.
    unfold DL in HD. fold t in HD. clear -HD Hrun Hhold.
    induction HD as [|a l Ha Hl IH]; constructor; inversion Hrun; inversion Hhold; subst; auto.
    destruct a as [[tk|]| | | | | |]; cbn in *; auto; discriminate. }
  destruct (sweep is_fresh Start _ (phase1 t b) _ s (le_n _) Q0) as (l1 & s1 & W1 & R1 & Q1 & Z1 & N1).
  assert (Q1' : Q (A1 t) t b s1).
  { eapply Q_refine; eauto. intros [[tk|]| | | | | |]; cbn; auto; discriminate. }
  destruct (sweep is_atlock Lock _ (phase2 t b) _ s1 (le_n _) Q1') as (l2 & s2 & W2 & R2 & Q2 & Z2 & N2).
  assert (Q2' : Q (A2 t) t b s2).
  { eapply Q_refine; eauto. intros [[tk|]| | | | | |]; cbn; auto; discriminate. }
  destruct (sweep is_woken Resume _ (phase3 t b) _ s2 (le_n _) Q2') as (l3 & s3 & W3 & R3 & Q3 & Z3 & N3).
  (* the idle period passes *)
  destruct (step true s3 (Tick IDLE)) as [s4|] eqn:E4; [|discriminate].
  assert (Q4 : Q (B4 (t + IDLE)) (t + IDLE) b s4).
  { pose proof (step_inv task MIN IDLE BIG BIG_big _ _ _ (proj1 Q3) E4) as HI4.
    destruct Q3 as (_ & Ht3 & Hg3 & Hn3 & Hd3 & HF3). cbn in E4; inversion E4; subst s4.
    unfold Q; csplit; auto. cbn [now]. lia.
    cbn [ws]. eapply Forall_refine; eauto. intros [[tk|]| |[] d| | | |]; cbn; auto; try contradiction; discriminate. }
  destruct (sweep is_timed Timeout _ (phase5 (t + IDLE) b) _ s4 (le_n _) Q4) as (l5 & s5 & W5 & R5 & Q5 & Z5 & N5).
  assert (Q5' : Q B5 (t + IDLE) b s5).
  { eapply Q_refine; eauto. intros [[tk|]| |[] d| | | |]; cbn; auto; discriminate. }
  destruct (sweep is_woken Resume _ (phase6 (t + IDLE) b) _ s5 (le_n _) Q5') as (l6 & s6 & W6 & R6 & Q6 & Z6 & N6).
  assert (Q6' : Q B6 (t + IDLE) b s6).
  { eapply Q_refine; eauto. intros [[tk|]| |[] d|[]| | |]; cbn; auto; discriminate. }
  destruct (sweep is_exiting Exit _ (phase7 (t + IDLE) b) _ s6 (le_n _) Q6') as (l7 & s7 & W7 & R7 & Q7 & Z7 & N7).
  assert (Q7' : Q B7 (t + IDLE) b s7).
  { eapply Q_refine; eauto. intros [[tk|]| |[] d|[]| | |]; cbn; auto; discriminate. }
  destruct Q7' as (HI7 & Ht7 & _ & Hn7 & Hd7 & HF7).
  exists (l1 ++ l2 ++ l3 ++ Tick IDLE :: l5 ++ l6 ++ l7), s7. csplit; auto.
  - unfold only_quiet_steps. repeat (apply Forall_app; split); try (eapply quiet_of; eauto; reflexivity).
    constructor; [reflexivity|]. repeat (apply Forall_app; split); eapply quiet_of; eauto; reflexivity.
  - rewrite run_app, R1, run_app, R2, run_app, R3. cbn [TaskPool.run]. rewrite E4.
    rewrite run_app, R5, run_app, R6. exact R7.
  - rewrite (B7_alive _ HF7). now destruct HI7 as (_ & _ & _ & _ & J4).
  - intros Hd. rewrite (B7_alive _ HF7). destruct HI7 as (_ & _ & _ & J3' & _). apply J3'. congruence.
  - eapply Forall_impl; [|exact HF7]. intros [[tk|]| |[] d|[]| | |]; cbn; try contradiction; eauto.
  - intros Zf Za. rewrite Zf in N1. destruct l1; [|cbn in N1; lia]. cbn in R1. inversion R1; subst s1.
    rewrite Za in N2. destruct l2; [|cbn in N2; lia]. cbn [app].
    unfold only_timer_steps. repeat (apply Forall_app; split); try (eapply timer_of; eauto; reflexivity).
    constructor; [reflexivity|]. repeat (apply Forall_app; split); eapply timer_of; eauto; reflexivity.
Qed.

Theorem threads_return_reachable ls0 s : run true init ls0 = Some s ->
  todo s = [] -> count is_running (ws s) = 0 -> count is_holding (ws s) = 0 -> exit_room s ->
  exists ls s', only_quiet_steps ls /\ run true s ls = Some s' /\ now s' = now s + IDLE /\
    count is_alive (ws s') <= MIN /\ (dropped s = true -> count is_alive (ws s') = 0) /\
    Forall (fun r => r = Exited \/ exists d, r = Blocked false d) (ws s').
Proof.
  intros H Ht Hr Hh Hg.
  pose proof (run_inv task MIN IDLE BIG BIG_big _ _ _ (init_inv task MIN BIG BIG_big) H) as HI.
  pose proof (run_DL _ _ _ _ init_DL H) as HD.
  destruct (threads_return s HI HD Ht Hr Hh Hg) as (ls & s' & A & B & C & D & E & F & _).
  exists ls, s'. csplit; auto.
Qed.
Theorem threads_return_idle_reachable ls0 s : run true init ls0 = Some s ->
  todo s = [] -> count is_running (ws s) = 0 -> count is_holding (ws s) = 0 ->
  count is_fresh (ws s) = 0 -> count is_atlock (ws s) = 0 -> exit_room s ->
  exists ls s', only_timer_steps ls /\ run true s ls = Some s' /\ now s' = now s + IDLE /\
    count is_alive (ws s') <= MIN /\ (dropped s = true -> count is_alive (ws s') = 0) /\
    Forall (fun r => r = Exited \/ exists d, r = Blocked false d) (ws s').
Proof.
  intros H Ht Hr Hh Zf Za Hg.
  pose proof (run_inv task MIN IDLE BIG BIG_big _ _ _ (init_inv task MIN BIG BIG_big) H) as HI.
  pose proof (run_DL _ _ _ _ init_DL H) as HD.
  destruct (threads_return s HI HD Ht Hr Hh Hg) as (ls & s' & A & B & C & D & E & F & _ & _ & G).
  exists ls, s'. csplit; auto.
Qed.
Lemma exit_room_before_drop s : dropped s = false -> exit_room s.
Proof. unfold exit_room. congruence. Qed.

(* exit_room is the model's assumption made once, at the drop (Drop runs once): fewer than BIG - MIN
   threads are alive then; it is preserved by every later step *)
Lemma exit_room_at_drop s s' : dropped s = false -> count is_live (ws s) + MIN < BIG ->
  step true s PoolDrop = Some s' -> exit_room s'.
Proof. intros Hd Hc H. inversion H; subst. unfold exit_room; cbn [ws active]. rewrite (count_map_wake_live task). auto. Qed.
Lemma exit_room_step s l s' : l <> PoolDrop -> dropped s = true -> exit_room s -> step true s l = Some s' -> exit_room s'.
Proof.
  intros HI Hd Hg H. specialize (Hg Hd). unfold exit_room. intros _. destruct l; cbn [TaskPool.step] in H.
  - rewrite Hd in H. discriminate.
  - destruct (nth_error (ws s) w) as [[[tk|]| | | | | |]|] eqn:En; try discriminate; inversion H; subst; cbn [ws active];
      [pose proof (cnt_upd is_live _ _ _ (Running tk) En) as C | pose proof (cnt_upd is_live _ _ _ AtLock En) as C]; cbn [TaskPool.is_live] in C; lia.
  - destruct (nth_error (ws s) w) as [[| | | |tk| |]|] eqn:En; try discriminate; inversion H; subst; cbn [ws active set_ws].
    pose proof (cnt_upd is_live _ _ _ AtLock En) as C; cbn [TaskPool.is_live] in C; lia.
  - destruct (nth_error (ws s) w) as [[| | | | | |]|] eqn:En; try discriminate; inversion H; subst.
    unfold TaskPool.pop_or_wait. destruct (todo s) as [|tk rest]; cbn [ws active].
    + pose proof (cnt_upd is_live _ _ _ (Blocked (MIN <? active s) (now s + IDLE)) En) as C; cbn [TaskPool.is_live] in C; lia.
    + pose proof (cnt_upd is_live _ _ _ (Running tk) En) as C; cbn [TaskPool.is_live] in C; lia.
  - destruct (nth_error (ws s) w) as [[| |tm d| | | |]|] eqn:En; try discriminate; inversion H; subst; cbn [ws active set_ws].
    pose proof (cnt_upd is_live _ _ _ (Woken true) En) as C; cbn [TaskPool.is_live] in C; lia.
  - destruct (nth_error (ws s) w) as [[| |[] d| | | |]|] eqn:En; try discriminate. destruct (d <=? now s); inversion H; subst; cbn [ws active set_ws].
    pose proof (cnt_upd is_live _ _ _ (Woken false) En) as C; cbn [TaskPool.is_live] in C; lia.
  - destruct (nth_error (ws s) w) as [[| | |r| | |]|] eqn:En; try discriminate.
    destruct (negb r && match todo s with [] => true | _ => false end); inversion H; subst.
    + cbn [ws active]. pose proof (cnt_upd is_live _ _ _ Exiting En) as C; cbn [TaskPool.is_live] in C; lia.
    + unfold TaskPool.pop_or_wait. destruct (todo s) as [|tk rest]; cbn [ws active].
      * pose proof (cnt_upd is_live _ _ _ (Blocked (MIN <? active s) (now s + IDLE)) En) as C; cbn [TaskPool.is_live] in C; lia.
      * pose proof (cnt_upd is_live _ _ _ (Running tk) En) as C; cbn [TaskPool.is_live] in C; lia.
  - destruct (nth_error (ws s) w) as [[| | | | | |]|] eqn:En; try discriminate.
    destruct (dropped s && (active s <=? S MIN)); inversion H; subst. cbn [ws active].
    pose proof (cnt_upd is_live _ _ _ Exited En) as C; cbn [TaskPool.is_live] in C.
    pose proof (live_pos task MIN BIG BIG_big _ _ _ En eq_refl). lia.
  - congruence.
  - inversion H; subst. cbn [ws active]. lia.
Qed.
End TPI.
