(* Conc/SeqWriterChan.v — the equivalence note in the header of Conc/SeqWriter.v made precise.
   `step_chan` is the sequential-writer chain of src/util/sequential.rs (repaired tree) with the one-message channel
   between neighbours EXPLICIT: every writer has `trig` (its `trigger` field is still `Some receiver`,
   sequential.rs:54) and `released` (the `()` message sits unconsumed in that receiver's channel). The first writer
   is created with `trigger = None` (sequential.rs:71,102-106); Drop of writer i sends the message to writer i+1
   (sequential.rs:177) — or, when writer i+1 does not exist yet, leaves it in the channel whose receiver the builder
   hands to the next writer (sequential.rs:101-103), which is why `New` initialises `released` from the predecessor's
   `cdropped`; write / flush / drop first consume the trigger (`wait`, sequential.rs:129-132,138-141,174-176).
   Theorem: `abs` (released_i = dropped_{i-1} && ~turn_i, trig_i = (0<i) && ~turn_i) is a functional bisimulation
   from SeqWriter.step true to step_chan on all states satisfying the invariant — same enabledness, same stream. *)
From Coq Require Import List Arith Bool Lia.
Import ListNotations.
From TH Require Import Conc.SeqWriter Conc.SeqWriterFacts.

Local Arguments turn {byte}.
Local Arguments dropped {byte}.
Local Arguments sent {byte}.
Local Arguments ws {byte}.
Local Arguments stream {byte}.
Local Arguments New {byte}.
Local Arguments Write {byte}.
Local Arguments Flush {byte}.
Local Arguments DropW {byte}.
Local Arguments pred_done {byte}.
Local Arguments can_go {byte}.
Local Arguments step {byte}.
Local Arguments run {byte}.
Local Arguments init {byte}.
Local Arguments Inv {byte}.

Section Chan.
Variable byte : Type.
Notation bytes := (list byte).
Notation wr := (SeqWriter.wr byte).
Notation st := (SeqWriter.st byte).
Notation label := (SeqWriter.label byte).

Record cw := { trig : bool; released : bool; cdropped : bool; csent : bytes }.
Record cst := { cws : list cw; cstream : bytes }.
Implicit Types (s : st) (c : cst).

(* consume the trigger if still held: blocks (None) while the channel is empty *)
Definition wait (w : cw) : option cw :=
  if trig w then
    if released w then Some {| trig := false; released := false; cdropped := cdropped w; csent := csent w |} else None
  else Some w.

(* on_finish.send(()): put the message into the successor's channel *)
Definition release (l : list cw) (j : nat) : list cw :=
  match nth_error l j with
  | Some w => upd l j {| trig := trig w; released := true; cdropped := cdropped w; csent := csent w |}
  | None => l
  end.

Definition cpred_dropped (l : list cw) (i : nat) : bool :=
  match i with 0 => false | S j => match nth_error l j with Some w => cdropped w | None => false end end.

Definition step_chan (c : cst) (l : label) : option cst :=
  match l with
  | New => Some {| cws := cws c ++ [{| trig := 0 <? length (cws c);
                                      released := cpred_dropped (cws c) (length (cws c));
                                      cdropped := false; csent := [] |}];
                   cstream := cstream c |}
  | Write i d =>
      match nth_error (cws c) i with
      | Some w => if cdropped w then None else
          match wait w with
          | Some w1 => Some {| cws := upd (cws c) i {| trig := trig w1; released := released w1; cdropped := false; csent := csent w1 ++ d |};
                               cstream := cstream c ++ d |}
          | None => None
          end
      | None => None
      end
  | Flush i =>
      match nth_error (cws c) i with
      | Some w => if cdropped w then None else
          match wait w with
          | Some w1 => Some {| cws := upd (cws c) i {| trig := trig w1; released := released w1; cdropped := false; csent := csent w1 |};
                               cstream := cstream c |}
          | None => None
          end
      | None => None
      end
  | DropW i =>
      match nth_error (cws c) i with
      | Some w => if cdropped w then None else
          match wait w with
          | Some w1 => Some {| cws := release (upd (cws c) i {| trig := trig w1; released := released w1; cdropped := true; csent := csent w1 |}) (S i);
                               cstream := cstream c |}
          | None => None
          end
      | None => None
      end
  end.

Fixpoint run_chan (c : cst) (ls : list label) : option cst :=
  match ls with [] => Some c | l :: ls' => match step_chan c l with Some c' => run_chan c' ls' | None => None end end.

Definition cinit : cst := {| cws := []; cstream := [] |}.

(* ---------- the abstraction ---------- *)

Definition absw (l : list wr) (i : nat) (w : wr) : cw :=
  {| trig := (0 <? i) && negb (turn w);
     released := (0 <? i) && pred_done l i && negb (turn w);
     cdropped := dropped w; csent := sent w |}.

Fixpoint mapi_from {A B} (f : nat -> A -> B) (k : nat) (l : list A) : list B :=
  match l with [] => [] | a :: t => f k a :: mapi_from f (S k) t end.

Definition abs s : cst := {| cws := mapi_from (absw (ws s)) 0 (ws s); cstream := stream s |}.

Lemma nth_mapi_from {A B} (f : nat -> A -> B) (l : list A) : forall k i,
  nth_error (mapi_from f k l) i = option_map (f (k + i)) (nth_error l i).
Proof.
  induction l as [|a l IH]; intros k [|i]; cbn; auto.
  - now rewrite Nat.add_0_r.
  - rewrite IH. now rewrite Nat.add_succ_r.
Qed.

Lemma mapi_from_length {A B} (f : nat -> A -> B) (l : list A) : forall k, length (mapi_from f k l) = length l.
Proof. induction l as [|a l IH]; intros k; cbn; auto. Qed.

Lemma nth_abs s i : nth_error (cws (abs s)) i = option_map (absw (ws s) i) (nth_error (ws s) i).
Proof. unfold abs. cbn [cws]. now rewrite nth_mapi_from. Qed.

Lemma abs_length s : length (cws (abs s)) = length (ws s).
Proof. unfold abs. cbn [cws]. apply mapi_from_length. Qed.

Lemma list_ext {A} (l1 l2 : list A) : (forall i, nth_error l1 i = nth_error l2 i) -> l1 = l2.
Proof.
  revert l2; induction l1 as [|a l1 IH]; intros [|b l2] H; auto.
  - specialize (H 0); discriminate.
  - specialize (H 0); discriminate.
  - pose proof (H 0) as H0. cbn in H0. inversion H0; subst b. f_equal. apply IH. intros i. exact (H (S i)).
Qed.

Lemma nth_upd_full {A} (l : list A) i j x :
  nth_error (upd l i x) j = if j =? i then (if i <? length l then Some x else None) else nth_error l j.
Proof.
  destruct (Nat.eqb_spec j i) as [->|Hne].
  - destruct (Nat.ltb_spec i (length l)) as [Hl|Hl].
    + now apply nth_upd_same.
    + apply nth_error_None. now rewrite upd_length.
  - apply nth_upd_other. congruence.
Qed.

Lemma nth_release (l : list cw) k j :
  nth_error (release l k) j =
    if j =? k then option_map (fun w => {| trig := trig w; released := true; cdropped := cdropped w; csent := csent w |}) (nth_error l j)
    else nth_error l j.
Proof.
  unfold release. destruct (nth_error l k) as [w|] eqn:Ek.
  - rewrite nth_upd_full. destruct (Nat.eqb_spec j k) as [->|Hne]; auto.
    rewrite Ek. assert (Hl : k < length l) by (apply nth_error_Some; congruence).
    apply Nat.ltb_lt in Hl. now rewrite Hl.
  - destruct (Nat.eqb_spec j k) as [->|Hne]; auto. now rewrite Ek.
Qed.

Lemma pred_done_upd (l : list wr) i w w' j : nth_error l i = Some w -> dropped w' = dropped w ->
  pred_done (upd l i w') j = pred_done l j.
Proof.
  intros Hi Hd. destruct j as [|j]; cbn; auto. rewrite nth_upd_full.
  destruct (Nat.eqb_spec j i) as [->|Hne]; auto.
  assert (Hl : i < length l) by (apply nth_error_Some; congruence).
  apply Nat.ltb_lt in Hl. now rewrite Hl, Hi.
Qed.

Lemma pred_done_upd_far (l : list wr) i w' j : j <> S i -> pred_done (upd l i w') j = pred_done l j.
Proof.
  intros Hj. destruct j as [|j]; cbn; auto. rewrite nth_upd_other; auto.
Qed.

Lemma pred_done_app (l : list wr) x j : j <= length l -> pred_done (l ++ [x]) j = pred_done l j.
Proof. intros Hj. destruct j as [|j]; cbn; auto. rewrite nth_error_app1 by lia. reflexivity. Qed.

(* the explicit channel blocks exactly when can_go is false *)
Lemma wait_absw (l : list wr) i w :
  wait (absw l i w) =
    if can_go l i w then Some {| trig := false; released := false; cdropped := dropped w; csent := sent w |} else None.
Proof.
  unfold wait, absw, can_go. cbn [trig released cdropped csent].
  destruct i as [|i].
  - cbn. now rewrite orb_true_r.
  - change (0 <? S i) with true. cbn [andb]. destruct (turn w); cbn [negb orb andb].
    + now rewrite andb_false_r.
    + rewrite andb_true_r. destruct (pred_done l (S i)); reflexivity.
Qed.

Lemma abs_dropped s i w : nth_error (ws s) i = Some w ->
  nth_error (cws (abs s)) i = Some (absw (ws s) i w).
Proof. intros H. now rewrite nth_abs, H. Qed.

(* updating writer i without changing its dropped flag, with turn = true afterwards *)
Lemma abs_upd_turn s i w sn strm : nth_error (ws s) i = Some w -> dropped w = false ->
  upd (cws (abs s)) i {| trig := false; released := false; cdropped := false; csent := sn |} =
  cws (abs {| SeqWriter.ws := upd (ws s) i {| SeqWriter.turn := true; SeqWriter.dropped := false; SeqWriter.sent := sn |};
              SeqWriter.stream := strm |}).
Proof.
  intros Hi Hd. apply list_ext. intros j. rewrite nth_abs. cbn [ws]. rewrite !nth_upd_full.
  assert (Hl : i < length (ws s)) by (apply nth_error_Some; congruence).
  rewrite abs_length. apply Nat.ltb_lt in Hl. rewrite Hl.
  destruct (Nat.eqb_spec j i) as [->|Hne].
  - cbn. unfold absw. cbn. now rewrite !andb_false_r.
  - rewrite nth_abs. destruct (nth_error (ws s) j) as [wj|]; cbn; auto.
    unfold absw. rewrite (pred_done_upd (ws s) i w _ j Hi) by (cbn; congruence). reflexivity.
Qed.

Lemma cst_eq c1 c2 : cws c1 = cws c2 -> cstream c1 = cstream c2 -> c1 = c2.
Proof. destruct c1, c2; cbn; intros; subst; reflexivity. Qed.

Theorem step_chan_abs s l : Inv s -> step_chan (abs s) l = option_map abs (step true s l).
Proof.
  intros HI. destruct l as [|i d|i|i].
  - (* New *)
    cbn [step step_chan option_map]. f_equal.
    match goal with |- _ = abs ?x => set (s' := x) end.
    apply cst_eq; [|reflexivity]. cbn [cws]. apply list_ext. intros j. rewrite (nth_abs s'). subst s'. cbn [ws].
    rewrite abs_length.
    destruct (Nat.lt_trichotomy j (length (ws s))) as [Hlt|[->|Hgt]].
    + rewrite !nth_error_app1 by (try rewrite abs_length; lia). rewrite nth_abs.
      destruct (nth_error (ws s) j) as [wj|]; cbn; auto. unfold absw. rewrite pred_done_app by lia. reflexivity.
    + rewrite !nth_error_app2 by (try rewrite abs_length; lia). rewrite abs_length, Nat.sub_diag. cbn [nth_error option_map].
      f_equal. unfold absw. cbn [SeqWriter.turn SeqWriter.dropped SeqWriter.sent negb]. rewrite !andb_true_r. f_equal.
      destruct (length (ws s)) as [|n] eqn:En; [reflexivity|].
      change (0 <? S n) with true. cbn [andb cpred_dropped pred_done].
      rewrite nth_error_app1 by lia. rewrite nth_abs.
      destruct (nth_error (ws s) n) as [wn|]; reflexivity.
    + rewrite !nth_error_app2 by (try rewrite abs_length; lia). rewrite abs_length.
      destruct (j - length (ws s)) as [|[|m]] eqn:Em; try lia; reflexivity.
  - (* Write *)
    cbn [step step_chan]. rewrite nth_abs. destruct (nth_error (ws s) i) as [w|] eqn:Ei; cbn [option_map]; auto.
    change (cdropped (absw (ws s) i w)) with (dropped w). destruct (dropped w) eqn:Ed; auto.
    rewrite wait_absw. destruct (can_go (ws s) i w) eqn:Eg; auto. cbn [option_map trig released csent].
    f_equal. apply cst_eq; [|reflexivity]. cbn [cws]. apply (abs_upd_turn s i w _ _ Ei Ed).
  - (* Flush *)
    cbn [step step_chan]. rewrite nth_abs. destruct (nth_error (ws s) i) as [w|] eqn:Ei; cbn [option_map]; auto.
    change (cdropped (absw (ws s) i w)) with (dropped w). destruct (dropped w) eqn:Ed; auto.
    rewrite wait_absw. destruct (can_go (ws s) i w) eqn:Eg; auto. cbn [option_map trig released csent].
    f_equal. apply cst_eq; [|reflexivity]. cbn [cws]. apply (abs_upd_turn s i w _ _ Ei Ed).
  - (* DropW *)
    cbn [step step_chan]. rewrite nth_abs. destruct (nth_error (ws s) i) as [w|] eqn:Ei; cbn [option_map]; auto.
    change (cdropped (absw (ws s) i w)) with (dropped w). destruct (dropped w) eqn:Ed; auto.
    rewrite wait_absw. cbn [negb orb]. destruct (can_go (ws s) i w) eqn:Eg; auto. cbn [option_map trig released csent].
    f_equal. rewrite orb_true_r.
    match goal with |- _ = abs ?x => set (s' := x) end.
    apply cst_eq; [|reflexivity]. cbn [cws].
    assert (Hl : i < length (ws s)) by (apply nth_error_Some; congruence).
    pose proof Hl as Hlb. apply Nat.ltb_lt in Hlb.
    apply list_ext. intros j. rewrite (nth_abs s'). subst s'. cbn [ws].
    rewrite nth_release, !nth_upd_full, abs_length, Hlb, nth_abs.
    destruct (Nat.eqb_spec j (S i)) as [->|HnS].
    + destruct (Nat.eqb_spec (S i) i) as [Hbad|_]; [lia|].
      destruct (nth_error (ws s) (S i)) as [w1|] eqn:E1; cbn [option_map]; auto.
      destruct (undropped_after byte s i w HI Ei Ed (S i) w1 ltac:(lia) E1) as (Ht1 & _).
      unfold absw. cbn [trig released cdropped csent pred_done]. rewrite nth_upd_same by exact Hl.
      cbn [SeqWriter.dropped]. rewrite Ht1. reflexivity.
    + destruct (Nat.eqb_spec j i) as [->|Hni].
      * cbn [option_map]. unfold absw. cbn. now rewrite !andb_false_r.
      * destruct (nth_error (ws s) j) as [wj|]; cbn [option_map]; auto.
        unfold absw. rewrite pred_done_upd_far by exact HnS. reflexivity.
Qed.

Lemma abs_init : abs init = cinit.
Proof. reflexivity. Qed.

Theorem run_chan_abs ls : forall s, Inv s -> run_chan (abs s) ls = option_map abs (run true s ls).
Proof.
  induction ls as [|l ls IH]; intros s HI; cbn [run run_chan]; [reflexivity|].
  rewrite (step_chan_abs s l HI). destruct (step true s l) as [s1|] eqn:E; cbn [option_map]; [|reflexivity].
  apply IH. exact (step_inv byte s l s1 HI E).
Qed.

(* the explicit-channel system and the `can_go` system accept exactly the same label sequences from the initial
   state and reach related states, in particular the same stream *)
Theorem channel_refinement ls : run_chan cinit ls = option_map abs (run true init ls).
Proof. rewrite <- abs_init. apply run_chan_abs. apply init_inv. Qed.

Corollary channel_same_enabledness ls s l : run true init ls = Some s ->
  run_chan cinit ls = Some (abs s) /\
  (step true s l = None <-> step_chan (abs s) l = None) /\
  cstream (abs s) = stream s.
Proof.
  intros H. split; [now rewrite channel_refinement, H|]. split; [|reflexivity].
  rewrite step_chan_abs by (apply reachable_inv; exists ls; exact H).
  destruct (step true s l); cbn; split; intros; congruence.
Qed.

End Chan.
