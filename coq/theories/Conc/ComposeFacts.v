(* Conc/ComposeFacts.v — composition of the two models of one connection:
   (1) the sequential-writer chain (Conc/SeqWriter.v, all interleavings of the threads that answer), and
   (2) the sequential serve model (Http/Serve.v) whose wire is a concatenation of segments (Http/WireFacts.v).
   Every segment is written through exactly one writer of the chain, taken in order by the connection thread
   (src/client.rs: `self.sink.next()` once per parsed request, once per 400/417/408 refusal).
   Part A is generic in the byte type and in the list of blocks (`blocks`, one per writer); part B instantiates
   `byte := ascii`, `blocks := map (seg_bytes date) segs`. *)
From Coq Require Import List Arith Bool Lia Ascii.
Import ListNotations.
From TH Require Import Conc.SeqWriter Conc.SeqWriterFacts.

Local Arguments turn {byte}.
Local Arguments dropped {byte}.
Local Arguments sent {byte}.
Local Arguments ws {byte}.
Local Arguments stream {byte}.
Local Arguments New {byte}.
Local Arguments Write {byte}.
Local Arguments Flush {byte}.
Local Arguments DropW {byte}.
Local Arguments step {byte}.
Local Arguments run {byte}.
Local Arguments init {byte}.
Local Arguments Inv {byte}.
Local Arguments reachable {byte}.
Local Arguments writes_of {byte}.
Local Arguments wdata {byte}.
Local Arguments sent_at {byte}.
Local Arguments is_new {byte}.
Local Arguments OWrite {byte}.
Local Arguments OFlush {byte}.
Local Arguments lab {byte}.
Local Arguments op_data {byte}.
Local Arguments data {byte}.
Local Arguments answer {byte}.
Local Arguments arrival {byte}.
Local Arguments least_undropped {byte}.
Local Arguments label_index {byte}.

Section Gen.
Variable byte : Type.
Notation bytes := (list byte).
Notation wr := (SeqWriter.wr byte).
Notation st := (SeqWriter.st byte).
Notation label := (SeqWriter.label byte).
Notation op := (SeqWriterFacts.op byte).
Notation fresh := {| SeqWriter.turn := false; SeqWriter.dropped := false; SeqWriter.sent := @nil byte |}.
Implicit Types (s : st) (w : wr) (ls : list label) (blocks : list bytes).

(* ---------- lists ---------- *)

Lemma map_nth_seq {A} (l : list A) d : map (fun i => nth i l d) (seq 0 (length l)) = l.
Proof.
  rewrite <- (map_as_seq (fun x => x) (fun i => nth i l d) l); [apply map_id|].
  intros i x H. symmetry. now apply nth_error_nth.
Qed.

Lemma nth_map_seq {B} (f : nat -> B) k m j d : j < m -> nth j (map f (seq k m)) d = f (k + j).
Proof.
  intros H. rewrite (nth_indep _ d (f 0)) by (rewrite map_length, seq_length; exact H).
  rewrite map_nth, seq_nth by exact H. reflexivity.
Qed.

Lemma skipn_app_exact {A} (a b : list A) : skipn (length a) (a ++ b) = b.
Proof. induction a as [|x a IH]; cbn; auto. Qed.

Lemma skipn_nth_error {A} (l : list A) : forall k x, nth_error l k = Some x -> skipn k l = x :: skipn (S k) l.
Proof.
  induction l as [|a l IH]; intros [|k] x H; cbn in H; try discriminate.
  - now inversion H.
  - exact (IH k x H).
Qed.

Lemma nth_error_firstn_some {A} (l : list A) : forall k i x,
  nth_error (firstn k l) i = Some x -> i < k /\ nth_error l i = Some x.
Proof.
  induction l as [|a l IH]; intros [|k] [|i] x H; cbn in H; try discriminate.
  - split; [lia|exact H].
  - destruct (IH k i x H). split; [lia|assumption].
Qed.

Lemma firstn_as_seq {A} (l : list A) d k : k <= length l ->
  firstn k l = map (fun i => nth i l d) (seq 0 k).
Proof.
  intros Hk. rewrite <- (map_id (firstn k l)).
  rewrite (map_as_seq (fun x => x) (fun i => nth i l d) (firstn k l)).
  - now rewrite firstn_length, Nat.min_l.
  - intros i x H. apply nth_error_firstn_some in H as [_ H]. symmetry. now apply nth_error_nth.
Qed.

(* ---------- what a label sequence writes through writer i ---------- *)

Lemma writes_of_app i ls1 ls2 : writes_of i (ls1 ++ ls2) = writes_of i ls1 ++ writes_of i ls2.
Proof. unfold writes_of. now rewrite map_app, concat_app. Qed.

Lemma writes_of_news i n : writes_of i (repeat (@New byte) n) = [].
Proof. unfold writes_of. induction n as [|n IH]; cbn; auto. Qed.

Lemma wdata_lab i k (o : op) : wdata i (lab k o) = if k =? i then op_data o else [].
Proof. destruct o as [d|]; cbn; [reflexivity|now destruct (k =? i)]. Qed.

Lemma writes_of_labs i k (ops : list op) : writes_of i (map (lab k) ops) = if k =? i then data ops else [].
Proof.
  unfold writes_of, data. induction ops as [|o ops IH]; cbn [map concat]; [now destruct (k =? i)|].
  rewrite IH, wdata_lab. destruct (k =? i); reflexivity.
Qed.

Lemma writes_of_answer i k (ops : list op) : writes_of i (answer k ops) = if k =? i then data ops else [].
Proof.
  unfold answer. rewrite writes_of_app, writes_of_labs. unfold writes_of. cbn. now rewrite app_nil_r.
Qed.

Lemma writes_of_arrival (opss : list (list op)) : forall k i,
  writes_of i (arrival k opss) = if k <=? i then data (nth (i - k) opss []) else [].
Proof.
  induction opss as [|ops r IH]; intros k i.
  - unfold writes_of. cbn. destruct (k <=? i); [|reflexivity]. now destruct (i - k).
  - cbn [arrival]. rewrite writes_of_app, writes_of_answer, IH.
    destruct (Nat.eqb_spec k i) as [->|Hne].
    + rewrite Nat.leb_refl, Nat.sub_diag. cbn [nth]. destruct (Nat.leb_spec (S i) i); [lia|]. apply app_nil_r.
    + cbn [app]. destruct (Nat.leb_spec (S k) i) as [H|H], (Nat.leb_spec k i) as [H'|H']; try lia; auto.
      replace (i - k) with (S (i - S k)) by lia. reflexivity.
Qed.

Lemma news_of_answer k (ops : list op) : filter is_new (answer k ops) = [].
Proof.
  unfold answer. rewrite filter_app. cbn. rewrite app_nil_r. induction ops as [|[d|] ops IH]; cbn; auto.
Qed.

Lemma news_of_arrival (opss : list (list op)) : forall k, filter is_new (arrival k opss) = [].
Proof.
  induction opss as [|ops r IH]; intros k; cbn [arrival]; [reflexivity|].
  now rewrite filter_app, news_of_answer, IH.
Qed.

Lemma news_of_repeat n : length (filter is_new (repeat (@New byte) n)) = n.
Proof. induction n as [|n IH]; cbn; auto. Qed.

Lemma sent_at_init i : sent_at (@init byte) i = [].
Proof. unfold sent_at. cbn. now destruct i. Qed.

Lemma run_writes ls s i : run true init ls = Some s -> sent_at s i = writes_of i ls.
Proof. intros H. rewrite (run_sent_at byte true ls init s i H). now rewrite sent_at_init. Qed.

Lemma run_news_count ls s : run true init ls = Some s -> length (ws s) = length (filter is_new ls).
Proof. intros H. exact (run_length byte true ls init s H). Qed.

(* ---------- 1. whatever the interleaving, the stream is the concatenation of the blocks ---------- *)

Lemma any_interleaving_blocks blocks ls s :
  run true init ls = Some s ->
  length (filter is_new ls) = length blocks ->
  (forall i, i < length blocks -> writes_of i ls = nth i blocks []) ->
  stream s = concat blocks.
Proof.
  intros H Hn Hw. rewrite (stream_is_per_writer_data byte ls s H), (run_news_count ls s H), Hn.
  transitivity (concat (map (fun i => nth i blocks []) (seq 0 (length blocks)))); [|now rewrite map_nth_seq].
  f_equal. apply map_ext_in. intros i Hi. apply in_seq in Hi. apply Hw. lia.
Qed.

(* ---------- 2. schedules that complete ---------- *)

(* all requests arrive, then each is answered in arrival order by arbitrary pieces and flushes *)
Lemma arrival_schedule_spec (opss : list (list op)) :
  let ls := repeat New (length opss) ++ arrival 0 opss in
  (exists s, run true init ls = Some s /\ stream s = concat (map data opss) /\
             length (ws s) = length opss /\ least_undropped (ws s) = None) /\
  length (filter is_new ls) = length opss /\
  forall i, writes_of i ls = nth i (map data opss) [].
Proof.
  cbv zeta. split; [exact (arrival_from_start byte opss)|]. split.
  - now rewrite filter_app, news_of_arrival, app_nil_r, news_of_repeat.
  - intros i. rewrite writes_of_app, writes_of_news, writes_of_arrival. cbn [app Nat.leb]. rewrite Nat.sub_0_r.
    change (@nil byte) with (data (@nil op)). now rewrite map_nth.
Qed.

(* the dropped writers of a state satisfying the invariant form an initial segment *)
Lemma dropped_profile s : Inv s ->
  exists k, k <= length (ws s) /\
    (forall j wj, nth_error (ws s) j = Some wj -> dropped wj = (j <? k)).
Proof.
  intros HI. destruct (least_undropped (ws s)) as [k|] eqn:El.
  - exists k. split; [|exact (least_undropped_profile byte s k HI El)].
    destruct (least_undropped_some byte _ _ El) as ((w & Hw & _) & _).
    apply Nat.lt_le_incl. apply nth_error_Some. congruence.
  - exists (length (ws s)). split; [lia|]. intros j wj Hn.
    rewrite (least_undropped_none byte _ El j wj Hn). symmetry. apply Nat.ltb_lt. apply nth_error_Some. congruence.
Qed.

(* state s is an intermediate state of an execution in which writer i is to write blocks[i]:
   every writer has so far written a prefix of its block, a dropped writer all of it *)
Definition consistent blocks s : Prop :=
  forall i w, nth_error (ws s) i = Some w ->
    (exists rest, nth i blocks [] = sent w ++ rest) /\ (dropped w = true -> sent w = nth i blocks []).

Definition rest_of blocks s (i : nat) : bytes := skipn (length (sent_at s i)) (nth i blocks []).

Lemma all_dropped_none (l : list wr) :
  (forall j wj, nth_error l j = Some wj -> dropped wj = true) -> least_undropped l = None.
Proof.
  intros Hall. destruct (least_undropped l) as [m|] eqn:El; auto.
  destruct (least_undropped_some byte _ _ El) as ((w & Hm & Hd) & _). rewrite (Hall m w Hm) in Hd. discriminate.
Qed.

(* every writer already exists *)
Lemma partial_run_completes_eq blocks ls0 s :
  run true init ls0 = Some s -> length (ws s) = length blocks -> consistent blocks s ->
  exists ls1 s', run true s ls1 = Some s' /\ stream s' = concat blocks /\ least_undropped (ws s') = None /\
    filter is_new ls1 = [] /\
    forall i, i < length blocks -> writes_of i (ls0 ++ ls1) = nth i blocks [].
Proof.
  intros H Hlen Hc.
  assert (HI : Inv s) by (apply reachable_inv; exists ls0; exact H).
  destruct (dropped_profile s HI) as (k & Hk & Hprof).
  set (n := length (ws s)) in *.
  set (opss := map (fun i => [OWrite (rest_of blocks s i)]) (seq k (n - k))).
  assert (Hol : length opss = n - k) by (unfold opss; now rewrite map_length, seq_length).
  destruct (arrival_runs byte opss k s ltac:(fold n; lia) Hprof) as (s' & Hrun & _ & Hl' & Hall & _).
  assert (Hw : forall i, i < length blocks -> writes_of i (ls0 ++ arrival k opss) = nth i blocks []).
  { intros i Hi. rewrite writes_of_app, <- (run_writes ls0 s i H), writes_of_arrival.
    destruct (nth_error (ws s) i) as [w|] eqn:Ei; [|apply nth_error_None in Ei; fold n in Ei; lia].
    destruct (Hc i w Ei) as ((rest & Hrest) & Hdone). pose proof (Hprof i w Ei) as Hd.
    unfold sent_at at 1. rewrite Ei.
    destruct (Nat.leb_spec k i) as [Hki|Hki].
    - unfold opss. rewrite nth_map_seq by lia. replace (k + (i - k)) with i by lia.
      unfold data, rest_of, sent_at. rewrite Ei. cbn. rewrite app_nil_r, Hrest. now rewrite skipn_app_exact.
    - rewrite app_nil_r. apply Hdone. rewrite Hd. now apply Nat.ltb_lt. }
  exists (arrival k opss), s'. split; [exact Hrun|]. split; [|split; [|split; [apply news_of_arrival|exact Hw]]].
  - apply (any_interleaving_blocks blocks (ls0 ++ arrival k opss) s'); [now rewrite run_app, H| |exact Hw].
    rewrite filter_app, news_of_arrival, app_nil_r, <- (run_news_count ls0 s H). exact Hlen.
  - now apply all_dropped_none.
Qed.

Lemma consistent_news blocks s m : consistent blocks s ->
  consistent blocks {| SeqWriter.ws := ws s ++ repeat fresh m; SeqWriter.stream := stream s |}.
Proof.
  intros Hc i w Hn. cbn in Hn. destruct (Nat.lt_ge_cases i (length (ws s))) as [Hl|Hl].
  - rewrite nth_error_app1 in Hn by exact Hl. exact (Hc i w Hn).
  - rewrite nth_error_app2 in Hn by exact Hl. apply nth_error_In, repeat_spec in Hn. subst w. cbn.
    split; [eexists; reflexivity|discriminate].
Qed.

(* from ANY intermediate state of ANY interleaving (some requests not even parsed yet) the execution can be
   completed, and the completed execution meets the hypotheses of any_interleaving_blocks *)
Lemma partial_run_completes blocks ls0 s :
  run true init ls0 = Some s -> length (ws s) <= length blocks -> consistent blocks s ->
  exists ls1 s', run true s ls1 = Some s' /\ stream s' = concat blocks /\ least_undropped (ws s') = None /\
    length (filter is_new (ls0 ++ ls1)) = length blocks /\
    forall i, i < length blocks -> writes_of i (ls0 ++ ls1) = nth i blocks [].
Proof.
  intros H Hlen Hc. set (m := length blocks - length (ws s)).
  set (s1 := {| SeqWriter.ws := ws s ++ repeat fresh m; SeqWriter.stream := stream s |}).
  assert (H1 : run true init (ls0 ++ repeat New m) = Some s1) by (rewrite run_app, H; apply run_news).
  destruct (partial_run_completes_eq blocks (ls0 ++ repeat New m) s1 H1) as (ls1 & s' & Hrun & Hstr & Hnone & Hnew & Hw).
  - unfold s1, m. cbn. rewrite app_length, repeat_length. lia.
  - apply consistent_news. exact Hc.
  - exists (repeat New m ++ ls1), s'. split; [|split; [exact Hstr|split; [exact Hnone|split]]].
    + rewrite run_app, run_news. exact Hrun.
    + rewrite app_assoc, filter_app, Hnew, app_nil_r, <- (run_news_count _ s1 H1).
      unfold s1, m. cbn. rewrite app_length, repeat_length. lia.
    + intros i Hi. rewrite app_assoc. exact (Hw i Hi).
Qed.

(* ---------- blocked attempts: a thread whose operation is refused waits; the state is unchanged ---------- *)
Fixpoint exec (s : st) (ls : list label) : st * list label :=
  match ls with
  | [] => (s, [])
  | l :: r => match step true s l with
              | Some s' => let (sf, done) := exec s' r in (sf, l :: done)
              | None => exec s r
              end
  end.

Lemma exec_run ls : forall s sf done, exec s ls = (sf, done) -> run true s done = Some sf.
Proof.
  induction ls as [|l r IH]; intros s sf done H; cbn in H.
  - inversion H; subst. reflexivity.
  - destruct (step true s l) as [s'|] eqn:E; [|exact (IH s sf done H)].
    destruct (exec s' r) as [sf' done'] eqn:E'. inversion H; subst. cbn. rewrite E. exact (IH s' sf done' E').
Qed.

(* ---------- 3. every intermediate state: complete blocks, then a prefix of the next one ---------- *)

Lemma concat_all_nil (l : list wr) : (forall j wj, nth_error l j = Some wj -> sent wj = []) ->
  concat (map sent l) = [].
Proof.
  intros H. apply concat_nil_Forall. rewrite Forall_map. apply Forall_forall. intros x Hx.
  apply In_nth_error in Hx as [m Hm]. exact (H m x Hm).
Qed.

Lemma no_label_no_writes i ls : Forall (fun l => label_index l <> Some i) ls -> writes_of i ls = [].
Proof.
  unfold writes_of. induction 1 as [|l ls Hl _ IH]; cbn; [reflexivity|]. rewrite IH, app_nil_r.
  destruct l as [|j d|j|j]; cbn in *; auto. destruct (Nat.eqb_spec j i); [congruence|reflexivity].
Qed.

Lemma prefix_in_order blocks ls1 ls2 s1 s :
  run true init ls1 = Some s1 -> run true s1 ls2 = Some s ->
  length (filter is_new (ls1 ++ ls2)) = length blocks ->
  (forall i, i < length blocks -> writes_of i (ls1 ++ ls2) = nth i blocks []) ->
  exists k p q,
    stream s1 = concat (firstn k blocks) ++ p /\ nth k blocks [] = p ++ q /\ k <= length blocks /\
    (forall j wj, nth_error (ws s1) j = Some wj -> dropped wj = (j <? k)) /\
    (forall j wj, k < j -> nth_error (ws s1) j = Some wj -> sent wj = []).
Proof.
  intros H1 H2 Hn Hw.
  assert (HI : Inv s1) by (apply reachable_inv; exists ls1; exact H1).
  destruct (dropped_profile s1 HI) as (k & Hk & Hprof).
  pose proof (run_news_count ls1 s1 H1) as Hn1.
  assert (Hle : length (ws s1) <= length blocks).
  { rewrite <- Hn, Hn1, filter_app, app_length. lia. }
  (* dropped writers have written their whole block *)
  assert (Hdone : forall j wj, j < k -> nth_error (ws s1) j = Some wj -> sent wj = nth j blocks []).
  { intros j wj Hj Hnj. assert (Hd : dropped wj = true) by (rewrite (Hprof j wj Hnj); now apply Nat.ltb_lt).
    destruct (dropped_frozen_run byte true ls2 s1 s j wj H2 Hnj Hd) as (_ & Hf).
    rewrite <- Hw by lia. rewrite writes_of_app, (no_label_no_writes j ls2 Hf), app_nil_r.
    exact (sent_is_writes byte true ls1 s1 j wj H1 Hnj). }
  assert (Hfirst : concat (map sent (firstn k (ws s1))) = concat (firstn k blocks)).
  { f_equal. rewrite (firstn_as_seq blocks [] k) by lia.
    rewrite (map_as_seq sent (fun i => nth i blocks []) (firstn k (ws s1))).
    - now rewrite firstn_length, Nat.min_l.
    - intros i x Hx. apply nth_error_firstn_some in Hx as [Hik Hx]. exact (Hdone i x Hik Hx). }
  pose proof HI as (Hstr & _).
  rewrite <- (firstn_skipn k (ws s1)), map_app, concat_app, Hfirst in Hstr.
  destruct (nth_error (ws s1) k) as [wk|] eqn:Ek.
  - assert (Hdk : dropped wk = false) by (rewrite (Hprof k wk Ek); apply Nat.ltb_irrefl).
    assert (Hlater : forall j wj, k < j -> nth_error (ws s1) j = Some wj -> sent wj = []).
    { intros j wj Hj Hnj. now destruct (undropped_after byte s1 k wk HI Ek Hdk j wj Hj Hnj) as (_ & _ & ?). }
    assert (Hkn : k < length blocks) by (assert (k < length (ws s1)) by (apply nth_error_Some; congruence); lia).
    exists k, (sent wk), (writes_of k ls2). split; [|split; [|split; [lia|split; [exact Hprof|exact Hlater]]]].
    + rewrite Hstr. f_equal.
      assert (Hsk : skipn k (ws s1) = wk :: skipn (S k) (ws s1)) by exact (skipn_nth_error _ _ _ Ek).
      rewrite Hsk. cbn [map concat]. rewrite concat_all_nil; [apply app_nil_r|].
      intros j wj Hnj. rewrite nth_error_skipn in Hnj. apply (Hlater (S k + j)); [lia|exact Hnj].
    + rewrite <- Hw by exact Hkn. rewrite writes_of_app. f_equal. symmetry. exact (sent_is_writes byte true ls1 s1 k wk H1 Ek).
  - apply nth_error_None in Ek. assert (k = length (ws s1)) by lia. subst k.
    exists (length (ws s1)), [], (nth (length (ws s1)) blocks []).
    split; [|split; [reflexivity|split; [exact Hle|split; [exact Hprof|]]]].
    + rewrite Hstr, skipn_all. reflexivity.
    + intros j wj Hj Hnj. assert (j < length (ws s1)) by (apply nth_error_Some; congruence). lia.
Qed.

(* hence what the client has received at any moment is a prefix of the final stream *)
Lemma prefix_of_final blocks ls1 ls2 s1 s :
  run true init ls1 = Some s1 -> run true s1 ls2 = Some s ->
  length (filter is_new (ls1 ++ ls2)) = length blocks ->
  (forall i, i < length blocks -> writes_of i (ls1 ++ ls2) = nth i blocks []) ->
  exists rest, concat blocks = stream s1 ++ rest.
Proof.
  intros H1 H2 Hn Hw.
  destruct (prefix_in_order blocks ls1 ls2 s1 s H1 H2 Hn Hw) as (k & p & q & Hs & Hpq & Hk & _).
  assert (Hb : concat blocks = concat (firstn k blocks) ++ concat (skipn k blocks)).
  { rewrite <- concat_app. now rewrite firstn_skipn. }
  rewrite Hs, Hb.
  destruct (nth_error blocks k) as [b|] eqn:Eb.
  - exists (q ++ concat (skipn (S k) blocks)). rewrite <- app_assoc. f_equal.
    rewrite (skipn_nth_error _ _ _ Eb). cbn [concat].
    rewrite (nth_error_nth _ _ [] Eb) in Hpq. rewrite Hpq. now rewrite app_assoc.
  - apply nth_error_None in Eb. rewrite nth_overflow in Hpq by exact Eb.
    symmetry in Hpq. apply app_eq_nil in Hpq as [-> ->]. exists []. rewrite skipn_all2 by exact Eb. cbn [concat]. now rewrite !app_nil_r.
Qed.

End Gen.

(* ================= Part B: the chain carries the segments of one served connection ================= *)
From TH Require Import Base.Bytes Http.Response Http.Request Http.Body Http.Serve Http.WireFacts.

Notation chain_run := (@SeqWriter.run ascii true (@SeqWriter.init ascii)).
Notation chain_stream := (@SeqWriter.stream ascii).
Notation news ls := (List.length (filter (@SeqWriterFacts.is_new ascii) ls)).

Lemma nth_seg_blocks date (segs : list seg) i : i < List.length segs ->
  nth i (map (seg_bytes date) segs) [] = seg_bytes date (nth i segs S505).
Proof.
  intros H. rewrite (nth_indep _ [] (seg_bytes date S505)) by now rewrite map_length. apply map_nth.
Qed.

(* hypothesis (c): writer i wrote exactly the bytes of segment i (in any pieces, at any moments) *)
Definition writes_segments (date : bytes) (segs : list seg) (ls : list (@SeqWriter.label ascii)) : Prop :=
  forall i, i < List.length segs -> @SeqWriterFacts.writes_of ascii i ls = seg_bytes date (nth i segs S505).

Lemma writes_segments_blocks date segs ls : writes_segments date segs ls ->
  forall i, i < List.length (map (seg_bytes date) segs) ->
    @SeqWriterFacts.writes_of ascii i ls = nth i (map (seg_bytes date) segs) [].
Proof. intros H i Hi. rewrite map_length in Hi. rewrite nth_seg_blocks by exact Hi. exact (H i Hi). Qed.

Lemma blocks_writes_segments date segs ls :
  (forall i, i < List.length (map (seg_bytes date) segs) ->
     @SeqWriterFacts.writes_of ascii i ls = nth i (map (seg_bytes date) segs) []) ->
  writes_segments date segs ls.
Proof. intros H i Hi. rewrite <- nth_seg_blocks by exact Hi. apply H. now rewrite map_length. Qed.

Section Wire.
Variables (date : bytes) (script : list action) (dflt : action) (input : bytes) (eof : bool).
Let o := serve fixed date script dflt input eof.

(* 1. any interleaving of the answering threads produces the wire of the sequential model *)
Theorem any_interleaving_same_wire (segs : list seg) ls cs :
  o_wire o = segs_bytes date segs ->
  chain_run ls = Some cs -> news ls = List.length segs -> writes_segments date segs ls ->
  chain_stream cs = o_wire o.
Proof.
  intros Hwire Hrun Hn Hw. rewrite Hwire. unfold segs_bytes.
  apply (any_interleaving_blocks ascii (map (seg_bytes date) segs) ls cs Hrun).
  - now rewrite map_length.
  - now apply writes_segments_blocks.
Qed.

Theorem any_interleaving_same_wire_ex :
  exists segs : list seg,
    o_wire o = segs_bytes date segs /\
    map snd (seg_reqs segs) = o_reqs o /\
    map fst (seg_reqs segs) = used_actions script dflt (List.length (o_reqs o)) /\
    forall ls cs, chain_run ls = Some cs -> news ls = List.length segs -> writes_segments date segs ls ->
      chain_stream cs = o_wire o.
Proof.
  destruct (wire_decomposition date script dflt input eof) as (segs & Hw & Hr & Ha & _).
  exists segs. repeat split; auto. intros ls cs. now apply any_interleaving_same_wire.
Qed.

(* the same with any list of blocks whose concatenation is the wire (e.g. with an empty block for the writer
   that request::new_request discards when it fails with ExpectationFailed / InvalidContentLength) *)
Theorem any_interleaving_blocks_wire (blocks : list bytes) ls cs :
  o_wire o = List.concat blocks ->
  chain_run ls = Some cs -> news ls = List.length blocks ->
  (forall i, i < List.length blocks -> @SeqWriterFacts.writes_of ascii i ls = nth i blocks []) ->
  chain_stream cs = o_wire o.
Proof. intros Hwire Hrun Hn Hw. rewrite Hwire. exact (any_interleaving_blocks ascii blocks ls cs Hrun Hn Hw). Qed.

(* 2. non-vacuity in general: answering in arrival order, each segment split into arbitrary pieces with
   arbitrary flushes, is a complete run meeting the hypotheses above *)
Theorem complete_run_gives_wire (segs : list seg) (opss : list (list (@SeqWriterFacts.op ascii))) :
  o_wire o = segs_bytes date segs ->
  map (@SeqWriterFacts.data ascii) opss = map (seg_bytes date) segs ->
  let ls := repeat (@SeqWriter.New ascii) (List.length segs) ++ @SeqWriterFacts.arrival ascii 0 opss in
  exists cs, chain_run ls = Some cs /\ news ls = List.length segs /\ writes_segments date segs ls /\
    chain_stream cs = o_wire o /\ @SeqWriterFacts.least_undropped ascii (@SeqWriter.ws ascii cs) = None.
Proof.
  intros Hwire Hd. cbv zeta.
  assert (Hl : List.length opss = List.length segs) by (rewrite <- (map_length (@SeqWriterFacts.data ascii)), Hd; apply map_length).
  rewrite <- Hl.
  destruct (arrival_schedule_spec ascii opss) as ((cs & Hrun & Hstr & _ & Hnone) & Hn & Hw).
  exists cs. split; [exact Hrun|]. split; [exact Hn|]. split; [|split; [|exact Hnone]].
  - apply blocks_writes_segments. intros i _. rewrite <- Hd. apply Hw.
  - rewrite Hstr, Hd. symmetry. exact Hwire.
Qed.

Lemma data_single (segs : list seg) :
  map (@SeqWriterFacts.data ascii) (map (fun sg => [@SeqWriterFacts.OWrite ascii (seg_bytes date sg)]) segs)
  = map (seg_bytes date) segs.
Proof.
  rewrite map_map. apply map_ext. intros sg. unfold SeqWriterFacts.data. cbn. now rewrite app_nil_r.
Qed.

Theorem complete_run_exists :
  exists (segs : list seg) ls cs,
    o_wire o = segs_bytes date segs /\ map snd (seg_reqs segs) = o_reqs o /\
    chain_run ls = Some cs /\ news ls = List.length segs /\ writes_segments date segs ls /\ chain_stream cs = o_wire o.
Proof.
  destruct (wire_decomposition date script dflt input eof) as (segs & Hw & Hr & _).
  destruct (complete_run_gives_wire segs _ Hw (data_single segs)) as (cs & Hrun & Hn & Hws & Hs & _).
  exists segs. do 2 eexists. repeat split; eauto.
Qed.

(* from ANY intermediate state of ANY interleaving in which every writer has so far written a prefix of its
   segment and every dropped writer all of it, the execution can be completed (possibly after the remaining
   requests are parsed), and the completed execution produces the wire *)
Theorem partial_run_completes_wire (segs : list seg) ls0 cs :
  o_wire o = segs_bytes date segs ->
  chain_run ls0 = Some cs -> List.length (@SeqWriter.ws ascii cs) <= List.length segs ->
  consistent ascii (map (seg_bytes date) segs) cs ->
  exists ls1 cs', @SeqWriter.run ascii true cs ls1 = Some cs' /\ chain_stream cs' = o_wire o /\
    @SeqWriterFacts.least_undropped ascii (@SeqWriter.ws ascii cs') = None /\
    news (ls0 ++ ls1) = List.length segs /\ writes_segments date segs (ls0 ++ ls1).
Proof.
  intros Hwire Hrun Hlen Hc.
  destruct (partial_run_completes ascii (map (seg_bytes date) segs) ls0 cs Hrun) as (ls1 & cs' & H1 & H2 & H3 & H4 & H5).
  - now rewrite map_length.
  - exact Hc.
  - exists ls1, cs'. rewrite map_length in H4. repeat split; auto.
    + rewrite H2. symmetry. exact Hwire.
    + now apply blocks_writes_segments.
Qed.

(* 3. at every moment the client has received all of responses 0..k-1, a prefix of response k, nothing else *)
Theorem prefix_in_order_wire (segs : list seg) ls1 ls2 cs1 cs :
  o_wire o = segs_bytes date segs ->
  chain_run ls1 = Some cs1 -> @SeqWriter.run ascii true cs1 ls2 = Some cs ->
  news (ls1 ++ ls2) = List.length segs -> writes_segments date segs (ls1 ++ ls2) ->
  exists k p q,
    chain_stream cs1 = segs_bytes date (firstn k segs) ++ p /\
    nth k (map (seg_bytes date) segs) [] = p ++ q /\ k <= List.length segs /\
    (forall j wj, nth_error (@SeqWriter.ws ascii cs1) j = Some wj -> @SeqWriter.dropped ascii wj = (j <? k)%nat) /\
    (forall j wj, k < j -> nth_error (@SeqWriter.ws ascii cs1) j = Some wj -> @SeqWriter.sent ascii wj = []) /\
    exists rest, o_wire o = chain_stream cs1 ++ rest.
Proof.
  intros Hwire H1 H2 Hn Hw.
  assert (Hn' : news (ls1 ++ ls2) = List.length (map (seg_bytes date) segs)) by now rewrite map_length.
  pose proof (writes_segments_blocks date segs _ Hw) as Hw'.
  destruct (prefix_in_order ascii _ ls1 ls2 cs1 cs H1 H2 Hn' Hw') as (k & p & q & Hs & Hpq & Hk & Hd & Hl).
  exists k, p, q. rewrite map_length in Hk. unfold segs_bytes. rewrite <- firstn_map.
  repeat split; auto.
  rewrite Hwire. exact (prefix_of_final ascii _ ls1 ls2 cs1 cs H1 H2 Hn' Hw').
Qed.

End Wire.
