(* Conc/SeqWriterFacts.v — consequences of the invariant of Conc/SeqWriter.v (sequential-writer chain of
   src/util/sequential.rs) for the repaired tree (`fixed = true`), over ALL label sequences:
   block order of the stream, the unique active writer, nobody writes out of turn, progress of the least
   undropped writer (no deadlock for answers given in arrival order, drop releases the followers),
   a writer is dropped at most once, the block of writer i is exactly the data written through writer i. *)
From Coq Require Import List Arith Bool Lia.
Import ListNotations.
From TH Require Import Conc.SeqWriter.

Local Arguments turn {byte}.
Local Arguments dropped {byte}.
Local Arguments sent {byte}.
Local Arguments ws {byte}.
Local Arguments stream {byte}.
Local Arguments New {byte}.
Local Arguments Write {byte}.
Local Arguments Flush {byte}.
Local Arguments DropW {byte}.
Local Arguments pred_done {byte}.
Local Arguments can_go {byte}.
Local Arguments step {byte}.
Local Arguments run {byte}.
Local Arguments init {byte}.
Local Arguments Inv {byte}.

Section Facts.
Variable byte : Type.
Notation bytes := (list byte).
Notation wr := (SeqWriter.wr byte).
Notation st := (SeqWriter.st byte).
Notation label := (SeqWriter.label byte).
Implicit Types (s : st) (w wi wj wk : wr) (d : bytes).

(* ---------- reachability ---------- *)

Definition reachable (s : st) : Prop := exists ls, run true init ls = Some s.

Lemma run_app fixed (l1 l2 : list label) : forall s,
  run fixed s (l1 ++ l2) = match run fixed s l1 with Some s1 => run fixed s1 l2 | None => None end.
Proof.
  induction l1 as [|l l1 IH]; intros s; cbn; [reflexivity|].
  destruct (step fixed s l) as [s1|]; [apply IH|reflexivity].
Qed.

Lemma reachable_init : reachable init.
Proof. exists []. reflexivity. Qed.

Lemma reachable_run s ls s' : reachable s -> run true s ls = Some s' -> reachable s'.
Proof. intros [l0 H0] H. exists (l0 ++ ls). now rewrite run_app, H0. Qed.

Lemma reachable_step s l s' : reachable s -> step true s l = Some s' -> reachable s'.
Proof. intros Hr H. apply (reachable_run s [l] s' Hr). cbn. now rewrite H. Qed.

Lemma reachable_inv s : reachable s -> Inv s.
Proof. intros [ls H]. exact (run_inv byte ls init s (init_inv byte) H). Qed.

(* ---------- list splitting ---------- *)

Lemma nth_split_firstn_skipn {A} (l : list A) i x :
  nth_error l i = Some x -> l = firstn i l ++ x :: skipn (S i) l.
Proof.
  revert i; induction l as [|a l IH]; intros [|i] H; cbn in *; try discriminate.
  - now inversion H.
  - f_equal. now apply IH.
Qed.

Lemma nth_error_skipn {A} (l : list A) n j : nth_error (skipn n l) j = nth_error l (n + j).
Proof.
  revert l; induction n as [|n IH]; intros l; cbn; [reflexivity|].
  destruct l as [|a l]; [now destruct j|apply IH].
Qed.

(* ---------- 1. block order ---------- *)

Lemma stream_split s i wi : Inv s -> nth_error (ws s) i = Some wi ->
  stream s = concat (map sent (firstn i (ws s))) ++ sent wi ++ concat (map sent (skipn (S i) (ws s))).
Proof.
  intros (Hs & _) Hi. rewrite Hs. rewrite (nth_split_firstn_skipn _ _ _ Hi) at 1.
  now rewrite map_app, concat_app.
Qed.

(* all bytes of writer i precede all bytes of writer j for i < j *)
Lemma stream_blocks_ordered s i j wi wj : Inv s -> i < j ->
  nth_error (ws s) i = Some wi -> nth_error (ws s) j = Some wj ->
  exists mid post,
    stream s = concat (map sent (firstn i (ws s))) ++ sent wi ++ mid ++ sent wj ++ post /\
    concat (map sent (firstn j (ws s))) = concat (map sent (firstn i (ws s))) ++ sent wi ++ mid.
Proof.
  intros HI Hij Hi Hj.
  pose proof (stream_split s j wj HI Hj) as Hsj.
  assert (Hi' : nth_error (firstn j (ws s)) i = Some wi).
  { rewrite <- Hi. clear -Hij. revert i j Hij. induction (ws s) as [|a l IH]; intros [|i] [|j] H; cbn; try lia; auto.
    apply IH; lia. }
  pose proof (nth_split_firstn_skipn _ _ _ Hi') as Hsp.
  assert (Hff : firstn i (firstn j (ws s)) = firstn i (ws s)).
  { rewrite firstn_firstn. f_equal. lia. }
  rewrite Hff in Hsp.
  exists (concat (map sent (skipn (S i) (firstn j (ws s))))), (concat (map sent (skipn (S j) (ws s)))).
  assert (Hc : concat (map sent (firstn j (ws s))) =
    concat (map sent (firstn i (ws s))) ++ sent wi ++ concat (map sent (skipn (S i) (firstn j (ws s))))).
  { rewrite Hsp at 1. now rewrite map_app, concat_app. }
  split; [|exact Hc].
  rewrite Hsj, Hc. now rewrite <- !app_assoc.
Qed.

(* ---------- 2. the unique active writer ---------- *)

Definition active (w : wr) : bool := turn w && negb (dropped w).

Lemma active_before s i wi : Inv s -> nth_error (ws s) i = Some wi -> active wi = true ->
  forall k wk, k < i -> nth_error (ws s) k = Some wk -> dropped wk = true.
Proof.
  intros (_ & Hturn & _) Hi Ha. apply andb_true_iff in Ha as [Ht _]. exact (Hturn i wi Hi Ht).
Qed.

Lemma undropped_after s i wi : Inv s -> nth_error (ws s) i = Some wi -> dropped wi = false ->
  forall k wk, i < k -> nth_error (ws s) k = Some wk -> turn wk = false /\ dropped wk = false /\ sent wk = [].
Proof.
  intros (_ & Hturn & Hsent & Hdt) Hi Hd k wk Hk Hnk.
  assert (Ht : turn wk = false).
  { destruct (turn wk) eqn:Et; auto. specialize (Hturn k wk Hnk Et i wi Hk Hi). congruence. }
  split; [exact Ht|]. split; [|exact (Hsent k wk Hnk Ht)].
  destruct (dropped wk) eqn:Ed; auto. specialize (Hdt k wk Hnk Ed). congruence.
Qed.

Lemma active_after s i wi : Inv s -> nth_error (ws s) i = Some wi -> active wi = true ->
  forall k wk, i < k -> nth_error (ws s) k = Some wk -> turn wk = false /\ dropped wk = false /\ sent wk = [].
Proof.
  intros HI Hi Ha. apply andb_true_iff in Ha as [_ Hd]. apply negb_true_iff in Hd.
  exact (undropped_after s i wi HI Hi Hd).
Qed.

Lemma single_active s i j wi wj : Inv s ->
  nth_error (ws s) i = Some wi -> active wi = true ->
  nth_error (ws s) j = Some wj -> active wj = true -> i = j.
Proof.
  intros HI Hi Hai Hj Haj.
  destruct (Nat.lt_trichotomy i j) as [H|[H|H]]; auto; exfalso.
  - destruct (active_after s i wi HI Hi Hai j wj H Hj) as (Ht & _).
    apply andb_true_iff in Haj as [Ht' _]. congruence.
  - destruct (active_after s j wj HI Hj Haj i wi H Hi) as (Ht & _).
    apply andb_true_iff in Hai as [Ht' _]. congruence.
Qed.

(* ---------- 3. nobody writes out of turn ---------- *)

Lemma write_inversion fixed s i d s' : step fixed s (Write i d) = Some s' ->
  exists w, nth_error (ws s) i = Some w /\ dropped w = false /\ can_go (ws s) i w = true /\
    s' = {| SeqWriter.ws := upd (ws s) i {| SeqWriter.turn := true; SeqWriter.dropped := false; SeqWriter.sent := sent w ++ d |};
            SeqWriter.stream := stream s ++ d |}.
Proof.
  cbn. intros H. destruct (nth_error (ws s) i) as [w|] eqn:Ei; [|discriminate].
  destruct (dropped w) eqn:Ed; [discriminate|]. destruct (can_go (ws s) i w) eqn:Eg; [|discriminate].
  exists w. inversion H. auto.
Qed.

Lemma only_active_writes s i d s' : Inv s -> step true s (Write i d) = Some s' ->
  (forall j wj, j < i -> nth_error (ws s) j = Some wj -> dropped wj = true) /\
  (forall j, j <> i -> nth_error (ws s') j = nth_error (ws s) j) /\
  (exists w w', nth_error (ws s) i = Some w /\ nth_error (ws s') i = Some w' /\
     dropped w = false /\ sent w' = sent w ++ d /\ active w' = true) /\
  stream s' = stream s ++ d.
Proof.
  intros HI H. apply write_inversion in H as (w & Ei & Ed & Eg & ->). cbn. repeat split.
  - exact (can_go_preds byte s i w HI Ei Eg).
  - intros j Hj. apply nth_upd_other. congruence.
  - exists w. eexists. split; [exact Ei|]. split; [apply nth_upd_same; apply nth_error_Some; congruence|].
    cbn. auto.
Qed.

(* ---------- 4. progress ---------- *)

Fixpoint least_undropped (l : list wr) : option nat :=
  match l with
  | [] => None
  | w :: t => if dropped w then option_map S (least_undropped t) else Some 0
  end.

Lemma least_undropped_some l : forall i, least_undropped l = Some i ->
  (exists w, nth_error l i = Some w /\ dropped w = false) /\
  (forall k wk, k < i -> nth_error l k = Some wk -> dropped wk = true).
Proof.
  induction l as [|a l IH]; intros i H; cbn in H; [discriminate|].
  destruct (dropped a) eqn:Ed.
  - destruct (least_undropped l) as [m|] eqn:El; [|discriminate]. cbn in H. inversion H; subst i.
    destruct (IH m eq_refl) as ((w & Hw & Hd) & Hb). split.
    + exists w. auto.
    + intros [|k] wk Hk Hn; cbn in Hn; [now inversion Hn; subst|]. apply (Hb k); auto; lia.
  - inversion H; subst i. split; [exists a; auto|]. intros k wk Hk; lia.
Qed.

Lemma least_undropped_none l : least_undropped l = None ->
  forall k wk, nth_error l k = Some wk -> dropped wk = true.
Proof.
  induction l as [|a l IH]; intros H k wk Hn; [now destruct k|]. cbn in H.
  destruct (dropped a) eqn:Ed; [|discriminate].
  destruct (least_undropped l) eqn:El; [discriminate|].
  destruct k as [|k]; cbn in Hn; [now inversion Hn; subst|]. eapply IH; eauto.
Qed.

Lemma least_undropped_intro l i w : nth_error l i = Some w -> dropped w = false ->
  (forall k wk, k < i -> nth_error l k = Some wk -> dropped wk = true) -> least_undropped l = Some i.
Proof.
  revert i; induction l as [|a l IH]; intros [|i] Hn Hd Hb; cbn in *; try discriminate.
  - inversion Hn; subst a. now rewrite Hd.
  - rewrite (Hb 0 a) by (auto; lia). rewrite (IH i); auto.
    intros k wk Hk Hnk. apply (Hb (S k)); auto; lia.
Qed.

(* a writer all of whose predecessors were dropped is never blocked (no invariant needed) *)
Lemma preds_dropped_can_go (l : list wr) i w : nth_error l i = Some w ->
  (forall k wk, k < i -> nth_error l k = Some wk -> dropped wk = true) -> can_go l i w = true.
Proof.
  intros Hi Hb. unfold can_go. apply orb_true_iff. right. destruct i as [|j]; cbn; [reflexivity|].
  destruct (nth_error l j) as [wj|] eqn:Ej.
  - apply (Hb j); auto.
  - exfalso. apply nth_error_None in Ej. assert (S j < length l) by (apply nth_error_Some; congruence). lia.
Qed.

Lemma step_write_some s i w d : nth_error (ws s) i = Some w -> dropped w = false -> can_go (ws s) i w = true ->
  step true s (Write i d) =
    Some {| SeqWriter.ws := upd (ws s) i {| SeqWriter.turn := true; SeqWriter.dropped := false; SeqWriter.sent := sent w ++ d |};
            SeqWriter.stream := stream s ++ d |}.
Proof. intros Hi Hd Hg. cbn. now rewrite Hi, Hd, Hg. Qed.

Lemma step_flush_some s i w : nth_error (ws s) i = Some w -> dropped w = false -> can_go (ws s) i w = true ->
  step true s (Flush i) =
    Some {| SeqWriter.ws := upd (ws s) i {| SeqWriter.turn := true; SeqWriter.dropped := false; SeqWriter.sent := sent w |};
            SeqWriter.stream := stream s |}.
Proof. intros Hi Hd Hg. cbn. now rewrite Hi, Hd, Hg. Qed.

Lemma step_drop_some s i w : nth_error (ws s) i = Some w -> dropped w = false -> can_go (ws s) i w = true ->
  step true s (DropW i) =
    Some {| SeqWriter.ws := upd (ws s) i {| SeqWriter.turn := true; SeqWriter.dropped := true; SeqWriter.sent := sent w |};
            SeqWriter.stream := stream s |}.
Proof. intros Hi Hd Hg. cbn. rewrite Hi, Hd, Hg. cbn. now rewrite orb_true_r. Qed.

Definition enabled (s : st) (l : label) : Prop := exists s', step true s l = Some s'.

(* the least undropped writer can always write, flush and be dropped: no deadlock *)
Lemma least_undropped_enabled s i : least_undropped (ws s) = Some i ->
  (forall d, enabled s (Write i d)) /\ enabled s (Flush i) /\ enabled s (DropW i).
Proof.
  intros H. destruct (least_undropped_some _ _ H) as ((w & Hi & Hd) & Hb).
  pose proof (preds_dropped_can_go _ _ _ Hi Hb) as Hg. unfold enabled. repeat split.
  - intros d. rewrite (step_write_some s i w d Hi Hd Hg). eauto.
  - rewrite (step_flush_some s i w Hi Hd Hg). eauto.
  - rewrite (step_drop_some s i w Hi Hd Hg). eauto.
Qed.

Lemma upd_length {A} (l : list A) i x : length (upd l i x) = length l.
Proof. revert i; induction l as [|a l IH]; intros [|i]; cbn; auto. Qed.

(* the operations one thread performs on one writer: writes and flushes, then the drop *)
Inductive op := OWrite (d : bytes) | OFlush.
Definition lab (i : nat) (o : op) : label := match o with OWrite d => Write i d | OFlush => Flush i end.
Definition op_data (o : op) : bytes := match o with OWrite d => d | OFlush => [] end.
Definition data (ops : list op) : bytes := concat (map op_data ops).
Definition answer (i : nat) (ops : list op) : list label := map (lab i) ops ++ [DropW i].
Fixpoint arrival (k : nat) (opss : list (list op)) : list label :=
  match opss with [] => [] | ops :: r => answer k ops ++ arrival (S k) r end.

Lemma answer_runs i ops : forall s w,
  nth_error (ws s) i = Some w -> dropped w = false ->
  (forall k wk, k < i -> nth_error (ws s) k = Some wk -> dropped wk = true) ->
  exists s', run true s (answer i ops) = Some s' /\
    stream s' = stream s ++ data ops /\
    length (ws s') = length (ws s) /\
    (forall j, j <> i -> nth_error (ws s') j = nth_error (ws s) j) /\
    exists w', nth_error (ws s') i = Some w' /\ dropped w' = true /\ sent w' = sent w ++ data ops.
Proof.
  assert (Hlt : forall s w, nth_error (ws s) i = Some w -> i < length (ws s)).
  { intros s w H. apply nth_error_Some. congruence. }
  induction ops as [|o ops IH]; intros s w Hi Hd Hb; pose proof (preds_dropped_can_go _ _ _ Hi Hb) as Hg.
  - unfold answer, data. cbn [map app run concat]. rewrite (step_drop_some s i w Hi Hd Hg).
    eexists. split; [reflexivity|]. cbn. rewrite !app_nil_r. repeat split.
    + apply upd_length.
    + intros j Hj. apply nth_upd_other. congruence.
    + eexists. split; [apply nth_upd_same; eauto|]. cbn. auto.
  - unfold answer. cbn [map app run].
    assert (Hstep : exists w1, step true s (lab i o) =
        Some {| SeqWriter.ws := upd (ws s) i w1; SeqWriter.stream := stream s ++ op_data o |} /\
        dropped w1 = false /\ sent w1 = sent w ++ op_data o).
    { destruct o as [d|]; cbn [lab op_data].
      - rewrite (step_write_some s i w d Hi Hd Hg). eexists. split; [reflexivity|]. cbn. auto.
      - rewrite (step_flush_some s i w Hi Hd Hg). eexists. split; [now rewrite app_nil_r|]. cbn. now rewrite app_nil_r. }
    destruct Hstep as (w1 & -> & Hd1 & Hs1).
    set (s1 := {| SeqWriter.ws := upd (ws s) i w1; SeqWriter.stream := stream s ++ op_data o |}).
    assert (Hi1 : nth_error (ws s1) i = Some w1) by (cbn; apply nth_upd_same; eauto).
    assert (Hb1 : forall k wk, k < i -> nth_error (ws s1) k = Some wk -> dropped wk = true).
    { intros k wk Hk Hn. cbn in Hn. rewrite nth_upd_other in Hn by lia. exact (Hb k wk Hk Hn). }
    destruct (IH s1 w1 Hi1 Hd1 Hb1) as (s' & Hrun & Hstr & Hlen & Hoth & w' & Hw' & Hdw' & Hsw').
    exists s'. split; [exact Hrun|]. unfold data in *. cbn [map concat]. repeat split.
    + rewrite Hstr. cbn. now rewrite app_assoc.
    + rewrite Hlen. cbn. apply upd_length.
    + intros j Hj. rewrite (Hoth j Hj). cbn. apply nth_upd_other. congruence.
    + exists w'. repeat split; auto. rewrite Hsw', Hs1. now rewrite app_assoc.
Qed.

(* answers given in arrival order never block: writers k, k+1, ... each perform arbitrary writes and flushes
   and are then dropped *)
Lemma arrival_runs opss : forall k s,
  length (ws s) = k + length opss ->
  (forall j wj, nth_error (ws s) j = Some wj -> dropped wj = (j <? k)) ->
  exists s', run true s (arrival k opss) = Some s' /\
    stream s' = stream s ++ concat (map data opss) /\
    length (ws s') = length (ws s) /\
    (forall j wj, nth_error (ws s') j = Some wj -> dropped wj = true) /\
    (forall j, j < k -> nth_error (ws s') j = nth_error (ws s) j).
Proof.
  induction opss as [|ops r IH]; intros k s Hlen Hdr.
  - exists s. cbn. rewrite app_nil_r. repeat split; auto.
    intros j wj Hn. rewrite (Hdr j wj Hn). apply Nat.ltb_lt.
    assert (j < length (ws s)) by (apply nth_error_Some; congruence). cbn in Hlen. lia.
  - cbn [arrival]. rewrite run_app. cbn [length] in Hlen.
    destruct (nth_error (ws s) k) as [w|] eqn:Ek; [|apply nth_error_None in Ek; lia].
    assert (Hd : dropped w = false) by (rewrite (Hdr k w Ek); apply Nat.ltb_irrefl).
    assert (Hb : forall j wj, j < k -> nth_error (ws s) j = Some wj -> dropped wj = true).
    { intros j wj Hj Hn. rewrite (Hdr j wj Hn). now apply Nat.ltb_lt. }
    destruct (answer_runs k ops s w Ek Hd Hb) as (s1 & Hrun & Hstr & Hl1 & Hoth & w' & Hw' & Hdw' & _).
    rewrite Hrun.
    assert (Hdr1 : forall j wj, nth_error (ws s1) j = Some wj -> dropped wj = (j <? S k)).
    { intros j wj Hn. destruct (Nat.eq_dec j k) as [->|Hne].
      - rewrite Hw' in Hn. inversion Hn; subst wj. rewrite Hdw'. symmetry. apply Nat.ltb_lt. lia.
      - rewrite (Hoth j Hne) in Hn. rewrite (Hdr j wj Hn).
        destruct (Nat.ltb_spec j k), (Nat.ltb_spec j (S k)); auto; lia. }
    destruct (IH (S k) s1 ltac:(lia) Hdr1) as (s' & Hrun' & Hstr' & Hl' & Hall & Hlow).
    exists s'. split; [exact Hrun'|]. cbn [map concat]. repeat split; auto.
    + rewrite Hstr', Hstr. now rewrite app_assoc.
    + lia.
    + intros j Hj. rewrite (Hlow j) by lia. apply Hoth. lia.
Qed.

(* in a state satisfying the invariant everything after the least undropped writer is undropped *)
Lemma least_undropped_profile s k : Inv s -> least_undropped (ws s) = Some k ->
  forall j wj, nth_error (ws s) j = Some wj -> dropped wj = (j <? k).
Proof.
  intros HI H j wj Hn. destruct (least_undropped_some _ _ H) as ((w & Hk & Hd) & Hb).
  destruct (Nat.lt_trichotomy j k) as [Hlt|[->|Hgt]].
  - rewrite (Hb j wj Hlt Hn). symmetry. now apply Nat.ltb_lt.
  - rewrite Hk in Hn. inversion Hn; subst wj. rewrite Hd. symmetry. apply Nat.ltb_irrefl.
  - destruct (undropped_after s k w HI Hk Hd j wj Hgt Hn) as (_ & Hdj & _). rewrite Hdj.
    symmetry. apply Nat.ltb_ge. lia.
Qed.

Lemma arrival_order_no_deadlock s k opss : Inv s ->
  least_undropped (ws s) = Some k -> length (ws s) = k + length opss ->
  exists s', run true s (arrival k opss) = Some s' /\
    stream s' = stream s ++ concat (map data opss) /\
    length (ws s') = length (ws s) /\
    least_undropped (ws s') = None.
Proof.
  intros HI H Hlen.
  destruct (arrival_runs opss k s Hlen (least_undropped_profile s k HI H)) as (s' & Hrun & Hstr & Hl & Hall & _).
  exists s'. repeat split; auto.
  destruct (least_undropped (ws s')) as [m|] eqn:El; auto.
  destruct (least_undropped_some _ _ El) as ((w & Hm & Hd) & _). rewrite (Hall m w Hm) in Hd. discriminate.
Qed.

(* dropping every remaining writer in index order always works *)
Definition drop_from (k n : nat) : list label := map DropW (seq k n).

Lemma drop_from_arrival n : forall k, drop_from k n = arrival k (repeat [] n).
Proof.
  induction n as [|n IH]; intros k; [reflexivity|]. unfold drop_from in *. cbn. now rewrite IH.
Qed.

Lemma drop_all_runs s k : Inv s -> least_undropped (ws s) = Some k ->
  exists s', run true s (drop_from k (length (ws s) - k)) = Some s' /\
    stream s' = stream s /\ length (ws s') = length (ws s) /\ least_undropped (ws s') = None.
Proof.
  intros HI H. rewrite drop_from_arrival.
  assert (Hk : k < length (ws s)).
  { destruct (least_undropped_some _ _ H) as ((w & Hw & _) & _). apply nth_error_Some. congruence. }
  destruct (arrival_order_no_deadlock s k (repeat [] (length (ws s) - k)) HI H) as (s' & Hrun & Hstr & Hl & Hn).
  { rewrite repeat_length. lia. }
  exists s'. repeat split; auto. rewrite Hstr.
  assert (Hz : forall m, concat (map data (repeat [] m)) = []) by (induction m; cbn; auto).
  now rewrite Hz, app_nil_r.
Qed.

(* a drop releases the follower: after DropW i the operations of writer i+1 are enabled *)
Lemma drop_releases_follower s i s' w1 : Inv s -> step true s (DropW i) = Some s' ->
  nth_error (ws s) (S i) = Some w1 ->
  least_undropped (ws s') = Some (S i) /\
  (forall d, enabled s' (Write (S i) d)) /\ enabled s' (Flush (S i)) /\ enabled s' (DropW (S i)).
Proof.
  intros HI H H1.
  assert (Hl : least_undropped (ws s') = Some (S i)).
  { cbn in H. destruct (nth_error (ws s) i) as [w|] eqn:Ei; [|discriminate].
    destruct (dropped w) eqn:Ed; [discriminate|]. cbn in H. destruct (can_go (ws s) i w) eqn:Eg; [|discriminate].
    inversion H; subst s'; clear H. cbn.
    destruct (undropped_after s i w HI Ei Ed (S i) w1 ltac:(lia) H1) as (_ & Hd1 & _).
    apply (least_undropped_intro _ (S i) w1); auto.
    - rewrite nth_upd_other by lia. exact H1.
    - intros k wk Hk Hn. destruct (Nat.eq_dec k i) as [->|Hne].
      + rewrite nth_upd_same in Hn by (apply nth_error_Some; congruence). now inversion Hn.
      + rewrite nth_upd_other in Hn by congruence.
        apply (can_go_preds byte s i w HI Ei Eg k wk); auto; lia. }
  split; [exact Hl|]. now apply least_undropped_enabled.
Qed.

(* ---------- 5. dropped at most once ---------- *)

Definition label_index (l : label) : option nat :=
  match l with New => None | Write i _ => Some i | Flush i => Some i | DropW i => Some i end.

Lemma dropped_disabled fixed s i w l : nth_error (ws s) i = Some w -> dropped w = true ->
  label_index l = Some i -> step fixed s l = None.
Proof.
  intros Hi Hd Hl. destruct l as [|j d|j|j]; cbn in Hl; inversion Hl; subst j; cbn; now rewrite Hi, Hd.
Qed.

(* a dropped writer is never touched again *)
Lemma dropped_frozen_step fixed s l s' i w : step fixed s l = Some s' ->
  nth_error (ws s) i = Some w -> dropped w = true -> nth_error (ws s') i = Some w /\ label_index l <> Some i.
Proof.
  intros H Hi Hd. split.
  - destruct l as [|j d|j|j]; cbn in H.
    + inversion H; subst s'. cbn. rewrite nth_error_app1; auto. apply nth_error_Some. congruence.
    + destruct (nth_error (ws s) j) as [wj|] eqn:Ej; [|discriminate].
      destruct (dropped wj) eqn:Edj; [discriminate|]. destruct (can_go (ws s) j wj); [|discriminate].
      inversion H; subst s'. cbn. rewrite nth_upd_other; auto. intros ->. congruence.
    + destruct (nth_error (ws s) j) as [wj|] eqn:Ej; [|discriminate].
      destruct (dropped wj) eqn:Edj; [discriminate|]. destruct (can_go (ws s) j wj); [|discriminate].
      inversion H; subst s'. cbn. rewrite nth_upd_other; auto. intros ->. congruence.
    + destruct (nth_error (ws s) j) as [wj|] eqn:Ej; [|discriminate].
      destruct (dropped wj) eqn:Edj; [discriminate|]. destruct (negb fixed || can_go (ws s) j wj); [|discriminate].
      inversion H; subst s'. cbn. rewrite nth_upd_other; auto. intros ->. congruence.
  - intros Hl. rewrite (dropped_disabled fixed s i w l Hi Hd Hl) in H. discriminate.
Qed.

Lemma dropped_frozen_run fixed ls : forall s s' i w, run fixed s ls = Some s' ->
  nth_error (ws s) i = Some w -> dropped w = true ->
  nth_error (ws s') i = Some w /\ Forall (fun l => label_index l <> Some i) ls.
Proof.
  induction ls as [|l ls IH]; intros s s' i w H Hi Hd; cbn in H.
  - inversion H; subst s'. auto.
  - destruct (step fixed s l) as [s1|] eqn:E; [|discriminate].
    destruct (dropped_frozen_step fixed s l s1 i w E Hi Hd) as (Hi1 & Hl).
    destruct (IH s1 s' i w H Hi1 Hd) as (Hi' & Hf). auto.
Qed.

Lemma drop_sets_dropped fixed s i s' : step fixed s (DropW i) = Some s' ->
  exists w', nth_error (ws s') i = Some w' /\ dropped w' = true.
Proof.
  cbn. intros H. destruct (nth_error (ws s) i) as [w|] eqn:Ei; [|discriminate].
  destruct (dropped w); [discriminate|]. destruct (negb fixed || can_go (ws s) i w); [|discriminate].
  inversion H; subst s'. cbn. eexists. split; [apply nth_upd_same; apply nth_error_Some; congruence|reflexivity].
Qed.

(* after its drop no label of writer i occurs any more in any executable sequence *)
Lemma dropped_once fixed s i ls s' : run fixed s (DropW i :: ls) = Some s' ->
  Forall (fun l => label_index l <> Some i) ls /\
  exists w, nth_error (ws s') i = Some w /\ dropped w = true.
Proof.
  cbn [run]. intros H. destruct (step fixed s (DropW i)) as [s1|] eqn:E; [|discriminate].
  destruct (drop_sets_dropped fixed s i s1 E) as (w' & Hw' & Hd').
  destruct (dropped_frozen_run fixed ls s1 s' i w' H Hw' Hd') as (Hn & Hf). split; eauto.
Qed.

Definition is_drop (i : nat) (l : label) : bool := match l with DropW j => j =? i | _ => false end.

Lemma filter_none {A} (f : A -> bool) l : Forall (fun x => f x = false) l -> filter f l = [].
Proof. induction 1 as [|x l Hx _ IH]; cbn; auto. now rewrite Hx. Qed.

Lemma dropped_at_most_once fixed ls : forall s s' i, run fixed s ls = Some s' ->
  length (filter (is_drop i) ls) <= 1.
Proof.
  induction ls as [|l ls IH]; intros s s' i H; [cbn; lia|].
  cbn [filter]. destruct (is_drop i l) eqn:El.
  - destruct l as [|j d|j|j]; cbn in El; try discriminate. apply Nat.eqb_eq in El; subst j.
    destruct (dropped_once fixed s i ls s' H) as (Hf & _).
    rewrite filter_none; [cbn; lia|].
    eapply Forall_impl; [|exact Hf]. intros [|j d|j|j] Hj; cbn in *; auto.
    apply Nat.eqb_neq. congruence.
  - cbn [run] in H. destruct (step fixed s l) as [s1|]; [|discriminate]. eapply IH; eauto.
Qed.

(* ---------- the block of writer i is exactly the data written through writer i ---------- *)

Definition wdata (i : nat) (l : label) : bytes :=
  match l with Write j d => if j =? i then d else [] | _ => [] end.
Definition writes_of (i : nat) (ls : list label) : bytes := concat (map (wdata i) ls).
Definition sent_at (s : st) (i : nat) : bytes :=
  match nth_error (ws s) i with Some w => sent w | None => [] end.

Lemma step_sent_at fixed s l s' i : step fixed s l = Some s' -> sent_at s' i = sent_at s i ++ wdata i l.
Proof.
  unfold sent_at. intros H. destruct l as [|j d|j|j]; cbn in H.
  - inversion H; subst s'. cbn. rewrite app_nil_r.
    destruct (Nat.lt_ge_cases i (length (ws s))) as [Hl|Hl].
    + now rewrite nth_error_app1.
    + rewrite nth_error_app2 by lia.
      assert (Hn : nth_error (ws s) i = None) by now apply nth_error_None. rewrite Hn.
      destruct (i - length (ws s)) as [|[|m]]; reflexivity.
  - destruct (nth_error (ws s) j) as [wj|] eqn:Ej; [|discriminate].
    destruct (dropped wj); [discriminate|]. destruct (can_go (ws s) j wj); [|discriminate].
    inversion H; subst s'. cbn. destruct (Nat.eqb_spec j i) as [->|Hne].
    + rewrite nth_upd_same by (apply nth_error_Some; congruence). now rewrite Ej.
    + rewrite nth_upd_other by auto. now rewrite app_nil_r.
  - destruct (nth_error (ws s) j) as [wj|] eqn:Ej; [|discriminate].
    destruct (dropped wj); [discriminate|]. destruct (can_go (ws s) j wj); [|discriminate].
    inversion H; subst s'. cbn. rewrite app_nil_r. destruct (Nat.eq_dec j i) as [->|Hne].
    + rewrite nth_upd_same by (apply nth_error_Some; congruence). now rewrite Ej.
    + now rewrite nth_upd_other by auto.
  - destruct (nth_error (ws s) j) as [wj|] eqn:Ej; [|discriminate].
    destruct (dropped wj); [discriminate|]. destruct (negb fixed || can_go (ws s) j wj); [|discriminate].
    inversion H; subst s'. cbn. rewrite app_nil_r. destruct (Nat.eq_dec j i) as [->|Hne].
    + rewrite nth_upd_same by (apply nth_error_Some; congruence). now rewrite Ej.
    + now rewrite nth_upd_other by auto.
Qed.

Lemma run_sent_at fixed ls : forall s s' i, run fixed s ls = Some s' ->
  sent_at s' i = sent_at s i ++ writes_of i ls.
Proof.
  unfold writes_of. induction ls as [|l ls IH]; intros s s' i H; cbn in H.
  - inversion H; subst s'. cbn. now rewrite app_nil_r.
  - destruct (step fixed s l) as [s1|] eqn:E; [|discriminate].
    rewrite (IH s1 s' i H), (step_sent_at fixed s l s1 i E). cbn. now rewrite app_assoc.
Qed.

Lemma sent_is_writes fixed ls s i w : run fixed init ls = Some s -> nth_error (ws s) i = Some w ->
  sent w = writes_of i ls.
Proof.
  intros H Hi. pose proof (run_sent_at fixed ls init s i H) as E. unfold sent_at in E. rewrite Hi in E.
  cbn in E. now destruct i.
Qed.

Lemma map_as_seq {A B} (f : A -> B) (g : nat -> B) (l : list A) :
  (forall i x, nth_error l i = Some x -> f x = g i) -> map f l = map g (seq 0 (length l)).
Proof.
  induction l as [|x l IH] using rev_ind; intros H; [reflexivity|].
  rewrite app_length. cbn [length]. rewrite Nat.add_1_r, seq_S, !map_app. cbn. f_equal.
  - apply IH. intros i y Hn. apply H. rewrite nth_error_app1; auto. apply nth_error_Some. congruence.
  - f_equal. apply H. rewrite nth_error_app2, Nat.sub_diag by lia. reflexivity.
Qed.

(* C01 in terms of the labels alone: the bytes on the socket are, for writer 0, 1, 2, ... in this order,
   everything that was written through that writer *)
Lemma stream_is_per_writer_data ls s : run true init ls = Some s ->
  stream s = concat (map (fun i => writes_of i ls) (seq 0 (length (ws s)))).
Proof.
  intros H. rewrite (ordered_not_interleaved byte ls s H). f_equal.
  apply map_as_seq. intros i w Hi. exact (sent_is_writes true ls s i w H Hi).
Qed.

Definition is_new (l : label) : bool := match l with New => true | _ => false end.

Lemma step_length fixed s l s' : step fixed s l = Some s' ->
  length (ws s') = length (ws s) + (if is_new l then 1 else 0).
Proof.
  intros H. destruct l as [|j d|j|j]; cbn in H.
  - inversion H; subst s'. cbn. now rewrite app_length.
  - destruct (nth_error (ws s) j) as [wj|]; [|discriminate].
    destruct (dropped wj); [discriminate|]. destruct (can_go (ws s) j wj); [|discriminate].
    inversion H; subst s'. cbn. rewrite upd_length. lia.
  - destruct (nth_error (ws s) j) as [wj|]; [|discriminate].
    destruct (dropped wj); [discriminate|]. destruct (can_go (ws s) j wj); [|discriminate].
    inversion H; subst s'. cbn. rewrite upd_length. lia.
  - destruct (nth_error (ws s) j) as [wj|]; [|discriminate].
    destruct (dropped wj); [discriminate|]. destruct (negb fixed || can_go (ws s) j wj); [|discriminate].
    inversion H; subst s'. cbn. rewrite upd_length. lia.
Qed.

Lemma run_length fixed ls : forall s s', run fixed s ls = Some s' ->
  length (ws s') = length (ws s) + length (filter is_new ls).
Proof.
  induction ls as [|l ls IH]; intros s s' H; cbn in H.
  - inversion H; subst s'. cbn. lia.
  - destruct (step fixed s l) as [s1|] eqn:E; [|discriminate].
    rewrite (IH s1 s' H), (step_length fixed s l s1 E). cbn [filter]. destruct (is_new l); cbn; lia.
Qed.

End Facts.

(* ---------- answers in arrival order, from the very beginning ---------- *)
Section FromStart.
Variable byte : Type.
Notation fresh := {| SeqWriter.turn := false; SeqWriter.dropped := false; SeqWriter.sent := @nil byte |}.

Lemma run_news fixed n : forall s : SeqWriter.st byte,
  run fixed s (repeat New n) = Some {| SeqWriter.ws := ws s ++ repeat fresh n; SeqWriter.stream := stream s |}.
Proof.
  induction n as [|n IH]; intros s; cbn [repeat run].
  - rewrite app_nil_r. now destruct s.
  - cbn [step]. rewrite IH. cbn. now rewrite <- app_assoc.
Qed.

(* n requests arrive, then each is answered in arrival order by arbitrary writes and flushes followed by the drop:
   the run never blocks and the socket carries the answers back to back *)
Lemma arrival_from_start (opss : list (list (op byte))) :
  exists s, run true init (repeat New (length opss) ++ arrival byte 0 opss) = Some s /\
    stream s = concat (map (data byte) opss) /\ length (ws s) = length opss /\
    least_undropped byte (ws s) = None.
Proof.
  rewrite run_app, run_news. cbn [ws stream init app].
  set (s0 := {| SeqWriter.ws := repeat fresh (length opss); SeqWriter.stream := [] |}).
  destruct (arrival_runs byte opss 0 s0) as (s' & Hrun & Hstr & Hl & Hall & _).
  - cbn. now rewrite repeat_length.
  - intros j wj Hn. cbn in Hn. apply nth_error_In, repeat_spec in Hn. now subst wj.
  - exists s'. split; [exact Hrun|]. split; [exact Hstr|]. split; [rewrite Hl; cbn; apply repeat_length|].
    destruct (least_undropped byte (ws s')) as [m|] eqn:El; auto.
    destruct (least_undropped_some byte _ _ El) as ((w & Hm & Hd) & _). rewrite (Hall m w Hm) in Hd. discriminate.
Qed.
(* a writer created after all earlier ones were dropped is released from birth *)
Lemma new_after_all_dropped (s : SeqWriter.st byte) : least_undropped byte (ws s) = None ->
  exists s', step true s New = Some s' /\ least_undropped byte (ws s') = Some (length (ws s)).
Proof.
  intros H. eexists. split; [reflexivity|]. cbn.
  apply (least_undropped_intro byte _ (length (ws s)) fresh).
  - rewrite nth_error_app2, Nat.sub_diag by lia. reflexivity.
  - reflexivity.
  - intros k wk Hk Hn. rewrite nth_error_app1 in Hn by exact Hk. exact (least_undropped_none byte _ H k wk Hn).
Qed.
End FromStart.
