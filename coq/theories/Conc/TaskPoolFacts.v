(* Conc/TaskPoolFacts.v — further facts about the task-pool model Conc/TaskPool.v (not edited):
   (1) bookkeeping of task identifiers: `started ++ todo ++ held-by-new-threads` is a permutation of
       the dispatched tasks along every run (both trees), hence with distinct identifiers every task
       is started at most once and never lost (C08 "exactly one worker");
   (2) liveness without TaskDone: from every state satisfying the invariant of the repaired pool a
       schedule of Start / Resume steps only empties the queue and starts every task (C08 "progress
       never depends on another connection ending").
   The idle-reclaim facts (C20) are in Conc/TaskPoolIdle.v. *)
From Coq Require Import List Arith Bool Lia Permutation.
Import ListNotations.
From TH Require Import Conc.TaskPool.

#[local] Arguments Spawned {task}. #[local] Arguments AtLock {task}. #[local] Arguments Blocked {task}.
#[local] Arguments Woken {task}. #[local] Arguments Running {task}. #[local] Arguments Exiting {task}.
#[local] Arguments Exited {task}.
#[local] Arguments Dispatch {task}. #[local] Arguments Start {task}. #[local] Arguments TaskDone {task}.
#[local] Arguments Lock {task}. #[local] Arguments Spurious {task}. #[local] Arguments Timeout {task}.
#[local] Arguments Resume {task}. #[local] Arguments Exit {task}. #[local] Arguments PoolDrop {task}.
#[local] Arguments Tick {task}.
#[local] Arguments todo {task}. #[local] Arguments waiting {task}. #[local] Arguments active {task}.
#[local] Arguments dropped {task}. #[local] Arguments now {task}. #[local] Arguments ws {task}.
#[local] Arguments started {task}.
#[local] Arguments is_blocked {task}. #[local] Arguments is_untimed {task}. #[local] Arguments is_woken {task}.
#[local] Arguments is_live {task}. #[local] Arguments wake {task}. #[local] Arguments notify {task}.
#[local] Arguments set_ws {task}.

(* ---------- generic facts about upd ---------- *)
Lemma nth_upd_eq {A} (l : list A) i x : i < length l -> nth_error (upd l i x) i = Some x.
Proof. revert i. induction l as [|a l IH]; intros [|i] H; cbn in *; try lia; auto. apply IH; lia. Qed.
Lemma nth_upd_neq {A} (l : list A) i j x : i <> j -> nth_error (upd l i x) j = nth_error l j.
Proof.
  revert i j. induction l as [|a l IH]; intros [|i] [|j] H; cbn; auto; try congruence; try (apply IH; congruence).
Qed.
Lemma nth_upd_some {A} (l : list A) i old x : nth_error l i = Some old -> nth_error (upd l i x) i = Some x.
Proof. intros H. apply nth_upd_eq. apply nth_error_Some. congruence. Qed.
Lemma upd_length {A} (l : list A) i x : length (upd l i x) = length l.
Proof. revert i. induction l as [|a l IH]; intros [|i]; cbn; auto. Qed.
Lemma Forall_upd {A} (P : A -> Prop) l i x : Forall P l -> P x -> Forall P (upd l i x).
Proof.
  intros H Hx. revert i. induction H as [|a l Ha Hl IH]; intros [|i]; cbn; auto.
Qed.
Lemma nth_Forall {A} (P : A -> Prop) l i r : Forall P l -> nth_error l i = Some r -> P r.
Proof. intros H Hn. eapply Forall_forall; eauto. eapply nth_error_In; eauto. Qed.

Ltac csplit := repeat match goal with |- _ /\ _ => split end.

Section TPF.
Variable task : Type.
Variable MIN IDLE BIG : nat.
Hypothesis BIG_big : MIN < BIG.

Local Notation wstate := (TaskPool.wstate task).
Local Notation st := (TaskPool.st task).
Local Notation label := (TaskPool.label task).
Local Notation step := (TaskPool.step task MIN IDLE BIG).
Local Notation run := (TaskPool.run task MIN IDLE BIG).
Local Notation pop_or_wait := (TaskPool.pop_or_wait task MIN IDLE).
Local Notation Inv := (TaskPool.Inv task MIN).
Local Notation count := (TaskPool.count task).
Local Notation init := (TaskPool.init task MIN).

Lemma cnt_upd (f : wstate -> bool) l i old x : nth_error l i = Some old ->
  count f (upd l i x) + (if f old then 1 else 0) = count f l + (if f x then 1 else 0).
Proof. exact (count_upd task MIN BIG BIG_big f l i old x). Qed.

Lemma count_cons (f : wstate -> bool) a l : count f (a :: l) = (if f a then 1 else 0) + count f l.
Proof. unfold TaskPool.count. cbn. destruct (f a); reflexivity. Qed.

Lemma count_pos_nth (f : wstate -> bool) l : 0 < count f l -> exists w r, nth_error l w = Some r /\ f r = true.
Proof.
  clear BIG_big. induction l as [|a l IH]; [unfold TaskPool.count; cbn; lia|]. rewrite count_cons. destruct (f a) eqn:E.
  - intros _. exists 0, a. auto.
  - intros H. destruct IH as (w & r & Hn & Hr); [cbn in H; lia|]. exists (S w), r. auto.
Qed.
Lemma count_zero_Forall (f : wstate -> bool) l : count f l = 0 -> Forall (fun r => f r = false) l.
Proof.
  induction l as [|a l IH]; [constructor|]. rewrite count_cons. destruct (f a) eqn:E; [discriminate|].
  intros H. constructor; auto.
Qed.
Lemma Forall_count_zero (f : wstate -> bool) l : Forall (fun r => f r = false) l -> count f l = 0.
Proof. induction 1 as [|a l Ha Hl IH]; [reflexivity|]. rewrite count_cons, Ha, IH. reflexivity. Qed.

Lemma run_app fixed s a b :
  run fixed s (a ++ b) = match run fixed s a with Some s' => run fixed s' b | None => None end.
Proof. revert s. induction a as [|l a IH]; intros s; cbn; auto. destruct (step fixed s l); auto. Qed.

(* ---------- (1) bookkeeping of task identifiers ---------- *)
Definition held_one (r : wstate) : list task := match r with Spawned (Some tk) => [tk] | _ => [] end.
Definition held (l : list wstate) : list task := flat_map held_one l.
Definition is_holding (r : wstate) : bool := match r with Spawned (Some _) => true | _ => false end.
Definition dispatched_of (l : label) : list task := match l with Dispatch tk _ => [tk] | _ => [] end.
Definition dispatched (ls : list label) : list task := flat_map dispatched_of ls.
(* every task the pool has been given and where it is now *)
Definition accounted (s : st) : list task := started s ++ todo s ++ held (ws s).

Lemma held_app a b : held (a ++ b) = held a ++ held b.
Proof. apply flat_map_app. Qed.
Lemma held_upd_same l i old x : nth_error l i = Some old -> held_one old = held_one x -> held (upd l i x) = held l.
Proof.
  revert i. induction l as [|a l IH]; intros [|i] H E; cbn in *; try discriminate.
  - inversion H; subst. now rewrite E.
  - f_equal. now apply IH.
Qed.
Lemma held_upd_take l i tk x : nth_error l i = Some (Spawned (Some tk)) -> held_one x = [] ->
  Permutation (held l) (tk :: held (upd l i x)).
Proof.
  revert i. induction l as [|a l IH]; intros [|i] H E; cbn in *; try discriminate.
  - inversion H; subst. cbn. rewrite E. reflexivity.
  - rewrite (IH i H E). symmetry. apply Permutation_middle.
Qed.
Lemma held_map_wake l : held (map wake l) = held l.
Proof. unfold held. induction l as [|a l IH]; cbn; [auto|]. rewrite IH. destruct a; reflexivity. Qed.
Lemma held_repeat_none n : held (repeat (Spawned None) n) = [].
Proof. induction n; cbn; auto. Qed.
Lemma notify_held l w l' : notify l w = Some l' -> held l' = held l.
Proof.
  unfold TaskPool.notify. destruct w as [t|].
  - destruct (nth_error l t) as [r|] eqn:E; [|discriminate]. destruct (is_blocked r) eqn:Eb; [|discriminate].
    intros H; inversion H; subst. eapply held_upd_same; eauto. destruct r; cbn in *; try discriminate; reflexivity.
  - destruct (Nat.eqb _ 0); [|discriminate]. intros H; inversion H; auto.
Qed.
Lemma held_In l tk : In tk (held l) <-> exists w, nth_error l w = Some (Spawned (Some tk)).
Proof.
  unfold held. rewrite in_flat_map. split.
  - intros (r & Hr & Hin). destruct r as [[tk'|]| | | | | |]; cbn in Hin; try contradiction.
    destruct Hin as [->|[]]. destruct (In_nth_error _ _ Hr) as [w Hw]. eauto.
  - intros [w Hw]. exists (Spawned (Some tk)). split; [eapply nth_error_In; eauto|cbn; auto].
Qed.
Lemma held_length l : length (held l) = count is_holding l.
Proof.
  induction l as [|a l IH]; [reflexivity|]. rewrite count_cons. change (held (a :: l)) with (held_one a ++ held l). rewrite app_length, IH.
  destruct a as [[tk|]| | | | | |]; reflexivity.
Qed.
Lemma holding_zero_held l : count is_holding l = 0 -> held l = [].
Proof. rewrite <- held_length. apply length_zero_iff_nil. Qed.
Lemma holding_zero_nth l : count is_holding l = 0 -> forall w tk, nth_error l w <> Some (Spawned (Some tk)).
Proof.
  intros H w tk Hn. apply count_zero_Forall in H. pose proof (nth_Forall _ _ _ _ H Hn) as E. discriminate.
Qed.

Lemma pop_or_wait_accounted s w r wt : nth_error (ws s) w = Some r -> held_one r = [] ->
  accounted (pop_or_wait s w wt) = accounted s.
Proof.
  intros Hn Hr. unfold accounted, TaskPool.pop_or_wait. destruct (todo s) as [|tk rest]; cbn [todo started ws].
  - now rewrite (held_upd_same _ _ _ _ Hn) by (rewrite Hr; reflexivity).
  - rewrite (held_upd_same _ _ _ _ Hn) by (rewrite Hr; reflexivity). now rewrite <- app_assoc.
Qed.

Lemma step_accounted fixed s l s' : step fixed s l = Some s' ->
  Permutation (accounted s') (accounted s ++ dispatched_of l).
Proof.
  intros H. destruct l; cbn [TaskPool.step dispatched_of] in H |- *; rewrite ?app_nil_r.
  - (* Dispatch *)
    destruct (dropped s); [discriminate|].
    destruct (if fixed then waiting s <=? length (todo s) else waiting s =? 0).
    + destruct w; inversion H; subst. unfold accounted; cbn [todo started ws set_ws].
      rewrite held_app. cbn. rewrite <- !app_assoc. reflexivity.
    + destruct (notify (ws s) w) as [l'|] eqn:En; inversion H; subst. unfold accounted; cbn [todo started ws].
      rewrite (notify_held _ _ _ En). rewrite <- !app_assoc. do 2 apply Permutation_app_head. apply Permutation_app_comm.
  - (* Start *)
    destruct (nth_error (ws s) w) as [[[tk|]| | | | | |]|] eqn:En; try discriminate; inversion H; subst;
      unfold accounted; cbn [todo started ws].
    + rewrite (held_upd_take _ _ _ (Running tk) En eq_refl). rewrite <- !app_assoc. apply Permutation_app_head.
      cbn. apply Permutation_middle.
    + now rewrite (held_upd_same _ _ _ _ En).
  - (* TaskDone *)
    destruct (nth_error (ws s) w) as [[| | | |tk| |]|] eqn:En; try discriminate; inversion H; subst.
    unfold accounted; cbn [todo started ws set_ws]. now rewrite (held_upd_same _ _ _ _ En).
  - (* Lock *)
    destruct (nth_error (ws s) w) as [[| | | | | |]|] eqn:En; try discriminate; inversion H; subst.
    now rewrite (pop_or_wait_accounted _ _ _ _ En).
  - (* Spurious *)
    destruct (nth_error (ws s) w) as [[| |tm d| | | |]|] eqn:En; try discriminate; inversion H; subst.
    unfold accounted; cbn [todo started ws set_ws]. now rewrite (held_upd_same _ _ _ _ En).
  - (* Timeout *)
    destruct (nth_error (ws s) w) as [[| |[] d| | | |]|] eqn:En; try discriminate. destruct (d <=? now s); inversion H; subst.
    unfold accounted; cbn [todo started ws set_ws]. now rewrite (held_upd_same _ _ _ _ En).
  - (* Resume *)
    destruct (nth_error (ws s) w) as [[| | |r| | |]|] eqn:En; try discriminate.
    destruct (negb r && match todo s with [] => true | _ => false end); inversion H; subst.
    + unfold accounted; cbn [todo started ws]. now rewrite (held_upd_same _ _ _ _ En).
    + now rewrite (pop_or_wait_accounted _ _ _ _ En).
  - (* Exit *)
    destruct (nth_error (ws s) w) as [[| | | | | |]|] eqn:En; try discriminate.
    destruct (dropped s && (active s <=? S MIN)); inversion H; subst.
    unfold accounted; cbn [todo started ws]. now rewrite (held_upd_same _ _ _ _ En).
  - (* PoolDrop *)
    inversion H; subst. unfold accounted; cbn [todo started ws]. now rewrite held_map_wake.
  - (* Tick *)
    inversion H; subst. reflexivity.
Qed.

Lemma run_accounted fixed ls : forall s s', run fixed s ls = Some s' ->
  Permutation (accounted s') (accounted s ++ dispatched ls).
Proof.
  induction ls as [|l ls IH]; cbn; intros s s' H.
  - inversion H; subst. now rewrite app_nil_r.
  - destruct (step fixed s l) as [s1|] eqn:E; [|discriminate].
    rewrite (IH _ _ H), (step_accounted _ _ _ _ E). now rewrite <- app_assoc.
Qed.

Lemma accounted_init : accounted init = [].
Proof. unfold accounted; cbn. apply held_repeat_none. Qed.

Lemma NoDup_app_disjoint {A} (a b : list A) x : NoDup (a ++ b) -> In x a -> ~ In x b.
Proof.
  induction a as [|y a IH]; cbn; intros H Ha Hb; [contradiction|]. inversion H; subst.
  destruct Ha as [->|Ha]; [apply H2; apply in_or_app; auto | exact (IH H3 Ha Hb)].
Qed.

Lemma NoDup_app_l {A} (a b : list A) : NoDup (a ++ b) -> NoDup a.
Proof.
  induction a as [|y a IH]; cbn; intros H; [constructor|]. inversion H; subst. constructor; auto.
  intros Hin. apply H2. apply in_or_app; auto.
Qed.
Lemma NoDup_app_r {A} (a b : list A) : NoDup (a ++ b) -> NoDup b.
Proof. induction a as [|y a IH]; cbn; intros H; auto. inversion H; auto. Qed.

(* every dispatched task is in exactly one place: started (by exactly one worker step), queued, or held
   by a freshly created thread; with distinct identifiers none is started twice *)
Theorem one_worker_per_task fixed ls s : run fixed init ls = Some s ->
  Permutation (started s ++ todo s ++ held (ws s)) (dispatched ls) /\
  (NoDup (dispatched ls) ->
     NoDup (started s) /\ (forall tk, In tk (started s) -> ~ In tk (todo s)) /\
     (forall tk, In tk (started s) -> ~ In tk (held (ws s))) /\
     NoDup (todo s ++ held (ws s))).
Proof.
  intros H. pose proof (run_accounted _ _ _ _ H) as P. rewrite accounted_init in P. cbn in P. unfold accounted in P.
  split; [exact P|]. intros ND.
  assert (ND' : NoDup (started s ++ todo s ++ held (ws s))) by (eapply Permutation_NoDup; [symmetry; exact P|exact ND]).
  split; [eapply NoDup_app_l; eauto|]. split; [|split].
  - intros tk Hs Ht. eapply NoDup_app_disjoint; eauto. apply in_or_app; auto.
  - intros tk Hs Ht. eapply NoDup_app_disjoint; eauto. apply in_or_app; auto.
  - eapply NoDup_app_r; eauto.
Qed.

(* ---------- (2) every task starts although none ever finishes ---------- *)
Definition is_worker_step (l : label) : bool := match l with Start _ | Lock _ | Resume _ => true | _ => false end.
Definition only_worker_steps (ls : list label) : Prop := Forall (fun l => is_worker_step l = true) ls.

Lemma worker_steps_dispatch_nothing ls : only_worker_steps ls -> dispatched ls = [].
Proof. induction 1 as [|l ls Hl _ IH]; [reflexivity|]. change (dispatched (l :: ls)) with (dispatched_of l ++ dispatched ls). rewrite IH. destruct l; try discriminate; reflexivity. Qed.

(* stage 1: every freshly created thread runs its initial task *)
Lemma start_all_held n : forall s, count is_holding (ws s) = n -> Inv s ->
  exists ls s', only_worker_steps ls /\ run true s ls = Some s' /\ count is_holding (ws s') = 0 /\ Inv s' /\ todo s' = todo s.
Proof.
  induction n as [|n IH]; intros s Hc HI.
  - exists [], s. csplit; auto. constructor.
  - destruct (count_pos_nth is_holding (ws s)) as (w & r & Hn & Hr); [lia|].
    destruct r as [[tk|]| | | | | |]; try discriminate.
    destruct (step true s (Start w)) as [s1|] eqn:E; [|cbn in E; rewrite Hn in E; discriminate].
    pose proof (step_inv task MIN IDLE BIG BIG_big _ _ _ HI E) as HI1.
    cbn in E; rewrite Hn in E; inversion E; subst s1.
    pose proof (cnt_upd is_holding _ _ _ (Running tk) Hn) as C. cbn in C.
    match type of HI1 with TaskPool.Inv _ _ ?s1 => destruct (IH s1 ltac:(cbn [ws]; lia) HI1) as (ls & s' & Hw & Hr' & Hz & HI' & Ht) end.
    exists (Start w :: ls), s'. csplit; auto.
    + constructor; auto.
    + cbn [TaskPool.run TaskPool.step]. rewrite Hn. exact Hr'.
Qed.

(* stage 2: J2 gives an awake worker for the head of the queue; its Resume takes it *)
Lemma drain_todo n : forall s, length (todo s) = n -> Inv s -> count is_holding (ws s) = 0 ->
  exists ls s', only_worker_steps ls /\ run true s ls = Some s' /\ todo s' = [] /\ count is_holding (ws s') = 0 /\ Inv s'.
Proof.
  induction n as [|n IH]; intros s Hl HI Hz.
  - exists [], s. csplit; auto. constructor. now apply length_zero_iff_nil.
  - destruct (todo s) as [|tk rest] eqn:Et; [discriminate|]. cbn in Hl.
    pose proof HI as (_ & J2 & _). rewrite Et in J2. cbn in J2.
    destruct (count_pos_nth is_woken (ws s)) as (w & r & Hn & Hr); [lia|].
    destruct r as [| | |b| | |]; try discriminate.
    destruct (step true s (Resume w)) as [s1|] eqn:E; [|cbn in E; rewrite Hn in E; destruct (_ && _); discriminate].
    pose proof (step_inv task MIN IDLE BIG BIG_big _ _ _ HI E) as HI1.
    cbn in E; rewrite Hn, Et, andb_false_r in E. unfold TaskPool.pop_or_wait in E. rewrite Et in E. inversion E; subst s1.
    pose proof (cnt_upd is_holding _ _ _ (Running tk) Hn) as C. cbn in C.
    match type of HI1 with TaskPool.Inv _ _ ?s1 => destruct (IH s1 ltac:(cbn [todo]; lia) HI1 ltac:(cbn [ws]; lia)) as (ls & s' & Hw & Hr' & Ht & Hz' & HI') end.
    exists (Resume w :: ls), s'. csplit; auto.
    + constructor; auto.
    + cbn [TaskPool.run TaskPool.step]. rewrite Hn, Et, andb_false_r. unfold TaskPool.pop_or_wait. rewrite Et. exact Hr'.
Qed.

Theorem no_taskdone_needed s : Inv s ->
  exists ls s', only_worker_steps ls /\ run true s ls = Some s' /\ todo s' = [] /\
                (forall w tk, nth_error (ws s') w <> Some (Spawned (Some tk))) /\ held (ws s') = [] /\ Inv s'.
Proof.
  intros HI. destruct (start_all_held _ s eq_refl HI) as (l1 & s1 & W1 & R1 & Z1 & I1 & _).
  destruct (drain_todo _ s1 eq_refl I1 Z1) as (l2 & s2 & W2 & R2 & T2 & Z2 & I2).
  exists (l1 ++ l2), s2. csplit; auto.
  - apply Forall_app; auto.
  - rewrite run_app, R1. exact R2.
  - now apply holding_zero_nth.
  - now apply holding_zero_held.
Qed.

(* composed: after any history, worker steps alone start every task dispatched so far *)
Theorem every_task_starts ls0 s : run true init ls0 = Some s ->
  exists ls s', only_worker_steps ls /\ run true s ls = Some s' /\ todo s' = [] /\
                (forall w tk, nth_error (ws s') w <> Some (Spawned (Some tk))) /\
                Permutation (started s') (dispatched ls0).
Proof.
  intros H0. pose proof (run_inv task MIN IDLE BIG BIG_big _ _ _ (init_inv task MIN BIG BIG_big) H0) as HI.
  destruct (no_taskdone_needed s HI) as (ls & s' & W & R & T & Hnone & Hh & _).
  exists ls, s'. csplit; auto.
  assert (R' : run true init (ls0 ++ ls) = Some s') by (rewrite run_app, H0; exact R).
  destruct (one_worker_per_task _ _ _ R') as [P _]. rewrite T, Hh, app_nil_r in P. cbn in P.
  unfold dispatched in P. rewrite flat_map_app in P. fold (dispatched ls0) in P. fold (dispatched ls) in P.
  rewrite (worker_steps_dispatch_nothing _ W), app_nil_r in P. exact P.
Qed.
End TPF.
