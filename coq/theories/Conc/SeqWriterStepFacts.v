(* Conc/SeqWriterStepFacts.v — one-step facts about the sequential-writer chain (Conc/SeqWriter.v, repaired tree,
   `fixed = true`) that make a lock-step replay of the REAL chain against the model meaningful:
   1. enabledness, exactly: on a state satisfying the invariant an operation of writer i is enabled iff writer i
      exists, is not dropped and every earlier writer is dropped (`ready`);
   2. "blocked" is stable: while an earlier writer k is undropped the operation stays disabled, and only `DropW k`
      can change that;
   3. effects, exactly: what a successful New / Write / Flush / DropW changes. *)
From Coq Require Import List Arith Bool Lia.
Import ListNotations.
From TH Require Import Conc.SeqWriter Conc.SeqWriterFacts.

Local Arguments turn {byte}.
Local Arguments dropped {byte}.
Local Arguments sent {byte}.
Local Arguments ws {byte}.
Local Arguments stream {byte}.
Local Arguments New {byte}.
Local Arguments Write {byte}.
Local Arguments Flush {byte}.
Local Arguments DropW {byte}.
Local Arguments pred_done {byte}.
Local Arguments can_go {byte}.
Local Arguments step {byte}.
Local Arguments run {byte}.
Local Arguments init {byte}.
Local Arguments Inv {byte}.
Local Arguments reachable {byte}.
Local Arguments label_index {byte}.
Local Arguments is_drop {byte}.
Local Arguments is_new {byte}.
Local Arguments wdata {byte}.
Local Arguments least_undropped {byte}.

Section StepFacts.
Variable byte : Type.
Notation bytes := (list byte).
Notation wr := (SeqWriter.wr byte).
Notation st := (SeqWriter.st byte).
Notation label := (SeqWriter.label byte).
Notation fresh := {| SeqWriter.turn := false; SeqWriter.dropped := false; SeqWriter.sent := @nil byte |}.
Implicit Types (s : st) (w wi wj wk : wr) (d : bytes) (l op : label).

(* writer i exists, is not dropped, and every earlier writer is dropped *)
Definition ready s (i : nat) : Prop :=
  exists w, nth_error (ws s) i = Some w /\ dropped w = false /\
    (forall k wk, k < i -> nth_error (ws s) k = Some wk -> dropped wk = true).

Lemma ready_least s i : ready s i <-> least_undropped (ws s) = Some i.
Proof.
  split.
  - intros (w & Hi & Hd & Hb). exact (least_undropped_intro byte _ i w Hi Hd Hb).
  - intros H. destruct (least_undropped_some byte _ _ H) as ((w & Hi & Hd) & Hb). exists w. auto.
Qed.

Lemma ready_unique s i j : ready s i -> ready s j -> i = j.
Proof. intros Hi Hj. apply ready_least in Hi, Hj. congruence. Qed.

(* ---------- labels ---------- *)

Lemma label_index_none l : label_index l = None -> l = New.
Proof. destruct l; cbn; intros H; try discriminate; reflexivity. Qed.

Lemma is_drop_true i l : is_drop i l = true <-> l = DropW i.
Proof.
  destruct l as [|j d|j|j]; cbn; split; intros H; try discriminate.
  - apply Nat.eqb_eq in H. now subst.
  - inversion H. apply Nat.eqb_refl.
Qed.

Lemma is_drop_index i l : is_drop i l = true -> label_index l = Some i.
Proof. intros H. apply is_drop_true in H. now subst. Qed.

Lemma wdata_other i l : label_index l <> Some i -> wdata i l = [].
Proof.
  destruct l as [|j d|j|j]; cbn; auto. intros H. destruct (Nat.eqb_spec j i) as [->|]; [congruence|reflexivity].
Qed.

(* ---------- 3. effects ---------- *)

(* every successful operation of writer i, uniformly: it was not dropped, it could go, only writer i changes *)
Lemma op_inversion s op i s' : label_index op = Some i -> step true s op = Some s' ->
  exists w, nth_error (ws s) i = Some w /\ dropped w = false /\ can_go (ws s) i w = true /\
    s' = {| SeqWriter.ws := upd (ws s) i {| SeqWriter.turn := true; SeqWriter.dropped := is_drop i op;
                                            SeqWriter.sent := sent w ++ wdata i op |};
            SeqWriter.stream := stream s ++ wdata i op |}.
Proof.
  intros Hl H. destruct op as [|j d|j|j]; cbn in Hl; inversion Hl; subst j; cbn in H;
  (destruct (nth_error (ws s) i) as [w|] eqn:Ei; [|discriminate]);
  (destruct (dropped w) eqn:Ed; [discriminate|]); cbn in H;
  (destruct (can_go (ws s) i w) eqn:Eg; [|discriminate]);
  inversion H; exists w; cbn; rewrite ?Nat.eqb_refl, ?app_nil_r, ?orb_true_r; auto.
Qed.

Lemma new_effect fixed s : step fixed s New = Some {| SeqWriter.ws := ws s ++ [fresh]; SeqWriter.stream := stream s |}.
Proof. reflexivity. Qed.

Lemma upd_effect (l : list wr) i w w' : nth_error l i = Some w ->
  length (upd l i w') = length l /\ nth_error (upd l i w') i = Some w' /\
  (forall j, j <> i -> nth_error (upd l i w') j = nth_error l j).
Proof.
  intros Hi. split; [apply upd_length|]. split.
  - apply nth_upd_same. apply nth_error_Some. congruence.
  - intros j Hj. apply nth_upd_other. congruence.
Qed.

Lemma write_effect s i d s' : step true s (Write i d) = Some s' ->
  exists w, nth_error (ws s) i = Some w /\ dropped w = false /\
    ws s' = upd (ws s) i {| SeqWriter.turn := true; SeqWriter.dropped := false; SeqWriter.sent := sent w ++ d |} /\
    stream s' = stream s ++ d /\
    length (ws s') = length (ws s) /\
    nth_error (ws s') i = Some {| SeqWriter.turn := true; SeqWriter.dropped := false; SeqWriter.sent := sent w ++ d |} /\
    (forall j, j <> i -> nth_error (ws s') j = nth_error (ws s) j).
Proof.
  intros H. destruct (op_inversion s (Write i d) i s' eq_refl H) as (w & Hi & Hd & _ & ->).
  cbn. rewrite Nat.eqb_refl. exists w. repeat split; auto; now apply (upd_effect _ i w).
Qed.

Lemma flush_effect s i s' : step true s (Flush i) = Some s' ->
  exists w, nth_error (ws s) i = Some w /\ dropped w = false /\
    ws s' = upd (ws s) i {| SeqWriter.turn := true; SeqWriter.dropped := false; SeqWriter.sent := sent w |} /\
    stream s' = stream s /\
    length (ws s') = length (ws s) /\
    nth_error (ws s') i = Some {| SeqWriter.turn := true; SeqWriter.dropped := false; SeqWriter.sent := sent w |} /\
    (forall j, j <> i -> nth_error (ws s') j = nth_error (ws s) j).
Proof.
  intros H. destruct (op_inversion s (Flush i) i s' eq_refl H) as (w & Hi & Hd & _ & ->).
  cbn. rewrite !app_nil_r. exists w. repeat split; auto; now apply (upd_effect _ i w).
Qed.

Lemma drop_effect s i s' : step true s (DropW i) = Some s' ->
  exists w, nth_error (ws s) i = Some w /\ dropped w = false /\
    ws s' = upd (ws s) i {| SeqWriter.turn := true; SeqWriter.dropped := true; SeqWriter.sent := sent w |} /\
    stream s' = stream s /\
    length (ws s') = length (ws s) /\
    nth_error (ws s') i = Some {| SeqWriter.turn := true; SeqWriter.dropped := true; SeqWriter.sent := sent w |} /\
    (forall j, j <> i -> nth_error (ws s') j = nth_error (ws s) j).
Proof.
  intros H. destruct (op_inversion s (DropW i) i s' eq_refl H) as (w & Hi & Hd & _ & ->).
  cbn. rewrite Nat.eqb_refl, !app_nil_r. exists w. repeat split; auto; now apply (upd_effect _ i w).
Qed.

Lemma new_effect_full s s' : step true s New = Some s' ->
  ws s' = ws s ++ [fresh] /\ stream s' = stream s /\ length (ws s') = S (length (ws s)) /\
  nth_error (ws s') (length (ws s)) = Some fresh /\
  (forall j, j < length (ws s) -> nth_error (ws s') j = nth_error (ws s) j).
Proof.
  cbn. intros H. inversion H; subst s'; clear H. cbn. repeat split.
  - rewrite app_length. cbn. lia.
  - rewrite nth_error_app2, Nat.sub_diag by lia. reflexivity.
  - intros j Hj. now apply nth_error_app1.
Qed.

(* ---------- 1. enabledness ---------- *)

Lemma ready_step_some s op i : label_index op = Some i -> ready s i -> step true s op <> None.
Proof.
  intros Hl (w & Hi & Hd & Hb). pose proof (preds_dropped_can_go byte _ _ _ Hi Hb) as Hg.
  destruct op as [|j d|j|j]; cbn in Hl; inversion Hl; subst j.
  - rewrite (step_write_some byte s i w d Hi Hd Hg). discriminate.
  - rewrite (step_flush_some byte s i w Hi Hd Hg). discriminate.
  - rewrite (step_drop_some byte s i w Hi Hd Hg). discriminate.
Qed.

Lemma step_some_ready s op i : Inv s -> label_index op = Some i -> step true s op <> None -> ready s i.
Proof.
  intros HI Hl H. destruct (step true s op) as [s'|] eqn:E; [|congruence].
  destruct (op_inversion s op i s' Hl E) as (w & Hi & Hd & Hg & _).
  exists w. split; [exact Hi|]. split; [exact Hd|]. exact (can_go_preds byte s i w HI Hi Hg).
Qed.

Lemma enabled_iff s op i : Inv s -> label_index op = Some i -> (step true s op <> None <-> ready s i).
Proof. intros HI Hl. split; [now apply step_some_ready|now apply ready_step_some]. Qed.

(* an earlier undropped writer blocks the operation *)
Lemma earlier_undropped_blocks s op i k wk : Inv s -> label_index op = Some i ->
  k < i -> nth_error (ws s) k = Some wk -> dropped wk = false -> step true s op = None.
Proof.
  intros HI Hl Hk Hnk Hd. destruct (step true s op) as [s'|] eqn:E; [|reflexivity]. exfalso.
  assert (Hr : ready s i) by (apply (step_some_ready s op i HI Hl); congruence).
  destruct Hr as (_ & _ & _ & Hb). rewrite (Hb k wk Hk Hnk) in Hd. discriminate.
Qed.

(* a disabled operation of an existing, undropped writer is blocked by an earlier undropped writer, the least one *)
Lemma blocked_has_blocker s op i w : label_index op = Some i -> nth_error (ws s) i = Some w -> dropped w = false ->
  step true s op = None ->
  exists k wk, k < i /\ nth_error (ws s) k = Some wk /\ dropped wk = false /\ ready s k.
Proof.
  intros Hl Hi Hd Hnone.
  destruct (least_undropped (ws s)) as [k|] eqn:El.
  - apply ready_least in El. pose proof El as (wk & Hk & Hdk & Hb).
    destruct (Nat.lt_trichotomy k i) as [Hlt|[->|Hgt]].
    + exists k, wk. auto.
    + exfalso. now apply (ready_step_some s op i Hl El).
    + rewrite (Hb i w Hgt Hi) in Hd. discriminate.
  - rewrite (least_undropped_none byte _ El i w Hi) in Hd. discriminate.
Qed.

(* ---------- 2. blocked is stable until the blocker is dropped ---------- *)

Lemma undropped_stable s l s' k wk : step true s l = Some s' ->
  nth_error (ws s) k = Some wk -> dropped wk = false -> l <> DropW k ->
  exists wk', nth_error (ws s') k = Some wk' /\ dropped wk' = false.
Proof.
  intros H Hk Hd Hl. destruct (label_index l) as [i|] eqn:El.
  - destruct (op_inversion s l i s' El H) as (w & Hi & Hdw & _ & ->). cbn.
    destruct (Nat.eq_dec i k) as [->|Hne].
    + eexists. split; [apply nth_upd_same; apply nth_error_Some; congruence|]. cbn.
      destruct (is_drop k l) eqn:Ed; [|reflexivity]. apply is_drop_true in Ed. contradiction.
    + exists wk. split; [|exact Hd]. rewrite nth_upd_other by exact Hne. exact Hk.
  - apply label_index_none in El. subst l. cbn in H. inversion H; subst s'. cbn.
    exists wk. split; [|exact Hd]. rewrite nth_error_app1; [exact Hk|]. apply nth_error_Some. congruence.
Qed.

(* a writer that is dropped after a step was dropped by that very step or was dropped (and identical) before *)
Lemma step_dropped_origin s l s' j w' : step true s l = Some s' ->
  nth_error (ws s') j = Some w' -> dropped w' = true -> l = DropW j \/ nth_error (ws s) j = Some w'.
Proof.
  intros H Hj Hd. destruct (label_index l) as [i|] eqn:El.
  - destruct (op_inversion s l i s' El H) as (w & Hi & Hdw & _ & ->). cbn in Hj.
    apply nth_upd_cases in Hj as [(-> & -> & _)|(Hne & Hj)]; [|right; exact Hj].
    cbn in Hd. left. now apply is_drop_true.
  - apply label_index_none in El. subst l. cbn in H. inversion H; subst s'. cbn in Hj. right.
    destruct (Nat.lt_ge_cases j (length (ws s))) as [Hl|Hl].
    + now rewrite nth_error_app1 in Hj.
    + rewrite nth_error_app2 in Hj by lia.
      destruct (j - length (ws s)) as [|[|m]]; cbn in Hj; inversion Hj; subst w'; discriminate.
Qed.

Lemma blocked_stable s op i k wk : reachable s -> label_index op = Some i ->
  k < i -> nth_error (ws s) k = Some wk -> dropped wk = false ->
  step true s op = None /\
  forall l s', step true s l = Some s' -> l <> DropW k ->
    (exists wk', nth_error (ws s') k = Some wk' /\ dropped wk' = false) /\ step true s' op = None.
Proof.
  intros Hr Hl Hk Hnk Hd. split.
  - exact (earlier_undropped_blocks s op i k wk (reachable_inv byte s Hr) Hl Hk Hnk Hd).
  - intros l s' Hstep Hne.
    destruct (undropped_stable s l s' k wk Hstep Hnk Hd Hne) as (wk' & Hnk' & Hd').
    split; [eauto|].
    apply (earlier_undropped_blocks s' op i k wk'); auto.
    apply reachable_inv. exact (reachable_step byte s l s' Hr Hstep).
Qed.

(* the only label that can unblock: if the operation is blocked by k before the step and enabled after it, the step
   was DropW k (and k was the last undropped predecessor) *)
Lemma unblocked_only_by_drop s op i k wk l s' : reachable s -> label_index op = Some i ->
  k < i -> nth_error (ws s) k = Some wk -> dropped wk = false ->
  step true s l = Some s' -> step true s' op <> None -> l = DropW k.
Proof.
  intros Hr Hl Hk Hnk Hd Hstep Hen.
  destruct (blocked_stable s op i k wk Hr Hl Hk Hnk Hd) as (_ & Hst).
  destruct l as [|j d|j|j]; try (exfalso; apply Hen; apply (Hst _ s' Hstep); discriminate).
  destruct (Nat.eq_dec j k) as [->|Hne]; [reflexivity|].
  exfalso. apply Hen. apply (Hst _ s' Hstep). congruence.
Qed.

End StepFacts.
