(* Conc/ComposeThreads.v — the answering threads as programs, and ALL their interleavings.
   The connection thread's program is `repeat New n` (it takes one writer per segment); the thread that holds writer
   i runs `answer i ops_i` = its writes and flushes in order, then the drop. `interleaving ps ls`: ls is an arbitrary
   shuffle of the programs ps (each program's own order is kept, nothing else is constrained). For every executable
   shuffle the stream is the concatenation of the threads' data in writer order. *)
From Coq Require Import List Arith Bool Lia Ascii.
Import ListNotations.
From TH Require Import Conc.SeqWriter Conc.SeqWriterFacts Conc.ComposeFacts.

Local Arguments ws {byte}.
Local Arguments stream {byte}.
Local Arguments New {byte}.
Local Arguments run {byte}.
Local Arguments init {byte}.
Local Arguments writes_of {byte}.
Local Arguments wdata {byte}.
Local Arguments is_new {byte}.
Local Arguments data {byte}.
Local Arguments answer {byte}.
Local Arguments arrival {byte}.

Section Merge.
Context {A : Type}.

Inductive merge : list A -> list A -> list A -> Prop :=
| merge_nil : merge [] [] []
| merge_l x a b c : merge a b c -> merge (x :: a) b (x :: c)
| merge_r x a b c : merge a b c -> merge a (x :: b) (x :: c).

Lemma merge_sym a b c : merge a b c -> merge b a c.
Proof. induction 1; constructor; auto. Qed.

Lemma merge_nil_l b : merge [] b b.
Proof. induction b; constructor; auto. Qed.

Lemma merge_app a b : merge a b (a ++ b).
Proof. induction a as [|x a IH]; cbn; [apply merge_nil_l|now constructor]. Qed.

Lemma merge_concat_r {B} (g : A -> list B) a b c : merge a b c ->
  concat (map g a) = [] -> concat (map g c) = concat (map g b).
Proof.
  induction 1 as [|x a b c _ IH|x a b c _ IH]; cbn; intros Ha; auto.
  - apply app_eq_nil in Ha as [Hx Ha]. rewrite Hx. cbn. auto.
  - f_equal. auto.
Qed.

Lemma merge_concat_l {B} (g : A -> list B) a b c : merge a b c ->
  concat (map g b) = [] -> concat (map g c) = concat (map g a).
Proof. intros H. apply merge_concat_r. now apply merge_sym. Qed.

Lemma merge_count (f : A -> bool) a b c : merge a b c ->
  length (filter f c) = length (filter f a) + length (filter f b).
Proof.
  induction 1 as [|x a b c _ IH|x a b c _ IH]; cbn; auto; destruct (f x); cbn; lia.
Qed.

(* ls is a shuffle of the lists ps *)
Fixpoint interleaving (ps : list (list A)) (ls : list A) : Prop :=
  match ps with
  | [] => ls = []
  | p :: r => exists lr, interleaving r lr /\ merge p lr ls
  end.

Lemma interleaving_concat ps : interleaving ps (concat ps).
Proof. induction ps as [|p r IH]; cbn; [reflexivity|]. exists (concat r). split; [exact IH|apply merge_app]. Qed.

End Merge.

Section Threads.
Variable byte : Type.
Notation bytes := (list byte).
Notation st := (SeqWriter.st byte).
Notation label := (SeqWriter.label byte).
Notation op := (SeqWriterFacts.op byte).

(* the programs of the threads holding writers k, k+1, ... *)
Fixpoint progs (k : nat) (opss : list (list op)) : list (list label) :=
  match opss with [] => [] | ops :: r => answer k ops :: progs (S k) r end.

Lemma concat_progs opss : forall k, concat (progs k opss) = arrival k opss.
Proof. induction opss as [|ops r IH]; intros k; cbn; [reflexivity|]. now rewrite IH. Qed.

Lemma interleaving_progs_writes opss : forall k lr i, interleaving (progs k opss) lr ->
  writes_of i lr = if k <=? i then data (nth (i - k) opss []) else [].
Proof.
  induction opss as [|ops r IH]; intros k lr i H.
  - cbn in H. subst lr. unfold writes_of. cbn. destruct (k <=? i); [|reflexivity]. now destruct (i - k).
  - cbn [progs interleaving] in H. destruct H as (lr' & Hr & Hm).
    specialize (IH (S k) lr' i Hr). unfold writes_of in *.
    destruct (Nat.eq_dec k i) as [->|Hne].
    + rewrite (merge_concat_l (wdata i) _ _ _ Hm).
      * fold (writes_of i (answer i ops)). rewrite writes_of_answer, Nat.eqb_refl, Nat.leb_refl, Nat.sub_diag. reflexivity.
      * rewrite IH. destruct (Nat.leb_spec (S i) i); [lia|reflexivity].
    + rewrite (merge_concat_r (wdata i) _ _ _ Hm).
      * rewrite IH. destruct (Nat.leb_spec (S k) i) as [H1|H1], (Nat.leb_spec k i) as [H2|H2]; try lia; auto.
        replace (i - k) with (S (i - S k)) by lia. reflexivity.
      * fold (writes_of i (answer k ops)). rewrite writes_of_answer. apply Nat.eqb_neq in Hne. now rewrite Hne.
Qed.

Lemma interleaving_progs_news opss : forall k lr, interleaving (progs k opss) lr ->
  length (filter is_new lr) = 0.
Proof.
  induction opss as [|ops r IH]; intros k lr H.
  - cbn in H. now subst lr.
  - cbn [progs interleaving] in H. destruct H as (lr' & Hr & Hm).
    rewrite (merge_count is_new _ _ _ Hm), (IH (S k) lr' Hr), news_of_answer. reflexivity.
Qed.

(* the label sequence of an arbitrary shuffle of connection thread + answering threads meets (b) and (c) *)
Lemma thread_interleaving_hyps (opss : list (list op)) ls :
  interleaving (repeat New (length opss) :: progs 0 opss) ls ->
  length (filter is_new ls) = length opss /\ forall i, writes_of i ls = nth i (map data opss) [].
Proof.
  cbn [interleaving]. intros (lr & Hr & Hm). split.
  - rewrite (merge_count is_new _ _ _ Hm), (interleaving_progs_news opss 0 lr Hr), news_of_repeat. lia.
  - intros i. unfold writes_of. rewrite (merge_concat_r (wdata i) _ _ _ Hm).
    + fold (writes_of i lr). rewrite (interleaving_progs_writes opss 0 lr i Hr). cbn [Nat.leb]. rewrite Nat.sub_0_r.
      change (@nil byte) with (data (@nil op)). now rewrite map_nth.
    + exact (writes_of_news byte i (length opss)).
Qed.

Theorem any_thread_interleaving (opss : list (list op)) ls cs :
  interleaving (repeat New (length opss) :: progs 0 opss) ls ->
  run true init ls = Some cs ->
  stream cs = concat (map data opss).
Proof.
  intros Hi Hrun. destruct (thread_interleaving_hyps opss ls Hi) as (Hn & Hw).
  apply (any_interleaving_blocks byte (map data opss) ls cs Hrun).
  - now rewrite map_length.
  - intros i _. apply Hw.
Qed.

(* "answer in arrival order" is one of the interleavings, and it is executable *)
Lemma arrival_is_interleaving (opss : list (list op)) :
  interleaving (repeat New (length opss) :: progs 0 opss) (repeat New (length opss) ++ arrival 0 opss).
Proof.
  cbn [interleaving]. exists (arrival 0 opss). split; [|apply merge_app].
  rewrite <- concat_progs. apply interleaving_concat.
Qed.

End Threads.

(* ================= the segments of one served connection ================= *)
From TH Require Import Base.Bytes Http.Response Http.Request Http.Body Http.Serve Http.WireFacts.

Section Wire.
Variables (date : bytes) (script : list action) (dflt : action) (input : bytes) (eof : bool).
Let o := serve fixed date script dflt input eof.

(* whichever threads answer, in whatever order and at whatever moments: every executable shuffle of the
   connection thread's `New`s with the threads' programs (thread i: pieces and flushes whose data is segment i,
   then the drop) produces the wire of the sequential model *)
Theorem any_thread_interleaving_wire (segs : list seg) (opss : list (list (SeqWriterFacts.op ascii))) ls cs :
  o_wire o = segs_bytes date segs ->
  map (@SeqWriterFacts.data ascii) opss = map (seg_bytes date) segs ->
  interleaving (repeat (@SeqWriter.New ascii) (List.length segs) :: progs ascii 0 opss) ls ->
  @SeqWriter.run ascii true (@SeqWriter.init ascii) ls = Some cs ->
  @SeqWriter.stream ascii cs = o_wire o.
Proof.
  intros Hwire Hd Hi Hrun.
  assert (Hl : List.length opss = List.length segs)
    by (rewrite <- (map_length (@SeqWriterFacts.data ascii)), Hd; apply map_length).
  rewrite <- Hl in Hi. rewrite (any_thread_interleaving ascii opss ls cs Hi Hrun), Hd. symmetry. exact Hwire.
Qed.

(* and at every moment of such an execution the client holds complete responses 0..k-1 and a prefix of response k *)
Theorem any_thread_interleaving_prefix (segs : list seg) (opss : list (list (SeqWriterFacts.op ascii))) ls1 ls2 cs1 cs :
  o_wire o = segs_bytes date segs ->
  map (@SeqWriterFacts.data ascii) opss = map (seg_bytes date) segs ->
  interleaving (repeat (@SeqWriter.New ascii) (List.length segs) :: progs ascii 0 opss) (ls1 ++ ls2) ->
  @SeqWriter.run ascii true (@SeqWriter.init ascii) ls1 = Some cs1 ->
  @SeqWriter.run ascii true cs1 ls2 = Some cs ->
  exists k p q,
    @SeqWriter.stream ascii cs1 = segs_bytes date (firstn k segs) ++ p /\
    nth k (map (seg_bytes date) segs) [] = p ++ q /\ k <= List.length segs /\
    exists rest, o_wire o = @SeqWriter.stream ascii cs1 ++ rest.
Proof.
  intros Hwire Hd Hi H1 H2.
  assert (Hl : List.length opss = List.length segs)
    by (rewrite <- (map_length (@SeqWriterFacts.data ascii)), Hd; apply map_length).
  rewrite <- Hl in Hi. destruct (thread_interleaving_hyps ascii opss _ Hi) as (Hn & Hw).
  destruct (prefix_in_order_wire date script dflt input eof segs ls1 ls2 cs1 cs Hwire H1 H2) as (k & p & q & Hs & Hpq & Hk & _ & _ & Hrest).
  - now rewrite Hn.
  - apply blocks_writes_segments. intros i _. rewrite <- Hd. apply Hw.
  - exists k, p, q. auto.
Qed.

Theorem thread_interleaving_exists (segs : list seg) :
  o_wire o = segs_bytes date segs ->
  exists opss ls cs,
    map (@SeqWriterFacts.data ascii) opss = map (seg_bytes date) segs /\
    interleaving (repeat (@SeqWriter.New ascii) (List.length segs) :: progs ascii 0 opss) ls /\
    @SeqWriter.run ascii true (@SeqWriter.init ascii) ls = Some cs.
Proof.
  intros Hwire. set (opss := map (fun sg => [@SeqWriterFacts.OWrite ascii (seg_bytes date sg)]) segs).
  destruct (complete_run_gives_wire date script dflt input eof segs opss Hwire (data_single date segs)) as (cs & Hrun & _).
  exists opss. do 2 eexists. split; [apply data_single|]. split; [|exact Hrun].
  replace (List.length segs) with (List.length opss) by (unfold opss; apply map_length).
  apply arrival_is_interleaving.
Qed.

End Wire.
