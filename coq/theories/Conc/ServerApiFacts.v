(* Conc/ServerApiFacts.v — proofs about the executable glue Conc/ServerApi.v (harness `su`: one thread drives the
   Server's unblock / try_recv / recv_timeout / recv, a request arrives between two calls).
   Between two operations the model state is in `su_inv s fifo`: the one receiver is Idle and the queue is the fifo
   (Elem k / Token).  One operation of the glue (su_step_f, any fuel >= 1) is then defined, yields exactly the result
   of the FIFO specification su_spec_step, re-establishes the invariant, and is a run of the queue model
   (MsgQueue.run) along the labels `su_labels fifo o`; the bookkeeping fields move as expected.  By induction on the
   script: su_run = Some su_spec for ALL scripts; the whole script is one MsgQueue.run from init, so every theorem
   of Conc/MsgQueue.v applies to it. *)
From Coq Require Import List Arith Bool Lia.
Import ListNotations.
From TH Require Import Conc.MsgQueue Conc.Instances Conc.ServerApi.

Local Arguments q {V}.
Local Arguments now {V}.
Local Arguments rs {V}.
Local Arguments pushed {V}.
Local Arguments got {V}.
Local Arguments unblocks {V}.
Local Arguments tokrets {V}.
Local Arguments tlog {V}.
Local Arguments Elem {V}.
Local Arguments Token {V}.
Local Arguments Push {V}.
Local Arguments Unblock {V}.
Local Arguments CallPop {V}.
Local Arguments CallTry {V}.
Local Arguments CallTimed {V}.
Local Arguments Timeout {V}.
Local Arguments Resume {V}.
Local Arguments Tick {V}.
Local Arguments elems {V}.
Local Arguments ntok {V}.

Notation mk := (Build_st nat).
Notation mrun := (MsgQueue.run nat mq_MS mq_EPS true).

(* ---------- the model steps the glue takes, on explicit states ---------- *)
Lemma ms_unblock qq n p g u k tl :
  su_mstep (mk qq n [Idle] p g u k tl) (Unblock None) = Some (mk (qq ++ [Token]) n [Idle] p g (S u) k tl).
Proof. reflexivity. Qed.
Lemma ms_push v qq n p g u k tl :
  su_mstep (mk qq n [Idle] p g u k tl) (Push v None) = Some (mk (qq ++ [Elem v]) n [Idle] (p ++ [v]) g u k tl).
Proof. reflexivity. Qed.

(* a call that finds a request / a token returns at once *)
Definition is_call0 (l : label nat) : bool :=
  match l with CallPop 0 | CallTry 0 | CallTimed 0 _ => true | _ => false end.
Lemma ms_call_elem l v qq n p g u k tl : is_call0 l = true ->
  su_mstep (mk (Elem v :: qq) n [Idle] p g u k tl) l = Some (mk qq n [Idle] p (g ++ [v]) u k tl).
Proof. destruct l as [| |[|t]|[|t]|[|t] T| | | |]; try discriminate; reflexivity. Qed.
Lemma ms_call_token l qq n p g u k tl : is_call0 l = true ->
  su_mstep (mk (Token :: qq) n [Idle] p g u k tl) l = Some (mk qq n [Idle] p g u (S k) tl).
Proof. destruct l as [| |[|t]|[|t]|[|t] T| | | |]; try discriminate; reflexivity. Qed.

(* on the empty queue *)
Lemma ms_try_empty n p g u k tl :
  su_mstep (mk [] n [Idle] p g u k tl) (CallTry 0) = Some (mk [] n [Idle] p g u k tl).
Proof. reflexivity. Qed.
Lemma ms_pop_empty n p g u k tl :
  su_mstep (mk [] n [Idle] p g u k tl) (CallPop 0) = Some (mk [] n [PopBlocked] p g u k tl).
Proof. reflexivity. Qed.
Lemma ms_timed_empty T n p g u k tl :
  su_mstep (mk [] n [Idle] p g u k tl) (CallTimed 0 T) = Some (mk [] n [TBlocked n n T T] p g u k tl).
Proof. reflexivity. Qed.

(* the blocked timed call: the clock reaches the deadline, the wait times out, ONE Resume returns empty-handed *)
Lemma ms_tick T n p g u k tl :
  su_mstep (mk [] n [TBlocked n n T T] p g u k tl) (Tick T) = Some (mk [] (n + T) [TBlocked n n T T] p g u k tl).
Proof.
  unfold su_mstep, mq_step, step. cbn [rs now forallb in_time andb].
  replace (n + T <=? n + T + mq_EPS) with true by (symmetry; apply Nat.leb_le; lia). reflexivity.
Qed.
Lemma ms_timeout T n p g u k tl :
  su_mstep (mk [] (n + T) [TBlocked n n T T] p g u k tl) (Timeout 0) = Some (mk [] (n + T) [TWoken true n n T T] p g u k tl).
Proof.
  unfold su_mstep, mq_step, step. cbn [rs now nth_error]. rewrite Nat.leb_refl. reflexivity.
Qed.
Lemma ms_resume_timed T n p g u k tl :
  su_mstep (mk [] (n + T) [TWoken true n n T T] p g u k tl) (Resume 0)
  = Some (mk [] (n + T) [Idle] p g u k (tl ++ [(n, T, n + T)])).
Proof. reflexivity. Qed.

(* the blocked recv: the harness's own unblock wakes it, ONE Resume consumes that token *)
Lemma ms_unblock_blocked n p g u k tl :
  su_mstep (mk [] n [PopBlocked] p g u k tl) (Unblock (Some 0)) = Some (mk [Token] n [PopWoken] p g (S u) k tl).
Proof. reflexivity. Qed.
Lemma ms_resume_pop n p g u k tl :
  su_mstep (mk [Token] n [PopWoken] p g u k tl) (Resume 0) = Some (mk [] n [Idle] p g u (S k) tl).
Proof. reflexivity. Qed.

(* ---------- the glue's observers ---------- *)
Lemma su_new_grow s s' v : got s' = got s ++ [v] -> su_new s s' = Some v.
Proof.
  intros H. unfold su_new. rewrite H, app_length. cbn [length].
  replace (length (got s) <? length (got s) + 1) with true by (symmetry; apply Nat.ltb_lt; lia).
  replace (length (got s) + 1 - 1) with (length (got s)) by lia.
  rewrite nth_error_app2 by lia. rewrite Nat.sub_diag. reflexivity.
Qed.
Lemma su_new_same s s' : got s' = got s -> su_new s s' = None.
Proof. intros H. unfold su_new. rewrite H, Nat.ltb_irrefl. reflexivity. Qed.

Lemma su_resume_idle f s : su_idle s = true -> su_resume f s = Some s.
Proof. intros H. destruct f; cbn [su_resume]; rewrite H; reflexivity. Qed.
(* ONE Resume step brings the blocked call back *)
Lemma su_finish_one f s s' : su_mstep s (Resume 0) = Some s' -> su_idle s = false -> su_idle s' = true ->
  su_finish (S f) s = Some (s', su_out_of s s').
Proof.
  intros H1 H0 H2. unfold su_finish. cbn [su_resume]. rewrite H0, H1, (su_resume_idle _ _ H2). reflexivity.
Qed.
(* without fuel the blocked call stays blocked *)
Lemma su_finish_zero s : su_idle s = false -> su_finish 0 s = None.
Proof. intros H. unfold su_finish. cbn [su_resume]. rewrite H. reflexivity. Qed.

(* ---------- the invariant between two operations ---------- *)
Definition enc (x : option nat) : item nat := match x with Some k => Elem k | None => Token end.
Definition su_inv (s : su_st) (fifo : list (option nat)) : Prop := rs s = [Idle] /\ q s = map enc fifo.

(* the labels of the queue model that one operation of the script stands for *)
Definition su_labels (fifo : list (option nat)) (o : su_op) : list (label nat) :=
  match o with
  | SuU => [Unblock None]
  | SuQ k => [Push k None]
  | SuY => [CallTry 0]
  | SuT T => match fifo with [] => [CallTimed 0 T; Tick T; Timeout 0; Resume 0] | _ => [CallTimed 0 T] end
  | SuR => match fifo with [] => [CallPop 0; Unblock (Some 0); Resume 0] | _ => [CallPop 0] end
  end.

(* what the operation does to the bookkeeping fields *)
Definition res_vals (r : option su_res) : list nat := match r with Some (SrVal k) => [k] | _ => [] end.
Definition res_hang (r : option su_res) : nat := match r with Some SrHang => 1 | _ => 0 end.
Definition op_push (o : su_op) : list nat := match o with SuQ k => [k] | _ => [] end.
Definition op_unb (o : su_op) : nat := match o with SuU => 1 | _ => 0 end.
Definition is_recv (o : su_op) : bool := match o with SuT _ | SuY | SuR => true | _ => false end.
(* the receive call o finds an unblock token at the head of the fifo and consumes it *)
Definition tok_taken (fifo : list (option nat)) (o : su_op) : nat :=
  if is_recv o then match fifo with None :: _ => 1 | _ => 0 end else 0.
(* the timed call o finds the fifo empty and waits for its whole time *)
Definition timed_wait (fifo : list (option nat)) (o : su_op) : option nat :=
  match o, fifo with SuT T, [] => Some T | _, _ => None end.

Record su_post (s : su_st) (fifo : list (option nat)) (o : su_op) (r : option su_res) (s' : su_st) : Prop := {
  post_got : got s' = got s ++ res_vals r;
  post_pushed : pushed s' = pushed s ++ op_push o;
  post_unblocks : unblocks s' = unblocks s + op_unb o + res_hang r;
  post_tokrets : tokrets s' = tokrets s + tok_taken fifo o + res_hang r;
  post_time : match timed_wait fifo o with
              | Some T => now s' = now s + T /\ tlog s' = tlog s ++ [(now s, T, now s + T)]
              | None => now s' = now s /\ tlog s' = tlog s end
}.

Ltac post_tac := constructor; cbn; rewrite ?app_nil_r, ?Nat.add_0_r; auto; lia.

Lemma su_call_ret s l s' : su_mstep s l = Some s' -> su_idle s' = true -> su_call s l = Some (s', su_out_of s s').
Proof. intros H1 H2. unfold su_call. rewrite H1, H2. reflexivity. Qed.
Lemma su_call_blocked s l s' : su_mstep s l = Some s' -> su_idle s' = false -> su_call s l = Some (s', OBlocked).
Proof. intros H1 H2. unfold su_call. rewrite H1, H2. reflexivity. Qed.
Lemma su_out_val s s' v : got s' = got s ++ [v] -> su_out_of s s' = OVal v.
Proof. intros H. unfold su_out_of. rewrite (su_new_grow _ _ _ H). reflexivity. Qed.
Lemma su_out_tok s s' : got s' = got s -> su_out_of s s' = OTok.
Proof. intros H. unfold su_out_of. rewrite (su_new_same _ _ H). reflexivity. Qed.

Lemma mrun_1 s l s' : su_mstep s l = Some s' -> mrun s [l] = Some s'.
Proof. unfold su_mstep, mq_step. intros H. cbn [run]. rewrite H. reflexivity. Qed.

(* one operation, any fuel >= 1 *)
Lemma su_step_ok f s fifo o : su_inv s fifo ->
  exists s', su_step_f (S f) s o = Some (s', snd (su_spec_step fifo o)) /\
             su_inv s' (fst (su_spec_step fifo o)) /\
             mrun s (su_labels fifo o) = Some s' /\
             su_post s fifo o (snd (su_spec_step fifo o)) s'.
Proof.
  intros [Hrs Hq]. destruct s as [qq n rr p g u k tl]. cbn in Hrs, Hq. subst rr qq.
  destruct o as [|v|T| |].
  - (* u *)
    eexists. cbn [su_step_f su_spec_step su_labels fst snd]. rewrite ms_unblock.
    split; [reflexivity|]. split; [|split].
    + split; [reflexivity|]. cbn [q]. rewrite map_app. reflexivity.
    + apply mrun_1, ms_unblock.
    + post_tac.
  - (* q v *)
    eexists. cbn [su_step_f su_spec_step su_labels fst snd]. rewrite ms_push.
    split; [reflexivity|]. split; [|split].
    + split; [reflexivity|]. cbn [q]. rewrite map_app. reflexivity.
    + apply mrun_1, ms_push.
    + post_tac.
  - (* t T *)
    destruct fifo as [|[v|] fifo]; cbn [su_spec_step su_labels fst snd map enc].
    + (* empty: blocked, returns by time *)
      eexists. cbn [su_step_f].
      rewrite (su_call_blocked _ _ _ (ms_timed_empty T n p g u k tl) eq_refl).
      rewrite ms_tick, ms_timeout.
      rewrite (su_finish_one f _ _ (ms_resume_timed T n p g u k tl) eq_refl eq_refl).
      rewrite su_out_tok by reflexivity.
      split; [reflexivity|]. split; [|split].
      * split; reflexivity.
      * cbn [run]. fold (su_mstep (mk [] n [Idle] p g u k tl) (CallTimed 0 T)). rewrite ms_timed_empty.
        fold (su_mstep (mk [] n [TBlocked n n T T] p g u k tl) (Tick T)). rewrite ms_tick.
        fold (su_mstep (mk [] (n + T) [TBlocked n n T T] p g u k tl) (Timeout 0)). rewrite ms_timeout.
        fold (su_mstep (mk [] (n + T) [TWoken true n n T T] p g u k tl) (Resume 0)). rewrite ms_resume_timed.
        reflexivity.
      * post_tac.
    + eexists. cbn [su_step_f].
      rewrite (su_call_ret _ _ _ (ms_call_elem (CallTimed 0 T) v _ n p g u k tl eq_refl) eq_refl).
      rewrite (su_out_val _ _ v) by reflexivity.
      split; [reflexivity|]. split; [|split].
      * split; reflexivity.
      * apply mrun_1, ms_call_elem. reflexivity.
      * post_tac.
    + eexists. cbn [su_step_f].
      rewrite (su_call_ret _ _ _ (ms_call_token (CallTimed 0 T) _ n p g u k tl eq_refl) eq_refl).
      rewrite su_out_tok by reflexivity.
      split; [reflexivity|]. split; [|split].
      * split; reflexivity.
      * apply mrun_1, ms_call_token. reflexivity.
      * post_tac.
  - (* y *)
    destruct fifo as [|[v|] fifo]; cbn [su_spec_step su_labels fst snd map enc].
    + eexists. cbn [su_step_f]. rewrite ms_try_empty. rewrite su_new_same by reflexivity.
      split; [reflexivity|]. split; [|split].
      * split; reflexivity.
      * apply mrun_1, ms_try_empty.
      * post_tac.
    + eexists. cbn [su_step_f]. rewrite (ms_call_elem (CallTry 0) v _ n p g u k tl eq_refl).
      rewrite (su_new_grow _ _ v) by reflexivity.
      split; [reflexivity|]. split; [|split].
      * split; reflexivity.
      * apply mrun_1, ms_call_elem. reflexivity.
      * post_tac.
    + eexists. cbn [su_step_f]. rewrite (ms_call_token (CallTry 0) _ n p g u k tl eq_refl).
      rewrite su_new_same by reflexivity.
      split; [reflexivity|]. split; [|split].
      * split; reflexivity.
      * apply mrun_1, ms_call_token. reflexivity.
      * post_tac.
  - (* r *)
    destruct fifo as [|[v|] fifo]; cbn [su_spec_step su_labels fst snd map enc].
    + (* empty: hang, released by the harness's own unblock *)
      eexists. cbn [su_step_f].
      rewrite (su_call_blocked _ _ _ (ms_pop_empty n p g u k tl) eq_refl).
      rewrite ms_unblock_blocked.
      rewrite (su_finish_one f _ _ (ms_resume_pop n p g (S u) k tl) eq_refl eq_refl).
      split; [reflexivity|]. split; [|split].
      * split; reflexivity.
      * cbn [run]. fold (su_mstep (mk [] n [Idle] p g u k tl) (CallPop 0)). rewrite ms_pop_empty.
        fold (su_mstep (mk [] n [PopBlocked] p g u k tl) (Unblock (Some 0))). rewrite ms_unblock_blocked.
        fold (su_mstep (mk [Token] n [PopWoken] p g (S u) k tl) (Resume 0)). rewrite ms_resume_pop.
        reflexivity.
      * post_tac.
    + eexists. cbn [su_step_f].
      rewrite (su_call_ret _ _ _ (ms_call_elem (CallPop 0) v _ n p g u k tl eq_refl) eq_refl).
      rewrite (su_out_val _ _ v) by reflexivity.
      split; [reflexivity|]. split; [|split].
      * split; reflexivity.
      * apply mrun_1, ms_call_elem. reflexivity.
      * post_tac.
    + eexists. cbn [su_step_f].
      rewrite (su_call_ret _ _ _ (ms_call_token (CallPop 0) _ n p g u k tl eq_refl) eq_refl).
      rewrite su_out_tok by reflexivity.
      split; [reflexivity|]. split; [|split].
      * split; reflexivity.
      * apply mrun_1, ms_call_token. reflexivity.
      * post_tac.
Qed.

(* ---------- whole scripts ---------- *)
Lemma mrun_app a : forall s b, mrun s (a ++ b) = match mrun s a with Some s1 => mrun s1 b | None => None end.
Proof.
  induction a as [|l a IH]; intros s b; cbn [app run]; [reflexivity|].
  destruct (step nat mq_MS mq_EPS true s l) as [s1|]; [apply IH|reflexivity].
Qed.

(* the labels of the queue model that a script stands for, the fifo being `fifo` at its start *)
Fixpoint su_trace (fifo : list (option nat)) (ops : list su_op) : list (label nat) :=
  match ops with [] => [] | o :: ops' => su_labels fifo o ++ su_trace (fst (su_spec_step fifo o)) ops' end.

(* observers of a script and of a result list, in the property's words *)
Definition is_val (r : su_res) : list nat := match r with SrVal k => [k] | _ => [] end.
Definition su_vals (res : list su_res) : list nat := flat_map is_val res.          (* the requests handed out, in order *)
Definition is_hang (r : su_res) : bool := match r with SrHang => true | _ => false end.
Definition su_hangs (res : list su_res) : nat := length (filter is_hang res).       (* recv calls that found nothing *)
Definition is_full (r : su_res) : bool := match r with SrNone false => true | _ => false end.
Definition su_fulls (res : list su_res) : nat := length (filter is_full res).       (* timed calls that returned by time *)
Definition su_pushes (ops : list su_op) : list nat := flat_map op_push ops.         (* the arguments of q, in order *)
Definition is_u (o : su_op) : bool := match o with SuU => true | _ => false end.
Definition su_unblocks (ops : list su_op) : nat := length (filter is_u ops).        (* the number of u *)
(* the number of receive calls of the script that consume an unblock token *)
Fixpoint su_token_calls (fifo : list (option nat)) (ops : list su_op) : nat :=
  match ops with [] => 0 | o :: ops' => tok_taken fifo o + su_token_calls (fst (su_spec_step fifo o)) ops' end.
Definition su_final_fifo (ops : list su_op) : list (option nat) := fst (su_spec_from [] ops).
Definition opt_req (x : option nat) : list nat := match x with Some k => [k] | None => [] end.
Definition fifo_reqs (fifo : list (option nat)) : list nat := flat_map opt_req fifo.
Definition is_tok (x : option nat) : bool := match x with None => true | Some _ => false end.
Definition fifo_toks (fifo : list (option nat)) : nat := length (filter is_tok fifo).

Lemma elems_enc fifo : elems (map enc fifo) = fifo_reqs fifo.
Proof. induction fifo as [|[k|] fifo IH]; cbn; [reflexivity| |exact IH]. f_equal. exact IH. Qed.
Lemma ntok_enc fifo : ntok (map enc fifo) = fifo_toks fifo.
Proof. induction fifo as [|[k|] fifo IH]; cbn; [reflexivity|exact IH|]. f_equal. exact IH. Qed.

Definition cons_res (r : option su_res) (res : list su_res) : list su_res := match r with Some x => x :: res | None => res end.
Lemma su_spec_from_cons fifo o ops :
  su_spec_from fifo (o :: ops) =
  (fst (su_spec_from (fst (su_spec_step fifo o)) ops),
   cons_res (snd (su_spec_step fifo o)) (snd (su_spec_from (fst (su_spec_step fifo o)) ops))).
Proof.
  cbn [su_spec_from]. destruct (su_spec_step fifo o) as [fifo' r]. cbn [fst snd].
  destruct (su_spec_from fifo' ops) as [fifo'' res]. reflexivity.
Qed.

Lemma su_vals_cons r res : su_vals (cons_res r res) = res_vals r ++ su_vals res.
Proof. destruct r as [[]|]; reflexivity. Qed.
Lemma su_hangs_cons r res : su_hangs (cons_res r res) = res_hang r + su_hangs res.
Proof. destruct r as [[]|]; reflexivity. Qed.
Lemma su_unblocks_cons o ops : su_unblocks (o :: ops) = op_unb o + su_unblocks ops.
Proof. destruct o; reflexivity. Qed.
(* a timed call waits for its whole time exactly when its result is "N, by time" *)
Lemma timed_wait_full fifo o :
  (if timed_wait fifo o then 1 else 0) = su_fulls (cons_res (snd (su_spec_step fifo o)) []).
Proof. destruct o, fifo as [|[v|] fifo]; reflexivity. Qed.
Lemma su_fulls_cons r res : su_fulls (cons_res r res) = su_fulls (cons_res r []) + su_fulls res.
Proof. destruct r as [[| [] | |]|]; reflexivity. Qed.

Record su_posts (s : su_st) (fifo : list (option nat)) (ops : list su_op) (res : list su_res) (s' : su_st) : Prop := {
  posts_got : got s' = got s ++ su_vals res;
  posts_pushed : pushed s' = pushed s ++ su_pushes ops;
  posts_unblocks : unblocks s' = unblocks s + su_unblocks ops + su_hangs res;
  posts_tokrets : tokrets s' = tokrets s + su_token_calls fifo ops + su_hangs res;
  posts_tlog : length (tlog s') = length (tlog s) + su_fulls res;
  posts_now : now s <= now s';
  posts_exact : forall t0 T t1, In (t0, T, t1) (tlog s') -> In (t0, T, t1) (tlog s) \/ t1 = t0 + T
}.

Lemma su_run_ok f : forall ops s fifo, su_inv s fifo ->
  exists s', su_run_from (S f) s ops = Some (s', snd (su_spec_from fifo ops)) /\
             su_inv s' (fst (su_spec_from fifo ops)) /\
             mrun s (su_trace fifo ops) = Some s' /\
             su_posts s fifo ops (snd (su_spec_from fifo ops)) s'.
Proof.
  induction ops as [|o ops IH]; intros s fifo HI.
  - exists s. cbn [su_run_from su_spec_from su_trace run fst snd]. destruct HI as [Hr Hq]. repeat split; auto; cbn; rewrite ?app_nil_r; try reflexivity; lia.
  - destruct (su_step_ok f s fifo o HI) as (s1 & E1 & HI1 & R1 & P1).
    destruct (IH s1 _ HI1) as (s2 & E2 & HI2 & R2 & P2).
    exists s2. rewrite su_spec_from_cons. cbn [fst snd su_run_from su_trace]. rewrite E1, E2.
    split; [reflexivity|]. split; [exact HI2|]. split; [rewrite mrun_app, R1; exact R2|].
    destruct P1 as [G1 Pu1 U1 K1 T1], P2 as [G2 Pu2 U2 K2 L2 N2 X2]. constructor.
    + rewrite G2, G1, su_vals_cons, app_assoc. reflexivity.
    + rewrite Pu2, Pu1. unfold su_pushes. cbn [flat_map]. rewrite app_assoc. reflexivity.
    + rewrite U2, U1, su_unblocks_cons, su_hangs_cons. lia.
    + rewrite K2, K1, su_hangs_cons. cbn [su_token_calls]. lia.
    + rewrite L2, su_fulls_cons, <- timed_wait_full. destruct (timed_wait fifo o) as [T|]; destruct T1 as [_ ->]; [rewrite app_length; cbn [length]|]; lia.
    + destruct (timed_wait fifo o) as [T|]; destruct T1 as [T1a _]; lia.
    + intros t0 T0 t1 Hin. destruct (X2 _ _ _ Hin) as [Hin1|Hx]; [|right; exact Hx].
      destruct (timed_wait fifo o) as [T|]; destruct T1 as [_ T1b]; rewrite T1b in Hin1; [|left; exact Hin1].
      apply in_app_or in Hin1 as [Hin1|[Hin1|[]]]; [left; exact Hin1|]. inversion Hin1; subst. right; reflexivity.
Qed.

Lemma su_inv_init : su_inv su_init [].
Proof. split; reflexivity. Qed.
Lemma su_inv_idle s fifo : su_inv s fifo -> su_idle s = true.
Proof. intros [H _]. unfold su_idle. rewrite H. reflexivity. Qed.

(* ---------- 1 / 2: never stuck, and exactly the FIFO specification; ONE Resume round is enough ---------- *)
Theorem su_run_f_is_spec f ops : su_run_f (S f) ops = Some (su_spec ops).
Proof.
  destruct (su_run_ok f ops su_init [] su_inv_init) as (s' & E & HI & _). unfold su_run_f, su_spec.
  rewrite E, (su_inv_idle _ _ HI). reflexivity.
Qed.
Theorem su_run_is_spec ops : su_run ops = Some (su_spec ops).
Proof. exact (su_run_f_is_spec 3 ops). Qed.
Theorem su_run_never_stuck ops : su_run ops <> None.
Proof. rewrite su_run_is_spec. discriminate. Qed.
Theorem su_resume_bound fuel ops : 1 <= fuel -> su_run_f fuel ops = Some (su_spec ops).
Proof. destruct fuel as [|f]; [lia|]. intros _. apply su_run_f_is_spec. Qed.

(* what is known of the model state a script has reached *)
Lemma su_reach pre s res : su_run_from su_fuel su_init pre = Some (s, res) ->
  res = su_spec pre /\ su_inv s (su_final_fifo pre) /\
  mrun (init nat 1) (su_trace [] pre) = Some s /\ su_posts su_init [] pre res s.
Proof.
  intros H. destruct (su_run_ok 3 pre su_init [] su_inv_init) as (s' & E & HI & R & P).
  change (S 3) with su_fuel in E. rewrite E in H. inversion H; subst.
  split; [reflexivity|]. split; [exact HI|]. split; [exact R|exact P].
Qed.

(* the whole script is a run of the queue model from its initial state with one receiver *)
Theorem su_run_is_model_run ops :
  exists s, mrun (init nat 1) (su_trace [] ops) = Some s /\
            su_run_from su_fuel su_init ops = Some (s, su_spec ops) /\
            rs s = [Idle] /\ q s = map enc (su_final_fifo ops).
Proof.
  destruct (su_run_ok 3 ops su_init [] su_inv_init) as (s' & E & [Hr Hq] & R & _).
  exists s'. repeat split; auto.
Qed.

(* the model's own counters after a script *)
Theorem su_model_counters ops s res : su_run_from su_fuel su_init ops = Some (s, res) ->
  res = su_spec ops /\
  got s = su_vals res /\ pushed s = su_pushes ops /\ elems (q s) = fifo_reqs (su_final_fifo ops) /\
  tokrets s = su_token_calls [] ops + su_hangs res /\ unblocks s = su_unblocks ops + su_hangs res /\
  ntok (q s) = fifo_toks (su_final_fifo ops) /\ length (tlog s) = su_fulls res.
Proof.
  intros H. destruct (su_reach _ _ _ H) as (Hres & [_ Hq] & _ & [G Pu U K L _ _]).
  split; [exact Hres|]. rewrite Hq, elems_enc, ntok_enc. repeat split; auto.
Qed.

(* ---------- 3: corollaries in the property's words ---------- *)
(* every unblock is used by exactly one receive call or is still queued *)
Theorem su_unblock_releases_exactly_one ops :
  su_unblocks ops = su_token_calls [] ops + fifo_toks (su_final_fifo ops).
Proof.
  destruct (su_run_is_model_run ops) as (s & R & E & _).
  destruct (su_model_counters _ _ _ E) as (_ & _ & _ & _ & K & U & N & _).
  assert (MSpos : 0 < mq_MS) by (unfold mq_MS; lia).
  destruct (fifo_exactly_once nat mq_MS MSpos mq_EPS true 1 _ _ R) as [_ HA].
  rewrite K, U, N in HA. lia.
Qed.

(* the requests handed out, in order, followed by the requests still queued, are the requests that arrived, in order *)
Theorem su_requests_in_order_once ops :
  su_vals (su_spec ops) ++ fifo_reqs (su_final_fifo ops) = su_pushes ops.
Proof.
  destruct (su_run_is_model_run ops) as (s & R & E & _).
  destruct (su_model_counters _ _ _ E) as (_ & G & Pu & El & _).
  assert (MSpos : 0 < mq_MS) by (unfold mq_MS; lia).
  destruct (fifo_exactly_once nat mq_MS MSpos mq_EPS true 1 _ _ R) as [HA _].
  rewrite G, Pu, El in HA. exact HA.
Qed.

(* the results a receive call of each kind can have *)
Definition res_shape (o : su_op) (r : su_res) : Prop :=
  match o with
  | SuY => match r with SrVal _ | SrNone true => True | _ => False end           (* never hang, never "by time" *)
  | SuT _ => match r with SrVal _ | SrNone _ => True | _ => False end
  | SuR => match r with SrVal _ | SrErr | SrHang => True | _ => False end
  | _ => False
  end.

Lemma su_spec_shapes ops : forall fifo, Forall2 res_shape (filter is_recv ops) (snd (su_spec_from fifo ops)).
Proof.
  induction ops as [|o ops IH]; intros fifo; [constructor|].
  rewrite su_spec_from_cons. cbn [snd filter].
  destruct o as [|v|T| |]; cbn [is_recv su_spec_step]; try apply IH;
    destruct fifo as [|[v|] fifo]; cbn [fst snd cons_res]; (constructor; [exact I|apply IH]).
Qed.

(* the results of a script are, one by one, results of its receive calls; a try_recv never hangs or waits *)
Theorem su_try_never_blocks_run ops res : su_run ops = Some res -> Forall2 res_shape (filter is_recv ops) res.
Proof. rewrite su_run_is_spec. intros H. inversion H; subst. apply su_spec_shapes. Qed.

(* in every state a script can reach, try_recv is ONE enabled step of the model, leaves the receiver Idle, takes no
   model time, and yields a value or "nothing" *)
Theorem su_try_never_blocks pre s res : su_run_from su_fuel su_init pre = Some (s, res) ->
  exists s' r, su_step s SuY = Some (s', Some r) /\ su_mstep s (CallTry 0) = Some s' /\
               su_idle s' = true /\ now s' = now s /\ tlog s' = tlog s /\ res_shape SuY r.
Proof.
  intros H. destruct (su_reach _ _ _ H) as (_ & HI & _ & _).
  destruct (su_step_ok 3 s _ SuY HI) as (s' & E & HI' & R & [_ _ _ _ Ht]).
  assert (Hr : exists r, snd (su_spec_step (su_final_fifo pre) SuY) = Some r /\ res_shape SuY r).
  { destruct (su_final_fifo pre) as [|[v|] fifo]; cbn; eexists; split; try reflexivity; exact I. }
  destruct Hr as (r & Er & Hs). rewrite Er in E. exists s', r.
  split; [exact E|]. split; [|split; [exact (su_inv_idle _ _ HI')|]].
  - cbn [su_labels run] in R. unfold su_mstep, mq_step.
    destruct (step nat mq_MS mq_EPS true s (CallTry 0)) as [s1|]; [exact R|discriminate].
  - cbn [timed_wait] in Ht. destruct Ht as [Hn Hl]. auto.
Qed.

(* a timed receive returns "nothing, by time" exactly when the fifo is empty at the call; the model then logs a
   return exactly T after the call (so within [T, 2T + EPS]); every other outcome takes no model time *)
Theorem su_timed_bounds pre T s res : su_run_from su_fuel su_init pre = Some (s, res) ->
  exists s' r, su_step s (SuT T) = Some (s', Some r) /\
    (r = SrNone false <-> su_final_fifo pre = []) /\
    (r = SrNone false ->
       exists t1, tlog s' = tlog s ++ [(now s, T, t1)] /\ now s' = t1 /\ now s + T <= t1 /\ t1 <= now s + 2 * T + mq_EPS) /\
    (r <> SrNone false -> tlog s' = tlog s /\ now s' = now s).
Proof.
  intros H. destruct (su_reach _ _ _ H) as (_ & HI & _ & _).
  destruct (su_step_ok 3 s _ (SuT T) HI) as (s' & E & _ & _ & [_ _ _ _ Ht]).
  change (su_step_f 4 s (SuT T)) with (su_step s (SuT T)) in E.
  destruct (su_final_fifo pre) as [|[v|] fifo]; cbn [su_spec_step snd timed_wait] in E, Ht; destruct Ht as [Hn Hl];
    eexists; eexists; (split; [exact E|]).
  - split; [tauto|]. split; [|congruence]. intros _. exists (now s + T). repeat split; auto; lia.
  - split; [split; discriminate|]. split; [discriminate|auto].
  - split; [split; discriminate|]. split; [discriminate|auto].
Qed.

(* every entry of the model's log of timed returns after a script: returned exactly T after the call, hence within the
   bounds of Conc/MsgQueue.v (timed_lower_bound, timed_upper_bound, which apply because the script is a model run) *)
Theorem su_tlog_bounds ops s res : su_run_from su_fuel su_init ops = Some (s, res) ->
  length (tlog s) = su_fulls res /\
  forall t0 T t1, In (t0, T, t1) (tlog s) ->
    t1 = t0 + T /\ T <= (t1 - t0) + mq_MS /\ t1 <= t0 + 2 * T + mq_EPS.
Proof.
  intros H. destruct (su_reach _ _ _ H) as (_ & _ & R & [_ _ _ _ L _ X]). split; [exact L|].
  intros t0 T t1 Hin. assert (MSpos : 0 < mq_MS) by (unfold mq_MS; lia). split; [|split].
  - destruct (X _ _ _ Hin) as [[]|Hx]. exact Hx.
  - exact (timed_lower_bound nat mq_MS MSpos mq_EPS true 1 _ _ R _ _ _ Hin).
  - exact (timed_upper_bound nat mq_MS MSpos mq_EPS true 1 _ _ R _ _ _ Hin).
Qed.
