(* Conc/SeqWriterPrograms.v — per-thread programs over the sequential-writer chain (Conc/SeqWriter.v):
   `uses`, `well_ordered` (a thread finishes its smaller writers before it touches a larger one, never touches a
   writer after dropping it, and drops every writer it uses), its closure under taking the tail, a boolean checker
   `wo_b` equivalent to it, and the ownership conditions of a system of programs (`system_ok`). *)
From Coq Require Import List Arith Bool Lia.
Import ListNotations.
From TH Require Import Conc.SeqWriter Conc.SeqWriterFacts Conc.SeqWriterStepFacts.

Local Arguments New {byte}.
Local Arguments Write {byte}.
Local Arguments Flush {byte}.
Local Arguments DropW {byte}.
Local Arguments label_index {byte}.
Local Arguments is_drop {byte}.
Local Arguments is_new {byte}.
Local Arguments wdata {byte}.
Local Arguments writes_of {byte}.

Section Programs.
Variable byte : Type.
Notation bytes := (list byte).
Notation label := (SeqWriter.label byte).
Implicit Types (l x y : label).

Definition prog := list label.
Implicit Types (p q a b : prog) (ps : list prog).

(* program p contains a label that concerns writer j *)
Definition uses p (j : nat) : Prop := exists l, In l p /\ label_index l = Some j.

Record well_ordered p : Prop := {
  wo_no_new : ~ In New p;
  (* before touching writer j the program has dropped every smaller writer it uses anywhere *)
  wo_smaller_first : forall a l b j j', p = a ++ l :: b -> label_index l = Some j -> j' < j -> uses p j' -> In (DropW j') a;
  (* nothing concerns a writer after its drop (in particular it is dropped at most once) *)
  wo_after_drop : forall a b j l, p = a ++ DropW j :: b -> In l b -> label_index l <> Some j;
  (* every writer the program uses is dropped by it *)
  wo_drops : forall j, uses p j -> In (DropW j) p }.

(* the program of the thread that creates the writers *)
Definition creator p : Prop := forall l, In l p -> l = New.

(* ---------- uses ---------- *)

Lemma uses_nil j : ~ uses [] j.
Proof. intros (l & [] & _). Qed.

Lemma uses_cons l p j : uses (l :: p) j <-> label_index l = Some j \/ uses p j.
Proof.
  split.
  - intros (x & [<-|Hx] & Hi); [left; exact Hi|right; exists x; auto].
  - intros [H|(x & Hx & Hi)]; [exists l; cbn; auto|exists x; cbn; auto].
Qed.

Lemma uses_drop p j : In (DropW j) p -> uses p j.
Proof. intros H. exists (DropW j). auto. Qed.

Lemma creator_uses p j : creator p -> ~ uses p j.
Proof. intros Hc (l & Hl & Hi). rewrite (Hc l Hl) in Hi. discriminate. Qed.

Lemma creator_tail l p : creator (l :: p) -> l = New /\ creator p.
Proof. intros H. split; [apply H; left; reflexivity|intros x Hx; apply H; right; exact Hx]. Qed.

Lemma creator_repeat n : creator (repeat New n).
Proof. intros l Hl. exact (repeat_spec _ _ _ Hl). Qed.

(* ---------- well_ordered is closed under taking the tail; what it says about the head ---------- *)

Lemma wo_nil : well_ordered [].
Proof.
  constructor.
  - intros [].
  - intros a l b j j' E. destruct a; discriminate.
  - intros a b j l E. destruct a; discriminate.
  - intros j H. destruct (uses_nil j H).
Qed.

Lemma wo_drop_head j p : well_ordered (DropW j :: p) -> ~ uses p j.
Proof. intros H (x & Hx & Hi). exact (wo_after_drop _ H [] p j x eq_refl Hx Hi). Qed.

Lemma wo_tail l p : well_ordered (l :: p) -> well_ordered p.
Proof.
  intros H. constructor.
  - intros Hin. apply (wo_no_new _ H). right. exact Hin.
  - intros a x b j j' E Hx Hlt Hu.
    assert (Hin : In (DropW j') (l :: a)).
    { apply (wo_smaller_first _ H (l :: a) x b j j'); auto; [cbn; now rewrite E|apply uses_cons; auto]. }
    destruct Hin as [->|Hin]; [|exact Hin]. exfalso. exact (wo_drop_head j' p H Hu).
  - intros a b j x E Hin. apply (wo_after_drop _ H (l :: a) b j x); [cbn; now rewrite E|exact Hin].
  - intros j Hu.
    assert (Hin : In (DropW j) (l :: p)) by (apply (wo_drops _ H); apply uses_cons; auto).
    destruct Hin as [->|Hin]; [|exact Hin]. exfalso. exact (wo_drop_head j p H Hu).
Qed.

Lemma wo_head_index l p : well_ordered (l :: p) -> exists j, label_index l = Some j.
Proof.
  intros H. destruct (label_index l) as [j|] eqn:E; [eauto|].
  apply label_index_none in E. subst l. exfalso. apply (wo_no_new _ H). left. reflexivity.
Qed.

(* the head concerns the smallest writer the (remaining) program uses *)
Lemma wo_head_least l p j j' : well_ordered (l :: p) -> label_index l = Some j -> uses (l :: p) j' -> j <= j'.
Proof.
  intros H Hl Hu. destruct (Nat.le_gt_cases j j') as [Hle|Hlt]; [exact Hle|].
  destruct (wo_smaller_first _ H [] l p j j' eq_refl Hl Hlt Hu).
Qed.

Lemma wo_head_drop_later l p j : well_ordered (l :: p) -> label_index l = Some j -> l <> DropW j -> In (DropW j) p.
Proof.
  intros H Hl Hne.
  assert (Hin : In (DropW j) (l :: p)) by (apply (wo_drops _ H); apply uses_cons; auto).
  destruct Hin as [E|Hin]; [congruence|exact Hin].
Qed.

Lemma wo_cons_intro l b j : label_index l = Some j -> well_ordered b ->
  (forall j', uses b j' -> j <= j') ->
  (if is_drop j l then ~ uses b j else In (DropW j) b) -> well_ordered (l :: b).
Proof.
  intros Hl Hb Hge Hd. constructor.
  - intros [E|Hin]; [subst l; discriminate|exact (wo_no_new _ Hb Hin)].
  - intros a x b2 k j' E Hx Hlt Hu. destruct a as [|y a']; cbn in E; injection E as E1 E2.
    + subst x. rewrite Hl in Hx. injection Hx as <-. exfalso.
      apply uses_cons in Hu as [Hu|Hu]; [rewrite Hl in Hu; injection Hu as Hu; lia|specialize (Hge _ Hu); lia].
    + subst y. apply uses_cons in Hu as [Hu|Hu].
      * rewrite Hl in Hu. injection Hu as <-. destruct (is_drop j l) eqn:Ed.
        -- left. now apply is_drop_true.
        -- right. apply (wo_smaller_first _ Hb a' x b2 k j E2 Hx Hlt). now apply uses_drop.
      * right. exact (wo_smaller_first _ Hb a' x b2 k j' E2 Hx Hlt Hu).
  - intros a b2 k x E Hin. destruct a as [|y a']; cbn in E; injection E as E1 E2.
    + subst l b2. cbn in Hl. injection Hl as <-. cbn in Hd. rewrite Nat.eqb_refl in Hd.
      intros Hx. apply Hd. exists x. auto.
    + exact (wo_after_drop _ Hb a' b2 k x E2 Hin).
  - intros k Hu. apply uses_cons in Hu as [Hu|Hu].
    + rewrite Hl in Hu. injection Hu as <-. destruct (is_drop j l) eqn:Ed.
      * left. now apply is_drop_true.
      * right. exact Hd.
    + right. exact (wo_drops _ Hb k Hu).
Qed.

(* each writer is dropped at most once by a well-ordered program *)
Lemma wo_drop_once p j : well_ordered p -> length (filter (is_drop j) p) <= 1.
Proof.
  induction p as [|l p IH]; intros H; [cbn; lia|]. cbn [filter].
  destruct (is_drop j l) eqn:Ed; [|exact (IH (wo_tail l p H))].
  apply is_drop_true in Ed. subst l. rewrite filter_none; [cbn; lia|].
  apply Forall_forall. intros x Hx. destruct (is_drop j x) eqn:Ex; [|reflexivity].
  apply is_drop_true in Ex. subst x. exfalso. exact (wo_drop_head j p H (uses_drop p j Hx)).
Qed.

(* ---------- a boolean checker ---------- *)

Definition idx_is (j : nat) l : bool := match label_index l with Some i => i =? j | None => false end.
Definition idx_ge (j : nat) l : bool := match label_index l with Some i => j <=? i | None => false end.
Definition uses_b p (j : nat) : bool := existsb (idx_is j) p.

Fixpoint wo_b p : bool :=
  match p with
  | [] => true
  | l :: b =>
      match label_index l with
      | None => false
      | Some j => forallb (idx_ge j) b && (if is_drop j l then negb (uses_b b j) else existsb (is_drop j) b) && wo_b b
      end
  end.

Lemma uses_b_spec p j : uses_b p j = true <-> uses p j.
Proof.
  unfold uses_b, uses. rewrite existsb_exists. split; intros (x & Hx & H); exists x; (split; [exact Hx|]).
  - unfold idx_is in H. destruct (label_index x) as [i|]; [|discriminate]. apply Nat.eqb_eq in H. now subst.
  - unfold idx_is. rewrite H. apply Nat.eqb_refl.
Qed.

Lemma has_drop_spec p j : existsb (is_drop j) p = true <-> In (DropW j) p.
Proof.
  rewrite existsb_exists. split.
  - intros (x & Hx & H). apply is_drop_true in H. now subst.
  - intros H. exists (DropW j). split; [exact H|]. now apply is_drop_true.
Qed.

Lemma idx_ge_spec p j : forallb (idx_ge j) p = true <-> ((forall j', uses p j' -> j <= j') /\ ~ In New p).
Proof.
  rewrite forallb_forall. split.
  - intros H. split.
    + intros j' (x & Hx & Hi). specialize (H x Hx). unfold idx_ge in H. rewrite Hi in H. now apply Nat.leb_le.
    + intros Hn. specialize (H _ Hn). discriminate.
  - intros (H & Hn) x Hx. unfold idx_ge. destruct (label_index x) as [i|] eqn:Ei.
    + apply Nat.leb_le. apply H. exists x. auto.
    + apply label_index_none in Ei. subst x. contradiction.
Qed.

Lemma wo_b_sound p : wo_b p = true -> well_ordered p.
Proof.
  induction p as [|l b IH]; intros H; [exact wo_nil|]. cbn [wo_b] in H.
  destruct (label_index l) as [j|] eqn:El; [|discriminate].
  apply andb_true_iff in H as (H & Hwo). apply andb_true_iff in H as (Hge & Hd).
  apply idx_ge_spec in Hge as (Hge & _).
  apply (wo_cons_intro l b j El (IH Hwo) Hge).
  destruct (is_drop j l).
  - apply negb_true_iff in Hd. intros Hu. apply uses_b_spec in Hu. congruence.
  - now apply has_drop_spec.
Qed.

Lemma wo_b_complete p : well_ordered p -> wo_b p = true.
Proof.
  induction p as [|l b IH]; intros H; [reflexivity|]. cbn [wo_b].
  destruct (wo_head_index l b H) as (j & El). rewrite El.
  rewrite (IH (wo_tail l b H)), andb_true_r. apply andb_true_iff. split.
  - apply idx_ge_spec. split.
    + intros j' Hu. apply (wo_head_least l b j j' H El). apply uses_cons. auto.
    + intros Hn. apply (wo_no_new _ H). right. exact Hn.
  - destruct (is_drop j l) eqn:Ed.
    + apply is_drop_true in Ed. subst l. apply negb_true_iff.
      destruct (uses_b b j) eqn:Eu; [|reflexivity]. apply uses_b_spec in Eu. destruct (wo_drop_head j b H Eu).
    + apply has_drop_spec. apply (wo_head_drop_later l b j H El). intros ->.
      cbn in Ed. rewrite Nat.eqb_refl in Ed. discriminate.
Qed.

Theorem wo_b_spec p : wo_b p = true <-> well_ordered p.
Proof. split; [apply wo_b_sound|apply wo_b_complete]. Qed.

(* ---------- systems of programs ---------- *)

(* no writer is used by two different programs (programs are identified by their position) *)
Definition disjoint ps : Prop :=
  forall t1 t2 p1 p2 j, nth_error ps t1 = Some p1 -> nth_error ps t2 = Some p2 -> uses p1 j -> uses p2 j -> t1 = t2.
Definition bounded (n : nat) ps : Prop := forall p j, In p ps -> uses p j -> j < n.
Definition all_owned (n : nat) ps : Prop := forall j, j < n -> exists p, In p ps /\ uses p j.

(* n writers, every one of them used by exactly one program, every program well-ordered *)
Record system_ok (n : nat) ps : Prop := {
  so_wo : forall p, In p ps -> well_ordered p;
  so_disjoint : disjoint ps;
  so_bounded : bounded n ps;
  so_owned : all_owned n ps }.

Lemma disjoint_split ps1 p ps2 j : disjoint (ps1 ++ p :: ps2) -> uses p j ->
  forall q, In q ps1 \/ In q ps2 -> ~ uses q j.
Proof.
  intros D U q Hq Uq.
  assert (Hp : nth_error (ps1 ++ p :: ps2) (length ps1) = Some p).
  { rewrite nth_error_app2, Nat.sub_diag by lia. reflexivity. }
  destruct Hq as [H|H]; apply In_nth_error in H as [t1 H].
  - assert (Hlt : t1 < length ps1) by (apply nth_error_Some; congruence).
    assert (E : t1 = length ps1); [|lia].
    apply (D t1 (length ps1) q p j); auto. rewrite nth_error_app1 by exact Hlt. exact H.
  - assert (E : length ps1 + S t1 = length ps1); [|lia].
    apply (D (length ps1 + S t1) (length ps1) q p j); auto.
    rewrite nth_error_app2 by lia. replace (length ps1 + S t1 - length ps1) with (S t1) by lia. exact H.
Qed.

Lemma upd_split {A} (u : list A) t (e : A) : nth_error u t = Some e ->
  exists u1 u2, u = u1 ++ e :: u2 /\ length u1 = t /\ forall e' : A, upd u t e' = u1 ++ e' :: u2.
Proof.
  revert t. induction u as [|h u IH]; intros [|t] H; cbn in H; try discriminate.
  - injection H as ->. exists [], u. auto.
  - destruct (IH t H) as (u1 & u2 & E & Hl & Hu). exists (h :: u1), u2. cbn. repeat split.
    + now rewrite E at 1.
    + now rewrite Hl.
    + intros e'. now rewrite Hu.
Qed.

(* ---------- what a program writes through writer j ---------- *)

Lemma writes_of_app j (a b : list label) : writes_of j (a ++ b) = writes_of j a ++ writes_of j b.
Proof. unfold writes_of. now rewrite map_app, concat_app. Qed.

Lemma writes_of_cons j l (a : list label) : writes_of j (l :: a) = wdata j l ++ writes_of j a.
Proof. reflexivity. Qed.

Lemma writes_of_unused p j : ~ uses p j -> writes_of j p = [].
Proof.
  induction p as [|l p IH]; intros H; [reflexivity|]. rewrite writes_of_cons.
  rewrite IH by (intros Hu; apply H; apply uses_cons; auto).
  rewrite wdata_other; [reflexivity|]. intros Hl. apply H. apply uses_cons. auto.
Qed.

Lemma writes_of_concat_unused ps j : (forall q, In q ps -> ~ uses q j) -> writes_of j (concat ps) = [].
Proof.
  induction ps as [|q ps IH]; intros H; [reflexivity|]. cbn [concat]. rewrite writes_of_app.
  rewrite (writes_of_unused q j) by (apply H; left; reflexivity).
  apply IH. intros q' Hq'. apply H. right. exact Hq'.
Qed.

Lemma writes_of_news j n : writes_of j (repeat (@New byte) n) = [].
Proof. apply writes_of_unused. apply creator_uses. apply creator_repeat. Qed.

(* the data written through writer j by the whole system is what its owner's program writes through it *)
Lemma writes_of_owner ps t p j : disjoint ps -> nth_error ps t = Some p -> uses p j ->
  writes_of j (concat ps) = writes_of j p.
Proof.
  intros D Ht U. destruct (upd_split ps t p Ht) as (ps1 & ps2 & E & _ & _). subst ps.
  rewrite concat_app. cbn [concat]. rewrite !writes_of_app.
  rewrite (writes_of_concat_unused ps1 j), (writes_of_concat_unused ps2 j).
  - now rewrite app_nil_r.
  - intros q Hq. apply (disjoint_split ps1 p ps2 j D U). auto.
  - intros q Hq. apply (disjoint_split ps1 p ps2 j D U). auto.
Qed.

End Programs.
