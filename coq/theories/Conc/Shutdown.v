(* Conc/Shutdown.v — the accept thread and `impl Drop for Server` of src/lib.rs as a small interleaving
   transition system (C20, shutdown part). Connections are identified by natural numbers.

   Labels <-> code (src/lib.rs):
     LoopTest        the test `while !inside_close_trigger.load(Relaxed)` of the accept thread (l. 332).
                     Flag clear: the thread enters `server.accept()` (l. 333), modelled as in_accept := true.
                     Flag set: the loop ends, the closure returns: `server` (the listener) and `tasks_pool`
                     are dropped (l. 392-393: listener closed, TaskPool::drop = label PoolDrop of
                     Conc/TaskPool.v); connections still in the kernel backlog are reset.
     AcceptClient c  accept() returns the oldest client of the backlog (l. 334-361); it is wrapped in a
                     ClientConnection and given to `tasks_pool.spawn` (l. 366-384); back to the loop test.
     AcceptWake      accept() returns the self-connection made by Server::drop; it is dispatched exactly
                     like a client (its task reads end-of-stream and ends); back to the loop test.
     ServerDrop      Server::drop (l. 469-493): `close.store(true)`, connect to the own address (the
                     self-connection enters the backlog iff the listener still exists), remove the
                     UNIX-socket path (l. 486-491; vacuous for TCP listeners). Drop runs once.
     ClientConnect c a client's connection attempt: it enters the backlog iff the listener exists,
                     otherwise it is refused.
   Not modelled: accept() returning an error (l. 387-391: the loop ends as well, same exit transition);
   a failing self-connection (`if let Ok(stream)`); the Relaxed ordering of the flag (the model is
   sequentially consistent: the flag is seen at the next loop test); the order of the self-connection
   relative to clients in the backlog is left nondeterministic (a superset of the FIFO behaviours);
   for UNIX sockets clients are refused even earlier (from the path removal on).
   State: the fields named in the plan plus `backlog` (successful connection attempts not yet returned
   by accept) and `refused` (failed or reset attempts) so that "refused" is observable;
   `accepted` lists what was given to the task pool, in order (None = the self-connection). *)
From Coq Require Import List Arith Bool Lia.
Import ListNotations.

Definition conn := nat.

Record st := { closed : bool;          (* the close flag *)
               listening : bool;       (* the listener exists *)
               in_accept : bool;       (* the accept thread is blocked inside accept() *)
               backlog : list conn;
               accepted : list (option conn);
               refused : list conn;
               pending_wake : bool;    (* the self-connection is in the backlog *)
               pool_dropped : bool;
               path_removed : bool }.

Inductive label := LoopTest | AcceptClient (c : conn) | AcceptWake | ServerDrop | ClientConnect (c : conn).

Definition step (s : st) (l : label) : option st :=
  match l with
  | LoopTest =>
      if listening s && negb (in_accept s) then
        if closed s
        then Some {| closed := true; listening := false; in_accept := false; backlog := []; accepted := accepted s;
                     refused := refused s ++ backlog s; pending_wake := false; pool_dropped := true;
                     path_removed := path_removed s |}
        else Some {| closed := false; listening := true; in_accept := true; backlog := backlog s; accepted := accepted s;
                     refused := refused s; pending_wake := pending_wake s; pool_dropped := pool_dropped s;
                     path_removed := path_removed s |}
      else None
  | AcceptClient c =>
      if listening s && in_accept s then
        match backlog s with
        | c' :: rest => if Nat.eqb c c'
            then Some {| closed := closed s; listening := true; in_accept := false; backlog := rest;
                         accepted := accepted s ++ [Some c]; refused := refused s; pending_wake := pending_wake s;
                         pool_dropped := pool_dropped s; path_removed := path_removed s |}
            else None
        | [] => None end
      else None
  | AcceptWake =>
      if listening s && in_accept s && pending_wake s then
        Some {| closed := closed s; listening := true; in_accept := false; backlog := backlog s;
                accepted := accepted s ++ [None]; refused := refused s; pending_wake := false;
                pool_dropped := pool_dropped s; path_removed := path_removed s |}
      else None
  | ServerDrop =>
      if closed s then None else
        Some {| closed := true; listening := listening s; in_accept := in_accept s; backlog := backlog s;
                accepted := accepted s; refused := refused s; pending_wake := listening s;
                pool_dropped := pool_dropped s; path_removed := true |}
  | ClientConnect c =>
      if listening s
      then Some {| closed := closed s; listening := true; in_accept := in_accept s; backlog := backlog s ++ [c];
                   accepted := accepted s; refused := refused s; pending_wake := pending_wake s;
                   pool_dropped := pool_dropped s; path_removed := path_removed s |}
      else Some {| closed := closed s; listening := false; in_accept := in_accept s; backlog := backlog s;
                   accepted := accepted s; refused := refused s ++ [c]; pending_wake := pending_wake s;
                   pool_dropped := pool_dropped s; path_removed := path_removed s |}
  end.

Fixpoint run (s : st) (ls : list label) : option st :=
  match ls with [] => Some s | l :: ls' => match step s l with Some s' => run s' ls' | None => None end end.

Definition init : st :=
  {| closed := false; listening := true; in_accept := false; backlog := []; accepted := []; refused := [];
     pending_wake := false; pool_dropped := false; path_removed := false |}.

Definition is_accept (l : label) : bool := match l with AcceptClient _ | AcceptWake => true | _ => false end.
Definition is_accept_client (l : label) : bool := match l with AcceptClient _ => true | _ => false end.
Definition is_loop_step (l : label) : bool := match l with LoopTest | AcceptClient _ | AcceptWake => true | _ => false end.
Definition nb (f : label -> bool) (ls : list label) : nat := length (filter f ls).
Definition connects (ls : list label) : list conn := flat_map (fun l => match l with ClientConnect c => [c] | _ => [] end) ls.

Lemma nb_cons f l ls : nb f (l :: ls) = (if f l then 1 else 0) + nb f ls.
Proof. unfold nb; cbn. destruct (f l); reflexivity. Qed.
Lemma run_app s a b : run s (a ++ b) = match run s a with Some s' => run s' b | None => None end.
Proof. revert s. induction a as [|l a IH]; intros s; cbn; auto. destruct (step s l); auto. Qed.

(* one case analysis of a step, reused by all proofs *)
Ltac step_cases H s l :=
  destruct l as [|c| | |c]; cbn [step] in H;
  [ destruct (listening s) eqn:El; destruct (in_accept s) eqn:Ea; cbn [andb negb] in H; try discriminate;
    destruct (closed s) eqn:Ec; inversion H; subst; clear H
  | destruct (listening s) eqn:El; destruct (in_accept s) eqn:Ea; cbn [andb negb] in H; try discriminate;
    destruct (backlog s) as [|c' rest] eqn:Eb; try discriminate; destruct (Nat.eqb c c') eqn:Ecc; inversion H; subst; clear H
  | destruct (listening s) eqn:El; destruct (in_accept s) eqn:Ea; destruct (pending_wake s) eqn:Ep;
    cbn [andb negb] in H; try discriminate; inversion H; subst; clear H
  | destruct (closed s) eqn:Ec; try discriminate; inversion H; subst; clear H
  | destruct (listening s) eqn:El; inversion H; subst; clear H ].

(* ---------- the close flag, the path and the accepted connections are never undone ---------- *)
Lemma step_closed s l s' : step s l = Some s' -> closed s = true -> closed s' = true.
Proof. intros H Hc. step_cases H s l; cbn; congruence. Qed.
Lemma step_path s l s' : step s l = Some s' -> path_removed s = true -> path_removed s' = true.
Proof. intros H Hc. step_cases H s l; cbn; congruence. Qed.
Lemma run_path ls : forall s s', run s ls = Some s' -> path_removed s = true -> path_removed s' = true.
Proof.
  induction ls as [|l ls IH]; cbn; intros s s' H Hp; [inversion H; subst; auto|].
  destruct (step s l) eqn:E; [|discriminate]. eapply IH; eauto. eapply step_path; eauto.
Qed.

Theorem path_removed_after_drop s0 s1 ls s2 : step s0 ServerDrop = Some s1 -> run s1 ls = Some s2 -> path_removed s2 = true.
Proof.
  intros H R. eapply run_path; eauto. cbn in H. destruct (closed s0); [discriminate|]. inversion H; reflexivity.
Qed.

(* frame: `accepted` only grows, and neither ServerDrop nor the loop test (including the loop exit,
   which drops the listener and the pool) touches it *)
Lemma step_accepted s l s' : step s l = Some s' ->
  accepted s' = accepted s ++ match l with AcceptClient c => [Some c] | AcceptWake => [None] | _ => [] end.
Proof. intros H. step_cases H s l; cbn; rewrite ?app_nil_r; reflexivity. Qed.
Definition handed (ls : list label) : list (option conn) :=
  flat_map (fun l => match l with AcceptClient c => [Some c] | AcceptWake => [None] | _ => [] end) ls.
Theorem accepted_only_grows ls : forall s s', run s ls = Some s' -> accepted s' = accepted s ++ handed ls.
Proof.
  induction ls as [|l ls IH]; cbn; intros s s' H; [inversion H; subst; now rewrite app_nil_r|].
  destruct (step s l) eqn:E; [|discriminate]. rewrite (IH _ _ H), (step_accepted _ _ _ E), <- app_assoc. reflexivity.
Qed.
Theorem drop_and_exit_keep_accepted s l s' : step s l = Some s' -> l = ServerDrop \/ l = LoopTest -> accepted s' = accepted s.
Proof. intros H [->| ->]; rewrite (step_accepted _ _ _ H); apply app_nil_r. Qed.

(* ---------- after ServerDrop at most one more accept ---------- *)
Definition b2n (b : bool) : nat := if b then 1 else 0.

Lemma accepts_when_closed ls : forall s s', closed s = true -> run s ls = Some s' ->
  nb is_accept ls <= b2n (listening s && in_accept s).
Proof.
  induction ls as [|l ls IH]; intros s s' Hc H; [cbn; lia|]. cbn [run] in H.
  destruct (step s l) as [s1|] eqn:E; [|discriminate]. rewrite nb_cons.
  pose proof (IH _ _ (step_closed _ _ _ E Hc) H) as B. clear IH H.
  step_cases E s l; cbn [is_accept b2n andb listening in_accept closed] in *; try rewrite El in B; try rewrite Ea in B;
    cbn [b2n andb] in B; try lia; try congruence.
Qed.

Theorem accept_stops s0 s1 ls s2 : step s0 ServerDrop = Some s1 -> run s1 ls = Some s2 ->
  nb is_accept ls <= 1 /\ nb is_accept_client ls <= 1.
Proof.
  intros H R. assert (Hc : closed s1 = true) by (cbn in H; destruct (closed s0); [discriminate|inversion H; reflexivity]).
  pose proof (accepts_when_closed _ _ _ Hc R) as B.
  assert (nb is_accept_client ls <= nb is_accept ls).
  { clear. induction ls as [|l ls IH]; [cbn; lia|]. rewrite !nb_cons. destruct l; cbn; lia. }
  destruct (listening s1 && in_accept s1); cbn in B; lia.
Qed.

(* once the listener is gone it stays gone, nothing is accepted, every connection attempt is refused *)
Theorem closed_listener_refuses ls : forall s s', listening s = false -> run s ls = Some s' ->
  listening s' = false /\ accepted s' = accepted s /\ backlog s' = backlog s /\ refused s' = refused s ++ connects ls.
Proof.
  induction ls as [|l ls IH]; cbn [run]; intros s s' Hl H; [inversion H; subst; cbn; now rewrite app_nil_r|].
  destruct (step s l) as [s1|] eqn:E; [|discriminate].
  assert (X : listening s1 = false /\ accepted s1 = accepted s /\ backlog s1 = backlog s /\
              refused s1 = refused s ++ match l with ClientConnect c => [c] | _ => [] end).
  { step_cases E s l; try congruence; cbn [listening accepted backlog refused]; rewrite ?app_nil_r; auto. }
  destruct X as (L1 & A1 & B1 & R1). destruct (IH _ _ L1 H) as (L2 & A2 & B2 & R2).
  repeat split; try congruence. rewrite R2, R1, <- app_assoc. reflexivity.
Qed.

(* ---------- after ServerDrop the loop exits: progress and bound ---------- *)
(* the self-connection is pending whenever the thread sits in accept() with the flag set *)
Definition K (s : st) : Prop := closed s = true /\ (listening s = true -> in_accept s = true -> pending_wake s = true).

Lemma drop_K s0 s1 : step s0 ServerDrop = Some s1 -> K s1.
Proof. intros H. cbn in H. destruct (closed s0); [discriminate|]. inversion H; subst. unfold K; cbn. auto. Qed.
Lemma step_K s l s' : K s -> step s l = Some s' -> K s'.
Proof. intros [Hc Hw] H. unfold K. step_cases H s l; cbn in *; split; auto; try congruence. Qed.
Lemma run_K ls : forall s s', K s -> run s ls = Some s' -> K s'.
Proof.
  induction ls as [|l ls IH]; cbn; intros s s' HK H; [inversion H; subst; auto|].
  destruct (step s l) eqn:E; [|discriminate]. eapply IH; [|exact H]. eapply step_K; eauto.
Qed.

(* the accept thread is never stuck while the listener exists: a loop step is enabled *)
Lemma loop_progress s : K s -> listening s = true ->
  exists l s', is_loop_step l = true /\ step s l = Some s'.
Proof.
  intros [Hc Hw] Hl. destruct (in_accept s) eqn:Ea.
  - exists AcceptWake. cbn. rewrite Hl, Ea, (Hw Hl eq_refl). cbn. eauto.
  - exists LoopTest. cbn. rewrite Hl, Ea, Hc. cbn. eauto.
Qed.
(* and it can take at most two more loop steps: (accept returns;) the loop test sees the flag *)
Lemma loop_steps_when_closed ls : forall s s', closed s = true -> run s ls = Some s' ->
  nb is_loop_step ls <= (if listening s then (if in_accept s then 2 else 1) else 0).
Proof.
  induction ls as [|l ls IH]; intros s s' Hc H; [cbn; lia|]. cbn [run] in H.
  destruct (step s l) as [s1|] eqn:E; [|discriminate]. rewrite nb_cons.
  pose proof (IH _ _ (step_closed _ _ _ E Hc) H) as B. clear IH H.
  step_cases E s l; cbn [is_loop_step listening in_accept closed] in *; try rewrite El in B; try rewrite Ea in B;
    try lia; try congruence.
Qed.

Theorem loop_exits s0 s1 ls s2 : step s0 ServerDrop = Some s1 -> run s1 ls = Some s2 ->
  (* bound: at most two loop steps happen after the drop, whatever the schedule *)
  nb is_loop_step ls <= 2 /\
  (* progress: while the listener exists a loop step is enabled *)
  (listening s2 = true -> exists l s3, is_loop_step l = true /\ step s2 l = Some s3) /\
  (* hence a schedule of at most two loop steps closes the listener and drops the pool *)
  (exists ls' s3, length ls' <= 2 /\ Forall (fun l => is_loop_step l = true) ls' /\ run s2 ls' = Some s3 /\
                  listening s3 = false /\ (listening s2 = true -> pool_dropped s3 = true)).
Proof.
  intros H R. pose proof (drop_K _ _ H) as K1. pose proof (run_K _ _ _ K1 R) as K2. split; [|split].
  - pose proof (loop_steps_when_closed _ _ _ (proj1 K1) R) as B. destruct (listening s1), (in_accept s1); lia.
  - intros Hl. now apply loop_progress.
  - destruct K2 as [Hc Hw]. destruct (listening s2) eqn:El.
    + destruct (in_accept s2) eqn:Ea.
      * eexists [AcceptWake; LoopTest], _. split; [cbn; lia|]. split; [repeat constructor|].
        cbn. rewrite El, Ea, (Hw eq_refl eq_refl), Hc. cbn. auto.
      * eexists [LoopTest], _. split; [cbn; lia|]. split; [repeat constructor|].
        cbn. rewrite El, Ea, Hc. cbn. auto.
    + exists [], s2. split; [cbn; lia|]. split; [constructor|]. cbn. split; auto. split; auto. discriminate.
Qed.

(* reachable states: the pool is dropped exactly when the listener is closed, which needs the flag *)
Definition R (s : st) : Prop :=
  pool_dropped s = negb (listening s) /\ (listening s = false -> closed s = true /\ backlog s = [] /\ in_accept s = false) /\
  (path_removed s = closed s).
Lemma step_R s l s' : R s -> step s l = Some s' -> R s'.
Proof. intros (R1 & R2 & R3) H. unfold R. step_cases H s l; cbn in *; repeat split; auto; try congruence; try (apply R2; auto). Qed.
Theorem run_R ls s : run init ls = Some s -> R s.
Proof.
  assert (G : forall ls s s', R s -> run s ls = Some s' -> R s').
  { clear. induction ls as [|l ls IH]; cbn; intros s s' HR H; [inversion H; subst; auto|].
    destruct (step s l) eqn:E; [|discriminate]. eapply IH; [|exact H]. eapply step_R; eauto. }
  apply G. unfold R, init; cbn. repeat split; auto; discriminate.
Qed.
