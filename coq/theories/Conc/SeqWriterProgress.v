(* Conc/SeqWriterProgress.v — systems of per-thread programs running over the sequential-writer chain
   (Conc/SeqWriter.v, repaired tree). A configuration is a chain state plus the remaining suffix of every program;
   a move executes the head label of one program when the model enables it. For a system of well-ordered programs
   in which every writer is owned by exactly one program (`system_ok`, Conc/SeqWriterPrograms.v):
   - `cinv_not_stuck`: in every configuration reached by moves either all programs are finished or some head label
     is enabled (the program owning the least undropped writer can always move);
   - every move removes one label, so every sequence of moves has at most (total number of labels) moves, can be
     extended to one that finishes, and every maximal one ends finished with all writers dropped and the stream being
     the per-writer data in writer order.
   The `New`s may be executed beforehand or be a further program (`creator`) interleaved with the others. *)
From Coq Require Import List Arith Bool Lia.
Import ListNotations.
From TH Require Import Conc.SeqWriter Conc.SeqWriterFacts Conc.SeqWriterStepFacts Conc.SeqWriterPrograms.

Local Arguments turn {byte}.
Local Arguments dropped {byte}.
Local Arguments sent {byte}.
Local Arguments ws {byte}.
Local Arguments stream {byte}.
Local Arguments New {byte}.
Local Arguments Write {byte}.
Local Arguments Flush {byte}.
Local Arguments DropW {byte}.
Local Arguments step {byte}.
Local Arguments run {byte}.
Local Arguments init {byte}.
Local Arguments Inv {byte}.
Local Arguments reachable {byte}.
Local Arguments label_index {byte}.
Local Arguments is_drop {byte}.
Local Arguments is_new {byte}.
Local Arguments wdata {byte}.
Local Arguments writes_of {byte}.
Local Arguments sent_at {byte}.
Local Arguments least_undropped {byte}.
Local Arguments ready {byte}.
Local Arguments uses {byte}.
Local Arguments well_ordered {byte}.
Local Arguments creator {byte}.
Local Arguments disjoint {byte}.
Local Arguments bounded {byte}.
Local Arguments all_owned {byte}.
Local Arguments system_ok {byte}.

Section Progress.
Variable byte : Type.
Notation bytes := (list byte).
Notation wr := (SeqWriter.wr byte).
Notation st := (SeqWriter.st byte).
Notation label := (SeqWriter.label byte).
Notation prog := (SeqWriterPrograms.prog byte).
Notation fresh := {| SeqWriter.turn := false; SeqWriter.dropped := false; SeqWriter.sent := @nil byte |}.
Implicit Types (s : st) (w : wr) (l : label) (p q : prog) (ps : list prog).

Record config := { cst : st; cps : list prog }.
Implicit Types (c : config).

(* thread t executes the head label of its program, if the model enables it *)
Definition exec_at c (t : nat) : option config :=
  match nth_error (cps c) t with
  | Some (l :: p) =>
      match step true (cst c) l with
      | Some s' => Some {| cst := s'; cps := upd (cps c) t p |}
      | None => None
      end
  | _ => None
  end.

(* a sequence of moves, given by the threads that move *)
Fixpoint exec c (sched : list nat) : option config :=
  match sched with
  | [] => Some c
  | t :: r => match exec_at c t with Some c' => exec c' r | None => None end
  end.

(* the labels executed along a schedule, in the order they happen *)
Fixpoint trace c (sched : list nat) : list label :=
  match sched with
  | [] => []
  | t :: r => match nth_error (cps c) t, exec_at c t with
              | Some (l :: _), Some c' => l :: trace c' r
              | _, _ => []
              end
  end.

Definition finished c : Prop := forall p, In p (cps c) -> p = [].
Definition size c : nat := length (concat (cps c)).
Definition news ps : nat := length (filter is_new (concat ps)).

Lemma exec_at_inv c t c' : exec_at c t = Some c' ->
  exists l p s', nth_error (cps c) t = Some (l :: p) /\ step true (cst c) l = Some s' /\
    c' = {| cst := s'; cps := upd (cps c) t p |}.
Proof.
  unfold exec_at. intros H. destruct (nth_error (cps c) t) as [[|l p]|] eqn:Et; try discriminate.
  destruct (step true (cst c) l) as [s'|] eqn:Es; [|discriminate]. inversion H. eauto 6.
Qed.

Lemma exec_at_enabled c t l p : nth_error (cps c) t = Some (l :: p) -> step true (cst c) l <> None ->
  exists c', exec_at c t = Some c'.
Proof.
  intros Ht Hs. unfold exec_at. rewrite Ht. destruct (step true (cst c) l); [eauto|congruence].
Qed.

Lemma exec_app c (r1 r2 : list nat) :
  exec c (r1 ++ r2) = match exec c r1 with Some c1 => exec c1 r2 | None => None end.
Proof.
  revert c. induction r1 as [|t r1 IH]; intros c; cbn; [reflexivity|].
  destruct (exec_at c t); [apply IH|reflexivity].
Qed.

(* a sequence of moves is a run of the chain model over the executed labels *)
Lemma exec_run sched : forall c c', exec c sched = Some c' ->
  run true (cst c) (trace c sched) = Some (cst c') /\ length (trace c sched) = length sched.
Proof.
  induction sched as [|t r IH]; intros c c' H; cbn in H.
  - inversion H. auto.
  - destruct (exec_at c t) as [c1|] eqn:E; [|discriminate].
    destruct (exec_at_inv c t c1 E) as (l & p & s' & Ht & Hs & ->).
    cbn [trace]. rewrite Ht, E. cbn [run length]. rewrite Hs.
    destruct (IH _ c' H) as (Hr & Hl). cbn in Hr. now rewrite Hr, Hl.
Qed.

(* ---------- the measure ---------- *)

Lemma exec_at_size c t c' : exec_at c t = Some c' -> size c = S (size c').
Proof.
  intros H. destruct (exec_at_inv c t c' H) as (l & p & s' & Ht & _ & ->).
  destruct (upd_split (cps c) t (l :: p) Ht) as (ps1 & ps2 & E & _ & Hu).
  unfold size. cbn [cps]. rewrite Hu, E, !concat_app. cbn [concat]. rewrite !app_length. cbn. lia.
Qed.

Lemma exec_size sched : forall c c', exec c sched = Some c' -> size c = length sched + size c'.
Proof.
  induction sched as [|t r IH]; intros c c' H; cbn in H.
  - inversion H. reflexivity.
  - destruct (exec_at c t) as [c1|] eqn:E; [|discriminate].
    rewrite (exec_at_size c t c1 E), (IH c1 c' H). reflexivity.
Qed.

Lemma all_nil_concat {A} (ls : list (list A)) : (forall x, In x ls -> x = []) -> concat ls = [].
Proof.
  induction ls as [|x ls IH]; intros H; [reflexivity|]. cbn. rewrite (H x) by (left; reflexivity).
  apply IH. intros y Hy. apply H. right. exact Hy.
Qed.

Lemma all_nil_dec ps : (forall p, In p ps -> p = []) \/ exists t l p, nth_error ps t = Some (l :: p).
Proof.
  induction ps as [|q ps IH]; [left; intros p []|].
  destruct q as [|l q]; [|right; exists 0, l, q; reflexivity].
  destruct IH as [IH|(t & l & p & H)]; [left|right; exists (S t), l, p; exact H].
  intros p [<-|H]; auto.
Qed.

Lemma finished_size c : finished c -> size c = 0.
Proof. intros H. unfold size. now rewrite all_nil_concat. Qed.

(* stuck: some program is unfinished and no head label is enabled *)
Definition stuck c : Prop := ~ finished c /\ forall t, exec_at c t = None.

Definition is_nil {A} (x : list A) : bool := match x with [] => true | _ => false end.
Definition is_none {A} (x : option A) : bool := match x with None => true | Some _ => false end.
Definition finished_b c : bool := forallb is_nil (cps c).
Definition stuck_b c : bool :=
  negb (finished_b c) && forallb (fun t => is_none (exec_at c t)) (seq 0 (length (cps c))).

Lemma finished_b_spec c : finished_b c = true <-> finished c.
Proof.
  unfold finished_b, finished. rewrite forallb_forall. split; intros H p Hp.
  - specialize (H p Hp). now destruct p.
  - now rewrite (H p Hp).
Qed.

Lemma stuck_b_spec c : stuck_b c = true <-> stuck c.
Proof.
  unfold stuck_b, stuck. rewrite andb_true_iff, negb_true_iff, forallb_forall, <- finished_b_spec.
  split; intros (Hf & Hn); (split; [destruct (finished_b c); intuition congruence|]).
  - intros t. destruct (Nat.lt_ge_cases t (length (cps c))) as [Hl|Hl].
    + specialize (Hn t). rewrite in_seq in Hn. specialize (Hn ltac:(lia)). now destruct (exec_at c t).
    + unfold exec_at. apply nth_error_None in Hl. now rewrite Hl.
  - intros t _. now rewrite Hn.
Qed.

(* ---------- the invariant of configurations ---------- *)

Record CInv (n : nat) c : Prop := {
  ci_reach : reachable (cst c);
  ci_len : length (ws (cst c)) + news (cps c) = n;
  ci_shape : forall t p, nth_error (cps c) t = Some p -> well_ordered p \/ creator p;
  ci_disj : disjoint (cps c);
  (* a writer some remaining program still uses is not dropped *)
  ci_live : forall t p j, nth_error (cps c) t = Some p -> uses p j ->
    j < n /\ forall w, nth_error (ws (cst c)) j = Some w -> dropped w = false;
  (* a writer that is not dropped (possibly not yet created) is still used by some remaining program *)
  ci_owned : forall j, j < n -> (forall w, nth_error (ws (cst c)) j = Some w -> dropped w = false) ->
    exists t p, nth_error (cps c) t = Some p /\ uses p j }.

Lemma upd_uses ps t l p t' q j : nth_error ps t = Some (l :: p) -> nth_error (upd ps t p) t' = Some q ->
  uses q j -> exists q', nth_error ps t' = Some q' /\ uses q' j /\ ((t' = t /\ q = p) \/ (t' <> t /\ q' = q)).
Proof.
  intros Ht Hq Hu. apply nth_upd_cases in Hq as [(-> & -> & _)|(Hne & Hq)].
  - exists (l :: p). split; [exact Ht|]. split; [apply uses_cons; auto|auto].
  - exists q. auto.
Qed.

Lemma news_step ps t l p : nth_error ps t = Some (l :: p) ->
  news ps = (if is_new l then 1 else 0) + news (upd ps t p).
Proof.
  intros Ht. destruct (upd_split ps t (l :: p) Ht) as (ps1 & ps2 & E & _ & Hu).
  unfold news. rewrite Hu, E, !concat_app. cbn [concat]. rewrite !filter_app. cbn [app filter].
  destruct (is_new l); rewrite !app_length; cbn [length]; rewrite ?app_length; lia.
Qed.

Lemma cinv_step n c t c' : CInv n c -> exec_at c t = Some c' -> CInv n c'.
Proof.
  intros [Hr Hlen Hshape Hdisj Hlive Hown] H.
  destruct (exec_at_inv c t c' H) as (l & p & s' & Ht & Hs & ->). clear H.
  assert (Hhead : forall i, label_index l = Some i -> well_ordered (l :: p)).
  { intros i Hi. destruct (Hshape t _ Ht) as [Hwo|Hcr]; [exact Hwo|].
    destruct (creator_tail byte l p Hcr) as (-> & _). discriminate. }
  constructor; cbn [cst cps].
  - exact (reachable_step byte _ l s' Hr Hs).
  - rewrite (step_length byte true _ l s' Hs). rewrite (news_step _ t l p Ht) in Hlen. lia.
  - intros t' q Hq. apply nth_upd_cases in Hq as [(-> & -> & _)|(Hne & Hq)]; [|exact (Hshape t' q Hq)].
    destruct (Hshape t _ Ht) as [Hwo|Hcr]; [left; exact (wo_tail byte l p Hwo)|right].
    exact (proj2 (creator_tail byte l p Hcr)).
  - intros t1 t2 p1 p2 j H1 H2 U1 U2.
    destruct (upd_uses _ t l p t1 p1 j Ht H1 U1) as (q1 & Hq1 & Uq1 & _).
    destruct (upd_uses _ t l p t2 p2 j Ht H2 U2) as (q2 & Hq2 & Uq2 & _).
    exact (Hdisj t1 t2 q1 q2 j Hq1 Hq2 Uq1 Uq2).
  - intros t' q j Hq Hu.
    destruct (upd_uses _ t l p t' q j Ht Hq Hu) as (q' & Hq' & Uq' & Hcase).
    destruct (Hlive t' q' j Hq' Uq') as (Hjn & Hold). split; [exact Hjn|].
    intros w' Hw'. destruct (dropped w') eqn:Ed; [exfalso|reflexivity].
    destruct (step_dropped_origin byte _ l s' j w' Hs Hw' Ed) as [->|Hsame].
    + (* the step was DropW j, yet a remaining program uses j *)
      assert (Hwo : well_ordered (DropW j :: p)) by (apply (Hhead j); reflexivity).
      destruct Hcase as [(-> & ->)|(Hne & ->)].
      * exact (wo_drop_head byte j p Hwo Hu).
      * apply Hne. apply (Hdisj t' t q (DropW j :: p) j Hq' Ht Uq'). apply uses_cons. left. reflexivity.
    + rewrite (Hold w' Hsame) in Ed. discriminate.
  - intros j Hjn Hnd.
    assert (Hold : forall w, nth_error (ws (cst c)) j = Some w -> dropped w = false).
    { intros w Hw. destruct (dropped w) eqn:Ed; [|reflexivity].
      destruct (dropped_frozen_step byte true _ l s' j w Hs Hw Ed) as (Hw' & _).
      rewrite <- Ed. exact (Hnd w Hw'). }
    destruct (Hown j Hjn Hold) as (t' & q & Hq & Uq).
    destruct (Nat.eq_dec t' t) as [->|Hne].
    + rewrite Ht in Hq. injection Hq as <-. exists t, p.
      split; [apply nth_upd_same; apply nth_error_Some; congruence|].
      apply uses_cons in Uq as [Hl|Up]; [|exact Up].
      (* j is used at the executed head: unless that was its drop, the drop is still to come *)
      destruct (is_drop j l) eqn:Edr.
      * exfalso. apply is_drop_true in Edr. subst l.
        destruct (drop_sets_dropped byte true _ j s' Hs) as (w' & Hw' & Hd'). rewrite (Hnd w' Hw') in Hd'. discriminate.
      * apply uses_drop. apply (wo_head_drop_later byte l p j (Hhead j Hl) Hl).
        intros ->. cbn in Edr. rewrite Nat.eqb_refl in Edr. discriminate.
    + exists t', q. split; [|exact Uq]. rewrite nth_upd_other by congruence. exact Hq.
Qed.

Lemma cinv_exec n sched : forall c c', CInv n c -> exec c sched = Some c' -> CInv n c'.
Proof.
  induction sched as [|t r IH]; intros c c' HI H; cbn in H; [inversion H; now subst|].
  destruct (exec_at c t) as [c1|] eqn:E; [|discriminate]. exact (IH c1 c' (cinv_step n c t c1 HI E) H).
Qed.

(* ---------- never stuck ---------- *)

Theorem cinv_not_stuck n c : CInv n c -> finished c \/ exists t c', exec_at c t = Some c'.
Proof.
  intros [Hr Hlen Hshape Hdisj Hlive Hown].
  destruct (all_nil_dec (cps c)) as [Hfin|(t0 & l0 & p0 & H0)]; [left; exact Hfin|right].
  assert (Hnew : forall t p, nth_error (cps c) t = Some (New :: p) -> exists t c', exec_at c t = Some c').
  { intros t p Ht. exists t. apply (exec_at_enabled c t New p Ht). discriminate. }
  destruct (news (cps c)) as [|k] eqn:En.
  2:{ (* a New is pending: its program is a creator and its head is enabled *)
    unfold news in En. destruct (filter is_new (concat (cps c))) as [|x r] eqn:Ef; [discriminate|].
    assert (Hx : In x (filter is_new (concat (cps c)))) by (rewrite Ef; left; reflexivity).
    apply filter_In in Hx as (Hx & Hxn). destruct x; try discriminate.
    apply in_concat in Hx as (q & Hq & Hxq). apply In_nth_error in Hq as (t & Hq).
    destruct (Hshape t q Hq) as [Hwo|Hcr]; [destruct (wo_no_new _ _ Hwo Hxq)|].
    destruct q as [|y q]; [destruct Hxq|]. destruct (creator_tail byte y q Hcr) as (-> & _). eauto. }
  rewrite Nat.add_0_r in Hlen.
  destruct (Hshape t0 _ H0) as [Hwo0|Hcr0]; [|destruct (creator_tail byte l0 p0 Hcr0) as (-> & _); eauto].
  destruct (wo_head_index byte l0 p0 Hwo0) as (j0 & Hj0).
  destruct (Hlive t0 _ j0 H0) as (Hj0n & Hj0d); [apply uses_cons; auto|].
  destruct (nth_error (ws (cst c)) j0) as [w0|] eqn:E0; [|apply nth_error_None in E0; lia].
  destruct (least_undropped (ws (cst c))) as [m|] eqn:El.
  2:{ specialize (Hj0d w0 eq_refl). rewrite (least_undropped_none byte _ El j0 w0 E0) in Hj0d. discriminate. }
  pose proof El as Hready. apply ready_least in Hready.
  destruct (least_undropped_some byte _ _ El) as ((wm & Hm & Hdm) & Hb).
  assert (Hmn : m < n) by (rewrite <- Hlen; apply nth_error_Some; congruence).
  destruct (Hown m Hmn) as (t & q & Hq & Uq); [intros w Hw; congruence|].
  destruct q as [|l p]; [destruct (uses_nil byte m Uq)|].
  destruct (Hshape t _ Hq) as [Hwo|Hcr]; [|destruct (creator_tail byte l p Hcr) as (-> & _); eauto].
  destruct (wo_head_index byte l p Hwo) as (k & Hk).
  assert (Hkm : k <= m) by exact (wo_head_least byte l p k m Hwo Hk Uq).
  destruct (Hlive t _ k Hq) as (Hkn & Hkd); [apply uses_cons; auto|].
  assert (k = m) as ->.
  { destruct (Nat.eq_dec k m) as [|Hne]; [assumption|exfalso].
    destruct (nth_error (ws (cst c)) k) as [wk|] eqn:Ek; [|apply nth_error_None in Ek; lia].
    specialize (Hkd wk eq_refl). rewrite (Hb k wk) in Hkd by (auto; lia). discriminate. }
  exists t. apply (exec_at_enabled c t l p Hq). exact (ready_step_some byte _ l m Hk Hready).
Qed.

(* every configuration can be run to the end *)
Lemma cinv_can_finish n : forall k c, size c = k -> CInv n c ->
  exists sched c', exec c sched = Some c' /\ finished c'.
Proof.
  induction k as [|k IH]; intros c Hk HI; destruct (cinv_not_stuck n c HI) as [Hf|(t & c1 & E)].
  - exists [], c. auto.
  - rewrite (exec_at_size c t c1 E) in Hk. discriminate.
  - exists [], c. auto.
  - rewrite (exec_at_size c t c1 E) in Hk. injection Hk as Hk.
    destruct (IH c1 Hk (cinv_step n c t c1 HI E)) as (sched & c' & Hr & Hf).
    exists (t :: sched), c'. cbn. rewrite E. auto.
Qed.

(* ---------- what is on the stream ---------- *)

(* K j = everything the system writes through writer j: what was sent so far plus what the programs still hold *)
Definition WInv (K : nat -> bytes) c : Prop :=
  forall j, sent_at (cst c) j ++ writes_of j (concat (cps c)) = K j.

Lemma winv_step K c t c' : disjoint (cps c) -> WInv K c -> exec_at c t = Some c' -> WInv K c'.
Proof.
  intros Hdisj HW H j. destruct (exec_at_inv c t c' H) as (l & p & s' & Ht & Hs & ->). cbn [cst cps].
  rewrite <- (HW j). rewrite (step_sent_at byte true _ l s' j Hs).
  destruct (upd_split (cps c) t (l :: p) Ht) as (ps1 & ps2 & E & _ & Hu).
  rewrite Hu, E, !concat_app. cbn [concat]. rewrite !writes_of_app, writes_of_cons, <- !app_assoc. f_equal.
  destruct (label_index l) as [i|] eqn:El.
  - destruct (Nat.eq_dec i j) as [->|Hne].
    + rewrite (writes_of_concat_unused byte ps1 j); [reflexivity|].
      intros q Hq. rewrite E in Hdisj. apply (disjoint_split byte ps1 (l :: p) ps2 j Hdisj); auto.
      apply uses_cons. auto.
    + rewrite (wdata_other byte j l) by congruence. reflexivity.
  - rewrite (wdata_other byte j l) by congruence. reflexivity.
Qed.

Lemma winv_exec n K sched : forall c c', CInv n c -> WInv K c -> exec c sched = Some c' -> WInv K c'.
Proof.
  induction sched as [|t r IH]; intros c c' HI HW H; cbn in H; [inversion H; now subst|].
  destruct (exec_at c t) as [c1|] eqn:E; [|discriminate].
  exact (IH c1 c' (cinv_step n c t c1 HI E) (winv_step K c t c1 (ci_disj n c HI) HW E) H).
Qed.

(* a finished configuration: all moves made, all writers created and dropped, stream = per-writer data in order *)
Lemma cinv_finished n K c0 sched c : CInv n c0 -> WInv K c0 -> exec c0 sched = Some c -> finished c ->
  length sched = size c0 /\
  length (ws (cst c)) = n /\
  (forall j w, nth_error (ws (cst c)) j = Some w -> dropped w = true) /\
  stream (cst c) = concat (map K (seq 0 n)).
Proof.
  intros HI0 HW0 H Hfin.
  pose proof (cinv_exec n sched c0 c HI0 H) as HI. pose proof (winv_exec n K sched c0 c HI0 HW0 H) as HW.
  pose proof (exec_size sched c0 c H) as Hsz. rewrite (finished_size c Hfin) in Hsz.
  destruct HI as [Hr Hlen Hshape Hdisj Hlive Hown].
  assert (Hnil : concat (cps c) = []) by (apply all_nil_concat; exact Hfin).
  unfold news in Hlen. rewrite Hnil in Hlen. cbn in Hlen. rewrite Nat.add_0_r in Hlen.
  split; [lia|]. split; [exact Hlen|]. split.
  - intros j w Hw. destruct (dropped w) eqn:Ed; [reflexivity|exfalso].
    assert (Hjn : j < n) by (rewrite <- Hlen; apply nth_error_Some; congruence).
    destruct (Hown j Hjn) as (t & q & Hq & Uq); [intros w' Hw'; congruence|].
    rewrite (Hfin q (nth_error_In _ _ Hq)) in Uq. exact (uses_nil byte j Uq).
  - destruct (reachable_inv byte _ Hr) as (Hstr & _). rewrite Hstr, <- Hlen. f_equal.
    apply map_as_seq. intros i w Hw. rewrite <- (HW i), Hnil. unfold sent_at. rewrite Hw.
    cbn. now rewrite app_nil_r.
Qed.

(* a maximal sequence of moves ends finished *)
Theorem cinv_maximal n K c0 sched c : CInv n c0 -> WInv K c0 -> exec c0 sched = Some c ->
  (forall t, exec_at c t = None) ->
  finished c /\ length sched = size c0 /\ length (ws (cst c)) = n /\
  (forall j w, nth_error (ws (cst c)) j = Some w -> dropped w = true) /\
  stream (cst c) = concat (map K (seq 0 n)).
Proof.
  intros HI0 HW0 H Hmax.
  destruct (cinv_not_stuck n c (cinv_exec n sched c0 c HI0 H)) as [Hf|(t & c1 & E)]; [|rewrite Hmax in E; discriminate].
  split; [exact Hf|]. exact (cinv_finished n K c0 sched c HI0 HW0 H Hf).
Qed.

(* ---------- the two starting configurations ---------- *)

Lemma news_none ps : (forall p, In p ps -> ~ In New p) -> news ps = 0.
Proof.
  intros H. unfold news. destruct (filter is_new (concat ps)) as [|x r] eqn:Ef; [reflexivity|exfalso].
  assert (Hx : In x (filter is_new (concat ps))) by (rewrite Ef; left; reflexivity).
  apply filter_In in Hx as (Hx & Hxn). destruct x; try discriminate.
  apply in_concat in Hx as (q & Hq & Hxq). exact (H q Hq Hxq).
Qed.

Lemma filter_new_repeat n : filter is_new (repeat (@New byte) n) = repeat New n.
Proof. induction n as [|n IH]; cbn; [reflexivity|now rewrite IH]. Qed.

(* the writers were created beforehand *)
Lemma cinv_start n ps s0 : system_ok n ps -> run true init (repeat New n) = Some s0 ->
  CInv n {| cst := s0; cps := ps |} /\ WInv (fun j => writes_of j (concat ps)) {| cst := s0; cps := ps |}.
Proof.
  intros [Hwo Hdisj Hbnd Hown] H0. rewrite run_news in H0. injection H0 as <-.
  assert (Hfresh : forall j w, nth_error (repeat fresh n) j = Some w -> w = fresh).
  { intros j w Hw. exact (repeat_spec _ _ _ (nth_error_In _ _ Hw)). }
  split.
  - constructor; cbn [cst cps ws init app].
    + apply (reachable_run byte init (repeat New n)); [apply reachable_init|apply run_news].
    + rewrite repeat_length, news_none; [lia|]. intros p Hp. exact (wo_no_new _ _ (Hwo p Hp)).
    + intros t p Hp. left. exact (Hwo p (nth_error_In _ _ Hp)).
    + exact Hdisj.
    + intros t p j Hp Hu. split; [exact (Hbnd p j (nth_error_In _ _ Hp) Hu)|].
      intros w Hw. now rewrite (Hfresh j w Hw).
    + intros j Hj _. destruct (Hown j Hj) as (p & Hp & Hu). apply In_nth_error in Hp as (t & Hp). eauto.
  - intros j. unfold sent_at. cbn [cst cps ws init app].
    destruct (nth_error (repeat fresh n) j) as [w|] eqn:Ew; [rewrite (Hfresh j w Ew)|]; reflexivity.
Qed.

(* the writers are created by a further program running concurrently *)
Lemma cinv_start_creation n ps : system_ok n ps ->
  CInv n {| cst := init; cps := repeat New n :: ps |} /\
  WInv (fun j => writes_of j (concat ps)) {| cst := init; cps := repeat New n :: ps |}.
Proof.
  intros [Hwo Hdisj Hbnd Hown]. split.
  - constructor; cbn [cst cps ws init length].
    + apply reachable_init.
    + unfold news. cbn [concat]. rewrite filter_app, app_length, filter_new_repeat, repeat_length.
      fold (news ps). rewrite news_none; [lia|]. intros p Hp. exact (wo_no_new _ _ (Hwo p Hp)).
    + intros [|t] p Hp; cbn in Hp.
      * injection Hp as <-. right. apply creator_repeat.
      * left. exact (Hwo p (nth_error_In _ _ Hp)).
    + intros [|t1] [|t2] p1 p2 j H1 H2 U1 U2; cbn in H1, H2; auto.
      * injection H1 as <-. destruct (creator_uses byte _ j (creator_repeat byte n) U1).
      * injection H2 as <-. destruct (creator_uses byte _ j (creator_repeat byte n) U2).
      * f_equal. exact (Hdisj t1 t2 p1 p2 j H1 H2 U1 U2).
    + intros [|t] p j Hp Hu; cbn in Hp.
      * injection Hp as <-. destruct (creator_uses byte _ j (creator_repeat byte n) Hu).
      * split; [exact (Hbnd p j (nth_error_In _ _ Hp) Hu)|]. intros w Hw. destruct j; discriminate.
    + intros j Hj _. destruct (Hown j Hj) as (p & Hp & Hu). apply In_nth_error in Hp as (t & Hp).
      exists (S t), p. auto.
  - intros j. unfold sent_at. cbn [cst cps ws init concat]. rewrite writes_of_app, writes_of_news.
    now destruct j.
Qed.

End Progress.
