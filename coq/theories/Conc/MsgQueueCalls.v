(* Conc/MsgQueueCalls.v — "each token releases a DISTINCT call" for Conc/MsgQueue.v (C17).
   A call of receiver t is identified, from outside the model, by (t, k): k = the number of CallPop/CallTry/CallTimed
   labels of t among the labels up to and including the step in question (the k-th call of receiver t).
   For the token log of MsgQueueFacts.v (entries (position, receiver)) the call identities are pairwise distinct:
   no call is released twice, so n tokens consumed = n different calls returned empty-handed.
   The reason: the step that consumes a token leaves its receiver Idle, and an Idle receiver can only act again by
   starting a new call. *)
From Coq Require Import List Arith Bool Lia.
Import ListNotations.
From TH Require Import Conc.MsgQueue Conc.MsgQueueFacts.

Local Arguments q {V}.
Local Arguments now {V}.
Local Arguments rs {V}.
Local Arguments got {V}.
Local Arguments tokrets {V}.
Local Arguments Token {V}.
Local Arguments CallPop {V}.
Local Arguments CallTry {V}.
Local Arguments CallTimed {V}.
Local Arguments Resume {V}.
Local Arguments take_ret {V}.
Local Arguments set_rs {V}.
Local Arguments init {V}.

Lemma NoDup_snoc {A} (l : list A) x : NoDup l -> ~ In x l -> NoDup (l ++ [x]).
Proof.
  induction l as [|a l IH]; cbn; intros ND Hn; [constructor; [tauto|constructor]|].
  inversion ND; subst. constructor; [|apply IH; tauto].
  intros Hin. apply in_app_iff in Hin as [Hin|[->|[]]]; tauto.
Qed.

Section Calls.
Variable V : Type.
Variable MS : nat.
Hypothesis MS_pos : 0 < MS.
Variable EPS : nat.
Notation st := (MsgQueue.st V).
Notation label := (MsgQueue.label V).
Notation step := (MsgQueue.step V MS EPS).
Notation run := (MsgQueue.run V MS EPS).
Notation actor := (MsgQueueFacts.actor V).
Notation kind := (MsgQueueFacts.kind V).
Notation released_by := (MsgQueueFacts.released_by V).
Notation token_returns := (MsgQueueFacts.token_returns V MS EPS).

(* l starts a call of receiver t *)
Definition is_call (t : nat) (l : label) : bool :=
  match l with CallPop u | CallTry u | CallTimed u _ => u =? t | _ => false end.
Definition ncalls (t : nat) (ls : list label) : nat := length (filter (is_call t) ls).
(* the call that the log entry (position i, receiver t) of a run with labels ls belongs to *)
Definition call_of (ls : list label) (e : nat * nat) : nat * nat :=
  (snd e, ncalls (snd e) (firstn (S (fst e)) ls)).

Lemma ncalls_snoc t pre l : ncalls t (pre ++ [l]) = ncalls t pre + (if is_call t l then 1 else 0).
Proof. unfold ncalls. rewrite filter_app, app_length. cbn. destruct (is_call t l); reflexivity. Qed.

(* receiver t is inside a call *)
Definition nonidle (r : rstate) : bool := match r with Idle => false | _ => true end.
Definition in_callL (l : list rstate) (t : nat) : bool := match nth_error l t with Some r => nonidle r | None => false end.
Definition in_call (s : st) (t : nat) : bool := in_callL (rs s) t.

Lemma in_callL_upd l i x t old : nth_error l i = Some old ->
  in_callL (upd l i x) t = if t =? i then nonidle x else in_callL l t.
Proof.
  intros Hn. unfold in_callL. destruct (Nat.eqb_spec t i) as [->|Hne].
  - now rewrite (nth_upd_same _ _ _ _ Hn).
  - rewrite nth_upd_other by congruence. reflexivity.
Qed.

Lemma in_callL_upd_idle l t : in_callL (upd l t Idle) t = false.
Proof.
  unfold in_callL. destruct (nth_error l t) as [old|] eqn:E.
  - now rewrite (nth_upd_same _ _ _ _ E).
  - assert (G : forall (l : list rstate) t, nth_error l t = None -> nth_error (upd l t Idle) t = None).
    { induction l0 as [|a l0 IH]; intros [|u] H; cbn in *; auto; discriminate. }
    now rewrite G.
Qed.

(* how one step changes the receiver table: at most one entry, and an entry leaves Idle only by a Call label *)
Lemma step_rs fixed s l s' : step fixed s l = Some s' ->
  rs s' = rs s \/
  exists t0 old x, nth_error (rs s) t0 = Some old /\ rs s' = upd (rs s) t0 x /\
                   (nonidle x = true -> nonidle old = true \/ is_call t0 l = true).
Proof.
  assert (TR : forall t old s1, nth_error (rs s) t = Some old -> take_ret s t = Some s1 ->
     rs s1 = rs s \/ exists t0 old x, nth_error (rs s) t0 = Some old /\ rs s1 = upd (rs s) t0 x /\
                   (nonidle x = true -> nonidle old = true \/ is_call t0 l = true)).
  { intros t old s1 Hn H1. right. destruct (take_ret_cases _ _ _ _ H1) as (_ & Hrs & _).
    exists t, old, Idle. repeat split; auto. discriminate. }
  assert (NT : forall w l', notify (rs s) w = Some l' ->
     l' = rs s \/ exists t0 old x, nth_error (rs s) t0 = Some old /\ l' = upd (rs s) t0 x /\
                   (nonidle x = true -> nonidle old = true \/ is_call t0 l = true)).
  { intros w l' H1. unfold notify in H1. destruct w as [t|].
    - destruct (nth_error (rs s) t) as [r|] eqn:E; [|discriminate]. destruct (is_blocked r) eqn:Eb; inversion H1; subst.
      right. exists t, r, (wake r). repeat split; auto. intros _. left. destruct r; cbn in *; auto; discriminate.
    - destruct (count is_blocked (rs s) =? 0); inversion H1; subst; auto. }
  intros H. destruct l; cbn [MsgQueue.step] in H.
  - destruct (notify (rs s) w) as [l'|] eqn:En; inversion H; subst; cbn. eapply NT; eauto.
  - destruct (notify (rs s) w) as [l'|] eqn:En; inversion H; subst; cbn. eapply NT; eauto.
  - destruct (nth_error (rs s) t) as [[| | | |]|] eqn:En; try discriminate.
    destruct (take_ret s t) eqn:E; inversion H; subst; [eapply TR; eauto|].
    right. exists t, Idle, PopBlocked. repeat split; auto. intros _. right. cbn. apply Nat.eqb_refl.
  - destruct (nth_error (rs s) t) as [[| | | |]|] eqn:En; try discriminate.
    destruct (take_ret s t) eqn:E; inversion H; subst; [eapply TR; eauto|auto].
  - destruct (nth_error (rs s) t) as [[| | | |]|] eqn:En; try discriminate.
    destruct (take_ret s t) eqn:E; inversion H; subst; [eapply TR; eauto|].
    right. eexists t, Idle, _. repeat split; auto. intros _. right. cbn. apply Nat.eqb_refl.
  - destruct (nth_error (rs s) t) as [r|] eqn:En; try discriminate. destruct (is_blocked r) eqn:Eb; inversion H; subst.
    right. exists t, r, (wake r). repeat split; auto. intros _. left. destruct r; cbn in *; auto; discriminate.
  - destruct (nth_error (rs s) t) as [[| | |t0 b rem T|]|] eqn:En; try discriminate.
    destruct (b + T <=? now s); inversion H; subst.
    right. eexists t, _, _. repeat split; eauto.
  - destruct (nth_error (rs s) t) as [[| | | |to t0 b rem T]|] eqn:En; try discriminate.
    + destruct (take_ret s t) eqn:E; inversion H; subst; [eapply TR; eauto|].
      right. eexists t, _, _. repeat split; eauto.
    + destruct (to || (rem - (now s - b) <? MS)).
      * destruct fixed; [destruct (take_ret s t) eqn:E|]; inversion H; subst; [eapply TR; eauto| |];
          (right; exists t; eexists; exists Idle; repeat split; eauto; discriminate).
      * destruct (take_ret s t) eqn:E; inversion H; subst; [eapply TR; eauto|].
        right. eexists t, _, _. repeat split; eauto.
  - destruct (negb (forallb (in_time EPS (now s + d)) (rs s))); inversion H; subst. auto.
Qed.

(* F1: a receiver enters a call only by a Call label of its own *)
Lemma enters_call_by_call fixed s l s' t : step fixed s l = Some s' ->
  in_call s t = false -> in_call s' t = true -> is_call t l = true.
Proof.
  intros H H0 H1. unfold in_call in *. destruct (step_rs _ _ _ _ H) as [Hrs|(t0 & old & x & Hn & Hrs & Himp)]; rewrite Hrs in H1.
  - congruence.
  - rewrite (in_callL_upd _ _ _ _ _ Hn) in H1. destruct (Nat.eqb_spec t t0) as [->|Hne]; [|congruence].
    unfold in_callL in H0. rewrite Hn in H0. destruct (Himp H1) as [Ho|Hc]; [congruence|exact Hc].
Qed.

(* F2: a step of receiver t either starts a call of t or continues one *)
Lemma actor_in_call fixed s l s' t : step fixed s l = Some s' -> actor l = Some t ->
  is_call t l = true \/ in_call s t = true.
Proof.
  intros H Ha. destruct l; cbn in Ha; inversion Ha; subst; cbn [is_call]; try (left; apply Nat.eqb_refl).
  right. cbn [MsgQueue.step] in H. unfold in_call, in_callL.
  destruct (nth_error (rs s) t) as [[| | | |]|]; try discriminate; reflexivity.
Qed.

(* F3: what a step records in the token log, and the receiver is Idle afterwards *)
Lemma released_by_idle fixed s l s' i : step fixed s l = Some s' ->
  released_by s s' i l = [] \/
  exists t, actor l = Some t /\ released_by s s' i l = [(i, t)] /\ in_call s' t = false /\ tokrets s' = S (tokrets s).
Proof.
  intros H. destruct (step_kind _ _ _ _ _ _ _ H) as [t v Ha Hq Hg Ht Hr|t Ha Hq Hg Ht Hr|Hg Ht]; unfold MsgQueueFacts.released_by.
  - rewrite Ha, Ht, Nat.sub_diag. auto.
  - right. exists t. rewrite Ha, Ht. replace (S (tokrets s) - tokrets s) with 1 by lia. cbn.
    repeat split; auto. unfold in_call. rewrite Hr. apply in_callL_upd_idle.
  - rewrite Ht, Nat.sub_diag. destruct (actor l); auto.
Qed.

(* the invariant: identities logged so far are calls already begun, and strictly earlier ones for a receiver that is
   inside a call now *)
Definition InvK (pre : list label) (s : st) (ids : list (nat * nat)) : Prop :=
  (forall t k, In (t, k) ids -> k <= ncalls t pre) /\
  (forall t k, in_call s t = true -> In (t, k) ids -> k < ncalls t pre).

Lemma step_K fixed pre s ids l s' : InvK pre s ids -> NoDup ids -> step fixed s l = Some s' ->
  let new := map (fun e => (snd e, ncalls (snd e) (pre ++ [l]))) (released_by s s' (length pre) l) in
  InvK (pre ++ [l]) s' (ids ++ new) /\ NoDup (ids ++ new).
Proof.
  intros [Ia Ib] ND H new.
  assert (OLDa : forall t k, In (t, k) ids -> k <= ncalls t (pre ++ [l])).
  { intros t k Hin. rewrite ncalls_snoc. specialize (Ia t k Hin). lia. }
  assert (OLDb : forall t k, in_call s' t = true -> In (t, k) ids -> k < ncalls t (pre ++ [l])).
  { intros t k Hc Hin. rewrite ncalls_snoc. destruct (in_call s t) eqn:E0.
    - specialize (Ib t k E0 Hin). lia.
    - rewrite (enters_call_by_call _ _ _ _ _ H E0 Hc). specialize (Ia t k Hin). lia. }
  subst new. destruct (released_by_idle _ _ _ _ (length pre) H) as [->|(t0 & Ha & -> & Hidle & _)]; cbn [map snd].
  - rewrite app_nil_r. split; [split; auto|exact ND].
  - split; [split|].
    + intros t k Hin. apply in_app_iff in Hin as [Hin|[Hin|[]]]; [auto|]. inversion Hin; subst. lia.
    + intros t k Hc Hin. apply in_app_iff in Hin as [Hin|[Hin|[]]]; [auto|]. inversion Hin; subst. congruence.
    + apply NoDup_snoc; [exact ND|]. intros Hin. rewrite ncalls_snoc in Hin.
      destruct (actor_in_call _ _ _ _ _ H Ha) as [Hc|Hc].
      * rewrite Hc in Hin. specialize (Ia _ _ Hin). lia.
      * specialize (Ib _ _ Hc Hin). lia.
Qed.

Lemma firstn_S_length_app {A} (pre : list A) l rest : firstn (S (length pre)) (pre ++ l :: rest) = pre ++ [l].
Proof. induction pre as [|a pre IH]; cbn; [reflexivity|]. f_equal. exact IH. Qed.

Lemma run_K fixed ls : forall pre s0 ids s log,
  InvK pre s0 ids -> NoDup ids -> run fixed s0 ls = Some s -> token_returns fixed s0 (length pre) ls = Some log ->
  NoDup (ids ++ map (call_of (pre ++ ls)) log).
Proof.
  induction ls as [|l ls IH]; cbn; intros pre s0 ids s log HI ND H Hd.
  - inversion Hd; subst. cbn. now rewrite app_nil_r.
  - destruct (step fixed s0 l) as [s1|] eqn:E; [|discriminate].
    destruct (token_returns fixed s1 (S (length pre)) ls) as [d|] eqn:Ed; [|discriminate]. inversion Hd; subst log.
    destruct (step_K _ _ _ _ _ _ HI ND E) as [HI' ND'].
    assert (Hlen : S (length pre) = length (pre ++ [l])) by (rewrite app_length; cbn; lia).
    rewrite Hlen in Ed. specialize (IH _ _ _ _ _ HI' ND' H Ed).
    replace ((pre ++ [l]) ++ ls) with (pre ++ l :: ls) in IH by (rewrite <- app_assoc; reflexivity). rewrite map_app, app_assoc.
    replace (map (call_of (pre ++ l :: ls)) (released_by s0 s1 (length pre) l))
      with (map (fun e => (snd e, ncalls (snd e) (pre ++ [l]))) (released_by s0 s1 (length pre) l)); [exact IH|].
    destruct (released_by_idle _ _ _ _ (length pre) E) as [->|(t0 & _ & -> & _)]; [reflexivity|].
    cbn [map]. unfold call_of. cbn [fst snd]. now rewrite firstn_S_length_app.
Qed.

Theorem token_returns_distinct_calls fixed n ls s log :
  run fixed (init n) ls = Some s -> token_returns fixed (init n) 0 ls = Some log ->
  NoDup (map (call_of ls) log).
Proof.
  intros H Hd. apply (run_K fixed ls [] (init n) [] s log); auto.
  - split; intros t k; cbn; tauto.
  - constructor.
Qed.

(* the entries of the token log are steps of the recorded receiver *)
Lemma token_returns_actor fixed ls : forall s0 i log, token_returns fixed s0 i ls = Some log ->
  Forall (fun e => i <= fst e /\ exists l, nth_error ls (fst e - i) = Some l /\ actor l = Some (snd e)) log.
Proof.
  induction ls as [|l ls IH]; cbn; intros s0 i log Hd.
  - inversion Hd; subst. constructor.
  - destruct (step fixed s0 l) as [s1|] eqn:E; [|discriminate].
    destruct (token_returns fixed s1 (S i) ls) as [d|] eqn:Ed; [|discriminate]. inversion Hd; subst log.
    apply Forall_app. split.
    + destruct (released_by_idle _ _ _ _ i E) as [->|(t0 & Ha & -> & _)]; constructor; [|constructor].
      cbn. split; [lia|]. rewrite Nat.sub_diag. exists l. auto.
    + eapply Forall_impl; [|exact (IH _ _ _ Ed)]. cbn. intros e (Hle & l' & Hn & Ha). split; [lia|].
      exists l'. split; [|exact Ha]. replace (fst e - i) with (S (fst e - S i)) by lia. exact Hn.
Qed.

Theorem token_returns_sound fixed n ls log :
  token_returns fixed (init n) 0 ls = Some log ->
  Forall (fun e => exists l, nth_error ls (fst e) = Some l /\ actor l = Some (snd e)) log.
Proof.
  intros Hd. eapply Forall_impl; [|exact (token_returns_actor _ _ _ _ _ Hd)]. cbn.
  intros e (_ & l & Hn & Ha). rewrite Nat.sub_0_r in Hn. eauto.
Qed.

End Calls.
