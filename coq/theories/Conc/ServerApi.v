(* Conc/ServerApi.v — MODEL file (definitions only, computable, extracted to OCaml).
   The glue between the test harness `su` (one thread drives the real `Server` of src/lib.rs with a script, each call
   running to its return before the next operation starts) and the queue model Conc/MsgQueue.v as instantiated in
   Conc/Instances.v (`mq_step`, MS = 10, EPS = 0), `fixed = true`, ONE receiver (index 0), Idle between operations:
     u    unblock()               step (Unblock None)
     q k  a request k arrives     step (Push k None)
     y    try_recv()              step (CallTry 0); the value appended to `got`, or N when `got` did not grow
     t T  recv_timeout(T)         step (CallTimed 0 T); receiver Idle again: returned at once (value, or N "fast" when a
                                  token was consumed); otherwise blocked: Tick T, Timeout 0, Resume 0 until Idle: N "full"
     r    recv() / incoming_requests().next()
                                  step (CallPop 0); Idle again: value, or E (released by a token); otherwise blocked: the
                                  harness reports "hang" and releases the call with an unblock of its own:
                                  Unblock (Some 0), Resume 0 until Idle
   `None` = a model step was disabled, or the Resume loop ran out of fuel, or the receiver is not Idle at the end: never
   happens (Conc/ServerApiFacts.v, Props/C17Api.v).  T is a number of clock units of the model; no unit is baked in.
   Second part: the FIFO reading of the property as a tiny specification (`su_spec`). *)
From Coq Require Import List Arith Bool.
Import ListNotations.
From TH Require Import Conc.MsgQueue.
From TH Require Conc.Instances.

Inductive su_op := SuU | SuQ (k : nat) | SuT (T : nat) | SuY | SuR.
Inductive su_res := SrVal (k : nat) | SrNone (fast : bool)   (* y: SrNone true; t: fast or by time *)
                  | SrErr | SrHang.

Definition su_st : Type := MsgQueue.st nat.
Definition su_init : su_st := Instances.mq_init 1.
Definition su_mstep (s : su_st) (l : MsgQueue.label nat) : option su_st := Instances.mq_step true s l.

(* the one receiver is between two calls *)
Definition su_idle (s : su_st) : bool :=
  match nth_error (rs nat s) 0 with Some Idle => true | _ => false end.

(* the value that was appended to `got` between s and s', if `got` grew *)
Definition su_new (s s' : su_st) : option nat :=
  let g := length (got nat s) in
  let g' := length (got nat s') in
  if g <? g' then nth_error (got nat s') (g' - 1) else None.

(* how a call label ended *)
Inductive su_out := OVal (k : nat) | OTok | OBlocked.
Definition su_out_of (s s' : su_st) : su_out := match su_new s s' with Some k => OVal k | None => OTok end.

(* runs a call label: returned (value / empty-handed) when the receiver is Idle again, blocked otherwise *)
Definition su_call (s : su_st) (l : MsgQueue.label nat) : option (su_st * su_out) :=
  match su_mstep s l with
  | Some s' => Some (s', if su_idle s' then su_out_of s s' else OBlocked)
  | None => None
  end.

(* the blocked call resumes until it has returned (at most `fuel` Resume steps) *)
Fixpoint su_resume (fuel : nat) (s : su_st) : option su_st :=
  if su_idle s then Some s else
  match fuel with
  | 0 => None
  | S f => match su_mstep s (Resume nat 0) with Some s' => su_resume f s' | None => None end
  end.
Definition su_finish (fuel : nat) (s : su_st) : option (su_st * su_out) :=
  match su_resume fuel s with Some s' => Some (s', su_out_of s s') | None => None end.

Definition su_step_f (fuel : nat) (s : su_st) (o : su_op) : option (su_st * option su_res) :=
  match o with
  | SuU => match su_mstep s (Unblock nat None) with Some s' => Some (s', None) | None => None end
  | SuQ k => match su_mstep s (Push nat k None) with Some s' => Some (s', None) | None => None end
  | SuY => match su_mstep s (CallTry nat 0) with
           | Some s' => Some (s', Some (match su_new s s' with Some k => SrVal k | None => SrNone true end))
           | None => None end
  | SuT T => match su_call s (CallTimed nat 0 T) with
             | Some (s', OVal k) => Some (s', Some (SrVal k))
             | Some (s', OTok) => Some (s', Some (SrNone true))
             | Some (s1, OBlocked) =>
                 match su_mstep s1 (Tick nat T) with
                 | Some s2 => match su_mstep s2 (Timeout nat 0) with
                              | Some s3 => match su_finish fuel s3 with
                                           | Some (s', OVal k) => Some (s', Some (SrVal k))
                                           | Some (s', _) => Some (s', Some (SrNone false))
                                           | None => None end
                              | None => None end
                 | None => None end
             | None => None end
  | SuR => match su_call s (CallPop nat 0) with
           | Some (s', OVal k) => Some (s', Some (SrVal k))
           | Some (s', OTok) => Some (s', Some SrErr)
           | Some (s1, OBlocked) =>
               match su_mstep s1 (Unblock nat (Some 0)) with
               | Some s2 => match su_finish fuel s2 with
                            | Some (s', _) => Some (s', Some SrHang)
                            | None => None end
               | None => None end
           | None => None end
  end.

(* the final state and the results in order *)
Fixpoint su_run_from (fuel : nat) (s : su_st) (ops : list su_op) : option (su_st * list su_res) :=
  match ops with
  | [] => Some (s, [])
  | o :: ops' =>
      match su_step_f fuel s o with
      | Some (s', r) =>
          match su_run_from fuel s' ops' with
          | Some (s'', res) => Some (s'', match r with Some x => x :: res | None => res end)
          | None => None end
      | None => None end
  end.
Definition su_run_f (fuel : nat) (ops : list su_op) : option (list su_res) :=
  match su_run_from fuel su_init ops with
  | Some (s, res) => if su_idle s then Some res else None
  | None => None
  end.

(* the harness's glue gives the Resume loop 4 rounds; one is enough (c17_api_resume_bound) *)
Definition su_fuel : nat := 4.
Definition su_step (s : su_st) (o : su_op) : option (su_st * option su_res) := su_step_f su_fuel s o.
Definition su_run (ops : list su_op) : option (list su_res) := su_run_f su_fuel ops.

(* ---------- the FIFO reading: `Some k` = request k, `None` = unblock token ---------- *)
Definition su_spec_step (fifo : list (option nat)) (o : su_op) : list (option nat) * option su_res :=
  match o with
  | SuU => (fifo ++ [None], None)
  | SuQ k => (fifo ++ [Some k], None)
  | SuY => match fifo with
           | Some k :: f => (f, Some (SrVal k))
           | None :: f => (f, Some (SrNone true))
           | [] => ([], Some (SrNone true)) end
  | SuT _ => match fifo with
             | Some k :: f => (f, Some (SrVal k))
             | None :: f => (f, Some (SrNone true))
             | [] => ([], Some (SrNone false)) end
  | SuR => match fifo with
           | Some k :: f => (f, Some (SrVal k))
           | None :: f => (f, Some SrErr)
           | [] => ([], Some SrHang) end
  end.

(* the final fifo and the results in order *)
Fixpoint su_spec_from (fifo : list (option nat)) (ops : list su_op) : list (option nat) * list su_res :=
  match ops with
  | [] => (fifo, [])
  | o :: ops' =>
      let (fifo', r) := su_spec_step fifo o in
      let (fifo'', res) := su_spec_from fifo' ops' in
      (fifo'', match r with Some x => x :: res | None => res end)
  end.
Definition su_spec (ops : list su_op) : list su_res := snd (su_spec_from [] ops).
