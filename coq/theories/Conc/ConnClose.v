(* Conc/ConnClose.v — WHEN the server closes its sending side of a connection (C12, closing clause).
   Conc/SeqWriter.v (the chain of response writers of src/util/sequential.rs) wrapped with the ownership of the
   shared sink: `ClientConnection::new` (src/client.rs:51-69) builds
       sink: SequentialWriterBuilder::new(BufWriter::with_capacity(1024, write_socket))
   `SequentialWriterBuilder { writer: Arc<Mutex<W>>, .. }` (sequential.rs:43-49) holds one handle of the Arc and every
   `SequentialWriter` a clone of it (sequential.rs:107). The Mutex<BufWriter<RefinedTcpStream>> is dropped exactly when
   the LAST handle is released: BufWriter::drop flushes the buffer, then the field `inner : RefinedTcpStream` is
   dropped, whose `impl Drop` (src/util/refined_tcp_stream.rs:166-176) calls `shutdown(Shutdown::Write)` for the half
   created with `close_write: true` (refined_tcp_stream.rs:146-150): the client sees end-of-stream.

   State  : sw            the state of Conc/SeqWriter.v (writers with turn/dropped/sent; `stream` = all bytes handed
                          to the BufWriter so far)
            builder_alive the ClientConnection (field `sink`) still exists: the connection thread is still in
                          `for rq in client` (src/lib.rs:376-383)
            wr_closed     shutdown(Write) has happened
            buffered/wire the contents of the BufWriter's buffer / the bytes given to the socket
   handles s = Arc::strong_count = (1 if builder_alive) + number of undropped writers.

   Labels <-> code:
     CL New          SequentialWriterBuilder::next (client.rs:140, 192, 202, 211, 220): only the connection thread owns
                     the builder, hence enabled only while builder_alive
     CL (Write i d)  SequentialWriter::write (sequential.rs:127-135), then BufWriter::write on the shared sink
                     (std: fewer bytes than the spare room are copied into the buffer; otherwise the buffer is flushed
                      first unless d fits exactly, and d goes straight to the socket if length d >= capacity, else
                      into the buffer) = bw_write
     CL (Flush i)    SequentialWriter::flush (sequential.rs:137-145), BufWriter::flush: buffer -> socket
     CL (DropW i)    Drop for SequentialWriter (sequential.rs:167-174) followed by the drop of its fields, among them
                     its Arc handle; if it was the last one: BufWriter::drop (flush), shutdown(Write)   (= release)
     BuilderDrop     the connection thread ends: the iterator ClientConnection::next returned None (client closed or
                     timed out: client.rs:184, 216; a last request was seen: no_more_requests; a refusal:
                     client.rs:197, 205, 227) and `client` is dropped, with it `sink` and its Arc handle; if it was
                     the last one: flush, shutdown(Write)
   Abstractions: DropW i is atomic (in the code the successor is released by `on_finish.send` a moment before the
   Arc handle goes; the close still happens at the last release whichever writer performs it); Write i d transfers
   all of d (a short write is the label with the accepted prefix); I/O errors are not modelled.
   `cap` is the BufWriter capacity (1024 in the code); every theorem holds for every capacity.
   Model definitions first, then the proofs (all for arbitrary label sequences; fixed = true is the repaired tree). *)
From Coq Require Import List Arith Bool Lia.
Import ListNotations.
From TH Require Import Conc.SeqWriter Conc.SeqWriterFacts.

Local Arguments turn {byte}.
Local Arguments dropped {byte}.
Local Arguments sent {byte}.
Local Arguments ws {byte}.
Local Arguments stream {byte}.
Local Arguments New {byte}.
Local Arguments Write {byte}.
Local Arguments Flush {byte}.
Local Arguments DropW {byte}.
Local Arguments can_go {byte}.
Local Arguments step {byte}.
Local Arguments run {byte}.
Local Arguments init {byte}.
Local Arguments Inv {byte}.
Local Arguments least_undropped {byte}.
Local Arguments drop_from {byte}.
Local Arguments arrival {byte}.
Local Arguments answer {byte}.
Local Arguments lab {byte}.
Local Arguments data {byte}.
Local Arguments is_new {byte}.
Local Arguments label_index {byte}.
Local Arguments wdata {byte}.
Local Arguments reachable {byte}.

Section ConnClose.
Variable byte : Type.
Variable cap : nat.
Notation bytes := (list byte).
Notation wr := (SeqWriter.wr byte).
Notation st := (SeqWriter.st byte).
Notation label := (SeqWriter.label byte).

(* ================= model ================= *)

Record cst := { sw : st; builder_alive : bool; wr_closed : bool; buffered : bytes; wire : bytes }.

Inductive clabel := CL (l : label) | BuilderDrop.

(* BufWriter::write / write_cold; result = (new buffer, new wire) *)
Definition bw_write (buf w d : bytes) : bytes * bytes :=
  let spare := cap - length buf in
  if length d <? spare then (buf ++ d, w)
  else
    let bw1 := if spare <? length d then ([], w ++ buf) else (buf, w) in
    if cap <=? length d then (fst bw1, snd bw1 ++ d) else (fst bw1 ++ d, snd bw1).

Definition undropped (l : list wr) : nat := length (filter (fun w => negb (dropped w)) l).

(* Arc::strong_count of the shared sink *)
Definition handles (s : cst) : nat := (if builder_alive s then 1 else 0) + undropped (ws (sw s)).

(* s = the state just after a handle was given up: the last one takes the BufWriter and the socket half with it *)
Definition release (s : cst) : cst :=
  if handles s =? 0 then
    {| sw := sw s; builder_alive := builder_alive s; wr_closed := true; buffered := []; wire := wire s ++ buffered s |}
  else s.

Definition with_sw (s : cst) (t : st) : cst :=
  {| sw := t; builder_alive := builder_alive s; wr_closed := wr_closed s; buffered := buffered s; wire := wire s |}.

Definition cstep (fixed : bool) (s : cst) (l : clabel) : option cst :=
  match l with
  | BuilderDrop =>
      if builder_alive s then
        Some (release {| sw := sw s; builder_alive := false; wr_closed := wr_closed s;
                         buffered := buffered s; wire := wire s |})
      else None
  | CL l0 =>
      match l0 with
      | New =>
          if builder_alive s then option_map (with_sw s) (step fixed (sw s) l0) else None
      | Write i d =>
          match step fixed (sw s) l0 with
          | Some t => let bw := bw_write (buffered s) (wire s) d in
                      Some {| sw := t; builder_alive := builder_alive s; wr_closed := wr_closed s;
                              buffered := fst bw; wire := snd bw |}
          | None => None end
      | Flush i =>
          match step fixed (sw s) l0 with
          | Some t => Some {| sw := t; builder_alive := builder_alive s; wr_closed := wr_closed s;
                              buffered := []; wire := wire s ++ buffered s |}
          | None => None end
      | DropW i =>
          match step fixed (sw s) l0 with
          | Some t => Some (release (with_sw s t))
          | None => None end
      end
  end.

Fixpoint crun (fixed : bool) (s : cst) (ls : list clabel) : option cst :=
  match ls with [] => Some s | l :: ls' => match cstep fixed s l with Some s' => crun fixed s' ls' | None => None end end.

Definition cinit : cst := {| sw := init; builder_alive := true; wr_closed := false; buffered := []; wire := [] |}.

Definition creachable (s : cst) : Prop := exists ls, crun true cinit ls = Some s.

(* the labels of the underlying writer chain *)
Definition proj (ls : list clabel) : list label :=
  flat_map (fun l => match l with CL l0 => [l0] | BuilderDrop => [] end) ls.

(* ================= proofs ================= *)

(* ---------- the BufWriter ---------- *)

Lemma bw_write_spec buf w d :
  snd (bw_write buf w d) ++ fst (bw_write buf w d) = (w ++ buf) ++ d /\
  (exists x, snd (bw_write buf w d) = w ++ x) /\
  (length buf <= cap -> length (fst (bw_write buf w d)) <= cap).
Proof.
  unfold bw_write.
  destruct (Nat.ltb_spec (length d) (cap - length buf)) as [H1|H1]; cbn [fst snd].
  - split; [now rewrite app_assoc|]. split; [exists []; now rewrite app_nil_r|]. rewrite app_length. lia.
  - destruct (Nat.ltb_spec (cap - length buf) (length d)) as [H2|H2]; cbn [fst snd];
      destruct (Nat.leb_spec cap (length d)) as [H3|H3]; cbn [fst snd].
    + split; [now rewrite app_nil_r|]. split; [exists (buf ++ d); now rewrite app_assoc|]. cbn. lia.
    + split; [reflexivity|]. split; [now exists buf|]. cbn. lia.
    + assert (Hc : buf = [] \/ d = []).
      { destruct buf as [|b buf]; [now left|]. right. cbn [length] in *. destruct d; [reflexivity|]. cbn [length] in *. lia. }
      destruct Hc as [-> | ->].
      * split; [now rewrite !app_nil_r|]. split; [now exists d|]. cbn. lia.
      * split; [now rewrite !app_nil_r|]. split; [exists []; reflexivity|]. auto.
    + split; [now rewrite app_assoc|]. split; [exists []; now rewrite app_nil_r|]. rewrite app_length. lia.
Qed.

(* ---------- counting the undropped writers ---------- *)

Lemma undropped_pos (l : list wr) : forall i w, nth_error l i = Some w -> dropped w = false -> 0 < undropped l.
Proof.
  unfold undropped. induction l as [|a l IH]; intros [|i] w H Hd; cbn in H; try discriminate.
  - inversion H; subst a. cbn. rewrite Hd. cbn. lia.
  - cbn. specialize (IH i w H Hd). destruct (negb (dropped a)); cbn; lia.
Qed.

Lemma undropped_zero_all (l : list wr) : undropped l = 0 ->
  forall i w, nth_error l i = Some w -> dropped w = true.
Proof.
  intros H i w Hi. destruct (dropped w) eqn:Hd; [reflexivity|]. pose proof (undropped_pos l i w Hi Hd). lia.
Qed.

Lemma all_undropped_zero (l : list wr) : (forall i w, nth_error l i = Some w -> dropped w = true) -> undropped l = 0.
Proof.
  unfold undropped. induction l as [|a l IH]; intros H; [reflexivity|]. cbn.
  rewrite (H 0 a eq_refl). cbn. apply IH. intros i w Hi. exact (H (S i) w Hi).
Qed.

Lemma undropped_least (l : list wr) : undropped l = 0 <-> least_undropped l = None.
Proof.
  split; intros H.
  - destruct (least_undropped l) as [k|] eqn:E; [|reflexivity].
    destruct (least_undropped_some byte l k E) as ((w & Hw & Hd) & _).
    pose proof (undropped_pos l k w Hw Hd). lia.
  - apply all_undropped_zero. exact (least_undropped_none byte l H).
Qed.

(* ---------- one step of the chain, seen from the writer it touches ---------- *)

Lemma step_idx fixed (t : st) l t' i : step fixed t l = Some t' -> label_index l = Some i ->
  exists w w', nth_error (ws t) i = Some w /\ dropped w = false /\
    ws t' = upd (ws t) i w' /\ stream t' = stream t ++ wdata i l /\
    dropped w' = (match l with DropW _ => true | _ => false end).
Proof.
  intros H Hl. destruct l as [|j d|j|j]; cbn in Hl; inversion Hl; subst j; cbn in H;
    destruct (nth_error (ws t) i) as [w|] eqn:Ei; try discriminate;
    destruct (dropped w) eqn:Ed; try discriminate.
  - destruct (can_go (ws t) i w); [|discriminate]. inversion H; subst t'. cbn.
    exists w. eexists. rewrite Nat.eqb_refl. repeat split; auto.
  - destruct (can_go (ws t) i w); [|discriminate]. inversion H; subst t'. cbn.
    exists w. eexists. rewrite app_nil_r. repeat split; auto.
  - destruct (negb fixed || can_go (ws t) i w); [|discriminate]. inversion H; subst t'. cbn.
    exists w. eexists. rewrite app_nil_r. repeat split; auto.
Qed.

Lemma step_touched_undropped fixed (t : st) l t' i : step fixed t l = Some t' -> label_index l = Some i ->
  0 < undropped (ws t).
Proof.
  intros H Hl. destruct (step_idx fixed t l t' i H Hl) as (w & _ & Hi & Hd & _). exact (undropped_pos _ i w Hi Hd).
Qed.

Lemma step_not_drop_undropped fixed (t : st) l t' i : step fixed t l = Some t' -> label_index l = Some i ->
  (forall j, l <> DropW j) -> 0 < undropped (ws t').
Proof.
  intros H Hl Hnd. destruct (step_idx fixed t l t' i H Hl) as (w & w' & Hi & _ & Hws & _ & Hd').
  apply (undropped_pos _ i w').
  - rewrite Hws. apply nth_upd_same. apply nth_error_Some. congruence.
  - rewrite Hd'. destruct l; try reflexivity. exfalso. now apply (Hnd i0).
Qed.

(* ---------- release ---------- *)

Lemma release_sw s : sw (release s) = sw s.
Proof. unfold release. now destruct (handles s =? 0). Qed.

Lemma release_alive s : builder_alive (release s) = builder_alive s.
Proof. unfold release. now destruct (handles s =? 0). Qed.

Lemma release_handles s : handles (release s) = handles s.
Proof. unfold handles. now rewrite release_sw, release_alive. Qed.

Lemma release_closed s : wr_closed s = false -> wr_closed (release s) = (handles s =? 0).
Proof. unfold release. intros H. destruct (handles s =? 0); [reflexivity|exact H]. Qed.

Lemma release_total s : wire (release s) ++ buffered (release s) = wire s ++ buffered s.
Proof. unfold release. destruct (handles s =? 0); cbn; [now rewrite app_nil_r|reflexivity]. Qed.

Lemma release_wire s : exists x, wire (release s) = wire s ++ x.
Proof. unfold release. destruct (handles s =? 0); cbn; [now exists (buffered s)|exists []; now rewrite app_nil_r]. Qed.

Lemma release_buffered s : length (buffered s) <= cap -> length (buffered (release s)) <= cap.
Proof. unfold release. destruct (handles s =? 0); cbn; lia. Qed.

Lemma release_closed_empty s : wr_closed s = false -> wr_closed (release s) = true -> buffered (release s) = [].
Proof. unfold release. destruct (handles s =? 0); cbn; [reflexivity|congruence]. Qed.

(* ---------- the invariant of the wrapper ---------- *)

Definition CI (s : cst) : Prop :=
  wr_closed s = (handles s =? 0) /\
  stream (sw s) = wire s ++ buffered s /\
  length (buffered s) <= cap /\
  (wr_closed s = true -> buffered s = []).

Lemma cinit_CI : CI cinit.
Proof. unfold CI, cinit; cbn. repeat split; auto; try lia. Qed.

(* nothing is enabled once the last handle is gone (no invariant of the chain needed, any `fixed`) *)
Lemma no_handles_disabled fixed s l : handles s = 0 -> cstep fixed s l = None.
Proof.
  unfold handles. intros H. destruct (builder_alive s) eqn:Ea; [lia|]. cbn in H.
  destruct l as [l0|]; cbn; rewrite ?Ea; [|reflexivity].
  destruct l0 as [|i d|i|i]; rewrite ?Ea; [reflexivity| | |].
  all: destruct (step fixed (sw s) _) as [t|] eqn:E; [|reflexivity].
  all: pose proof (step_touched_undropped fixed (sw s) _ t i E eq_refl); lia.
Qed.

Lemma cstep_CI fixed s l s' : CI s -> cstep fixed s l = Some s' -> CI s'.
Proof.
  intros (HA & HB & HL & HE) H.
  assert (Hop : wr_closed s = false).
  { destruct (wr_closed s) eqn:Ec; [|reflexivity]. symmetry in HA. apply Nat.eqb_eq in HA.
    rewrite (no_handles_disabled fixed s l HA) in H. discriminate. }
  destruct l as [l0|]; cbn in H.
  - destruct l0 as [|i d|i|i].
    + destruct (builder_alive s) eqn:Ea; [|discriminate]. cbn in H. inversion H; subst s'; clear H.
      unfold CI, with_sw, handles; cbn. rewrite Ea, Hop. repeat split; auto; try discriminate.
    + destruct (step fixed (sw s) (Write i d)) as [t|] eqn:E; [|discriminate]. inversion H; subst s'; clear H.
      pose proof (step_not_drop_undropped fixed (sw s) _ t i E eq_refl ltac:(discriminate)) as Hu.
      destruct (step_idx fixed (sw s) _ t i E eq_refl) as (_ & _ & _ & _ & _ & Hs & _).
      destruct (bw_write_spec (buffered s) (wire s) d) as (Hsum & _ & Hlen).
      unfold CI, handles; cbn [sw builder_alive wr_closed buffered wire]. rewrite Hop. repeat split.
      * symmetry. apply Nat.eqb_neq. lia.
      * rewrite Hs, Hsum, <- HB. cbn. now rewrite Nat.eqb_refl.
      * auto.
      * discriminate.
    + destruct (step fixed (sw s) (Flush i)) as [t|] eqn:E; [|discriminate]. inversion H; subst s'; clear H.
      pose proof (step_not_drop_undropped fixed (sw s) _ t i E eq_refl ltac:(discriminate)) as Hu.
      destruct (step_idx fixed (sw s) _ t i E eq_refl) as (_ & _ & _ & _ & _ & Hs & _).
      unfold CI, handles; cbn [sw builder_alive wr_closed buffered wire]. rewrite Hop. repeat split.
      * symmetry. apply Nat.eqb_neq. lia.
      * rewrite Hs, HB. cbn. now rewrite !app_nil_r.
      * cbn. lia.
    + destruct (step fixed (sw s) (DropW i)) as [t|] eqn:E; [|discriminate]. inversion H; subst s'; clear H.
      destruct (step_idx fixed (sw s) _ t i E eq_refl) as (_ & _ & _ & _ & _ & Hs & _).
      assert (Hop' : wr_closed (with_sw s t) = false) by exact Hop.
      unfold CI. rewrite release_handles, release_sw, release_total. repeat split.
      * exact (release_closed _ Hop').
      * cbn. rewrite Hs, HB. cbn. now rewrite app_nil_r.
      * apply release_buffered. exact HL.
      * exact (release_closed_empty _ Hop').
  - destruct (builder_alive s) eqn:Ea; [|discriminate]. inversion H; subst s'; clear H.
    set (s0 := {| sw := sw s; builder_alive := false; wr_closed := wr_closed s; buffered := buffered s; wire := wire s |}).
    assert (Hop' : wr_closed s0 = false) by exact Hop.
    unfold CI. rewrite release_handles, release_sw, release_total. repeat split.
    + exact (release_closed _ Hop').
    + exact HB.
    + apply release_buffered. exact HL.
    + exact (release_closed_empty _ Hop').
Qed.

Lemma crun_CI fixed ls : forall s s', CI s -> crun fixed s ls = Some s' -> CI s'.
Proof.
  induction ls as [|l ls IH]; cbn; intros s s' HI H; [now inversion H; subst|].
  destruct (cstep fixed s l) as [s1|] eqn:E; [|discriminate]. eapply IH; [eapply cstep_CI; eauto|exact H].
Qed.

Lemma creachable_CI s : creachable s -> CI s.
Proof. intros [ls H]. exact (crun_CI true ls cinit s cinit_CI H). Qed.

(* ---------- runs ---------- *)

Lemma crun_app fixed (l1 l2 : list clabel) : forall s,
  crun fixed s (l1 ++ l2) = match crun fixed s l1 with Some s1 => crun fixed s1 l2 | None => None end.
Proof.
  induction l1 as [|l l1 IH]; intros s; cbn; [reflexivity|].
  destruct (cstep fixed s l) as [s1|]; [apply IH|reflexivity].
Qed.

Lemma creachable_init : creachable cinit.
Proof. exists []. reflexivity. Qed.

Lemma creachable_run s ls s' : creachable s -> crun true s ls = Some s' -> creachable s'.
Proof. intros [l0 H0] H. exists (l0 ++ ls). now rewrite crun_app, H0. Qed.

Lemma creachable_step s l s' : creachable s -> cstep true s l = Some s' -> creachable s'.
Proof. intros Hr H. apply (creachable_run s [l] s' Hr). cbn. now rewrite H. Qed.

(* ---------- the wrapper refines the chain: every theorem about Conc/SeqWriter.v applies to `sw` ---------- *)

Lemma cstep_proj fixed s l s' : cstep fixed s l = Some s' ->
  match l with CL l0 => step fixed (sw s) l0 = Some (sw s') | BuilderDrop => sw s' = sw s end.
Proof.
  intros H. destruct l as [l0|]; cbn in H.
  - destruct l0 as [|i d|i|i].
    + destruct (builder_alive s); [|discriminate]. cbn in *. now inversion H.
    + destruct (step fixed (sw s) (Write i d)) as [t|]; [|discriminate]. now inversion H.
    + destruct (step fixed (sw s) (Flush i)) as [t|]; [|discriminate]. now inversion H.
    + destruct (step fixed (sw s) (DropW i)) as [t|]; [|discriminate]. inversion H. now rewrite release_sw.
  - destruct (builder_alive s); [|discriminate]. inversion H. now rewrite release_sw.
Qed.

Lemma crun_proj fixed ls : forall s s', crun fixed s ls = Some s' -> run fixed (sw s) (proj ls) = Some (sw s').
Proof.
  induction ls as [|l ls IH]; intros s s' H; cbn in H; [now inversion H|].
  destruct (cstep fixed s l) as [s1|] eqn:E; [|discriminate]. pose proof (cstep_proj fixed s l s1 E) as P.
  specialize (IH s1 s' H). destruct l as [l0|]; cbn [proj flat_map app].
  - cbn [run]. fold (proj ls). now rewrite P.
  - fold (proj ls). now rewrite <- P.
Qed.

Lemma creachable_sw s : creachable s -> reachable (sw s).
Proof. intros [ls H]. exists (proj ls). exact (crun_proj true ls cinit s H). Qed.

Lemma creachable_Inv s : creachable s -> Inv (sw s).
Proof. intros H. apply reachable_inv. now apply creachable_sw. Qed.

(* the other direction: the wrapper blocks nothing of the chain except New after the builder is gone *)
Lemma cstep_lift fixed s l t : step fixed (sw s) l = Some t -> is_new l = false \/ builder_alive s = true ->
  exists s', cstep fixed s (CL l) = Some s' /\ sw s' = t /\ builder_alive s' = builder_alive s.
Proof.
  intros H Hn. destruct l as [|i d|i|i]; cbn [cstep].
  - destruct Hn as [Hn|Hn]; [discriminate|]. rewrite Hn, H. cbn. eexists. repeat split. exact Hn.
  - rewrite H. eexists. repeat split.
  - rewrite H. eexists. repeat split.
  - rewrite H. eexists. split; [reflexivity|]. now rewrite release_sw, release_alive.
Qed.

Lemma crun_lift fixed ls : forall s t, Forall (fun l => is_new l = false) ls -> run fixed (sw s) ls = Some t ->
  exists s', crun fixed s (map CL ls) = Some s' /\ sw s' = t /\ builder_alive s' = builder_alive s.
Proof.
  induction ls as [|l ls IH]; intros s t HF H; cbn in H.
  - inversion H. exists s. repeat split.
  - inversion HF as [|? ? Hl HF']; subst. destruct (step fixed (sw s) l) as [t1|] eqn:E; [|discriminate].
    destruct (cstep_lift fixed s l t1 E (or_introl Hl)) as (s1 & Hs1 & Hsw1 & Ha1).
    rewrite <- Hsw1 in H. destruct (IH s1 t HF' H) as (s' & Hr & Hsw & Ha).
    exists s'. cbn [map crun]. rewrite Hs1. repeat split; auto. congruence.
Qed.

(* ---------- 1. closed <-> all handles gone ---------- *)

Lemma handles_zero_iff s : handles s = 0 <->
  builder_alive s = false /\ forall i w, nth_error (ws (sw s)) i = Some w -> dropped w = true.
Proof.
  unfold handles. split.
  - intros H. destruct (builder_alive s); [lia|]. split; [reflexivity|]. apply undropped_zero_all. cbn in H. lia.
  - intros (-> & Hall). now rewrite (all_undropped_zero _ Hall).
Qed.

Lemma closed_iff_all_handles_gone s : creachable s ->
  (wr_closed s = true <-> builder_alive s = false /\ forall i w, nth_error (ws (sw s)) i = Some w -> dropped w = true).
Proof.
  intros Hr. destruct (creachable_CI s Hr) as (HA & _). rewrite HA, Nat.eqb_eq. apply handles_zero_iff.
Qed.

Lemma closed_iff_no_handles s : creachable s -> (wr_closed s = true <-> handles s = 0).
Proof. intros Hr. destruct (creachable_CI s Hr) as (HA & _). now rewrite HA, Nat.eqb_eq. Qed.

Lemma not_closed_while_unanswered s : creachable s ->
  builder_alive s = true \/ (exists i w, nth_error (ws (sw s)) i = Some w /\ dropped w = false) ->
  wr_closed s = false.
Proof.
  intros Hr H. destruct (wr_closed s) eqn:Ec; [|reflexivity].
  apply (closed_iff_all_handles_gone s Hr) in Ec as (Ha & Hall).
  destruct H as [H|(i & w & Hi & Hd)]; [congruence|]. rewrite (Hall i w Hi) in Hd. discriminate.
Qed.

(* ---------- 2. the close is final ---------- *)

Lemma close_is_final s l : creachable s -> wr_closed s = true -> cstep true s l = None.
Proof. intros Hr Hc. apply no_handles_disabled. now apply closed_iff_no_handles. Qed.

(* hence along a run the close can only be the very last thing that happens *)
Lemma closed_only_at_end s l1 l l2 s1 s' : creachable s ->
  crun true s l1 = Some s1 -> crun true s (l1 ++ l :: l2) = Some s' -> wr_closed s1 = false.
Proof.
  intros Hr H1 H. rewrite crun_app, H1 in H. cbn in H.
  destruct (wr_closed s1) eqn:Ec; [|reflexivity].
  rewrite (close_is_final s1 l (creachable_run s l1 s1 Hr H1) Ec) in H. discriminate.
Qed.

(* ---------- 3. what is on the wire ---------- *)

Lemma wire_buffer_split s : creachable s ->
  wire s ++ buffered s = concat (map sent (ws (sw s))) /\ length (buffered s) <= cap.
Proof.
  intros Hr. destruct (creachable_CI s Hr) as (_ & HB & HL & _).
  destruct (creachable_Inv s Hr) as (Hs & _). split; [congruence|exact HL].
Qed.

Lemma everything_on_the_wire_at_close s : creachable s -> wr_closed s = true ->
  wire s = concat (map sent (ws (sw s))) /\ buffered s = [] /\ wire s = stream (sw s).
Proof.
  intros Hr Hc. destruct (creachable_CI s Hr) as (_ & HB & _ & HE).
  destruct (creachable_Inv s Hr) as (Hs & _). specialize (HE Hc). rewrite HE, app_nil_r in HB.
  repeat split; congruence.
Qed.

(* the closing step itself: it puts exactly the rest of the buffer on the wire *)
Lemma closing_step s l s' : creachable s -> cstep true s l = Some s' -> wr_closed s = false -> wr_closed s' = true ->
  (l = BuilderDrop \/ exists i, l = CL (DropW i)) /\
  wire s' = wire s ++ buffered s /\ wire s' = concat (map sent (ws (sw s'))) /\ stream (sw s') = stream (sw s).
Proof.
  intros Hr H Ho Hc.
  destruct (everything_on_the_wire_at_close s' (creachable_step s l s' Hr H) Hc) as (Hw & _ & Hws).
  destruct (creachable_CI s Hr) as (_ & HB & _).
  assert (Hl : l = BuilderDrop \/ exists i, l = CL (DropW i)).
  { destruct l as [[|i d|i|i]|]; eauto; exfalso; cbn [cstep] in H.
    - destruct (builder_alive s); [|discriminate]. cbn in H. inversion H; subst s'. cbn in Hc. congruence.
    - destruct (step true (sw s) (Write i d)); [|discriminate]. inversion H; subst s'. cbn in Hc. congruence.
    - destruct (step true (sw s) (Flush i)); [|discriminate]. inversion H; subst s'. cbn in Hc. congruence. }
  assert (Hst : stream (sw s') = stream (sw s)).
  { pose proof (cstep_proj true s l s' H) as P. destruct Hl as [->|(i & ->)]; [now rewrite P|].
    destruct (step_idx true (sw s) _ (sw s') i P eq_refl) as (_ & _ & _ & _ & _ & Hs & _). cbn in Hs.
    now rewrite app_nil_r in Hs. }
  repeat split; auto. congruence.
Qed.

Lemma flush_puts_on_wire s i s' : creachable s -> cstep true s (CL (Flush i)) = Some s' ->
  wire s' = stream (sw s') /\ buffered s' = [] /\ wire s' = concat (map sent (ws (sw s'))).
Proof.
  intros Hr H. pose proof (creachable_step s _ s' Hr H) as Hr'.
  destruct (creachable_CI s' Hr') as (_ & HB & _). destruct (creachable_Inv s' Hr') as (Hs & _).
  cbn [cstep] in H. destruct (step true (sw s) (Flush i)) as [t|]; [|discriminate]. inversion H; subst s'. cbn in *.
  rewrite app_nil_r in HB. repeat split; congruence.
Qed.

(* bytes given to the socket are never taken back *)
Lemma wire_grows fixed s l s' : cstep fixed s l = Some s' -> exists x, wire s' = wire s ++ x.
Proof.
  intros H. destruct l as [[|i d|i|i]|]; cbn [cstep] in H.
  - destruct (builder_alive s); [|discriminate]. destruct (step fixed (sw s) New); [|discriminate].
    inversion H. exists []. cbn. now rewrite app_nil_r.
  - destruct (step fixed (sw s) (Write i d)); [|discriminate]. inversion H. cbn.
    now destruct (bw_write_spec (buffered s) (wire s) d) as (_ & Hx & _).
  - destruct (step fixed (sw s) (Flush i)); [|discriminate]. inversion H. cbn. now exists (buffered s).
  - destruct (step fixed (sw s) (DropW i)) as [t|]; [|discriminate]. inversion H. exact (release_wire (with_sw s t)).
  - destruct (builder_alive s); [|discriminate]. inversion H.
    exact (release_wire {| sw := sw s; builder_alive := false; wr_closed := wr_closed s;
                           buffered := buffered s; wire := wire s |}).
Qed.

(* ---------- 4. the server does close ---------- *)

(* any continuation of the chain without New that leaves every writer dropped, performed after the connection
   thread has ended, runs in the wrapper as well and ends with the close, everything being on the wire *)
Lemma lift_to_close s ls t : creachable s -> builder_alive s = false ->
  Forall (fun l => is_new l = false) ls -> run true (sw s) ls = Some t -> least_undropped (ws t) = None ->
  exists s', crun true s (map CL ls) = Some s' /\ sw s' = t /\ wr_closed s' = true /\ wire s' = stream t.
Proof.
  intros Hr Ha HF H Hn. destruct (crun_lift true ls s t HF H) as (s' & Hrun & Hsw & Ha').
  pose proof (creachable_run s _ s' Hr Hrun) as Hr'.
  assert (Hc : wr_closed s' = true).
  { apply (closed_iff_no_handles s' Hr'). unfold handles. rewrite Ha', Ha, Hsw. cbn. now apply undropped_least. }
  exists s'. repeat split; auto.
  destruct (everything_on_the_wire_at_close s' Hr' Hc) as (_ & _ & Hw). now rewrite Hw, Hsw.
Qed.

Lemma arrival_no_new (opss : list (list (op byte))) : forall k, Forall (fun l => is_new l = false) (arrival k opss).
Proof.
  induction opss as [|ops r IH]; intros k; cbn [SeqWriterFacts.arrival]; [constructor|].
  apply Forall_app. split; [|apply IH]. unfold SeqWriterFacts.answer. apply Forall_app. split.
  - apply Forall_forall. intros l Hl. apply in_map_iff in Hl as (o & <- & _). now destruct o.
  - constructor; [reflexivity|constructor].
Qed.

(* the schedule "drop what is left, in index order" *)
Definition drop_rest (s : cst) : list clabel :=
  match least_undropped (ws (sw s)) with
  | Some k => map CL (drop_from k (length (ws (sw s)) - k))
  | None => []
  end.

Lemma close_eventually s : creachable s -> builder_alive s = false ->
  exists s', crun true s (drop_rest s) = Some s' /\ wr_closed s' = true /\
    wire s' = stream (sw s) /\ length (ws (sw s')) = length (ws (sw s)).
Proof.
  intros Hr Ha. unfold drop_rest. destruct (least_undropped (ws (sw s))) as [k|] eqn:El.
  - destruct (drop_all_runs byte (sw s) k (creachable_Inv s Hr) El) as (t & Hrun & Hstr & Hlen & Hn).
    destruct (lift_to_close s (drop_from k (length (ws (sw s)) - k)) t Hr Ha) as (s' & Hrun' & Hsw & Hc & Hw); auto.
    { rewrite drop_from_arrival. apply arrival_no_new. }
    exists s'. repeat split; auto; congruence.
  - exists s. split; [reflexivity|].
    assert (Hc : wr_closed s = true).
    { apply (closed_iff_no_handles s Hr). unfold handles. rewrite Ha. cbn. now apply undropped_least. }
    destruct (everything_on_the_wire_at_close s Hr Hc) as (_ & _ & Hw). auto.
Qed.

(* the same when the remaining requests are answered (arbitrary writes and flushes, then the drop) in arrival
   order after the client's half-close ended the connection thread: all the answers reach the socket, then the close *)
Lemma answered_then_closed s k (opss : list (list (op byte))) : creachable s -> builder_alive s = false ->
  least_undropped (ws (sw s)) = Some k -> length (ws (sw s)) = k + length opss ->
  exists s', crun true s (map CL (arrival k opss)) = Some s' /\ wr_closed s' = true /\
    wire s' = stream (sw s) ++ concat (map data opss) /\
    wire s' = concat (map sent (ws (sw s'))) /\
    (forall s1 l1 l l2, map CL (arrival k opss) = l1 ++ l :: l2 -> crun true s l1 = Some s1 -> wr_closed s1 = false).
Proof.
  intros Hr Ha El Hlen.
  destruct (arrival_order_no_deadlock byte (sw s) k opss (creachable_Inv s Hr) El Hlen) as (t & Hrun & Hstr & _ & Hn).
  destruct (lift_to_close s _ t Hr Ha (arrival_no_new opss k) Hrun Hn) as (s' & Hrun' & Hsw & Hc & Hw).
  exists s'. split; [exact Hrun'|]. split; [exact Hc|]. split; [congruence|]. split.
  - exact (proj1 (everything_on_the_wire_at_close s' (creachable_run s _ s' Hr Hrun') Hc)).
  - intros s1 l1 l l2 Hsplit H1. rewrite Hsplit in Hrun'. exact (closed_only_at_end s l1 l l2 s1 s' Hr H1 Hrun').
Qed.

(* while the builder is gone but a request is unanswered, its writer still works: the least undropped writer can
   write, flush and be dropped *)
Lemma half_closed_still_answerable s k : creachable s -> least_undropped (ws (sw s)) = Some k ->
  wr_closed s = false /\
  (forall d, exists s', cstep true s (CL (Write k d)) = Some s') /\
  (exists s', cstep true s (CL (Flush k)) = Some s') /\
  (exists s', cstep true s (CL (DropW k)) = Some s').
Proof.
  intros Hr El. destruct (least_undropped_some byte _ _ El) as ((w & Hw & Hd) & _).
  split; [apply (not_closed_while_unanswered s Hr); right; eauto|].
  destruct (least_undropped_enabled byte (sw s) k El) as (HW & (tf & HF) & (td & HD)).
  repeat split.
  - intros d. destruct (HW d) as (t & Ht). destruct (cstep_lift true s _ t Ht (or_introl eq_refl)) as (s' & H & _). eauto.
  - destruct (cstep_lift true s _ tf HF (or_introl eq_refl)) as (s' & H & _). eauto.
  - destruct (cstep_lift true s _ td HD (or_introl eq_refl)) as (s' & H & _). eauto.
Qed.

(* and the connection thread can always end *)
Lemma builder_drop_enabled fixed s : builder_alive s = true -> exists s', cstep fixed s BuilderDrop = Some s' /\
  builder_alive s' = false /\ sw s' = sw s.
Proof. intros Ha. cbn. rewrite Ha. eexists. split; [reflexivity|]. now rewrite release_alive, release_sw. Qed.

End ConnClose.

(* what a client can observe after each label of a schedule: (end-of-stream seen, bytes on the socket), plus the
   contents of the server's buffer; the trace stops where a label is not enabled (used by the Examples) *)
Section Trace.
Variable byte : Type.
Variable cap : nat.
Fixpoint ctrace (fixed : bool) (s : cst byte) (ls : list (clabel byte)) : list (bool * list byte * list byte) :=
  match ls with
  | [] => []
  | l :: ls' => match cstep byte cap fixed s l with
                | Some s' => (wr_closed byte s', wire byte s', buffered byte s') :: ctrace fixed s' ls'
                | None => []
                end
  end.
End Trace.
