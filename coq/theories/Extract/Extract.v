(* Extract/Extract.v — extraction of the executable model to OCaml. ExtrOcamlBasic only:
   bool, option, unit, list, prod, sumbool, sumor map to the OCaml types of the same name;
   ascii stays the 8-boolean constructor, N/Z/positive/nat stay inductive. No Extract Constant,
   no Extract Inductive of our own. *)
From TH Require Import Base.Bytes Http.Response Http.ClientSpec Http.C05Spec Http.Oracles
                       Http.Request Http.Body Http.Serve Http.Ahead Conc.Instances Conc.ServerApi Conc.SeqWriterCheck.
From Coq Require Import Extraction ExtrOcamlBasic.
Extraction Language OCaml.
Extraction "../ocaml/model.ml"
  raw_print raw_print_with build new_response from_data from_string empty_response
  choose_te chunked_threshold
  parse_response parse_stream te_entries ref_choice oracle_c05 oracle_c19 oracle_c04
  serve fixed asfound read_head framing last_request
  mq_init mq_step tp_init tp_step sw_init sw_step ahead ahead_two sd_init sd_step cc_init cc_step cc_closed mq_step_replay tp_step_replay
  su_op su_res su_run su_spec sw_system_ok_b.
