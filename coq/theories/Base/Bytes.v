(* Base/Bytes.v — byte strings and the std string helpers the crate relies on.
   MODEL file: definitions only (proofs live in Base/BytesFacts.v), so that the model still
   builds and extracts when a proof is broken. *)
From Coq Require Export List Ascii String NArith Bool.
Export ListNotations.
Open Scope char_scope.

Definition bytes := list ascii.
Definition s (x : string) : bytes := list_ascii_of_string x.
Definition code (c : ascii) : N := N_of_ascii c.

Definition CR : ascii := "013".
Definition LF : ascii := "010".
Definition SP : ascii := " ".
Definition HT : ascii := "009".
Definition CRLF : bytes := [CR; LF].

(* char::is_whitespace restricted to ASCII = U+0009..U+000D, U+0020 (str::trim uses the same set;
   non-ASCII bytes never reach the places where it is called: lines are checked to be ASCII first) *)
Definition is_ws (c : ascii) : bool :=
  let n := code c in ((9 <=? n) && (n <=? 13) || (n =? 32))%N.
Definition is_ascii (c : ascii) : bool := (code c <? 128)%N.
Definition is_digit (c : ascii) : bool := let n := code c in ((48 <=? n) && (n <=? 57))%N.

(* List.rev is quadratic; the model uses the linear one (frev_rev : frev x = rev x) *)
Definition frev {A} (x : list A) : list A := rev_append x [].

Fixpoint trim_start (x : bytes) : bytes :=
  match x with c :: t => if is_ws c then trim_start t else x | [] => [] end.
Definition trim_end (x : bytes) : bytes := frev (trim_start (frev x)).
Definition trim (x : bytes) : bytes := trim_end (trim_start x).

Definition to_lower (c : ascii) : ascii :=
  let n := code c in if ((65 <=? n) && (n <=? 90))%N then ascii_of_N (n + 32) else c.
Definition lower (x : bytes) : bytes := map to_lower x.

Fixpoint beq (a b : bytes) : bool :=
  match a, b with
  | [], [] => true
  | x :: a', y :: b' => Ascii.eqb x y && beq a' b'
  | _, _ => false
  end.
(* str::eq_ignore_ascii_case *)
Definition eq_ci (a b : bytes) : bool := beq (lower a) (lower b).

Fixpoint starts_with (p x : bytes) : bool :=
  match p, x with
  | [], _ => true
  | a :: p', b :: x' => Ascii.eqb a b && starts_with p' x'
  | _ :: _, [] => false
  end.
(* str::contains(&str) *)
Fixpoint contains_sub (p x : bytes) : bool :=
  starts_with p x || match x with [] => false | _ :: t => contains_sub p t end.

(* str::split(char): always at least one piece *)
Fixpoint split_on_aux (c : ascii) (cur : bytes) (x : bytes) : list bytes :=
  match x with
  | [] => [frev cur]
  | a :: t => if Ascii.eqb a c then frev cur :: split_on_aux c [] t else split_on_aux c (a :: cur) t
  end.
Definition split_on (c : ascii) (x : bytes) : list bytes := split_on_aux c [] x.

(* str::splitn(2, char): the part before the first c, and, if c occurs, the part after it *)
Fixpoint split_first (c : ascii) (x : bytes) : bytes * option bytes :=
  match x with
  | [] => ([], None)
  | a :: t => if Ascii.eqb a c then ([], Some t)
              else let '(h, r) := split_first c t in (a :: h, r)
  end.

(* first CRLF *)
Fixpoint split_crlf (x : bytes) : option (bytes * bytes) :=
  match x with
  | [] => None
  | a :: t =>
      match t with
      | b :: t' => if Ascii.eqb a CR && Ascii.eqb b LF then Some ([], t')
                   else match split_crlf t with Some (l, r) => Some (a :: l, r) | None => None end
      | [] => None
      end
  end.

(* ---- numbers ---- *)
Definition dval (c : ascii) : N := (code c - 48)%N.
Definition digit_char (d : N) : ascii := ascii_of_N (48 + d).
Definition hex_char (d : N) : ascii := if (d <? 10)%N then ascii_of_N (48 + d) else ascii_of_N (87 + d).
Definition dec_val (c : ascii) : option N := if is_digit c then Some (dval c) else None.
Definition hex_val (c : ascii) : option N :=
  let n := code c in
  if is_digit c then Some (n - 48)%N
  else if ((97 <=? n) && (n <=? 102))%N then Some (n - 87)%N
  else if ((65 <=? n) && (n <=? 70))%N then Some (n - 55)%N
  else None.

Section Radix.
  Variable b : N.
  Variable dchar : N -> ascii.
  Variable dvalue : ascii -> option N.
  (* format!("{}") / format!("{:x}") *)
  Fixpoint print_aux (fuel : nat) (n : N) (acc : bytes) : bytes :=
    match fuel with
    | O => acc
    | S f => let acc' := dchar (n mod b)%N :: acc in
             if (n <? b)%N then acc' else print_aux f (n / b)%N acc'
    end.
  Definition print_radix (n : N) : bytes := print_aux (S (N.to_nat (N.log2 n))) n [].
  Fixpoint value_radix (acc : N) (x : bytes) : option N :=
    match x with
    | [] => Some acc
    | c :: t => match dvalue c with Some d => value_radix (acc * b + d)%N t | None => None end
    end.
  (* None on a non-digit, on empty input, or when the value is not below `bound` *)
  Definition parse_radix (bound : N) (x : bytes) : option N :=
    match x with
    | [] => None
    | _ => match value_radix 0%N x with
           | Some v => if (v <? bound)%N then Some v else None
           | None => None
           end
    end.
End Radix.

Definition USIZE_BOUND : N := (2 ^ 64)%N.
Definition print_dec : N -> bytes := print_radix 10 digit_char.
Definition print_hex : N -> bytes := print_radix 16 hex_char.
(* plain digits only *)
Definition parse_dec (x : bytes) : option N := parse_radix 10 dec_val USIZE_BOUND x.
(* usize::from_str: an optional leading '+', then digits; overflow is an error *)
Definition parse_usize (x : bytes) : option N :=
  match x with
  | "+" :: t => parse_dec t
  | _ => parse_dec x
  end.
(* usize::from_str_radix(_, 16): optional '+', hex digits in either case *)
Definition parse_hex_usize (x : bytes) : option N :=
  match x with
  | "+" :: t => parse_radix 16 hex_val USIZE_BOUND t
  | _ => parse_radix 16 hex_val USIZE_BOUND x
  end.

Definition len (x : bytes) : N := N.of_nat (List.length x).

(* keep simplification from unfolding comparisons against string constants into bit matches *)
Arguments s : simpl never.
Arguments eq_ci : simpl never.
Arguments N.add : simpl never.
Arguments N.sub : simpl never.
Arguments N.mul : simpl never.
Arguments N.eqb : simpl never.
Arguments N.ltb : simpl never.
Arguments N.leb : simpl never.
Arguments N.div : simpl never.
Arguments N.modulo : simpl never.
