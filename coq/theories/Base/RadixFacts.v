(* Base/RadixFacts.v — print/parse round trip for decimal and hexadecimal numbers
   (Content-Length, status codes, chunk sizes). *)
From TH Require Import Base.Bytes.
From Coq Require Import Lia ZArith ZifyN ZifyBool.
Open Scope N_scope.
Ltac Zify.zify_post_hook ::= Z.div_mod_to_equations.

Section Radix.
Variable b : N.
Hypothesis b_ge2 : 2 <= b.
Variable digit_char : N -> ascii.
Variable digit_val : ascii -> option N.
Hypothesis val_char : forall d, d < b -> digit_val (digit_char d) = Some d.

Notation print := (print_radix b digit_char).
Notation value := (value_radix b digit_val).
Notation parse := (parse_radix b digit_val).

Lemma value_app acc x t : value acc (x ++ t) = match value acc x with Some v => value v t | None => None end.
Proof. revert acc; induction x as [|c x IH]; intros acc; cbn [app value_radix]; auto. destruct (digit_val c); auto. Qed.

Lemma print_aux_spec : forall fuel n acc, n < b ^ N.of_nat fuel -> (0 < fuel)%nat ->
  exists ds, print_aux b digit_char fuel n acc = ds ++ acc /\ ds <> [] /\
             Forall (fun c => exists d, d < b /\ c = digit_char d) ds /\
             forall a, value a ds = Some (a * b ^ N.of_nat (List.length ds) + n).
Proof.
  induction fuel as [|f IH]; intros n acc Hn Hf; [lia|]. cbn [print_aux].
  destruct (N.ltb_spec n b) as [Hlt|Hge].
  - exists [digit_char (n mod b)]. repeat split; [discriminate| |].
    + constructor; [|constructor]. exists (n mod b). split; [apply N.mod_lt; lia|reflexivity].
    + intros a. cbn [value_radix List.length].
      rewrite N.mod_small by lia. rewrite val_char by lia. change (N.of_nat 1) with 1. now rewrite N.pow_1_r.
  - assert (Hf' : (0 < f)%nat).
    { destruct f; [|lia]. change (N.of_nat 1) with 1 in Hn. rewrite N.pow_1_r in Hn. lia. }
    assert (Hn' : n / b < b ^ N.of_nat f).
    { apply N.div_lt_upper_bound; [lia|]. rewrite Nat2N.inj_succ, N.pow_succ_r' in Hn. lia. }
    destruct (IH (n / b) (digit_char (n mod b) :: acc) Hn' Hf') as (ds & E & Hne & Hall & Hv).
    exists (ds ++ [digit_char (n mod b)]). repeat split.
    + rewrite E. now rewrite <- app_assoc.
    + destruct ds; discriminate.
    + apply Forall_app; split; [exact Hall|]. constructor; [|constructor].
      exists (n mod b). split; [apply N.mod_lt; lia|reflexivity].
    + intros a. rewrite value_app, Hv. cbn [value_radix]. rewrite val_char by (apply N.mod_lt; lia). f_equal.
      rewrite app_length. cbn [List.length]. rewrite Nat.add_1_r, Nat2N.inj_succ, N.pow_succ_r'.
      pose proof (N.div_mod n b ltac:(lia)). nia.
Qed.

Lemma log2_fuel n : n < b ^ N.of_nat (S (N.to_nat (N.log2 n))).
Proof.
  rewrite Nat2N.inj_succ, N2Nat.id. destruct (N.eq_dec n 0) as [->|Hn]; [change (N.succ (N.log2 0)) with 1; rewrite N.pow_1_r; lia|].
  pose proof (N.log2_spec n ltac:(lia)) as [_ Hhi].
  eapply N.lt_le_trans; [exact Hhi|]. apply N.pow_le_mono_l. lia.
Qed.

Lemma print_digits n : print n <> [] /\ Forall (fun c => exists d, d < b /\ c = digit_char d) (print n).
Proof.
  unfold print_radix. destruct (print_aux_spec _ n [] (log2_fuel n) ltac:(lia)) as (ds & E & Hne & Hall & _).
  rewrite E, app_nil_r. auto.
Qed.

Theorem parse_print bound n : n < bound -> parse bound (print n) = Some n.
Proof.
  intros Hb. unfold print_radix. destruct (print_aux_spec _ n [] (log2_fuel n) ltac:(lia)) as (ds & E & Hne & _ & Hv).
  rewrite E, app_nil_r. unfold parse_radix. destruct ds as [|d ds]; [congruence|]. rewrite Hv.
  replace (0 * b ^ N.of_nat (List.length (d :: ds)) + n) with n by lia.
  destruct (N.ltb_spec n bound); [reflexivity|lia].
Qed.

Theorem parse_leading_zero bound z x : digit_val z = Some 0 -> x <> [] -> parse bound (z :: x) = parse bound x.
Proof.
  intros Hz Hs. unfold parse_radix. destruct x; [congruence|]. cbn [value_radix]. rewrite Hz.
  replace (0 * b + 0) with 0 by lia. reflexivity.
Qed.

Theorem parse_sound bound x v : parse bound x = Some v -> v < bound /\ x <> [].
Proof.
  unfold parse_radix. destruct x as [|c x]; [discriminate|]. destruct (value 0 (c :: x)) as [w|]; [|discriminate].
  destruct (N.ltb_spec w bound) as [Hlt|Hge]; intros Heq; inversion Heq; subst. split; [assumption|discriminate].
Qed.
End Radix.

(* ---- instances ---- *)
Lemma code_ascii_of_N n : n < 256 -> code (ascii_of_N n) = n.
Proof. intros H. unfold code. apply N_ascii_embedding. exact H. Qed.

Lemma dec_val_char d : d < 10 -> dec_val (digit_char d) = Some d.
Proof.
  intros H. unfold dec_val, digit_char, is_digit, dval. rewrite code_ascii_of_N by lia.
  destruct (N.leb_spec 48 (48 + d)); [|lia]. destruct (N.leb_spec (48 + d) 57); [|lia]. cbn [andb]. f_equal. lia.
Qed.

Lemma hex_val_char d : d < 16 -> hex_val (hex_char d) = Some d.
Proof.
  intros H. unfold hex_val, hex_char, is_digit. destruct (N.ltb_spec d 10).
  - rewrite code_ascii_of_N by lia.
    destruct (N.leb_spec 48 (48 + d)); [|lia]. destruct (N.leb_spec (48 + d) 57); [|lia]. cbn [andb]. f_equal. lia.
  - rewrite code_ascii_of_N by lia.
    destruct (N.leb_spec 48 (87 + d)); [|lia]. destruct (N.leb_spec (87 + d) 57); [lia|]. cbn [andb].
    destruct (N.leb_spec 97 (87 + d)); [|lia]. destruct (N.leb_spec (87 + d) 102); [|lia]. cbn [andb]. f_equal. lia.
Qed.

Theorem parse_dec_print n : n < USIZE_BOUND -> parse_dec (print_dec n) = Some n.
Proof. apply parse_print; [lia|exact dec_val_char]. Qed.

Theorem parse_hex_print n : n < USIZE_BOUND -> parse_radix 16 hex_val USIZE_BOUND (print_hex n) = Some n.
Proof. apply parse_print; [lia|exact hex_val_char]. Qed.

Lemma is_digit_digit_char d : d < 10 -> is_digit (digit_char d) = true.
Proof.
  intros H. unfold is_digit, digit_char. rewrite code_ascii_of_N by lia.
  destruct (N.leb_spec 48 (48 + d)); [|lia]. destruct (N.leb_spec (48 + d) 57); [|lia]. reflexivity.
Qed.

Lemma print_dec_digits n : print_dec n <> [] /\ forallb is_digit (print_dec n) = true.
Proof.
  destruct (print_digits 10 ltac:(lia) digit_char dec_val dec_val_char n) as [H1 H2]. split; [exact H1|].
  apply forallb_forall. rewrite Forall_forall in H2. intros c Hc. destruct (H2 c Hc) as (d & Hd & ->).
  now apply is_digit_digit_char.
Qed.

(* a hex digit character is a digit or a lower-case letter a..f *)
Definition is_lhex (c : ascii) : bool := is_digit c || ((97 <=? code c) && (code c <=? 102)).
Lemma is_lhex_hex_char d : d < 16 -> is_lhex (hex_char d) = true.
Proof.
  intros H. unfold is_lhex, is_digit, hex_char. destruct (N.ltb_spec d 10).
  - rewrite code_ascii_of_N by lia.
    destruct (N.leb_spec 48 (48 + d)); [|lia]. destruct (N.leb_spec (48 + d) 57); [|lia]. reflexivity.
  - rewrite code_ascii_of_N by lia.
    destruct (N.leb_spec 97 (87 + d)); [|lia]. destruct (N.leb_spec (87 + d) 102); [|lia]. now rewrite orb_true_r.
Qed.
Lemma print_hex_digits n : print_hex n <> [] /\ forallb is_lhex (print_hex n) = true.
Proof.
  destruct (print_digits 16 ltac:(lia) hex_char hex_val hex_val_char n) as [H1 H2]. split; [exact H1|].
  apply forallb_forall. rewrite Forall_forall in H2. intros c Hc. destruct (H2 c Hc) as (d & Hd & ->).
  now apply is_lhex_hex_char.
Qed.
