(* Base/BytesFacts.v — facts about the byte-string helpers. *)
From TH Require Import Base.Bytes.
From Coq Require Import Lia.

Lemma beq_refl a : beq a a = true.
Proof. induction a as [|x t IH]; cbn [beq]; [reflexivity|]. now rewrite Ascii.eqb_refl, IH. Qed.

Lemma beq_eq a b : beq a b = true <-> a = b.
Proof.
  split; [|intros ->; apply beq_refl].
  revert b; induction a as [|x t IH]; intros [|y u]; cbn [beq]; try discriminate; [reflexivity|].
  intros H. apply andb_true_iff in H as [H1 H2]. apply Ascii.eqb_eq in H1. apply IH in H2. congruence.
Qed.

Lemma frev_rev {A} (x : list A) : frev x = rev x.
Proof. unfold frev. now rewrite rev_append_rev, app_nil_r. Qed.
