(* Props/C06.v — C06: every request handed to the application results in exactly one final response
   on its connection (the one passed to respond, the raw writer's bytes, the 101 of upgrade, or an
   automatic 500 for a dropped request); none is answered twice or left unanswered, and a dropped
   request does not hold up the responses that follow it.

   ==== Section 1: one connection, sequential application (serve / serve_loop, cfg = fixed) ====
   Proofs in Http/WireFacts.v (decomposition of the wire) and Http/WireParseFacts.v (the wire read
   back by the independent client parser of ClientSpec.v). Chain-level theorems (task pool, message
   queue, sequential writer) belong to a later section of this file. *)
From TH Require Import Base.Bytes Http.Response Http.Request Http.Body Http.Serve Http.ServeFacts
  Http.ServeStreamFacts Http.ClientSpec Http.C04Facts Http.ServeRefuseFacts Http.C12ManyFacts Http.C18Facts
  Http.WireFacts Http.WireParseFacts.

(* ---- 1. decomposition of the wire, for EVERY input ----
   Vocabulary (Http/WireFacts.v):
     contribution date a d  = [interim 100 Continue, iff the request expects it (expects_of, a
                               function of its headers) and the action asks for the body]
                              ++ [final_bytes of the action: respond / 500 / raw bytes / 101], the
                              latter absent exactly when the handler is stuck reading the body
                              (d_end d = EndBlock: the client neither sends it nor closes);
     seg                    = SReq a d (a delivered request with the action applied to it)
                            | S505 (a head of version 2.0/3.0: answered 505, not delivered)
                            | SRefuse st ver nb (a refused head);
     seg_bytes / segs_bytes = contribution / bytes_505 / error_bytes, concatenated in order;
     seg_reqs               = the (action, request) pairs of the SReq segments, in order;
     used_actions script dflt n = the first n actions: the script, then the default;
     terminal sg            = nothing follows: a refusal, a blocked request, a last_request;
     seg_ok                 = a refusal is 400 (with body) or 417 (without); delivered versions <= 1.1.
   The wire is the concatenation of the segments; the SReq segments are exactly the delivered
   requests, in delivery order, each with its own action; a terminal segment is the last one; and
   the run ends stuck (CHang; in particular never by fuel exhaustion) iff its last request blocked;
   after any other terminal segment (refusal, last request) the server closes. *)
Theorem c06_wire_decomposition : forall date script dflt input eof,
  let o := serve fixed date script dflt input eof in
  exists segs : list seg,
    o_wire o = segs_bytes date segs /\
    map snd (seg_reqs segs) = o_reqs o /\
    map fst (seg_reqs segs) = used_actions script dflt (List.length (o_reqs o)) /\
    (forall pre sg post, segs = pre ++ sg :: post -> seg_ok sg /\ (terminal sg = true -> post = [])) /\
    (o_end o = CHang <-> existsb seg_blocked segs = true) /\
    (existsb terminal segs = true -> existsb seg_blocked segs = false -> o_end o = CClosed).
Proof. exact wire_decomposition. Qed.
Print Assumptions c06_wire_decomposition.

(* the same for the loop in any state (accumulated wire and requests), any fuel above the number of
   pending bytes; trace_spec is the conjunction above (with trace_ok, see c06_trace_ok_spec, and
   end_spec = the last two conjuncts) relative to the accumulators *)
Theorem c06_loop_decomposition : forall date dflt f script st wire reqs al ok,
  (slen st < f)%nat ->
  exists segs, trace_spec date script dflt wire reqs
                 (serve_loop fixed date f script dflt st wire reqs al ok) segs.
Proof. exact loop_trace. Qed.
Print Assumptions c06_loop_decomposition.

(* reading a segment list without 505s: one contribution per delivered request, in order, followed
   by [] or the bytes of a single 400/417 refusal *)
Theorem c06_segments_without_505 : forall date segs,
  trace_ok segs -> forallb (fun sg => negb (is_505 sg)) segs = true ->
  segs_bytes date segs = List.concat (map (contrib_of date) (seg_reqs segs)) ++ refusal_tail date segs /\
  (refusal_tail date segs = [] \/ is_refusal date (refusal_tail date segs)).
Proof. exact segs_bytes_no505. Qed.
Print Assumptions c06_segments_without_505.

Theorem c06_trace_ok_spec : forall segs, trace_ok segs <->
  forall pre sg post, segs = pre ++ sg :: post -> seg_ok sg /\ (terminal sg = true -> post = []).
Proof. exact trace_ok_spec. Qed.
Print Assumptions c06_trace_ok_spec.

(* ---- 2. seen by the client ---- *)
(* the contribution of ANY delivered request answered by respond (status 100..999, body below
   2^64 bytes) or dropped, within the modelled TE domain: an interim 100 response exactly when
   contribution has one, then exactly one message with the status and body of the action
   (expected_answer: 500 and no body for FDrop; no body for HEAD and 1xx/204/304), self-delimited,
   and what follows it on the wire is what follows the contribution *)
Theorem c06_contribution_parses : forall date a d w rest,
  answerable a -> C04Facts.nolf date = true -> In (d_ver d) versions ->
  te_wish (d_headers d) = Some w -> d_end d <> EndBlock ->
  let h := is_head (d_method d) in
  exists x p,
    (if expects_of (d_headers d) && asks_body a
     then exists p0, parse_response h (contribution date a d ++ rest) = Some p0 /\
                     p_status p0 = 100%N /\ p_body p0 = [] /\ p_rest p0 = x
     else x = contribution date a d ++ rest) /\
    parse_response h x = Some p /\ (p_status p, p_body p) = expected_answer h a /\
    p_rest p = rest /\ p_delim p <> UntilClose.
Proof. exact contribution_parse. Qed.
Print Assumptions c06_contribution_parses.

(* a pipeline of k simple requests (GET <target> HTTP/1.1, Host: h), each answered by respond or
   dropped, whatever each action reads: the k requests are delivered in order, and the client parser
   splits the wire into exactly k messages, the i-th with the status and body of the i-th action,
   nothing left over. In particular a dropped request is answered 500 in its place and the
   responses after it follow. *)
Theorem c06_one_final_response_per_request : forall date dflt script ts eof,
  Forall good_target ts -> C04Facts.nolf date = true ->
  Forall answerable (used_actions script dflt (List.length ts)) ->
  let o := serve fixed date script dflt (pipeline ts) eof in
  map d_url (o_reqs o) = ts /\
  exists ps, parse_stream (repeat false (List.length ts)) (o_wire o) = (ps, []) /\
             List.length ps = List.length ts /\
             map status_body ps = map (expected_answer false) (used_actions script dflt (List.length ts)) /\
             Forall (fun p => p_delim p <> UntilClose) ps.
Proof. exact pipeline_parsed. Qed.
Print Assumptions c06_one_final_response_per_request.

Theorem c06_used_actions_nth : forall script dflt n i, (i < n)%nat ->
  nth i (used_actions script dflt n) dflt = nth i script dflt.
Proof. exact used_actions_nth. Qed.
Print Assumptions c06_used_actions_nth.

(* ---- 3. the final answer by kind of finish (d_end d <> EndBlock: the handler is not stuck) ---- *)
Theorem c06_respond_bytes : forall date a d, d_end d <> EndBlock ->
  forall code body declared, a_finish a = FRespond code body declared ->
  contribution date a d =
  (if expects_of (d_headers d) && asks_body a then interim date (d_ver d) (d_headers d) else []) ++
  fst (render date (new_response code [] body (if declared then Some (len body) else None))
              (d_ver d) (d_headers d) (is_head (d_method d)) None).
Proof. exact respond_contribution. Qed.
Print Assumptions c06_respond_bytes.

Theorem c06_drop_gets_500 : forall date a d, d_end d <> EndBlock -> a_finish a = FDrop ->
  contribution date a d =
  (if expects_of (d_headers d) && asks_body a then interim date (d_ver d) (d_headers d) else []) ++
  fst (render date (empty_response 500) (d_ver d) (d_headers d) (is_head (d_method d)) None).
Proof. exact drop_contribution. Qed.
Print Assumptions c06_drop_gets_500.

Theorem c06_raw_writer_bytes : forall date a d, d_end d <> EndBlock ->
  forall data, a_finish a = FWriter data ->
  contribution date a d =
  (if expects_of (d_headers d) && asks_body a then interim date (d_ver d) (d_headers d) else []) ++ data.
Proof. exact writer_contribution. Qed.
Print Assumptions c06_raw_writer_bytes.

Theorem c06_upgrade_bytes : forall date a d, d_end d <> EndBlock ->
  forall proto, a_finish a = FUpgrade proto ->
  contribution date a d =
  (if expects_of (d_headers d) && asks_body a then interim date (d_ver d) (d_headers d) else []) ++
  fst (render date (empty_response 101) (d_ver d) (d_headers d) false (Some proto)).
Proof. exact upgrade_contribution. Qed.
Print Assumptions c06_upgrade_bytes.

Theorem c06_no_interim : forall date a d, expects_of (d_headers d) = false \/ a_reads a = [] ->
  contribution date a d =
  (if is_block (d_end d) then [] else final_bytes date a (d_method d) (d_ver d) (d_headers d)).
Proof. exact contribution_no_interim. Qed.
Print Assumptions c06_no_interim.

(* ---- 4. no response without a request ---- *)
(* nothing delivered: the wire holds only 505 responses (one per head of version 2.0/3.0) and at
   most one refusal *)
Theorem c06_no_response_without_request : forall date script dflt input eof,
  o_reqs (serve fixed date script dflt input eof) = [] ->
  exists n tail, o_wire (serve fixed date script dflt input eof)
                 = List.concat (repeat (bytes_505 date) n) ++ tail /\
                 (tail = [] \/ is_refusal date tail).
Proof. exact no_response_without_request. Qed.
Print Assumptions c06_no_response_without_request.

(* no complete head at all: nothing is sent *)
Theorem c06_nothing_without_head : forall date script dflt input eof,
  read_head fixed input = HeadEof ->
  serve fixed date script dflt input eof = mkO [] [] (if eof then CClosed else COpen) [] true.
Proof. exact nothing_without_head. Qed.
Print Assumptions c06_nothing_without_head.

(* ---- non-vacuity ---- *)
Definition c06_ts : list bytes := [s "/a"; s "/b"; s "/c"].
Definition c06_script : list action :=
  [mkA [] (FRespond 200 (s "hello") true); mkA [(4%N, 2%nat)] FDrop].
Definition c06_dflt : action := mkA [] (FRespond 404 (s "nf") false).

Example c06_example_hyps :
  Forall good_target c06_ts /\ C04Facts.nolf (s "D") = true /\
  Forall answerable (used_actions c06_script c06_dflt (List.length c06_ts)).
Proof.
  split; [repeat constructor|split; [reflexivity|]].
  repeat constructor; vm_compute; intros H; discriminate H.
Qed.

(* 200 with body / dropped / 404 (chunked, no declared length), parsed back by the client *)
Example c06_example_pipeline :
  let o := serve fixed (s "D") c06_script c06_dflt (pipeline c06_ts) true in
  map d_url (o_reqs o) = c06_ts /\
  (let '(ps, r) := parse_stream [false; false; false] (o_wire o) in
   (map status_body ps, map p_delim ps, r))
  = ([(200%N, s "hello"); (500%N, []); (404%N, s "nf")], [ByLength; ByLength; ByChunked], []).
Proof. vm_compute. split; reflexivity. Qed.

(* a delivered request, a 2.0 head (505 in place), a request with Expect answered through the raw
   writer after reading the body (interim response first), then a bad request line (400, close) *)
Definition c06_mixed : bytes :=
  sr_bytes (s "/a") ++ s "GET /b HTTP/2.0" ++ CRLF ++ CRLF ++
  s "POST /p HTTP/1.1" ++ CRLF ++ s "Content-Length: 3" ++ CRLF ++ s "Expect: 100-continue" ++ CRLF ++ CRLF ++
  s "abc" ++ s "BAD" ++ CRLF ++ CRLF.
Definition c06_a1 : action := mkA [] FDrop.
Definition c06_a2 : action := mkA [(10%N, 4%nat)] (FWriter (s "RAW")).
Example c06_example_decomposition :
  let o := serve fixed (s "D") [c06_a1; c06_a2] c06_dflt c06_mixed false in
  match o_reqs o with
  | [d1; d2] =>
      o_wire o = segs_bytes (s "D") [SReq c06_a1 d1; S505; SReq c06_a2 d2; SRefuse 400 (1, 1)%N false] /\
      contribution (s "D") c06_a2 d2 = interim (s "D") (1, 1)%N (d_headers d2) ++ s "RAW" /\
      d_read d2 = s "abc" /\ o_end o = CClosed
  | _ => False
  end.
Proof. vm_compute. repeat split; reflexivity. Qed.

(* the only unanswered request: the handler waits for a body the client never sends (no half-close) *)
Example c06_example_blocked :
  let o := serve fixed (s "D") [c06_a2] c06_dflt
             (s "POST /p HTTP/1.1" ++ CRLF ++ s "Content-Length: 3" ++ CRLF ++ s "Expect: 100-continue" ++ CRLF ++ CRLF)
             false in
  match o_reqs o with
  | [d] => d_end d = EndBlock /\ o_end o = CHang /\
           o_wire o = interim (s "D") (1, 1)%N (d_headers d) /\ o_wire o = contribution (s "D") c06_a2 d
  | _ => False
  end.
Proof. vm_compute. repeat split; reflexivity. Qed.

(* a dropped HEAD request: 500, head only *)
Example c06_example_drop_head :
  let o := serve fixed (s "D") [] c06_a1 (s "HEAD /x HTTP/1.0" ++ CRLF ++ CRLF) true in
  option_map (fun p => (p_status p, p_body p, p_rest p)) (parse_response true (o_wire o))
  = Some (500%N, [], []) /\ List.length (o_reqs o) = 1%nat.
Proof. vm_compute. split; reflexivity. Qed.

Example c06_example_no_request :
  o_reqs (serve fixed (s "D") [] c06_dflt (s "GET /b HTTP/3.0" ++ CRLF ++ CRLF ++ s "BAD" ++ CRLF) true) = [] /\
  o_wire (serve fixed (s "D") [] c06_dflt (s "GET /b HTTP/3.0" ++ CRLF ++ CRLF ++ s "BAD" ++ CRLF) true)
  = bytes_505 (s "D") ++ error_bytes (s "D") 400 (1, 1)%N false.
Proof. vm_compute. split; reflexivity. Qed.
