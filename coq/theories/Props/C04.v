(* Props/C04.v — placeholder until the round-trip proof lands. *)
From TH Require Import Base.Bytes Http.Response Http.ClientSpec.
Example c04_example :
  option_map (fun p => (p_status p, p_body p, p_rest p))
    (parse_response false (raw_print_with Chunked (s "D") (from_data (s "hello")) (1,1)%N false None ++ s "NEXT"))
  = Some (200%N, s "hello", s "NEXT").
Proof. vm_compute. reflexivity. Qed.
